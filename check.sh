#!/bin/sh
# check.sh <Cxx> [quick|thorough] [--replay <file>]
# Rebuilds the harness against /repo's current working tree (build tag verif)
# and runs one property check. Exit 0 = held on everything explored,
# 1 = violation (VIOLATION line printed), 2 = infrastructure error, 3 = observed nothing.
set -u
ROOT="$(cd "$(dirname "$0")" && pwd)"
export GOFLAGS=-mod=mod GOPROXY=off GOSUMDB=off GOTOOLCHAIN=local
export VERIF_ROOT="$ROOT"
PROP="${1:-}"
[ -n "$PROP" ] || { echo "usage: check.sh <Cxx> [quick|thorough] [--replay file]" >&2; exit 2; }
shift
TIER="${VERIF_TIER:-quick}"
REPLAY=""
while [ $# -gt 0 ]; do
  case "$1" in
    quick|thorough) TIER="$1" ;;
    --replay) shift; REPLAY="${1:-}" ;;
  esac
  shift
done
mkdir -p "$ROOT/.build" "$ROOT/evidence"
cd "$ROOT/harness" || exit 2
[ -f go.sum ] || cp /repo/go.sum ./go.sum
if ! go build -tags verif -o "$ROOT/.build/vcheck" ./cmd/vcheck > "$ROOT/.build/build.log" 2>&1; then
  echo "BUILD-FAILED: harness does not build against /repo (see below)" >&2
  cat "$ROOT/.build/build.log" >&2
  exit 2
fi
if [ "$PROP" = "C20" ]; then
  if ! go build -race -tags verif -o "$ROOT/.build/vcheck-race" ./cmd/vcheck > "$ROOT/.build/build-race.log" 2>&1; then
    echo "BUILD-FAILED: race build" >&2
    cat "$ROOT/.build/build-race.log" >&2
    exit 2
  fi
  export VCHECK_RACE_EXE="$ROOT/.build/vcheck-race"
fi
cd "$ROOT" || exit 2
if [ -n "$REPLAY" ]; then
  exec "$ROOT/.build/vcheck" -replay "$REPLAY"
fi
exec "$ROOT/.build/vcheck" -prop "$PROP" -tier "$TIER"
