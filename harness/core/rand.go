// Package core is the orchestration layer shared by every property driver:
// deterministic randomness, the per-batch context in which monitors report what
// they observed, the worker/orchestrator process split, known-findings
// matching, evidence and replay files.
package core

import "hash/fnv"

// Rand is a splitmix64 stream. All randomness in the harness derives from
// (VERIF_SEED, property id, batch, case index) so that any case can be
// regenerated on its own.
type Rand struct{ s uint64 }

func NewRand(seed uint64) *Rand { return &Rand{s: seed} }

func (r *Rand) Uint64() uint64 {
	r.s += 0x9e3779b97f4a7c15
	z := r.s
	z = (z ^ (z >> 30)) * 0xbf58476d1ce4e5b9
	z = (z ^ (z >> 27)) * 0x94d049bb133111eb
	return z ^ (z >> 31)
}

// Intn returns a value in [0,n). n must be > 0.
func (r *Rand) Intn(n int) int {
	if n <= 1 {
		return 0
	}
	return int(r.Uint64() % uint64(n))
}

func (r *Rand) Int63() int64 { return int64(r.Uint64() >> 1) }

func (r *Rand) Bool() bool { return r.Uint64()&1 == 1 }

// Chance returns true with probability num/den.
func (r *Rand) Chance(num, den int) bool { return r.Intn(den) < num }

func (r *Rand) Float64() float64 { return float64(r.Uint64()>>11) / (1 << 53) }

// Pick returns a pseudo-random index weighted by w.
func (r *Rand) Weighted(w []int) int {
	t := 0
	for _, x := range w {
		t += x
	}
	if t <= 0 {
		return 0
	}
	k := r.Intn(t)
	for i, x := range w {
		if k < x {
			return i
		}
		k -= x
	}
	return len(w) - 1
}

// Perm returns a permutation of 0..n-1.
func (r *Rand) Perm(n int) []int {
	p := make([]int, n)
	for i := range p {
		p[i] = i
	}
	for i := n - 1; i > 0; i-- {
		j := r.Intn(i + 1)
		p[i], p[j] = p[j], p[i]
	}
	return p
}

// Fork derives an independent stream.
func (r *Rand) Fork() *Rand { return NewRand(r.Uint64()) }

func HashString(s string) uint64 {
	h := fnv.New64a()
	h.Write([]byte(s))
	return h.Sum64()
}

// mix combines integers into a seed.
func mix(vals ...uint64) uint64 {
	h := uint64(0x243f6a8885a308d3)
	for _, v := range vals {
		h ^= v + 0x9e3779b97f4a7c15 + (h << 6) + (h >> 2)
		r := Rand{s: h}
		h = r.Uint64()
	}
	return h
}
