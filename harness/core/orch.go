package core

import (
	"context"
	"encoding/json"
	"flag"
	"fmt"
	"os"
	"os/exec"
	"path/filepath"
	"regexp"
	"runtime"
	"sort"
	"strconv"
	"strings"
	"sync"
	"time"
)

// Info describes a driver for the evidence file.
type Info struct {
	Title         string
	Rule          string   // how cases are generated and what makes one non-trivial / distinct
	Assumptions   []string // trusted base / assumptions
	MinNontrivial int64    // a run that observed fewer is "observed nothing" (exit 3)
	MemLimitKB    int64    // ulimit -v for workers (0 = none); ignored for race batches
	Durable       bool     // always log each case to disk before executing it
}

// Driver is one property check.
type Driver interface {
	ID() string
	Info() Info
	Batches(tier string) int
	Run(c *Ctx)
}

// RaceBatcher is implemented by drivers some of whose batches must run in the
// -race build of the worker.
type RaceBatcher interface {
	IsRaceBatch(tier string, batch int) bool
}

type replayFile struct {
	Violation Violation `json:"violation"`
	Driver    string    `json:"driver"`
	Cmd       string    `json:"cmd"`
}

// Main is the entry point of cmd/vcheck.
func Main(drivers map[string]Driver) {
	prop := flag.String("prop", "", "property id (C01..C20)")
	tier := flag.String("tier", "quick", "quick|thorough")
	seedF := flag.Int64("seed", -1, "seed (default $VERIF_SEED or 1)")
	worker := flag.Bool("worker", false, "run one batch (internal)")
	batch := flag.Int("batch", 0, "batch index (worker)")
	out := flag.String("out", "", "result path (worker)")
	durable := flag.String("durable", "", "log each case to this file before running it (worker)")
	only := flag.Int64("only", -1, "run only this case index (worker)")
	replay := flag.String("replay", "", "replay file")
	root := flag.String("root", envOr("VERIF_ROOT", "/verif"), "verif root")
	jobs := flag.Int("j", runtime.NumCPU(), "parallel workers")
	verbose := flag.Bool("v", false, "verbose")
	list := flag.Bool("list", false, "list drivers")
	flag.Parse()

	if *list {
		for _, k := range sortedKeys(drivers) {
			fmt.Println(k, drivers[k].Info().Title)
		}
		return
	}
	seed := *seedF
	if seed < 0 {
		seed = 1
		if s := os.Getenv("VERIF_SEED"); s != "" {
			if n, err := strconv.ParseInt(strings.TrimSpace(s), 10, 64); err == nil {
				seed = n
			}
		}
	}
	if t := os.Getenv("VERIF_TIER"); t != "" && !isFlagSet("tier") {
		*tier = t
	}
	if *tier != "quick" && *tier != "thorough" {
		*tier = "quick"
	}

	if *replay != "" {
		os.Exit(doReplay(drivers, *replay, *root, *verbose))
	}
	d, ok := drivers[*prop]
	if !ok {
		fmt.Fprintf(os.Stderr, "unknown property %q\n", *prop)
		os.Exit(2)
	}
	findings, err := LoadFindings(filepath.Join(*root, "known_findings.json"))
	if err != nil {
		fmt.Fprintf(os.Stderr, "known_findings.json: %v\n", err)
		os.Exit(2)
	}
	if *worker {
		os.Exit(runWorker(d, *tier, seed, *batch, *out, *durable, *only, findings, *verbose))
	}
	os.Exit(orchestrate(d, *tier, seed, *root, *jobs, findings, *verbose))
}

func isFlagSet(name string) bool {
	set := false
	flag.Visit(func(f *flag.Flag) {
		if f.Name == name {
			set = true
		}
	})
	return set
}

func envOr(k, d string) string {
	if v := os.Getenv(k); v != "" {
		return v
	}
	return d
}

func runWorker(d Driver, tier string, seed int64, batch int, out, durable string, only int64, findings []Finding, verbose bool) int {
	nb := d.Batches(tier)
	c := NewCtx(d.ID(), tier, seed, batch, nb, findings)
	c.Only = only
	c.Verbose = verbose
	if durable != "" {
		if err := c.EnableDurable(durable); err != nil {
			fmt.Fprintln(os.Stderr, err)
			return 2
		}
	}
	d.Run(c)
	hashPath := ""
	if out != "" {
		hashPath = out + ".hashes"
	}
	res := c.finish(hashPath)
	b, err := json.Marshal(res)
	if err != nil {
		fmt.Fprintln(os.Stderr, "marshal result:", err)
		return 2
	}
	if out == "" {
		os.Stdout.Write(b)
		return 0
	}
	if err := os.WriteFile(out, b, 0o644); err != nil {
		fmt.Fprintln(os.Stderr, err)
		return 2
	}
	return 0
}

type batchRun struct {
	idx      int
	res      *BatchResult
	exitErr  error
	timedOut bool
	log      string
	raceN    []raceReport
	wall     time.Duration
}

type raceReport struct {
	Key   string
	Block string
}

func orchestrate(d Driver, tier string, seed int64, root string, jobs int, findings []Finding, verbose bool) int {
	start := time.Now()
	info := d.Info()
	nb := d.Batches(tier)
	self, _ := os.Executable()
	raceExe := os.Getenv("VCHECK_RACE_EXE")
	runDir := filepath.Join(root, ".build", "run", d.ID()+"-"+tier)
	os.RemoveAll(runDir)
	if err := os.MkdirAll(runDir, 0o755); err != nil {
		fmt.Fprintln(os.Stderr, err)
		return 2
	}
	evPath := filepath.Join(root, "evidence", d.ID()+".json")
	os.MkdirAll(filepath.Dir(evPath), 0o755)

	perBatchTimeout := 20 * time.Minute
	if tier == "thorough" {
		perBatchTimeout = 120 * time.Minute
	}
	if s := os.Getenv("VERIF_BATCH_TIMEOUT_S"); s != "" {
		if n, err := strconv.Atoi(s); err == nil {
			perBatchTimeout = time.Duration(n) * time.Second
		}
	}

	runs := make([]*batchRun, nb)
	var wg sync.WaitGroup
	sem := make(chan struct{}, jobs)
	for i := 0; i < nb; i++ {
		wg.Add(1)
		sem <- struct{}{}
		go func(i int) {
			defer wg.Done()
			defer func() { <-sem }()
			runs[i] = runBatchProc(d, info, self, raceExe, tier, seed, i, runDir, perBatchTimeout, "", -1, verbose)
		}(i)
	}
	wg.Wait()

	// Aggregate.
	agg := BatchResult{Counters: map[string]int64{}, VioCounts: map[string]int64{}, KnownCounts: map[string]int64{},
		KnownSample: map[string]string{}, CrossNotes: map[string]int64{}, CrossSample: map[string]string{}}
	hashes := map[uint64]bool{}
	var inconclusive []string
	var crashes []Violation
	exh := map[string]bool{}
	for _, r := range runs {
		if r.res == nil || !r.res.Completed {
			if r.timedOut {
				inconclusive = append(inconclusive, fmt.Sprintf("batch %d: watchdog after %s", r.idx, perBatchTimeout))
				continue
			}
			// Crash that recover() could not see: locate the case by re-running in durable mode.
			cv := locateCrash(d, info, self, raceExe, tier, seed, r, runDir, perBatchTimeout, verbose)
			crashes = append(crashes, cv)
			continue
		}
		b := r.res
		agg.Evaluations += b.Evaluations
		agg.Cases += b.Cases
		agg.BulkDistinct += b.BulkDistinct
		for k, v := range b.Counters {
			agg.Counters[k] += v
		}
		for k, v := range b.VioCounts {
			agg.VioCounts[k] += v
		}
		for k, v := range b.KnownCounts {
			agg.KnownCounts[k] += v
		}
		for k, v := range b.KnownSample {
			if _, ok := agg.KnownSample[k]; !ok {
				agg.KnownSample[k] = v
			}
		}
		for k, v := range b.CrossNotes {
			agg.CrossNotes[k] += v
		}
		for k, v := range b.CrossSample {
			if _, ok := agg.CrossSample[k]; !ok {
				agg.CrossSample[k] = v
			}
		}
		if len(agg.Samples) < 6 {
			for _, s := range b.Samples {
				if len(agg.Samples) < 6 {
					agg.Samples = append(agg.Samples, s)
				}
			}
		}
		agg.Violations = append(agg.Violations, b.Violations...)
		for _, e := range b.Exhaustive {
			exh[e] = true
		}
		if b.HashFile != "" {
			if data, err := os.ReadFile(b.HashFile); err == nil {
				for p := 0; p+9 <= len(data); p += 9 {
					var h uint64
					for k := 0; k < 8; k++ {
						h |= uint64(data[p+k]) << (8 * k)
					}
					if data[p+8] == 1 {
						hashes[h] = true
					} else if _, ok := hashes[h]; !ok {
						hashes[h] = false
					}
				}
			}
		}
		// race reports (each distinct block is a violation of the schedules clause)
		for _, rr := range r.raceN {
			v := Violation{Property: d.ID(), Site: "race-detector", Facet: "data race", Class: rr.Key,
				Witness: rr.Block, Detail: "WARNING: DATA RACE reported by the Go race detector", Seed: seed, Tier: tier, Batch: r.idx, Case: -1}
			matched := false
			for i := range findings {
				if findings[i].matches(&v) {
					agg.KnownCounts[findings[i].ID]++
					matched = true
					break
				}
			}
			if !matched {
				agg.VioCounts[v.Signature()]++
				agg.Violations = append(agg.Violations, v)
			}
		}
	}
	for _, cv := range crashes {
		matched := false
		for i := range findings {
			if findings[i].matches(&cv) {
				agg.KnownCounts[findings[i].ID]++
				if _, ok := agg.KnownSample[findings[i].ID]; !ok {
					agg.KnownSample[findings[i].ID] = clip(cv.Witness, 400)
				}
				matched = true
				break
			}
		}
		if !matched {
			agg.VioCounts[cv.Signature()]++
			agg.Violations = append(agg.Violations, cv)
		}
	}
	var distinct, nontrivial int64
	for _, nt := range hashes {
		distinct++
		if nt {
			nontrivial++
		}
	}
	nontrivial += agg.BulkDistinct
	distinct += agg.BulkDistinct

	// Report.
	exit := 0
	repDir := filepath.Join(root, "replays", d.ID())
	seenSig := map[string]bool{}
	nrep := 0
	sort.SliceStable(agg.Violations, func(i, j int) bool {
		if agg.Violations[i].Batch != agg.Violations[j].Batch {
			return agg.Violations[i].Batch < agg.Violations[j].Batch
		}
		return agg.Violations[i].Case < agg.Violations[j].Case
	})
	var vioSummaries []map[string]any
	for _, v := range agg.Violations {
		sig := v.Signature()
		if seenSig[sig] {
			continue
		}
		seenSig[sig] = true
		exit = 1
		os.MkdirAll(repDir, 0o755)
		nrep++
		p := filepath.Join(repDir, fmt.Sprintf("%s-%s-s%d-%03d.json", d.ID(), tier, seed, nrep))
		rf := replayFile{Violation: v, Driver: d.ID(), Cmd: fmt.Sprintf("/verif/check.sh %s --replay %s", d.ID(), p)}
		b, _ := json.MarshalIndent(rf, "", " ")
		os.WriteFile(p, b, 0o644)
		fmt.Printf("VIOLATION property=%s replay=%s\n", d.ID(), p)
		fmt.Printf("  signature: %s  (x%d)\n  witness: %s\n  detail: %s\n", sig, agg.VioCounts[sig], clip(v.Witness, 1500), clip(v.Detail, 1500))
		vioSummaries = append(vioSummaries, map[string]any{"signature": sig, "count": agg.VioCounts[sig], "replay": p, "witness": clip(v.Witness, 600), "detail": clip(v.Detail, 600)})
	}
	var knownSeen []map[string]any
	for _, id := range sortedKeys(agg.KnownCounts) {
		var f *Finding
		for i := range findings {
			if findings[i].ID == id {
				f = &findings[i]
			}
		}
		what := ""
		if f != nil {
			what = f.What
		}
		fmt.Printf("KNOWN-FINDING: property=%s %s %s (observed %d times, e.g. %s)\n", d.ID(), id, what, agg.KnownCounts[id], clip(agg.KnownSample[id], 200))
		knownSeen = append(knownSeen, map[string]any{"id": id, "count": agg.KnownCounts[id], "example": agg.KnownSample[id]})
	}
	for _, s := range inconclusive {
		fmt.Printf("INCONCLUSIVE property=%s %s\n", d.ID(), s)
	}
	if exit == 0 && nontrivial < info.MinNontrivial {
		fmt.Printf("OBSERVED-NOTHING property=%s nontrivial=%d < required %d\n", d.ID(), nontrivial, info.MinNontrivial)
		exit = 3
	}

	wall := time.Since(start).Seconds()
	exhList := make([]string, 0, len(exh))
	for k := range exh {
		exhList = append(exhList, k)
	}
	sort.Strings(exhList)
	cross := map[string]any{}
	for k, v := range agg.CrossNotes {
		cross[k] = map[string]any{"count": v, "example": agg.CrossSample[k]}
	}
	if agg.Samples == nil {
		agg.Samples = []any{}
	}
	nViol := int64(0)
	for _, n := range agg.VioCounts {
		nViol += n
	}
	ev := map[string]any{
		"property_id": d.ID(),
		"tier":        tier,
		"seed":        seed,
		"level":       "exploration",
		"coverage": map[string]any{
			"evaluations":              agg.Evaluations,
			"distinct_nontrivial":      nontrivial,
			"distinct_cases":           distinct,
			"cases":                    agg.Cases,
			"rule":                     info.Rule,
			"samples":                  agg.Samples,
			"counters":                 agg.Counters,
			"exhaustive_subspaces":     exhList,
			"batches":                  nb,
			"inconclusive":             inconclusive,
			"known_findings_observed":  knownSeen,
			"violations_new":           vioSummaries,
			"cross_property_observations": cross,
			"verdict":                  verdictText(exit, len(inconclusive)),
		},
		"assumptions": info.Assumptions,
		"wall_s":      wall,
		"violations":  nViol,
	}
	b, _ := json.MarshalIndent(ev, "", " ")
	if err := os.WriteFile(evPath, b, 0o644); err != nil {
		fmt.Fprintln(os.Stderr, "evidence:", err)
		return 2
	}
	fmt.Printf("%s %s seed=%d: cases=%d evaluations=%d distinct_nontrivial=%d known=%d new_violation_signatures=%d inconclusive=%d wall=%.1fs -> exit %d\n",
		d.ID(), tier, seed, agg.Cases, agg.Evaluations, nontrivial, len(agg.KnownCounts), len(seenSig), len(inconclusive), wall, exit)
	if exit == 0 {
		os.RemoveAll(runDir)
	}
	return exit
}

func verdictText(exit, inconcl int) string {
	switch {
	case exit == 1:
		return "violated"
	case exit == 3:
		return "observed nothing"
	case inconcl > 0:
		return "held on what was observed; some batches inconclusive"
	default:
		return "held on what was observed"
	}
}

func runBatchProc(d Driver, info Info, self, raceExe, tier string, seed int64, i int, runDir string, timeout time.Duration, durable string, only int64, verbose bool) *batchRun {
	r := &batchRun{idx: i}
	t0 := time.Now()
	out := filepath.Join(runDir, fmt.Sprintf("b%03d.json", i))
	logp := filepath.Join(runDir, fmt.Sprintf("b%03d.log", i))
	os.Remove(out)
	exe := self
	isRace := false
	if rb, ok := d.(RaceBatcher); ok && rb.IsRaceBatch(tier, i) {
		if raceExe == "" {
			r.exitErr = fmt.Errorf("race batch but VCHECK_RACE_EXE unset")
			return r
		}
		exe = raceExe
		isRace = true
	}
	args := []string{"-worker", "-prop", d.ID(), "-tier", tier, "-seed", strconv.FormatInt(seed, 10), "-batch", strconv.Itoa(i), "-out", out}
	if durable != "" || info.Durable {
		if durable == "" {
			durable = filepath.Join(runDir, fmt.Sprintf("b%03d.cases", i))
		}
		args = append(args, "-durable", durable)
	}
	if only >= 0 {
		args = append(args, "-only", strconv.FormatInt(only, 10))
	}
	if verbose {
		args = append(args, "-v")
	}
	ctx, cancel := context.WithTimeout(context.Background(), timeout)
	defer cancel()
	var cmd *exec.Cmd
	if info.MemLimitKB > 0 && !isRace {
		sh := fmt.Sprintf("ulimit -v %d; exec \"$0\" \"$@\"", info.MemLimitKB)
		cmd = exec.CommandContext(ctx, "sh", append([]string{"-c", sh, exe}, args...)...)
	} else {
		cmd = exec.CommandContext(ctx, exe, args...)
	}
	lf, _ := os.Create(logp)
	cmd.Stdout = lf
	cmd.Stderr = lf
	cmd.Env = append(os.Environ(), "GOTRACEBACK=single")
	raceLog := filepath.Join(runDir, fmt.Sprintf("b%03d.race", i))
	if isRace {
		cmd.Env = append(cmd.Env, "GORACE=halt_on_error=0 log_path="+raceLog)
	}
	err := cmd.Run()
	lf.Close()
	r.wall = time.Since(t0)
	r.log = logp
	if ctx.Err() == context.DeadlineExceeded {
		r.timedOut = true
	}
	r.exitErr = err
	if b, e := os.ReadFile(out); e == nil {
		var br BatchResult
		if json.Unmarshal(b, &br) == nil {
			r.res = &br
		}
	}
	if isRace {
		matches, _ := filepath.Glob(raceLog + ".*")
		for _, m := range matches {
			if data, e := os.ReadFile(m); e == nil {
				r.raceN = append(r.raceN, parseRaceLog(string(data))...)
			}
		}
	}
	return r
}

var reRaceFrame = regexp.MustCompile(`(?m)^\s+(github\.com/zclconf/go-cty/[^\s(]+)`)

// parseRaceLog splits a race-detector log into report blocks, keyed by the
// outermost go-cty frames of the stacks (line numbers stripped).
func parseRaceLog(s string) []raceReport {
	var out []raceReport
	seen := map[string]bool{}
	parts := strings.Split(s, "WARNING: DATA RACE")
	for _, p := range parts[1:] {
		if i := strings.Index(p, "=================="); i >= 0 {
			p = p[:i]
		}
		secs := strings.Split(p, "\n\n")
		var keys []string
		for _, sec := range secs {
			fr := reRaceFrame.FindAllStringSubmatch(sec, -1)
			if len(fr) > 0 {
				// first = innermost, last = outermost go-cty frame
				keys = append(keys, fr[0][1]+"<-"+fr[len(fr)-1][1])
			}
			if len(keys) == 2 {
				break
			}
		}
		sort.Strings(keys)
		k := strings.Join(keys, " || ")
		if !seen[k] {
			seen[k] = true
			out = append(out, raceReport{Key: k, Block: clip("WARNING: DATA RACE"+p, 4000)})
		}
	}
	return out
}

// locateCrash re-runs a crashed batch with the case log enabled and returns a
// violation naming the last case that was started.
func locateCrash(d Driver, info Info, self, raceExe, tier string, seed int64, r *batchRun, runDir string, timeout time.Duration, verbose bool) Violation {
	durable := filepath.Join(runDir, fmt.Sprintf("b%03d.cases", r.idx))
	r2 := runBatchProc(d, info, self, raceExe, tier, seed, r.idx, runDir, timeout, durable, -1, verbose)
	lastDesc, lastIdx := "", int64(-1)
	if data, err := os.ReadFile(durable); err == nil {
		lines := strings.Split(strings.TrimSpace(string(data)), "\n")
		for k := len(lines) - 1; k >= 0; k-- {
			var rec struct {
				Begin int64  `json:"begin"`
				Desc  string `json:"desc"`
			}
			if json.Unmarshal([]byte(lines[k]), &rec) == nil {
				lastDesc, lastIdx = rec.Desc, rec.Begin
				break
			}
		}
	}
	logTxt := ""
	lp := r.log
	if r2 != nil && r2.log != "" {
		lp = r2.log
	}
	if b, err := os.ReadFile(lp); err == nil {
		logTxt = string(b)
	}
	first := "worker exited abnormally"
	for _, ln := range strings.Split(logTxt, "\n") {
		if strings.HasPrefix(ln, "fatal error:") || strings.HasPrefix(ln, "panic:") || strings.HasPrefix(ln, "runtime:") {
			first = strings.TrimSpace(ln)
			break
		}
	}
	reproduced := r2 != nil && (r2.res == nil || !r2.res.Completed)
	detail := fmt.Sprintf("worker process for batch %d died (%v); reproduced in durable mode: %v; log tail:\n%s", r.idx, r.exitErr, reproduced, tail(logTxt, 1500))
	return Violation{Property: d.ID(), Site: "worker-process", Facet: "process crash: " + PanicClass(first), Class: "",
		Witness: lastDesc, Detail: detail, Seed: seed, Tier: tier, Batch: r.idx, Case: lastIdx}
}

func tail(s string, n int) string {
	if len(s) <= n {
		return s
	}
	return s[len(s)-n:]
}

func doReplay(drivers map[string]Driver, path, root string, verbose bool) int {
	b, err := os.ReadFile(path)
	if err != nil {
		fmt.Fprintln(os.Stderr, err)
		return 2
	}
	var rf replayFile
	if err := json.Unmarshal(b, &rf); err != nil {
		fmt.Fprintln(os.Stderr, err)
		return 2
	}
	d, ok := drivers[rf.Driver]
	if !ok {
		fmt.Fprintln(os.Stderr, "unknown driver", rf.Driver)
		return 2
	}
	v := rf.Violation
	findings, _ := LoadFindings(filepath.Join(root, "known_findings.json"))
	nb := d.Batches(v.Tier)
	c := NewCtx(d.ID(), v.Tier, v.Seed, v.Batch, nb, findings)
	c.Only = v.Case
	c.Verbose = true
	d.Run(c)
	res := c.finish("")
	if len(res.Violations) == 0 {
		fmt.Printf("replay: case %d of batch %d (seed %d, %s) did not reproduce a new violation\n", v.Case, v.Batch, v.Seed, v.Tier)
		for id, n := range res.KnownCounts {
			fmt.Printf("KNOWN-FINDING: property=%s %s (x%d)\n", d.ID(), id, n)
		}
		return 0
	}
	for _, x := range res.Violations {
		fmt.Printf("VIOLATION property=%s replay=%s\n  signature: %s\n  witness: %s\n  detail: %s\n", d.ID(), path, x.Signature(), x.Witness, x.Detail)
	}
	return 1
}

var registry = map[string]Driver{}

// Register adds a driver to the global registry (used by cmd/vcheck's reg_*.go files).
func Register(d Driver) { registry[d.ID()] = d }

// MainRegistered runs Main over the registry.
func MainRegistered() { Main(registry) }
