package core

import (
	"encoding/json"
	"fmt"
	"os"
	"regexp"
	"runtime/debug"
	"sort"
	"strings"
)

// Violation is one observed refutation of a property clause.
type Violation struct {
	Property string `json:"property"`
	Site     string `json:"site"`            // API entry point (or stdlib function name)
	Facet    string `json:"facet"`           // oracle clause that failed
	Class    string `json:"class,omitempty"` // input class (driver-defined, narrow)
	Witness  string `json:"witness"`         // printable inputs
	Detail   string `json:"detail"`          // what was observed vs. expected
	Seed     int64  `json:"seed"`
	Tier     string `json:"tier"`
	Batch    int    `json:"batch"`
	Case     int64  `json:"case"`
	Known    string `json:"known,omitempty"` // id of the known finding that matched, if any
}

func (v Violation) Signature() string { return v.Site + " | " + v.Facet + " | " + v.Class }

// Finding is one entry of /verif/known_findings.json.
type Finding struct {
	ID        string `json:"id"`
	Property  string `json:"property"`
	Status    string `json:"status"` // "known" or "fixed"
	Site      string `json:"site"`
	Facet     string `json:"facet"`
	Class     string `json:"class,omitempty"`
	WitnessRe string `json:"witness_re,omitempty"`
	What      string `json:"what"`
	Commit    string `json:"commit,omitempty"`
	Record    string `json:"record,omitempty"`
	re        *regexp.Regexp
}

type FindingsFile struct {
	Comment  string    `json:"comment,omitempty"`
	Findings []Finding `json:"findings"`
}

func LoadFindings(path string) ([]Finding, error) {
	b, err := os.ReadFile(path)
	if err != nil {
		if os.IsNotExist(err) {
			return nil, nil
		}
		return nil, err
	}
	var ff FindingsFile
	if err := json.Unmarshal(b, &ff); err != nil {
		return nil, err
	}
	for i := range ff.Findings {
		if ff.Findings[i].WitnessRe != "" {
			re, err := regexp.Compile(ff.Findings[i].WitnessRe)
			if err != nil {
				return nil, fmt.Errorf("finding %s: %v", ff.Findings[i].ID, err)
			}
			ff.Findings[i].re = re
		}
	}
	return ff.Findings, nil
}

// matches reports whether the violation is exactly the listed finding: site,
// facet and class must agree and, if given, the witness pattern must match.
// Entries with status "fixed" never match (they suppress nothing).
func (f *Finding) matches(v *Violation) bool {
	if f.Status != "known" || f.Property != v.Property {
		return false
	}
	if f.Site != v.Site || f.Facet != v.Facet || f.Class != v.Class {
		return false
	}
	if f.re != nil && !f.re.MatchString(v.Witness) {
		return false
	}
	return true
}

// BatchResult is what a worker writes for one batch.
type BatchResult struct {
	Property    string           `json:"property"`
	Batch       int              `json:"batch"`
	Completed   bool             `json:"completed"`
	Evaluations int64            `json:"evaluations"`
	Cases       int64            `json:"cases"`
	Nontrivial  int64            `json:"nontrivial"`
	BulkDistinct int64           `json:"bulk_distinct"`
	Counters    map[string]int64 `json:"counters"`
	Samples     []any            `json:"samples"`
	Violations  []Violation      `json:"violations"`
	VioCounts   map[string]int64 `json:"vio_counts"`   // signature -> count (new)
	KnownCounts map[string]int64 `json:"known_counts"` // finding id -> count
	KnownSample map[string]string `json:"known_sample"` // finding id -> one witness
	CrossNotes  map[string]int64 `json:"cross_notes"`  // passive-monitor observations for other properties
	CrossSample map[string]string `json:"cross_sample"`
	CrossCase   map[string]int64 `json:"cross_case,omitempty"` // case index of the first observation of each note
	HashFile    string           `json:"hash_file"`
	Exhaustive  []string         `json:"exhaustive"`
}

// Ctx is handed to a driver for one batch.
type Ctx struct {
	Prop     string
	Tier     string
	Seed     int64
	Batch    int
	NBatches int
	Only     int64 // -1: run every case; otherwise only that case index (replay)
	Verbose  bool

	findings []Finding
	res      BatchResult
	hashes   map[uint64]bool // hash -> nontrivial
	curCase  int64
	curDesc  string
	durable  *os.File
	maxSamples int
	sampleEvery int64
}

func NewCtx(prop, tier string, seed int64, batch, nb int, findings []Finding) *Ctx {
	c := &Ctx{Prop: prop, Tier: tier, Seed: seed, Batch: batch, NBatches: nb, Only: -1, findings: findings}
	c.res = BatchResult{Property: prop, Batch: batch, Counters: map[string]int64{}, VioCounts: map[string]int64{},
		KnownCounts: map[string]int64{}, KnownSample: map[string]string{}, CrossNotes: map[string]int64{}, CrossSample: map[string]string{}, CrossCase: map[string]int64{}}
	c.hashes = map[uint64]bool{}
	c.maxSamples = 4
	return c
}

// Quick reports whether this is the quick tier.
func (c *Ctx) Quick() bool { return c.Tier != "thorough" }

// N picks the tier's case count.
func (c *Ctx) N(quick, thorough int) int {
	if c.Quick() {
		return quick
	}
	return thorough
}

// RNG returns the stream of case idx in this batch. Independent of every other
// case, so a single case can be regenerated for replay.
func (c *Ctx) RNG(idx int64) *Rand {
	return NewRand(mix(uint64(c.Seed), HashString(c.Prop), uint64(c.Batch), uint64(idx)))
}

// BatchRNG is a stream for per-batch set-up that is independent of the case index.
func (c *Ctx) BatchRNG(salt string) *Rand {
	return NewRand(mix(uint64(c.Seed), HashString(c.Prop), uint64(c.Batch), HashString(salt)))
}

// GlobalRNG is independent of the batch (same in every worker of a run).
func (c *Ctx) GlobalRNG(salt string) *Rand {
	return NewRand(mix(uint64(c.Seed), HashString(c.Prop), HashString(salt)))
}

// Want is false for cases filtered out by a replay.
func (c *Ctx) Want(idx int64) bool { return c.Only < 0 || c.Only == idx }

// Mine splits a seed-independent enumeration between batches.
func (c *Ctx) Mine(i int64) bool { return int(i%int64(c.NBatches)) == c.Batch }

// Begin marks the start of case idx. In durable mode the description is
// written to disk before the case executes so that a crash leaves its witness.
func (c *Ctx) Begin(idx int64, desc func() string) {
	c.curCase = idx
	c.curDesc = ""
	c.res.Cases++
	if c.durable != nil {
		c.curDesc = desc()
		fmt.Fprintf(c.durable, "{\"begin\":%d,\"desc\":%q}\n", idx, c.curDesc)
	}
}

func (c *Ctx) EnableDurable(path string) error {
	f, err := os.OpenFile(path, os.O_CREATE|os.O_WRONLY|os.O_TRUNC, 0o644)
	if err != nil {
		return err
	}
	c.durable = f
	return nil
}

// Eval counts executions of library entry points under a monitor.
func (c *Ctx) Eval(n int) { c.res.Evaluations += int64(n) }

// Count bumps a named counter (per operation, per oracle clause, ...).
func (c *Ctx) Count(key string) { c.res.Counters[key]++ }
func (c *Ctx) CountN(key string, n int64) { c.res.Counters[key] += n }

// Distinct records the canonical form of a case for distinct counting.
func (c *Ctx) Distinct(canon string, nontrivial bool) {
	h := HashString(canon)
	if nt, ok := c.hashes[h]; !ok || (nontrivial && !nt) {
		c.hashes[h] = nontrivial
	}
}

// DistinctHash is Distinct for callers that already hold a hash.
func (c *Ctx) DistinctHash(h uint64, nontrivial bool) {
	if nt, ok := c.hashes[h]; !ok || (nontrivial && !nt) {
		c.hashes[h] = nontrivial
	}
}

// BulkDistinct counts cases from an enumeration that is distinct by
// construction (e.g. all strings over an alphabet up to a length), without
// storing a hash per case.
func (c *Ctx) BulkDistinct(n int64) { c.res.BulkDistinct += n }

// Exhaustive records that a named finite sub-space was enumerated completely.
func (c *Ctx) Exhaustive(name string) { c.res.Exhaustive = append(c.res.Exhaustive, name) }

// Sample keeps a few complete cases for the evidence file.
func (c *Ctx) Sample(v any) {
	if len(c.res.Samples) < c.maxSamples {
		c.res.Samples = append(c.res.Samples, v)
	}
}
func (c *Ctx) WantSample() bool { return len(c.res.Samples) < c.maxSamples }

// Violate reports a violation of this batch's property.
func (c *Ctx) Violate(site, facet, class, witness, detail string) {
	v := Violation{Property: c.Prop, Site: site, Facet: facet, Class: class, Witness: clip(witness, 6000), Detail: clip(detail, 3000),
		Seed: c.Seed, Tier: c.Tier, Batch: c.Batch, Case: c.curCase}
	for i := range c.findings {
		if c.findings[i].matches(&v) {
			id := c.findings[i].ID
			c.res.KnownCounts[id]++
			if _, ok := c.res.KnownSample[id]; !ok {
				c.res.KnownSample[id] = clip(v.Witness, 400)
			}
			return
		}
	}
	sig := v.Signature()
	c.res.VioCounts[sig]++
	if c.res.VioCounts[sig] <= 3 && len(c.res.Violations) < 60 {
		c.res.Violations = append(c.res.Violations, v)
	}
	if c.Verbose {
		fmt.Fprintf(os.Stderr, "VIOLATION-DETAIL %s: %s\n  witness: %s\n  detail: %s\n", c.Prop, sig, v.Witness, v.Detail)
	}
}

// CrossNote records an observation that belongs to another property (e.g. an
// ill-formed value seen while checking C08). It never fails this property.
func (c *Ctx) CrossNote(prop, what, witness string) {
	k := prop + ": " + what
	c.res.CrossNotes[k]++
	if _, ok := c.res.CrossSample[k]; !ok {
		c.res.CrossSample[k] = clip(witness, 400)
		c.res.CrossCase[k] = c.curCase
	}
}

// GuestResult is what a guest batch (another driver's batch run inside this
// driver's worker) observed.
type GuestResult struct {
	Cases       int64
	Evaluations int64
	CrossNotes  map[string]int64
	CrossSample map[string]string
	CrossCase   map[string]int64
	Panicked    bool
	PanicMsg    string
}

// RunGuest executes batch `batch` of driver d (at tier `tier`) inside this
// worker with its own context and returns the passive-monitor observations it
// made for other properties. The guest's own violations are NOT reported here:
// they belong to the guest's property and are reported by its own check.
// c.Only is handed down, so a replay of one guest case re-runs only that case.
func (c *Ctx) RunGuest(d Driver, tier string, batch int) GuestResult {
	sub := NewCtx(d.ID(), tier, c.Seed, batch, d.Batches(tier), c.findings)
	sub.Only = c.Only
	o := Guard(func() { d.Run(sub) })
	return GuestResult{Cases: sub.res.Cases, Evaluations: sub.res.Evaluations, CrossNotes: sub.res.CrossNotes,
		CrossSample: sub.res.CrossSample, CrossCase: sub.res.CrossCase, Panicked: o.Panicked, PanicMsg: o.PanicMsg}
}

// SetCase lets a driver that relays observations of a guest batch attribute a
// violation to the guest's case index (so that a replay finds it).
func (c *Ctx) SetCase(idx int64) { c.curCase = idx }

func clip(s string, n int) string {
	if len(s) <= n {
		return s
	}
	return s[:n] + fmt.Sprintf("...(+%d bytes)", len(s)-n)
}

// Outcome of a guarded call.
type Outcome struct {
	Panicked bool
	PanicVal any
	PanicMsg string
	Stack    string
}

// Guard runs f under recover.
func Guard(f func()) (out Outcome) {
	defer func() {
		if r := recover(); r != nil {
			out.Panicked = true
			out.PanicVal = r
			out.PanicMsg = fmt.Sprint(r)
			out.Stack = shortStack(string(debug.Stack()))
		}
	}()
	f()
	return
}

// shortStack keeps the go-cty frames of a stack trace.
func shortStack(s string) string {
	lines := strings.Split(s, "\n")
	var keep []string
	for i := 0; i+1 < len(lines); i++ {
		if strings.Contains(lines[i+1], "/repo/") || strings.Contains(lines[i+1], "go-cty") {
			fn := strings.TrimSpace(lines[i])
			loc := strings.TrimSpace(lines[i+1])
			if j := strings.Index(loc, " +0x"); j >= 0 {
				loc = loc[:j]
			}
			keep = append(keep, fn+" @ "+loc)
			if len(keep) >= 8 {
				break
			}
		}
	}
	return strings.Join(keep, "\n")
}

var reDigits = regexp.MustCompile(`[0-9]+`)
var reQuoted = regexp.MustCompile(`"[^"]*"`)
var reCtyType = regexp.MustCompile(`cty\.[A-Za-z]+(\([^)]*\))?`)

// PanicClass reduces a panic message to a stable class: the text up to the
// first ':' with numbers, quoted text and type names stripped.
func PanicClass(msg string) string {
	if i := strings.Index(msg, ":"); i > 0 {
		msg = msg[:i]
	}
	if i := strings.Index(msg, "\n"); i > 0 {
		msg = msg[:i]
	}
	msg = reQuoted.ReplaceAllString(msg, `""`)
	msg = reCtyType.ReplaceAllString(msg, "T")
	msg = reDigits.ReplaceAllString(msg, "N")
	if len(msg) > 80 {
		msg = msg[:80]
	}
	return strings.TrimSpace(msg)
}

func (c *Ctx) finish(hashPath string) BatchResult {
	c.res.Completed = true
	var nt int64
	if hashPath != "" {
		f, err := os.Create(hashPath)
		if err == nil {
			buf := make([]byte, 0, 9*len(c.hashes))
			for h, n := range c.hashes {
				var b [9]byte
				for i := 0; i < 8; i++ {
					b[i] = byte(h >> (8 * i))
				}
				if n {
					b[8] = 1
				}
				buf = append(buf, b[:]...)
			}
			f.Write(buf)
			f.Close()
			c.res.HashFile = hashPath
		}
	}
	for _, n := range c.hashes {
		if n {
			nt++
		}
	}
	c.res.Nontrivial = nt
	if c.durable != nil {
		c.durable.Close()
	}
	return c.res
}

func sortedKeys[V any](m map[string]V) []string {
	ks := make([]string, 0, len(m))
	for k := range m {
		ks = append(ks, k)
	}
	sort.Strings(ks)
	return ks
}
