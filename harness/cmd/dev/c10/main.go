package main

import (
	"verif/harness/core"
	"verif/harness/props/c10"
)

func main() { core.Register(c10.Driver{}); core.MainRegistered() }
