package main

import (
	"verif/harness/core"
	"verif/harness/props/c06"
)

func main() { core.Register(c06.Driver{}); core.MainRegistered() }
