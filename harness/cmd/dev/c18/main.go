package main

import (
	"verif/harness/core"
	"verif/harness/props/c18"
)

func main() { core.Register(c18.Driver{}); core.MainRegistered() }
