package main

import (
	"verif/harness/core"
	"verif/harness/props/c17"
)

func main() { core.Register(c17.Driver{}); core.MainRegistered() }
