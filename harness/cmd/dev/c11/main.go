package main

import (
	"verif/harness/core"
	"verif/harness/props/c11"
)

func main() { core.Register(c11.Driver{}); core.MainRegistered() }
