package main

import (
	"verif/harness/core"
	"verif/harness/props/c14"
)

func main() { core.Register(c14.Driver{}); core.MainRegistered() }
