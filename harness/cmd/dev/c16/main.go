package main

import (
	"verif/harness/core"
	"verif/harness/props/c16"
)

func main() { core.Register(c16.Driver{}); core.MainRegistered() }
