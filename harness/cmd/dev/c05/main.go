package main

import (
	"verif/harness/core"
	"verif/harness/props/c05"
)

func main() { core.Register(c05.Driver{}); core.MainRegistered() }
