package main

import (
	"verif/harness/core"
	"verif/harness/props/c19"
)

func main() { core.Register(c19.Driver{}); core.MainRegistered() }
