package main

import (
	"verif/harness/core"
	"verif/harness/props/c04"
)

func main() { core.Register(c04.Driver{}); core.MainRegistered() }
