package main

import (
	"verif/harness/core"
	"verif/harness/props/c08"
)

func main() { core.Register(c08.Driver{}); core.MainRegistered() }
