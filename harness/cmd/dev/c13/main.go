package main

import (
	"verif/harness/core"
	"verif/harness/props/c13"
)

func main() { core.Register(c13.Driver{}); core.MainRegistered() }
