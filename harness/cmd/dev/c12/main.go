package main

import (
	"verif/harness/core"
	"verif/harness/props/c12"
)

func main() { core.Register(c12.Driver{}); core.MainRegistered() }
