package main

import (
	"verif/harness/core"
	"verif/harness/props/c03"
)

func main() { core.Register(c03.Driver{}); core.MainRegistered() }
