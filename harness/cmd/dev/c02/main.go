package main

import (
	"verif/harness/core"
	"verif/harness/props/c02"
)

func main() { core.Register(c02.Driver{}); core.MainRegistered() }
