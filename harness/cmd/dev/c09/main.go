package main

import (
	"verif/harness/core"
	"verif/harness/props/c09"
)

func main() { core.Register(c09.Driver{}); core.MainRegistered() }
