package main

import (
	"verif/harness/core"
	"verif/harness/props/c07"
)

func main() { core.Register(c07.Driver{}); core.MainRegistered() }
