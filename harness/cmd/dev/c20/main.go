package main

import (
	"verif/harness/core"
	"verif/harness/props/c20"
)

func main() { core.Register(c20.Driver{}); core.MainRegistered() }
