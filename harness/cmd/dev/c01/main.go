package main

import (
	"verif/harness/core"
	"verif/harness/props/c01"
)

func main() { core.Register(c01.Driver{}); core.MainRegistered() }
