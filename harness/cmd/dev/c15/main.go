package main

import (
	"verif/harness/core"
	"verif/harness/props/c15"
)

func main() { core.Register(c15.Driver{}); core.MainRegistered() }
