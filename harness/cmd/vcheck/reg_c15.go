package main

import (
	"verif/harness/core"
	"verif/harness/props/c15"
)

func init() { core.Register(c15.Driver{}) }
