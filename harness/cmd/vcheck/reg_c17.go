package main

import (
	"verif/harness/core"
	"verif/harness/props/c17"
)

func init() { core.Register(c17.Driver{}) }
