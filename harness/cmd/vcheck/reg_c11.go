package main

import (
	"verif/harness/core"
	"verif/harness/props/c11"
)

func init() { core.Register(c11.Driver{}) }
