package main

import (
	"verif/harness/core"
	"verif/harness/props/c08"
)

func init() { core.Register(c08.Driver{}) }
