package main

import (
	"verif/harness/core"
	"verif/harness/props/c04"
)

func init() { core.Register(c04.Driver{}) }
