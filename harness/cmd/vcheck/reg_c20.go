package main

import (
	"verif/harness/core"
	"verif/harness/props/c20"
)

func init() { core.Register(c20.Driver{}) }
