package main

import (
	"verif/harness/core"
	"verif/harness/props/c09"
)

func init() { core.Register(c09.Driver{}) }
