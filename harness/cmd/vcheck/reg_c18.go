package main

import (
	"verif/harness/core"
	"verif/harness/props/c18"
)

func init() { core.Register(c18.Driver{}) }
