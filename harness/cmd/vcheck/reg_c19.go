package main

import (
	"verif/harness/core"
	"verif/harness/props/c19"
)

func init() { core.Register(c19.Driver{}) }
