package main

import (
	"verif/harness/core"
	"verif/harness/props/c05"
)

func init() { core.Register(c05.Driver{}) }
