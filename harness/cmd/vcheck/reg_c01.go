package main

import (
	"verif/harness/core"
	"verif/harness/props/c01"
)

func init() { core.Register(c01.Driver{}) }
