package main

import (
	"verif/harness/core"
	"verif/harness/props/c14"
)

func init() { core.Register(c14.Driver{}) }
