// Command vcheck is the orchestrator and the worker of every property check.
package main

import (
	"verif/harness/core"
	"verif/harness/props/c01"
)

func main() {
	ds := map[string]core.Driver{}
	for _, d := range []core.Driver{
		c01.Driver{},
	} {
		ds[d.ID()] = d
	}
	core.Main(ds)
}
