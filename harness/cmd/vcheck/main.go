// Command vcheck is the orchestrator and the worker of every property check.
// Drivers are registered by the reg_*.go files in this directory.
package main

import "verif/harness/core"

func main() { core.MainRegistered() }
