package main

import (
	"verif/harness/core"
	"verif/harness/props/c13"
)

func init() { core.Register(c13.Driver{}) }
