package main

import (
	"verif/harness/core"
	"verif/harness/props/c12"
)

func init() { core.Register(c12.Driver{}) }
