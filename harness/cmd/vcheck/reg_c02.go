package main

import (
	"verif/harness/core"
	"verif/harness/props/c02"
)

func init() { core.Register(c02.Driver{}) }
