package main

import (
	"verif/harness/core"
	"verif/harness/props/c16"
)

func init() { core.Register(c16.Driver{}) }
