package main

import (
	"verif/harness/core"
	"verif/harness/props/c03"
)

func init() { core.Register(c03.Driver{}) }
