package main

import (
	"verif/harness/core"
	"verif/harness/props/c06"
)

func init() { core.Register(c06.Driver{}) }
