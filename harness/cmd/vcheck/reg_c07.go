package main

import (
	"verif/harness/core"
	"verif/harness/props/c07"
)

func init() { core.Register(c07.Driver{}) }
