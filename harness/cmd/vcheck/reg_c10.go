package main

import (
	"verif/harness/core"
	"verif/harness/props/c10"
)

func init() { core.Register(c10.Driver{}) }
