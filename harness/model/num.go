package model

import (
	"math/big"
)

// Num is an exact extended rational: a finite rational or one of the two
// infinities.
type Num struct {
	Inf int // -1, 0, +1
	R   *big.Rat
}

func NumOf(f *big.Float) Num {
	if f.IsInf() {
		if f.Sign() < 0 {
			return Num{Inf: -1}
		}
		return Num{Inf: 1}
	}
	r, _ := f.Rat(nil)
	if r == nil {
		r = new(big.Rat)
	}
	return Num{R: r}
}

func NumInt(i int64) Num { return Num{R: new(big.Rat).SetInt64(i)} }

func (a Num) IsInf() bool { return a.Inf != 0 }

// Cmp compares exactly; -Inf < finite < +Inf; equal infinities compare 0.
func (a Num) Cmp(b Num) int {
	switch {
	case a.Inf != 0 || b.Inf != 0:
		switch {
		case a.Inf == b.Inf:
			return 0
		case a.Inf < b.Inf:
			return -1
		default:
			return 1
		}
	}
	return a.R.Cmp(b.R)
}

func (a Num) Sign() int {
	if a.Inf != 0 {
		return a.Inf
	}
	return a.R.Sign()
}

func (a Num) IsWhole() bool { return a.Inf == 0 && a.R.IsInt() }

func (a Num) String() string {
	switch a.Inf {
	case 1:
		return "+Inf"
	case -1:
		return "-Inf"
	}
	return a.R.RatString()
}

// NumEqualDoc is the documented number equality: both whole and equal as
// integers, or neither whole and the same shortest round-trip decimal text
// (each at its own precision); -0 equals +0; infinities equal by sign.
func NumEqualDoc(a, b *big.Float) bool {
	if a.IsInf() || b.IsInf() {
		return a.IsInf() && b.IsInf() && a.Sign() == b.Sign()
	}
	ai, bi := a.IsInt(), b.IsInt()
	if ai != bi {
		return false
	}
	if ai {
		return a.Cmp(b) == 0
	}
	return a.Text('f', -1) == b.Text('f', -1)
}
