package model

// The function-call protocol as a decision procedure (DESIGN.md Appendix B).
//
// Written from docs/functions.md and the doc comments of function.Parameter /
// function.Spec only; it never calls package function. Given a parameter
// specification, the observable facts about an argument list and the scripted
// behaviour of the two callbacks, it yields the SET of acceptable outcomes and
// how often each callback must have run. It deliberately does not fix the order
// in which arguments are scanned: when several arguments offend, any of them
// may be named, and when both an offending argument and a not-allowed dynamic
// argument are present either reaction is acceptable.

// ProtoParam is one declared parameter.
type ProtoParam struct {
	Type         *TNode
	AllowNull    bool
	AllowUnknown bool
	AllowDynamic bool
	AllowMarked  bool
}

// ProtoSpec is the parameter part of a function specification.
type ProtoSpec struct {
	Params   []ProtoParam
	VarParam *ProtoParam
}

// ParamFor returns the parameter governing argument i (nil if there is none).
func (s *ProtoSpec) ParamFor(i int) *ProtoParam {
	if i < len(s.Params) {
		return &s.Params[i]
	}
	return s.VarParam
}

// ProtoArg holds the facts about one argument that the protocol depends on.
type ProtoArg struct {
	Type    *TNode
	Null    bool // null (under any marks)
	Unknown bool // unknown at top level (under any marks)
	Dynamic bool // type is the dynamic pseudo-type
	Marked  bool // carries a mark at any depth
}

type ProtoOp int

const (
	OpCall       ProtoOp = iota // Function.Call
	OpReturnType                // Function.ReturnType / ReturnTypeForValues
)

type TypeBeh int

const (
	TypeReturns TypeBeh = iota
	TypeErrors
	TypePanics
)

type ImplBeh int

const (
	ImplConforming    ImplBeh = iota // returns a value conforming to the checked type
	ImplNonConforming                // returns a value that does not conform
	ImplErrors
	ImplPanics
)

// ProtoAccept is the set of acceptable outcomes of one call.
type ProtoAccept struct {
	ArityOK bool
	B       []int // arguments that must be rejected: null where not allowed, or typed and non-conforming
	BNull   []int // ... the null ones
	BType   []int // ... the non-conforming ones
	Y       []int // dynamically-typed arguments where AllowDynamicType is off
	U       []int // top-level unknown arguments where AllowUnknown is off
	Unmark  []int // arguments whose parameter has AllowMarked off (their marks go to the result)

	Stage     string // arity | args | type-error | type-panic | type-ok | short-circuit | impl
	TypeCalls int    // exact number of Type callback runs
	ImplCalls int    // exact number of Impl callback runs

	AnyError        bool         // some error (wrong argument count)
	ArgErrorIdx     map[int]bool // an ArgError naming one of these indices
	DynShort        bool         // Call: unknown value of the dynamic pseudo-type; ReturnType: the dynamic pseudo-type
	TypeError       bool         // exactly the error the Type callback returned
	TypePanic       bool         // PanicError carrying the Type callback's panic
	TypeResult      bool         // ReturnType ops: the type the Type callback returned
	TypedShort      bool         // unknown value of the checked type
	ImplError       bool         // exactly the error the Impl callback returned
	ImplPanic       bool         // PanicError carrying the Impl callback's panic
	NonConformError bool         // PanicError / error because the Impl result does not conform
	Value           bool         // the Impl result (plus collected marks, refined)
}

// Decide runs the decision procedure.
func (s *ProtoSpec) Decide(args []ProtoArg, op ProtoOp, tb TypeBeh, ib ImplBeh) ProtoAccept {
	var a ProtoAccept
	// 1. arity
	if s.VarParam == nil {
		a.ArityOK = len(args) == len(s.Params)
	} else {
		a.ArityOK = len(args) >= len(s.Params)
	}
	if !a.ArityOK {
		a.Stage = "arity"
		a.AnyError = true
		return a
	}
	// 2. per-argument contract
	for i, arg := range args {
		p := s.ParamFor(i)
		switch {
		case arg.Null && !p.AllowNull:
			a.B = append(a.B, i)
			a.BNull = append(a.BNull, i)
		case !arg.Dynamic && !Conforms(arg.Type, p.Type):
			a.B = append(a.B, i)
			a.BType = append(a.BType, i)
		}
		if arg.Dynamic && !p.AllowDynamic {
			a.Y = append(a.Y, i)
		}
		if arg.Unknown && !p.AllowUnknown {
			a.U = append(a.U, i)
		}
		if !p.AllowMarked {
			a.Unmark = append(a.Unmark, i)
		}
	}
	if len(a.B)+len(a.Y) > 0 {
		a.Stage = "args"
		if len(a.B) > 0 {
			a.ArgErrorIdx = map[int]bool{}
			for _, i := range a.B {
				a.ArgErrorIdx[i] = true
			}
		}
		a.DynShort = len(a.Y) > 0
		return a
	}
	// 3. type check callback, exactly once
	a.TypeCalls = 1
	switch tb {
	case TypeErrors:
		a.Stage = "type-error"
		a.TypeError = true
		return a
	case TypePanics:
		a.Stage = "type-panic"
		a.TypePanic = true
		return a
	}
	if op == OpReturnType {
		a.Stage = "type-ok"
		a.TypeResult = true
		return a
	}
	// 4. unknown short-circuit
	if len(a.U) > 0 {
		a.Stage = "short-circuit"
		a.TypedShort = true
		return a
	}
	// 5. implementation callback, exactly once
	a.Stage = "impl"
	a.ImplCalls = 1
	switch ib {
	case ImplErrors:
		a.ImplError = true
	case ImplPanics:
		a.ImplPanic = true
	case ImplNonConforming:
		a.NonConformError = true
	default:
		a.Value = true
	}
	return a
}
