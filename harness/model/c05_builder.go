package model

// Lock-step model of cty's refinement builder (property C05), written from
// docs/refinements.md and the doc comments of RefinementBuilder / ValueRange:
//
//   - an unrefined number has the bounds (-Inf, inclusive) .. (+Inf, inclusive);
//   - an unrefined collection has the length bounds 0 .. MaxInt;
//   - an unrefined string has the empty prefix;
//   - numeric bounds, prefix and length bounds speak about the value only if it
//     turns out not to be null;
//   - a new constraint is intersected with what has been stated so far; a
//     constraint that leaves no admissible value (or that is false of the known
//     receiver) is a contradiction and must be rejected (the builder panics);
//   - DynamicVal ignores every refinement.
//
// The model never calls the builder. Strings are normalized with
// golang.org/x/text/unicode/norm directly.

import (
	"fmt"
	"math"
	"strings"

	"github.com/zclconf/go-cty/cty"
	"golang.org/x/text/unicode/norm"
)

type C05Kind int

const (
	C05Num C05Kind = iota
	C05Str
	C05Coll
	C05Nullable  // bool, object, tuple, capsule, null of unknown type: nullness only
	C05DynIgnore // cty.DynamicVal: every call is ignored
)

func (k C05Kind) String() string {
	return [...]string{"number", "string", "collection", "nullable-only", "dynamic-ignore"}[k]
}

// C05KindOf classifies the receiver type. known is true for a known receiver
// (a known value of DynamicPseudoType can only be a null).
func C05KindOf(ty cty.Type, known bool) C05Kind {
	switch {
	case ty == cty.DynamicPseudoType:
		if known {
			return C05Nullable
		}
		return C05DynIgnore
	case ty == cty.Number:
		return C05Num
	case ty == cty.String:
		return C05Str
	case ty.IsCollectionType():
		return C05Coll
	}
	return C05Nullable
}

// C05Range is what the stated constraints imply. Bounds are always set; the
// defaults are the documented effective bounds of an unrefined value.
type C05Range struct {
	Null         Tri
	Lo, Hi       Num
	LoInc, HiInc bool
	Prefix       string // NFC bytes
	MinLen       int
	MaxLen       int
}

func C05Unconstrained() C05Range {
	return C05Range{Lo: Num{Inf: -1}, LoInc: true, Hi: Num{Inf: 1}, HiInc: true, MinLen: 0, MaxLen: math.MaxInt}
}

// NumEmpty: no number satisfies the numeric bounds.
func (r C05Range) NumEmpty() bool {
	c := r.Lo.Cmp(r.Hi)
	return c > 0 || (c == 0 && !(r.LoInc && r.HiInc))
}

func (r C05Range) AdmitsNum(n Num) bool {
	c := n.Cmp(r.Lo)
	if c < 0 || (c == 0 && !r.LoInc) {
		return false
	}
	c = n.Cmp(r.Hi)
	if c > 0 || (c == 0 && !r.HiInc) {
		return false
	}
	return true
}

func (r C05Range) String() string { return r.Show(-1) }

// Show prints the part of the range that is meaningful for a receiver kind
// (every part when kind is negative).
func (r C05Range) Show(kind C05Kind) string {
	var b strings.Builder
	switch r.Null {
	case TriTrue:
		b.WriteString("null ")
	case TriFalse:
		b.WriteString("notnull ")
	default:
		b.WriteString("nullable ")
	}
	if kind < 0 || kind == C05Num {
		lb, rb := "(", ")"
		if r.LoInc {
			lb = "["
		}
		if r.HiInc {
			rb = "]"
		}
		fmt.Fprintf(&b, "num%s%s,%s%s ", lb, r.Lo, r.Hi, rb)
	}
	if kind < 0 || kind == C05Str {
		fmt.Fprintf(&b, "prefix=%q ", r.Prefix)
	}
	if kind < 0 || kind == C05Coll {
		if r.MaxLen == math.MaxInt {
			fmt.Fprintf(&b, "len[%d,MaxInt] ", r.MinLen)
		} else {
			fmt.Fprintf(&b, "len[%d,%d] ", r.MinLen, r.MaxLen)
		}
	}
	return strings.TrimSpace(b.String())
}

// C05Probe is a concrete candidate value together with an independent
// description of it (the driver builds both from the same Go data).
type C05Probe struct {
	V         cty.Value
	IsNull    bool
	WrongType bool // the type of V does not conform to the receiver's type
	N         Num  // kind number
	S         string
	Len       int
}

// Admits: does the range, read for a receiver of the given kind, admit p?
func (r C05Range) Admits(kind C05Kind, p C05Probe) bool {
	if p.WrongType {
		return false
	}
	if p.IsNull {
		return r.Null != TriFalse
	}
	if r.Null == TriTrue {
		return false
	}
	switch kind {
	case C05Num:
		return r.AdmitsNum(p.N)
	case C05Str:
		return strings.HasPrefix(p.S, r.Prefix)
	case C05Coll:
		return p.Len >= r.MinLen && p.Len <= r.MaxLen
	}
	return true
}

type C05CallKind int

const (
	C05NotNull C05CallKind = iota
	C05Null
	C05Lower
	C05Upper
	C05Inclusive // NumberRangeInclusive(Bound, Bound2)
	C05LenLower
	C05LenUpper
	C05Len
	C05PrefixFull
	C05PrefixSafe
)

var c05CallNames = [...]string{"NotNull", "Null", "NumberRangeLowerBound", "NumberRangeUpperBound", "NumberRangeInclusive",
	"CollectionLengthLowerBound", "CollectionLengthUpperBound", "CollectionLength", "StringPrefixFull", "StringPrefix"}

func (k C05CallKind) String() string { return c05CallNames[k] }

// C05Bound describes a bound argument independently of the library.
type C05Bound struct {
	V       cty.Value
	Unknown bool // unknown number: the call is documented to do nothing
	Null    bool // null number: documented to panic
	N       Num
	Label   string
}

type C05Call struct {
	K      C05CallKind
	B, B2  C05Bound
	Inc    bool
	N      int
	S      string
}

func (c C05Call) String() string {
	switch c.K {
	case C05NotNull, C05Null:
		return c.K.String() + "()"
	case C05Lower, C05Upper:
		return fmt.Sprintf("%s(%s, %t)", c.K, c.B.Label, c.Inc)
	case C05Inclusive:
		return fmt.Sprintf("%s(%s, %s)", c.K, c.B.Label, c.B2.Label)
	case C05LenLower, C05LenUpper, C05Len:
		if c.N == math.MaxInt {
			return fmt.Sprintf("%s(math.MaxInt)", c.K)
		}
		return fmt.Sprintf("%s(%d)", c.K, c.N)
	}
	return fmt.Sprintf("%s(%q)", c.K, c.S)
}

func (c C05Call) KindWanted() (C05Kind, bool) {
	switch c.K {
	case C05Lower, C05Upper, C05Inclusive:
		return C05Num, true
	case C05LenLower, C05LenUpper, C05Len:
		return C05Coll, true
	case C05PrefixFull, C05PrefixSafe:
		return C05Str, true
	}
	return 0, false
}

type C05Expect int

const (
	C05MustAccept C05Expect = iota
	C05MustPanic
	C05Free // the documentation does not decide (recorded only); the sequence ends here
)

func (e C05Expect) String() string { return [...]string{"must-accept", "must-panic", "free"}[e] }

// C05State is the model of one builder (or of a chain of Refine/NewValue pairs).
type C05State struct {
	Ty   cty.Type
	Kind C05Kind

	// receiver
	Known     bool // receiver is a known value (possibly null)
	KnownNull bool
	KnownNum  Num    // known non-null number
	KnownStr  string // known non-null string, NFC
	LenMin    int    // known non-null collection: possible lengths
	LenMax    int

	R C05Range // what the constraints stated so far imply (unknown receivers)
}

func C05UnknownState(ty cty.Type) C05State {
	return C05State{Ty: ty, Kind: C05KindOf(ty, false), R: C05Unconstrained()}
}

// C05KnownState describes a known receiver. The caller supplies the facts
// (from the Go data the value was built from).
func C05KnownState(ty cty.Type, isNull bool, n Num, s string, lenMin, lenMax int) C05State {
	st := C05State{Ty: ty, Kind: C05KindOf(ty, true), Known: true, KnownNull: isNull, KnownNum: n, KnownStr: norm.NFC.String(s), LenMin: lenMin, LenMax: lenMax, R: C05Unconstrained()}
	return st
}

// Step advances the model by one builder call. safe is the string observed
// from ctystrings.SafeKnownPrefix for a C05PrefixSafe call (the model of the
// safe constructor is "StringPrefixFull of whatever the trimming kept"; that the
// trimming kept a continuation-safe byte prefix is checked separately).
// reason is a short stable code naming the contradiction (used as input class).
func (s *C05State) Step(c C05Call, safe string) (exp C05Expect, reason string) {
	if s.Kind == C05DynIgnore {
		return C05MustAccept, ""
	}
	if want, has := c.KindWanted(); has && want != s.Kind {
		return C05MustPanic, "wrong-kind"
	}
	switch c.K {
	case C05NotNull:
		if s.Known {
			if s.KnownNull {
				return C05MustPanic, "known-null-vs-notnull"
			}
			return C05MustAccept, ""
		}
		if s.R.Null == TriTrue {
			return C05MustPanic, "null-vs-notnull"
		}
		s.R.Null = TriFalse
		return C05MustAccept, ""
	case C05Null:
		if s.Known {
			if !s.KnownNull {
				return C05MustPanic, "known-nonnull-vs-null"
			}
			return C05MustAccept, ""
		}
		if s.R.Null == TriFalse {
			return C05MustPanic, "notnull-vs-null"
		}
		s.R.Null = TriTrue
		return C05MustAccept, ""
	case C05Lower:
		return s.bound(c.B, c.Inc, true)
	case C05Upper:
		return s.bound(c.B, c.Inc, false)
	case C05Inclusive:
		if e, why := s.bound(c.B, true, true); e != C05MustAccept {
			return e, why
		}
		return s.bound(c.B2, true, false)
	case C05LenLower:
		return s.length(c.N, true)
	case C05LenUpper:
		return s.length(c.N, false)
	case C05Len:
		if e, why := s.length(c.N, true); e != C05MustAccept {
			return e, why
		}
		return s.length(c.N, false)
	case C05PrefixFull:
		return s.prefix(norm.NFC.String(c.S))
	case C05PrefixSafe:
		return s.prefix(norm.NFC.String(safe))
	}
	return C05Free, "unmodelled"
}

func (s *C05State) bound(b C05Bound, inc, lower bool) (C05Expect, string) {
	if b.Unknown {
		return C05MustAccept, "" // documented: nothing to do
	}
	if b.Null {
		return C05MustPanic, "null-bound"
	}
	if s.Known {
		if s.KnownNull {
			return C05Free, "bound-on-known-null"
		}
		c := s.KnownNum.Cmp(b.N)
		if !lower {
			c = -c
		}
		switch {
		case c < 0:
			return C05MustPanic, "bound-vs-known-number"
		case c == 0 && !inc:
			return C05MustPanic, "bound-vs-known-number-tie"
		}
		return C05MustAccept, ""
	}
	r := &s.R
	if lower {
		c := b.N.Cmp(r.Lo)
		if c > 0 || (c == 0 && r.LoInc && !inc) {
			r.Lo, r.LoInc = b.N, inc
		}
	} else {
		c := b.N.Cmp(r.Hi)
		if c < 0 || (c == 0 && r.HiInc && !inc) {
			r.Hi, r.HiInc = b.N, inc
		}
	}
	if r.NumEmpty() {
		c := r.Lo.Cmp(r.Hi)
		switch {
		case c > 0:
			return C05MustPanic, "bounds-cross"
		case r.Lo.IsInf():
			return C05MustPanic, "bounds-empty-at-infinity"
		}
		return C05MustPanic, "bounds-equal-exclusive"
	}
	return C05MustAccept, ""
}

func (s *C05State) length(n int, lower bool) (C05Expect, string) {
	if s.Known {
		if s.KnownNull {
			return C05Free, "length-on-known-null"
		}
		if lower {
			switch {
			case n <= s.LenMin:
				return C05MustAccept, ""
			case n > s.LenMax:
				return C05MustPanic, "length-vs-known"
			}
			return C05Free, "length-vs-known-undecided"
		}
		switch {
		case n >= s.LenMax:
			return C05MustAccept, ""
		case n < s.LenMin:
			return C05MustPanic, "length-vs-known"
		}
		return C05Free, "length-vs-known-undecided"
	}
	r := &s.R
	if lower {
		if n > r.MinLen {
			r.MinLen = n
		}
	} else if n < r.MaxLen {
		r.MaxLen = n
	}
	if r.MinLen > r.MaxLen {
		return C05MustPanic, "length-bounds-cross"
	}
	return C05MustAccept, ""
}

func (s *C05State) prefix(p string) (C05Expect, string) {
	if s.Known {
		if s.KnownNull {
			return C05Free, "prefix-on-known-null"
		}
		if strings.HasPrefix(s.KnownStr, p) {
			return C05MustAccept, ""
		}
		if strings.HasPrefix(p, s.KnownStr) {
			return C05MustPanic, "prefix-longer-than-known"
		}
		return C05MustPanic, "prefix-vs-known-mismatch"
	}
	r := &s.R
	switch {
	case strings.HasPrefix(p, r.Prefix):
		r.Prefix = p
	case strings.HasPrefix(r.Prefix, p):
	default:
		return C05MustPanic, "prefix-vs-prefix"
	}
	return C05MustAccept, ""
}

// AdmitsProbe: does the model admit p? For a known receiver the admitted set is
// the value itself, which the caller decides (definite=false).
func (s *C05State) AdmitsProbe(p C05Probe) (admit, definite bool) {
	if s.Known || s.Kind == C05DynIgnore {
		return false, false
	}
	return s.R.Admits(s.Kind, p), true
}
