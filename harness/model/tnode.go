// Package model holds executable models written from the documentation only:
// type trees, exact numbers, value ranges. Nothing here calls the operation
// under test; cty is used only through constructors (to build what the tree
// describes) and plain accessors (to read a type back).
package model

import (
	"fmt"
	"reflect"
	"sort"
	"strings"

	"github.com/zclconf/go-cty/cty"
)

type Kind int

const (
	KBool Kind = iota
	KNumber
	KString
	KDynamic
	KList
	KSet
	KMap
	KTuple
	KObject
	KCapsule
)

var kindNames = []string{"bool", "number", "string", "dynamic", "list", "set", "map", "tuple", "object", "capsule"}

func (k Kind) String() string { return kindNames[k] }

// TNode is the model of a type (constraint).
type TNode struct {
	K       Kind
	Elem    *TNode            // list, set, map
	Attrs   map[string]*TNode // object
	Opt     map[string]bool   // object: optional attribute names
	Elems   []*TNode          // tuple
	Capsule string            // capsule identity
}

func Prim(k Kind) *TNode         { return &TNode{K: k} }
func ListOf(e *TNode) *TNode     { return &TNode{K: KList, Elem: e} }
func SetOf(e *TNode) *TNode      { return &TNode{K: KSet, Elem: e} }
func MapOf(e *TNode) *TNode      { return &TNode{K: KMap, Elem: e} }
func TupleOf(e ...*TNode) *TNode { return &TNode{K: KTuple, Elems: e} }
func ObjectOf(a map[string]*TNode, opt ...string) *TNode {
	t := &TNode{K: KObject, Attrs: a}
	if len(opt) > 0 {
		t.Opt = map[string]bool{}
		for _, o := range opt {
			t.Opt[o] = true
		}
	}
	return t
}

var (
	TBool    = Prim(KBool)
	TNumber  = Prim(KNumber)
	TString  = Prim(KString)
	TDynamic = Prim(KDynamic)
)

// Capsule types used by the generators. Identity is by name.
type capA struct{ X int }
type capB struct{ X int }

var CapsuleA = cty.Capsule("capA", reflect.TypeOf(capA{}))
var CapsuleB = cty.CapsuleWithOps("capB", reflect.TypeOf(capB{}), &cty.CapsuleOps{
	GoString:  func(v interface{}) string { return fmt.Sprintf("capB(%d)", v.(*capB).X) },
	TypeGoString: func(reflect.Type) string { return "capB" },
	Equals: func(a, b interface{}) cty.Value { return cty.BoolVal(a.(*capB).X == b.(*capB).X) },
	RawEquals: func(a, b interface{}) bool { return a.(*capB).X == b.(*capB).X },
	HashKey: func(v interface{}) string { return fmt.Sprintf("capB:%d", v.(*capB).X) },
})

func NewCapA(x int) cty.Value { return cty.CapsuleVal(CapsuleA, &capA{x}) }
func NewCapB(x int) cty.Value { return cty.CapsuleVal(CapsuleB, &capB{x}) }
func CapX(v cty.Value) int {
	switch p := v.EncapsulatedValue().(type) {
	case *capA:
		return p.X
	case *capB:
		return p.X
	}
	return -1
}

// Cty builds the cty type the tree describes.
func (t *TNode) Cty() cty.Type {
	switch t.K {
	case KBool:
		return cty.Bool
	case KNumber:
		return cty.Number
	case KString:
		return cty.String
	case KDynamic:
		return cty.DynamicPseudoType
	case KList:
		return cty.List(t.Elem.Cty())
	case KSet:
		return cty.Set(t.Elem.Cty())
	case KMap:
		return cty.Map(t.Elem.Cty())
	case KTuple:
		ts := make([]cty.Type, len(t.Elems))
		for i, e := range t.Elems {
			ts[i] = e.Cty()
		}
		return cty.Tuple(ts)
	case KObject:
		m := make(map[string]cty.Type, len(t.Attrs))
		for k, a := range t.Attrs {
			m[k] = a.Cty()
		}
		if len(t.Opt) > 0 {
			var opt []string
			for k := range t.Opt {
				opt = append(opt, k)
			}
			sort.Strings(opt)
			return cty.ObjectWithOptionalAttrs(m, opt)
		}
		return cty.Object(m)
	case KCapsule:
		if t.Capsule == "capB" {
			return CapsuleB
		}
		return CapsuleA
	}
	panic("bad kind")
}

// TNodeOf reads a cty type back through its public accessors.
func TNodeOf(ty cty.Type) *TNode {
	switch {
	case ty == cty.Bool:
		return TBool
	case ty == cty.Number:
		return TNumber
	case ty == cty.String:
		return TString
	case ty == cty.DynamicPseudoType:
		return TDynamic
	case ty.IsListType():
		return ListOf(TNodeOf(ty.ElementType()))
	case ty.IsSetType():
		return SetOf(TNodeOf(ty.ElementType()))
	case ty.IsMapType():
		return MapOf(TNodeOf(ty.ElementType()))
	case ty.IsTupleType():
		ets := ty.TupleElementTypes()
		t := &TNode{K: KTuple, Elems: make([]*TNode, len(ets))}
		for i, e := range ets {
			t.Elems[i] = TNodeOf(e)
		}
		return t
	case ty.IsObjectType():
		t := &TNode{K: KObject, Attrs: map[string]*TNode{}}
		for k, a := range ty.AttributeTypes() {
			t.Attrs[k] = TNodeOf(a)
		}
		if opt := ty.OptionalAttributes(); len(opt) > 0 {
			t.Opt = map[string]bool{}
			for k := range opt {
				t.Opt[k] = true
			}
		}
		return t
	case ty.IsCapsuleType():
		return &TNode{K: KCapsule, Capsule: ty.FriendlyName()}
	}
	panic(fmt.Sprintf("TNodeOf: unsupported type %#v", ty))
}

// TypeEq is structural type equality including optional-attribute sets.
func TypeEq(a, b *TNode) bool {
	if a.K != b.K {
		return false
	}
	switch a.K {
	case KList, KSet, KMap:
		return TypeEq(a.Elem, b.Elem)
	case KTuple:
		if len(a.Elems) != len(b.Elems) {
			return false
		}
		for i := range a.Elems {
			if !TypeEq(a.Elems[i], b.Elems[i]) {
				return false
			}
		}
		return true
	case KObject:
		if len(a.Attrs) != len(b.Attrs) {
			return false
		}
		for k, x := range a.Attrs {
			y, ok := b.Attrs[k]
			if !ok || !TypeEq(x, y) {
				return false
			}
		}
		if len(a.Opt) != len(b.Opt) {
			return false
		}
		for k := range a.Opt {
			if !b.Opt[k] {
				return false
			}
		}
		return true
	case KCapsule:
		return a.Capsule == b.Capsule
	}
	return true
}

// Conforms: t conforms to constraint c iff they are equal disregarding
// optional-attribute annotations after replacing every dynamic placeholder of c
// by the corresponding part of t.
func Conforms(t, c *TNode) bool {
	if c.K == KDynamic {
		return true
	}
	if t.K != c.K {
		return false
	}
	switch t.K {
	case KList, KSet, KMap:
		return Conforms(t.Elem, c.Elem)
	case KTuple:
		if len(t.Elems) != len(c.Elems) {
			return false
		}
		for i := range t.Elems {
			if !Conforms(t.Elems[i], c.Elems[i]) {
				return false
			}
		}
		return true
	case KObject:
		if len(t.Attrs) != len(c.Attrs) {
			return false
		}
		for k, x := range t.Attrs {
			y, ok := c.Attrs[k]
			if !ok || !Conforms(x, y) {
				return false
			}
		}
		return true
	case KCapsule:
		return t.Capsule == c.Capsule
	}
	return true
}

func HasDynamic(t *TNode) bool {
	switch t.K {
	case KDynamic:
		return true
	case KList, KSet, KMap:
		return HasDynamic(t.Elem)
	case KTuple:
		for _, e := range t.Elems {
			if HasDynamic(e) {
				return true
			}
		}
	case KObject:
		for _, a := range t.Attrs {
			if HasDynamic(a) {
				return true
			}
		}
	}
	return false
}

func HasOptional(t *TNode) bool {
	switch t.K {
	case KList, KSet, KMap:
		return HasOptional(t.Elem)
	case KTuple:
		for _, e := range t.Elems {
			if HasOptional(e) {
				return true
			}
		}
	case KObject:
		if len(t.Opt) > 0 {
			return true
		}
		for _, a := range t.Attrs {
			if HasOptional(a) {
				return true
			}
		}
	}
	return false
}

func HasCapsule(t *TNode) bool {
	switch t.K {
	case KCapsule:
		return true
	case KList, KSet, KMap:
		return HasCapsule(t.Elem)
	case KTuple:
		for _, e := range t.Elems {
			if HasCapsule(e) {
				return true
			}
		}
	case KObject:
		for _, a := range t.Attrs {
			if HasCapsule(a) {
				return true
			}
		}
	}
	return false
}

// StripOptional returns a copy without optional-attribute annotations.
func StripOptional(t *TNode) *TNode {
	switch t.K {
	case KList, KSet, KMap:
		return &TNode{K: t.K, Elem: StripOptional(t.Elem)}
	case KTuple:
		n := &TNode{K: KTuple, Elems: make([]*TNode, len(t.Elems))}
		for i, e := range t.Elems {
			n.Elems[i] = StripOptional(e)
		}
		return n
	case KObject:
		n := &TNode{K: KObject, Attrs: map[string]*TNode{}}
		for k, a := range t.Attrs {
			n.Attrs[k] = StripOptional(a)
		}
		return n
	}
	return t
}

func (t *TNode) AttrNames() []string {
	ks := make([]string, 0, len(t.Attrs))
	for k := range t.Attrs {
		ks = append(ks, k)
	}
	sort.Strings(ks)
	return ks
}

func (t *TNode) String() string {
	switch t.K {
	case KList, KSet, KMap:
		return t.K.String() + "(" + t.Elem.String() + ")"
	case KTuple:
		p := make([]string, len(t.Elems))
		for i, e := range t.Elems {
			p[i] = e.String()
		}
		return "tuple[" + strings.Join(p, ",") + "]"
	case KObject:
		var p []string
		for _, k := range t.AttrNames() {
			o := ""
			if t.Opt[k] {
				o = "?"
			}
			p = append(p, fmt.Sprintf("%q%s:%s", k, o, t.Attrs[k].String()))
		}
		return "object{" + strings.Join(p, ",") + "}"
	case KCapsule:
		return "capsule(" + t.Capsule + ")"
	}
	return t.K.String()
}

// Depth of the tree (primitives = 1).
func (t *TNode) Depth() int {
	d := 0
	switch t.K {
	case KList, KSet, KMap:
		d = t.Elem.Depth()
	case KTuple:
		for _, e := range t.Elems {
			if x := e.Depth(); x > d {
				d = x
			}
		}
	case KObject:
		for _, a := range t.Attrs {
			if x := a.Depth(); x > d {
				d = x
			}
		}
	}
	return d + 1
}
