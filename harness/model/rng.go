package model

import (
	"fmt"
	"math"
	"strings"

	"github.com/zclconf/go-cty/cty"
)

type Tri int

const (
	TriUnknown Tri = iota
	TriTrue
	TriFalse
)

// Range is the model of what an unknown value may turn out to be, beyond its
// type constraint. An infinite numeric bound is the same as no bound.
type Range struct {
	Ty           cty.Type
	Null         Tri // TriTrue: definitely null; TriFalse: definitely not null
	HasLo, HasHi bool
	Lo, Hi       Num
	LoInc, HiInc bool
	Prefix       string
	MinLen       int
	MaxLen       int // math.MaxInt = unbounded
}

func Unconstrained(ty cty.Type) Range {
	return Range{Ty: ty, MinLen: 0, MaxLen: math.MaxInt}
}

// RangeOf reads the range of an unmarked value through the public accessors.
// ok is false if an accessor panicked (reported by the caller).
func RangeOf(v cty.Value) (r Range, err error) {
	defer func() {
		if p := recover(); p != nil {
			err = fmt.Errorf("range accessor panicked: %v", p)
		}
	}()
	vr := v.Range()
	ty := vr.TypeConstraint()
	r = Unconstrained(ty)
	if vr.DefinitelyNotNull() {
		r.Null = TriFalse
	} else if v.IsKnown() && v.IsNull() {
		r.Null = TriTrue
		return r, nil
	}
	switch {
	case ty == cty.Number:
		lo, loInc := vr.NumberLowerBound()
		hi, hiInc := vr.NumberUpperBound()
		if lo.IsKnown() && !lo.IsNull() {
			n := NumOf(lo.AsBigFloat())
			if !n.IsInf() {
				r.HasLo, r.Lo, r.LoInc = true, n, loInc
			} else if n.Inf > 0 {
				// a lower bound of +Inf is a real constraint
				r.HasLo, r.Lo, r.LoInc = true, n, loInc
			}
		}
		if hi.IsKnown() && !hi.IsNull() {
			n := NumOf(hi.AsBigFloat())
			if !n.IsInf() {
				r.HasHi, r.Hi, r.HiInc = true, n, hiInc
			} else if n.Inf < 0 {
				r.HasHi, r.Hi, r.HiInc = true, n, hiInc
			}
		}
	case ty == cty.String:
		r.Prefix = vr.StringPrefix()
	case ty.IsCollectionType():
		r.MinLen = vr.LengthLowerBound()
		r.MaxLen = vr.LengthUpperBound()
	}
	return r, nil
}

// AdmitsNum reports whether the numeric bounds admit n.
func (r Range) AdmitsNum(n Num) bool {
	if r.HasLo {
		c := n.Cmp(r.Lo)
		if c < 0 || (c == 0 && !r.LoInc) {
			return false
		}
	}
	if r.HasHi {
		c := n.Cmp(r.Hi)
		if c > 0 || (c == 0 && !r.HiInc) {
			return false
		}
	}
	return true
}

func (r Range) AdmitsLen(n int) bool { return n >= r.MinLen && n <= r.MaxLen }

func (r Range) AdmitsPrefix(s string) bool { return strings.HasPrefix(s, r.Prefix) }

// Subsumes: everything inner admits is admitted by r (refinement part only;
// the caller compares type constraints). Conservative and exact for the shapes
// the library can express.
func (r Range) Subsumes(inner Range) bool {
	// nullness
	if r.Null == TriFalse && inner.Null != TriFalse {
		return false
	}
	if r.Null == TriTrue && inner.Null != TriTrue {
		return false
	}
	if inner.Null == TriTrue {
		return true
	}
	if r.HasLo {
		if !inner.HasLo {
			return false
		}
		c := inner.Lo.Cmp(r.Lo)
		if c < 0 || (c == 0 && inner.LoInc && !r.LoInc) {
			return false
		}
	}
	if r.HasHi {
		if !inner.HasHi {
			return false
		}
		c := inner.Hi.Cmp(r.Hi)
		if c > 0 || (c == 0 && inner.HiInc && !r.HiInc) {
			return false
		}
	}
	if !strings.HasPrefix(inner.Prefix, r.Prefix) {
		return false
	}
	if inner.MinLen < r.MinLen || inner.MaxLen > r.MaxLen {
		return false
	}
	return true
}

// SameAs: semantically identical ranges.
func (r Range) SameAs(o Range) bool { return r.Subsumes(o) && o.Subsumes(r) }

func (r Range) String() string {
	var b strings.Builder
	switch r.Null {
	case TriTrue:
		b.WriteString("null ")
	case TriFalse:
		b.WriteString("notnull ")
	}
	if r.HasLo {
		if r.LoInc {
			fmt.Fprintf(&b, ">=%s ", r.Lo)
		} else {
			fmt.Fprintf(&b, ">%s ", r.Lo)
		}
	}
	if r.HasHi {
		if r.HiInc {
			fmt.Fprintf(&b, "<=%s ", r.Hi)
		} else {
			fmt.Fprintf(&b, "<%s ", r.Hi)
		}
	}
	if r.Prefix != "" {
		fmt.Fprintf(&b, "prefix=%q ", r.Prefix)
	}
	if r.MinLen != 0 || r.MaxLen != math.MaxInt {
		fmt.Fprintf(&b, "len[%d,%d] ", r.MinLen, r.MaxLen)
	}
	return strings.TrimSpace(b.String())
}
