package mon

import (
	"fmt"

	"github.com/zclconf/go-cty/cty"

	"verif/harness/model"
)

// Admits decides whether the abstract value abs (possibly unknown, possibly
// holding unknown parts) admits the concrete value conc: the weakest reading of
// "the result admits the original result". It returns "" when admitted,
// otherwise the reason. Marks are ignored here (C04's business).
func Admits(abs, conc cty.Value) string {
	return admits(abs, conc, "")
}

func admits(abs, conc cty.Value, path string) string {
	abs, _ = abs.Unmark()
	conc, _ = conc.Unmark()
	at, ct := model.TNodeOf(abs.Type()), model.TNodeOf(conc.Type())
	if !model.Conforms(ct, at) {
		return fmt.Sprintf("%s: type %s does not conform to abstract type %s", path, ct, at)
	}
	if !abs.IsKnown() {
		r, err := model.RangeOf(abs)
		if err != nil {
			return fmt.Sprintf("%s: %v", path, err)
		}
		if !conc.IsKnown() {
			// both unknown: abstract range must subsume the concrete one
			rc, err := model.RangeOf(conc)
			if err != nil {
				return fmt.Sprintf("%s: %v", path, err)
			}
			if !r.Subsumes(rc) {
				return fmt.Sprintf("%s: abstract range {%s} does not subsume range {%s}", path, r, rc)
			}
			return ""
		}
		if conc.IsNull() {
			if r.Null == model.TriFalse {
				return fmt.Sprintf("%s: abstract result is definitely-not-null but the concrete result is null", path)
			}
			return ""
		}
		if r.Null == model.TriTrue {
			return fmt.Sprintf("%s: abstract result is definitely null but the concrete result is not", path)
		}
		cty_ := conc.Type()
		switch {
		case cty_ == cty.Number && r.Ty == cty.Number:
			n := model.NumOf(conc.AsBigFloat())
			if !r.AdmitsNum(n) {
				return fmt.Sprintf("%s: number %s outside abstract bounds {%s}", path, n, r)
			}
		case cty_ == cty.String && r.Ty == cty.String:
			if !r.AdmitsPrefix(conc.AsString()) {
				return fmt.Sprintf("%s: string %q lacks abstract prefix %q", path, conc.AsString(), r.Prefix)
			}
		case cty_.IsCollectionType() && r.Ty.IsCollectionType():
			lo, hi := concLenBounds(conc)
			// some length in [lo,hi] must be admitted
			if hi < r.MinLen || lo > r.MaxLen {
				return fmt.Sprintf("%s: length [%d,%d] outside abstract bounds [%d,%d]", path, lo, hi, r.MinLen, r.MaxLen)
			}
		}
		return ""
	}
	// abs known
	if !conc.IsKnown() {
		return fmt.Sprintf("%s: abstract result is known (%#v) but the concrete result is unknown", path, abs)
	}
	if abs.IsNull() || conc.IsNull() {
		if abs.IsNull() != conc.IsNull() {
			return fmt.Sprintf("%s: nullness differs: abstract %#v vs concrete %#v", path, abs, conc)
		}
		return ""
	}
	ty := abs.Type()
	switch {
	case ty == cty.Bool, ty == cty.Number, ty == cty.String, ty.IsCapsuleType():
		if !ModelEqual(abs, conc) {
			return fmt.Sprintf("%s: known abstract %#v differs from concrete %#v", path, abs, conc)
		}
	case ty.IsListType() || ty.IsTupleType():
		if abs.LengthInt() != conc.LengthInt() {
			return fmt.Sprintf("%s: length %d vs %d", path, abs.LengthInt(), conc.LengthInt())
		}
		as, cs := abs.AsValueSlice(), conc.AsValueSlice()
		for i := range as {
			if r := admits(as[i], cs[i], fmt.Sprintf("%s[%d]", path, i)); r != "" {
				return r
			}
		}
	case ty.IsMapType() || ty.IsObjectType():
		am, cm := abs.AsValueMap(), conc.AsValueMap()
		if len(am) != len(cm) {
			return fmt.Sprintf("%s: key count %d vs %d", path, len(am), len(cm))
		}
		for k, av := range am {
			cv, ok := cm[k]
			if !ok {
				return fmt.Sprintf("%s: key %q missing in concrete result", path, k)
			}
			if r := admits(av, cv, fmt.Sprintf("%s[%q]", path, k)); r != "" {
				return r
			}
		}
	case ty.IsSetType():
		as, cs := abs.AsValueSlice(), conc.AsValueSlice()
		if len(cs) > len(as) {
			return fmt.Sprintf("%s: concrete set has %d members, abstract only %d", path, len(cs), len(as))
		}
		for _, a := range as {
			if a.IsWhollyKnown() {
				found := false
				for _, c := range cs {
					if ModelEqual(a, c) {
						found = true
						break
					}
				}
				if !found {
					return fmt.Sprintf("%s: known abstract member %#v not in concrete set", path, a)
				}
			}
		}
		for _, c := range cs {
			found := false
			for _, a := range as {
				if admits(a, c, "") == "" {
					found = true
					break
				}
			}
			if !found {
				return fmt.Sprintf("%s: concrete member %#v admitted by no abstract member", path, c)
			}
		}
	default:
		return fmt.Sprintf("%s: unsupported type %#v", path, ty)
	}
	return ""
}

// concLenBounds returns the possible lengths of a known collection (a set with
// unknown members may coalesce down to 1).
func concLenBounds(v cty.Value) (int, int) {
	n := v.LengthInt()
	if v.Type().IsSetType() && n > 1 && !v.IsWhollyKnown() {
		return 1, n
	}
	return n, n
}
