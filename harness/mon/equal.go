// Package mon holds the monitors: relations and invariants evaluated over
// values returned by the real library, through public accessors (plus the
// tag-guarded hooks where stated).
package mon

import (
	"fmt"

	"github.com/zclconf/go-cty/cty"
	"golang.org/x/text/unicode/norm"

	"verif/harness/model"
)

// ModelEqual is the documented equality extended to every value: marks are
// ignored (compared separately by the callers that care), unknown values are
// equal when their type constraints and ranges are semantically the same, sets
// are compared as sets.
func ModelEqual(a, b cty.Value) bool {
	a, _ = a.Unmark()
	b, _ = b.Unmark()
	if !a.Type().Equals(b.Type()) {
		return false
	}
	if !a.IsKnown() || !b.IsKnown() {
		if a.IsKnown() != b.IsKnown() {
			return false
		}
		ra, e1 := model.RangeOf(a)
		rb, e2 := model.RangeOf(b)
		if e1 != nil || e2 != nil {
			return false
		}
		return ra.SameAs(rb)
	}
	if a.IsNull() || b.IsNull() {
		return a.IsNull() && b.IsNull()
	}
	ty := a.Type()
	switch {
	case ty == cty.Bool:
		return a.True() == b.True()
	case ty == cty.Number:
		return model.NumEqualDoc(a.AsBigFloat(), b.AsBigFloat())
	case ty == cty.String:
		sa, sb := a.AsString(), b.AsString()
		return sa == sb || norm.NFC.String(sa) == norm.NFC.String(sb)
	case ty.IsListType() || ty.IsTupleType():
		if a.LengthInt() != b.LengthInt() {
			return false
		}
		as, bs := a.AsValueSlice(), b.AsValueSlice()
		for i := range as {
			if !ModelEqual(as[i], bs[i]) {
				return false
			}
		}
		return true
	case ty.IsMapType() || ty.IsObjectType():
		if a.LengthInt() != b.LengthInt() {
			return false
		}
		am, bm := a.AsValueMap(), b.AsValueMap()
		if len(am) != len(bm) {
			return false
		}
		for k, av := range am {
			bv, ok := bm[k]
			if !ok || !ModelEqual(av, bv) {
				return false
			}
		}
		return true
	case ty.IsSetType():
		as, bs := a.AsValueSlice(), b.AsValueSlice()
		if len(as) != len(bs) {
			return false
		}
		used := make([]bool, len(bs))
	outer:
		for _, x := range as {
			for j, y := range bs {
				if !used[j] && ModelEqual(x, y) {
					used[j] = true
					continue outer
				}
			}
			return false
		}
		return true
	case ty.IsCapsuleType():
		if ty.Equals(model.CapsuleB) {
			return model.CapX(a) == model.CapX(b) // capsule B declares value equality
		}
		return a.EncapsulatedValue() == b.EncapsulatedValue() // plain capsules: identity
	}
	panic(fmt.Sprintf("ModelEqual: unsupported type %#v", ty))
}

// DeepMarks collects every mark found anywhere in v (through public API only:
// shallow Unmark at every level).
func DeepMarks(v cty.Value) cty.ValueMarks {
	out := cty.ValueMarks{}
	deepMarks(v, out)
	return out
}

func deepMarks(v cty.Value, out cty.ValueMarks) {
	u, m := v.Unmark()
	for k := range m {
		out[k] = struct{}{}
	}
	if !u.IsKnown() || u.IsNull() {
		return
	}
	ty := u.Type()
	if ty.IsCollectionType() || ty.IsTupleType() || ty.IsObjectType() {
		for it := u.ElementIterator(); it.Next(); {
			_, ev := it.Element()
			deepMarks(ev, out)
		}
	}
}

// StripMarks removes all marks at every depth without using UnmarkDeep
// (rebuilds collections bottom-up through the constructors).
func StripMarks(v cty.Value) cty.Value {
	u, _ := v.Unmark()
	if !u.IsKnown() || u.IsNull() {
		return u
	}
	ty := u.Type()
	switch {
	case ty.IsListType():
		if u.LengthInt() == 0 {
			return u
		}
		var es []cty.Value
		for it := u.ElementIterator(); it.Next(); {
			_, ev := it.Element()
			es = append(es, StripMarks(ev))
		}
		return cty.ListVal(es)
	case ty.IsSetType():
		return u // set members are never marked
	case ty.IsTupleType():
		var es []cty.Value
		for it := u.ElementIterator(); it.Next(); {
			_, ev := it.Element()
			es = append(es, StripMarks(ev))
		}
		return cty.TupleVal(es)
	case ty.IsMapType():
		if u.LengthInt() == 0 {
			return u
		}
		m := map[string]cty.Value{}
		for it := u.ElementIterator(); it.Next(); {
			k, ev := it.Element()
			m[k.AsString()] = StripMarks(ev)
		}
		return cty.MapVal(m)
	case ty.IsObjectType():
		if len(ty.AttributeTypes()) == 0 {
			return u
		}
		m := map[string]cty.Value{}
		for it := u.ElementIterator(); it.Next(); {
			k, ev := it.Element()
			m[k.AsString()] = StripMarks(ev)
		}
		return cty.ObjectVal(m)
	}
	return u
}

// MarksSubset reports a ⊆ b.
func MarksSubset(a, b cty.ValueMarks) bool {
	for k := range a {
		if _, ok := b[k]; !ok {
			return false
		}
	}
	return true
}
