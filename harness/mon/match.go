package mon

// PerfectMatch decides whether every i in [0,na) can be paired with its own j in [0,nb) that is not yet used and
// for which ok(i, j) holds: maximum bipartite matching by augmenting paths over the compatibility matrix (na*nb
// calls of ok, then a cubic search). On success the chosen j are marked in used. The drivers use it to pair set
// members with their counterparts; a backtracking search over assignments is exponential exactly when the
// members do NOT all correspond, i.e. on the trees the checks exist for.
func PerfectMatch(na, nb int, used []bool, ok func(i, j int) bool) bool {
	compat := make([][]bool, na)
	for i := 0; i < na; i++ {
		compat[i] = make([]bool, nb)
		any := false
		for j := 0; j < nb; j++ {
			if !used[j] && ok(i, j) {
				compat[i][j], any = true, true
			}
		}
		if !any {
			return false
		}
	}
	owner := make([]int, nb)
	for j := range owner {
		owner[j] = -1
	}
	var try func(i int, seen []bool) bool
	try = func(i int, seen []bool) bool {
		for j := 0; j < nb; j++ {
			if !compat[i][j] || seen[j] {
				continue
			}
			seen[j] = true
			if owner[j] < 0 || try(owner[j], seen) {
				owner[j] = i
				return true
			}
		}
		return false
	}
	for i := 0; i < na; i++ {
		if !try(i, make([]bool, nb)) {
			return false
		}
	}
	for j, o := range owner {
		if o >= 0 {
			used[j] = true
		}
	}
	return true
}
