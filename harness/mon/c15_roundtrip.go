package mon

import (
	"fmt"
	"math/big"
	"sort"

	"github.com/zclconf/go-cty/cty"

	"verif/harness/model"
)

// RTDiff is the first difference found between an original value and what a
// codec round trip returned for it.
type RTDiff struct {
	Path   string
	Kind   string // short, stable: becomes part of the violated oracle clause
	Detail string
	Orig   cty.Value // the original part at Path (NilVal if not applicable)
}

func (d *RTDiff) String() string {
	if d == nil {
		return ""
	}
	return fmt.Sprintf("at %q: %s: %s", d.Path, d.Kind, d.Detail)
}

// RoundTripDiff decides the round-trip relation of C15 / C16 between an
// original value and the decoded one and returns nil when it holds:
//
//   - same type (checked by the caller at the root; re-checked per part here);
//   - known parts: null iff null; bools and strings identical; lists, tuples,
//     maps and objects member-wise; sets as sets;
//   - numbers: documented equality; with exactNums additionally whole numbers
//     and numbers that are exactly a float64 must be numerically identical
//     (big.Float Cmp == 0);
//   - unknown parts: the decoded part is unknown, has the same type constraint,
//     its range subsumes the original's range, and nothing is invented (never
//     definitely-not-null, bounded, prefixed or length-bounded where the
//     original was not).
//
// Marks are ignored (both codecs refuse marked values).
func RoundTripDiff(orig, dec cty.Value, exactNums bool) *RTDiff {
	return rtDiff(orig, dec, exactNums, "")
}

func rtDiff(a, b cty.Value, exact bool, path string) *RTDiff {
	a, _ = a.Unmark()
	b, _ = b.Unmark()
	mk := func(kind, format string, args ...any) *RTDiff {
		return &RTDiff{Path: path, Kind: kind, Detail: fmt.Sprintf(format, args...), Orig: a}
	}
	if !a.Type().Equals(b.Type()) {
		return mk("type", "original part has type %#v, decoded part has type %#v", a.Type(), b.Type())
	}
	if !a.IsKnown() {
		if b.IsKnown() {
			return mk("unknown-became-known", "original %#v, decoded %#v", a, b)
		}
		return unknownDiff(a, b, path)
	}
	if !b.IsKnown() {
		return mk("known-became-unknown", "original %#v, decoded %#v", a, b)
	}
	if a.IsNull() || b.IsNull() {
		if a.IsNull() != b.IsNull() {
			return mk("nullness", "original %#v, decoded %#v", a, b)
		}
		return nil
	}
	ty := a.Type()
	switch {
	case ty == cty.Bool:
		if a.True() != b.True() {
			return mk("bool", "original %#v, decoded %#v", a, b)
		}
	case ty == cty.String:
		if a.AsString() != b.AsString() {
			return mk("string", "original %q, decoded %q", a.AsString(), b.AsString())
		}
	case ty == cty.Number:
		fa, fb := a.AsBigFloat(), b.AsBigFloat()
		switch {
		case fa.IsInf() || fb.IsInf():
			if !(fa.IsInf() && fb.IsInf() && fa.Sign() == fb.Sign()) {
				return mk("number:infinity", "original %#v, decoded %#v", a, b)
			}
		case fa.IsInt():
			if fa.Cmp(fb) != 0 {
				return mk("number:whole", "original %s, decoded %s", fa.Text('f', 0), fb.Text('g', 40))
			}
		case exact && isExactFloat64(fa):
			if fa.Cmp(fb) != 0 {
				return mk("number:float64-exact", "original %s, decoded %s", fa.Text('g', 40), fb.Text('g', 40))
			}
		default:
			if !model.NumEqualDoc(fa, fb) {
				return mk("number:other", "original %s, decoded %s", fa.Text('g', 60), fb.Text('g', 60))
			}
		}
	case ty.IsListType() || ty.IsTupleType():
		if a.LengthInt() != b.LengthInt() {
			return mk("length", "original length %d, decoded length %d", a.LengthInt(), b.LengthInt())
		}
		as, bs := a.AsValueSlice(), b.AsValueSlice()
		for i := range as {
			if d := rtDiff(as[i], bs[i], exact, fmt.Sprintf("%s[%d]", path, i)); d != nil {
				return d
			}
		}
	case ty.IsMapType() || ty.IsObjectType():
		am, bm := a.AsValueMap(), b.AsValueMap()
		if len(am) != len(bm) {
			return mk("keys", "original has %d keys, decoded has %d", len(am), len(bm))
		}
		ks := make([]string, 0, len(am))
		for k := range am {
			ks = append(ks, k)
		}
		sort.Strings(ks)
		for _, k := range ks {
			bv, ok := bm[k]
			if !ok {
				return mk("keys", "key %q missing in the decoded value", k)
			}
			if d := rtDiff(am[k], bv, exact, fmt.Sprintf("%s[%q]", path, k)); d != nil {
				return d
			}
		}
	case ty.IsSetType():
		as, bs := a.AsValueSlice(), b.AsValueSlice()
		if len(as) != len(bs) {
			return mk("set-members", "original has %d members, decoded has %d: %#v vs %#v", len(as), len(bs), a, b)
		}
		if !matchMembers(as, bs, make([]bool, len(bs)), 0, exact) {
			// find one member without a partner for the report
			for i, x := range as {
				found := false
				for _, y := range bs {
					if rtDiff(x, y, exact, "") == nil {
						found = true
						break
					}
				}
				if !found {
					d := rtDiff(x, bs[0], exact, fmt.Sprintf("%s{%d}", path, i))
					if len(bs) == 1 && d != nil {
						return d
					}
					return &RTDiff{Path: fmt.Sprintf("%s{%d}", path, i), Kind: "set-members", Orig: x,
						Detail: fmt.Sprintf("member %#v has no counterpart in the decoded set %#v", x, b)}
				}
			}
			return mk("set-members", "no one-to-one correspondence between %#v and %#v", a, b)
		}
	case ty.IsCapsuleType():
		return mk("capsule", "capsule values are outside the property")
	}
	return nil
}

// matchMembers looks for a bijection between as[i:] and the unused members of bs.
func matchMembers(as, bs []cty.Value, used []bool, i int, exact bool) bool {
	return PerfectMatch(len(as)-i, len(bs), used, func(x, j int) bool { return rtDiff(as[i+x], bs[j], exact, "") == nil })
}

func isExactFloat64(f *big.Float) bool {
	_, acc := f.Float64()
	return acc == big.Exact
}

func unknownDiff(a, b cty.Value, path string) *RTDiff {
	mk := func(kind, format string, args ...any) *RTDiff {
		return &RTDiff{Path: path, Kind: kind, Detail: fmt.Sprintf(format, args...), Orig: a}
	}
	ra, e1 := model.RangeOf(a)
	rb, e2 := model.RangeOf(b)
	if e1 != nil {
		return mk("unknown:range-accessor-panicked-on-original", "%v", e1)
	}
	if e2 != nil {
		return mk("unknown:range-accessor-panicked", "%v", e2)
	}
	// nothing invented
	if rb.Null == model.TriFalse && ra.Null != model.TriFalse {
		return mk("unknown:invented-not-null", "original range {%s}, decoded range {%s}", ra, rb)
	}
	if rb.Null == model.TriTrue && ra.Null != model.TriTrue {
		return mk("unknown:invented-null", "original range {%s}, decoded range {%s}", ra, rb)
	}
	if (rb.HasLo && !ra.HasLo) || (rb.HasHi && !ra.HasHi) {
		return mk("unknown:invented-bound", "original range {%s}, decoded range {%s}", ra, rb)
	}
	if rb.Prefix != "" && ra.Prefix == "" {
		return mk("unknown:invented-prefix", "original range {%s}, decoded range {%s}", ra, rb)
	}
	if (rb.MinLen != 0 && ra.MinLen == 0) || (rb.MaxLen != int(^uint(0)>>1) && ra.MaxLen == int(^uint(0)>>1)) {
		return mk("unknown:invented-length-bound", "original range {%s}, decoded range {%s}", ra, rb)
	}
	if !rb.Subsumes(ra) {
		kind := "unknown:narrowed"
		switch {
		case rb.HasLo && (ra.Lo.Cmp(rb.Lo) < 0 || (ra.Lo.Cmp(rb.Lo) == 0 && ra.LoInc && !rb.LoInc)):
			kind = "unknown:narrowed-lower-bound"
		case rb.HasHi && (ra.Hi.Cmp(rb.Hi) > 0 || (ra.Hi.Cmp(rb.Hi) == 0 && ra.HiInc && !rb.HiInc)):
			kind = "unknown:narrowed-upper-bound"
		case len(rb.Prefix) > 0 && (len(ra.Prefix) < len(rb.Prefix) || ra.Prefix[:len(rb.Prefix)] != rb.Prefix):
			kind = "unknown:prefix-not-a-prefix-of-the-original"
		case ra.MinLen < rb.MinLen || ra.MaxLen > rb.MaxLen:
			kind = "unknown:narrowed-length-bound"
		}
		return mk(kind, "original range {%s}, decoded range {%s}", ra, rb)
	}
	return nil
}

// WholeTextInexact reports whether f is a whole number whose shortest
// round-trip decimal text (at f's own precision) denotes a different integer:
// the input class of F-32.
func WholeTextInexact(f *big.Float) bool {
	if f.IsInf() || !f.IsInt() {
		return false
	}
	txt := f.Text('f', -1)
	want, _ := f.Int(nil)
	got, ok := new(big.Int).SetString(txt, 10)
	if !ok {
		return true
	}
	return got.Cmp(want) != 0
}

// HasWholeTextInexact reports whether any known number inside v is in the
// WholeTextInexact class.
func HasWholeTextInexact(v cty.Value) bool {
	v, _ = v.Unmark()
	if !v.IsKnown() || v.IsNull() {
		return false
	}
	ty := v.Type()
	switch {
	case ty == cty.Number:
		return WholeTextInexact(v.AsBigFloat())
	case ty.IsCollectionType() || ty.IsTupleType() || ty.IsObjectType():
		for it := v.ElementIterator(); it.Next(); {
			_, ev := it.Element()
			if HasWholeTextInexact(ev) {
				return true
			}
		}
	}
	return false
}
