package mon

import (
	"fmt"

	"github.com/zclconf/go-cty/cty"
	"golang.org/x/text/unicode/norm"

	"verif/harness/model"
)

// WellFormed is the public-API flavour of the C06 validity walk. It returns ""
// when v is internally consistent with its type, otherwise what is wrong.
func WellFormed(v cty.Value) (res string) {
	defer func() {
		if p := recover(); p != nil {
			res = fmt.Sprintf("accessor panicked during validity walk: %v", p)
		}
	}()
	if v == cty.NilVal {
		return "NilVal returned"
	}
	return wellFormed(v, "", true)
}

func wellFormed(v cty.Value, path string, top bool) string {
	u, _ := v.Unmark()
	if u.IsMarked() {
		return path + ": more than one layer of marks"
	}
	ty := u.Type()
	if top {
		if model.HasOptional(model.TNodeOf(ty)) {
			return fmt.Sprintf("%s: type %#v carries optional-attribute annotations", path, ty)
		}
	}
	if ty == cty.DynamicPseudoType {
		if u.IsKnown() && !u.IsNull() {
			return path + ": known non-null value of dynamic pseudo-type"
		}
	}
	if !u.IsKnown() {
		r, err := model.RangeOf(u)
		if err != nil {
			return path + ": " + err.Error()
		}
		if r.HasLo && r.HasHi {
			c := r.Lo.Cmp(r.Hi)
			if c > 0 || (c == 0 && !(r.LoInc && r.HiInc)) {
				return fmt.Sprintf("%s: unknown number with empty range {%s}", path, r)
			}
		}
		if r.MinLen > r.MaxLen || r.MinLen < 0 {
			return fmt.Sprintf("%s: unknown collection with bad length bounds {%s}", path, r)
		}
		if r.Prefix != norm.NFC.String(r.Prefix) {
			return fmt.Sprintf("%s: refinement prefix %q is not NFC", path, r.Prefix)
		}
		return ""
	}
	if u.IsNull() {
		return ""
	}
	switch {
	case ty == cty.Bool:
		_ = u.True()
	case ty == cty.Number:
		if u.AsBigFloat() == nil {
			return path + ": nil big.Float"
		}
	case ty == cty.String:
		s := u.AsString()
		if s != norm.NFC.String(s) {
			return fmt.Sprintf("%s: string %q is not NFC-normalized", path, s)
		}
	case ty.IsListType():
		ety := ty.ElementType()
		n := u.LengthInt()
		i := 0
		for it := u.ElementIterator(); it.Next(); i++ {
			k, ev := it.Element()
			if !k.RawEquals(cty.NumberIntVal(int64(i))) {
				return fmt.Sprintf("%s: list iterator key %#v at position %d", path, k, i)
			}
			if !ev.Type().Equals(ety) {
				return fmt.Sprintf("%s[%d]: element type %#v, declared %#v", path, i, ev.Type(), ety)
			}
			if r := wellFormed(ev, fmt.Sprintf("%s[%d]", path, i), false); r != "" {
				return r
			}
		}
		if i != n {
			return fmt.Sprintf("%s: LengthInt %d but iterator yields %d", path, n, i)
		}
	case ty.IsSetType():
		ety := ty.ElementType()
		n := u.LengthInt()
		var ms []cty.Value
		for it := u.ElementIterator(); it.Next(); {
			_, ev := it.Element()
			if ev.IsMarked() || ev.ContainsMarked() {
				return fmt.Sprintf("%s: set member %#v is marked", path, ev)
			}
			if !ev.Type().Equals(ety) {
				return fmt.Sprintf("%s: set member type %#v, declared %#v", path, ev.Type(), ety)
			}
			if r := wellFormed(ev, path+"{member}", false); r != "" {
				return r
			}
			ms = append(ms, ev)
		}
		if len(ms) != n {
			return fmt.Sprintf("%s: LengthInt %d but iterator yields %d", path, n, len(ms))
		}
		for i := range ms {
			if !ms[i].IsWhollyKnown() {
				continue
			}
			for j := i + 1; j < len(ms); j++ {
				if ms[j].IsWhollyKnown() && ModelEqual(ms[i], ms[j]) {
					return fmt.Sprintf("%s: set holds duplicate members %#v and %#v", path, ms[i], ms[j])
				}
			}
		}
	case ty.IsMapType():
		ety := ty.ElementType()
		n := u.LengthInt()
		i := 0
		for it := u.ElementIterator(); it.Next(); i++ {
			k, ev := it.Element()
			ks := k.AsString()
			if ks != norm.NFC.String(ks) {
				return fmt.Sprintf("%s: map key %q is not NFC-normalized", path, ks)
			}
			if !ev.Type().Equals(ety) {
				return fmt.Sprintf("%s[%q]: element type %#v, declared %#v", path, ks, ev.Type(), ety)
			}
			if r := wellFormed(ev, fmt.Sprintf("%s[%q]", path, ks), false); r != "" {
				return r
			}
		}
		if i != n {
			return fmt.Sprintf("%s: LengthInt %d but iterator yields %d", path, n, i)
		}
	case ty.IsTupleType():
		etys := ty.TupleElementTypes()
		i := 0
		for it := u.ElementIterator(); it.Next(); i++ {
			_, ev := it.Element()
			if i >= len(etys) {
				return fmt.Sprintf("%s: tuple has more elements than its type (%d)", path, len(etys))
			}
			if !ev.Type().Equals(etys[i]) {
				return fmt.Sprintf("%s[%d]: element type %#v, declared %#v", path, i, ev.Type(), etys[i])
			}
			if r := wellFormed(ev, fmt.Sprintf("%s[%d]", path, i), false); r != "" {
				return r
			}
		}
		if i != len(etys) {
			return fmt.Sprintf("%s: tuple has %d elements, type says %d", path, i, len(etys))
		}
	case ty.IsObjectType():
		atys := ty.AttributeTypes()
		seen := 0
		for name, aty := range atys {
			if name != norm.NFC.String(name) {
				return fmt.Sprintf("%s: attribute name %q is not NFC-normalized", path, name)
			}
			av := u.GetAttr(name)
			if !av.Type().Equals(aty) {
				return fmt.Sprintf("%s.%s: attribute type %#v, declared %#v", path, name, av.Type(), aty)
			}
			if r := wellFormed(av, path+"."+name, false); r != "" {
				return r
			}
			seen++
		}
		n := 0
		for it := u.ElementIterator(); it.Next(); n++ {
			k, _ := it.Element()
			if _, ok := atys[k.AsString()]; !ok {
				return fmt.Sprintf("%s: iterator yields undeclared attribute %q", path, k.AsString())
			}
		}
		if n != seen {
			return fmt.Sprintf("%s: object iterator yields %d attributes, type declares %d", path, n, seen)
		}
	case ty.IsCapsuleType():
		if u.EncapsulatedValue() == nil {
			return path + ": capsule value with nil payload"
		}
	default:
		return fmt.Sprintf("%s: value of unsupported type %#v", path, ty)
	}
	return ""
}
