package gen

import (
	"fmt"
	"math/big"
	"unicode/utf8"

	"github.com/zclconf/go-cty/cty"

	"verif/harness/core"
)

// WeakenOpts tunes Weaken.
type WeakenOpts struct {
	Pct         int  // chance (percent) to replace any visited position
	Refined     bool // use refinements that are true of the replaced part
	Dynamic     bool // allow DynamicVal at top level and at tuple/object member level
	TypedOnly   bool // never use DynamicVal (C12)
	ForceTop    bool // replace the whole value
	ForceOne    bool // guarantee at least one replacement
	InflateSets bool // also give a non-empty set extra unknown members, each admitting one of its members: the
	// abstract set then stores more members than the concrete set has (an unknown member may turn out
	// to be equal to another member), which is what SetVal([1, unknown]) means for the concrete set {1}
	maxReplace int
}

// Weakening records what was replaced by what.
type Weakening struct {
	Path string
	By   string
}

// Weaken replaces a subset of the sub-values of v by unknown values that
// admit what they replace. It returns the weakened value and the record.
func Weaken(r *core.Rand, v cty.Value, o WeakenOpts) (cty.Value, []Weakening) {
	var rec []Weakening
	out := weaken(r, v, o, "", true, &rec)
	if len(rec) == 0 && o.ForceOne {
		o2 := o
		o2.Pct = 60
		for try := 0; try < 8 && len(rec) == 0; try++ {
			out = weaken(r, v, o2, "", true, &rec)
		}
		if len(rec) == 0 {
			out = AdmittingUnknown(r, v, o.Refined, o.Dynamic && !o.TypedOnly)
			rec = append(rec, Weakening{"", out.GoString()})
		}
	}
	return out, rec
}

func weaken(r *core.Rand, v cty.Value, o WeakenOpts, path string, top bool, rec *[]Weakening) cty.Value {
	if v.IsMarked() {
		u, mk := v.Unmark()
		return weaken(r, u, o, path, top, rec).WithMarks(mk)
	}
	if !v.IsKnown() {
		return v
	}
	if (top && o.ForceTop) || r.Chance(o.Pct, 100) {
		dyn := o.Dynamic && !o.TypedOnly && top
		u := AdmittingUnknown(r, v, o.Refined, dyn)
		*rec = append(*rec, Weakening{path, u.GoString()})
		return u
	}
	if v.IsNull() {
		return v
	}
	ty := v.Type()
	switch {
	case ty.IsListType():
		if v.LengthInt() == 0 {
			return v
		}
		o.Dynamic = false // members of a collection must keep one type
		es := v.AsValueSlice()
		for i := range es {
			es[i] = weaken(r, es[i], o, fmt.Sprintf("%s[%d]", path, i), false, rec)
		}
		return cty.ListVal(es)
	case ty.IsSetType():
		if v.LengthInt() == 0 {
			return v
		}
		o.Dynamic = false // members of a collection must keep one type
		es := v.AsValueSlice()
		orig := append([]cty.Value(nil), es...)
		for i := range es {
			es[i] = weaken(r, es[i], o, fmt.Sprintf("%s{%d}", path, i), false, rec)
		}
		if o.InflateSets && r.Chance(1, 4) {
			for k, n := 0, 1+r.Intn(2); k < n; k++ {
				e := orig[r.Intn(len(orig))]
				if e.IsMarked() || !e.IsKnown() {
					continue
				}
				u := AdmittingUnknown(r, e, o.Refined, false)
				if ety := e.Type(); !ety.IsPrimitiveType() && !e.IsNull() && r.Bool() {
					// a copy of the member with nested parts replaced: partly unknown, may coincide with the original
					o2 := o
					o2.Pct, o2.ForceTop, o2.Dynamic = 40, false, false
					var sub []Weakening
					u = weaken(r, e, o2, fmt.Sprintf("%s{+}", path), false, &sub)
				}
				if u.IsWhollyKnown() {
					continue
				}
				es = append(es, u)
				*rec = append(*rec, Weakening{fmt.Sprintf("%s{+}", path), u.GoString()})
			}
		}
		if r.Chance(1, 4) {
			return SetViaHistory(r, es)
		}
		return cty.SetVal(es)
	case ty.IsMapType():
		if v.LengthInt() == 0 {
			return v
		}
		o.Dynamic = false // members of a collection must keep one type
		mm := v.AsValueMap()
		for _, k := range sortedKeys(mm) {
			mm[k] = weaken(r, mm[k], o, fmt.Sprintf("%s[%q]", path, k), false, rec)
		}
		return cty.MapVal(mm)
	case ty.IsTupleType():
		if v.LengthInt() == 0 {
			return v
		}
		es := v.AsValueSlice()
		for i := range es {
			p := fmt.Sprintf("%s[%d]", path, i)
			if o.Dynamic && !o.TypedOnly && r.Chance(o.Pct, 300) {
				es[i] = cty.DynamicVal
				*rec = append(*rec, Weakening{p, "cty.DynamicVal"})
				continue
			}
			es[i] = weaken(r, es[i], o, p, false, rec)
		}
		return cty.TupleVal(es)
	case ty.IsObjectType():
		if v.LengthInt() == 0 {
			return v
		}
		mm := v.AsValueMap()
		for _, k := range sortedKeys(mm) {
			p := fmt.Sprintf("%s.%s", path, k)
			if o.Dynamic && !o.TypedOnly && r.Chance(o.Pct, 300) {
				mm[k] = cty.DynamicVal
				*rec = append(*rec, Weakening{p, "cty.DynamicVal"})
				continue
			}
			mm[k] = weaken(r, mm[k], o, p, false, rec)
		}
		return cty.ObjectVal(mm)
	}
	return v
}

func sortedKeys(mm map[string]cty.Value) []string {
	ks := make([]string, 0, len(mm))
	for k := range mm {
		ks = append(ks, k)
	}
	for i := 1; i < len(ks); i++ {
		for j := i; j > 0 && ks[j] < ks[j-1]; j-- {
			ks[j], ks[j-1] = ks[j-1], ks[j]
		}
	}
	return ks
}

// AdmittingUnknown returns an unknown value whose type constraint and
// refinements admit part.
func AdmittingUnknown(r *core.Rand, part cty.Value, refined, allowDynamic bool) cty.Value {
	part, _ = part.Unmark()
	if allowDynamic && r.Chance(1, 6) {
		return cty.DynamicVal
	}
	ty := part.Type()
	if ty == cty.DynamicPseudoType {
		return cty.DynamicVal
	}
	u := cty.UnknownVal(ty)
	if refined && part.IsKnown() && part.IsNull() && r.Chance(1, 2) {
		// A null is admitted by any unknown that is not refined as non-null:
		// bounds, prefixes and length bounds speak only about the non-null case.
		return nullableRefined(r, u)
	}
	if !refined || !part.IsKnown() || part.IsNull() || r.Chance(1, 4) {
		return u
	}
	b := u.Refine()
	if r.Chance(2, 3) {
		b = b.NotNull()
	}
	switch {
	case ty == cty.Number:
		f := part.AsBigFloat()
		if f.IsInf() {
			// only the opposite side can be bounded truthfully
			if r.Chance(2, 3) {
				fin := cty.NumberIntVal(int64(r.Intn(5) - 2))
				if f.Sign() < 0 {
					b = b.NumberRangeUpperBound(fin, r.Bool())
				} else {
					b = b.NumberRangeLowerBound(fin, r.Bool())
				}
			}
			break
		}
		if r.Chance(2, 3) {
			lo, inc := boundNear(r, f, -1)
			b = b.NumberRangeLowerBound(lo, inc)
		}
		if r.Chance(2, 3) {
			hi, inc := boundNear(r, f, +1)
			b = b.NumberRangeUpperBound(hi, inc)
		}
	case ty == cty.String:
		s := part.AsString()
		if r.Chance(2, 3) {
			// a true prefix, cut at a rune boundary
			cut := 0
			if len(s) > 0 {
				cut = r.Intn(len(s) + 1)
				for cut < len(s) && !utf8.RuneStart(s[cut]) {
					cut++
				}
			}
			if r.Bool() {
				b = b.StringPrefixFull(s[:cut])
			} else {
				b = b.StringPrefix(s[:cut])
			}
		}
	case ty.IsCollectionType():
		n := part.LengthInt()
		if r.Chance(2, 3) {
			lo := n
			if r.Bool() && n > 0 {
				lo = r.Intn(n + 1)
			}
			b = b.CollectionLengthLowerBound(lo)
		}
		if r.Chance(2, 3) {
			hi := n
			if r.Bool() {
				hi = n + r.Intn(3)
			}
			if r.Chance(1, 5) {
				// a loose upper bound around the sizes at which code that multiplies, sums or caps length bounds
				// changes its mind (32 / 64 / 1024 / 2048 thresholds, 31- and 62-bit products)
				// (absolute, not n+...: with n + 2^62 a product of bounds that wraps around is congruent to
				// the exact product and can never look unsound)
				if l := looseLengths[r.Intn(len(looseLengths))]; l >= n {
					hi = l
				} else {
					hi = n + l
				}
			}
			b = b.CollectionLengthUpperBound(hi)
		}
	}
	return b.NewValue()
}

var looseLengths = []int{31, 32, 48, 63, 64, 900, 1023, 1024, 1025, 2048, 2049, 5000, 65536, 1 << 31, 1 << 32, 1 << 40, 1 << 61, 1 << 62}

// boundNear returns a bound on side dir (-1 lower, +1 upper) that is true of f
// under exact comparison: f itself inclusively, or a strict neighbour
// exclusively/inclusively, or a loose bound.
func boundNear(r *core.Rand, f *big.Float, dir int) (cty.Value, bool) {
	same := func() cty.Value {
		if f.Sign() == 0 {
			return cty.Zero // never -0 as a bound
		}
		return cty.NumberVal(new(big.Float).Copy(f))
	}
	switch r.Intn(4) {
	case 0:
		return same(), true
	case 1, 2:
		d := int64(1)
		if r.Bool() {
			d = int64(1 + r.Intn(1000))
		}
		prec := f.Prec()
		if prec < 512 {
			prec = 512
		}
		nb := new(big.Float).SetPrec(prec + 64)
		if dir < 0 {
			nb.Sub(f, new(big.Float).SetInt64(d))
		} else {
			nb.Add(f, new(big.Float).SetInt64(d))
		}
		if c := nb.Cmp(f); (dir < 0 && c < 0) || (dir > 0 && c > 0) {
			return cty.NumberVal(nb), r.Bool()
		}
		return same(), true
	default:
		// loose: the singleton infinity (ignored by the builder) or a huge number
		if r.Bool() {
			if dir < 0 {
				return cty.NegativeInfinity, r.Bool()
			}
			return cty.PositiveInfinity, r.Bool()
		}
		h := new(big.Float).SetPrec(512).SetMantExp(big.NewFloat(1), 700)
		if dir < 0 {
			h.Neg(h)
		}
		if c := h.Cmp(f); (dir < 0 && c < 0) || (dir > 0 && c > 0) {
			return cty.NumberVal(h), true
		}
		return same(), true
	}
}

// nullableRefined refines the unknown u with arbitrary bounds / prefix / length
// bounds but never with not-null, so that the result still admits a null.
func nullableRefined(r *core.Rand, u cty.Value) cty.Value {
	ty := u.Type()
	b := u.Refine()
	switch {
	case ty == cty.Number:
		lo := int64(r.Intn(30) - 10)
		hi := lo + int64(r.Intn(8))
		switch r.Intn(3) {
		case 0:
			b = b.NumberRangeLowerBound(cty.NumberIntVal(lo), r.Bool())
		case 1:
			b = b.NumberRangeUpperBound(cty.NumberIntVal(hi), r.Bool())
		default:
			b = b.NumberRangeLowerBound(cty.NumberIntVal(lo), true).NumberRangeUpperBound(cty.NumberIntVal(hi), true)
		}
	case ty == cty.String:
		b = b.StringPrefixFull([]string{"foo", "a", "\u00e9", "x,y"}[r.Intn(4)])
	case ty.IsCollectionType():
		lo := r.Intn(3)
		switch r.Intn(3) {
		case 0:
			b = b.CollectionLengthLowerBound(lo)
		case 1:
			b = b.CollectionLengthUpperBound(lo + r.Intn(3))
		default:
			b = b.CollectionLengthLowerBound(lo).CollectionLengthUpperBound(lo + 1 + r.Intn(3))
		}
	default:
		return u
	}
	return b.NewValue()
}

// SetViaHistory builds the set value of the given members the long way round: through a cty.ValueSet that is
// wrapped into a set value and enumerated half-way, then grows further and is wrapped again. The result is the
// second wrapping. On a library whose values are immutable it is the same value as cty.SetVal(es); it exists so
// that set values with a past (snapshots of one ValueSet, copies, earlier enumerations) take part in every
// workload that weakens sets. Falls back to cty.SetVal where a ValueSet cannot hold the members (marks, members of
// several types).
func SetViaHistory(r *core.Rand, es []cty.Value) (out cty.Value) {
	plain := cty.SetVal(es)
	ety := plain.Type().ElementType()
	if plain.IsMarked() || ety.HasDynamicTypes() || len(es) == 0 {
		return plain
	}
	for _, e := range es {
		if e.ContainsMarked() || !e.Type().Equals(ety) {
			return plain
		}
	}
	defer func() {
		if recover() != nil {
			out = plain
		}
	}()
	vs := cty.NewValueSet(ety)
	k := r.Intn(len(es) + 1)
	for _, e := range es[:k] {
		vs.Add(e)
	}
	first := cty.SetValFromValueSet(vs)
	_ = first.LengthInt()
	for it := first.ElementIterator(); it.Next(); {
		it.Element()
	}
	_ = vs.Values()
	for _, e := range es[k:] {
		vs.Add(e)
	}
	// the older value is used again after the helper set changed and before the next value is taken
	_ = first.LengthInt()
	for it := first.ElementIterator(); it.Next(); {
		it.Element()
	}
	second := cty.SetValFromValueSet(vs)
	if r.Bool() {
		// the helper set lives on and changes after the value was taken
		for _, e := range es[:k] {
			vs.Remove(e)
		}
	}
	return second
}
