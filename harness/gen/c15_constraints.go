package gen

import (
	"sort"

	"github.com/zclconf/go-cty/cty"

	"verif/harness/core"
)

// This file holds the helpers shared by the two codec drivers (C15 JSON, C16
// MessagePack): type constraints derived from a value's type by replacing
// sub-types with the dynamic placeholder, the classification of a
// (value, constraint) pair into k0..k3, and a constructor-only value rewriter.
//
// Classes (DESIGN.md, C15):
//
//	k0  the constraint is the value's exact type
//	k1  the placeholder sits at the root
//	k2  placeholders only at positions whose value part is known and non-empty
//	    all the way down from the root
//	k3  some placeholder sits below a null, unknown or empty-collection part, or
//	    below the element type of a collection whose members resolve to
//	    different concrete types
//
// k3 is where the wire formats themselves cannot carry the type (the hollow part
// is written as null / [] / {} / an unknown marker without a type tag). The
// oracle is the same in every class; the class only scopes reports.

// DeriveConstraint returns ty with each sub-type (the root included) replaced
// by cty.DynamicPseudoType with probability pct/100. The result is a constraint
// every value of type ty conforms to.
func DeriveConstraint(r *core.Rand, ty cty.Type, pct int) cty.Type {
	if ty == cty.DynamicPseudoType {
		return ty
	}
	if r.Chance(pct, 100) {
		return cty.DynamicPseudoType
	}
	return deriveBelow(r, ty, pct)
}

// DeriveConstraintBelowRoot is DeriveConstraint without ever replacing the root.
func DeriveConstraintBelowRoot(r *core.Rand, ty cty.Type, pct int) cty.Type {
	return deriveBelow(r, ty, pct)
}

func deriveBelow(r *core.Rand, ty cty.Type, pct int) cty.Type {
	switch {
	case ty.IsListType():
		return cty.List(DeriveConstraint(r, ty.ElementType(), pct))
	case ty.IsSetType():
		return cty.Set(DeriveConstraint(r, ty.ElementType(), pct))
	case ty.IsMapType():
		return cty.Map(DeriveConstraint(r, ty.ElementType(), pct))
	case ty.IsTupleType():
		ets := ty.TupleElementTypes()
		out := make([]cty.Type, len(ets))
		for i, e := range ets {
			out[i] = DeriveConstraint(r, e, pct)
		}
		return cty.Tuple(out)
	case ty.IsObjectType():
		ats := ty.AttributeTypes()
		out := make(map[string]cty.Type, len(ats))
		for _, k := range sortedTypeKeys(ats) { // sorted: deterministic draw order
			out[k] = DeriveConstraint(r, ats[k], pct)
		}
		return cty.Object(out)
	}
	return ty
}

func sortedTypeKeys(m map[string]cty.Type) []string {
	ks := make([]string, 0, len(m))
	for k := range m {
		ks = append(ks, k)
	}
	sort.Strings(ks)
	return ks
}

// SinglePlaceholderConstraints enumerates every constraint obtained from ty by
// replacing exactly one sub-type (root included) with the placeholder.
func SinglePlaceholderConstraints(ty cty.Type) []cty.Type {
	if ty == cty.DynamicPseudoType {
		return nil
	}
	out := []cty.Type{cty.DynamicPseudoType}
	switch {
	case ty.IsListType():
		for _, e := range SinglePlaceholderConstraints(ty.ElementType()) {
			out = append(out, cty.List(e))
		}
	case ty.IsSetType():
		for _, e := range SinglePlaceholderConstraints(ty.ElementType()) {
			out = append(out, cty.Set(e))
		}
	case ty.IsMapType():
		for _, e := range SinglePlaceholderConstraints(ty.ElementType()) {
			out = append(out, cty.Map(e))
		}
	case ty.IsTupleType():
		ets := ty.TupleElementTypes()
		for i := range ets {
			for _, e := range SinglePlaceholderConstraints(ets[i]) {
				cp := append([]cty.Type(nil), ets...)
				cp[i] = e
				out = append(out, cty.Tuple(cp))
			}
		}
	case ty.IsObjectType():
		ats := ty.AttributeTypes()
		for _, k := range sortedTypeKeys(ats) {
			for _, e := range SinglePlaceholderConstraints(ats[k]) {
				cp := make(map[string]cty.Type, len(ats))
				for kk, vv := range ats {
					cp[kk] = vv
				}
				cp[k] = e
				out = append(out, cty.Object(cp))
			}
		}
	}
	return out
}

// ConstraintClass classifies the pair (v, c) where c is a constraint derived
// from v.Type() by placeholder replacement. Marks on v are ignored.
func ConstraintClass(v cty.Value, c cty.Type) string {
	v, _ = v.Unmark()
	t := v.Type()
	if c.Equals(t) {
		return "k0"
	}
	if c == cty.DynamicPseudoType {
		return "k1"
	}
	w := &classWalk{}
	res := w.resolved(v, t, c, false)
	if w.lossy || !res.Equals(t) {
		return "k3"
	}
	return "k2"
}

type classWalk struct {
	lossy bool // some placeholder introduced by c is not reached on the wire, or mixed
	mixed bool // the members of one collection resolve to different types
}

// WirePrediction returns, for a value v and a constraint c derived from
// v.Type(), the type a decoder can reconstruct from what the codecs put on the
// wire (the placeholder stays wherever it sits below a null, unknown or empty
// part) and whether the members of some collection resolve to different types
// (then no collection value of one element type can be rebuilt at all).
// ConstraintClass(v, c) is k3 exactly when mixed is true or the returned type
// differs from v.Type().
func WirePrediction(v cty.Value, c cty.Type) (resolved cty.Type, mixed bool) {
	v, _ = v.Unmark()
	w := &classWalk{}
	resolved = w.resolved(v, v.Type(), c, false)
	return resolved, w.mixed
}

// hollow: nothing of the part's members reaches the wire.
func hollow(v cty.Value) bool {
	return v == cty.NilVal || !v.IsKnown() || v.IsNull()
}

// resolved returns the type a decoder can reconstruct for the part v (of type
// t) written against constraint c: the wrapper at a placeholder carries the
// part's exact type, but only if the placeholder is reached, i.e. every
// ancestor is known, non-null and (for collections) non-empty. below is true
// when some ancestor is hollow. It sets lossy when a placeholder that c
// introduces (t is not itself dynamic there) sits below a hollow ancestor, or
// when the members of one collection resolve to different types.
func (w *classWalk) resolved(v cty.Value, t, c cty.Type, below bool) cty.Type {
	if v != cty.NilVal {
		v, _ = v.Unmark()
	}
	if c == cty.DynamicPseudoType {
		if t == cty.DynamicPseudoType {
			return t
		}
		if below {
			w.lossy = true
			return c
		}
		return t
	}
	switch {
	case t.IsListType() || t.IsSetType() || t.IsMapType():
		wrap := cty.List
		if t.IsSetType() {
			wrap = cty.Set
		} else if t.IsMapType() {
			wrap = cty.Map
		}
		if below || hollow(v) || v.LengthInt() == 0 {
			return wrap(w.resolved(cty.NilVal, t.ElementType(), c.ElementType(), true))
		}
		var first cty.Type
		n := 0
		for it := v.ElementIterator(); it.Next(); {
			_, ev := it.Element()
			rt := w.resolved(ev, t.ElementType(), c.ElementType(), false)
			if n == 0 {
				first = rt
			} else if !rt.Equals(first) {
				w.lossy = true
				w.mixed = true
			}
			n++
		}
		return wrap(first)
	case t.IsTupleType():
		tes, ces := t.TupleElementTypes(), c.TupleElementTypes()
		out := make([]cty.Type, len(tes))
		h := below || hollow(v)
		var parts []cty.Value
		if !h {
			parts = make([]cty.Value, 0, len(tes))
			for it := v.ElementIterator(); it.Next(); {
				_, ev := it.Element()
				parts = append(parts, ev)
			}
		}
		for i := range tes {
			if h {
				out[i] = w.resolved(cty.NilVal, tes[i], ces[i], true)
			} else {
				out[i] = w.resolved(parts[i], tes[i], ces[i], false)
			}
		}
		return cty.Tuple(out)
	case t.IsObjectType():
		tas, cas := t.AttributeTypes(), c.AttributeTypes()
		out := make(map[string]cty.Type, len(tas))
		h := below || hollow(v)
		for _, k := range sortedTypeKeys(tas) {
			if h {
				out[k] = w.resolved(cty.NilVal, tas[k], cas[k], true)
			} else {
				out[k] = w.resolved(v.GetAttr(k), tas[k], cas[k], false)
			}
		}
		return cty.Object(out)
	}
	return t
}

// CountPlaceholders counts the dynamic positions of c that are not dynamic in t
// (c derived from t).
func CountPlaceholders(t, c cty.Type) int {
	if c == cty.DynamicPseudoType {
		if t == cty.DynamicPseudoType {
			return 0
		}
		return 1
	}
	switch {
	case t.IsCollectionType():
		return CountPlaceholders(t.ElementType(), c.ElementType())
	case t.IsTupleType():
		n := 0
		tes, ces := t.TupleElementTypes(), c.TupleElementTypes()
		for i := range tes {
			n += CountPlaceholders(tes[i], ces[i])
		}
		return n
	case t.IsObjectType():
		n := 0
		tas, cas := t.AttributeTypes(), c.AttributeTypes()
		for k := range tas {
			n += CountPlaceholders(tas[k], cas[k])
		}
		return n
	}
	return 0
}

// RewriteParts rebuilds v through the value constructors only (no Transform,
// no Walk). f is called pre-order on every part; if it returns ok the
// replacement is used and the part is not descended into. inColl tells f that
// the part is a member of a list, set or map, where a replacement must keep
// the part's type. Parts of unknown, null or marked values are not visited
// below that value.
func RewriteParts(v cty.Value, f func(part cty.Value, path string, inColl bool) (cty.Value, bool)) cty.Value {
	return rewrite(v, "", false, f)
}

func rewrite(v cty.Value, path string, inColl bool, f func(cty.Value, string, bool) (cty.Value, bool)) cty.Value {
	if nv, ok := f(v, path, inColl); ok {
		return nv
	}
	if v.IsMarked() || !v.IsKnown() || v.IsNull() {
		return v
	}
	ty := v.Type()
	switch {
	case ty.IsListType() || ty.IsSetType():
		if v.LengthInt() == 0 {
			return v
		}
		var es []cty.Value
		i := 0
		for it := v.ElementIterator(); it.Next(); {
			_, ev := it.Element()
			es = append(es, rewrite(ev, path+"["+itoa(i)+"]", true, f))
			i++
		}
		if ty.IsSetType() {
			return cty.SetVal(es)
		}
		return cty.ListVal(es)
	case ty.IsMapType():
		if v.LengthInt() == 0 {
			return v
		}
		mm := map[string]cty.Value{}
		var ks []string
		for it := v.ElementIterator(); it.Next(); {
			k, ev := it.Element()
			mm[k.AsString()] = ev
			ks = append(ks, k.AsString())
		}
		sort.Strings(ks)
		for _, k := range ks {
			mm[k] = rewrite(mm[k], path+"[\""+k+"\"]", true, f)
		}
		return cty.MapVal(mm)
	case ty.IsTupleType():
		if v.LengthInt() == 0 {
			return v
		}
		var es []cty.Value
		i := 0
		for it := v.ElementIterator(); it.Next(); {
			_, ev := it.Element()
			es = append(es, rewrite(ev, path+"["+itoa(i)+"]", false, f))
			i++
		}
		return cty.TupleVal(es)
	case ty.IsObjectType():
		ats := ty.AttributeTypes()
		if len(ats) == 0 {
			return v
		}
		mm := map[string]cty.Value{}
		for _, k := range sortedTypeKeys(ats) {
			mm[k] = rewrite(v.GetAttr(k), path+"."+k, false, f)
		}
		return cty.ObjectVal(mm)
	}
	return v
}

func itoa(i int) string {
	if i == 0 {
		return "0"
	}
	var b [20]byte
	p := len(b)
	for i > 0 {
		p--
		b[p] = byte('0' + i%10)
		i /= 10
	}
	return string(b[p:])
}

// CountParts returns the number of parts RewriteParts would visit.
func CountParts(v cty.Value) int {
	n := 0
	RewriteParts(v, func(cty.Value, string, bool) (cty.Value, bool) { n++; return cty.NilVal, false })
	return n
}
