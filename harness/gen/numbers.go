// Package gen holds the seeded generators shared by the property drivers.
package gen

import (
	"fmt"
	"math"
	"math/big"

	"github.com/zclconf/go-cty/cty"

	"verif/harness/core"
)

// NumCase is a number together with the class it was drawn from.
type NumCase struct {
	V     cty.Value
	Class string
	// Exact is true when arithmetic on such numbers (add, subtract, multiply,
	// compare) is exact at the operands' precision: integers of moderate size and
	// dyadic fractions. Used by the drivers that are about abstraction, not rounding.
	Exact bool
}

func bigFromString(s string, prec uint) *big.Float {
	f, _, err := big.ParseFloat(s, 10, prec, big.ToNearestEven)
	if err != nil {
		panic(err)
	}
	return f
}

func pow2(n int) *big.Float {
	f := new(big.Float).SetPrec(512).SetInt64(1)
	return f.SetMantExp(f, n)
}

var numberPool []NumCase

// NumberPool returns the fixed, seed-independent pool of boundary numbers.
func NumberPool() []NumCase {
	if numberPool != nil {
		return numberPool
	}
	var p []NumCase
	add := func(v cty.Value, class string, exact bool) { p = append(p, NumCase{v, class, exact}) }
	for _, i := range []int64{0, 1, -1, 2, -2, 3, 5, 7, 10, -10, 12, 100, 255, 256, 1000, -1000, 65535, 65536} {
		add(cty.NumberIntVal(i), "small-int", true)
	}
	for _, k := range []int{7, 8, 15, 16, 31, 32, 53, 63} {
		base := int64(1) << uint(k)
		if k == 63 {
			add(cty.NumberIntVal(math.MaxInt64), "int-boundary", false)
			add(cty.NumberIntVal(math.MinInt64), "int-boundary", false)
			add(cty.NumberIntVal(math.MaxInt64-1), "int-boundary", false)
			add(cty.NumberIntVal(math.MinInt64+1), "int-boundary", false)
			continue
		}
		for _, d := range []int64{-1, 0, 1} {
			add(cty.NumberIntVal(base+d), "int-boundary", true)
			add(cty.NumberIntVal(-(base + d)), "int-boundary", true)
		}
	}
	add(cty.NumberUIntVal(math.MaxUint64), "int-boundary", false)
	add(cty.NumberUIntVal(1<<63), "int-boundary", false)
	add(cty.NumberVal(new(big.Float).SetPrec(512).Add(pow2(64), big.NewFloat(0))), "int-boundary", true) // 2^64
	add(cty.NumberVal(new(big.Float).SetPrec(512).Add(pow2(64), big.NewFloat(1))), "int-boundary", true) // 2^64+1
	add(cty.NumberVal(new(big.Float).SetPrec(512).Neg(new(big.Float).SetPrec(512).Add(pow2(63), big.NewFloat(1)))), "int-boundary", true)
	// huge ints
	add(cty.NumberVal(pow2(100)), "huge-int", true)
	add(cty.MustParseNumberVal("1000000000000000000000000000000"), "huge-int", true)
	add(cty.MustParseNumberVal("-1000000000000000000000000000001"), "huge-int", true)
	add(cty.NumberVal(pow2(600)), "huge-int", false)
	// float64 derived
	for _, f := range []float64{0.5, -0.5, 0.25, 1.5, -2.75, 1024.125} {
		add(cty.NumberFloatVal(f), "dyadic-fraction", true)
	}
	for _, f := range []float64{0.1, -0.1, 0.3, 1e-7, 3.14159, 1e23, 1e300, -1e300, math.SmallestNonzeroFloat64, math.MaxFloat64, -math.MaxFloat64, math.MaxFloat32, 123456789.123456789, 0.12345678905} {
		add(cty.NumberFloatVal(f), "float64", false)
	}
	// parsed decimals (512 bit)
	for _, s := range []string{"0.1", "-0.1", "0.3", "3.14159", "0.12345678905", "1.00000000001", "1.00000000002", "0.123456789049999", "0.1234567890500001",
		"123456789.123456789", "1e-40", "1.5", "0.5", "2.5", "-2.5", "99999999999.5", "1e300", "1.0000000000000000000000000000000000001",
		"179769313486231570814527423731704356798070567525844996598917476803157260780028538760589558632766878171540458953514382464234321326889464182768467546703537516986049910576551282076245490090389328944075868508455133942304583236903222948165808559332123348274797826204144723168738177180919299881250404026184124858368.5"} {
		add(cty.MustParseNumberVal(s), "parsed-decimal", false)
	}
	// zeros and infinities
	add(cty.Zero, "zero", true)
	add(cty.NumberFloatVal(math.Copysign(0, -1)), "neg-zero", false)
	add(cty.NumberVal(new(big.Float).Neg(new(big.Float).SetPrec(512))), "neg-zero", false)
	add(cty.PositiveInfinity, "inf", true)
	add(cty.NegativeInfinity, "inf", true)
	add(cty.NumberFloatVal(math.Inf(1)), "inf-fresh", true)
	add(cty.NumberFloatVal(math.Inf(-1)), "inf-fresh", true)
	// same value at different precisions
	add(cty.NumberFloatVal(3), "same-value-other-prec", true)
	add(cty.MustParseNumberVal("3"), "same-value-other-prec", true)
	add(cty.NumberIntVal(1).Add(cty.NumberIntVal(2)), "same-value-other-prec", true)
	add(cty.NumberFloatVal(0.5).Multiply(cty.NumberIntVal(6)), "same-value-other-prec", true)
	add(cty.NumberFloatVal(0.1).Add(cty.NumberFloatVal(0.2)), "float64-sum", false)
	// whole numbers held at a precision narrower than their magnitude (mantissa shorter than the binary exponent):
	// their shortest identifying decimal text is padded with zeros and denotes ANOTHER integer, so every path that
	// prints and re-reads a number (to-string conversion, JSON, msgpack's string fallback, hashing) must write all
	// digits. float64-derived values between 2^53 and 2^64, products at 64 bits, odd precisions.
	for _, f := range []float64{float64(1 << 63), float64(math.MaxInt64), float64(1<<62 + 1<<10), -float64(1<<62 + 1<<10), float64(1<<53 + 2), float64(math.MaxUint64),
		123456789012345678, 1e17 + 16, 9007199254740993 * 3} {
		add(cty.NumberFloatVal(f), "whole-narrow-mantissa", false)
	}
	add(cty.NumberIntVal(math.MaxInt64).Multiply(cty.NumberIntVal(3)), "whole-narrow-mantissa", false)
	add(cty.NumberFloatVal(1e23).Multiply(cty.NumberIntVal(3)), "whole-narrow-mantissa", false)
	add(cty.NumberVal(new(big.Float).SetPrec(100).Add(pow2(120), pow2(30))), "whole-narrow-mantissa", false)
	add(cty.NumberVal(new(big.Float).SetPrec(24).SetFloat64(16777216*1048577)), "whole-narrow-mantissa", false)
	// a float32-derived float64 (plain 53-bit number whose decimal text is long)
	add(cty.NumberFloatVal(float64(float32(0.1))), "float32-derived", false)
	// the exact value of a float64 fraction held at 512 bits, as arithmetic with a parsed operand produces it
	// (NumberFloatVal(0.1).Add(MustParseNumberVal("0"))): same VALUE as NumberFloatVal(f), other decimal text.
	// (Fractions at other odd precisions - 24, 100, 200 bits - are outside the number classes the properties
	// quantify over except C03's "numerically equal at different precisions"; they live in C03's own pool and in
	// the twin enumerations of C01 / C05, not here.)
	for _, f := range []float64{0.1, 0.3, 1e-7, 123.456} {
		add(cty.NumberFloatVal(f).Add(cty.MustParseNumberVal("0")), "float64-value-at-512-bits", false)
	}
	// short mantissas (<= 53 bits) whose binary exponent lies outside the float64 range: any short cut through
	// float64 (comparison, encoding selection, hashing) sees an infinity, a zero or a subnormal neighbour instead
	add(cty.NumberVal(pow2(1024)), "beyond-float64-exponent", false)
	add(cty.NumberVal(pow2(1100)), "beyond-float64-exponent", false)
	add(cty.NumberFloatVal(math.MaxFloat64).Multiply(cty.NumberIntVal(2)), "beyond-float64-exponent", false)
	add(cty.NumberFloatVal(math.MaxFloat64).Multiply(cty.NumberIntVal(4)), "beyond-float64-exponent", false)
	add(cty.NumberVal(new(big.Float).Neg(pow2(1030))), "beyond-float64-exponent", false)
	add(cty.NumberVal(pow2(-1075)), "beyond-float64-exponent", false)
	add(cty.NumberVal(pow2(-1076)), "beyond-float64-exponent", false)
	add(cty.NumberVal(pow2(-1100)), "beyond-float64-exponent", false)
	add(cty.NumberVal(new(big.Float).SetPrec(512).Mul(pow2(-1080), big.NewFloat(3))), "beyond-float64-exponent", false)
	add(cty.NumberVal(new(big.Float).SetPrec(512).Mul(pow2(-1076), big.NewFloat(-3))), "beyond-float64-exponent", false)
	// the same at 53 bits of PRECISION (not only a short mantissa): what arithmetic on float64-made numbers yields
	mf, tiny := cty.NumberFloatVal(math.MaxFloat64), cty.NumberFloatVal(math.SmallestNonzeroFloat64)
	add(mf.Add(mf), "beyond-float64-exponent", false)
	add(mf.Multiply(cty.NumberFloatVal(4)), "beyond-float64-exponent", false)
	add(mf.Multiply(cty.NumberFloatVal(-3)), "beyond-float64-exponent", false)
	add(tiny.Divide(cty.NumberFloatVal(2)), "beyond-float64-exponent", false)
	add(tiny.Divide(cty.NumberFloatVal(-8)), "beyond-float64-exponent", false)
	add(cty.NumberVal(new(big.Float).SetPrec(53).SetMantExp(big.NewFloat(1.5), 2000)), "beyond-float64-exponent", false)
	add(cty.NumberVal(new(big.Float).SetPrec(53).SetMantExp(big.NewFloat(1.5), -2000)), "beyond-float64-exponent", false)
	numberPool = p
	return p
}

// Number draws a number: mostly from the pool, sometimes fresh.
func Number(r *core.Rand) NumCase {
	p := NumberPool()
	switch r.Intn(10) {
	case 0, 1:
		return NumCase{cty.NumberIntVal(int64(r.Intn(21) - 10)), "small-int", true}
	case 2:
		return NumCase{cty.NumberIntVal(r.Int63() - r.Int63()), "random-int64", true}
	case 3:
		f := float64(r.Intn(2001)-1000) / float64(int(1)<<uint(r.Intn(8)))
		return NumCase{cty.NumberFloatVal(f), "dyadic-fraction", true}
	case 4:
		s := fmt.Sprintf("%d.%d", r.Intn(1000)-500, r.Intn(100000))
		return NumCase{cty.MustParseNumberVal(s), "parsed-decimal", false}
	case 5:
		if r.Chance(1, 3) {
			// a random whole float64 of magnitude 2^53 .. 2^75
			f := math.Ldexp(float64(1<<52+r.Int63()%(1<<52)), 1+r.Intn(22))
			if r.Bool() {
				f = -f
			}
			return NumCase{cty.NumberFloatVal(f), "whole-narrow-mantissa", false}
		}
	}
	return p[r.Intn(len(p))]
}

// ExactNumber draws a number on which +,-,*,compare are exact.
func ExactNumber(r *core.Rand) NumCase {
	for {
		c := Number(r)
		if c.Exact {
			return c
		}
	}
}

// SmallNumber draws from a small, collision-rich set (for collection members and keys).
func SmallNumber(r *core.Rand) cty.Value {
	switch r.Intn(8) {
	case 0:
		return cty.NumberFloatVal(0.5)
	case 1:
		return cty.NumberIntVal(-1)
	case 2:
		return cty.MustParseNumberVal("2")
	}
	return cty.NumberIntVal(int64(r.Intn(5)))
}
