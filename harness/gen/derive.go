package gen

import (
	"math/big"

	"github.com/zclconf/go-cty/cty"
)

// DeriveAndDiscard derives a further-refined value from every unknown placeholder found in v (the value itself
// and nested members) and throws the derived values away: p.RefineNotNull(), and p.Refine()...NewValue() with a
// narrowing that is consistent with p's present range (a number pinned to one of its bounds, a longer string
// prefix, a collection pinned to its minimum length). On a library whose values are immutable this is a no-op for
// v; it is the "somebody else already refined this placeholder further" step of a history. It returns how many
// derivations were made. Contradictions (the builder panics) are swallowed: only the attempt matters.
func DeriveAndDiscard(v cty.Value) (n int) {
	try := func(f func()) {
		defer func() { _ = recover() }()
		f()
		n++
	}
	var visit func(x cty.Value)
	visit = func(x cty.Value) {
		x, _ = x.Unmark()
		if !x.IsKnown() {
			ty := x.Type()
			if ty == cty.DynamicPseudoType {
				return
			}
			try(func() { _ = x.RefineNotNull() })
			switch {
			case ty == cty.Number:
				rng := x.Range()
				lo, loInc := rng.NumberLowerBound()
				hi, hiInc := rng.NumberUpperBound()
				finite := func(b cty.Value) bool { return b.IsKnown() && !b.IsNull() && !b.AsBigFloat().IsInf() }
				switch {
				case finite(lo) && loInc:
					try(func() { _ = x.Refine().NotNull().NumberRangeUpperBound(lo, true).NewValue() })
				case finite(hi) && hiInc:
					try(func() { _ = x.Refine().NotNull().NumberRangeLowerBound(hi, true).NewValue() })
				case finite(lo) && finite(hi):
					mid := new(big.Float).SetPrec(512).Add(lo.AsBigFloat(), hi.AsBigFloat())
					mid.Quo(mid, big.NewFloat(2))
					try(func() { _ = x.Refine().NumberRangeInclusive(cty.NumberVal(mid), cty.NumberVal(mid)).NewValue() })
				case finite(lo):
					p := cty.NumberVal(new(big.Float).SetPrec(512).Add(lo.AsBigFloat(), big.NewFloat(1)))
					try(func() { _ = x.Refine().NumberRangeInclusive(p, p).NewValue() })
				case finite(hi):
					p := cty.NumberVal(new(big.Float).SetPrec(512).Sub(hi.AsBigFloat(), big.NewFloat(1)))
					try(func() { _ = x.Refine().NumberRangeInclusive(p, p).NewValue() })
				default:
					try(func() { _ = x.Refine().NumberRangeInclusive(cty.NumberIntVal(7), cty.NumberIntVal(7)).NewValue() })
				}
			case ty == cty.String:
				try(func() { _ = x.Refine().NotNull().StringPrefixFull(x.Range().StringPrefix() + "zz-").NewValue() })
			case ty.IsCollectionType():
				rng := x.Range()
				try(func() { _ = x.Refine().NotNull().CollectionLengthUpperBound(rng.LengthLowerBound()).NewValue() })
				try(func() { _ = x.Refine().CollectionLengthLowerBound(rng.LengthLowerBound() + 1).NewValue() })
			case ty == cty.Bool:
				try(func() { _ = x.Refine().NotNull().NewValue() })
			}
			return
		}
		if x.IsNull() {
			return
		}
		if ty := x.Type(); ty.IsCollectionType() || ty.IsTupleType() || ty.IsObjectType() {
			for it := x.ElementIterator(); it.Next(); {
				_, ev := it.Element()
				visit(ev)
			}
		}
	}
	visit(v)
	return n
}
