package gen

import (
	"verif/harness/core"
)

// Alphabet41 is the fixed 41-code-point alphabet used for the exhaustive
// prefix/continuation enumeration (C05) and as the core of every string
// generator: ASCII letters/digits, delimiters that SafeKnownPrefix
// special-cases, "= < >" (which compose with U+0338), combining marks,
// precomposed letters, Hangul jamo and syllables, emoji with modifiers, ZWJ,
// VS16, keycap, regional indicators, CR and LF.
var Alphabet41 = []rune{
	'a', 'e', 'o', 'A', '1', '9', // letters / digits
	' ', '.', ',', '-', '_', '/', ':', '"', '{', '[', // delimiters
	'=', '<', '>', // compose with U+0338
	0x0301, 0x0323, 0x0338, 0x0327, // combining acute, dot below, long solidus overlay, cedilla
	0x00E9, 0x1E69, // é (precomposed), ṩ (s + dot below + dot above)
	0x1100, 0x1161, 0x11A8, 0xAC00, 0xAC01, // Hangul L, V, T jamo; LV and LVT syllables
	0x1F44D, 0x1F3FD, 0x1F468, 0x1F469, // thumbs up, skin tone modifier, man, woman
	0x200D, 0xFE0F, 0x20E3, // ZWJ, VS16, combining enclosing keycap
	0x1F1E9, 0x1F1EA, // regional indicators D, E
	'\r', '\n',
}

// extra code points used only by the sampled generators.
var extraRunes = []rune{'b', 'x', 'z', 'Z', '0', '5', '\t', '%', '\\', '\'', '}', ']', '(', ')', '*', '+', '?', '|', '^', '$', '#',
	0x00DF, 0x0130, 0x01C5, 0x03A3, 0x03C2, 0x0308, 0x030A, 0x212B, 0x2126, 0xFB01, 0x0958, 0x0F73, 0x1F600, 0x2764, 0x4E2D, 0x6587}

// String draws a valid UTF-8 string of at most maxRunes code points.
// boundaryLens: string lengths around the size classes of the codecs and of small-buffer fast paths
// (msgpack fixstr ends at 31 bytes, str8 at 255; 16 and 64 are common stack-buffer sizes).
var boundaryLens = []int{15, 16, 17, 31, 32, 33, 63, 64, 65, 255, 256, 257}

func String(r *core.Rand, maxRunes int) string {
	n := r.Intn(maxRunes + 1)
	if maxRunes >= 4 && r.Chance(1, 60) {
		n = boundaryLens[r.Intn(len(boundaryLens))]
	}
	if maxRunes >= 4 && r.Chance(1, 50) {
		// an ASCII head of 5..40 bytes with a decomposed (non-NFC) sequence somewhere in the last few bytes: a
		// word-at-a-time "is it plain ASCII?" pre-check that mishandles the tail, or that samples the head only,
		// lets exactly such a string through un-normalised
		head := make([]byte, 5+r.Intn(36))
		for i := range head {
			head[i] = byte('a' + r.Intn(26))
		}
		tails := []string{"o\u0308", "e\u0301", "A\u030a", "\u1100\u1161", "\u212b", "s\u0323\u0307", "=\u0338"}
		t := tails[r.Intn(len(tails))]
		if r.Bool() {
			t += string(rune('a' + r.Intn(26)))
		}
		return string(head) + t
	}
	rs := make([]rune, n)
	asciiOnly := r.Chance(1, 3)
	for i := range rs {
		switch {
		case asciiOnly:
			rs[i] = Alphabet41[r.Intn(19)]
		case r.Chance(1, 6):
			rs[i] = extraRunes[r.Intn(len(extraRunes))]
		default:
			rs[i] = Alphabet41[r.Intn(len(Alphabet41))]
		}
	}
	return string(rs)
}

var keyPool = []string{"a", "b", "c", "k", "", "é", "é", "long-key", "A", "0", "1"}

// Key draws a map key / attribute name from a small pool that includes an
// NFC/NFD twin and the empty string.
func Key(r *core.Rand) string { return keyPool[r.Intn(len(keyPool))] }

// SimpleKey draws from keys without normalization twins.
func SimpleKey(r *core.Rand) string { return []string{"a", "b", "c", "k", "x", "long-key"}[r.Intn(6)] }

var smallStrings = []string{"", "a", "b", "ab", "abc", "é", "é", "x,y", "1", "true", "hello world", "👍🏽", "각", "A"}

// SmallString draws from a collision-rich pool.
func SmallString(r *core.Rand) string { return smallStrings[r.Intn(len(smallStrings))] }
