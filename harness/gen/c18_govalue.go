package gen

import (
	"math"
	"math/big"
	"reflect"

	"github.com/zclconf/go-cty/cty"
	"golang.org/x/text/unicode/norm"

	"verif/harness/core"
)

// Reflection-driven generator of Go values (C18). It fills a fresh value of
// any Go type built from: bool, the ten integer kinds, the two float kinds,
// string, pointers, slices, arrays, string-keyed maps, structs with exported
// fields, and the three special struct types cty.Value, big.Int, big.Float.
//
// Documented restrictions of the bridge are respected by construction:
// strings and map keys are NFC-normalized valid UTF-8, floats are never NaN,
// cty.Value leaves are valid unmarked values (never the zero cty.Value).

var (
	GoCtyValueType = reflect.TypeOf(cty.Value{})
	GoBigIntType   = reflect.TypeOf(big.Int{})
	GoBigFloatType = reflect.TypeOf(big.Float{})
)

// GoValueOpts tunes GoValue.
type GoValueOpts struct {
	NilPct int                          // chance (percent) that a pointer / slice / map is nil
	MaxLen int                          // maximum slice / map length (default 3)
	Dyn    func(r *core.Rand) cty.Value // generator for cty.Value leaves (default DynLeaf)
}

// GoValue returns a fresh, addressable value of type t.
func GoValue(r *core.Rand, t reflect.Type, o GoValueOpts) reflect.Value {
	if o.MaxLen == 0 {
		o.MaxLen = 3
	}
	if o.Dyn == nil {
		o.Dyn = DynLeaf
	}
	v := reflect.New(t).Elem()
	fillGo(r, v, o)
	return v
}

// DynLeaf draws a valid, unmarked cty.Value for a cty.Value-typed Go leaf:
// known, null or unknown (refined or not) at any depth, or DynamicVal.
func DynLeaf(r *core.Rand) cty.Value {
	switch r.Intn(12) {
	case 0:
		return cty.DynamicVal
	case 1:
		return cty.NullVal(cty.DynamicPseudoType)
	}
	ty := Type(r, 2, TypeOpts{}).Cty()
	return Value(r, ty, ValueOpts{UnknownPct: 10, NullPct: 10, Refined: true, LongStr: true, MaxLen: 2})
}

func fillGo(r *core.Rand, v reflect.Value, o GoValueOpts) {
	t := v.Type()
	switch t {
	case GoCtyValueType:
		v.Set(reflect.ValueOf(o.Dyn(r)))
		return
	case GoBigIntType:
		v.Set(reflect.ValueOf(*GoBigInt(r)))
		return
	case GoBigFloatType:
		v.Set(reflect.ValueOf(*GoBigFloat(r)))
		return
	}
	switch t.Kind() {
	case reflect.Bool:
		v.SetBool(r.Bool())
	case reflect.Int, reflect.Int8, reflect.Int16, reflect.Int32, reflect.Int64:
		v.SetInt(GoInt(r, t.Bits()))
	case reflect.Uint, reflect.Uint8, reflect.Uint16, reflect.Uint32, reflect.Uint64:
		v.SetUint(GoUint(r, t.Bits()))
	case reflect.Float32:
		v.SetFloat(float64(GoFloat32(r)))
	case reflect.Float64:
		v.SetFloat(GoFloat64(r))
	case reflect.String:
		v.SetString(GoString(r))
	case reflect.Ptr:
		if r.Chance(o.NilPct, 100) {
			return
		}
		p := reflect.New(t.Elem())
		fillGo(r, p.Elem(), o)
		v.Set(p)
	case reflect.Slice:
		if r.Chance(o.NilPct, 100) {
			return
		}
		n := r.Intn(o.MaxLen + 1)
		s := reflect.MakeSlice(t, n, n)
		for i := 0; i < n; i++ {
			fillGo(r, s.Index(i), o)
		}
		v.Set(s)
	case reflect.Array:
		for i := 0; i < v.Len(); i++ {
			fillGo(r, v.Index(i), o)
		}
	case reflect.Map:
		if r.Chance(o.NilPct, 100) {
			return
		}
		n := r.Intn(o.MaxLen + 1)
		m := reflect.MakeMap(t)
		for i := 0; i < n; i++ {
			k := reflect.New(t.Key()).Elem()
			k.SetString(GoKey(r))
			e := reflect.New(t.Elem()).Elem()
			fillGo(r, e, o)
			m.SetMapIndex(k, e)
		}
		v.Set(m)
	case reflect.Struct:
		for i := 0; i < t.NumField(); i++ {
			if t.Field(i).PkgPath != "" {
				continue // unexported
			}
			fillGo(r, v.Field(i), o)
		}
	default:
		panic("gen.GoValue: unsupported kind " + t.Kind().String())
	}
}

// GoInt draws a signed integer that fits in the given number of bits:
// limits, neighbours of the limits, zero, and random values of random width.
func GoInt(r *core.Rand, bits int) int64 {
	min := int64(-1) << uint(bits-1)
	max := -(min + 1)
	switch r.Intn(10) {
	case 0:
		return 0
	case 1:
		return min
	case 2:
		return max
	case 3:
		return min + 1
	case 4:
		return max - 1
	case 5:
		return int64(r.Intn(5) - 2)
	}
	w := 1 + r.Intn(bits)
	return int64(r.Uint64()) >> uint(64-w) // arithmetic shift: a w-bit two's complement value
}

// GoUint is GoInt for the unsigned kinds.
func GoUint(r *core.Rand, bits int) uint64 {
	max := ^uint64(0) >> uint(64-bits)
	switch r.Intn(8) {
	case 0:
		return 0
	case 1:
		return max
	case 2:
		return max - 1
	case 3:
		return uint64(r.Intn(3))
	case 4:
		return max>>1 + uint64(r.Intn(2)) // around the signed limit of the same width
	}
	w := 1 + r.Intn(bits)
	return r.Uint64() >> uint(64-w)
}

var goFloat64Pool = []float64{0, math.Copysign(0, -1), 1, -1, 0.5, 0.1, -0.1, 1.5, 3.14159, math.Inf(1), math.Inf(-1),
	math.MaxFloat64, -math.MaxFloat64, math.SmallestNonzeroFloat64, -math.SmallestNonzeroFloat64, math.MaxFloat32, math.SmallestNonzeroFloat32,
	1e300, -1e300, 1e23, 1e-7, 16777216, 16777217, 9007199254740992, 9007199254740994, 1 << 63, -(1 << 63), 1 << 64, 255, 256, -128, -129,
	0x1.fffffffffffffp-1, 0x1.0000000000001p0, 2.2250738585072014e-308, 2.225073858507201e-308}

// GoFloat64 draws a float64 that is never NaN.
func GoFloat64(r *core.Rand) float64 {
	switch r.Intn(4) {
	case 0:
		return goFloat64Pool[r.Intn(len(goFloat64Pool))]
	case 1:
		return float64(r.Intn(2001)-1000) / float64(int(1)<<uint(r.Intn(8)))
	}
	for {
		f := math.Float64frombits(r.Uint64())
		if !math.IsNaN(f) {
			return f
		}
	}
}

var goFloat32Pool = []float32{0, float32(math.Copysign(0, -1)), 1, -1, 0.5, 0.1, -0.1, 1.5, float32(math.Inf(1)), float32(math.Inf(-1)),
	math.MaxFloat32, -math.MaxFloat32, math.SmallestNonzeroFloat32, -math.SmallestNonzeroFloat32, 16777216, 16777215, 1e-40, 1e38, 3e38,
	0x1.fffffep-1, 0x1.000002p0, 1.1754944e-38, 1.1754942e-38}

// GoFloat32 draws a float32 that is never NaN.
func GoFloat32(r *core.Rand) float32 {
	switch r.Intn(4) {
	case 0:
		return goFloat32Pool[r.Intn(len(goFloat32Pool))]
	case 1:
		return float32(r.Intn(2001)-1000) / float32(int(1)<<uint(r.Intn(8)))
	}
	for {
		f := math.Float32frombits(uint32(r.Uint64()))
		if f == f {
			return f
		}
	}
}

// GoString draws an NFC-normalized valid UTF-8 string.
func GoString(r *core.Rand) string {
	if r.Chance(1, 3) {
		return norm.NFC.String(SmallString(r))
	}
	return norm.NFC.String(String(r, 8))
}

// GoKey draws an NFC-normalized map key from a collision-rich pool.
func GoKey(r *core.Rand) string {
	if r.Chance(1, 4) {
		return norm.NFC.String(String(r, 3))
	}
	return norm.NFC.String(Key(r))
}

// GoBigInt draws an arbitrary-size integer: zero, small, around the limits of
// the machine widths, and random values of up to 200 bits.
func GoBigInt(r *core.Rand) *big.Int {
	z := new(big.Int)
	switch r.Intn(6) {
	case 0:
		return z
	case 1:
		return z.SetInt64(int64(r.Intn(21) - 10))
	case 2:
		// ±2^k + d around a machine-width limit
		k := []uint{7, 8, 15, 16, 31, 32, 63, 64, 127, 128}[r.Intn(10)]
		z.Lsh(big.NewInt(1), k)
		z.Add(z, big.NewInt(int64(r.Intn(3)-1)))
		if r.Bool() {
			z.Neg(z)
		}
		return z
	}
	n := 1 + r.Intn(200)
	if r.Chance(1, 5) {
		// wider than the 512 bits cty parses decimals at: a big.Int must still come back bit for bit
		n = 500 + r.Intn(1600)
		if r.Chance(1, 3) {
			// 2^k + 1: only the two end bits set, so any rounding to a fixed mantissa width loses the low one
			z.Lsh(big.NewInt(1), uint(n))
			z.Add(z, big.NewInt(1))
			if r.Bool() {
				z.Neg(z)
			}
			return z
		}
	}
	for z.BitLen() < n {
		z.Lsh(z, 64)
		z.Or(z, new(big.Int).SetUint64(r.Uint64()))
	}
	z.Rsh(z, uint(z.BitLen()-n))
	if r.Bool() {
		z.Neg(z)
	}
	return z
}

// GoBigFloat draws a big.Float of varying precision, including the infinities
// and negative zero.
func GoBigFloat(r *core.Rand) *big.Float {
	prec := []uint{24, 53, 64, 100, 512}[r.Intn(5)]
	z := new(big.Float).SetPrec(prec)
	switch r.Intn(8) {
	case 0:
		return z.SetInf(r.Bool())
	case 1:
		return z.Neg(z) // -0
	case 2:
		return z // +0
	case 3, 4:
		return z.SetInt(GoBigInt(r))
	case 5:
		z.SetInt(GoBigInt(r))
		return z.SetMantExp(z, r.Intn(401)-300)
	}
	f := GoFloat64(r)
	if math.IsInf(f, 0) {
		return z.SetInf(f < 0)
	}
	return z.SetFloat64(f)
}
