package gen

import (
	"github.com/zclconf/go-cty/cty"

	"verif/harness/core"
)

type markT string

// The three marks used by every driver.
var Marks = []interface{}{markT("m1"), markT("m2"), markT("m3")}

func someMarks(r *core.Rand) cty.ValueMarks {
	ms := cty.NewValueMarks(Marks[r.Intn(3)])
	if r.Chance(1, 4) {
		ms[Marks[r.Intn(3)]] = struct{}{}
	}
	return ms
}

// MarkSome places marks on v: with chance topPct on the value itself and with
// chance deepPct on each nested member (never inside a set, where marked
// members cannot exist).
func MarkSome(r *core.Rand, v cty.Value, topPct, deepPct int) cty.Value {
	return markSome(r, v, topPct, deepPct)
}

func markSome(r *core.Rand, v cty.Value, pct, deepPct int) cty.Value {
	if v.IsMarked() {
		return v
	}
	out := v
	if v.IsKnown() && !v.IsNull() && deepPct > 0 {
		ty := v.Type()
		switch {
		case ty.IsListType() && v.LengthInt() > 0:
			es := v.AsValueSlice()
			for i := range es {
				es[i] = markSome(r, es[i], deepPct, deepPct)
			}
			out = cty.ListVal(es)
		case ty.IsTupleType() && v.LengthInt() > 0:
			es := v.AsValueSlice()
			for i := range es {
				es[i] = markSome(r, es[i], deepPct, deepPct)
			}
			out = cty.TupleVal(es)
		case ty.IsMapType() && v.LengthInt() > 0:
			mm := v.AsValueMap()
			for _, k := range sortedKeys(mm) {
				mm[k] = markSome(r, mm[k], deepPct, deepPct)
			}
			out = cty.MapVal(mm)
		case ty.IsObjectType() && v.LengthInt() > 0:
			mm := v.AsValueMap()
			for _, k := range sortedKeys(mm) {
				mm[k] = markSome(r, mm[k], deepPct, deepPct)
			}
			out = cty.ObjectVal(mm)
		}
	}
	if r.Chance(pct, 100) {
		out = out.WithMarks(someMarks(r))
	}
	return out
}
