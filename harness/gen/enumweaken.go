package gen

import (
	"fmt"
	"math/big"
	"unicode/utf8"

	"github.com/zclconf/go-cty/cty"
)

// AllAdmittingUnknowns enumerates the refinement menu for one replaced part:
// every kind of unknown value that admits it.
func AllAdmittingUnknowns(part cty.Value, allowDynamic bool) []cty.Value {
	part, _ = part.Unmark()
	ty := part.Type()
	var out []cty.Value
	if allowDynamic {
		out = append(out, cty.DynamicVal)
	}
	if ty == cty.DynamicPseudoType {
		return []cty.Value{cty.DynamicVal}
	}
	u := cty.UnknownVal(ty)
	out = append(out, u)
	if part.IsKnown() && part.IsNull() {
		// A null is admitted by any unknown that is not refined as non-null:
		// bounds, prefixes and length bounds speak only about the non-null case.
		switch {
		case ty == cty.Number:
			out = append(out,
				u.Refine().NumberRangeLowerBound(cty.NumberIntVal(0), true).NumberRangeUpperBound(cty.NumberIntVal(5), true).NewValue(),
				u.Refine().NumberRangeLowerBound(cty.NumberIntVal(10), true).NumberRangeUpperBound(cty.NumberIntVal(20), true).NewValue(),
				u.Refine().NumberRangeUpperBound(cty.NumberIntVal(-1), false).NewValue(),
			)
		case ty == cty.String:
			out = append(out, u.Refine().StringPrefixFull("foo").NewValue(), u.Refine().StringPrefixFull("bar").NewValue())
		case ty.IsCollectionType():
			out = append(out,
				u.Refine().CollectionLengthLowerBound(1).CollectionLengthUpperBound(2).NewValue(),
				u.Refine().CollectionLengthLowerBound(4).NewValue(),
				u.Refine().CollectionLengthUpperBound(0).NewValue(),
			)
		}
		return out
	}
	if !part.IsKnown() {
		return out
	}
	out = append(out, u.RefineNotNull())
	switch {
	case ty == cty.Number:
		f := part.AsBigFloat()
		if f.IsInf() {
			fin := cty.NumberIntVal(1)
			for _, inc := range []bool{true, false} {
				if f.Sign() < 0 {
					out = append(out, u.Refine().NumberRangeUpperBound(fin, inc).NewValue())
					out = append(out, u.Refine().NotNull().NumberRangeUpperBound(fin, inc).NewValue())
				} else {
					out = append(out, u.Refine().NumberRangeLowerBound(fin, inc).NewValue())
					out = append(out, u.Refine().NotNull().NumberRangeLowerBound(fin, inc).NewValue())
				}
			}
			return out
		}
		same := cty.NumberVal(new(big.Float).Copy(f))
		if f.Sign() == 0 {
			same = cty.Zero
		}
		below := cty.NumberVal(new(big.Float).SetPrec(640).Sub(f, big.NewFloat(1)))
		above := cty.NumberVal(new(big.Float).SetPrec(640).Add(f, big.NewFloat(1)))
		out = append(out,
			u.Refine().NumberRangeLowerBound(same, true).NewValue(),
			u.Refine().NumberRangeUpperBound(same, true).NewValue(),
			u.Refine().NumberRangeLowerBound(below, false).NewValue(),
			u.Refine().NumberRangeLowerBound(below, true).NewValue(),
			u.Refine().NumberRangeUpperBound(above, false).NewValue(),
			u.Refine().NumberRangeUpperBound(above, true).NewValue(),
			u.Refine().NotNull().NumberRangeLowerBound(below, false).NumberRangeUpperBound(above, false).NewValue(),
			u.Refine().NotNull().NumberRangeLowerBound(same, true).NumberRangeUpperBound(above, false).NewValue(),
			u.Refine().NotNull().NumberRangeLowerBound(below, false).NumberRangeUpperBound(same, true).NewValue(),
			u.Refine().NumberRangeLowerBound(same, true).NumberRangeUpperBound(same, true).NewValue(), // nullable, so stays unknown
		)
	case ty == cty.String:
		s := part.AsString()
		for cut := 0; cut <= len(s); cut++ {
			if cut < len(s) && !utf8.RuneStart(s[cut]) {
				continue
			}
			if cut > 0 {
				out = append(out, u.Refine().StringPrefixFull(s[:cut]).NewValue())
				out = append(out, u.Refine().NotNull().StringPrefix(s[:cut]).NewValue())
			}
		}
	case ty.IsCollectionType():
		n := part.LengthInt()
		out = append(out,
			u.Refine().CollectionLengthLowerBound(n).NewValue(),
			u.Refine().CollectionLengthUpperBound(n).NewValue(),
			u.Refine().CollectionLengthLowerBound(n).CollectionLengthUpperBound(n).NewValue(),
			u.Refine().NotNull().CollectionLengthUpperBound(n+1).NewValue(),
			u.Refine().NotNull().CollectionLengthLowerBound(n).CollectionLengthUpperBound(n+2).NewValue(),
			u.Refine().NotNull().CollectionLength(n).NewValue(), // may collapse to a known collection of unknowns
		)
		if n > 0 {
			out = append(out, u.Refine().NotNull().CollectionLengthLowerBound(n-1).NewValue())
		}
	}
	return out
}

// SingleWeakening is v with exactly one position replaced.
type SingleWeakening struct {
	V    cty.Value
	Path string
	By   string
}

// SinglePositionWeakenings enumerates every position of v (the value itself and
// every nested member, at any depth) x every admitting unknown of the menu.
func SinglePositionWeakenings(v cty.Value, allowDynamic bool) []SingleWeakening {
	var out []SingleWeakening
	enumPositions(v, "", allowDynamic, func(path string, by cty.Value, rebuilt cty.Value) {
		out = append(out, SingleWeakening{rebuilt, path, by.GoString()})
	}, func(x cty.Value) cty.Value { return x })
	return out
}

// enumPositions walks v; wrap rebuilds the root value from a replacement of the current node.
func enumPositions(v cty.Value, path string, allowDynamic bool, emit func(string, cty.Value, cty.Value), wrap func(cty.Value) cty.Value) {
	if v.IsMarked() || !v.IsKnown() {
		return
	}
	for _, u := range AllAdmittingUnknowns(v, allowDynamic) {
		emit(path, u, wrap(u))
	}
	if v.IsNull() {
		return
	}
	ty := v.Type()
	switch {
	case ty.IsListType() || ty.IsSetType() || ty.IsTupleType():
		if v.LengthInt() == 0 {
			return
		}
		es := v.AsValueSlice()
		if ty.IsSetType() {
			// set inflation: one extra member admitting an existing member (see WeakenOpts.InflateSets): the member
			// replaced by an unknown as a whole, or a copy of it with one nested position replaced (a partly unknown
			// structural member may turn out to be equal to the member it was copied from, so the abstract set stores
			// more members than the concrete set has)
			for i := range es {
				if es[i].IsMarked() || !es[i].IsKnown() {
					continue
				}
				enumPositions(es[i], fmt.Sprintf("%s{+%d}", path, i), false, func(p string, by cty.Value, extra cty.Value) {
					if extra.IsWhollyKnown() {
						return
					}
					emit(p, by, wrap(cty.SetVal(append(append([]cty.Value(nil), es...), extra))))
				}, func(x cty.Value) cty.Value { return x })
			}
		}
		for i := range es {
			i := i
			childDyn := allowDynamic && ty.IsTupleType()
			enumPositions(es[i], fmt.Sprintf("%s[%d]", path, i), childDyn, emit, func(x cty.Value) cty.Value {
				cp := append([]cty.Value(nil), es...)
				cp[i] = x
				switch {
				case ty.IsListType():
					return wrap(cty.ListVal(cp))
				case ty.IsSetType():
					return wrap(cty.SetVal(cp))
				}
				return wrap(cty.TupleVal(cp))
			})
		}
	case ty.IsMapType() || ty.IsObjectType():
		if v.LengthInt() == 0 {
			return
		}
		mm := v.AsValueMap()
		for _, k := range sortedKeys(mm) {
			k := k
			childDyn := allowDynamic && ty.IsObjectType()
			enumPositions(mm[k], fmt.Sprintf("%s[%q]", path, k), childDyn, emit, func(x cty.Value) cty.Value {
				cp := make(map[string]cty.Value, len(mm))
				for kk, vv := range mm {
					cp[kk] = vv
				}
				cp[k] = x
				if ty.IsMapType() {
					return wrap(cty.MapVal(cp))
				}
				return wrap(cty.ObjectVal(cp))
			})
		}
	}
}
