package gen

import (
	"github.com/zclconf/go-cty/cty"
	"golang.org/x/text/unicode/norm"
	"math/big"
	"strconv"

	"verif/harness/core"
	m "verif/harness/model"
	"verif/harness/mon"
)

// ValueOpts tunes the value generator.
type ValueOpts struct {
	UnknownPct int  // chance (percent) that any position is an unknown value
	Refined    bool // unknowns may carry refinements
	NullPct    int  // chance (percent) that any position is null
	ExactNums  bool // only numbers on which arithmetic is exact
	SmallNums  bool // numbers from the small collision-rich pool
	MaxLen     int  // maximum collection length (default 3)
	LongStr    bool // strings from the full alphabet instead of the small pool
	TwinKeys   bool // map keys may include the NFC/NFD twin and ""
	NoTopNull  bool
	NoTopUnk   bool
	NoBig      bool // never escalate collection lengths beyond MaxLen (see collLen)
	depth      int
}

func (o ValueOpts) inner() ValueOpts { o.NoTopNull, o.NoTopUnk = false, false; o.depth++; return o }

// collLen draws a collection length: 0..MaxLen as a rule; now and then (top two levels only) a
// length beyond every small-size special case of the library and of the codecs: 7..20 members
// (msgpack fixarray/fixmap end at 15, sort.Sort switches algorithm at 12) and, for primitive
// members, 250..261 (the 8-bit limit). A size-threshold fault cannot show on 0..3 members.
func collLen(r *core.Rand, o ValueOpts, ety cty.Type) int {
	n := r.Intn(o.MaxLen + 1)
	if o.NoBig || o.depth > 1 {
		return n
	}
	switch {
	case r.Chance(1, 50):
		return 7 + r.Intn(14)
	case r.Chance(1, 150) && (ety.IsPrimitiveType() || o.depth == 0):
		return 31 + r.Intn(40) // 31..70: past 32 / 64-wide bookkeeping and small-size fast paths
	case r.Chance(1, 700) && ety.IsPrimitiveType():
		return 250 + r.Intn(12)
	}
	return n
}

// Known returns options for wholly known, non-null values.
func Known() ValueOpts { return ValueOpts{MaxLen: 3} }

// Value draws a value conforming to ty. Dynamic positions in ty are
// instantiated with an arbitrary concrete type, a null or DynamicVal.
func Value(r *core.Rand, ty cty.Type, o ValueOpts) cty.Value {
	if o.MaxLen == 0 {
		o.MaxLen = 3
	}
	if ty == cty.DynamicPseudoType {
		switch {
		case o.UnknownPct > 0 && !o.NoTopUnk && r.Chance(o.UnknownPct, 100):
			return cty.DynamicVal
		case o.NullPct > 0 && !o.NoTopNull && r.Chance(o.NullPct, 300):
			return cty.NullVal(cty.DynamicPseudoType)
		}
		ty = Type(r, 2, TypeOpts{}).Cty()
	}
	if !o.NoTopUnk && o.UnknownPct > 0 && r.Chance(o.UnknownPct, 100) {
		return Unknown(r, ty, o.Refined)
	}
	if !o.NoTopNull && o.NullPct > 0 && r.Chance(o.NullPct, 100) {
		return cty.NullVal(ty)
	}
	in := o.inner()
	switch {
	case ty == cty.Bool:
		return cty.BoolVal(r.Bool())
	case ty == cty.Number:
		switch {
		case o.SmallNums:
			return SmallNumber(r)
		case o.ExactNums:
			return ExactNumber(r).V
		}
		return Number(r).V
	case ty == cty.String:
		if o.LongStr && r.Chance(1, 2) {
			return cty.StringVal(String(r, 6))
		}
		return cty.StringVal(SmallString(r))
	case ty.IsListType():
		n := collLen(r, o, ty.ElementType())
		if n == 0 {
			return cty.ListValEmpty(ty.ElementType())
		}
		es := make([]cty.Value, n)
		for i := range es {
			es[i] = Value(r, ty.ElementType(), in)
		}
		if ty.ElementType().HasDynamicTypes() {
			es = homogenize(r, es, ty.ElementType(), in)
		}
		return cty.ListVal(es)
	case ty.IsSetType():
		n := collLen(r, o, ty.ElementType())
		var es []cty.Value
		for i := 0; i < n; i++ {
			e := Value(r, ty.ElementType(), in)
			dup := false
			for _, x := range es {
				if mon.ModelEqual(x, e) || sameExactly(x, e) {
					dup = true
					break
				}
			}
			if precisionUnstable(e) {
				dup = true
			}
			if !dup {
				es = append(es, e)
			}
		}
		if len(es) == 0 {
			return cty.SetValEmpty(ty.ElementType())
		}
		if ty.ElementType().HasDynamicTypes() {
			es = homogenize(r, es, ty.ElementType(), in)
			if d := dedupe(es); len(d) > 0 {
				es = d
			} else {
				es = es[:1] // every member was filtered: keep one rather than build an empty set of an undecided type
			}
		}
		return cty.SetVal(es)
	case ty.IsMapType():
		n := collLen(r, o, ty.ElementType())
		if n == 0 {
			return cty.MapValEmpty(ty.ElementType())
		}
		mm := map[string]cty.Value{}
		var order []string
		for i := 0; i < n; i++ {
			var k string
			if o.TwinKeys {
				k = norm.NFC.String(Key(r))
			} else {
				k = SimpleKey(r)
			}
			if i >= 5 {
				k = "k" + strconv.Itoa(i*7%1000) // the key pools are small: a long map needs keys of its own
			}
			if _, ok := mm[k]; !ok {
				order = append(order, k)
			}
			mm[k] = Value(r, ty.ElementType(), in)
		}
		if ty.ElementType().HasDynamicTypes() {
			es := make([]cty.Value, len(order))
			for i, k := range order {
				es[i] = mm[k]
			}
			es = homogenize(r, es, ty.ElementType(), in)
			for i, k := range order {
				mm[k] = es[i]
			}
		}
		return cty.MapVal(mm)
	case ty.IsTupleType():
		ets := ty.TupleElementTypes()
		es := make([]cty.Value, len(ets))
		for i, et := range ets {
			es[i] = Value(r, et, in)
		}
		return cty.TupleVal(es)
	case ty.IsObjectType():
		ats := ty.AttributeTypes()
		mm := make(map[string]cty.Value, len(ats))
		tn := m.TNodeOf(ty)
		for _, k := range tn.AttrNames() { // sorted: deterministic draw order
			mm[k] = Value(r, ats[k], in)
		}
		return cty.ObjectVal(mm)
	case ty.IsCapsuleType():
		if ty.Equals(m.CapsuleB) {
			return m.NewCapB(r.Intn(3))
		}
		return capAPool[r.Intn(len(capAPool))]
	}
	panic("gen.Value: unsupported type " + ty.GoString())
}

// sameExactly reports whether two wholly known values are the same when numbers are compared by exact value:
// two numbers of one exact value held at different precisions can be DIFFERENT under documented equality (their
// shortest decimal texts differ: float64(0.1) at 53 and at 512 bits), which is known finding F-47. A generated
// set never holds such a pair (C03 builds them on purpose), just as it never holds two model-equal members.
func sameExactly(a, b cty.Value) bool {
	if a.IsMarked() || b.IsMarked() || !a.IsWhollyKnown() || !b.IsWhollyKnown() || !a.Type().Equals(b.Type()) {
		return false
	}
	if a.IsNull() || b.IsNull() {
		return a.IsNull() && b.IsNull()
	}
	ty := a.Type()
	switch {
	case ty == cty.Number:
		return a.AsBigFloat().Cmp(b.AsBigFloat()) == 0
	case ty.IsPrimitiveType() || ty.IsCapsuleType():
		return mon.ModelEqual(a, b)
	case ty.IsSetType():
		return mon.ModelEqual(a, b)
	case ty.IsListType() || ty.IsTupleType():
		if a.LengthInt() != b.LengthInt() {
			return false
		}
		as, bs := a.AsValueSlice(), b.AsValueSlice()
		for i := range as {
			if !sameExactly(as[i], bs[i]) {
				return false
			}
		}
		return true
	case ty.IsMapType() || ty.IsObjectType():
		am, bm := a.AsValueMap(), b.AsValueMap()
		if len(am) != len(bm) {
			return false
		}
		for k, av := range am {
			bv, ok := bm[k]
			if !ok || !sameExactly(av, bv) {
				return false
			}
		}
		return true
	}
	return false
}

// precisionUnstable reports whether v holds a number whose IDENTITY under documented equality depends on the
// precision it happens to be held at: a non-integer that is exactly a float64 but is held at a wider precision,
// so that its shortest decimal text there (0.299999999999999988897769753748...) differs from the text of the same
// value at 53 bits (0.3). Any operation that legitimately re-expresses the value at another precision (a codec
// that writes exact float64 values as float64, say) changes which numbers it is Equal to - known finding F-47.
// Such a number is fine as a scalar or list member; inside a SET it would make the member count depend on
// precision, so generated sets do not hold one (C03 builds such sets on purpose).
func precisionUnstable(v cty.Value) bool {
	if v.IsMarked() {
		v, _ = v.Unmark()
	}
	if !v.IsKnown() || v.IsNull() {
		return false
	}
	ty := v.Type()
	switch {
	case ty == cty.Number:
		bf := v.AsBigFloat()
		if bf.IsInf() || bf.IsInt() || bf.Prec() <= 53 {
			return false
		}
		f, acc := bf.Float64()
		return acc == big.Exact && !mon.ModelEqual(cty.NumberFloatVal(f), v)
	case ty.IsListType() || ty.IsTupleType() || ty.IsSetType() || ty.IsMapType() || ty.IsObjectType():
		for it := v.ElementIterator(); it.Next(); {
			_, e := it.Element()
			if precisionUnstable(e) {
				return true
			}
		}
	}
	return false
}

var capAPool = []cty.Value{m.NewCapA(0), m.NewCapA(1), m.NewCapA(1)}

// homogenize makes all members of a collection whose declared element type has
// dynamic parts share one concrete type (a collection value needs that).
func homogenize(r *core.Rand, es []cty.Value, ety cty.Type, o ValueOpts) []cty.Value {
	if len(es) == 0 {
		return es
	}
	t0 := es[0].Type()
	if t0.HasDynamicTypes() {
		// pick a concrete type instead
		t0 = concretize(r, t0)
		es[0] = Value(r, t0, o)
	}
	for i := 1; i < len(es); i++ {
		if !es[i].Type().Equals(t0) {
			es[i] = Value(r, t0, o)
		}
	}
	return es
}

func concretize(r *core.Rand, ty cty.Type) cty.Type {
	tn := m.TNodeOf(ty)
	return concretizeNode(r, tn).Cty()
}

func concretizeNode(r *core.Rand, t *m.TNode) *m.TNode {
	switch t.K {
	case m.KDynamic:
		return Type(r, 1, TypeOpts{})
	case m.KList, m.KSet, m.KMap:
		return &m.TNode{K: t.K, Elem: concretizeNode(r, t.Elem)}
	case m.KTuple:
		n := &m.TNode{K: m.KTuple, Elems: make([]*m.TNode, len(t.Elems))}
		for i, e := range t.Elems {
			n.Elems[i] = concretizeNode(r, e)
		}
		return n
	case m.KObject:
		n := &m.TNode{K: m.KObject, Attrs: map[string]*m.TNode{}}
		for _, k := range t.AttrNames() {
			n.Attrs[k] = concretizeNode(r, t.Attrs[k])
		}
		return n
	}
	return t
}

func dedupe(es []cty.Value) []cty.Value {
	var out []cty.Value
	for _, e := range es {
		dup := precisionUnstable(e)
		for _, x := range out {
			if mon.ModelEqual(x, e) || sameExactly(x, e) {
				dup = true
				break
			}
		}
		if !dup {
			out = append(out, e)
		}
	}
	return out
}

// Unknown draws an unknown value of type ty, optionally refined.
func Unknown(r *core.Rand, ty cty.Type, refined bool) cty.Value {
	if ty == cty.DynamicPseudoType {
		return cty.DynamicVal
	}
	u := cty.UnknownVal(ty)
	if !refined || r.Chance(1, 3) {
		return u
	}
	b := u.Refine()
	if r.Bool() {
		b = b.NotNull()
	}
	switch {
	case ty == cty.Number:
		lo := int64(r.Intn(7) - 3)
		hi := lo + int64(r.Intn(5))
		if r.Bool() {
			b = b.NumberRangeLowerBound(cty.NumberIntVal(lo), r.Bool() || lo == hi)
		}
		if r.Bool() {
			b = b.NumberRangeUpperBound(cty.NumberIntVal(hi+1), r.Bool())
		}
	case ty == cty.String:
		if r.Bool() {
			b = b.StringPrefix(SmallString(r) + "-")
		}
	case ty.IsCollectionType():
		lo := r.Intn(3)
		if r.Bool() {
			b = b.CollectionLengthLowerBound(lo)
		}
		if r.Bool() {
			b = b.CollectionLengthUpperBound(lo + 1 + r.Intn(3))
		}
	}
	return b.NewValue()
}
