package gen

import (
	"verif/harness/core"
	m "verif/harness/model"
)

// TypeOpts selects which parts of the type language a driver wants.
type TypeOpts struct {
	Dynamic  bool // allow the dynamic placeholder
	Optional bool // allow optional-attribute annotations
	Capsule  bool // allow capsule types
	NoSet    bool
	TwinKeys bool // allow NFC/NFD twin and empty attribute names
}

var attrNames = []string{"a", "b", "c", "k"}
var attrNamesTwin = []string{"a", "b", "c", "k", "", "é", "long-key"}

// Type draws a type tree of depth <= depth.
func Type(r *core.Rand, depth int, o TypeOpts) *m.TNode {
	if depth <= 1 {
		return primType(r, o)
	}
	switch r.Intn(10) {
	case 0, 1:
		return primType(r, o)
	case 2, 3:
		return m.ListOf(Type(r, depth-1, o))
	case 4:
		if o.NoSet {
			return m.ListOf(Type(r, depth-1, o))
		}
		return m.SetOf(Type(r, depth-1, o))
	case 5:
		return m.MapOf(Type(r, depth-1, o))
	case 6, 7:
		n := r.Intn(4)
		es := make([]*m.TNode, n)
		for i := range es {
			es[i] = Type(r, depth-1, o)
		}
		return m.TupleOf(es...)
	default:
		return ObjectType(r, depth, o)
	}
}

func ObjectType(r *core.Rand, depth int, o TypeOpts) *m.TNode {
	names := attrNames
	if o.TwinKeys {
		names = attrNamesTwin
	}
	n := r.Intn(4)
	t := &m.TNode{K: m.KObject, Attrs: map[string]*m.TNode{}}
	for i := 0; i < n; i++ {
		k := names[r.Intn(len(names))]
		t.Attrs[k] = Type(r, depth-1, o)
		if o.Optional && r.Chance(1, 4) {
			if t.Opt == nil {
				t.Opt = map[string]bool{}
			}
			t.Opt[k] = true
		}
	}
	return t
}

func primType(r *core.Rand, o TypeOpts) *m.TNode {
	k := r.Intn(12)
	switch {
	case k < 3:
		return m.TBool
	case k < 6:
		return m.TNumber
	case k < 9:
		return m.TString
	case k == 9 && o.Dynamic:
		return m.TDynamic
	case k == 10 && o.Capsule:
		if r.Bool() {
			return &m.TNode{K: m.KCapsule, Capsule: "capA"}
		}
		return &m.TNode{K: m.KCapsule, Capsule: "capB"}
	}
	return []*m.TNode{m.TString, m.TNumber, m.TBool}[r.Intn(3)]
}
