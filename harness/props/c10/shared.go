package c10

import (
	"fmt"
	"strings"

	"github.com/zclconf/go-cty/cty"
	"github.com/zclconf/go-cty/cty/function"

	"verif/harness/core"
)

// Specifications that share storage.
//
// function.Spec.Params is a slice the caller hands over and the library keeps.
// A program that declares a family of functions from ONE table of parameters -
// specShort.Params = table[:k], specLong.Params = table[:n], n > k - owns two
// specifications over one array, and the shorter one has spare capacity: the
// longer one's later parameters. The statement is about "any function
// specification": what the longer function enforces is what ITS declaration
// says, whatever other functions were called before.
//
// runSharedTable is the history: the shorter function (always variadic) is
// called first, mostly with variadic arguments, then the longer one; now and
// then both once more. Each function is judged by runCase against its own
// declared contract (the pspecs the table was written from - a private copy of
// the declaration), and Function.Params() of both functions is compared with
// what it answered before the first call.

const facetParamsChanged = "Params() of a function differs after a call to another function declared over the same table of parameters"

func paramsText(ps []function.Parameter) (s string) {
	s = "(unreadable)"
	core.Guard(func() {
		p := make([]string, len(ps))
		for i, x := range ps {
			p[i] = fmt.Sprintf("{%s %#v null=%v unknown=%v dynamic=%v marked=%v}", x.Name, x.Type, x.AllowNull, x.AllowUnknown, x.AllowDynamicType, x.AllowMarked)
		}
		s = "[" + strings.Join(p, " ") + "]"
	})
	return s
}

func runSharedTable(c *core.Ctx, idx int64, r *core.Rand) {
	n := 1 + r.Weighted([]int{3, 4, 3, 1}) // positional parameters of the longer function
	k := r.Intn(n)                         // ... of the shorter one
	decl := make([]pspec, n)
	// the table may have room behind the longer declaration as well
	table := make([]function.Parameter, n, n+r.Intn(3))
	for i := range decl {
		decl[i] = genParam(r)
		table[i] = mkParameter(decl[i])
	}
	declText := paramsText(append([]function.Parameter(nil), table...))

	short := genScript(r)
	short.params = append([]pspec(nil), decl[:k]...)
	if short.varp == nil {
		p := genParam(r)
		short.varp = &p
	}
	if r.Chance(2, 3) {
		short.typeBeh = 0 // the Type callback accepts, so that the call pass is reached
	}
	short.paramTable = table[:k]

	long := genScript(r)
	long.params = append([]pspec(nil), decl...)
	long.paramTable = table[:n]

	probeLong := long.build(&spyLog{})
	probeShort := short.build(&spyLog{})
	var before, beforeShort string
	core.Guard(func() { before, beforeShort = paramsText(probeLong.Params()), paramsText(probeShort.Params()) })
	c.Count("shared-table:histories")
	c.Count(fmt.Sprintf("shared-table:short=%d,long=%d", k, n))

	reported := false
	rounds := 1
	if r.Chance(1, 3) {
		rounds = 2
	}
	var hist []string
	for round := 0; round < rounds; round++ {
		// the shorter function, mostly with arguments for its variadic parameter
		var argsS []cty.Value
		var classesS []string
		if r.Chance(4, 5) {
			m := k + 1 + r.Intn(3)
			calm := r.Chance(2, 3)
			argsS, classesS = make([]cty.Value, m), make([]string, m)
			for i := range argsS {
				argsS[i], classesS[i] = genArg(r, short.paramFor(i), calm)
			}
		} else {
			argsS, classesS = genArgs(r, short)
		}
		short.history = strings.Join(hist, " THEN ")
		runCase(c, idx, short, argsS, classesS, "shared-table:shorter")
		short.history = ""
		called := fmt.Sprintf("shorter function {%s} over table[:%d] called with %s", short.String(), k, fmtVals(argsS))
		hist = append(hist, called)

		c.Count("clause:params-of-the-other-function-unchanged")
		var after, afterShort string
		core.Guard(func() { after, afterShort = paramsText(probeLong.Params()), paramsText(probeShort.Params()) })
		if (after != before || afterShort != beforeShort) && !reported {
			reported = true
			c.Violate("Function.Call", facetParamsChanged, "shorter variadic specification called first",
				fmt.Sprintf("table as declared: %s; %s", declText, strings.Join(hist, " THEN ")),
				fmt.Sprintf("longer function over table[:%d]: Params() was %s, is %s; shorter function: Params() was %s, is %s", n, before, after, beforeShort, afterShort))
		}

		// the longer function, judged by its own declaration
		argsL, classesL := genArgs(r, long)
		long.history = strings.Join(hist, " THEN ")
		runCase(c, idx, long, argsL, classesL, "shared-table:longer")
		long.history = ""
		hist = append(hist, fmt.Sprintf("longer function over table[:%d] called with %s", n, fmtVals(argsL)))
		if len(hist) > 2 {
			hist = hist[len(hist)-2:]
		}
		core.Guard(func() { after, afterShort = paramsText(probeLong.Params()), paramsText(probeShort.Params()) })
		if (after != before || afterShort != beforeShort) && !reported {
			reported = true
			c.Violate("Function.Call", facetParamsChanged, "longer specification called after the shorter one",
				fmt.Sprintf("table as declared: %s; %s", declText, strings.Join(hist, " THEN ")),
				fmt.Sprintf("longer function over table[:%d]: Params() was %s, is %s; shorter function: Params() was %s, is %s", n, before, after, beforeShort, afterShort))
		}
	}
}
