package c10

import (
	"fmt"
	"runtime"
	"strings"

	"github.com/zclconf/go-cty/cty"
	"github.com/zclconf/go-cty/cty/function"

	"verif/harness/core"
	"verif/harness/model"
	"verif/harness/mon"
)

// The operations checked for every (spec, argument list).
const (
	opCall = iota
	opRTV
	opRT
	opUnpredictable
	nOps
)

var opSites = []string{"Function.Call", "Function.ReturnTypeForValues", "Function.ReturnType", "Unpredictable.Call"}
var opShort = []string{"Call", "ReturnTypeForValues", "ReturnType", "Unpredictable"}

func factsOf(args []cty.Value) []model.ProtoArg {
	out := make([]model.ProtoArg, len(args))
	for i, v := range args {
		u, _ := v.Unmark()
		out[i] = model.ProtoArg{
			Type:    model.TNodeOf(v.Type()),
			Null:    u.IsKnown() && u.IsNull(),
			Unknown: !u.IsKnown(),
			Dynamic: v.Type() == cty.DynamicPseudoType,
			Marked:  len(mon.DeepMarks(v)) > 0,
		}
	}
	return out
}

func fmtVals(a []cty.Value) string {
	p := make([]string, len(a))
	for i, v := range a {
		p[i] = fmt.Sprintf("%#v", v)
	}
	return "[" + strings.Join(p, ", ") + "]"
}

func fmtMarks(m cty.ValueMarks) string {
	var p []string
	for k := range m {
		p = append(p, fmt.Sprintf("%v", k))
	}
	// small sets; order by text
	for i := range p {
		for j := i + 1; j < len(p); j++ {
			if p[j] < p[i] {
				p[i], p[j] = p[j], p[i]
			}
		}
	}
	return "{" + strings.Join(p, ",") + "}"
}

// sameVal: the two values are the same value (identical internals, or equal by
// the documented equality with the same marks).
func sameVal(a, b cty.Value) bool {
	if a == cty.NilVal || b == cty.NilVal {
		return a == b
	}
	var raw bool
	o := core.Guard(func() { raw = a.RawEquals(b) })
	if !o.Panicked && raw {
		return true
	}
	var eq bool
	o = core.Guard(func() {
		ma, mb := mon.DeepMarks(a), mon.DeepMarks(b)
		eq = mon.MarksSubset(ma, mb) && mon.MarksSubset(mb, ma) && mon.ModelEqual(mon.StripMarks(a), mon.StripMarks(b))
	})
	return !o.Panicked && eq
}

func definitelyNotNull(v cty.Value) bool {
	u, _ := v.Unmark()
	if u.IsKnown() {
		return !u.IsNull()
	}
	var res bool
	o := core.Guard(func() { res = u.Range().DefinitelyNotNull() })
	return !o.Panicked && res
}

// extraBoundsMissing checks, through the range accessors, that an unknown typed
// result carries the extra declared refinement ("" = it does).
func extraBoundsMissing(s *script, v cty.Value) string {
	u, _ := v.Unmark()
	if u.IsKnown() {
		return ""
	}
	why := ""
	o := core.Guard(func() {
		rg := u.Range()
		if s.retType == cty.Number {
			lo, loInc := rg.NumberLowerBound()
			hi, hiInc := rg.NumberUpperBound()
			if !lo.IsKnown() || !hi.IsKnown() {
				why = "a bound is unknown"
				return
			}
			cl := lo.AsBigFloat().Cmp(s.numLo.AsBigFloat())
			ch := hi.AsBigFloat().Cmp(s.numHi.AsBigFloat())
			if cl < 0 || ch > 0 {
				why = fmt.Sprintf("number range %#v(inclusive=%v)..%#v(inclusive=%v) is wider than the declared %#v..%#v", lo, loInc, hi, hiInc, s.numLo, s.numHi)
			}
			return
		}
		if rg.LengthLowerBound() < s.lenLo || rg.LengthUpperBound() > s.lenHi {
			why = fmt.Sprintf("length range %d..%d is wider than the declared %d..%d", rg.LengthLowerBound(), rg.LengthUpperBound(), s.lenLo, s.lenHi)
		}
	})
	if o.Panicked {
		return "range accessor panicked: " + o.PanicMsg
	}
	return why
}

func contains(xs []int, x int) bool {
	for _, y := range xs {
		if y == x {
			return true
		}
	}
	return false
}

// factClass names an argument by the facts the protocol depends on (computed
// from the value, independently of the generator's intention).
func factClass(f *model.ProtoArg, p *pspec) string {
	var k string
	switch {
	case f.Dynamic && f.Null:
		k = "null-of-dynamic"
	case f.Dynamic:
		k = "dynamic"
	case f.Null:
		k = "null"
	case f.Unknown:
		k = "unknown"
	default:
		k = "known"
	}
	if !f.Dynamic {
		if model.Conforms(f.Type, p.tn) {
			k += ",conforming"
		} else {
			k += ",non-conforming"
		}
	}
	if f.Marked {
		k += ",marked"
	}
	return k
}

// runCase executes every operation for one (spec, argument list) pair and
// validates the spy log and the outcome of each against the protocol model.
func runCase(c *core.Ctx, idx int64, s *script, args []cty.Value, classes []string, origin string) {
	normalize(s, args)
	desc := func() string {
		return fmt.Sprintf("%s args=%s", s.String(), fmtVals(args))
	}
	c.Begin(idx, desc)
	log := &spyLog{}
	fn := s.build(log)
	ufn := function.Unpredictable(fn)
	ps := s.proto()

	arityOK := false
	reachedImpl := false
	for op := 0; op < nOps; op++ {
		given := args
		if op == opRT {
			given = make([]cty.Value, len(args))
			for i, a := range args {
				given[i] = cty.UnknownVal(a.Type())
			}
		}
		facts := factsOf(given)
		// what the callbacks must see, and what the scripted callbacks will answer
		expectSeen := make([]cty.Value, len(given))
		for i, v := range given {
			if p := s.paramFor(i); p != nil && !p.marked {
				expectSeen[i] = mon.StripMarks(v)
			} else {
				expectSeen[i] = v
			}
		}
		T := s.retType
		if s.typeMode == tmFirstArg {
			T = cty.String
			if len(given) > 0 {
				T = given[0].Type()
			}
		}
		var implVal cty.Value
		ib := model.ImplConforming
		if op == opUnpredictable {
			implVal = cty.UnknownVal(T)
		} else {
			switch s.implMode {
			case imErrors:
				ib = model.ImplErrors
			case imPanics:
				ib = model.ImplPanics
			case imNil:
				implVal = cty.NilVal
				ib = model.ImplNonConforming
			default:
				implVal = s.implVal
				if s.implMode == imFirstArg {
					implVal = cty.StringVal("")
					if len(expectSeen) > 0 {
						implVal = expectSeen[0]
					}
				}
				if !model.Conforms(model.TNodeOf(implVal.Type()), model.TNodeOf(T)) {
					ib = model.ImplNonConforming
				}
			}
		}
		mop := model.OpCall
		if op == opRTV || op == opRT {
			mop = model.OpReturnType
		}
		acc := ps.Decide(facts, mop, s.typeBeh, ib)
		if op == opUnpredictable {
			acc.ImplCalls = 0
		}
		if op == opCall {
			arityOK = acc.ArityOK
			reachedImpl = acc.Stage == "impl"
		}
		c.Count("stage:" + opShort[op] + ":" + acc.Stage)

		site := opSites[op]
		opDesc := func() string {
			if op == opRT {
				tys := make([]string, len(args))
				for i, a := range args {
					tys[i] = fmt.Sprintf("%#v", a.Type())
				}
				return fmt.Sprintf("%s argTypes=[%s]", s.String(), strings.Join(tys, ", "))
			}
			return desc()
		}
		// narrow input class of the one known way past the conformance assertion:
		// the Impl callback answers (cty.NilVal, nil) and the checked type is dynamic
		nilClass := ""
		if op == opCall && acc.Stage == "impl" && s.implMode == imNil && T == cty.DynamicPseudoType {
			nilClass = "impl-returns-NilVal,checked-type-dynamic"
		}
		viol := func(facet, class, detail string) {
			if class == "" {
				class = nilClass
			}
			c.Violate(site, facet, class, opDesc(), detail+"; protocol stage: "+acc.Stage+"; acceptable: "+acceptText(&acc))
		}

		// execute
		log.reset()
		saved := append([]cty.Value(nil), given...)
		var val cty.Value
		var ty cty.Type
		var err error
		out := core.Guard(func() {
			switch op {
			case opCall:
				val, err = fn.Call(given)
			case opUnpredictable:
				val, err = ufn.Call(given)
			case opRTV:
				ty, err = fn.ReturnTypeForValues(given)
			case opRT:
				tys := make([]cty.Type, len(args))
				for i, a := range args {
					tys[i] = a.Type()
				}
				ty, err = fn.ReturnType(tys)
			}
		})
		c.Eval(1)
		c.Count("op:" + opShort[op])
		for i := range saved {
			var eq bool
			if o := core.Guard(func() { eq = saved[i].RawEquals(given[i]) }); o.Panicked || !eq {
				c.CrossNote("C20", site+": the caller's argument slice was modified", opDesc())
				break
			}
		}

		checkEvents(c, s, log, op, &acc, given, expectSeen, viol)

		if out.Panicked {
			c.Count("outcome:" + opShort[op] + ":go-panic")
			viol("panic: "+core.PanicClass(out.PanicMsg), "", "the call panicked: "+out.PanicMsg+"\n"+out.Stack)
			continue
		}
		if err != nil {
			checkError(c, s, op, &acc, err, viol)
			continue
		}
		if mop == model.OpReturnType {
			checkTypeResult(c, op, &acc, ty, T, viol)
			continue
		}
		checkValueResult(c, s, op, &acc, val, T, implVal, given, viol)
	}

	nontrivial := arityOK && len(args) > 0
	c.Distinct(desc(), nontrivial)
	c.Count("origin:" + origin)
	if nontrivial {
		c.Count("nontrivial")
	}
	c.Count(fmt.Sprintf("spec:positional=%d,variadic=%v", len(s.params), s.varp != nil))
	c.Count(fmt.Sprintf("args:len=%d", len(args)))
	if s.viaDesc {
		c.Count("route:WithNewDescriptions")
	}
	if s.refine {
		if s.refineExtra {
			c.Count("refine:NotNull+range")
		} else {
			c.Count("refine:NotNull")
		}
	}
	if reachedImpl {
		c.Count(fmt.Sprintf("impl-reached:%s:args=%d", origin, len(args)))
	}
	if arityOK {
		for i, f := range factsOf(args) {
			c.Count("argfact:" + factClass(&f, s.paramFor(i)))
		}
	}
	for i, cl := range classes {
		c.Count("argclass:" + cl)
		if p := s.paramFor(i); p != nil {
			c.Count(fmt.Sprintf("flags:%04b", p.flagBits()))
		}
	}
	if c.WantSample() && reachedImpl && len(args) >= 2 {
		c.Sample(map[string]any{"spec": s.String(), "args": fmtVals(args), "classes": strings.Join(classes, ",")})
	}
}

// normalize keeps the script inside the documented domain: a declared result
// refinement must hold for every result of the implementation (otherwise the
// library is documented to panic).
func normalize(s *script, args []cty.Value) {
	defer func() {
		if s.refineExtra && !s.admitExtra() {
			s.refineExtra = false
		}
	}()
	if !s.refine {
		return
	}
	switch s.implMode {
	case imFirstArg:
		if len(args) > 0 {
			u, _ := args[0].Unmark()
			if u.IsKnown() && u.IsNull() {
				s.refine = false
			}
		}
	case imValue:
		u, _ := s.implVal.Unmark()
		if u.IsKnown() && u.IsNull() {
			s.refine = false
		}
	}
}

func acceptText(a *model.ProtoAccept) string {
	var p []string
	if a.AnyError {
		p = append(p, "an error")
	}
	if len(a.ArgErrorIdx) > 0 {
		p = append(p, fmt.Sprintf("ArgError with Index in %v", a.B))
	}
	if a.DynShort {
		p = append(p, "unknown/dynamic short-circuit")
	}
	if a.TypeError {
		p = append(p, "the Type callback's error")
	}
	if a.TypePanic {
		p = append(p, "PanicError(Type callback)")
	}
	if a.TypeResult {
		p = append(p, "the Type callback's type")
	}
	if a.TypedShort {
		p = append(p, "unknown value of the checked type")
	}
	if a.ImplError {
		p = append(p, "the Impl callback's error")
	}
	if a.ImplPanic {
		p = append(p, "PanicError(Impl callback)")
	}
	if a.NonConformError {
		p = append(p, "PanicError/error for the non-conforming result")
	}
	if a.Value {
		p = append(p, "the Impl result with collected marks and refinement")
	}
	return "{" + strings.Join(p, " | ") + "}"
}

type violFn func(facet, class, detail string)

// checkEvents validates the spy log of one operation.
func checkEvents(c *core.Ctx, s *script, log *spyLog, op int, acc *model.ProtoAccept, given, expectSeen []cty.Value, viol violFn) {
	nType, nImpl := 0, 0
	lastType := -1
	for ei := range log.events {
		ev := &log.events[ei]
		if ev.which == "Type" {
			nType++
		} else {
			nImpl++
		}
		c.Count("spy-event:" + ev.which)
		if len(ev.args) != len(given) {
			viol(ev.which+" callback saw a different number of arguments", "", fmt.Sprintf("saw %s", fmtVals(ev.args)))
		}
		for i, a := range ev.args {
			p := s.paramFor(i)
			if p == nil || i >= len(given) {
				continue
			}
			if a == cty.NilVal {
				viol(ev.which+" callback saw an invalid (nil) argument", "", fmt.Sprintf("argument %d", i))
				continue
			}
			u, _ := a.Unmark()
			c.Count("clause:spy-argument-contract")
			if u.IsKnown() && u.IsNull() && !p.null {
				viol(ev.which+" callback saw a null argument (AllowNull off)", "", fmt.Sprintf("argument %d: %#v", i, a))
			}
			if a.Type() == cty.DynamicPseudoType {
				if !p.dyn {
					viol(ev.which+" callback saw a dynamically-typed argument (AllowDynamicType off)", "", fmt.Sprintf("argument %d: %#v", i, a))
				}
			} else if !model.Conforms(model.TNodeOf(a.Type()), p.tn) {
				viol(ev.which+" callback saw a non-conforming argument", "", fmt.Sprintf("argument %d: %#v against %s", i, a, p.tn.String()))
			}
			if !p.marked && (a.ContainsMarked() || len(mon.DeepMarks(a)) > 0) {
				viol(ev.which+" callback saw a marked argument (AllowMarked off)", "", fmt.Sprintf("argument %d: %#v", i, a))
			}
			if ev.which == "Impl" && !u.IsKnown() && !p.unk {
				viol("Impl callback saw an unknown argument (AllowUnknown off)", "", fmt.Sprintf("argument %d: %#v", i, a))
			}
			if acc.ArityOK && !sameVal(a, expectSeen[i]) {
				viol(ev.which+" callback saw an argument that is not the caller's (modulo unmarking)", "",
					fmt.Sprintf("argument %d: saw %#v, expected %#v", i, a, expectSeen[i]))
			}
		}
		if ev.which == "Type" {
			lastType = ei
			continue
		}
		// Impl event
		c.Count("clause:impl-after-successful-type")
		if lastType < 0 || !log.events[lastType].ok {
			viol("Impl callback ran without a preceding successful Type callback", "", fmt.Sprintf("%d events", len(log.events)))
			continue
		}
		te := &log.events[lastType]
		same := len(te.args) == len(ev.args)
		for i := 0; same && i < len(ev.args); i++ {
			if ev.args[i] == cty.NilVal || te.args[i] == cty.NilVal {
				same = ev.args[i] == te.args[i]
				continue
			}
			var eq bool
			o := core.Guard(func() { eq = ev.args[i].RawEquals(te.args[i]) })
			same = !o.Panicked && eq
		}
		if !same {
			viol("Impl callback arguments differ from those the Type callback accepted", "", fmt.Sprintf("Type saw %s, Impl saw %s", fmtVals(te.args), fmtVals(ev.args)))
		}
		if !ev.retType.Equals(te.outType) {
			viol("Impl callback got a return type other than the checked one", "", fmt.Sprintf("Type returned %#v, Impl got %#v", te.outType, ev.retType))
		}
	}
	c.Count("clause:callback-call-counts")
	if nType != acc.TypeCalls {
		if acc.TypeCalls == 0 {
			viol("Type callback ran where the protocol forbids it", "", fmt.Sprintf("ran %d times", nType))
		} else {
			viol("Type callback did not run exactly once", "", fmt.Sprintf("ran %d times", nType))
		}
	}
	if nImpl != acc.ImplCalls {
		if acc.ImplCalls == 0 {
			viol("Impl callback ran where the protocol forbids it", "", fmt.Sprintf("ran %d times", nImpl))
		} else {
			viol("Impl callback did not run exactly once", "", fmt.Sprintf("ran %d times", nImpl))
		}
	}
}

func checkPanicPayload(s *script, pe function.PanicError) string {
	switch s.panicKind {
	case 0:
		if v, ok := pe.Value.(string); !ok || v != "c10: scripted panic payload (string)" {
			return fmt.Sprintf("payload %#v", pe.Value)
		}
	case 1:
		if v, ok := pe.Value.(error); !ok || v != errPanicPayload {
			return fmt.Sprintf("payload %#v", pe.Value)
		}
	case 3:
		if v, ok := pe.Value.(structPayload); !ok || v != (structPayload{7, "c10"}) {
			return fmt.Sprintf("payload %#v", pe.Value)
		}
	default:
		if _, ok := pe.Value.(runtime.Error); !ok {
			return fmt.Sprintf("payload %#v is not a runtime error", pe.Value)
		}
	}
	if len(pe.Error()) == 0 {
		return "empty error text"
	}
	return ""
}

// argIdxClass names the narrow input class of a wrong ArgError.Index: the
// index is short by exactly the number of positional parameters and the
// argument it should have named is a non-conforming variadic argument.
func argIdxClass(s *script, acc *model.ProtoAccept, idx int) string {
	nPos := len(s.params)
	if s.varp != nil && nPos > 0 && idx >= 0 && contains(acc.BType, idx+nPos) {
		return "variadic-argerror-index"
	}
	return ""
}

func checkError(c *core.Ctx, s *script, op int, acc *model.ProtoAccept, err error, viol violFn) {
	name := opShort[op]
	ae, isArg := err.(function.ArgError)
	pe, isPanic := err.(function.PanicError)
	switch {
	case isArg:
		c.Count("outcome:" + name + ":ArgError")
		c.Count("clause:argerror-names-offender")
		switch {
		case acc.AnyError || acc.ArgErrorIdx[ae.Index]:
			if contains(acc.BNull, ae.Index) {
				c.Count("argerror:null")
			} else if contains(acc.BType, ae.Index) {
				c.Count("argerror:non-conforming")
			}
			if s.varp != nil && ae.Index >= len(s.params) {
				c.Count("argerror:variadic-position")
			}
		case len(acc.B) > 0:
			viol("ArgError.Index does not name an offending argument", argIdxClass(s, acc, ae.Index),
				fmt.Sprintf("ArgError{Index: %d, %q}; offending arguments: %v", ae.Index, ae.Error(), acc.B))
		case acc.Stage == "args":
			viol("ArgError although only the dynamic short-circuit applies", "", fmt.Sprintf("ArgError{Index: %d, %q}", ae.Index, ae.Error()))
		default:
			viol("ArgError although no argument violates its parameter", "", fmt.Sprintf("ArgError{Index: %d, %q}", ae.Index, ae.Error()))
		}
	case isPanic:
		c.Count("outcome:" + name + ":PanicError")
		switch {
		case acc.TypePanic || acc.ImplPanic:
			c.Count("clause:callback-panic-as-PanicError")
			if why := checkPanicPayload(s, pe); why != "" {
				viol("PanicError does not carry the callback's panic", "", why)
			}
		case acc.NonConformError:
			c.Count("clause:non-conforming-result-rejected")
		case acc.AnyError:
		default:
			viol("PanicError although no callback panicked", "", fmt.Sprintf("PanicError value %v", pe.Value))
		}
	case err == errTypeCb:
		c.Count("outcome:" + name + ":type-callback-error")
		c.Count("clause:callback-error-returned")
		if !acc.TypeError {
			viol("Type callback error returned where the protocol does not allow it", "", err.Error())
		}
	case err == errImplCb:
		c.Count("outcome:" + name + ":impl-callback-error")
		c.Count("clause:callback-error-returned")
		if !acc.ImplError {
			viol("Impl callback error returned where the protocol does not allow it", "", err.Error())
		}
	default:
		c.Count("outcome:" + name + ":other-error")
		switch {
		case acc.AnyError:
			c.Count("clause:wrong-count-is-an-error")
		case acc.NonConformError:
			c.Count("clause:non-conforming-result-rejected")
		case len(acc.B) > 0 && !acc.DynShort:
			viol("argument violation not reported as an ArgError", "", fmt.Sprintf("error %q", err.Error()))
		default:
			viol("unexpected error", "", fmt.Sprintf("error %q", err.Error()))
		}
	}
}

func checkTypeResult(c *core.Ctx, op int, acc *model.ProtoAccept, ty, T cty.Type, viol violFn) {
	name := opShort[op]
	c.Count("outcome:" + name + ":type")
	if ty == cty.NilType {
		viol("neither a type nor an error returned", "", "NilType, nil")
		return
	}
	switch {
	case acc.Stage == "args" && acc.DynShort:
		c.Count("clause:dynamic-short-circuit")
		if ty != cty.DynamicPseudoType {
			viol("dynamic short-circuit did not answer the dynamic pseudo-type", "", fmt.Sprintf("returned %#v", ty))
		}
	case acc.TypeResult:
		c.Count("clause:checked-type-returned")
		if !ty.Equals(T) {
			viol("returned type is not the type the Type callback returned", "", fmt.Sprintf("returned %#v, callback returned %#v", ty, T))
		}
	default:
		viol(successWhereErrorFacet(acc), "", fmt.Sprintf("returned type %#v", ty))
	}
}

// successWhereErrorFacet names the clause violated when a call succeeded
// although the protocol only admits errors at this stage.
func successWhereErrorFacet(acc *model.ProtoAccept) string {
	switch acc.Stage {
	case "arity":
		return "wrong argument count accepted"
	case "args":
		return "offending argument accepted"
	case "type-error":
		return "Type callback error not returned"
	case "type-panic":
		return "Type callback panic not returned as an error"
	}
	switch {
	case acc.ImplError:
		return "Impl callback error not returned"
	case acc.ImplPanic:
		return "Impl callback panic not returned as an error"
	case acc.NonConformError:
		return "non-conforming Impl result returned"
	}
	return "success outside the acceptable set"
}

func requiredMarks(acc *model.ProtoAccept, given []cty.Value) cty.ValueMarks {
	out := cty.ValueMarks{} // not cty.NewValueMarks(): that returns a nil map for zero marks
	for _, i := range acc.Unmark {
		for k := range mon.DeepMarks(given[i]) {
			out[k] = struct{}{}
		}
	}
	return out
}

func checkValueResult(c *core.Ctx, s *script, op int, acc *model.ProtoAccept, val cty.Value, T cty.Type, implVal cty.Value, given []cty.Value, viol violFn) {
	name := opShort[op]
	if val == cty.NilVal {
		c.Count("outcome:" + name + ":nil")
		viol("neither a value nor an error returned", "", "NilVal, nil")
		return
	}
	if w := mon.WellFormed(val); w != "" {
		c.CrossNote("C06", opSites[op]+": "+w, fmt.Sprintf("%#v", val))
	}
	if e := cty.VerifWellFormed(val); e != nil {
		c.CrossNote("C06", opSites[op]+": (hook) "+e.Error(), fmt.Sprintf("%#v", val))
	}
	u, _ := val.Unmark()
	got := fmt.Sprintf("returned %#v", val)
	marksOK := func() {
		c.Count("clause:result-carries-unhandled-marks")
		req := requiredMarks(acc, given)
		have := mon.DeepMarks(val)
		if !mon.MarksSubset(req, have) {
			viol("result lacks marks of arguments the function does not handle itself", "", fmt.Sprintf("%s; required marks %s, result marks %s", got, fmtMarks(req), fmtMarks(have)))
		}
		if len(req) > 0 {
			c.Count("marks:collected-nonempty")
		}
	}
	switch {
	case acc.Stage == "args" && acc.DynShort:
		c.Count("outcome:" + name + ":dynamic-short-circuit")
		c.Count("clause:dynamic-short-circuit")
		if u.IsKnown() || val.Type() != cty.DynamicPseudoType {
			if len(acc.B) > 0 {
				viol("offending argument accepted", "", got)
			} else {
				viol("dynamic short-circuit result is not an unknown value of the dynamic pseudo-type", "", got)
			}
			return
		}
		marksOK()
	case acc.TypedShort:
		c.Count("outcome:" + name + ":unknown-short-circuit")
		c.Count("clause:unknown-short-circuit")
		if u.IsKnown() {
			viol("short-circuit result is not unknown", "", got)
			return
		}
		if !val.Type().Equals(T) {
			viol("short-circuit result does not have the checked return type", "", fmt.Sprintf("%s; checked type %#v", got, T))
			return
		}
		marksOK()
		if s.refine && T != cty.DynamicPseudoType {
			c.Count("clause:refinement-applied")
			c.Count("refined:short-circuit")
			if !definitelyNotNull(val) {
				viol("declared NotNull refinement missing from a typed result", "", got)
			}
			if s.refineExtra {
				c.Count("clause:extra-refinement-applied")
				if why := extraBoundsMissing(s, val); why != "" {
					viol("declared range refinement missing from a typed result", "", got+"; "+why)
				}
			}
		}
	case acc.Value:
		c.Count("outcome:" + name + ":value")
		c.Count("clause:result-conforms")
		if !model.Conforms(model.TNodeOf(val.Type()), model.TNodeOf(T)) {
			viol("result does not conform to the checked return type", "", fmt.Sprintf("%s; checked type %#v", got, T))
			return
		}
		exp := mon.StripMarks(implVal)
		typed := exp.IsKnown() || exp.Type() != cty.DynamicPseudoType
		if s.refine && !exp.IsKnown() && typed {
			exp = exp.RefineWith(s.refineWith)
		}
		c.Count("clause:result-is-impl-result")
		if !sameVal(mon.StripMarks(val), exp) {
			viol("result is not the value the Impl callback returned", "", fmt.Sprintf("%s; Impl returned %#v", got, implVal))
		}
		marksOK()
		c.Count("clause:impl-marks-kept")
		if im := mon.DeepMarks(implVal); !mon.MarksSubset(im, mon.DeepMarks(val)) {
			viol("result lost marks of the Impl result", "", fmt.Sprintf("%s; Impl returned %#v", got, implVal))
		}
		if s.refine && typed {
			c.Count("clause:refinement-applied")
			if exp.IsKnown() {
				c.Count("refined:known-result")
			} else {
				c.Count("refined:unknown-impl-result")
			}
			if !definitelyNotNull(val) {
				viol("declared NotNull refinement missing from a typed result", "", got)
			}
			if s.refineExtra && !exp.IsKnown() {
				c.Count("clause:extra-refinement-applied")
				if why := extraBoundsMissing(s, val); why != "" {
					viol("declared range refinement missing from a typed result", "", got+"; "+why)
				}
			}
		}
		if s.refine && !typed {
			c.Count("refined:not-applicable-dynamic-unknown")
		}
	default:
		c.Count("outcome:" + name + ":value")
		viol(successWhereErrorFacet(acc), "", got)
	}
}
