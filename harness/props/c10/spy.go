package c10

import (
	"errors"
	"fmt"
	"strings"

	"github.com/zclconf/go-cty/cty"
	"github.com/zclconf/go-cty/cty/function"

	"verif/harness/model"
)

// pspec is one generated parameter.
type pspec struct {
	tn     *model.TNode // the type constraint as asked for (independent of the cty type built from it)
	ty     cty.Type
	null   bool
	unk    bool
	dyn    bool
	marked bool
}

func (p pspec) String() string {
	var f []string
	if p.null {
		f = append(f, "null")
	}
	if p.unk {
		f = append(f, "unknown")
	}
	if p.dyn {
		f = append(f, "dynamic")
	}
	if p.marked {
		f = append(f, "marked")
	}
	return fmt.Sprintf("%s{allow:%s}", p.tn.String(), strings.Join(f, ","))
}

func (p pspec) flagBits() int {
	b := 0
	if p.null {
		b |= 1
	}
	if p.unk {
		b |= 2
	}
	if p.dyn {
		b |= 4
	}
	if p.marked {
		b |= 8
	}
	return b
}

func paramWithFlags(tn *model.TNode, bits int) pspec {
	return pspec{tn: tn, ty: tn.Cty(), null: bits&1 != 0, unk: bits&2 != 0, dyn: bits&4 != 0, marked: bits&8 != 0}
}

// How the scripted callbacks behave.
const (
	tmFixed    = iota // Type returns the scripted type
	tmFirstArg        // Type returns the type of its first argument (string without arguments): a generic function
)

const (
	imValue    = iota // Impl returns the scripted value (conforming or not: the model decides)
	imFirstArg        // Impl returns its first argument as it saw it (string "" without arguments)
	imErrors
	imPanics
	imNil // Impl returns cty.NilVal and a nil error (never a conforming value)
)

var implModeNames = []string{"value", "first-argument", "errors", "panics", "NilVal"}

// script is a complete generated function specification.
type script struct {
	params    []pspec
	varp      *pspec
	typeBeh   model.TypeBeh
	typeMode  int
	retType   cty.Type
	implMode  int
	implVal   cty.Value
	refine    bool
	panicKind int

	// refineExtra (only with refine): RefineResult also declares bounds that the
	// Impl result honours: a number range [numLo, numHi] for a number result, or a
	// length range [lenLo, lenHi] for a list / map result (see admitExtra).
	refineExtra  bool
	numLo, numHi cty.Value
	lenLo, lenHi int
	// viaDesc: the function under test is obtained through WithNewDescriptions
	// (a second route to a Function with the same specification).
	viaDesc bool

	// paramTable (shared.go): the Params slice of the real specification is this
	// slice itself - a window of a table that other specifications use too -
	// instead of a slice of the function's own. It declares exactly s.params.
	paramTable []function.Parameter
	// history: the calls made before this function was called, when they are part of the case (shared.go)
	history string
}

func (s *script) paramFor(i int) *pspec {
	if i < len(s.params) {
		return &s.params[i]
	}
	return s.varp
}

func (s *script) String() string {
	var b strings.Builder
	b.WriteString("params=[")
	for i, p := range s.params {
		if i > 0 {
			b.WriteString(" ")
		}
		b.WriteString(p.String())
	}
	b.WriteString("]")
	if s.varp != nil {
		b.WriteString(" variadic=" + s.varp.String())
	}
	switch s.typeBeh {
	case model.TypeErrors:
		b.WriteString(" Type=errors")
	case model.TypePanics:
		fmt.Fprintf(&b, " Type=panics(%s)", panicKindNames[s.panicKind])
	default:
		if s.typeMode == tmFirstArg {
			b.WriteString(" Type=type-of-first-argument")
		} else {
			fmt.Fprintf(&b, " Type=returns %#v", s.retType)
		}
	}
	switch s.implMode {
	case imValue:
		fmt.Fprintf(&b, " Impl=returns %#v", s.implVal)
	case imPanics:
		fmt.Fprintf(&b, " Impl=panics(%s)", panicKindNames[s.panicKind])
	default:
		b.WriteString(" Impl=" + implModeNames[s.implMode])
	}
	if s.refine {
		b.WriteString(" RefineResult=NotNull")
		if s.refineExtra {
			if s.retType == cty.Number {
				fmt.Fprintf(&b, "+NumberRangeInclusive(%#v,%#v)", s.numLo, s.numHi)
			} else {
				fmt.Fprintf(&b, "+CollectionLength(%d..%d)", s.lenLo, s.lenHi)
			}
		}
	}
	if s.viaDesc {
		b.WriteString(" via=WithNewDescriptions")
	}
	if s.history != "" {
		b.WriteString(" history=" + s.history)
	}
	return b.String()
}

func (s *script) proto() *model.ProtoSpec {
	ps := &model.ProtoSpec{}
	for _, p := range s.params {
		ps.Params = append(ps.Params, model.ProtoParam{Type: p.tn, AllowNull: p.null, AllowUnknown: p.unk, AllowDynamic: p.dyn, AllowMarked: p.marked})
	}
	if s.varp != nil {
		p := s.varp
		ps.VarParam = &model.ProtoParam{Type: p.tn, AllowNull: p.null, AllowUnknown: p.unk, AllowDynamic: p.dyn, AllowMarked: p.marked}
	}
	return ps
}

// event is one entry of the spy log.
type event struct {
	which    string // "Type" or "Impl"
	args     []cty.Value
	retType  cty.Type // Impl only: the type handed to the callback
	outType  cty.Type
	outVal   cty.Value
	outErr   error
	panicked bool
	ok       bool // the callback returned successfully
}

type spyLog struct{ events []event }

func (l *spyLog) reset() { l.events = l.events[:0] }

// Sentinel errors and panic payloads of the scripted callbacks.
var errTypeCb = errors.New("c10: scripted Type callback error")
var errImplCb = errors.New("c10: scripted Impl callback error")
var errPanicPayload = errors.New("c10: scripted panic payload (error)")

type structPayload struct {
	A int
	B string
}

var panicKindNames = []string{"string", "error", "nil-map-write", "struct", "index-out-of-range"}

const nPanicKinds = 5

func doPanic(kind int) {
	switch kind {
	case 0:
		panic("c10: scripted panic payload (string)")
	case 1:
		panic(errPanicPayload)
	case 2:
		var m map[string]int
		m["x"] = 1
	case 3:
		panic(structPayload{7, "c10"})
	default:
		var s []int
		i := 3
		_ = s[i]
	}
	panic("unreachable")
}

func mkParameter(p pspec) function.Parameter {
	return function.Parameter{Name: "p", Type: p.ty, AllowNull: p.null, AllowUnknown: p.unk, AllowDynamicType: p.dyn, AllowMarked: p.marked}
}

// build makes the real function.Function whose callbacks are the spies.
func (s *script) build(log *spyLog) function.Function {
	mk := mkParameter
	spec := &function.Spec{}
	if s.paramTable != nil {
		spec.Params = s.paramTable
	} else {
		for _, p := range s.params {
			spec.Params = append(spec.Params, mk(p))
		}
	}
	if s.varp != nil {
		vp := mk(*s.varp)
		spec.VarParam = &vp
	}
	spec.Type = func(args []cty.Value) (cty.Type, error) {
		log.events = append(log.events, event{which: "Type", args: append([]cty.Value(nil), args...)})
		idx := len(log.events) - 1
		switch s.typeBeh {
		case model.TypeErrors:
			log.events[idx].outErr = errTypeCb
			return cty.NilType, errTypeCb
		case model.TypePanics:
			log.events[idx].panicked = true
			doPanic(s.panicKind)
		}
		t := s.retType
		if s.typeMode == tmFirstArg {
			t = cty.String
			if len(args) > 0 {
				t = args[0].Type()
			}
		}
		log.events[idx].outType = t
		log.events[idx].ok = true
		return t, nil
	}
	spec.Impl = func(args []cty.Value, retType cty.Type) (cty.Value, error) {
		log.events = append(log.events, event{which: "Impl", args: append([]cty.Value(nil), args...), retType: retType})
		idx := len(log.events) - 1
		var out cty.Value
		switch s.implMode {
		case imErrors:
			log.events[idx].outErr = errImplCb
			return cty.NilVal, errImplCb
		case imPanics:
			log.events[idx].panicked = true
			doPanic(s.panicKind)
		case imNil:
			out = cty.NilVal
		case imFirstArg:
			out = cty.StringVal("")
			if len(args) > 0 {
				out = args[0]
			}
		default:
			out = s.implVal
		}
		log.events[idx].outVal = out
		log.events[idx].ok = true
		return out, nil
	}
	if s.refine {
		spec.RefineResult = s.refineWith
	}
	fn := function.New(spec)
	if s.viaDesc {
		descs := make([]string, len(s.params))
		for i := range descs {
			descs[i] = fmt.Sprintf("parameter %d", i)
		}
		if s.varp != nil && len(s.params)%2 == 0 {
			descs = append(descs, "the rest") // both accepted lengths are used
		}
		fn = fn.WithNewDescriptions("described", descs)
	}
	return fn
}

// refineWith is the declared RefineResult callback.
func (s *script) refineWith(b *cty.RefinementBuilder) *cty.RefinementBuilder {
	b = b.NotNull()
	if s.refineExtra {
		if s.retType == cty.Number {
			b = b.NumberRangeInclusive(s.numLo, s.numHi)
		} else {
			b = b.CollectionLengthLowerBound(s.lenLo).CollectionLengthUpperBound(s.lenHi)
		}
	}
	return b
}

// admitExtra decides whether the script may declare the extra refinement, and
// chooses bounds that every result of the scripted Impl honours (the bounds are
// never equal, so a refined unknown result stays unknown). It is only declared
// for a fixed number / list / map return type whose scripted Impl value is
// known (so that it carries no refinements of its own that could contradict).
func (s *script) admitExtra() bool {
	if !s.refine || s.typeMode != tmFixed || s.implMode == imFirstArg {
		return false
	}
	ty := s.retType
	var iv cty.Value
	haveVal := false
	if s.implMode == imValue {
		iv, _ = s.implVal.Unmark()
		if !iv.IsKnown() || iv.IsNull() {
			return false
		}
		haveVal = iv.Type().Equals(ty) || (ty.IsListType() && iv.Type().IsListType()) || (ty.IsMapType() && iv.Type().IsMapType())
	}
	switch {
	case ty == cty.Number:
		s.numLo, s.numHi = cty.NumberIntVal(-3), cty.NumberIntVal(1000)
		if haveVal {
			f := iv.AsBigFloat()
			if f.IsInf() {
				return false
			}
			one := cty.NumberIntVal(1)
			s.numLo, s.numHi = iv.Subtract(one), iv.Add(one)
			if s.numLo.AsBigFloat().Cmp(f) >= 0 || s.numHi.AsBigFloat().Cmp(f) <= 0 {
				return false
			}
		}
		return true
	case ty.IsListType() || ty.IsMapType():
		s.lenLo, s.lenHi = 0, 7
		if haveVal {
			n := iv.LengthInt()
			s.lenLo, s.lenHi = n, n+2
			if n > 0 && n%2 == 0 {
				s.lenLo = n - 1
			}
		}
		return true
	}
	return false
}
