// Package c10: the function-call protocol enforces every declared parameter
// contract. Spies installed as the Type and Impl callbacks of generated
// function specifications record an event log; the log and the outcome of
// Call / ReturnType / ReturnTypeForValues (and of the Unpredictable wrapper)
// are validated against the protocol model of DESIGN.md Appendix B
// (model/c10_protocol.go), which yields a set of acceptable outcomes.
package c10

import (
	"github.com/zclconf/go-cty/cty"

	"verif/harness/core"
	"verif/harness/gen"
	"verif/harness/model"
)

type Driver struct{}

func (Driver) ID() string { return "C10" }

func (Driver) Info() core.Info {
	return core.Info{
		Title: "the function-call protocol enforces every declared parameter contract",
		Rule: "case = (function.Spec, argument list): 0..3 positional parameters + optional variadic parameter, each with a generated type constraint (depth<=3, " +
			"dynamic placeholders at any depth, top-level dynamic 15%) and a uniformly drawn combination of AllowNull/AllowUnknown/AllowDynamicType/AllowMarked; " +
			"scripted Type callback (returns a generated type | returns the type of its first argument | errors | panics with 5 payload kinds); scripted Impl callback " +
			"(returns a generated conforming or non-conforming value | returns its first argument | errors | panics | returns NilVal); optional RefineResult (NotNull, or NotNull plus a number range / " +
			"collection length range) that the Impl honours; 1 in 8 functions obtained through WithNewDescriptions; " +
			"argument lists of length 0..6 mixing conforming, non-conforming, null, unknown (also refined), DynamicVal, null-of-dynamic and top-level / deeply marked values. " +
			"Each case runs Call, ReturnTypeForValues, ReturnType and Unpredictable(f).Call with spies in both callbacks. Plus two-function histories: two generated specifications declared over ONE table of parameters " +
			"(Params = table[:k] with a variadic parameter, and table[:n], n > k), the shorter called first (mostly with variadic arguments), then the longer, each judged by its own declaration, Params() of both compared before and after. Plus a fixed corpus and two seed-independent enumerations " +
			"(one focus parameter: 4 spec shapes x 3 constraints x 16 flag combinations x 17 argument classes x 9 callback scripts; two neighbouring parameters: 16x16 flag combinations x 8x8 argument classes x 2 scripts). " +
			"distinct = hash of (spec, arguments); non-trivial = argument count accepted and at least one argument, so that parameter contracts are in play",
		Assumptions: []string{
			"the protocol model (model/c10_protocol.go) is Appendix B of DESIGN.md: a set of acceptable outcomes; which of several offending arguments is named, and whether an offending argument or a not-allowed dynamic argument wins, is left free",
			"'unknown' and 'dynamically typed' are judged at the top level of an argument (as documented for AllowUnknown / AllowDynamicType); marks at any depth",
			"specs declare RefineResult only when the Impl callback honours it (an inconsistent refinement is documented to panic)",
			"value identity is judged by RawEquals or, failing that, by documented equality plus equal mark sets",
		},
		MinNontrivial: 20000,
	}
}

func (Driver) Batches(tier string) int {
	if tier == "thorough" {
		return 64
	}
	return 16
}

// concretize replaces the dynamic placeholders of a constraint by small concrete types.
func concretize(r *core.Rand, t *model.TNode) *model.TNode {
	switch t.K {
	case model.KDynamic:
		return gen.Type(r, 1+r.Intn(2), gen.TypeOpts{})
	case model.KList, model.KSet, model.KMap:
		return &model.TNode{K: t.K, Elem: concretize(r, t.Elem)}
	case model.KTuple:
		n := &model.TNode{K: model.KTuple, Elems: make([]*model.TNode, len(t.Elems))}
		for i, e := range t.Elems {
			n.Elems[i] = concretize(r, e)
		}
		return n
	case model.KObject:
		n := &model.TNode{K: model.KObject, Attrs: map[string]*model.TNode{}}
		for _, k := range t.AttrNames() {
			n.Attrs[k] = concretize(r, t.Attrs[k])
		}
		return n
	}
	return t
}

func genConstraint(r *core.Rand) *model.TNode {
	if r.Chance(15, 100) {
		return model.TDynamic
	}
	return gen.Type(r, 1+r.Intn(3), gen.TypeOpts{Dynamic: true})
}

func genParam(r *core.Rand) pspec { return paramWithFlags(genConstraint(r), r.Intn(16)) }

// nonConformingType draws a concrete type that does not conform to tn ("" if none found, e.g. tn is dynamic).
func nonConformingType(r *core.Rand, tn *model.TNode) (cty.Type, bool) {
	for try := 0; try < 12; try++ {
		var cand *model.TNode
		if try%2 == 0 {
			cand = gen.Type(r, 1+r.Intn(2), gen.TypeOpts{})
		} else {
			// a near miss: the constraint's own shape with the placeholders filled in, wrapped or re-typed
			cc := concretize(r, tn)
			switch r.Intn(3) {
			case 0:
				cand = model.ListOf(cc)
			case 1:
				cand = model.TupleOf(cc)
			default:
				cand = model.MapOf(cc)
			}
		}
		if !model.Conforms(cand, tn) {
			return cand.Cty(), true
		}
	}
	return cty.NilType, false
}

var argValOpts = gen.ValueOpts{UnknownPct: 6, NullPct: 6, Refined: true, MaxLen: 3, NoTopNull: true, NoTopUnk: true, SmallNums: true}

// genArg draws one argument for parameter p and names its class.
func genArg(r *core.Rand, p *pspec, calm bool) (cty.Value, string) {
	w := []int{50, 10, 10, 13, 9, 8}
	if calm {
		w = []int{100, 0, 0, 0, 0, 0}
	}
	var v cty.Value
	var class string
	switch r.Weighted(w) {
	case 0:
		v, class = gen.Value(r, concretize(r, p.tn).Cty(), argValOpts), "conforming"
		if r.Chance(1, 12) {
			// a value of the constraint type itself (may keep dynamic placeholders, e.g. an empty list of dynamic)
			v = gen.Value(r, p.ty, argValOpts)
		}
	case 1:
		if ty, ok := nonConformingType(r, p.tn); ok {
			switch r.Intn(6) {
			case 0:
				v, class = cty.UnknownVal(ty), "non-conforming-unknown"
			case 1:
				v, class = cty.NullVal(ty), "non-conforming-null"
			default:
				v, class = gen.Value(r, ty, argValOpts), "non-conforming"
			}
		} else {
			v, class = gen.Value(r, concretize(r, p.tn).Cty(), argValOpts), "conforming"
		}
	case 2:
		if r.Chance(1, 4) {
			v, class = cty.NullVal(cty.DynamicPseudoType), "null-of-dynamic"
		} else {
			v, class = cty.NullVal(concretize(r, p.tn).Cty()), "null"
		}
	case 3:
		v, class = gen.Unknown(r, concretize(r, p.tn).Cty(), r.Bool()), "unknown"
		if r.Chance(1, 8) {
			v = cty.UnknownVal(p.ty) // may keep nested placeholders
		}
		if v.Type() == cty.DynamicPseudoType {
			class = "dynamic"
		}
	case 4:
		v, class = cty.DynamicVal, "dynamic"
	default:
		// known at the top, unknown / null inside
		o := argValOpts
		o.UnknownPct, o.NullPct = 35, 20
		v, class = gen.Value(r, concretize(r, p.tn).Cty(), o), "conforming-unknown-inside"
	}
	if r.Chance(30, 100) {
		m := gen.MarkSome(r, v, 50, 35)
		if !m.ContainsMarked() {
			m = v.Mark(gen.Marks[r.Intn(3)])
		}
		if m.IsMarked() {
			class += "+marked"
		} else {
			class += "+deep-marked"
		}
		v = m
	}
	return v, class
}

func genScript(r *core.Rand) *script {
	s := &script{}
	nPos := r.Intn(4)
	for i := 0; i < nPos; i++ {
		s.params = append(s.params, genParam(r))
	}
	if r.Bool() {
		p := genParam(r)
		s.varp = &p
	}
	s.typeBeh = model.TypeBeh(r.Weighted([]int{80, 10, 10}))
	if r.Chance(1, 5) {
		s.typeMode = tmFirstArg
	}
	if r.Chance(12, 100) {
		s.retType = cty.DynamicPseudoType
	} else {
		s.retType = gen.Type(r, 1+r.Intn(2), gen.TypeOpts{Dynamic: true}).Cty()
	}
	s.implMode = r.Weighted([]int{55, 15, 10, 12, 8})
	s.refine = r.Chance(35, 100)
	s.panicKind = r.Intn(nPanicKinds)
	s.viaDesc = r.Chance(1, 8)
	if s.refine && r.Chance(1, 2) {
		// also declare a range refinement; mostly steer the return type to one that has ranges
		s.refineExtra = true
		if r.Chance(3, 4) {
			s.retType = []cty.Type{cty.Number, cty.Number, cty.List(cty.String), cty.Map(cty.Number), cty.List(cty.DynamicPseudoType),
				cty.List(cty.List(cty.Bool))}[r.Intn(6)]
		}
	}
	// scripted Impl value
	vo := gen.ValueOpts{UnknownPct: 10, NullPct: 8, Refined: true, MaxLen: 3, SmallNums: true, NoTopNull: s.refine}
	if r.Chance(3, 4) {
		s.implVal = gen.Value(r, s.retType, vo)
	} else {
		switch r.Intn(5) {
		case 0:
			s.implVal = cty.DynamicVal
		default:
			s.implVal = gen.Value(r, gen.Type(r, 1+r.Intn(2), gen.TypeOpts{}).Cty(), vo)
		}
	}
	if r.Chance(15, 100) {
		s.implVal = gen.MarkSome(r, s.implVal, 50, 30)
	}
	return s
}

func genArgs(r *core.Rand, s *script) ([]cty.Value, []string) {
	nPos := len(s.params)
	var n int
	switch {
	case r.Chance(3, 10):
		n = r.Intn(7)
	case s.varp == nil:
		n = nPos
	default:
		n = nPos + r.Intn(7-nPos)
	}
	calm := r.Chance(1, 4)
	if s.varp != nil && r.Chance(1, 25) {
		// a long variadic tail: per-argument bookkeeping kept in a machine word (bit sets of 32 or 64 flags,
		// small fixed arrays) only goes wrong beyond its width
		n = nPos + []int{15, 16, 17, 30, 31, 32, 33, 34, 40, 63, 64, 65, 66, 70}[r.Intn(14)]
		calm = r.Chance(3, 4)
	}
	args := make([]cty.Value, n)
	classes := make([]string, n)
	for i := range args {
		p := s.paramFor(i)
		if p == nil {
			// surplus argument of a non-variadic function: anything
			args[i], classes[i] = gen.Value(r, gen.Type(r, 2, gen.TypeOpts{}).Cty(), argValOpts), "surplus"
			continue
		}
		args[i], classes[i] = genArg(r, p, calm)
	}
	return args, classes
}

func (Driver) Run(c *core.Ctx) {
	n := int64(c.N(60000, 400000))
	for i := int64(0); i < n; i++ {
		if !c.Want(i) {
			continue
		}
		r := c.RNG(i)
		s := genScript(r)
		args, classes := genArgs(r, s)
		runCase(c, i, s, args, classes, "generated")
	}
	// histories over two specifications declared from one table of parameters (shared.go)
	for j := int64(0); j < n/16; j++ {
		idx := 5_000_000_000 + j
		if !c.Want(idx) {
			continue
		}
		runSharedTable(c, idx, c.RNG(idx))
	}
	if c.Batch == 0 {
		runCorpus(c, 1_000_000_000)
	}
	runFocusEnumeration(c, 2_000_000_000)
	runPairEnumeration(c, 3_000_000_000)
}
