package c10

import (
	"strings"

	"github.com/zclconf/go-cty/cty"

	"verif/harness/core"
	"verif/harness/gen"
	"verif/harness/model"
)

// P builds a parameter; flags is a subset of the letters n(ull) u(nknown) d(ynamic) m(arked).
func P(tn *model.TNode, flags string) pspec {
	b := 0
	if strings.Contains(flags, "n") {
		b |= 1
	}
	if strings.Contains(flags, "u") {
		b |= 2
	}
	if strings.Contains(flags, "d") {
		b |= 4
	}
	if strings.Contains(flags, "m") {
		b |= 8
	}
	return paramWithFlags(tn, b)
}

func vp(p pspec) *pspec { return &p }

type corpusCase struct {
	name string
	s    script
	args []cty.Value
}

var (
	tStr     = model.TString
	tNum     = model.TNumber
	tDyn     = model.TDynamic
	tListStr = model.ListOf(model.TString)
	tListDyn = model.ListOf(model.TDynamic)
	tMapDyn  = model.MapOf(model.TDynamic)

	m1, m2, m3 = gen.Marks[0], gen.Marks[1], gen.Marks[2]
)

func str(x string) cty.Value { return cty.StringVal(x) }
func num(i int64) cty.Value  { return cty.NumberIntVal(i) }
func list(vs ...cty.Value) cty.Value {
	return cty.ListVal(vs)
}

// okScript: Type returns string, Impl returns "r".
func okScript(params []pspec, varp *pspec) script {
	return script{params: params, varp: varp, retType: cty.String, implVal: str("r")}
}

func corpus() []corpusCase {
	var cs []corpusCase
	add := func(name string, s script, args ...cty.Value) { cs = append(cs, corpusCase{name, s, args}) }
	with := func(s script, f func(*script)) script { f(&s); return s }

	// --- F-08: the index of a non-conforming variadic argument (function.go, variadic loop, NewArgError(i, ...)) ---
	add("F-08 witness: 2 positional + variadic number, 4th argument a bool",
		okScript([]pspec{P(tNum, ""), P(tNum, "")}, vp(P(tNum, ""))), num(1), num(2), num(3), cty.True)
	add("F-08 variant: 1 positional string + variadic list(string), 3rd argument a number",
		okScript([]pspec{P(tStr, "")}, vp(P(tListStr, ""))), str("a"), list(str("x")), num(5))
	add("F-08 variant: 3 positional + variadic, first variadic argument non-conforming",
		okScript([]pspec{P(tNum, ""), P(tStr, ""), P(tNum, "")}, vp(P(tStr, ""))), num(1), str("a"), num(2), cty.False)
	add("F-08 contrast: null variadic argument (index is computed correctly there)",
		okScript([]pspec{P(tNum, "")}, vp(P(tNum, ""))), num(1), cty.NullVal(cty.Number))
	add("F-08 contrast: no positional parameters, non-conforming variadic argument",
		okScript(nil, vp(P(tNum, ""))), num(1), cty.True)
	add("variadic arguments all conforming", okScript([]pspec{P(tNum, ""), P(tNum, "")}, vp(P(tNum, ""))), num(1), num(2), num(3), num(4))
	add("variadic parameter without variadic arguments", okScript([]pspec{P(tNum, "")}, vp(P(tNum, ""))), num(1))

	// --- arity ---
	add("no parameters, no arguments", okScript(nil, nil))
	add("no parameters, one argument", okScript(nil, nil), num(1))
	add("too few arguments", okScript([]pspec{P(tNum, ""), P(tNum, "")}, nil), num(1))
	add("too many arguments", okScript([]pspec{P(tNum, "")}, nil), num(1), num(2))
	add("too few arguments for a variadic function", okScript([]pspec{P(tNum, ""), P(tNum, "")}, vp(P(tNum, ""))), num(1))
	add("variadic only, zero arguments", okScript(nil, vp(P(tNum, ""))))

	// --- both an offending argument and a not-allowed dynamic argument: either reaction is acceptable ---
	add("dynamic first, null second", okScript([]pspec{P(tStr, ""), P(tStr, "")}, nil), cty.DynamicVal, cty.NullVal(cty.String))
	add("null first, dynamic second", okScript([]pspec{P(tStr, ""), P(tStr, "")}, nil), cty.NullVal(cty.String), cty.DynamicVal)
	add("dynamic positional, non-conforming variadic", okScript([]pspec{P(tStr, "")}, vp(P(tStr, ""))), cty.DynamicVal, num(1))
	add("null of dynamic type, nulls not allowed", okScript([]pspec{P(tStr, "")}, nil), cty.NullVal(cty.DynamicPseudoType))
	add("null of dynamic type, nulls allowed, dynamic not", okScript([]pspec{P(tStr, "n")}, nil), cty.NullVal(cty.DynamicPseudoType))
	add("null of dynamic type, nulls and dynamic allowed", okScript([]pspec{P(tStr, "nd")}, nil), cty.NullVal(cty.DynamicPseudoType))

	// --- AllowDynamicType with and without AllowUnknown ---
	add("AllowDynamicType without AllowUnknown: Type sees DynamicVal, Impl does not run",
		with(okScript([]pspec{P(tStr, "d")}, nil), func(s *script) { s.refine = true }), cty.DynamicVal)
	add("AllowDynamicType with AllowUnknown: generic identity sees DynamicVal",
		with(okScript([]pspec{P(tDyn, "du")}, nil), func(s *script) { s.typeMode, s.implMode, s.refine = tmFirstArg, imFirstArg, true }), cty.DynamicVal)
	add("dynamic not allowed: neither callback runs", okScript([]pspec{P(tDyn, "u")}, nil), cty.DynamicVal)
	add("dynamic not allowed in the variadic tail", okScript([]pspec{P(tNum, "")}, vp(P(tDyn, "unm"))), num(1), str("a"), cty.DynamicVal)

	// --- marks and the two passes (1.13.1 / 1.15.1 interactions) ---
	add("marked unknown next to a marked dynamic value", okScript([]pspec{P(tStr, ""), P(tStr, "")}, nil),
		cty.UnknownVal(cty.String).Mark(m1), cty.DynamicVal.Mark(m2))
	add("marked dynamic value first, marked known after it", okScript([]pspec{P(tStr, ""), P(tStr, "")}, nil),
		cty.DynamicVal.Mark(m2), str("a").Mark(m3))
	add("marked unknown and marked known, neither flag set", okScript([]pspec{P(tStr, ""), P(tStr, "")}, nil),
		cty.UnknownVal(cty.String).Mark(m1), str("a").Mark(m2))
	add("marked unknown in the variadic tail after a marked known", okScript([]pspec{P(tStr, "")}, vp(P(tStr, ""))),
		str("a").Mark(m3), str("b"), cty.UnknownVal(cty.String).Mark(m1))
	add("deep mark, AllowMarked off: callbacks see the unmarked list, result carries the mark",
		okScript([]pspec{P(tListStr, "")}, nil), list(str("a").Mark(m1), str("b")))
	add("deep mark, AllowMarked on: callbacks see the marked list",
		with(okScript([]pspec{P(tListStr, "m")}, nil), func(s *script) { s.typeMode, s.implMode = tmFirstArg, imFirstArg }), list(str("a").Mark(m1), str("b")))
	add("one parameter handles marks, the other does not",
		okScript([]pspec{P(tListStr, "m"), P(tListStr, "")}, nil), list(str("a").Mark(m1)), list(str("b").Mark(m2)).Mark(m3))
	add("marked null where nulls are not allowed", okScript([]pspec{P(tStr, "")}, nil), cty.NullVal(cty.String).Mark(m1))
	add("marked null where nulls are allowed", okScript([]pspec{P(tStr, "n")}, nil), cty.NullVal(cty.String).Mark(m1))
	add("marked non-conforming argument", okScript([]pspec{P(tStr, "m")}, nil), num(1).Mark(m1))
	add("deep marks in an object inside a tuple",
		okScript([]pspec{P(tDyn, "")}, nil), cty.TupleVal([]cty.Value{cty.ObjectVal(map[string]cty.Value{"a": str("x").Mark(m1), "b": num(1)}), num(2).Mark(m2)}))
	add("Impl result carries its own marks in addition to the collected ones",
		with(okScript([]pspec{P(tStr, "")}, nil), func(s *script) { s.implVal = str("r").Mark(m3) }), str("a").Mark(m1))

	// --- unknown short-circuit and refinement ---
	add("unknown short-circuit, typed, refined", with(okScript([]pspec{P(tStr, "")}, nil), func(s *script) { s.refine = true }), cty.UnknownVal(cty.String))
	add("unknown short-circuit, Type answers dynamic, refinement declared",
		with(okScript([]pspec{P(tStr, "")}, nil), func(s *script) { s.refine, s.retType, s.implVal = true, cty.DynamicPseudoType, num(1) }), cty.UnknownVal(cty.String))
	add("refined unknown argument where unknowns are allowed",
		with(okScript([]pspec{P(tStr, "u")}, nil), func(s *script) { s.typeMode, s.implMode, s.refine = tmFirstArg, imFirstArg, true }), cty.UnknownVal(cty.String).Refine().StringPrefix("ab").NewValue())
	add("Impl returns a refined unknown, refinement declared",
		with(okScript([]pspec{P(tNum, "")}, nil), func(s *script) {
			s.refine, s.retType = true, cty.Number
			s.implVal = cty.UnknownVal(cty.Number).Refine().NumberRangeLowerBound(cty.Zero, true).NewValue()
		}), num(1))
	add("Impl returns DynamicVal for a dynamic checked type, refinement declared",
		with(okScript([]pspec{P(tNum, "")}, nil), func(s *script) { s.refine, s.retType, s.implVal = true, cty.DynamicPseudoType, cty.DynamicVal }), num(1))
	add("unknown inside a known list is not an unknown argument", okScript([]pspec{P(tListStr, "")}, nil), list(cty.UnknownVal(cty.String), str("a")))

	// --- conformance of arguments with nested placeholders ---
	add("map(dynamic) parameter, map(string) argument", okScript([]pspec{P(tMapDyn, "")}, nil), cty.MapVal(map[string]cty.Value{"k": str("v")}))
	add("map(dynamic) parameter, unknown map(dynamic) argument", okScript([]pspec{P(tMapDyn, "")}, nil), cty.UnknownVal(cty.Map(cty.DynamicPseudoType)))
	add("map(dynamic) parameter, list argument", okScript([]pspec{P(tMapDyn, "")}, nil), list(str("a")))
	add("list(string) parameter, unknown list(dynamic) argument", okScript([]pspec{P(tListStr, "u")}, nil), cty.UnknownVal(cty.List(cty.DynamicPseudoType)))
	add("list(dynamic) parameter, empty list(dynamic) argument", okScript([]pspec{P(tListDyn, "")}, nil), cty.ListValEmpty(cty.DynamicPseudoType))

	// --- callbacks that fail ---
	add("Type errors", with(okScript([]pspec{P(tStr, "")}, nil), func(s *script) { s.typeBeh = model.TypeErrors }), str("a"))
	add("Impl errors", with(okScript([]pspec{P(tStr, "")}, nil), func(s *script) { s.implMode = imErrors }), str("a"))
	add("Impl errors, marks collected, refinement declared",
		with(okScript([]pspec{P(tStr, "")}, nil), func(s *script) { s.implMode, s.refine = imErrors, true }), str("a").Mark(m1))
	for k := 0; k < nPanicKinds; k++ {
		k := k
		add("Type panics: "+panicKindNames[k], with(okScript([]pspec{P(tStr, "")}, nil), func(s *script) { s.typeBeh, s.panicKind = model.TypePanics, k }), str("a"))
		add("Impl panics: "+panicKindNames[k], with(okScript([]pspec{P(tStr, "")}, nil), func(s *script) { s.implMode, s.panicKind, s.refine = imPanics, k, k%2 == 0 }), str("a"))
	}
	add("Impl returns a number for a string", with(okScript([]pspec{P(tStr, "")}, nil), func(s *script) { s.implVal = num(1) }), str("a"))
	add("Impl returns DynamicVal for a string", with(okScript([]pspec{P(tStr, "")}, nil), func(s *script) { s.implVal, s.refine = cty.DynamicVal, true }), str("a"))
	add("Impl returns a non-conforming value, marks collected",
		with(okScript([]pspec{P(tStr, "")}, nil), func(s *script) { s.implVal, s.refine = num(1), true }), str("a").Mark(m1))
	add("Impl returns list(string) for list(dynamic)",
		with(okScript([]pspec{P(tStr, "")}, nil), func(s *script) { s.retType, s.implVal = cty.List(cty.DynamicPseudoType), list(str("x")) }), str("a"))
	add("Impl returns list(dynamic) unknown for list(string)",
		with(okScript([]pspec{P(tStr, "")}, nil), func(s *script) {
			s.retType, s.implVal = cty.List(cty.String), cty.UnknownVal(cty.List(cty.DynamicPseudoType))
		}), str("a"))
	add("Impl returns NilVal", with(okScript([]pspec{P(tStr, "")}, nil), func(s *script) { s.implMode = imNil }), str("a"))
	add("Impl returns NilVal, marks collected, refinement declared",
		with(okScript([]pspec{P(tStr, "")}, nil), func(s *script) { s.implMode, s.refine = imNil, true }), str("a").Mark(m1))
	// --- cty.NilVal with a nil error is not a result (F-110a: it passed the conformance assertion when the checked type is dynamic) ---
	nilDyn := func(f func(*script)) script {
		return with(okScript([]pspec{P(tStr, "")}, nil), func(s *script) { s.implMode, s.retType = imNil, cty.DynamicPseudoType; f(s) })
	}
	add("F-110a witness: Impl returns NilVal, checked type dynamic", nilDyn(func(s *script) {}), str("a"))
	add("F-110a witness: Impl returns NilVal, checked type dynamic, marks collected", nilDyn(func(s *script) {}), str("a").Mark(m1))
	add("F-110a witness: Impl returns NilVal, checked type dynamic, marks collected, refinement declared (Go panic)", nilDyn(func(s *script) { s.refine = true }), str("a").Mark(m1))
	add("F-110a witness: Impl returns NilVal, checked type dynamic, refinement declared", nilDyn(func(s *script) { s.refine = true }), str("a"))
	add("F-110a contrast: generic function (type of first argument), Impl returns NilVal",
		with(okScript([]pspec{P(tDyn, "du")}, nil), func(s *script) { s.typeMode, s.implMode = tmFirstArg, imNil }), cty.DynamicVal.Mark(m2))

	// --- range refinements declared next to NotNull ---
	add("number range declared: unknown short-circuit carries it",
		with(okScript([]pspec{P(tStr, "")}, nil), func(s *script) { s.retType, s.implVal, s.refine, s.refineExtra = cty.Number, num(7), true, true }), cty.UnknownVal(cty.String).Mark(m1))
	add("number range declared: known result honours it",
		with(okScript([]pspec{P(tStr, "")}, nil), func(s *script) { s.retType, s.implVal, s.refine, s.refineExtra = cty.Number, num(7), true, true }), str("a"))
	add("length range declared on list(dynamic): unknown short-circuit carries it",
		with(okScript([]pspec{P(tStr, "d")}, nil), func(s *script) {
			s.retType, s.implVal, s.refine, s.refineExtra = cty.List(cty.DynamicPseudoType), list(str("x"), str("y")), true, true
		}), cty.DynamicVal)
	add("described function (WithNewDescriptions) keeps the variadic contract",
		with(okScript([]pspec{P(tNum, "")}, vp(P(tStr, "n"))), func(s *script) { s.viaDesc = true }), num(1), cty.NullVal(cty.String), cty.UnknownVal(cty.String).Mark(m1))
	add("described function (WithNewDescriptions), variadic description given",
		with(okScript(nil, vp(P(tStr, ""))), func(s *script) { s.viaDesc = true }), str("a"), cty.NullVal(cty.String))

	add("Impl returns a null, no refinement", with(okScript([]pspec{P(tStr, "")}, nil), func(s *script) { s.implVal = cty.NullVal(cty.String) }), str("a"))
	return cs
}

func runCorpus(c *core.Ctx, base int64) {
	for i, e := range corpus() {
		idx := base + int64(i)
		if !c.Want(idx) {
			continue
		}
		s := e.s
		classes := make([]string, len(e.args))
		for k := range classes {
			classes[k] = "corpus"
		}
		runCase(c, idx, &s, e.args, classes, "corpus")
		c.Count("corpus-cases")
	}
}

// focusArgs is the catalogue of argument classes used by the enumerations
// (relative to a list(string) / dynamic / list(dynamic) constraint).
func focusArgs() ([]cty.Value, []string) {
	ls := cty.List(cty.String)
	vals := []cty.Value{
		list(str("a")),
		list(str("a").Mark(m1)),
		list(str("a")).Mark(m2),
		list(cty.UnknownVal(cty.String)),
		cty.NullVal(ls),
		cty.NullVal(ls).Mark(m1),
		cty.NullVal(cty.DynamicPseudoType),
		cty.UnknownVal(ls),
		cty.UnknownVal(ls).RefineNotNull().Mark(m3),
		cty.DynamicVal,
		cty.DynamicVal.Mark(m1),
		str("x"),
		str("x").Mark(m2),
		cty.UnknownVal(cty.String),
		cty.NullVal(cty.String),
		list(num(1)),
		cty.UnknownVal(cty.List(cty.DynamicPseudoType)),
	}
	names := []string{"known", "known+deep-marked", "known+marked", "known-unknown-inside", "null", "null+marked", "null-of-dynamic",
		"unknown", "unknown-refined+marked", "dynamic", "dynamic+marked", "string", "string+marked", "unknown-string", "null-string",
		"list-of-number", "unknown-list-of-dynamic"}
	return vals, names
}

// focusScripts are the callback scripts of the focus enumeration.
func focusScripts() []script {
	base := script{retType: cty.String, implVal: str("r")}
	mk := func(f func(*script)) script { s := base; f(&s); return s }
	return []script{
		mk(func(s *script) {}),
		mk(func(s *script) { s.refine = true }),
		mk(func(s *script) { s.implVal = num(5) }),
		mk(func(s *script) { s.implMode = imErrors }),
		mk(func(s *script) { s.implMode, s.panicKind = imPanics, 0 }),
		mk(func(s *script) { s.typeBeh = model.TypeErrors }),
		mk(func(s *script) { s.typeBeh, s.panicKind = model.TypePanics, 2 }),
		mk(func(s *script) { s.typeMode, s.implMode, s.refine = tmFirstArg, imFirstArg, true }),
		mk(func(s *script) { s.retType, s.implVal, s.refine, s.refineExtra = cty.Number, num(5), true, true }),
	}
}

// runFocusEnumeration: one focus parameter in four spec shapes (sole positional,
// sole variadic, variadic after two positional parameters and one conforming
// variadic argument, first of two positional) x three constraints x all 16 flag
// combinations x 17 argument classes x 9 callback scripts. Seed-independent,
// split between the batches.
func runFocusEnumeration(c *core.Ctx, base int64) {
	vals, names := focusArgs()
	scripts := focusScripts()
	constraints := []*model.TNode{tListStr, tDyn, tListDyn}
	q := P(tNum, "")
	okP := list(str("a"))
	var k int64
	for shape := 0; shape < 4; shape++ {
		for _, tn := range constraints {
			for bits := 0; bits < 16; bits++ {
				for ai, x := range vals {
					for si := range scripts {
						k++
						idx := base + k
						if !c.Mine(k) || !c.Want(idx) {
							continue
						}
						s := scripts[si]
						p := paramWithFlags(tn, bits)
						var args []cty.Value
						var classes []string
						switch shape {
						case 0:
							s.params, args, classes = []pspec{p}, []cty.Value{x}, []string{names[ai]}
						case 1:
							s.varp, args, classes = &p, []cty.Value{x}, []string{names[ai]}
						case 2:
							s.params, s.varp = []pspec{q, q}, &p
							args, classes = []cty.Value{num(1), num(2), okP, x}, []string{"filler", "filler", "filler", names[ai]}
						default:
							s.params = []pspec{p, q}
							args, classes = []cty.Value{x, num(1)}, []string{names[ai], "filler"}
						}
						runCase(c, idx, &s, args, classes, "focus-enumeration")
					}
				}
			}
		}
	}
	c.Exhaustive("one focus parameter: 4 spec shapes x {list(string), dynamic, list(dynamic)} x 16 flag combinations x 17 argument classes x 9 callback scripts")
}

// runPairEnumeration: two neighbouring list(string) parameters, all 16x16 flag
// combinations x 8x8 argument classes x 2 scripts (with and without
// refinement): the interactions between the two passes.
func runPairEnumeration(c *core.Ctx, base int64) {
	vals, names := focusArgs()
	pick := []int{0, 1, 5, 8, 9, 10, 11, 4}
	scripts := focusScripts()[:2]
	var k int64
	for b1 := 0; b1 < 16; b1++ {
		for b2 := 0; b2 < 16; b2++ {
			for _, i1 := range pick {
				for _, i2 := range pick {
					for si := range scripts {
						k++
						idx := base + k
						if !c.Mine(k) || !c.Want(idx) {
							continue
						}
						s := scripts[si]
						s.params = []pspec{paramWithFlags(tListStr, b1), paramWithFlags(tListStr, b2)}
						runCase(c, idx, &s, []cty.Value{vals[i1], vals[i2]}, []string{names[i1], names[i2]}, "pair-enumeration")
					}
				}
			}
		}
	}
	c.Exhaustive("two neighbouring list(string) parameters: 16x16 flag combinations x 8x8 argument classes x {plain, RefineResult}")
}
