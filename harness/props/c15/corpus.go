package c15

import (
	"math"
	"math/big"

	"github.com/zclconf/go-cty/cty"

	"verif/harness/core"
	"verif/harness/gen"
)

// The corpus is fixed and seed-independent. It is run in batch 0 of every run
// and holds boundary cases written from reading cty/json/*.go plus the witness
// of every genuine defect found by this driver (fixed or listed), so that a
// repaired defect is re-detected if it ever returns.
//
// Case indices: corpusBase + 1000*entry + constraint number (values),
// corpusBase + 500_000 + k (poison), corpusBase + 600_000 + k (documents).

func n(i int64) cty.Value   { return cty.NumberIntVal(i) }
func s(x string) cty.Value  { return cty.StringVal(x) }
func f(x float64) cty.Value { return cty.NumberFloatVal(x) }
func p(x string) cty.Value  { return cty.MustParseNumberVal(x) }

func obj(kv ...any) cty.Value {
	m := map[string]cty.Value{}
	for i := 0; i+1 < len(kv); i += 2 {
		m[kv[i].(string)] = kv[i+1].(cty.Value)
	}
	return cty.ObjectVal(m)
}

func mp(kv ...any) cty.Value {
	m := map[string]cty.Value{}
	for i := 0; i+1 < len(kv); i += 2 {
		m[kv[i].(string)] = kv[i+1].(cty.Value)
	}
	return cty.MapVal(m)
}

func list(vs ...cty.Value) cty.Value { return cty.ListVal(vs) }
func set(vs ...cty.Value) cty.Value  { return cty.SetVal(vs) }
func tup(vs ...cty.Value) cty.Value  { return cty.TupleVal(vs) }

type valueEntry struct {
	v     cty.Value
	extra []cty.Type // constraints in addition to the exact type and every single-placeholder constraint
}

func pow2f(k int, prec uint) *big.Float {
	x := new(big.Float).SetPrec(prec).SetInt64(1)
	return x.SetMantExp(x, k)
}

func corpusValues() []valueEntry {
	var es []valueEntry
	add := func(v cty.Value, extra ...cty.Type) { es = append(es, valueEntry{v, extra}) }
	dyn := cty.DynamicPseudoType

	// --- numbers: every finite member of the shared pool, alone
	for _, nc := range gen.NumberPool() {
		if nc.V.AsBigFloat().IsInf() {
			continue
		}
		add(nc.V)
	}
	// F-32 (fixed by c15-whole-number-text.patch): whole numbers whose shortest
	// round-trip text denotes another integer.
	for _, x := range []float64{1e23, 1e300, -1e300, 1e22, 1e21, 9007199254740993, 1 << 53, (1 << 53) + 2, 1.2345678901234567e40, math.MaxFloat64, -math.MaxFloat64,
		math.MaxFloat32, 4.611686018427388e18, 9.223372036854776e18, 1.8446744073709552e19, 123456789012345680000} {
		add(f(x))
	}
	add(cty.NumberVal(new(big.Float).SetPrec(24).SetFloat64(16777216 * 1e10))) // whole, 24-bit mantissa
	add(cty.NumberVal(pow2f(600, 512)))
	add(cty.NumberVal(pow2f(600, 53)))
	add(cty.NumberVal(new(big.Float).SetPrec(64).SetUint64(math.MaxUint64)))
	add(cty.NumberVal(new(big.Float).SetPrec(100).Add(pow2f(99, 100), big.NewFloat(1)))) // 2^99+1 at 100 bits
	add(p("1e300"))                                                                      // whole at 512 bits, not exactly 10^300; its own text re-parses to itself
	add(p("123456789012345678901234567890123456789012345678901234567890"))
	add(f(1e23).Multiply(f(1e23)))
	add(f(1e300).Add(n(1)))
	// in collections (also as set members and under placeholders)
	add(list(f(1e23), n(1)), cty.List(dyn))
	add(set(f(1e23), p("100000000000000000000000")), cty.Set(dyn)) // two different whole numbers sharing one shortest text
	add(mp("a", f(1e300)), cty.Map(dyn))
	add(obj("a", f(1e23), "b", tup(f(-1e300))))
	// fractions of several precisions
	for _, v := range []cty.Value{f(0.1), f(0.1).Add(f(0.2)), p("0.1"), f(math.SmallestNonzeroFloat64), f(5e-324), p("1e-300"), p("0.000000000000000000000000000000000000001"),
		cty.NumberVal(new(big.Float).SetPrec(24).SetFloat64(0.1)), cty.NumberVal(big.NewFloat(1.5)), f(math.Copysign(0, -1)), n(1).Divide(n(3)), f(1).Divide(f(3)),
		p("0.3333333333333333333333333333333333333333333333333333333333333333333333")} {
		add(v)
	}

	// --- strings
	for _, x := range []string{"", "a", "é", "e\u0301", "Å", "ﬁ", "<script>&amp;</script>", "  ", "\x00\x1f\x7f", "\"\\/", "\U0001F468‍\U0001F469\U0001F3FD",
		"�", "￿", "\U0010FFFF", "null", "true", "1", "{\"value\":1,\"type\":\"number\"}", "각", "ṩ", "\r\n\t"} {
		add(s(x))
	}
	add(cty.True)
	add(cty.False)

	// --- nulls of every kind
	for _, t := range []cty.Type{cty.String, cty.Number, cty.Bool, dyn, cty.List(cty.String), cty.Set(cty.Number), cty.Map(cty.Bool), cty.EmptyTuple, cty.EmptyObject,
		cty.Tuple([]cty.Type{cty.String, cty.Number}), cty.Object(map[string]cty.Type{"a": cty.String}), cty.List(dyn), cty.Map(dyn), cty.Object(map[string]cty.Type{"a": dyn})} {
		add(cty.NullVal(t))
	}

	// --- empty collections and structural values
	add(cty.ListValEmpty(cty.String))
	add(cty.ListValEmpty(dyn))
	add(cty.SetValEmpty(cty.Number))
	add(cty.MapValEmpty(cty.Bool))
	add(cty.MapValEmpty(dyn))
	add(cty.EmptyTupleVal)
	add(cty.EmptyObjectVal)
	add(list(cty.NullVal(cty.String), s("a")))
	add(set(cty.NullVal(cty.String), s("a")))
	add(set(n(1), n(2), n(3)))
	add(set(s("é"), s("e")))
	add(set(list(n(1)), list(n(1), n(2)), cty.ListValEmpty(cty.Number)))
	add(mp("a", n(1), "é", n(2), "", n(3), "value", n(4), "type", n(5)))
	add(obj("value", n(1), "type", s("string")), dyn) // an object that looks like the type wrapper
	add(mp("value", s("x"), "type", s("number")), dyn)
	add(obj("é", n(1), "", s("x"), "long-key", cty.True))
	add(tup(n(1), s("a"), cty.True, cty.NullVal(dyn)))
	add(tup(cty.NullVal(dyn)))
	add(obj("a", cty.NullVal(dyn)))
	add(list(list(list(s("deep")))))
	add(obj("a", list(mp("k", set(n(1), n(2)))), "b", tup(n(1), s("x"))))
	add(list(obj("a", n(1), "b", cty.NullVal(cty.String)), obj("a", n(2), "b", s("y"))))
	add(mp("a", tup(n(1), s("x")), "b", tup(n(2), s("y"))))
	add(set(tup(n(1), s("x")), tup(n(1), s("y"))))
	add(set(obj("a", n(1)), obj("a", cty.NullVal(cty.Number))))

	// --- k2: placeholders reached through known, non-empty parts
	add(list(mp("a", n(1)), mp("b", n(2))), cty.List(cty.Map(dyn)), cty.List(dyn))
	add(obj("a", set(cty.True), "b", n(1)), cty.Object(map[string]cty.Type{"a": cty.Set(dyn), "b": dyn}))
	add(tup(list(n(1)), mp("k", s("v"))), cty.Tuple([]cty.Type{cty.List(dyn), cty.Map(dyn)}), cty.Tuple([]cty.Type{dyn, dyn}))
	add(set(list(s("a")), list(s("b"), s("c"))), cty.Set(cty.List(dyn)), cty.Set(dyn))
	add(mp("k", obj("a", list(n(1)))), cty.Map(cty.Object(map[string]cty.Type{"a": cty.List(dyn)})), cty.Map(cty.Object(map[string]cty.Type{"a": dyn})))

	// --- k3: F-33 / F-34 witnesses (type lost below null / empty parts, members of one collection resolving differently)
	add(list(mp("a", n(1)), cty.MapValEmpty(cty.Number)), cty.List(cty.Map(dyn)))                                                 // F-33: decoder panicked on the encoder's own output
	add(set(mp("a", n(1)), cty.MapValEmpty(cty.Number)), cty.Set(cty.Map(dyn)))                                                   // F-33 (set)
	add(mp("x", list(s("a")), "y", cty.ListValEmpty(cty.String)), cty.Map(cty.List(dyn)))                                         // F-33 (map)
	add(list(list(n(1)), cty.NullVal(cty.List(cty.Number))), cty.List(cty.List(dyn)))                                             // F-33 via a null member
	add(list(tup(n(1)), tup(cty.NullVal(cty.Number))), cty.List(cty.Tuple([]cty.Type{dyn})))                                      // null below a tuple: typed wrapper is written, all fine (k2)
	add(cty.NullVal(cty.Object(map[string]cty.Type{"a": cty.Set(cty.Bool)})), cty.Object(map[string]cty.Type{"a": cty.Set(dyn)})) // F-34
	add(cty.ListValEmpty(cty.List(cty.String)), cty.List(cty.List(dyn)))                                                          // F-34 (empty)
	add(cty.MapValEmpty(cty.Number), cty.Map(dyn))
	add(cty.SetValEmpty(cty.Object(map[string]cty.Type{"a": cty.Number})), cty.Set(cty.Object(map[string]cty.Type{"a": dyn})))
	add(obj("a", cty.NullVal(cty.List(cty.Number))), cty.Object(map[string]cty.Type{"a": cty.List(dyn)}))
	add(tup(cty.ListValEmpty(cty.Bool)), cty.Tuple([]cty.Type{cty.List(dyn)}))
	add(list(cty.ListValEmpty(cty.Bool)), cty.List(cty.List(dyn)))
	return es
}

type poisonEntry struct {
	v    cty.Value
	con  cty.Type
	kind string
}

func corpusPoison() []poisonEntry {
	dyn := cty.DynamicPseudoType
	mark := gen.Marks[0]
	huge := new(big.Float).SetPrec(512).SetInf(false)
	return []poisonEntry{
		{cty.UnknownVal(cty.String), cty.String, "unknown"},
		{cty.UnknownVal(cty.String), dyn, "unknown"},
		{cty.DynamicVal, dyn, "unknown"},
		{cty.UnknownVal(cty.Number).RefineNotNull(), cty.Number, "unknown"},
		{list(cty.UnknownVal(cty.Number)), cty.List(cty.Number), "unknown"},
		{list(cty.UnknownVal(cty.Number)), cty.List(dyn), "unknown"},
		{set(cty.UnknownVal(cty.Number), n(1)), cty.Set(cty.Number), "unknown"},
		{mp("a", cty.UnknownVal(cty.Bool)), cty.Map(cty.Bool), "unknown"},
		{tup(n(1), cty.DynamicVal), cty.Tuple([]cty.Type{cty.Number, dyn}), "unknown"},
		{obj("a", obj("b", cty.UnknownVal(cty.List(cty.String)))), cty.Object(map[string]cty.Type{"a": dyn}), "unknown"},
		{cty.UnknownVal(cty.List(cty.String)), cty.List(dyn), "unknown"},
		{s("x").Mark(mark), cty.String, "marked"},
		{s("x").Mark(mark), dyn, "marked"},
		{cty.NullVal(cty.String).Mark(mark), cty.String, "marked"},
		{list(s("x").Mark(mark)), cty.List(cty.String), "marked"},
		{list(s("x")).Mark(mark), cty.List(cty.String), "marked"},
		{mp("a", n(1).Mark(mark)), cty.Map(dyn), "marked"},
		{obj("a", tup(cty.True.Mark(mark))), cty.Object(map[string]cty.Type{"a": cty.Tuple([]cty.Type{cty.Bool})}), "marked"},
		{set(n(1)).Mark(mark), cty.Set(cty.Number), "marked"},
		{cty.EmptyObjectVal.Mark(mark), cty.EmptyObject, "marked"},
		{cty.UnknownVal(cty.Number).Mark(mark), cty.Number, "marked"},
		{cty.PositiveInfinity, cty.Number, "infinite"},
		{cty.NegativeInfinity, cty.Number, "infinite"},
		{cty.PositiveInfinity, dyn, "infinite"},
		{f(math.Inf(1)), cty.Number, "infinite"},
		{f(math.Inf(-1)), cty.Number, "infinite"},
		{f(math.Inf(-1)), dyn, "infinite"},
		{cty.NumberVal(huge), cty.Number, "infinite"},
		{cty.NumberVal(new(big.Float).SetPrec(24).SetInf(true)), cty.Number, "infinite"},
		{list(n(1), f(math.Inf(1))), cty.List(cty.Number), "infinite"},
		{list(n(1), cty.PositiveInfinity), cty.List(dyn), "infinite"},
		{set(cty.NegativeInfinity), cty.Set(cty.Number), "infinite"},
		{mp("a", f(math.Inf(1))), cty.Map(cty.Number), "infinite"},
		{obj("a", tup(f(math.Inf(-1)))), dyn, "infinite"},
		{f(math.MaxFloat64).Multiply(f(math.MaxFloat64)).Multiply(cty.PositiveInfinity), cty.Number, "infinite"},
		{n(1).Divide(cty.Zero), cty.Number, "infinite"},
	}
}

// corpusDocs: documents written from reading type_implied.go / unmarshal.go.
func corpusDocs() []string {
	return []string{
		`null`, `true`, `false`, `0`, `-0`, `1`, `"x"`, `""`, `[]`, `{}`, `[null]`, `{"a":null}`, ` [ 1 , "a" , true , null ] `,
		`{"a":1,"b":[1,2,{"c":null}],"c":{"d":{}}}`,
		`[[[[[[[[[[1]]]]]]]]]]`,
		`1e2`, `1E+2`, `100e-2`, `1.50`, `-0.0e0`, `0.1`, `1e-7`, `1e300`, `1e23`, `1E-300`, `5e-324`, `1.7976931348623157e308`,
		`9223372036854775807`, `9223372036854775808`, `18446744073709551616`, `9007199254740993`, `0.12345678905`,
		`123456789012345678901234567890123456789.5`, `1e350`, `-1e-350`, `0E-350`,
		`3.141592653589793238462643383279502884197169399375105820974944592307816406286`,
		"\"e\u0301\"", `"é"`, `"👍"`, `"\u0000"`, `"\/"`, `"Å"`,
		`{"value":1,"type":"number"}`, `{"type":"number","value":1}`, `{"value":null,"type":"dynamic"}`,
		"{\"e\u0301\":1}", "{\"é\":1}", `{"é":[1]}`, "{\"a\":{\"e\u0301\":null}}", "[{\"\u1100\u1161\u11a8\":true}]",
		`{"a":1,"a":1}`, `{"a":1,"a":1.0}`, `{"a":1,"a":1e0,"a":10e-1}`, `{"a":[1,{"b":2}],"a":[1,{"b":2}]}`,
		"{\"é\":1,\"e\u0301\":1}", "{\"e\u0301\":\"x\",\"é\":\"x\"}",
		`{"a":1,"a":2}`, `{"a":1,"a":"x"}`, "{\"é\":1,\"e\u0301\":\"x\"}", `{"a":{"b":1},"a":{"c":1}}`,
		`{"":0}`, `{"":{"":{"":null}}}`, `[{"a":1},{}]`, `[{"a":1},{"a":"x"}]`, `[[],[1],[[]]]`,
		"\t\r\n [\n1\r\n,\t2 ] \n",
	}
}

func runCorpus(c *core.Ctx, base int64) {
	for e, ve := range corpusValues() {
		t := ve.v.Type()
		cons := append([]cty.Type{t}, gen.SinglePlaceholderConstraints(t)...)
		cons = append(cons, ve.extra...)
		seen := []cty.Type{}
	next:
		for k, con := range cons {
			for _, s := range seen {
				if s.Equals(con) {
					continue next
				}
			}
			seen = append(seen, con)
			idx := base + int64(e)*1000 + int64(k)
			if !c.Want(idx) {
				continue
			}
			c.Count("corpus:value-case")
			roundTrip(c, idx, ve.v, con, k == 0)
		}
	}
	for k, pe := range corpusPoison() {
		idx := base + 500_000 + int64(k)
		if !c.Want(idx) {
			continue
		}
		c.Count("corpus:poison-case")
		c.Count("poison:" + pe.kind)
		poisonCase(c, idx, pe.v, pe.con, pe.kind)
	}
	for k, d := range corpusDocs() {
		idx := base + 600_000 + int64(k)
		if !c.Want(idx) {
			continue
		}
		c.Count("corpus:document-case")
		checkDoc(c, idx, []byte(d))
	}
}
