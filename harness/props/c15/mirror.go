package c15

import (
	"bytes"
	"encoding/json"
	"fmt"
	"io"
	"math/big"
	"sort"

	"github.com/zclconf/go-cty/cty"

	"verif/harness/model"
	"verif/harness/mon"
)

// plainDecode reads b with the standard library only (numbers kept as text).
func plainDecode(b []byte) (any, error) {
	dec := json.NewDecoder(bytes.NewReader(b))
	dec.UseNumber()
	var j any
	if err := dec.Decode(&j); err != nil {
		return nil, err
	}
	if _, err := dec.Token(); err != io.EOF {
		return nil, fmt.Errorf("trailing data after the JSON value")
	}
	return j, nil
}

// parseTypeJSON reads the documented JSON form of a type (docs/types.md,
// Type.MarshalJSON doc) from an already plain-decoded tree. Independent of
// Type.UnmarshalJSON.
func parseTypeJSON(j any) (*model.TNode, error) {
	switch x := j.(type) {
	case string:
		switch x {
		case "bool":
			return model.TBool, nil
		case "number":
			return model.TNumber, nil
		case "string":
			return model.TString, nil
		case "dynamic":
			return model.TDynamic, nil
		}
		return nil, fmt.Errorf("unknown primitive type name %q", x)
	case []any:
		if len(x) < 2 {
			return nil, fmt.Errorf("complex type description with %d elements", len(x))
		}
		kind, ok := x[0].(string)
		if !ok {
			return nil, fmt.Errorf("complex type kind is not a string")
		}
		switch kind {
		case "list", "set", "map":
			if len(x) != 2 {
				return nil, fmt.Errorf("%s type description with %d elements", kind, len(x))
			}
			e, err := parseTypeJSON(x[1])
			if err != nil {
				return nil, err
			}
			switch kind {
			case "list":
				return model.ListOf(e), nil
			case "set":
				return model.SetOf(e), nil
			}
			return model.MapOf(e), nil
		case "tuple":
			if len(x) != 2 {
				return nil, fmt.Errorf("tuple type description with %d elements", len(x))
			}
			arr, ok := x[1].([]any)
			if !ok {
				return nil, fmt.Errorf("tuple element types are not an array")
			}
			t := &model.TNode{K: model.KTuple, Elems: make([]*model.TNode, len(arr))}
			for i, e := range arr {
				n, err := parseTypeJSON(e)
				if err != nil {
					return nil, err
				}
				t.Elems[i] = n
			}
			return t, nil
		case "object":
			if len(x) != 2 {
				return nil, fmt.Errorf("object type description with %d elements (values never have optional attributes)", len(x))
			}
			obj, ok := x[1].(map[string]any)
			if !ok {
				return nil, fmt.Errorf("object attribute types are not an object")
			}
			t := &model.TNode{K: model.KObject, Attrs: map[string]*model.TNode{}}
			for k, e := range obj {
				n, err := parseTypeJSON(e)
				if err != nil {
					return nil, err
				}
				t.Attrs[k] = n
			}
			return t, nil
		}
		return nil, fmt.Errorf("unknown complex type kind %q", kind)
	}
	return nil, fmt.Errorf("type description is a %T", j)
}

// mirror checks that the plain decoding j of the bytes produced for value v
// against constraint c mirrors v's structure, with the {"value","type"}
// wrapper exactly at the positions where c is the dynamic placeholder and the
// part has a concrete type. It returns ("", "") or (clause, detail).
func mirror(v cty.Value, c cty.Type, j any, path string) (string, string) {
	t := v.Type()
	if c == cty.DynamicPseudoType && t != cty.DynamicPseudoType {
		obj, ok := j.(map[string]any)
		if !ok {
			return "no type wrapper at a dynamic position", fmt.Sprintf("at %q: found %T", path, j)
		}
		tj, okT := obj["type"]
		vj, okV := obj["value"]
		if !okT || !okV || len(obj) != 2 {
			return "type wrapper does not have exactly the keys value and type", fmt.Sprintf("at %q: keys %v", path, keysOf(obj))
		}
		tn, err := parseTypeJSON(tj)
		if err != nil {
			return "type wrapper holds an unreadable type", fmt.Sprintf("at %q: %v", path, err)
		}
		if !model.TypeEq(tn, model.TNodeOf(t)) {
			return "type wrapper names another type", fmt.Sprintf("at %q: wrapper says %s, the part has %s", path, tn, model.TNodeOf(t))
		}
		return mirror(v, t, vj, path)
	}
	if v.IsNull() {
		if j != nil {
			return "null part is not written as null", fmt.Sprintf("at %q: found %T %v", path, j, j)
		}
		return "", ""
	}
	if j == nil {
		return "non-null part is written as null", fmt.Sprintf("at %q: %#v", path, v)
	}
	switch {
	case t == cty.Bool:
		b, ok := j.(bool)
		if !ok || b != v.True() {
			return "bool part mismatch", fmt.Sprintf("at %q: %#v written as %v", path, v, j)
		}
	case t == cty.String:
		s, ok := j.(string)
		if !ok || s != v.AsString() {
			return "string part mismatch", fmt.Sprintf("at %q: %q written as %#v", path, v.AsString(), j)
		}
	case t == cty.Number:
		n, ok := j.(json.Number)
		if !ok {
			return "number part is not a JSON number", fmt.Sprintf("at %q: %#v written as %T %v", path, v, j, j)
		}
		// The token, read as an exact rational, must be the number as the
		// documented serialization spells it: the shortest decimal text that
		// identifies the number at its own precision (math/big's notion, which
		// is also what the documented equality of non-whole numbers is built
		// on); for a whole number the exact integer is accepted as well.
		// (Whether a whole number survives the trip is the round-trip clause's
		// business, see F-32.)
		f := v.AsBigFloat()
		q, ok := new(big.Rat).SetString(string(n))
		if !ok {
			return "number text is not a decimal number", fmt.Sprintf("at %q: %s", path, clipStr(string(n), 80))
		}
		if f.IsInf() {
			return "infinite number written as a JSON number", fmt.Sprintf("at %q: %s", path, clipStr(string(n), 80))
		}
		exact, _ := f.Rat(nil)
		if exact == nil {
			exact = new(big.Rat)
		}
		if q.Cmp(exact) != 0 {
			short, ok2 := new(big.Rat).SetString(f.Text('f', -1))
			if !ok2 || q.Cmp(short) != 0 {
				return "number token is neither the number nor its shortest round-trip text", fmt.Sprintf("at %q: %s (prec %d) written as %s", path, f.Text('g', 50), f.Prec(), clipStr(string(n), 80))
			}
		}
	case t.IsListType() || t.IsTupleType():
		arr, ok := j.([]any)
		if !ok {
			return "sequence part is not a JSON array", fmt.Sprintf("at %q: found %T", path, j)
		}
		if len(arr) != v.LengthInt() {
			return "array length differs", fmt.Sprintf("at %q: %d members written as %d", path, v.LengthInt(), len(arr))
		}
		i := 0
		for it := v.ElementIterator(); it.Next(); {
			_, ev := it.Element()
			var ec cty.Type
			if t.IsTupleType() {
				ec = c.TupleElementTypes()[i]
			} else {
				ec = c.ElementType()
			}
			if cl, d := mirror(ev, ec, arr[i], fmt.Sprintf("%s[%d]", path, i)); cl != "" {
				return cl, d
			}
			i++
		}
	case t.IsSetType():
		arr, ok := j.([]any)
		if !ok {
			return "set part is not a JSON array", fmt.Sprintf("at %q: found %T", path, j)
		}
		if len(arr) != v.LengthInt() {
			return "array length differs", fmt.Sprintf("at %q: %d members written as %d", path, v.LengthInt(), len(arr))
		}
		var ms []cty.Value
		for it := v.ElementIterator(); it.Next(); {
			_, ev := it.Element()
			ms = append(ms, ev)
		}
		if !matchSetMirror(ms, c.ElementType(), arr, make([]bool, len(arr)), 0) {
			return "set members do not correspond one-to-one to the array members", fmt.Sprintf("at %q: %#v", path, v)
		}
	case t.IsMapType() || t.IsObjectType():
		obj, ok := j.(map[string]any)
		if !ok {
			return "mapping part is not a JSON object", fmt.Sprintf("at %q: found %T", path, j)
		}
		if len(obj) != v.LengthInt() {
			return "object key count differs", fmt.Sprintf("at %q: %d members written with keys %v", path, v.LengthInt(), keysOf(obj))
		}
		for it := v.ElementIterator(); it.Next(); {
			kv, ev := it.Element()
			k := kv.AsString()
			ej, ok := obj[k]
			if !ok {
				return "object key missing", fmt.Sprintf("at %q: key %q not in %v", path, k, keysOf(obj))
			}
			var ec cty.Type
			if t.IsObjectType() {
				ec = c.AttributeType(k)
			} else {
				ec = c.ElementType()
			}
			if cl, d := mirror(ev, ec, ej, fmt.Sprintf("%s[%q]", path, k)); cl != "" {
				return cl, d
			}
		}
	default:
		return "unsupported type in the mirror", fmt.Sprintf("at %q: %#v", path, t)
	}
	return "", ""
}

func matchSetMirror(ms []cty.Value, ec cty.Type, arr []any, used []bool, i int) bool {
	return mon.PerfectMatch(len(ms)-i, len(arr), used, func(x, j int) bool {
		cl, _ := mirror(ms[i+x], ec, arr[j], "")
		return cl == ""
	})
}

func keysOf(m map[string]any) []string {
	ks := make([]string, 0, len(m))
	for k := range m {
		ks = append(ks, k)
	}
	sort.Strings(ks)
	return ks
}

func clipStr(s string, n int) string {
	if len(s) <= n {
		return s
	}
	return s[:n] + fmt.Sprintf("...(+%d)", len(s)-n)
}
