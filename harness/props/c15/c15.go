// Package c15: JSON encoding round-trips values and agrees with plain JSON.
package c15

import (
	"bytes"
	stdjson "encoding/json"
	"fmt"
	"math"
	"math/big"
	"sort"
	"strings"

	"github.com/zclconf/go-cty/cty"
	ctyjson "github.com/zclconf/go-cty/cty/json"

	"verif/harness/core"
	"verif/harness/gen"
	"verif/harness/model"
	"verif/harness/mon"
)

type Driver struct{}

func (Driver) ID() string { return "C15" }

func (Driver) Info() core.Info {
	return core.Info{
		Title: "JSON encoding round-trips values and agrees with plain JSON",
		Rule: "value case = (wholly known, unmarked, capsule-free value of a generated type of depth<=3 (thorough: <=4) with nulls at any depth, empty collections, " +
			"numbers from gen.NumberPool plus fresh ones, non-ASCII / normalizable strings, strings and map keys that need every kind of JSON escaping or collide with the wrapper's member names; " +
			"up to three distinct constraints: the exact type, a light placeholder replacement or the root placeholder, a heavy replacement below the root), " +
			"classified k0, k1, k2, k3/placeholder-below-null-or-empty-part, k3/members-resolve-to-different-types (gen.ConstraintClass, gen.WirePrediction); " +
			"every case runs Marshal -> json.Valid -> plain encoding/json decoding mirrored against the value (wrapper exactly at the dynamic positions, documented type syntax read independently) -> Unmarshal -> same type and documented equality; " +
			"the exact-type case also goes through SimpleJSONValue inside a struct; in class k3 the decoded type must be exactly what the wire carries and every part that reached the wire must agree. " +
			"poison case = the same with one part replaced by an unknown value (any refinement), a marked value or an infinity (5 representations): must be an error without bytes, also through SimpleJSONValue. " +
			"document case = JSON text rendered from a grammar (nested nulls, number spellings with <=40 digits and |exp|<=350, all escape forms, NFC/NFD twins in strings and names, repeated member names, random whitespace) " +
			"-> ImpliedType vs structural type -> Unmarshal -> Marshal compared up to key order, number spelling, NFC; the same through SimpleJSONValue.UnmarshalJSON/MarshalJSON. " +
			"history = the last 8 results of Marshal / MarshalJSON are retained as returned next to a private copy and compared after every later library call, re-decoded when they leave the window; decoded values are retained with their fingerprint; " +
			"concurrent stage (one per batch) = 4 goroutines x Marshal->Unmarshal on disjoint values compared with the sequential baseline. " +
			"A fixed corpus (boundary numbers of every class alone and under every single-placeholder constraint, escapes, nulls of every kind, witnesses of F-32/F-33/F-34 and of the non-NFC-name defect) runs in batch 0. " +
			"distinct = hash of (value, constraint) or of the document bytes; non-trivial = every stage up to the final comparison was executed on an in-domain input",
		Assumptions: []string{
			"mon.ModelEqual / mon.RoundTripDiff are the documented equality (whole numbers exact, other numbers by shortest round-trip text, strings after NFC, sets as sets); both are evaluated and must agree",
			"the plain reading of the output uses encoding/json only; a number token mirrors a number if, as an exact rational, it is the number itself or its shortest round-trip decimal text (math/big's notion, on which the documented equality is built)",
			"documents repeating a member name (after NFC) with different values are outside the property's domain: only no-panic is demanded for them",
			"'representable numbers' in documents: at most 40 significant digits and a decimal exponent within +-350 (the decoder keeps 512 bits)",
			"lone surrogate escapes and invalid UTF-8 are not generated (cty documents invalid UTF-8 as undefined); values hold numbers of at most 512 bits of precision",
		},
		MinNontrivial: 20000,
	}
}

func (Driver) Batches(tier string) int {
	if tier == "thorough" {
		return 64
	}
	return 16
}

const (
	docBase    = int64(100_000_000)
	corpusBase = int64(1_000_000_000)
)

func (Driver) Run(c *core.Ctx) {
	nv := int64(c.N(15000, 94000)) // x3 constraints: 40 k x 3 quick, 6 M x 3 thorough over all batches
	nd := int64(c.N(7500, 31000)) // 20 k / 2 M documents
	for i := int64(0); i < nv; i++ {
		if !c.Want(i) {
			continue
		}
		valueCase(c, i)
	}
	for j := int64(0); j < nd; j++ {
		if !c.Want(docBase + j) {
			continue
		}
		docCase(c, docBase+j)
	}
	if c.Batch == 0 {
		runCorpus(c, corpusBase)
	}
	concurrentStage(c)
	hist.flush(c)
}

func maxDepth(c *core.Ctx, r *core.Rand) int {
	if c.Quick() {
		return 1 + r.Intn(3)
	}
	return 1 + r.Intn(4)
}

// genValue draws a wholly known, unmarked, capsule-free value.
func genValue(c *core.Ctx, r *core.Rand) cty.Value {
	to := gen.TypeOpts{Dynamic: r.Chance(1, 3), TwinKeys: r.Bool()}
	ty := gen.Type(r, maxDepth(c, r), to).Cty()
	vo := gen.ValueOpts{MaxLen: 3, LongStr: true, TwinKeys: r.Bool(), NullPct: []int{0, 5, 15}[r.Intn(3)], SmallNums: r.Chance(1, 6)}
	v := gen.Value(r, ty, vo)
	if r.Chance(1, 3) {
		v = hostileText(r, v)
	}
	return v
}

// nastyKeys need escaping in JSON, collide with the type wrapper's member
// names, or are awkward for sorting and normalization. All are in NFC.
var nastyKeys = []string{"q\"uote", "back\\slash", "new\nline", "tab\t", "\u0000", "\u001f", "\u007f", "<&>", "\u2028", "value", "type", "\U0001F44D\U0001F3FD", "\uac01", "\u1e69", "Z", "a b", "/", "\ufffd", "\U0010FFFF", "{}", "[", ","}

// hostileText swaps some strings for ones that need every kind of JSON
// escaping and renames some map keys (and the attributes of a root object) to
// nastyKeys. The type of every part that sits in a collection is unchanged.
func hostileText(r *core.Rand, v cty.Value) cty.Value {
	return gen.RewriteParts(v, func(p cty.Value, path string, _ bool) (cty.Value, bool) {
		if !p.IsKnown() || p.IsNull() {
			return cty.NilVal, false
		}
		ty := p.Type()
		switch {
		case ty == cty.String && r.Chance(1, 4):
			return cty.StringVal(docStringPool[r.Intn(len(docStringPool))]), true
		case ty.IsMapType() && p.LengthInt() > 0 && r.Chance(1, 2):
			m := map[string]cty.Value{}
			for it := p.ElementIterator(); it.Next(); {
				k, ev := it.Element()
				ks := k.AsString()
				if r.Chance(1, 2) {
					ks = nastyKeys[r.Intn(len(nastyKeys))]
				}
				m[ks] = ev // a collision just drops a member
			}
			return cty.MapVal(m), true
		case ty.IsObjectType() && path == "" && p.LengthInt() > 0 && r.Chance(1, 2):
			m := map[string]cty.Value{}
			for _, k := range model.TNodeOf(ty).AttrNames() {
				ks := k
				if r.Chance(1, 2) {
					ks = nastyKeys[r.Intn(len(nastyKeys))]
				}
				m[ks] = p.GetAttr(k)
			}
			return cty.ObjectVal(m), true
		}
		return cty.NilVal, false
	})
}

func valueCase(c *core.Ctx, idx int64) {
	r := c.RNG(idx)
	v := genValue(c, r)
	mode := r.Intn(10)
	if hasInfinity(v) {
		c.Count("poison:infinite(drawn)")
		poisonCase(c, idx, v, pickConstraint(r, v), "infinite")
		return
	}
	if mode == 0 {
		pv, kind := poison(r, v)
		c.Count("poison:" + kind)
		poisonCase(c, idx, pv, pickConstraint(r, pv), kind)
		return
	}
	t := v.Type()
	// three different constraints where the type admits them: the exact type, a light
	// replacement (or the root placeholder), a heavy replacement below the root
	cons := []cty.Type{t}
	add := func(con cty.Type) bool {
		for _, x := range cons {
			if x.Equals(con) {
				return false
			}
		}
		cons = append(cons, con)
		return true
	}
	if !add(gen.DeriveConstraint(r, t, 20)) {
		add(cty.DynamicPseudoType)
	}
	if r.Chance(1, 4) || !add(gen.DeriveConstraintBelowRoot(r, t, 50)) {
		if !add(cty.DynamicPseudoType) && !add(gen.DeriveConstraintBelowRoot(r, t, 80)) {
			c.Count("constraint:no-third-constraint-for-this-type")
		}
	}
	for k, con := range cons {
		roundTrip(c, idx, v, con, k == 0)
	}
}

func pickConstraint(r *core.Rand, v cty.Value) cty.Type {
	u, _ := v.Unmark()
	t := u.Type()
	switch r.Intn(3) {
	case 0:
		return t
	case 1:
		return gen.DeriveConstraint(r, t, 25)
	}
	return gen.DeriveConstraintBelowRoot(r, t, 50)
}

func hasInfinity(v cty.Value) bool {
	found := false
	gen.RewriteParts(v, func(p cty.Value, _ string, _ bool) (cty.Value, bool) {
		if !p.IsMarked() && p.IsKnown() && !p.IsNull() && p.Type() == cty.Number && p.AsBigFloat().IsInf() {
			found = true
		}
		return cty.NilVal, false
	})
	return found
}

var infinities = []cty.Value{cty.PositiveInfinity, cty.NegativeInfinity, cty.NumberFloatVal(math.Inf(1)), cty.NumberFloatVal(math.Inf(-1)),
	cty.NumberVal(new(big.Float).SetPrec(512).SetInf(true))}

// poison replaces one part of v by something JSON cannot represent.
func poison(r *core.Rand, v cty.Value) (cty.Value, string) {
	kind := []string{"unknown", "marked", "infinite"}[r.Intn(3)]
	if kind == "infinite" {
		var nums int
		gen.RewriteParts(v, func(p cty.Value, _ string, _ bool) (cty.Value, bool) {
			if p.IsKnown() && !p.IsNull() && p.Type() == cty.Number {
				nums++
			}
			return cty.NilVal, false
		})
		if nums == 0 {
			kind = "unknown"
		} else {
			target, seen := r.Intn(nums), 0
			inf := infinities[r.Intn(len(infinities))]
			return gen.RewriteParts(v, func(p cty.Value, _ string, _ bool) (cty.Value, bool) {
				if p.IsKnown() && !p.IsNull() && p.Type() == cty.Number {
					seen++
					if seen-1 == target {
						return inf, true
					}
				}
				return cty.NilVal, false
			}), kind
		}
	}
	n := gen.CountParts(v)
	target, seen := r.Intn(n), 0
	out := gen.RewriteParts(v, func(p cty.Value, _ string, _ bool) (cty.Value, bool) {
		seen++
		if seen-1 != target {
			return cty.NilVal, false
		}
		if kind == "marked" {
			return p.Mark(gen.Marks[r.Intn(len(gen.Marks))]), true
		}
		if p.Type() == cty.DynamicPseudoType {
			return cty.DynamicVal, true
		}
		u := gen.AdmittingUnknown(r, p, r.Bool(), false) // never DynamicVal for a typed part: it would change the type of an enclosing collection member
		if u.IsKnown() {
			// a refinement that pins the length of a collection to 0 collapses to the known empty collection
			u = cty.UnknownVal(p.Type())
		}
		return u, true
	})
	return out, kind
}

func describe(v cty.Value, con cty.Type, class string) string {
	return fmt.Sprintf("value %#v against constraint %#v [%s]", v, con, class)
}

// poisonCase: unknown, marked and infinite values anywhere => error, never bytes, never a panic.
func poisonCase(c *core.Ctx, idx int64, v cty.Value, con cty.Type, kind string) {
	class := gen.ConstraintClass(v, con)
	desc := func() string { return kind + " part: " + describe(v, con, class) }
	c.Begin(idx, desc)
	var bs []byte
	var err error
	o := core.Guard(func() { bs, err = ctyjson.Marshal(v, con) })
	c.Eval(1)
	hist.after(c)
	c.Count("clause:unrepresentable-is-an-error")
	c.Distinct(desc(), true)
	switch {
	case o.Panicked:
		c.Violate("json.Marshal", panicFacet(o.PanicMsg), class+"/"+kind, desc(), o.PanicMsg+"\n"+o.Stack)
	case err == nil:
		c.Violate("json.Marshal", "value JSON cannot represent was encoded without an error", class+"/"+kind, desc(), fmt.Sprintf("bytes %s", clipStr(string(bs), 400)))
	case len(bs) != 0:
		c.Violate("json.Marshal", "error returned together with bytes", class+"/"+kind, desc(), fmt.Sprintf("err %v, bytes %s", err, clipStr(string(bs), 400)))
	}
	// the same through SimpleJSONValue (its own type is the constraint)
	var sb []byte
	var serr error
	o = core.Guard(func() { sb, serr = stdjson.Marshal(ctyjson.SimpleJSONValue{Value: v}) })
	c.Eval(1)
	hist.after(c)
	switch {
	case o.Panicked:
		c.Violate("json.SimpleJSONValue", "panic: "+core.PanicClass(o.PanicMsg), "k0/"+kind, desc(), o.PanicMsg+"\n"+o.Stack)
	case serr == nil:
		c.Violate("json.SimpleJSONValue", "value JSON cannot represent was encoded without an error", "k0/"+kind, desc(), fmt.Sprintf("bytes %s", clipStr(string(sb), 400)))
	}
}

func countShape(c *core.Ctx, v cty.Value) {
	gen.RewriteParts(v, func(p cty.Value, _ string, _ bool) (cty.Value, bool) {
		switch {
		case p.IsNull():
			c.Count("part:null")
		case p.Type() == cty.Number:
			f := p.AsBigFloat()
			switch {
			case mon.WholeTextInexact(f):
				c.Count("part:number:whole,text-inexact")
			case f.IsInt() && fitsInt64(f):
				c.Count("part:number:whole,int64")
			case f.IsInt():
				c.Count("part:number:whole,beyond-int64")
			case f.Prec() <= 64:
				c.Count("part:number:fraction,prec<=64")
			default:
				c.Count("part:number:fraction,prec>64")
			}
		case p.Type() == cty.String:
			c.Count("part:string")
		case p.Type() == cty.Bool:
			c.Count("part:bool")
		case p.Type().IsCollectionType() && p.LengthInt() == 0:
			c.Count("part:empty-collection")
		case p.Type().IsSetType():
			c.Count("part:set")
		case p.Type().IsListType():
			c.Count("part:list")
		case p.Type().IsMapType():
			c.Count("part:map")
		case p.Type().IsTupleType():
			c.Count("part:tuple")
		case p.Type().IsObjectType():
			c.Count("part:object")
		}
		return cty.NilVal, false
	})
}

func fitsInt64(f *big.Float) bool {
	_, acc := f.Int64()
	return acc == big.Exact
}

// wholeTextImage returns v with every whole number whose shortest round-trip
// text denotes another integer replaced by that other integer (parsed the way
// cty parses number text): what a codec that writes shortest text and reads
// at 512 bits turns v into. Independent of the json package.
func wholeTextImage(v cty.Value) cty.Value {
	return gen.RewriteParts(v, func(p cty.Value, _ string, _ bool) (cty.Value, bool) {
		if p.IsKnown() && !p.IsNull() && p.Type() == cty.Number {
			if f := p.AsBigFloat(); mon.WholeTextInexact(f) {
				g, _, err := big.ParseFloat(f.Text('f', -1), 10, 512, big.ToNearestEven)
				if err == nil {
					return cty.NumberVal(g), true
				}
			}
			return p, true
		}
		return cty.NilVal, false
	})
}

// diffClass narrows the class of a value mismatch: if the decoded value is
// exactly the original with its whole numbers replaced by what their shortest
// text denotes, the mismatch is F-32's class and nothing else.
func diffClass(class string, v, got cty.Value) string {
	if mon.HasWholeTextInexact(v) {
		img := wholeTextImage(v)
		if strings.HasPrefix(class, "k3") {
			if hollowDiff(img, got, "") == "" {
				return class + "/whole-number-with-inexact-shortest-text"
			}
		} else if img.Type().Equals(got.Type()) && mon.RoundTripDiff(img, got, false) == nil {
			return class + "/whole-number-with-inexact-shortest-text"
		}
	}
	return class
}

// panicFacet keeps the facet of the constructor panics stable (core.PanicClass
// cuts type names in a way that depends on the types involved).
func panicFacet(msg string) string {
	for _, k := range []string{"list", "set", "map"} {
		if strings.HasPrefix(msg, "inconsistent "+k+" element types") {
			return "panic: inconsistent " + k + " element types"
		}
	}
	return "panic: " + core.PanicClass(msg)
}

// subClass refines k3 by what the wire format is able to carry (gen.WirePrediction).
func subClass(v cty.Value, con cty.Type) (class string, resolved cty.Type, mixed bool) {
	class = gen.ConstraintClass(v, con)
	if class != "k3" {
		return class, v.Type(), false
	}
	resolved, mixed = gen.WirePrediction(v, con)
	if mixed {
		return "k3/members-resolve-to-different-types", resolved, true
	}
	return "k3/placeholder-below-null-or-empty-part", resolved, false
}

// hollowDiff compares the original with a decoded value whose type differs only
// below null or empty parts (class k3): nullness, emptiness, keys and every
// member that did reach the wire must still agree. "" when they do.
func hollowDiff(a, b cty.Value, path string) string {
	if !b.IsKnown() {
		return fmt.Sprintf("at %q: decoded part is unknown", path)
	}
	if a.IsNull() || b.IsNull() {
		if a.IsNull() != b.IsNull() {
			return fmt.Sprintf("at %q: nullness differs: %#v vs %#v", path, a, b)
		}
		return ""
	}
	ta, tb := a.Type(), b.Type()
	switch {
	case ta.IsPrimitiveType():
		if !tb.Equals(ta) {
			return fmt.Sprintf("at %q: %#v came back as %#v", path, a, b)
		}
		if d := mon.RoundTripDiff(a, b, false); d != nil {
			return fmt.Sprintf("at %q: %s", path, d.Detail)
		}
	case ta.IsListType() || ta.IsTupleType():
		if ta.IsListType() != tb.IsListType() || ta.IsTupleType() != tb.IsTupleType() || a.LengthInt() != b.LengthInt() {
			return fmt.Sprintf("at %q: %#v came back as %#v", path, a, b)
		}
		as, bs := a.AsValueSlice(), b.AsValueSlice()
		for i := range as {
			if d := hollowDiff(as[i], bs[i], fmt.Sprintf("%s[%d]", path, i)); d != "" {
				return d
			}
		}
	case ta.IsSetType():
		if !tb.IsSetType() || a.LengthInt() != b.LengthInt() {
			return fmt.Sprintf("at %q: %#v came back as %#v", path, a, b)
		}
		as, bs := a.AsValueSlice(), b.AsValueSlice()
		if !matchHollow(as, bs, make([]bool, len(bs)), 0) {
			return fmt.Sprintf("at %q: set %#v came back as %#v", path, a, b)
		}
	case ta.IsMapType() || ta.IsObjectType():
		if ta.IsMapType() != tb.IsMapType() || ta.IsObjectType() != tb.IsObjectType() || a.LengthInt() != b.LengthInt() {
			return fmt.Sprintf("at %q: %#v came back as %#v", path, a, b)
		}
		am, bm := a.AsValueMap(), b.AsValueMap()
		for _, k := range sortedValKeys(am) {
			av := am[k]
			bv, ok := bm[k]
			if !ok {
				return fmt.Sprintf("at %q: key %q missing", path, k)
			}
			if d := hollowDiff(av, bv, fmt.Sprintf("%s[%q]", path, k)); d != "" {
				return d
			}
		}
	}
	return ""
}

func sortedValKeys(m map[string]cty.Value) []string {
	ks := make([]string, 0, len(m))
	for k := range m {
		ks = append(ks, k)
	}
	sort.Strings(ks)
	return ks
}

func matchHollow(as, bs []cty.Value, used []bool, i int) bool {
	return mon.PerfectMatch(len(as)-i, len(bs), used, func(x, j int) bool { return hollowDiff(as[i+x], bs[j], "") == "" })
}

// roundTrip is the oracle for one (value, constraint) pair of the property's domain.
func roundTrip(c *core.Ctx, idx int64, v cty.Value, con cty.Type, simple bool) {
	class, resolved, mixed := subClass(v, con)
	desc := func() string { return describe(v, con, class) }
	c.Begin(idx, desc)
	c.Count("class:" + class)
	if class == "k0" {
		countShape(c, v)
	}
	if n := gen.CountPlaceholders(v.Type(), con); n > 0 {
		c.CountN("placeholders-introduced", int64(n))
	}
	var bs []byte
	var err error
	o := core.Guard(func() { bs, err = ctyjson.Marshal(v, con) })
	c.Eval(1)
	hist.after(c)
	c.Count("op:Marshal")
	if o.Panicked {
		c.Distinct(desc(), false)
		c.Violate("json.Marshal", panicFacet(o.PanicMsg), class, desc(), o.PanicMsg+"\n"+o.Stack)
		return
	}
	if err != nil {
		c.Distinct(desc(), false)
		c.Violate("json.Marshal", "error for a known, unmarked, capsule-free value that conforms to the constraint", class, desc(), err.Error())
		return
	}
	held := hist.hold(c, "json.Marshal", bs, con, desc)
	// clause: valid JSON
	c.Count("clause:valid-json")
	if !stdjson.Valid(bs) {
		c.Violate("json.Marshal", "output is not valid JSON", class, desc(), clipStr(string(bs), 600))
		return
	}
	// clause: plain decoding mirrors the structure
	c.Count("clause:plain-decoding-mirrors-the-value")
	if pd, perr := parseDoc(bs); perr != nil {
		c.Violate("json.Marshal", "output is not readable by the encoding/json tokenizer", class, desc(), perr.Error())
		return
	} else if f := analyse(pd); f.rawDup {
		c.Violate("json.Marshal", "output repeats an object member name", class, desc(), clipStr(string(bs), 600))
	}
	j, jerr := plainDecode(bs)
	if jerr != nil {
		c.Violate("json.Marshal", "output is not readable by encoding/json", class, desc(), jerr.Error())
		return
	}
	if cl, d := mirror(v, con, j, ""); cl != "" {
		c.Violate("json.Marshal", "plain decoding does not mirror the value: "+cl, class, desc(), d+"; bytes "+clipStr(string(bs), 600))
	}
	// clause: Unmarshal with the same constraint
	var got cty.Value
	o = core.Guard(func() { got, err = ctyjson.Unmarshal(bs, con) })
	c.Eval(1)
	hist.after(c)
	c.Count("op:Unmarshal")
	if o.Panicked {
		c.Distinct(desc(), false)
		c.Violate("json.Unmarshal", panicFacet(o.PanicMsg), class, desc(), "bytes "+clipStr(string(bs), 600)+"\n"+o.PanicMsg+"\n"+o.Stack)
		return
	}
	if err != nil {
		c.Distinct(desc(), mixed) // for mixed members this is the whole observable outcome
		c.Count("outcome:unmarshal-error")
		facet := "error on the encoder's own output"
		if mixed && strings.Contains(err.Error(), "elements must have the same type") {
			// the one outcome the format leaves to the decoder in this class (see NOTES.md, F-115b)
			facet += ": collection members decoded to different types"
		}
		c.Violate("json.Unmarshal", facet, class, desc(), "bytes "+clipStr(string(bs), 600)+"; "+err.Error())
		return
	}
	c.Distinct(desc(), true)
	held.setDecoded(got)
	hist.holdValue(c, got, desc)
	if w := mon.WellFormed(got); w != "" {
		c.CrossNote("C06", "json.Unmarshal: "+w, desc())
	}
	if herr := cty.VerifWellFormed(got); herr != nil {
		c.CrossNote("C06", "json.Unmarshal (hook): "+core.PanicClass(herr.Error()), desc())
	}
	c.Count("clause:decoded-type-is-the-original-type")
	if !model.TypeEq(model.TNodeOf(got.Type()), model.TNodeOf(v.Type())) || !got.Type().Equals(v.Type()) {
		cl := class
		if strings.HasPrefix(class, "k3/") {
			// the narrow (listable) class is kept only when the decoded type is exactly what the
			// wire carries and everything that did reach the wire still agrees
			c.Count("clause:k3-decoded-type-is-what-the-wire-carries")
			switch {
			case mixed:
				cl = "k3/members-resolve-to-different-types,decoded"
			case !got.Type().Equals(resolved):
				cl = "k3/decoded-type-is-not-what-the-wire-carries"
			default:
				c.Count("clause:k3-parts-on-the-wire-agree")
				if d := hollowDiff(v, got, ""); d != "" {
					c.Violate("json.Unmarshal", "decoded value differs from the original beyond the types of null or empty parts", diffClass("k3", v, got), desc(),
						fmt.Sprintf("%s; decoded %#v", d, got))
				}
			}
		}
		c.Violate("json.Unmarshal", "decoded value has another type than the original", cl, desc(),
			fmt.Sprintf("original type %#v, decoded type %#v; bytes %s", v.Type(), got.Type(), clipStr(string(bs), 400)))
	} else {
		c.Count("clause:decoded-value-equals-the-original")
		if !mon.ModelEqual(got, v) {
			d := mon.RoundTripDiff(v, got, false)
			kind := "other"
			if d != nil {
				kind = d.Kind
			}
			dc := diffClass(class, v, got)
			if dc != class {
				kind = "number:whole"
			}
			c.Violate("json.Unmarshal", "decoded value differs from the original: "+kind, dc, desc(),
				fmt.Sprintf("%s; decoded %#v", d.String(), got))
		} else if d := mon.RoundTripDiff(v, got, false); d != nil {
			// the two formulations of the documented equality must agree
			c.Violate("json.Unmarshal", "decoded value differs from the original: "+d.Kind, class+"/comparators-disagree", desc(), d.String())
		}
	}
	if simple {
		simpleCase(c, v, desc)
	}
	if c.WantSample() && class != "k0" {
		c.Sample(map[string]any{"value": fmt.Sprintf("%#v", v), "constraint": fmt.Sprintf("%#v", con), "class": class, "json": clipStr(string(bs), 300)})
	}
}

// usedSV is the worker's long-lived SimpleJSONValue variable: every document case decodes into it after the
// previous case did (single goroutine per worker).
var usedSV ctyjson.SimpleJSONValue

// simpleCase: SimpleJSONValue marshals with the value's own type and unmarshals
// with the implied type: "the same data but not necessarily the same type".
func simpleCase(c *core.Ctx, v cty.Value, desc func() string) {
	c.Count("clause:SimpleJSONValue")
	{
		// MarshalJSON called directly: encoding/json copies what it gets, the direct caller does not
		var mb []byte
		var merr error
		o := core.Guard(func() { mb, merr = ctyjson.SimpleJSONValue{Value: v}.MarshalJSON() })
		c.Eval(1)
		hist.after(c)
		if !o.Panicked && merr == nil {
			hist.hold(c, "json.SimpleJSONValue", mb, v.Type(), desc)
		}
	}
	type holder struct {
		Name  string                  `json:"name"`
		Value ctyjson.SimpleJSONValue `json:"value"`
	}
	var bs []byte
	var err error
	o := core.Guard(func() { bs, err = stdjson.Marshal(holder{"x", ctyjson.SimpleJSONValue{Value: v}}) })
	c.Eval(1)
	hist.after(c)
	if o.Panicked {
		c.Violate("json.SimpleJSONValue", "panic: "+core.PanicClass(o.PanicMsg), "k0", desc(), o.PanicMsg+"\n"+o.Stack)
		return
	}
	if err != nil {
		c.Violate("json.SimpleJSONValue", "MarshalJSON failed for a representable value", "k0", desc(), err.Error())
		return
	}
	var h holder
	o = core.Guard(func() { err = stdjson.Unmarshal(bs, &h) })
	c.Eval(1)
	hist.after(c)
	if o.Panicked {
		c.Violate("json.SimpleJSONValue", "panic: "+core.PanicClass(o.PanicMsg), "k0", desc(), "bytes "+clipStr(string(bs), 400)+"\n"+o.PanicMsg+"\n"+o.Stack)
		return
	}
	if err != nil {
		c.Violate("json.SimpleJSONValue", "UnmarshalJSON failed on MarshalJSON's own output", "k0", desc(), "bytes "+clipStr(string(bs), 400)+"; "+err.Error())
		return
	}
	if kind, detail := simpleDiff(v, h.Value.Value, ""); kind != "" {
		class := "k0"
		if mon.HasWholeTextInexact(v) {
			if k2, _ := simpleDiffImg(v, h.Value.Value, "", true); k2 == "" {
				class, kind = "k0/whole-number-with-inexact-shortest-text", "number:whole"
			}
		}
		c.Violate("json.SimpleJSONValue", "decoded data differs from the original data: "+kind, class, desc(), detail+fmt.Sprintf("; decoded %#v", h.Value.Value))
	}
}

// simpleDiff compares the original with its type-lossy image: lists, sets and
// tuples come back as tuples, maps and objects as objects, nulls as nulls of
// the dynamic pseudo-type, primitives unchanged.
func simpleDiff(a, b cty.Value, path string) (string, string) {
	return simpleDiffImg(a, b, path, false)
}

// simpleDiffImg with img set compares every whole number of a through its
// shortest-text image (used only to recognise F-32's class).
func simpleDiffImg(a, b cty.Value, path string, img bool) (string, string) {
	if !b.IsKnown() {
		return "unknown", fmt.Sprintf("at %q: decoded part is unknown", path)
	}
	if a.IsNull() {
		if !b.IsNull() || b.Type() != cty.DynamicPseudoType {
			return "null", fmt.Sprintf("at %q: null came back as %#v", path, b)
		}
		return "", ""
	}
	if b.IsNull() {
		return "null", fmt.Sprintf("at %q: %#v came back as null", path, a)
	}
	t := a.Type()
	switch {
	case t.IsPrimitiveType():
		if !b.Type().Equals(t) {
			return "primitive-type", fmt.Sprintf("at %q: %#v came back as %#v", path, a, b)
		}
		if img {
			a = wholeTextImage(a)
		}
		if d := mon.RoundTripDiff(a, b, false); d != nil {
			return d.Kind, fmt.Sprintf("at %q: %s", path, d.Detail)
		}
	case t.IsListType() || t.IsTupleType() || t.IsSetType():
		if !b.Type().IsTupleType() {
			return "sequence-type", fmt.Sprintf("at %q: sequence came back as %#v", path, b.Type())
		}
		if a.LengthInt() != b.LengthInt() {
			return "length", fmt.Sprintf("at %q: %d members came back as %d", path, a.LengthInt(), b.LengthInt())
		}
		as, bs := a.AsValueSlice(), b.AsValueSlice()
		if t.IsSetType() {
			if !matchSimple(as, bs, make([]bool, len(bs)), 0, img) {
				return "set-members", fmt.Sprintf("at %q: %#v came back as %#v", path, a, b)
			}
			return "", ""
		}
		for i := range as {
			if k, d := simpleDiffImg(as[i], bs[i], fmt.Sprintf("%s[%d]", path, i), img); k != "" {
				return k, d
			}
		}
	case t.IsMapType() || t.IsObjectType():
		if !b.Type().IsObjectType() {
			return "mapping-type", fmt.Sprintf("at %q: mapping came back as %#v", path, b.Type())
		}
		am, bm := a.AsValueMap(), b.AsValueMap()
		if len(am) != len(bm) {
			return "keys", fmt.Sprintf("at %q: %d keys came back as %d", path, len(am), len(bm))
		}
		for _, k := range sortedValKeys(am) {
			av := am[k]
			bv, ok := bm[k]
			if !ok {
				return "keys", fmt.Sprintf("at %q: key %q missing", path, k)
			}
			if kk, d := simpleDiffImg(av, bv, fmt.Sprintf("%s[%q]", path, k), img); kk != "" {
				return kk, d
			}
		}
	}
	return "", ""
}

func matchSimple(as, bs []cty.Value, used []bool, i int, img bool) bool {
	return mon.PerfectMatch(len(as)-i, len(bs), used, func(x, j int) bool {
		k, _ := simpleDiffImg(as[i+x], bs[j], "", img)
		return k == ""
	})
}

// ------------------------------------------------------------------ documents

func docCase(c *core.Ctx, idx int64) {
	r := c.RNG(idx)
	depth := 2 + r.Intn(3)
	if !c.Quick() && r.Chance(1, 4) {
		depth = 5
	}
	tree := genDoc(r, depth, 25, 30)
	var b bytes.Buffer
	render(r, tree, &b)
	checkDoc(c, idx, b.Bytes())
}

func docClass(f *docFacts) string {
	cl := "doc"
	switch {
	case f.dup && f.nonNFCKey:
		cl = "doc/repeated-name+non-NFC-name"
	case f.nonNFCKey:
		cl = "doc/non-NFC-name"
	case f.dup:
		cl = "doc/repeated-name"
	}
	return cl
}

func checkDoc(c *core.Ctx, idx int64, doc []byte) {
	desc := func() string { return "document " + string(doc) }
	c.Begin(idx, desc)
	pd, perr := parseDoc(doc)
	if perr != nil || !stdjson.Valid(doc) {
		// the grammar is supposed to produce valid JSON only: a generator defect, not a library one
		c.Count("doc:generator-produced-invalid-json")
		return
	}
	f := analyse(pd)
	class := docClass(f)
	c.Count("class:" + class)
	var ty cty.Type
	var err error
	o := core.Guard(func() { ty, err = ctyjson.ImpliedType(doc) })
	c.Eval(1)
	hist.after(c)
	if o.Panicked {
		c.Violate("json.ImpliedType", "panic: "+core.PanicClass(o.PanicMsg), class, desc(), o.PanicMsg+"\n"+o.Stack)
		return
	}
	if f.conflict {
		// outside the domain: repeated names with different values. Only no-panic.
		c.Count("doc:out-of-domain(conflicting-repeats)")
		c.Distinct(string(doc), false)
		if err == nil {
			var v cty.Value
			o = core.Guard(func() { v, err = ctyjson.Unmarshal(doc, ty) })
			c.Eval(1)
			hist.after(c)
			if o.Panicked {
				c.Violate("json.Unmarshal", "panic: "+core.PanicClass(o.PanicMsg), class+"/conflicting", desc(), o.PanicMsg+"\n"+o.Stack)
			} else if err == nil {
				if w := mon.WellFormed(v); w != "" {
					c.CrossNote("C06", "json.Unmarshal: "+w, desc())
				}
			}
		}
		return
	}
	c.Count("clause:implied-type-is-the-structural-type")
	if err != nil {
		c.Distinct(string(doc), false)
		c.Violate("json.ImpliedType", "error for a valid document", class, desc(), err.Error())
		return
	}
	if !model.TypeEq(model.TNodeOf(ty), f.ty) {
		c.Violate("json.ImpliedType", "implied type differs from the structural type", class, desc(), fmt.Sprintf("implied %#v, structural %s", ty, f.ty))
		return
	}
	var v cty.Value
	o = core.Guard(func() { v, err = ctyjson.Unmarshal(doc, ty) })
	c.Eval(1)
	hist.after(c)
	c.Count("clause:unmarshal-with-the-implied-type-succeeds")
	if o.Panicked {
		c.Distinct(string(doc), false)
		c.Violate("json.Unmarshal", "panic: "+core.PanicClass(o.PanicMsg), class, desc(), o.PanicMsg+"\n"+o.Stack)
		return
	}
	if err != nil {
		c.Distinct(string(doc), false)
		c.Violate("json.Unmarshal", "error decoding a valid document with its implied type", class, desc(), fmt.Sprintf("implied type %#v; %v", ty, err))
		return
	}
	if w := mon.WellFormed(v); w != "" {
		c.CrossNote("C06", "json.Unmarshal: "+w, desc())
	}
	if !model.Conforms(model.TNodeOf(v.Type()), f.ty) {
		c.Violate("json.Unmarshal", "decoded value does not conform to the implied type", class, desc(), fmt.Sprintf("value type %#v, implied %#v", v.Type(), ty))
	}
	var out []byte
	o = core.Guard(func() { out, err = ctyjson.Marshal(v, ty) })
	c.Eval(1)
	hist.after(c)
	c.Count("clause:re-marshalled-document-is-the-same-document")
	c.Distinct(string(doc), f.containers > 0 || f.numbers > 0)
	switch {
	case o.Panicked:
		c.Violate("json.Marshal", "panic: "+core.PanicClass(o.PanicMsg), class, desc(), o.PanicMsg+"\n"+o.Stack)
		return
	case err != nil:
		c.Violate("json.Marshal", "error re-marshalling a decoded document", class, desc(), err.Error())
		return
	}
	hist.hold(c, "json.Marshal", out, ty, desc).setDecoded(v)
	hist.holdValue(c, v, desc)
	compareDocs(c, "json.Marshal", class, desc, f, out)

	// the same through SimpleJSONValue (encoding/json integration)
	var sv ctyjson.SimpleJSONValue
	o = core.Guard(func() { err = stdjson.Unmarshal(doc, &sv) })
	c.Eval(1)
	hist.after(c)
	c.Count("clause:SimpleJSONValue(document)")
	switch {
	case o.Panicked:
		c.Violate("json.SimpleJSONValue", "panic: "+core.PanicClass(o.PanicMsg), class, desc(), o.PanicMsg+"\n"+o.Stack)
		return
	case err != nil:
		c.Violate("json.SimpleJSONValue", "UnmarshalJSON failed for a valid document", class, desc(), err.Error())
		return
	}
	if !sv.Value.Type().Equals(v.Type()) || !mon.ModelEqual(sv.Value, v) {
		c.Violate("json.SimpleJSONValue", "UnmarshalJSON disagrees with Unmarshal under the implied type", class, desc(), fmt.Sprintf("%#v vs %#v", sv.Value, v))
	}
	// history: the same document decoded into a variable that still holds the previous document's value must give
	// what a fresh variable gives (the previous value may have any other shape)
	prevText := fmt.Sprintf("%#v", usedSV.Value)
	o = core.Guard(func() { err = stdjson.Unmarshal(doc, &usedSV) })
	c.Eval(1)
	c.Count("clause:SimpleJSONValue(document) into a used variable")
	switch {
	case o.Panicked:
		c.Violate("json.SimpleJSONValue", "panic: "+core.PanicClass(o.PanicMsg), class+"/used-variable", desc(), o.PanicMsg+"\n"+o.Stack)
		usedSV = ctyjson.SimpleJSONValue{}
	case err != nil:
		c.Violate("json.SimpleJSONValue", "UnmarshalJSON into a variable that held another value failed for a valid document", class, desc(), "held before: "+clipStr(prevText, 300)+"; "+err.Error())
		usedSV = ctyjson.SimpleJSONValue{}
	case !usedSV.Value.Type().Equals(sv.Value.Type()) || !mon.ModelEqual(usedSV.Value, sv.Value):
		c.Violate("json.SimpleJSONValue", "UnmarshalJSON into a variable that held another value gives another result than into a fresh variable", class, desc(),
			fmt.Sprintf("held before: %s; got %#v, a fresh variable gives %#v", clipStr(prevText, 300), usedSV.Value, sv.Value))
	}
	o = core.Guard(func() { out, err = stdjson.Marshal(sv) })
	c.Eval(1)
	hist.after(c)
	switch {
	case o.Panicked:
		c.Violate("json.SimpleJSONValue", "panic: "+core.PanicClass(o.PanicMsg), class, desc(), o.PanicMsg+"\n"+o.Stack)
	case err != nil:
		c.Violate("json.SimpleJSONValue", "MarshalJSON failed for a decoded document", class, desc(), err.Error())
	default:
		compareDocs(c, "json.SimpleJSONValue", class, desc, f, out)
	}
	if c.WantSample() && f.containers > 1 {
		c.Sample(map[string]any{"document": clipStr(string(doc), 300), "implied_type": fmt.Sprintf("%#v", ty), "remarshalled": clipStr(string(out), 300)})
	}
}

func compareDocs(c *core.Ctx, site, class string, desc func() string, f *docFacts, out []byte) {
	po, err := parseDoc(out)
	if err != nil || !stdjson.Valid(out) {
		c.Violate(site, "re-marshalled document is not valid JSON", class, desc(), clipStr(string(out), 600))
		return
	}
	fo := analyse(po)
	if fo.canon != f.canon {
		c.Violate(site, "re-marshalled document differs from the original (up to key order, number spelling, NFC)", class, desc(),
			fmt.Sprintf("re-marshalled %s\ncanonical original      %s\ncanonical re-marshalled %s", clipStr(string(out), 600), clipStr(f.canon, 600), clipStr(fo.canon, 600)))
	}
}
