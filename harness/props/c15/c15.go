// Package c15: JSON encoding round-trips values and agrees with plain JSON.
package c15

import (
	"bytes"
	stdjson "encoding/json"
	"fmt"
	"math"
	"math/big"

	"github.com/zclconf/go-cty/cty"
	ctyjson "github.com/zclconf/go-cty/cty/json"

	"verif/harness/core"
	"verif/harness/gen"
	"verif/harness/model"
	"verif/harness/mon"
)

type Driver struct{}

func (Driver) ID() string { return "C15" }

func (Driver) Info() core.Info {
	return core.Info{
		Title: "JSON encoding round-trips values and agrees with plain JSON",
		Rule: "value case = (wholly known, unmarked, capsule-free value of a generated type of depth<=3 (thorough: <=4) with nulls at any depth, empty collections, " +
			"numbers from gen.NumberPool plus fresh ones, non-ASCII / normalizable strings and keys; constraint in {exact type, random placeholder replacement, root or heavy replacement}), " +
			"classified k0..k3; every case runs Marshal -> json.Valid -> plain encoding/json decoding mirrored against the value -> Unmarshal -> type and model equality, k0 also through SimpleJSONValue. " +
			"poison case = the same with one part replaced by an unknown value, a marked value or an infinity: must be an error. " +
			"document case = JSON text rendered from a grammar (nested nulls, number spellings with <=40 digits and |exp|<=350, escapes, NFC/NFD twins, repeated member names) -> ImpliedType vs structural type -> Unmarshal -> Marshal compared up to key order, number spelling, NFC. " +
			"distinct = hash of (value, constraint) or of the document bytes; non-trivial = every stage up to the final comparison was executed on an in-domain input",
		Assumptions: []string{
			"mon.ModelEqual is the documented equality (whole numbers exact, other numbers by shortest round-trip text, strings after NFC, sets as sets)",
			"the plain reading of the output uses encoding/json only; a number token agrees with the value if it parses to it at the value's own precision",
			"documents repeating a member name (after NFC) with different values are outside the property's domain: only no-panic is demanded for them",
			"lone surrogate escapes and invalid UTF-8 are not generated (cty documents invalid UTF-8 as undefined)",
		},
		MinNontrivial: 5000,
	}
}

func (Driver) Batches(tier string) int {
	if tier == "thorough" {
		return 64
	}
	return 16
}

const (
	docBase    = int64(100_000_000)
	corpusBase = int64(1_000_000_000)
)

func (Driver) Run(c *core.Ctx) {
	nv := int64(c.N(2500, 23438)) // x3 constraints: 40 k x 3 quick, 1.5 M x 3 thorough over all batches
	nd := int64(c.N(1250, 7813))  // 20 k / 500 k documents
	for i := int64(0); i < nv; i++ {
		if !c.Want(i) {
			continue
		}
		valueCase(c, i)
	}
	for j := int64(0); j < nd; j++ {
		if !c.Want(docBase + j) {
			continue
		}
		docCase(c, docBase+j)
	}
	if c.Batch == 0 {
		runCorpus(c, corpusBase)
	}
}

func maxDepth(c *core.Ctx, r *core.Rand) int {
	if c.Quick() {
		return 1 + r.Intn(3)
	}
	return 1 + r.Intn(4)
}

// genValue draws a wholly known, unmarked, capsule-free value.
func genValue(c *core.Ctx, r *core.Rand) cty.Value {
	to := gen.TypeOpts{Dynamic: r.Chance(1, 3), TwinKeys: r.Bool()}
	ty := gen.Type(r, maxDepth(c, r), to).Cty()
	vo := gen.ValueOpts{MaxLen: 3, LongStr: true, TwinKeys: r.Bool(), NullPct: []int{0, 5, 15}[r.Intn(3)], SmallNums: r.Chance(1, 6)}
	return gen.Value(r, ty, vo)
}

func valueCase(c *core.Ctx, idx int64) {
	r := c.RNG(idx)
	v := genValue(c, r)
	mode := r.Intn(10)
	if hasInfinity(v) {
		c.Count("poison:infinite(drawn)")
		poisonCase(c, idx, v, pickConstraint(r, v), "infinite")
		return
	}
	if mode == 0 {
		pv, kind := poison(r, v)
		c.Count("poison:" + kind)
		poisonCase(c, idx, pv, pickConstraint(r, pv), kind)
		return
	}
	t := v.Type()
	cons := []cty.Type{t, gen.DeriveConstraint(r, t, 20)}
	if r.Chance(1, 4) {
		cons = append(cons, cty.DynamicPseudoType)
	} else {
		cons = append(cons, gen.DeriveConstraintBelowRoot(r, t, 50))
	}
	for k, con := range cons {
		roundTrip(c, idx, v, con, k == 0)
	}
}

func pickConstraint(r *core.Rand, v cty.Value) cty.Type {
	u, _ := v.Unmark()
	t := u.Type()
	switch r.Intn(3) {
	case 0:
		return t
	case 1:
		return gen.DeriveConstraint(r, t, 25)
	}
	return gen.DeriveConstraintBelowRoot(r, t, 50)
}

func hasInfinity(v cty.Value) bool {
	found := false
	gen.RewriteParts(v, func(p cty.Value, _ string, _ bool) (cty.Value, bool) {
		if !p.IsMarked() && p.IsKnown() && !p.IsNull() && p.Type() == cty.Number && p.AsBigFloat().IsInf() {
			found = true
		}
		return cty.NilVal, false
	})
	return found
}

var infinities = []cty.Value{cty.PositiveInfinity, cty.NegativeInfinity, cty.NumberFloatVal(math.Inf(1)), cty.NumberFloatVal(math.Inf(-1)),
	cty.NumberVal(new(big.Float).SetPrec(512).SetInf(true))}

// poison replaces one part of v by something JSON cannot represent.
func poison(r *core.Rand, v cty.Value) (cty.Value, string) {
	kind := []string{"unknown", "marked", "infinite"}[r.Intn(3)]
	if kind == "infinite" {
		var nums int
		gen.RewriteParts(v, func(p cty.Value, _ string, _ bool) (cty.Value, bool) {
			if p.IsKnown() && !p.IsNull() && p.Type() == cty.Number {
				nums++
			}
			return cty.NilVal, false
		})
		if nums == 0 {
			kind = "unknown"
		} else {
			target, seen := r.Intn(nums), 0
			inf := infinities[r.Intn(len(infinities))]
			return gen.RewriteParts(v, func(p cty.Value, _ string, _ bool) (cty.Value, bool) {
				if p.IsKnown() && !p.IsNull() && p.Type() == cty.Number {
					seen++
					if seen-1 == target {
						return inf, true
					}
				}
				return cty.NilVal, false
			}), kind
		}
	}
	n := gen.CountParts(v)
	target, seen := r.Intn(n), 0
	out := gen.RewriteParts(v, func(p cty.Value, _ string, inColl bool) (cty.Value, bool) {
		seen++
		if seen-1 != target {
			return cty.NilVal, false
		}
		if kind == "marked" {
			return p.Mark(gen.Marks[r.Intn(len(gen.Marks))]), true
		}
		if p.Type() == cty.DynamicPseudoType {
			return cty.DynamicVal, true
		}
		return gen.AdmittingUnknown(r, p, r.Bool(), !inColl && r.Chance(1, 4)), true
	})
	return out, kind
}

func describe(v cty.Value, con cty.Type, class string) string {
	return fmt.Sprintf("value %#v against constraint %#v [%s]", v, con, class)
}

// poisonCase: unknown, marked and infinite values anywhere => error, never bytes, never a panic.
func poisonCase(c *core.Ctx, idx int64, v cty.Value, con cty.Type, kind string) {
	class := gen.ConstraintClass(v, con)
	desc := func() string { return kind + " part: " + describe(v, con, class) }
	c.Begin(idx, desc)
	var bs []byte
	var err error
	o := core.Guard(func() { bs, err = ctyjson.Marshal(v, con) })
	c.Eval(1)
	c.Count("clause:unrepresentable-is-an-error")
	c.Distinct(desc(), true)
	switch {
	case o.Panicked:
		c.Violate("json.Marshal", "panic: "+core.PanicClass(o.PanicMsg), class+"/"+kind, desc(), o.PanicMsg+"\n"+o.Stack)
	case err == nil:
		c.Violate("json.Marshal", "value JSON cannot represent was encoded without an error", class+"/"+kind, desc(), fmt.Sprintf("bytes %s", clipStr(string(bs), 400)))
	case len(bs) != 0:
		c.Violate("json.Marshal", "error returned together with bytes", class+"/"+kind, desc(), fmt.Sprintf("err %v, bytes %s", err, clipStr(string(bs), 400)))
	}
	// the same through SimpleJSONValue (its own type is the constraint)
	var sb []byte
	var serr error
	o = core.Guard(func() { sb, serr = stdjson.Marshal(ctyjson.SimpleJSONValue{Value: v}) })
	c.Eval(1)
	switch {
	case o.Panicked:
		c.Violate("json.SimpleJSONValue", "panic: "+core.PanicClass(o.PanicMsg), "k0/"+kind, desc(), o.PanicMsg+"\n"+o.Stack)
	case serr == nil:
		c.Violate("json.SimpleJSONValue", "value JSON cannot represent was encoded without an error", "k0/"+kind, desc(), fmt.Sprintf("bytes %s", clipStr(string(sb), 400)))
	}
}

func countShape(c *core.Ctx, v cty.Value) {
	gen.RewriteParts(v, func(p cty.Value, _ string, _ bool) (cty.Value, bool) {
		switch {
		case p.IsNull():
			c.Count("part:null")
		case p.Type() == cty.Number:
			f := p.AsBigFloat()
			switch {
			case mon.WholeTextInexact(f):
				c.Count("part:number:whole,text-inexact")
			case f.IsInt() && fitsInt64(f):
				c.Count("part:number:whole,int64")
			case f.IsInt():
				c.Count("part:number:whole,beyond-int64")
			case f.Prec() <= 64:
				c.Count("part:number:fraction,prec<=64")
			default:
				c.Count("part:number:fraction,prec>64")
			}
		case p.Type() == cty.String:
			c.Count("part:string")
		case p.Type() == cty.Bool:
			c.Count("part:bool")
		case p.Type().IsCollectionType() && p.LengthInt() == 0:
			c.Count("part:empty-collection")
		case p.Type().IsSetType():
			c.Count("part:set")
		case p.Type().IsListType():
			c.Count("part:list")
		case p.Type().IsMapType():
			c.Count("part:map")
		case p.Type().IsTupleType():
			c.Count("part:tuple")
		case p.Type().IsObjectType():
			c.Count("part:object")
		}
		return cty.NilVal, false
	})
}

func fitsInt64(f *big.Float) bool {
	_, acc := f.Int64()
	return acc == big.Exact
}

// diffClass narrows the class of a value mismatch: a whole number that comes
// back as another integer although its own text is not exact is F-32's class.
func diffClass(class string, d *mon.RTDiff) string {
	if d != nil && d.Kind == "number:whole" && d.Orig != cty.NilVal && d.Orig.Type() == cty.Number && d.Orig.IsKnown() && !d.Orig.IsNull() &&
		mon.WholeTextInexact(d.Orig.AsBigFloat()) {
		return class + "/whole-number-with-inexact-shortest-text"
	}
	return class
}

// roundTrip is the oracle for one (value, constraint) pair of the property's domain.
func roundTrip(c *core.Ctx, idx int64, v cty.Value, con cty.Type, simple bool) {
	class := gen.ConstraintClass(v, con)
	desc := func() string { return describe(v, con, class) }
	c.Begin(idx, desc)
	c.Count("class:" + class)
	if class == "k0" {
		countShape(c, v)
	}
	var bs []byte
	var err error
	o := core.Guard(func() { bs, err = ctyjson.Marshal(v, con) })
	c.Eval(1)
	if o.Panicked {
		c.Distinct(desc(), false)
		c.Violate("json.Marshal", "panic: "+core.PanicClass(o.PanicMsg), class, desc(), o.PanicMsg+"\n"+o.Stack)
		return
	}
	if err != nil {
		c.Distinct(desc(), false)
		c.Violate("json.Marshal", "error for a known, unmarked, capsule-free value that conforms to the constraint", class, desc(), err.Error())
		return
	}
	// clause: valid JSON
	c.Count("clause:valid-json")
	if !stdjson.Valid(bs) {
		c.Violate("json.Marshal", "output is not valid JSON", class, desc(), clipStr(string(bs), 600))
		return
	}
	// clause: plain decoding mirrors the structure
	c.Count("clause:plain-decoding-mirrors-the-value")
	if pd, perr := parseDoc(bs); perr != nil {
		c.Violate("json.Marshal", "output is not readable by the encoding/json tokenizer", class, desc(), perr.Error())
		return
	} else if f := analyse(pd); f.rawDup {
		c.Violate("json.Marshal", "output repeats an object member name", class, desc(), clipStr(string(bs), 600))
	}
	j, jerr := plainDecode(bs)
	if jerr != nil {
		c.Violate("json.Marshal", "output is not readable by encoding/json", class, desc(), jerr.Error())
		return
	}
	if cl, d := mirror(v, con, j, ""); cl != "" {
		c.Violate("json.Marshal", "plain decoding does not mirror the value: "+cl, class, desc(), d+"; bytes "+clipStr(string(bs), 600))
	}
	// clause: Unmarshal with the same constraint
	var got cty.Value
	o = core.Guard(func() { got, err = ctyjson.Unmarshal(bs, con) })
	c.Eval(1)
	if o.Panicked {
		c.Distinct(desc(), false)
		c.Violate("json.Unmarshal", "panic: "+core.PanicClass(o.PanicMsg), class, desc(), "bytes "+clipStr(string(bs), 600)+"\n"+o.PanicMsg+"\n"+o.Stack)
		return
	}
	if err != nil {
		c.Distinct(desc(), false)
		c.Violate("json.Unmarshal", "error on the encoder's own output", class, desc(), "bytes "+clipStr(string(bs), 600)+"; "+err.Error())
		return
	}
	c.Distinct(desc(), true)
	if w := mon.WellFormed(got); w != "" {
		c.CrossNote("C06", "json.Unmarshal: "+w, desc())
	}
	c.Count("clause:decoded-type-is-the-original-type")
	if !model.TypeEq(model.TNodeOf(got.Type()), model.TNodeOf(v.Type())) || !got.Type().Equals(v.Type()) {
		c.Violate("json.Unmarshal", "decoded value has another type than the original", class, desc(),
			fmt.Sprintf("original type %#v, decoded type %#v; bytes %s", v.Type(), got.Type(), clipStr(string(bs), 400)))
	} else {
		c.Count("clause:decoded-value-equals-the-original")
		if !mon.ModelEqual(got, v) {
			d := mon.RoundTripDiff(v, got, false)
			kind := "other"
			if d != nil {
				kind = d.Kind
			}
			c.Violate("json.Unmarshal", "decoded value differs from the original: "+kind, diffClass(class, d), desc(),
				fmt.Sprintf("%s; decoded %#v", d.String(), got))
		}
	}
	if simple {
		simpleCase(c, v, desc)
	}
	if c.WantSample() && class != "k0" {
		c.Sample(map[string]any{"value": fmt.Sprintf("%#v", v), "constraint": fmt.Sprintf("%#v", con), "class": class, "json": clipStr(string(bs), 300)})
	}
}

// simpleCase: SimpleJSONValue marshals with the value's own type and unmarshals
// with the implied type: "the same data but not necessarily the same type".
func simpleCase(c *core.Ctx, v cty.Value, desc func() string) {
	c.Count("clause:SimpleJSONValue")
	type holder struct {
		Name  string                  `json:"name"`
		Value ctyjson.SimpleJSONValue `json:"value"`
	}
	var bs []byte
	var err error
	o := core.Guard(func() { bs, err = stdjson.Marshal(holder{"x", ctyjson.SimpleJSONValue{Value: v}}) })
	c.Eval(1)
	if o.Panicked {
		c.Violate("json.SimpleJSONValue", "panic: "+core.PanicClass(o.PanicMsg), "k0", desc(), o.PanicMsg+"\n"+o.Stack)
		return
	}
	if err != nil {
		c.Violate("json.SimpleJSONValue", "MarshalJSON failed for a representable value", "k0", desc(), err.Error())
		return
	}
	var h holder
	o = core.Guard(func() { err = stdjson.Unmarshal(bs, &h) })
	c.Eval(1)
	if o.Panicked {
		c.Violate("json.SimpleJSONValue", "panic: "+core.PanicClass(o.PanicMsg), "k0", desc(), "bytes "+clipStr(string(bs), 400)+"\n"+o.PanicMsg+"\n"+o.Stack)
		return
	}
	if err != nil {
		c.Violate("json.SimpleJSONValue", "UnmarshalJSON failed on MarshalJSON's own output", "k0", desc(), "bytes "+clipStr(string(bs), 400)+"; "+err.Error())
		return
	}
	if kind, detail := simpleDiff(v, h.Value.Value, ""); kind != "" {
		class := "k0"
		if kind == "number:whole" && mon.HasWholeTextInexact(v) {
			class = "k0/whole-number-with-inexact-shortest-text"
		}
		c.Violate("json.SimpleJSONValue", "decoded data differs from the original data: "+kind, class, desc(), detail+fmt.Sprintf("; decoded %#v", h.Value.Value))
	}
}

// simpleDiff compares the original with its type-lossy image: lists, sets and
// tuples come back as tuples, maps and objects as objects, nulls as nulls of
// the dynamic pseudo-type, primitives unchanged.
func simpleDiff(a, b cty.Value, path string) (string, string) {
	if !b.IsKnown() {
		return "unknown", fmt.Sprintf("at %q: decoded part is unknown", path)
	}
	if a.IsNull() {
		if !b.IsNull() || b.Type() != cty.DynamicPseudoType {
			return "null", fmt.Sprintf("at %q: null came back as %#v", path, b)
		}
		return "", ""
	}
	if b.IsNull() {
		return "null", fmt.Sprintf("at %q: %#v came back as null", path, a)
	}
	t := a.Type()
	switch {
	case t.IsPrimitiveType():
		if !b.Type().Equals(t) {
			return "primitive-type", fmt.Sprintf("at %q: %#v came back as %#v", path, a, b)
		}
		if d := mon.RoundTripDiff(a, b, false); d != nil {
			return d.Kind, fmt.Sprintf("at %q: %s", path, d.Detail)
		}
	case t.IsListType() || t.IsTupleType() || t.IsSetType():
		if !b.Type().IsTupleType() {
			return "sequence-type", fmt.Sprintf("at %q: sequence came back as %#v", path, b.Type())
		}
		if a.LengthInt() != b.LengthInt() {
			return "length", fmt.Sprintf("at %q: %d members came back as %d", path, a.LengthInt(), b.LengthInt())
		}
		as, bs := a.AsValueSlice(), b.AsValueSlice()
		if t.IsSetType() {
			if !matchSimple(as, bs, make([]bool, len(bs)), 0) {
				return "set-members", fmt.Sprintf("at %q: %#v came back as %#v", path, a, b)
			}
			return "", ""
		}
		for i := range as {
			if k, d := simpleDiff(as[i], bs[i], fmt.Sprintf("%s[%d]", path, i)); k != "" {
				return k, d
			}
		}
	case t.IsMapType() || t.IsObjectType():
		if !b.Type().IsObjectType() {
			return "mapping-type", fmt.Sprintf("at %q: mapping came back as %#v", path, b.Type())
		}
		am, bm := a.AsValueMap(), b.AsValueMap()
		if len(am) != len(bm) {
			return "keys", fmt.Sprintf("at %q: %d keys came back as %d", path, len(am), len(bm))
		}
		for k, av := range am {
			bv, ok := bm[k]
			if !ok {
				return "keys", fmt.Sprintf("at %q: key %q missing", path, k)
			}
			if kk, d := simpleDiff(av, bv, fmt.Sprintf("%s[%q]", path, k)); kk != "" {
				return kk, d
			}
		}
	}
	return "", ""
}

func matchSimple(as, bs []cty.Value, used []bool, i int) bool {
	if i == len(as) {
		return true
	}
	for j := range bs {
		if used[j] {
			continue
		}
		if k, _ := simpleDiff(as[i], bs[j], ""); k == "" {
			used[j] = true
			if matchSimple(as, bs, used, i+1) {
				return true
			}
			used[j] = false
		}
	}
	return false
}

// ------------------------------------------------------------------ documents

func docCase(c *core.Ctx, idx int64) {
	r := c.RNG(idx)
	depth := 2 + r.Intn(3)
	if !c.Quick() && r.Chance(1, 4) {
		depth = 5
	}
	tree := genDoc(r, depth, 25, 30)
	var b bytes.Buffer
	render(r, tree, &b)
	checkDoc(c, idx, b.Bytes())
}

func docClass(f *docFacts) string {
	cl := "doc"
	switch {
	case f.dup && f.nonNFCKey:
		cl = "doc/repeated-name+non-NFC-name"
	case f.nonNFCKey:
		cl = "doc/non-NFC-name"
	case f.dup:
		cl = "doc/repeated-name"
	}
	return cl
}

func checkDoc(c *core.Ctx, idx int64, doc []byte) {
	desc := func() string { return "document " + string(doc) }
	c.Begin(idx, desc)
	pd, perr := parseDoc(doc)
	if perr != nil || !stdjson.Valid(doc) {
		// the grammar is supposed to produce valid JSON only: a generator defect, not a library one
		c.Count("doc:generator-produced-invalid-json")
		return
	}
	f := analyse(pd)
	class := docClass(f)
	c.Count("class:" + class)
	var ty cty.Type
	var err error
	o := core.Guard(func() { ty, err = ctyjson.ImpliedType(doc) })
	c.Eval(1)
	if o.Panicked {
		c.Violate("json.ImpliedType", "panic: "+core.PanicClass(o.PanicMsg), class, desc(), o.PanicMsg+"\n"+o.Stack)
		return
	}
	if f.conflict {
		// outside the domain: repeated names with different values. Only no-panic.
		c.Count("doc:out-of-domain(conflicting-repeats)")
		c.Distinct(string(doc), false)
		if err == nil {
			var v cty.Value
			o = core.Guard(func() { v, err = ctyjson.Unmarshal(doc, ty) })
			c.Eval(1)
			if o.Panicked {
				c.Violate("json.Unmarshal", "panic: "+core.PanicClass(o.PanicMsg), class+"/conflicting", desc(), o.PanicMsg+"\n"+o.Stack)
			} else if err == nil {
				if w := mon.WellFormed(v); w != "" {
					c.CrossNote("C06", "json.Unmarshal: "+w, desc())
				}
			}
		}
		return
	}
	c.Count("clause:implied-type-is-the-structural-type")
	if err != nil {
		c.Distinct(string(doc), false)
		c.Violate("json.ImpliedType", "error for a valid document", class, desc(), err.Error())
		return
	}
	if !model.TypeEq(model.TNodeOf(ty), f.ty) {
		c.Violate("json.ImpliedType", "implied type differs from the structural type", class, desc(), fmt.Sprintf("implied %#v, structural %s", ty, f.ty))
		return
	}
	var v cty.Value
	o = core.Guard(func() { v, err = ctyjson.Unmarshal(doc, ty) })
	c.Eval(1)
	c.Count("clause:unmarshal-with-the-implied-type-succeeds")
	if o.Panicked {
		c.Distinct(string(doc), false)
		c.Violate("json.Unmarshal", "panic: "+core.PanicClass(o.PanicMsg), class, desc(), o.PanicMsg+"\n"+o.Stack)
		return
	}
	if err != nil {
		c.Distinct(string(doc), false)
		c.Violate("json.Unmarshal", "error decoding a valid document with its implied type", class, desc(), fmt.Sprintf("implied type %#v; %v", ty, err))
		return
	}
	if w := mon.WellFormed(v); w != "" {
		c.CrossNote("C06", "json.Unmarshal: "+w, desc())
	}
	if !model.Conforms(model.TNodeOf(v.Type()), f.ty) {
		c.Violate("json.Unmarshal", "decoded value does not conform to the implied type", class, desc(), fmt.Sprintf("value type %#v, implied %#v", v.Type(), ty))
	}
	var out []byte
	o = core.Guard(func() { out, err = ctyjson.Marshal(v, ty) })
	c.Eval(1)
	c.Count("clause:re-marshalled-document-is-the-same-document")
	c.Distinct(string(doc), f.containers > 0 || f.numbers > 0)
	switch {
	case o.Panicked:
		c.Violate("json.Marshal", "panic: "+core.PanicClass(o.PanicMsg), class, desc(), o.PanicMsg+"\n"+o.Stack)
		return
	case err != nil:
		c.Violate("json.Marshal", "error re-marshalling a decoded document", class, desc(), err.Error())
		return
	}
	compareDocs(c, "json.Marshal", class, desc, f, out)

	// the same through SimpleJSONValue (encoding/json integration)
	var sv ctyjson.SimpleJSONValue
	o = core.Guard(func() { err = stdjson.Unmarshal(doc, &sv) })
	c.Eval(1)
	c.Count("clause:SimpleJSONValue(document)")
	switch {
	case o.Panicked:
		c.Violate("json.SimpleJSONValue", "panic: "+core.PanicClass(o.PanicMsg), class, desc(), o.PanicMsg+"\n"+o.Stack)
		return
	case err != nil:
		c.Violate("json.SimpleJSONValue", "UnmarshalJSON failed for a valid document", class, desc(), err.Error())
		return
	}
	if !sv.Value.Type().Equals(v.Type()) || !mon.ModelEqual(sv.Value, v) {
		c.Violate("json.SimpleJSONValue", "UnmarshalJSON disagrees with Unmarshal under the implied type", class, desc(), fmt.Sprintf("%#v vs %#v", sv.Value, v))
	}
	o = core.Guard(func() { out, err = stdjson.Marshal(sv) })
	c.Eval(1)
	switch {
	case o.Panicked:
		c.Violate("json.SimpleJSONValue", "panic: "+core.PanicClass(o.PanicMsg), class, desc(), o.PanicMsg+"\n"+o.Stack)
	case err != nil:
		c.Violate("json.SimpleJSONValue", "MarshalJSON failed for a decoded document", class, desc(), err.Error())
	default:
		compareDocs(c, "json.SimpleJSONValue", class, desc, f, out)
	}
	if c.WantSample() && f.containers > 1 {
		c.Sample(map[string]any{"document": clipStr(string(doc), 300), "implied_type": fmt.Sprintf("%#v", ty), "remarshalled": clipStr(string(out), 300)})
	}
}

func compareDocs(c *core.Ctx, site, class string, desc func() string, f *docFacts, out []byte) {
	po, err := parseDoc(out)
	if err != nil || !stdjson.Valid(out) {
		c.Violate(site, "re-marshalled document is not valid JSON", class, desc(), clipStr(string(out), 600))
		return
	}
	fo := analyse(po)
	if fo.canon != f.canon {
		c.Violate(site, "re-marshalled document differs from the original (up to key order, number spelling, NFC)", class, desc(),
			fmt.Sprintf("re-marshalled %s\ncanonical original      %s\ncanonical re-marshalled %s", clipStr(string(out), 600), clipStr(f.canon, 600), clipStr(fo.canon, 600)))
	}
}
