package c15

import (
	"bytes"
	"fmt"
	"sync"

	"github.com/zclconf/go-cty/cty"
	ctyjson "github.com/zclconf/go-cty/cty/json"

	"verif/harness/core"
	"verif/harness/model"
	"verif/harness/mon"
)

// History monitor. The round-trip property is about an encoding the caller
// holds: the value must be recoverable from the bytes it was given for as long
// as it keeps them. A result that aliases storage the library reuses later is
// invisible to "marshal, immediately unmarshal"; it needs a sequence. So the
// driver keeps the last histDepth results of Marshal / MarshalJSON exactly as
// returned, next to a private copy taken at return time, and
//
//   - after every later library call of the batch compares each retained slice
//     with its copy (hist.after);
//   - when a result leaves the window, decodes the retained slice again and
//     compares with what it decoded to when it was fresh (hist.evict);
//   - keeps the last histDepth values returned by Unmarshal with their internal
//     fingerprint (cty.VerifFingerprint) and compares again when they leave.
//
// One case marshals the same value against up to three constraints and through
// SimpleJSONValue, so a single replayed case already contains such a sequence.
const histDepth = 8

type heldBytes struct {
	site     string
	bs, snap []byte
	con      cty.Type
	decoded  bool // dec is what Unmarshal(bs, con) returned when bs was fresh
	dec      cty.Value
	desc     func() string
	reported bool
}

type heldValue struct {
	v    cty.Value
	fp   []byte
	desc func() string
}

type history struct {
	held []*heldBytes
	vals []*heldValue
}

var hist history

// hold retains a result of the library. It returns the entry so that the caller
// can attach what the bytes decoded to.
func (h *history) hold(c *core.Ctx, site string, bs []byte, con cty.Type, desc func() string) *heldBytes {
	if len(h.held) >= histDepth {
		h.evict(c, h.held[0])
		h.held = h.held[1:]
	}
	e := &heldBytes{site: site, bs: bs, snap: append([]byte(nil), bs...), con: con, desc: desc}
	h.held = append(h.held, e)
	c.Count("history:results-retained")
	return e
}

func (e *heldBytes) setDecoded(v cty.Value) { e.decoded, e.dec = true, v }

func (h *history) compare(c *core.Ctx, e *heldBytes) {
	if e.reported || bytes.Equal(e.bs, e.snap) {
		return
	}
	e.reported = true
	c.Violate(e.site, "bytes returned earlier were changed by a later library call", "history", "held result of: "+e.desc(),
		fmt.Sprintf("returned %s\nnow      %s", clipStr(string(e.snap), 600), clipStr(string(e.bs), 600)))
}

// after runs after every library call of the batch.
func (h *history) after(c *core.Ctx) {
	for _, e := range h.held {
		h.compare(c, e)
	}
	c.CountN("clause:retained-results-unchanged-after-a-later-call", int64(len(h.held)))
}

func (h *history) evict(c *core.Ctx, e *heldBytes) {
	h.compare(c, e)
	if !e.decoded || e.reported {
		return
	}
	var got cty.Value
	var err error
	o := core.Guard(func() { got, err = ctyjson.Unmarshal(e.bs, e.con) })
	c.Eval(1)
	c.Count("clause:retained-result-still-decodes-to-the-same-value")
	switch {
	case o.Panicked:
		c.Violate("json.Unmarshal", panicFacet(o.PanicMsg), "history", "held result of: "+e.desc(), o.PanicMsg+"\n"+o.Stack)
	case err != nil:
		c.Violate("json.Unmarshal", "a retained encoding no longer decodes", "history", "held result of: "+e.desc(), err.Error())
	case !got.Type().Equals(e.dec.Type()) || !mon.ModelEqual(got, e.dec):
		c.Violate("json.Unmarshal", "a retained encoding decodes to another value than when it was returned", "history", "held result of: "+e.desc(),
			fmt.Sprintf("then %#v\nnow  %#v", e.dec, got))
	}
	for _, x := range h.held {
		if x != e {
			h.compare(c, x)
		}
	}
}

// holdValue retains a value returned by Unmarshal together with its internal fingerprint.
func (h *history) holdValue(c *core.Ctx, v cty.Value, desc func() string) {
	if len(h.vals) >= histDepth {
		h.checkValue(c, h.vals[0])
		h.vals = h.vals[1:]
	}
	h.vals = append(h.vals, &heldValue{v: v, fp: cty.VerifFingerprint(v), desc: desc})
}

func (h *history) checkValue(c *core.Ctx, e *heldValue) {
	c.Count("clause:retained-decoded-value-unchanged")
	if !bytes.Equal(cty.VerifFingerprint(e.v), e.fp) {
		c.Violate("json.Unmarshal", "a value returned earlier was changed by a later library call", "history", "decoded from: "+e.desc(), fmt.Sprintf("now %#v", e.v))
	}
}

// flush checks and releases everything still retained (end of the batch).
func (h *history) flush(c *core.Ctx) {
	for _, e := range h.held {
		h.evict(c, e)
	}
	for _, e := range h.vals {
		h.checkValue(c, e)
	}
	h.held, h.vals = nil, nil
}

// ---------------------------------------------------------------- concurrent stage

const concBase = int64(200_000_000)

type concItem struct {
	v       cty.Value
	con     cty.Type
	bytes   string
	dec     cty.Value
	decFail bool
}

// concurrentStage: concG goroutines do plain Marshal -> Unmarshal round trips on
// disjoint values; every result must be what the same calls gave sequentially.
// Only results are compared (no timing), so the verdict on a correct library
// does not depend on the schedule.
func concurrentStage(c *core.Ctx) {
	if !c.Want(concBase) {
		return
	}
	const concG = 4
	per, rounds := c.N(150, 600), 3
	c.Begin(concBase, func() string {
		return fmt.Sprintf("%d goroutines x %d values x %d rounds of Marshal->Unmarshal, compared with the sequential baseline", concG, per, rounds)
	})
	items := make([][]concItem, concG)
	for g := range items {
		r := c.RNG(concBase + 1 + int64(g))
		for tries := 0; len(items[g]) < per && tries < 20*per; tries++ {
			v := genValue(c, r)
			if hasInfinity(v) {
				continue
			}
			con := pickConstraint(r, v)
			var bs []byte
			var err error
			o := core.Guard(func() { bs, err = ctyjson.Marshal(v, con) })
			c.Eval(1)
			if o.Panicked || err != nil {
				continue // reported by the sequential cases
			}
			it := concItem{v: v, con: con, bytes: string(bs)}
			o = core.Guard(func() { it.dec, err = ctyjson.Unmarshal([]byte(it.bytes), con) })
			c.Eval(1)
			if o.Panicked {
				continue
			}
			it.decFail = err != nil
			items[g] = append(items[g], it)
		}
	}
	type problem struct{ facet, witness, detail string }
	probs := make([][]problem, concG)
	var wg sync.WaitGroup
	for g := 0; g < concG; g++ {
		wg.Add(1)
		go func(g int) {
			defer wg.Done()
			add := func(it concItem, facet, detail string) {
				if len(probs[g]) < 3 {
					probs[g] = append(probs[g], problem{facet, describe(it.v, it.con, "concurrent"), detail})
				}
			}
			for round := 0; round < rounds; round++ {
				for _, it := range items[g] {
					var bs []byte
					var got cty.Value
					var err, uerr error
					o := core.Guard(func() {
						bs, err = ctyjson.Marshal(it.v, it.con)
						if err == nil {
							got, uerr = ctyjson.Unmarshal(bs, it.con)
						}
					})
					switch {
					case o.Panicked:
						add(it, "panic in a concurrent round trip", o.PanicMsg)
					case err != nil:
						add(it, "concurrent Marshal failed where the sequential call succeeded", err.Error())
					case string(bs) != it.bytes:
						add(it, "concurrent Marshal result differs from the sequential result", fmt.Sprintf("sequential %s\nconcurrent %s", clipStr(it.bytes, 400), clipStr(string(bs), 400)))
					case (uerr != nil) != it.decFail:
						add(it, "concurrent Unmarshal outcome differs from the sequential outcome", fmt.Sprintf("error %v", uerr))
					case uerr == nil && (!model.TypeEq(model.TNodeOf(got.Type()), model.TNodeOf(it.dec.Type())) || !mon.ModelEqual(got, it.dec)):
						add(it, "concurrent round trip returns another value than the sequential one", fmt.Sprintf("sequential %#v\nconcurrent %#v", it.dec, got))
					}
				}
			}
		}(g)
	}
	wg.Wait()
	n := 0
	for g := range items {
		n += len(items[g])
	}
	c.Eval(2 * n * rounds)
	c.CountN("clause:concurrent-round-trips-agree-with-the-sequential-baseline", int64(n*rounds))
	c.Distinct(fmt.Sprintf("concurrent stage batch %d", c.Batch), n > 0)
	for g := range probs {
		for _, p := range probs[g] {
			c.Violate("json.Marshal", p.facet, "concurrent", p.witness, p.detail)
		}
	}
}
