package c15

import (
	"bytes"
	"encoding/json"
	"fmt"
	"io"
	"math/big"
	"sort"
	"strings"
	"unicode/utf8"

	"golang.org/x/text/unicode/norm"

	"verif/harness/core"
	"verif/harness/gen"
	"verif/harness/model"
)

// dnode is a JSON document tree: what the grammar generates and also what the
// token-level reader (encoding/json only) returns for a byte buffer.
type dnode struct {
	kind  byte // 'n' null, 'b' bool, '#' number, 's' string, 'a' array, 'o' object
	b     bool
	text  string // number spelling, or the decoded string
	elems []*dnode
	keys  []string // decoded member names of an object, parallel to elems (duplicates kept, in order)
}

// ---------------------------------------------------------------- generator

var docKeyPool = []string{"a", "b", "c", "k", "", "\u00e9", "e\u0301", "long-key", "value", "type", "<&>", "\n", "\U0001F44D\U0001F3FD", "A", "0",
	"\u1e69", "s\u0323\u0307", "\uac01", "\u1100\u1161\u11a8"}

// genDoc draws a document tree. dupPct is the chance (percent) that an object
// gets an extra member repeating an earlier name (possibly in the other
// normalization form); conflictPct of those carry a different value.
func genDoc(r *core.Rand, depth int, dupPct, conflictPct int) *dnode {
	k := r.Intn(12)
	if depth <= 1 && k >= 7 {
		k = r.Intn(7)
	}
	switch {
	case k == 0:
		return &dnode{kind: 'n'}
	case k == 1:
		return &dnode{kind: 'b', b: r.Bool()}
	case k <= 4:
		return &dnode{kind: '#', text: genNumberSpelling(r)}
	case k <= 6:
		return &dnode{kind: 's', text: genDocString(r)}
	case k <= 8:
		n := r.Intn(4)
		a := &dnode{kind: 'a'}
		for i := 0; i < n; i++ {
			a.elems = append(a.elems, genDoc(r, depth-1, dupPct, conflictPct))
		}
		return a
	default:
		n := r.Intn(4)
		o := &dnode{kind: 'o'}
		for i := 0; i < n; i++ {
			o.keys = append(o.keys, docKeyPool[r.Intn(len(docKeyPool))])
			o.elems = append(o.elems, genDoc(r, depth-1, dupPct, conflictPct))
		}
		if len(o.keys) > 0 && r.Chance(dupPct, 100) {
			i := r.Intn(len(o.keys))
			name := o.keys[i]
			if r.Bool() { // the twin in the other normalization form, if there is one
				if d := norm.NFD.String(name); d != name {
					name = d
				} else if c := norm.NFC.String(name); c != name {
					name = c
				}
			}
			var val *dnode
			if r.Chance(conflictPct, 100) {
				val = genDoc(r, depth-1, 0, 0)
			} else {
				val = o.elems[i] // the same subtree: not conflicting (it may be re-spelled by the renderer)
			}
			at := r.Intn(len(o.keys) + 1)
			o.keys = append(o.keys[:at], append([]string{name}, o.keys[at:]...)...)
			o.elems = append(o.elems[:at], append([]*dnode{val}, o.elems[at:]...)...)
		}
		return o
	}
}

func digits(r *core.Rand, n int, firstNonZero bool) string {
	b := make([]byte, n)
	for i := range b {
		b[i] = byte('0' + r.Intn(10))
	}
	if firstNonZero && n > 0 && b[0] == '0' {
		b[0] = byte('1' + r.Intn(9))
	}
	return string(b)
}

var fixedSpellings = []string{"0", "-0", "0.0", "-0.0e0", "1", "-1", "10", "1e2", "1E2", "1e+2", "100e-2", "1.50", "0.1", "0.10", "1e-7", "0.0000001",
	"9223372036854775807", "9223372036854775808", "-9223372036854775808", "18446744073709551615", "18446744073709551616", "9007199254740993",
	"1e23", "1e300", "1E-300", "1e350", "123456789.123456789", "0.12345678905", "1.00000000001", "3.14159", "1000000000000000000000000000000",
	"0.3", "2.5", "-2.5", "1.7976931348623157e308", "5e-324", "4.9406564584124654e-324", "12345678901234567890123456789012345678", "0e0", "0E-350"}

// genNumberSpelling draws a number token of the JSON grammar with at most ~40
// significant digits and a decimal exponent within +-350.
func genNumberSpelling(r *core.Rand) string {
	if r.Chance(1, 3) {
		return fixedSpellings[r.Intn(len(fixedSpellings))]
	}
	var b strings.Builder
	if r.Chance(1, 3) {
		b.WriteByte('-')
	}
	if r.Chance(1, 5) {
		b.WriteByte('0')
	} else {
		b.WriteString(digits(r, 1+r.Intn([]int{3, 3, 9, 19, 30}[r.Intn(5)]), true))
	}
	if r.Chance(2, 5) {
		b.WriteByte('.')
		b.WriteString(digits(r, 1+r.Intn([]int{2, 5, 12}[r.Intn(3)]), false))
	}
	if r.Chance(1, 4) {
		b.WriteByte("eE"[r.Intn(2)])
		switch r.Intn(3) {
		case 0:
			b.WriteByte('+')
		case 1:
			b.WriteByte('-')
		}
		e := r.Intn(20)
		if r.Chance(1, 5) {
			e = r.Intn(331)
		}
		if r.Chance(1, 6) {
			b.WriteByte('0') // leading zero in the exponent is allowed
		}
		fmt.Fprintf(&b, "%d", e)
	}
	return b.String()
}

var docStringPool = []string{"", "a", "value", "type", "\u00e9", "e\u0301", "\u212b", "\u2126", "\ufb01", "<script>&", "  ", "tab\there", "quote\"back\\slash/", "\r\n",
	"\U0001F468\u200d\U0001F469", "1", "true", "null", "\u0000", "\u001f", "\u007f", "\ufffd", "\uffff", "\U0010FFFF", "\u2028\u2029", "\u1e69", "s\u0307\u0323", "\u1100\u1161\u11a8"}

func genDocString(r *core.Rand) string {
	if r.Chance(1, 3) {
		return docStringPool[r.Intn(len(docStringPool))]
	}
	return gen.String(r, 8)
}

// render writes the tree as JSON text with random insignificant whitespace and
// random (valid) spellings of string characters.
func render(r *core.Rand, n *dnode, b *bytes.Buffer) {
	ws := func() {
		if r.Chance(1, 6) {
			b.WriteString([]string{" ", "\n", "\t", "\r\n", "  "}[r.Intn(5)])
		}
	}
	ws()
	switch n.kind {
	case 'n':
		b.WriteString("null")
	case 'b':
		if n.b {
			b.WriteString("true")
		} else {
			b.WriteString("false")
		}
	case '#':
		b.WriteString(n.text)
	case 's':
		renderString(r, n.text, b)
	case 'a':
		b.WriteByte('[')
		for i, e := range n.elems {
			if i > 0 {
				b.WriteByte(',')
			}
			render(r, e, b)
		}
		ws()
		b.WriteByte(']')
	case 'o':
		b.WriteByte('{')
		for i, e := range n.elems {
			if i > 0 {
				b.WriteByte(',')
			}
			ws()
			renderString(r, n.keys[i], b)
			ws()
			b.WriteByte(':')
			render(r, e, b)
		}
		ws()
		b.WriteByte('}')
	}
	ws()
}

func renderString(r *core.Rand, s string, b *bytes.Buffer) {
	b.WriteByte('"')
	for _, c := range s {
		switch {
		case c == '"':
			b.WriteString(`\"`)
		case c == '\\':
			b.WriteString(`\\`)
		case c == '/' && r.Bool():
			b.WriteString(`\/`)
		case c == '\n' && r.Bool():
			b.WriteString(`\n`)
		case c == '\r' && r.Bool():
			b.WriteString(`\r`)
		case c == '\t' && r.Bool():
			b.WriteString(`\t`)
		case c < 0x20 || r.Chance(1, 8):
			if c > 0xFFFF {
				c2 := c - 0x10000
				fmt.Fprintf(b, `\u%04x\u%04X`, 0xD800+(c2>>10), 0xDC00+(c2&0x3FF))
			} else {
				fmt.Fprintf(b, `\u%04x`, c)
			}
		default:
			var buf [4]byte
			k := utf8.EncodeRune(buf[:], c)
			b.Write(buf[:k])
		}
	}
	b.WriteByte('"')
}

// ------------------------------------------------------------------- reader

// parseDoc reads a buffer with encoding/json's tokenizer only, keeping member
// order and duplicate names.
func parseDoc(buf []byte) (*dnode, error) {
	dec := json.NewDecoder(bytes.NewReader(buf))
	dec.UseNumber()
	n, err := parseVal(dec)
	if err != nil {
		return nil, err
	}
	if _, err := dec.Token(); err != io.EOF {
		return nil, fmt.Errorf("trailing data after the JSON value")
	}
	return n, nil
}

func parseVal(dec *json.Decoder) (*dnode, error) {
	tok, err := dec.Token()
	if err != nil {
		return nil, err
	}
	switch t := tok.(type) {
	case nil:
		return &dnode{kind: 'n'}, nil
	case bool:
		return &dnode{kind: 'b', b: t}, nil
	case json.Number:
		return &dnode{kind: '#', text: string(t)}, nil
	case string:
		return &dnode{kind: 's', text: t}, nil
	case json.Delim:
		switch t {
		case '[':
			n := &dnode{kind: 'a'}
			for dec.More() {
				e, err := parseVal(dec)
				if err != nil {
					return nil, err
				}
				n.elems = append(n.elems, e)
			}
			if _, err := dec.Token(); err != nil {
				return nil, err
			}
			return n, nil
		case '{':
			n := &dnode{kind: 'o'}
			for dec.More() {
				kt, err := dec.Token()
				if err != nil {
					return nil, err
				}
				k, ok := kt.(string)
				if !ok {
					return nil, fmt.Errorf("object member name is %T", kt)
				}
				e, err := parseVal(dec)
				if err != nil {
					return nil, err
				}
				n.keys = append(n.keys, k)
				n.elems = append(n.elems, e)
			}
			if _, err := dec.Token(); err != nil {
				return nil, err
			}
			return n, nil
		}
	}
	return nil, fmt.Errorf("unexpected token %v", tok)
}

// docFacts is what the oracle needs to know about a document.
type docFacts struct {
	conflict   bool // some object repeats a name (after NFC) with a different value: outside the property's domain
	dup        bool // some object repeats a name (after NFC)
	rawDup     bool // some object repeats a name byte for byte
	nonNFCKey  bool // some member name is not in NFC
	nonNFCStr  bool
	containers int
	nulls      int
	numbers    int
	canon      string
	ty         *model.TNode
}

// analyse computes the canonical form (key order, number spelling, NFC and
// non-conflicting repeats factored out) and the structural type of a document:
// null -> dynamic, bool/number/string -> the primitive, array -> tuple of the
// member types, object -> object type of the (NFC) member names.
func analyse(n *dnode) *docFacts {
	f := &docFacts{}
	f.canon, f.ty = f.walk(n)
	return f
}

func (f *docFacts) walk(n *dnode) (string, *model.TNode) {
	switch n.kind {
	case 'n':
		f.nulls++
		return "null", model.TDynamic
	case 'b':
		if n.b {
			return "true", model.TBool
		}
		return "false", model.TBool
	case '#':
		f.numbers++
		q, ok := new(big.Rat).SetString(n.text)
		if !ok {
			return "#unparsable:" + n.text, model.TNumber
		}
		return "#" + q.RatString(), model.TNumber
	case 's':
		s := norm.NFC.String(n.text)
		if s != n.text {
			f.nonNFCStr = true
		}
		return fmt.Sprintf("%q", s), model.TString
	case 'a':
		f.containers++
		t := &model.TNode{K: model.KTuple}
		parts := make([]string, len(n.elems))
		for i, e := range n.elems {
			var et *model.TNode
			parts[i], et = f.walk(e)
			t.Elems = append(t.Elems, et)
		}
		return "[" + strings.Join(parts, ",") + "]", t
	case 'o':
		f.containers++
		t := &model.TNode{K: model.KObject, Attrs: map[string]*model.TNode{}}
		seen := map[string]string{}
		raw := map[string]bool{}
		for i, e := range n.elems {
			k := norm.NFC.String(n.keys[i])
			if k != n.keys[i] {
				f.nonNFCKey = true
			}
			if raw[n.keys[i]] {
				f.rawDup = true
			}
			raw[n.keys[i]] = true
			cs, et := f.walk(e)
			if prev, ok := seen[k]; ok {
				f.dup = true
				if prev != cs {
					f.conflict = true
				}
			}
			seen[k] = cs
			t.Attrs[k] = et
		}
		ks := make([]string, 0, len(seen))
		for k := range seen {
			ks = append(ks, k)
		}
		sort.Strings(ks)
		parts := make([]string, len(ks))
		for i, k := range ks {
			parts[i] = fmt.Sprintf("%q:%s", k, seen[k])
		}
		return "{" + strings.Join(parts, ",") + "}", t
	}
	return "?", model.TDynamic
}
