package c12

// Chained calls: histories in which the result of one call is an argument of a
// later call of another function, on the concrete side and on the weakened
// side at once.
//
// A chain keeps two values per expression: the concrete (wholly known) value
// and a weakening of it (typed unknowns that admit it). A step calls a function
// on concrete values and on their weakenings; clauses (i)-(iii) are applied by
// concrete() and pairR() as for any other pair, and then the concrete result
// and the ABSTRACT result become the two sides of a new expression. By clause
// (ii) the abstract result admits the concrete one, so it is again a weakening
// in the sense of the property, and the next function sees unknown values the
// library itself produced (their types are the types the functions predicted,
// their refinements the ones the functions attached) instead of unknowns built
// by the generator.
//
// What a later call may do to values handed out earlier is observed after
// every step:
//
//   - earlier pairs re-checked: the abstract result of an earlier step must
//     still admit the concrete result of that step;
//   - one earlier concrete call repeated: same arguments, same result;
//   - the types and the internal state of every value in play (original
//     arguments, their weakenings, earlier results) must read the same as
//     when they were handed out, and the values must stay well-formed.

import (
	"fmt"
	"strings"

	"github.com/zclconf/go-cty/cty"

	"verif/harness/core"
	"verif/harness/gen"
	"verif/harness/mon"
)

const (
	facetChainType    = "the type of a value in play (argument, its weakening or an earlier result) reads differently after a later call"
	facetChainValue   = "a value in play (argument, its weakening or an earlier result) changed or is no longer well-formed after a later call"
	facetChainRecheck = siteFacetAdmit + ", re-checked for an earlier pair of the chain after this call"
	facetChainRepeat  = "call on wholly known arguments gave another result than the same call gave earlier in the chain"
	facetChainRefail  = "call on wholly known arguments failed when repeated later in the chain although it succeeded the first time"
	classChain        = "chained calls"

	quickChains    = 1200 // per batch
	thoroughChains = 6000
)

type slotKind int

const (
	kSeq     slotKind = iota // list or tuple
	kSeqs                    // 1..3 of them (variadic)
	kColl                    // list, set or tuple
	kColls                   // 2..3 of them
	kMapObj                  // map or object
	kMapObjs                 // 1..3 of them
	kIdx                     // a fresh small index (within the first argument's length as a rule)
	kSize                    // a fresh size 1..3
	kKey                     // a fresh key (one of the first argument's keys as a rule)
	kAny
)

type chainFn struct {
	name   string
	slots  []slotKind
	weight int
}

// chainFns are the functions whose result type is derived from the argument
// types (sequence and collection functions). Weights favour the ones that
// build structural types out of the arguments' structural types.
var chainFns = []chainFn{
	{"slice", []slotKind{kSeq, kIdx, kIdx}, 3},
	{"concat", []slotKind{kSeqs}, 3},
	{"chunklist", []slotKind{kSeq, kSize}, 1},
	{"flatten", []slotKind{kColl}, 2},
	{"reverselist", []slotKind{kColl}, 2},
	{"setproduct", []slotKind{kColls}, 2},
	{"coalescelist", []slotKind{kSeqs}, 2},
	{"merge", []slotKind{kMapObjs}, 2},
	{"values", []slotKind{kMapObj}, 1},
	{"keys", []slotKind{kMapObj}, 1},
	{"zipmap", []slotKind{kSeq, kSeq}, 2},
	{"element", []slotKind{kSeq, kIdx}, 1},
	{"index", []slotKind{kSeq, kIdx}, 1},
	{"lookup", []slotKind{kMapObj, kKey, kAny}, 1},
	{"length", []slotKind{kColl}, 1},
	{"distinct", []slotKind{kSeq}, 1},
	{"compact", []slotKind{kSeq}, 1},
	{"coalesce", []slotKind{kAny, kAny}, 1},
	{"setunion", []slotKind{kColls}, 1},
}

func slotFits(k slotKind, ty cty.Type) bool {
	switch k {
	case kSeq, kSeqs:
		return ty.IsListType() || ty.IsTupleType()
	case kColl, kColls:
		return ty.IsListType() || ty.IsTupleType() || ty.IsSetType()
	case kMapObj, kMapObjs:
		return ty.IsMapType() || ty.IsObjectType()
	case kAny:
		return true
	}
	return false
}

// chainEntry is one expression of a chain.
type chainEntry struct {
	conc   cty.Value // its value
	abs    cty.Value // a weakening of it: admits conc, typed unknowns only
	origin string
}

type watchedType struct {
	what string
	ty   cty.Type
	fp   string
	text string
}

type watchedValue struct {
	what string
	v    cty.Value
	fp   string
	text string
}

type chainStep struct {
	fd    *fnDef
	argsC []cty.Value
	text  string
	cres  cty.Value
	ctyFP string    // fingerprint of the concrete result's type when it was returned
	ares  cty.Value // NilVal when the step had no weakened call
}

type chain struct {
	pool   []chainEntry
	types  []watchedType
	values []watchedValue
	steps  []chainStep
	log    []string
}

func typeFP(t cty.Type) (fp string) {
	o := core.Guard(func() { fp = string(cty.VerifTypeFingerprint(t)) })
	if o.Panicked {
		return "<fingerprint panicked: " + o.PanicMsg + ">"
	}
	return fp
}

func valueFP(v cty.Value) (fp string) {
	o := core.Guard(func() { fp = string(cty.VerifFingerprint(v)) })
	if o.Panicked {
		return "<fingerprint panicked: " + o.PanicMsg + ">"
	}
	return fp
}

func (ch *chain) watchType(what string, t cty.Type) {
	if t == cty.NilType {
		return
	}
	ch.types = append(ch.types, watchedType{what, t, typeFP(t), fmt.Sprintf("%#v", t)})
}

func (ch *chain) watchValue(what string, v cty.Value) {
	if v == cty.NilVal {
		return
	}
	ch.values = append(ch.values, watchedValue{what, v, valueFP(v), fmt.Sprintf("%#v", v)})
	ch.watchType("type of "+what, v.Type())
}

func (ch *chain) add(e chainEntry) {
	k := len(ch.pool)
	ch.pool = append(ch.pool, e)
	ch.watchValue(fmt.Sprintf("e%d (%s)", k, e.origin), e.conc)
	ch.watchValue(fmt.Sprintf("weakened e%d (%s)", k, e.origin), e.abs)
}

func (ch *chain) text() string { return strings.Join(ch.log, " ; ") }

func chainStartTuple(r *core.Rand) cty.Type {
	n := 2 + r.Intn(3)
	ts := make([]cty.Type, n)
	prims := []cty.Type{cty.String, cty.Number, cty.Bool}
	for i := range ts {
		switch {
		case r.Chance(1, 8):
			ts[i] = gen.Type(r, 2, gen.TypeOpts{}).Cty()
		default:
			ts[i] = prims[r.Intn(3)]
		}
	}
	return cty.Tuple(ts)
}

func chainStart(r *core.Rand, ch *chain) {
	vo := gen.ValueOpts{SmallNums: true, MaxLen: 3, NoTopNull: true, NoBig: true, NullPct: 3}
	prims := []cty.Type{cty.String, cty.Number, cty.Bool}
	var tys []cty.Type
	tys = append(tys, chainStartTuple(r))
	if r.Bool() {
		tys = append(tys, chainStartTuple(r))
	}
	tys = append(tys, cty.List(prims[r.Intn(3)]))
	if r.Bool() {
		tys = append(tys, cty.Map(prims[r.Intn(3)]))
	} else {
		tys = append(tys, gen.ObjectType(r, 2, gen.TypeOpts{}).Cty())
	}
	switch r.Intn(4) {
	case 0:
		tys = append(tys, cty.Set(prims[r.Intn(3)]))
	case 1:
		tys = append(tys, cty.List(cty.String))
	case 2:
		tys = append(tys, cty.List(chainStartTuple(r)))
	}
	for _, i := range r.Perm(len(tys)) {
		ty := tys[i]
		if ty.HasDynamicTypes() {
			continue
		}
		conc := gen.Value(r, ty, vo)
		if !conc.IsWhollyKnown() {
			continue
		}
		abs := conc
		switch r.Intn(8) {
		case 0:
		case 1, 2:
			abs = gen.AdmittingUnknown(r, conc, true, false)
		case 3:
			abs, _ = gen.Weaken(r, conc, gen.WeakenOpts{Pct: 30, Refined: true, TypedOnly: true, ForceOne: true, InflateSets: true})
		default:
			// the same cty.Type as the value has
			abs = cty.UnknownVal(conc.Type())
		}
		if mon.Admits(abs, conc) != "" || introducesDynamic(abs, conc) {
			abs = cty.UnknownVal(conc.Type())
		}
		ch.add(chainEntry{conc, abs, "start"})
	}
}

// pick chooses a pool entry fitting k; the latest fitting entry half of the time.
func (ch *chain) pick(r *core.Rand, k slotKind) int {
	var fit []int
	for i, e := range ch.pool {
		if slotFits(k, e.conc.Type()) {
			fit = append(fit, i)
		}
	}
	if len(fit) == 0 {
		return -1
	}
	if r.Bool() {
		return fit[len(fit)-1]
	}
	return fit[r.Intn(len(fit))]
}

func chainLen(v cty.Value) int {
	n := 0
	core.Guard(func() {
		if v.IsKnown() && !v.IsNull() && (v.Type().IsCollectionType() || v.Type().IsTupleType()) {
			n = v.LengthInt()
		}
	})
	return n
}

func firstKeys(v cty.Value) []string {
	var ks []string
	core.Guard(func() {
		if v.IsKnown() && !v.IsNull() && (v.Type().IsMapType() || v.Type().IsObjectType()) {
			for it := v.ElementIterator(); it.Next(); {
				k, _ := it.Element()
				ks = append(ks, k.AsString())
			}
		}
	})
	return ks
}

// buildArgs fills the slots of f; -1 in from means a fresh literal. ok is false
// when the pool has nothing for a slot.
func (ch *chain) buildArgs(r *core.Rand, f chainFn, carry int) (argsC, argsA []cty.Value, from []int, ok bool) {
	carryUsed := carry < 0
	put := func(i int) {
		e := ch.pool[i]
		argsC = append(argsC, e.conc)
		if r.Chance(1, 5) {
			argsA = append(argsA, e.conc)
		} else {
			argsA = append(argsA, e.abs)
		}
		from = append(from, i)
	}
	lit := func(v cty.Value) {
		argsC = append(argsC, v)
		argsA = append(argsA, v)
		from = append(from, -1)
	}
	choose := func(k slotKind) bool {
		if !carryUsed && slotFits(k, ch.pool[carry].conc.Type()) {
			carryUsed = true
			put(carry)
			return true
		}
		i := ch.pick(r, k)
		if i < 0 {
			return false
		}
		put(i)
		return true
	}
	var idxs []int
	for _, k := range f.slots {
		switch k {
		case kSeq, kColl, kMapObj, kAny:
			if !choose(k) {
				return nil, nil, nil, false
			}
		case kSeqs, kMapObjs, kColls:
			n := 1 + r.Intn(3)
			if k == kColls {
				n = 2 + r.Intn(2)
			}
			for j := 0; j < n; j++ {
				if !choose(k) {
					return nil, nil, nil, false
				}
			}
		case kIdx:
			n := chainLen(argsC[0])
			v := r.Intn(4)
			if r.Chance(4, 5) {
				v = r.Intn(n + 1)
			}
			idxs = append(idxs, len(argsC))
			lit(cty.NumberIntVal(int64(v)))
		case kSize:
			lit(cty.NumberIntVal(int64(1 + r.Intn(3))))
		case kKey:
			ks := firstKeys(argsC[0])
			key := gen.SimpleKey(r)
			if len(ks) > 0 && r.Chance(4, 5) {
				key = ks[r.Intn(len(ks))]
			}
			lit(cty.StringVal(key))
		}
	}
	if len(idxs) == 2 {
		// a range: start <= end as a rule
		a, b := argsC[idxs[0]], argsC[idxs[1]]
		if a.AsBigFloat().Cmp(b.AsBigFloat()) > 0 && r.Chance(9, 10) {
			argsC[idxs[0]], argsC[idxs[1]] = b, a
			argsA[idxs[0]], argsA[idxs[1]] = b, a
		}
	}
	return argsC, argsA, from, true
}

func rawSame(a, b []cty.Value) bool {
	for i := range a {
		if !a[i].RawEquals(b[i]) {
			return false
		}
	}
	return true
}

func runChains(c *core.Ctx, base int64) {
	n := int64(c.N(quickChains, thoroughChains))
	for i := int64(0); i < n; i++ {
		idx := base + i
		if !c.Want(idx) {
			continue
		}
		r := c.RNG(idx)
		o := core.Guard(func() { runChain(c, idx, r) })
		if o.Panicked {
			c.Count("chain:harness-panicked")
			c.Violate("harness", "harness: chain runner panicked", "chain", fmt.Sprintf("chain case %d", idx), o.PanicMsg+"\n"+o.Stack)
		}
	}
}

func runChain(c *core.Ctx, idx int64, r *core.Rand) {
	ch := &chain{}
	chainStart(r, ch)
	for k, e := range ch.pool {
		ch.log = append(ch.log, fmt.Sprintf("e%d = %#v [weakened %#v]", k, e.conc, e.abs))
	}
	c.Count("chains")
	totalW := 0
	for _, f := range chainFns {
		totalW += f.weight
	}
	nsteps := 3 + r.Intn(4)
	for s := 0; s < nsteps; s++ {
		carry := -1
		if r.Chance(3, 4) {
			carry = len(ch.pool) - 1
		}
		var f chainFn
		found := false
		for try := 0; try < 8 && !found; try++ {
			w := r.Intn(totalW)
			for _, cf := range chainFns {
				if w < cf.weight {
					f = cf
					break
				}
				w -= cf.weight
			}
			if carry < 0 {
				found = true
				break
			}
			for _, k := range f.slots {
				if slotFits(k, ch.pool[carry].conc.Type()) {
					found = true
					break
				}
			}
		}
		if !found {
			c.Count("chain:no-function-for-the-carried-value")
			continue
		}
		fd := fnByName(f.name)
		if fd == nil {
			c.Count("chain:function-not-in-registry:" + f.name)
			continue
		}
		argsC, argsA, from, ok := ch.buildArgs(r, f, carry)
		if !ok {
			c.Count("chain:no-fitting-expression")
			continue
		}
		refs := make([]string, len(from))
		chained := false
		for j, fi := range from {
			if fi < 0 {
				refs[j] = fmt.Sprintf("%#v", argsC[j])
				continue
			}
			refs[j] = fmt.Sprintf("e%d", fi)
			if !argsA[j].RawEquals(argsC[j]) {
				refs[j] += "/weakened"
			}
			if ch.pool[fi].origin != "start" {
				chained = true
			}
		}
		stepText := fmt.Sprintf("e%d = %s(%s)", len(ch.pool), f.name, strings.Join(refs, ", "))
		ch.log = append(ch.log, stepText)
		c.Count("chain-step:" + f.name)
		if chained {
			c.Count("chain-step:argument-from-an-earlier-step")
			if len(ch.steps) > 0 {
				c.Count("chain-link:" + ch.steps[len(ch.steps)-1].fd.name + "->" + f.name)
			}
		}
		site := "stdlib." + fd.name

		cres, cok := concrete(c, idx, fd, argsC)
		if !cok {
			c.Count("chain:step-without-a-result")
			ch.log[len(ch.log)-1] = "(failed, not kept) " + stepText
			if !ch.recheck(c, r, site) {
				return
			}
			continue
		}
		st := chainStep{fd: fd, argsC: argsC, text: stepText, cres: cres, ctyFP: typeFP(cres.Type()), ares: cty.NilVal}
		abs := cty.UnknownVal(cres.Type())
		if !rawSame(argsC, argsA) {
			valid, ares, aok := pairR(c, idx, fd, argsC, cres, argsA, "chained")
			if valid {
				c.Count("chain:pairs")
			}
			if valid && aok {
				st.ares = ares
				if mon.Admits(ares, cres) != "" {
					// reported by pairR; nothing sound can be built on it
					c.Count("chain:stopped-after-a-violation")
					return
				}
				if !setCountsPossible(ares, cres) {
					// mon.Admits reads sets weakly (necessary conditions only), so it lets an abstract set with a
					// stored member stand for an EMPTY concrete set - which is what the listed finding F-112a
					// (setproduct refines / collapses to "at least one element") produces. Such a result is reported
					// at its own step where the relation sees it; nothing sound can be built on it, and feeding it to
					// a later function would only report the same defect again under that function's name
					// (thorough, seed 1: length(SetVal([unknown tuple])) = 1 for the concrete empty set).
					c.Count("chain:abstract-result-too-narrow-to-build-on(set member count)")
				} else if !introducesDynamic(ares, cres) && r.Chance(3, 4) {
					abs = ares
				}
			}
		}
		if r.Chance(1, 6) {
			abs = cres
		}
		ch.steps = append(ch.steps, st)
		if cres.IsWhollyKnown() && chainLen(cres) <= 12 && !cres.Type().IsCapsuleType() {
			ch.add(chainEntry{cres, abs, f.name})
			c.Count("chain:expressions-added")
		} else {
			ch.log[len(ch.log)-1] = "(not kept) " + stepText
			if st.ares != cty.NilVal {
				ch.watchValue("abstract result of "+stepText, st.ares)
			}
			ch.watchValue("concrete result of "+stepText, cres)
		}
		c.Begin(idx, func() string { return ch.text() })
		if !ch.recheck(c, r, site) {
			c.Count("chain:stopped-after-a-violation")
			return
		}
	}
	c.Count("chain:completed")
}

// recheck holds everything handed out so far against what it was when it was
// handed out. site is the function called last (the one after which a change is
// observed). It returns false when something was reported.
func (ch *chain) recheck(c *core.Ctx, r *core.Rand, site string) bool {
	okAll := true
	// (1) earlier pairs: the abstract result still admits the concrete result
	for j := 0; j+1 < len(ch.steps); j++ {
		st := ch.steps[j]
		if st.ares == cty.NilVal {
			continue
		}
		c.Count("clause:chain:earlier-abstract-result-still-admits-concrete-result")
		why := ""
		o := core.Guard(func() { why = mon.Admits(st.ares, st.cres) })
		if o.Panicked {
			why = "comparison panicked: " + o.PanicMsg
		}
		if why != "" {
			c.Violate(site, facetChainRecheck, classChain, ch.text(),
				fmt.Sprintf("earlier step %q (%s): concrete result now reads %s; abstract result now reads %s; %s", st.text, st.fd.name, valueFP(st.cres), valueFP(st.ares), why))
			okAll = false
			break
		}
	}
	// (2) one earlier concrete call repeated
	if len(ch.steps) >= 2 {
		st := ch.steps[r.Intn(len(ch.steps)-1)]
		res := call(c, st.fd.fn, append([]cty.Value(nil), st.argsC...))
		c.Count("clause:chain:same-known-list-same-outcome")
		switch {
		case res.panicked:
			c.Violate("stdlib."+st.fd.name, facetChainRefail, core.PanicClass(res.panicMsg)+" | "+classChain, ch.text(),
				fmt.Sprintf("step %q repeated after the call of %s: Go panic: %s\n%s", st.text, site, res.panicMsg, res.stack))
			okAll = false
		case res.err != nil:
			c.Violate("stdlib."+st.fd.name, facetChainRefail, errClass(res.err)+" | "+classChain, ch.text(),
				fmt.Sprintf("step %q repeated after the call of %s: error: %s", st.text, site, clip(res.err.Error(), 1500)))
			okAll = false
		case !res.v.IsWhollyKnown():
			c.Violate("stdlib."+st.fd.name, siteFacetKnown, classChain, ch.text(), fmt.Sprintf("step %q repeated after the call of %s: result %#v", st.text, site, res.v))
			okAll = false
		case typeFP(res.v.Type()) != st.ctyFP || !resultsAgree(res.v, st.cres):
			c.Violate("stdlib."+st.fd.name, facetChainRepeat, classChain, ch.text(),
				fmt.Sprintf("step %q repeated after the call of %s: result %s; the first time %s of type %s", st.text, site, valueFP(res.v), valueFP(st.cres), st.ctyFP))
			okAll = false
		}
	}
	// (3) the types in play
	c.CountN("clause:chain:type-unchanged", int64(len(ch.types)))
	for _, w := range ch.types {
		if now := typeFP(w.ty); now != w.fp {
			c.Violate(site, facetChainType, classChain, ch.text(),
				fmt.Sprintf("%s was %s when it was handed out and reads %s after the last call", w.what, w.text, now))
			okAll = false
			break
		}
	}
	// (4) the values in play
	c.CountN("clause:chain:value-unchanged", int64(len(ch.values)))
	for _, w := range ch.values {
		now := valueFP(w.v)
		var wf error
		o := core.Guard(func() { wf = cty.VerifWellFormed(w.v) })
		if now != w.fp || o.Panicked || wf != nil {
			why := "internal state changed"
			if o.Panicked {
				why = "well-formedness walk panicked: " + o.PanicMsg
			} else if wf != nil {
				why = "not well-formed: " + wf.Error()
			}
			c.Violate(site, facetChainValue, classChain, ch.text(), fmt.Sprintf("%s was %s; %s", w.what, w.text, why))
			okAll = false
			break
		}
	}
	return okAll
}

// setCountsPossible: wherever abs holds a known set, the number of members of the corresponding concrete set is
// one that the stored members allow: at most the stored count, at least the number of wholly known members, and at
// least one as soon as anything is stored.
func setCountsPossible(abs, conc cty.Value) bool {
	abs, _ = abs.Unmark()
	conc, _ = conc.Unmark()
	if !abs.IsKnown() || abs.IsNull() || !conc.IsKnown() || conc.IsNull() {
		return true
	}
	aty, cty_ := abs.Type(), conc.Type()
	switch {
	case aty.IsSetType() && cty_.IsSetType():
		n, known := 0, 0
		for it := abs.ElementIterator(); it.Next(); {
			_, e := it.Element()
			n++
			if e.IsWhollyKnown() {
				known++
			}
		}
		l := conc.LengthInt()
		if l > n || l < known || (n >= 1 && l < 1) {
			return false
		}
		return true
	case (aty.IsListType() || aty.IsTupleType()) && (cty_.IsListType() || cty_.IsTupleType()):
		if abs.LengthInt() != conc.LengthInt() {
			return true
		}
		ai, ci := abs.ElementIterator(), conc.ElementIterator()
		for ai.Next() && ci.Next() {
			_, a := ai.Element()
			_, b := ci.Element()
			if !setCountsPossible(a, b) {
				return false
			}
		}
	case (aty.IsMapType() || aty.IsObjectType()) && (cty_.IsMapType() || cty_.IsObjectType()):
		cm := conc.AsValueMap()
		for k, a := range abs.AsValueMap() {
			if b, ok := cm[k]; ok && !setCountsPossible(a, b) {
				return false
			}
		}
	}
	return true
}
