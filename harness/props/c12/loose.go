package c12

// Weakenings whose length bounds are true but FAR from the replaced collection.
//
// A function that derives a length bound for its result does arithmetic on the
// bounds of its arguments (products in setproduct, sums and copies elsewhere).
// The shared weakening generator keeps the upper bound close to the real length
// (n, n+2, or n plus a round number), and for such bounds a wrapped product
// lands on the exact result again: k*(n+2^62) = k*n modulo 2^64. The bounds
// drawn here are absolute magnitudes instead: powers of two up to 2^62 and
// their neighbours, the neighbourhood of MaxInt, and bounds aimed at the other
// arguments of the call, i.e. the smallest H for which (product of the lengths
// of the arguments before it, or of all others) x H passes a multiple of 2^64,
// and MaxInt minus the sum of the other lengths.

import (
	"math"
	"math/big"

	"github.com/zclconf/go-cty/cty"

	"verif/harness/core"
)

// knownLen: the length a wholly known argument contributes to such arithmetic.
func knownLen(v cty.Value) (int, bool) {
	if !v.IsKnown() || v.IsNull() {
		return 0, false
	}
	ty := v.Type()
	if ty.IsCollectionType() || ty.IsTupleType() {
		return v.LengthInt(), true
	}
	return 0, false
}

// wrapBound returns the smallest H >= 1 with k*H >= j*2^64 (so that k*H wraps
// to a value below k), or 0 if it does not fit an int.
func wrapBound(k, j int) int {
	if k < 3 || j < 1 {
		return 0
	}
	num := new(big.Int).Lsh(big.NewInt(int64(j)), 64)
	kk := big.NewInt(int64(k))
	q, m := new(big.Int).DivMod(num, kk, new(big.Int))
	if m.Sign() != 0 {
		q.Add(q, big.NewInt(1))
	}
	if !q.IsInt64() || q.Int64() <= 0 {
		return 0
	}
	return int(q.Int64())
}

// farLength draws an upper bound >= n for argument k of conc.
func farLength(r *core.Rand, conc []cty.Value, bounds []int, k, n int) int {
	h := 0
	switch r.Intn(5) {
	case 0, 1:
		// aimed at the product of the other lengths
		prod := 1
		all := r.Bool()
		for j := range conc {
			if j == k || (!all && j > k) {
				continue
			}
			l, ok := bounds[j], bounds[j] >= 0
			if !ok || l == 0 {
				continue
			}
			if prod*l > 1<<20 {
				break
			}
			prod *= l
		}
		if prod >= 3 {
			h = wrapBound(prod, 1+r.Intn((prod-1)/2))
			if h > 0 && r.Chance(1, 4) && h < math.MaxInt-2 {
				h += 1 + r.Intn(2)
			}
		}
	case 2:
		// aimed at the sum of the other lengths
		sum := 0
		for j := range conc {
			if j != k && bounds[j] > 0 {
				sum += bounds[j]
			}
		}
		h = math.MaxInt - sum + r.Intn(3) - 1
		if h < 0 { // wrapped itself
			h = math.MaxInt
		}
	case 3:
		h = []int{math.MaxInt, math.MaxInt - 1, math.MaxInt/2 + 1, math.MaxInt / 2, math.MaxInt/2 + 2, math.MaxInt/4 + 1, math.MaxInt/3 + 1, math.MaxUint32, math.MaxInt32, math.MaxInt32 + 1}[r.Intn(10)]
	}
	if h == 0 {
		h = 1 << (5 + r.Intn(58)) // 2^5 .. 2^62
		h += r.Intn(3) - 1
	}
	if h < n {
		h = n
	}
	return h
}

// farLengthWeakening replaces one collection-typed argument by an unknown
// collection whose upper length bound is far from its length (and sometimes
// other collection arguments by unknowns with close bounds, so that several
// bounds meet in the callee's arithmetic). nil if no argument is a collection.
func farLengthWeakening(r *core.Rand, conc []cty.Value) []cty.Value {
	var cand []int
	bounds := make([]int, len(conc)) // the upper bound argument j shows to the callee; -1 = none
	for j, v := range conc {
		bounds[j] = -1
		if n, ok := knownLen(v); ok {
			bounds[j] = n
			if v.Type().IsCollectionType() {
				cand = append(cand, j)
			}
		}
	}
	if len(cand) == 0 {
		return nil
	}
	a := append([]cty.Value(nil), conc...)
	k := cand[r.Intn(len(cand))]
	refine := func(j, lo, hi int) {
		b := cty.UnknownVal(conc[j].Type()).Refine()
		if r.Chance(2, 3) {
			b = b.NotNull()
		}
		if lo > 0 {
			b = b.CollectionLengthLowerBound(lo)
		}
		a[j] = b.CollectionLengthUpperBound(hi).NewValue()
		bounds[j] = hi
	}
	for _, j := range cand {
		if j != k && r.Chance(1, 3) {
			n := bounds[j]
			lo := 0
			if r.Bool() {
				lo = r.Intn(n + 1)
			}
			refine(j, lo, n+r.Intn(3))
		}
	}
	n := bounds[k]
	lo := 0
	if r.Bool() {
		lo = r.Intn(n + 1)
	}
	refine(k, lo, farLength(r, conc, bounds, k, n))
	return a
}
