package c12

import (
	"math"

	"github.com/zclconf/go-cty/cty"

	"verif/harness/core"
)

type corpusEntry struct {
	fn        string
	conc, abs []cty.Value
}

func lst(v ...cty.Value) cty.Value { return cty.ListVal(v) }
func set(v ...cty.Value) cty.Value { return cty.SetVal(v) }
func tup(v ...cty.Value) cty.Value { return cty.TupleVal(v) }
func obj(kv map[string]cty.Value) cty.Value {
	return cty.ObjectVal(kv)
}

var (
	unkStr  = cty.UnknownVal(cty.String)
	unkNum  = cty.UnknownVal(cty.Number)
	unkBool = cty.UnknownVal(cty.Bool)
)

// corpus: fixed boundary pairs written from reading the code, including the
// witness of every genuine defect this driver found (fixed or listed), so a
// regression is reported again on every run.
func corpus() []corpusEntry {
	ls := cty.List(cty.String)
	emptyLS := cty.ListValEmpty(cty.String)
	lenAtMost := func(ty cty.Type, n int) cty.Value {
		return cty.UnknownVal(ty).Refine().NotNull().CollectionLengthUpperBound(n).NewValue()
	}
	lenBetween := func(ty cty.Type, lo, hi int) cty.Value {
		return cty.UnknownVal(ty).Refine().NotNull().CollectionLengthLowerBound(lo).CollectionLengthUpperBound(hi).NewValue()
	}
	return []corpusEntry{
		// F-15: setproduct's length lower bound when an unknown argument may be empty
		{"setproduct", args(emptyLS, lst(sV("a"))), args(lenAtMost(ls, 2), lst(sV("a")))},
		{"setproduct", args(emptyLS, lst(sV("a"))), args(lenAtMost(ls, 1), lst(sV("a")))},
		{"setproduct", args(lst(sV("a")), emptyLS), args(lst(sV("a")), lenBetween(ls, 0, 3))},
		{"setproduct", args(cty.SetValEmpty(cty.String), lst(sV("a"))), args(lenAtMost(cty.Set(cty.String), 2), lst(sV("a")))},
		{"setproduct", args(lst(sV("a"), sV("b")), lst(sV("a"), sV("c"))), args(lenBetween(ls, 2, 2), lenBetween(ls, 1, 2))},
		{"setproduct", args(lst(sV("a"), sV("b")), lst(sV("x"), sV("y"), sV("z"))), args(lenBetween(ls, 2, 3), lenBetween(ls, 3, 4))},
		{"setproduct", args(set(sV("a"), sV("b")), lst(sV("x"))), args(lenBetween(cty.Set(cty.String), 1, 2), lst(sV("x")))},
		// setproduct multiplies the upper length bounds of its arguments: the 1024 / 2048 cut-offs, and bounds
		// whose product with the lengths before them passes 2^64 (4 x 2^62; 3 x ceil(2^64/3); 2 x 2 x 2^62)
		{"setproduct", args(lst(sV("a"), sV("b"), sV("c"), sV("d")), lst(sV("x"))), args(lst(sV("a"), sV("b"), sV("c"), sV("d")), lenAtMost(ls, 1<<62))},
		{"setproduct", args(lst(sV("a"), sV("b"), sV("c"), sV("d")), lst(sV("x"), sV("y"))), args(lst(sV("a"), sV("b"), sV("c"), sV("d")), lenAtMost(ls, 1<<62+1))},
		{"setproduct", args(lst(sV("a"), sV("b"), sV("c")), lst(sV("x"))), args(lst(sV("a"), sV("b"), sV("c")), lenAtMost(ls, 6148914691236517206))},
		{"setproduct", args(lst(sV("a"), sV("b")), lst(nI(1), nI(2)), lst(sV("x"))), args(lst(sV("a"), sV("b")), lenBetween(cty.List(cty.Number), 1, 2), lenAtMost(ls, 1<<62))},
		{"setproduct", args(lst(sV("x")), lst(sV("a"), sV("b"), sV("c"), sV("d"))), args(lenAtMost(ls, 1<<62), lst(sV("a"), sV("b"), sV("c"), sV("d")))},
		{"setproduct", args(lst(sV("a"), sV("b")), lst(sV("x"), sV("y"), sV("z"))), args(lst(sV("a"), sV("b")), lenAtMost(ls, 1024))},
		{"setproduct", args(lst(sV("a"), sV("b"), sV("c")), lst(sV("x"), sV("y"), sV("z"))), args(lst(sV("a"), sV("b"), sV("c")), lenAtMost(ls, 1025))},
		{"setproduct", args(lst(sV("a"), sV("b")), lst(sV("x"))), args(lst(sV("a"), sV("b")), lenAtMost(ls, math.MaxInt))},
		{"setproduct", args(set(sV("a"), sV("b"), sV("c"), sV("d")), set(sV("x"))), args(set(sV("a"), sV("b"), sV("c"), sV("d")), lenAtMost(cty.Set(cty.String), 1<<62))},
		// F-39: the order of a set that still holds unknown members is not final
		{"reverselist", args(set(sV("b"), sV("x,y"))), args(set(sV("x,y"), unkStr))},
		{"reverselist", args(set(nI(1), nI(2), nI(3))), args(set(nI(2), unkNum, nI(3)))},
		{"reverselist", args(set(nI(1), nI(2))), args(set(unkNum, unkNum.RefineNotNull()))},
		{"tolist", args(set(sV("b"), sV("x,y"))), args(set(sV("x,y"), unkStr))},
		{"to-list-of-string", args(set(nI(1), nI(20))), args(set(nI(20), unkNum))},
		{"flatten", args(set(sV("b"), sV("x,y"))), args(set(sV("x,y"), unkStr))},
		{"formatlist", args(sV("%s"), set(sV("b"), sV("x,y"))), args(sV("%s"), set(sV("x,y"), unkStr))},
		{"contains", args(set(sV("b"), sV("x,y")), sV("b")), args(set(sV("x,y"), unkStr), sV("b"))},
		{"concat", args(lst(set(sV("b"), sV("x,y"))), lst(lst(sV("q")))), args(lst(set(sV("x,y"), unkStr)), lst(lst(sV("q"))))},
		// formatlist: an unknown member must not shift the other sequences
		{"formatlist", args(sV("%s %s"), lst(sV("a"), sV("b")), lst(sV("c"), sV("d"))), args(sV("%s %s"), lst(unkStr, sV("b")), lst(sV("c"), sV("d")))},
		{"formatlist", args(sV("%s-%d"), lst(sV("a"), sV("b"), sV("c")), lst(nI(1), nI(2), nI(3))), args(sV("%s-%d"), lst(sV("a"), unkStr, sV("c")), lst(nI(1), nI(2), nI(3)))},
		{"formatlist", args(sV("%s %s"), lst(sV("a"), sV("b")), lst(sV("c"), sV("d"))), args(sV("%s %s"), lst(sV("a"), sV("b")), lst(unkStr, sV("d")))},
		// strlen: lower bound from the prefix counts grapheme clusters, not bytes or runes
		{"strlen", args(sV("é")), args(unkStr.Refine().NotNull().StringPrefixFull("é").NewValue())},
		{"strlen", args(sV("👍🏽")), args(unkStr.Refine().StringPrefixFull("👍").NewValue())},
		{"strlen", args(sV("a\r\n")), args(unkStr.Refine().StringPrefixFull("a\r").NewValue())},
		{"strlen", args(sV("🇩🇪")), args(unkStr.Refine().StringPrefixFull("🇩").NewValue())},
		{"strlen", args(sV("")), args(unkStr.RefineNotNull())},
		// sort: length bounds are copied from the argument
		{"sort", args(emptyLS), args(lenAtMost(ls, 1))},
		{"sort", args(lst(sV("b"), sV("a"))), args(lenBetween(ls, 2, 2))},
		{"sort", args(lst(sV("b"), sV("a"))), args(lst(sV("b"), unkStr))},
		// jsonencode: prefix by type, none when null is possible
		{"jsonencode", args(cty.MapVal(map[string]cty.Value{"a": nI(1)})), args(cty.UnknownVal(cty.Map(cty.Number)).RefineNotNull())},
		{"jsonencode", args(cty.MapValEmpty(cty.Number)), args(cty.UnknownVal(cty.Map(cty.Number)).RefineNotNull())},
		{"jsonencode", args(cty.NullVal(cty.Map(cty.Number))), args(cty.UnknownVal(cty.Map(cty.Number)))},
		{"jsonencode", args(sV("x")), args(unkStr.RefineNotNull())},
		{"jsonencode", args(cty.NullVal(cty.String)), args(unkStr)},
		{"jsonencode", args(set(nI(1))), args(cty.UnknownVal(cty.Set(cty.Number)).RefineNotNull())},
		{"jsonencode", args(tup(nI(1), sV("a"))), args(tup(unkNum, sV("a")))},
		{"jsonencode", args(obj(map[string]cty.Value{"a": cty.NullVal(cty.String)})), args(obj(map[string]cty.Value{"a": unkStr}))},
		{"jsonencode", args(cty.True), args(unkBool.RefineNotNull())},
		// jsondecode: type prediction from a prefix
		{"jsondecode", args(sV(`"abc"`)), args(unkStr.Refine().NotNull().StringPrefixFull(`"`).NewValue())},
		{"jsondecode", args(sV(`true`)), args(unkStr.Refine().NotNull().StringPrefixFull(`t`).NewValue())},
		{"jsondecode", args(sV(`-1.5`)), args(unkStr.Refine().NotNull().StringPrefixFull(`-`).NewValue())},
		{"jsondecode", args(sV(` [1]`)), args(unkStr.Refine().NotNull().StringPrefixFull(` [`).NewValue())},
		{"jsondecode", args(sV(`null`)), args(unkStr.Refine().NotNull().StringPrefixFull(`n`).NewValue())},
		{"jsondecode", args(sV(`{"a":1}`)), args(unkStr.Refine().NotNull().StringPrefixFull(`{"a"`).NewValue())},
		// format: literal prefix up to the first verb
		{"format", args(sV("abc%s"), sV("́x")), args(sV("abc%s"), unkStr)},
		{"format", args(sV("가%s"), sV("ᆨ")), args(sV("가%s"), unkStr)},
		{"format", args(sV("100%% %s"), sV("x")), args(sV("100%% %s"), unkStr)},
		{"format", args(sV("%s"), sV("x")), args(sV("%s"), unkStr)},
		{"format", args(sV("a%vb"), cty.NullVal(cty.String)), args(sV("a%vb"), unkStr)},
		// coalesce / coalescelist
		{"coalesce", args(cty.NullVal(cty.String), sV("a")), args(unkStr, sV("a"))},
		{"coalesce", args(nI(1), sV("a")), args(unkNum, sV("a"))},
		{"coalesce", args(sV("a"), cty.NullVal(cty.String)), args(sV("a"), unkStr)},
		{"coalescelist", args(emptyLS, lst(sV("a"))), args(lenAtMost(ls, 1), lst(sV("a")))},
		{"coalescelist", args(cty.NullVal(ls), lst(sV("a"))), args(cty.UnknownVal(ls), lst(sV("a")))},
		{"coalescelist", args(lst(sV("a")), tup(nI(1))), args(lst(unkStr), tup(nI(1)))},
		// length / keys / lookup / flatten
		{"length", args(set(nI(1), nI(2))), args(set(nI(1), unkNum))},
		{"length", args(emptyLS), args(lenAtMost(ls, 0))},
		{"length", args(tup(nI(1))), args(cty.UnknownVal(cty.Tuple([]cty.Type{cty.Number})))},
		{"keys", args(obj(map[string]cty.Value{"a": nI(1)})), args(cty.UnknownVal(cty.Object(map[string]cty.Type{"a": cty.Number})))},
		{"keys", args(cty.MapVal(map[string]cty.Value{"a": nI(1)})), args(cty.UnknownVal(cty.Map(cty.Number)).RefineNotNull())},
		{"lookup", args(cty.MapVal(map[string]cty.Value{"a": sV("x")}), sV("b"), sV("d")), args(cty.MapVal(map[string]cty.Value{"a": unkStr}), sV("b"), sV("d"))},
		{"lookup", args(obj(map[string]cty.Value{"a": sV("x")}), sV("a"), nI(1)), args(obj(map[string]cty.Value{"a": sV("x")}), unkStr, nI(1))},
		{"flatten", args(lst(lst(sV("a")), emptyLS)), args(lst(lst(sV("a")), lenAtMost(ls, 1)))},
		{"flatten", args(tup(lst(sV("a")), sV("b"))), args(tup(cty.UnknownVal(ls), sV("b")))},
		{"flatten", args(tup(sV("a"), sV("b"))), args(tup(unkStr, sV("b")))},
		// merge: a null argument weakened to an unknown one
		{"merge", args(obj(map[string]cty.Value{"a": nI(1)}), cty.NullVal(cty.Object(map[string]cty.Type{"b": cty.String}))),
			args(obj(map[string]cty.Value{"a": nI(1)}), cty.UnknownVal(cty.Object(map[string]cty.Type{"b": cty.String})))},
		{"merge", args(cty.MapVal(map[string]cty.Value{"a": nI(1)}), cty.MapVal(map[string]cty.Value{"a": nI(2)})),
			args(cty.MapVal(map[string]cty.Value{"a": unkNum}), cty.MapVal(map[string]cty.Value{"a": nI(2)}))},
		// set operations
		{"setunion", args(set(sV("a")), set(sV("a"))), args(set(unkStr), set(sV("a")))},
		{"setintersection", args(set(sV("a")), set(sV("a"))), args(set(unkStr), set(sV("a")))},
		{"setsubtract", args(set(sV("a"), sV("b")), set(sV("a"))), args(set(sV("a"), sV("b")), set(unkStr))},
		{"setsymmetricdifference", args(set(sV("a")), set(sV("a"))), args(set(sV("a")), set(unkStr))},
		{"sethaselement", args(set(sV("a")), sV("a")), args(set(unkStr), sV("a"))},
		// element / index / slice with unknown index or members
		{"element", args(tup(nI(1), sV("a")), nI(3)), args(tup(nI(1), sV("a")), unkNum)},
		{"element", args(lst(sV("a"), sV("b")), nI(-1)), args(lst(sV("a"), unkStr), nI(-1))},
		{"index", args(tup(nI(1), sV("a")), nI(1)), args(tup(nI(1), sV("a")), unkNum)},
		{"slice", args(tup(nI(1), sV("a")), nI(0), nI(1)), args(tup(nI(1), sV("a")), unkNum, nI(1))},
		{"slice", args(lst(nI(1), nI(2)), nI(1), nI(2)), args(lenBetween(cty.List(cty.Number), 1, 2), nI(1), nI(2))},
		{"zipmap", args(lst(sV("a")), tup(nI(1))), args(lst(unkStr), tup(nI(1)))},
		{"zipmap", args(lst(sV("a"), sV("a")), lst(nI(1), nI(2))), args(lst(sV("a"), sV("a")), lst(unkNum, nI(2)))},
		// comparisons with refined bounds (the equal neighbour)
		{"lessthan", args(nI(1), nI(1)), args(unkNum.Refine().NotNull().NumberRangeUpperBound(nI(1), true).NewValue(), nI(1))},
		{"greaterthanorequalto", args(nI(1), nI(1)), args(unkNum.Refine().NotNull().NumberRangeUpperBound(nI(1), true).NewValue(), nI(1))},
		{"equal", args(cty.NullVal(cty.String), cty.NullVal(cty.String)), args(unkStr, cty.NullVal(cty.String))},
		{"notequal", args(sV("a"), sV("a")), args(unkStr.Refine().StringPrefixFull("a").NewValue(), sV("a"))},
	}
}

func runCorpus(c *core.Ctx, base int64) {
	for k, e := range corpus() {
		idx := base + int64(k)
		if !c.Mine(int64(k)) || !c.Want(idx) {
			continue
		}
		fd := fnByName(e.fn)
		cres, ok := concrete(c, idx, fd, e.conc)
		c.Count("corpus-entries")
		if !ok {
			c.Count("corpus-entries:concrete-call-failed")
			continue
		}
		if pair(c, idx, fd, e.conc, cres, e.abs, "corpus") {
			// the same pair through ONE reused argument slice, in both orders (history.go)
			cs := hstep{kind: "concrete", args: e.conc, ref: cres}
			ws := hstep{kind: "weakened", args: e.abs, base: e.conc, ref: cres}
			runHistory(c, idx, fd, []hstep{ws, cs, ws}, "corpus:weakened-then-concrete")
			runHistory(c, idx, fd, []hstep{cs, ws, cs}, "corpus:concrete-then-weakened")
		}
	}
}

// catalogueLists returns the fixed, seed-independent concrete argument lists of
// one function: drawn from its generator with a constant stream.
func catalogueLists(fd *fnDef, want int) [][]cty.Value {
	r := core.NewRand(core.HashString("C12 catalogue " + fd.name))
	var out [][]cty.Value
	for try := 0; try < 12*want && len(out) < want; try++ {
		a := fd.gen(r)
		if a == nil {
			continue
		}
		var err error
		o := core.Guard(func() { _, err = fd.fn.Call(a) })
		if o.Panicked || err != nil {
			continue
		}
		out = append(out, a)
	}
	return out
}

// runCatalogue enumerates, for a fixed catalogue of concrete argument lists per
// function, EVERY single-position weakening (the argument itself and every
// nested member at any depth) with EVERY admitting unknown of the refinement
// menu. Seed-independent; split between the batches.
func runCatalogue(c *core.Ctx, base int64) {
	per := c.N(4, 16)
	var k int64
	for _, fd := range registry() {
		lists := catalogueLists(fd, per)
		for li, conc := range lists {
			k++
			idx := base + k
			if !c.Mine(k) || !c.Want(idx) {
				continue
			}
			_ = li
			cres, ok := concrete(c, idx, fd, conc)
			if !ok {
				continue
			}
			c.Count("catalogue-lists")
			c.Count("catalogue-lists:" + fd.name)
			for a := range conc {
				if conc[a].Type() == cty.DynamicPseudoType {
					continue
				}
				sp := singlePositions(conc[a])
				if sp == nil {
					c.Count("catalogue:menu-generator-panicked")
				}
				for _, w := range sp {
					abs := append([]cty.Value(nil), conc...)
					abs[a] = w.V
					pair(c, idx, fd, conc, cres, abs, "catalogue-single-position")
					c.Count("catalogue-pairs")
				}
			}
		}
	}
	if c.Batch == 0 {
		c.Exhaustive("catalogue of fixed concrete argument lists per function x every single-position weakening (any depth) x every refinement kind of the menu")
	}
}
