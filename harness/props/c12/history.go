package c12

// History steps: the calls of one case once more, this time through REUSED
// argument slices.
//
// The paired calls of pair() hand every call a freshly built []cty.Value. A
// caller that evaluates an expression again after an unknown argument became
// known (or the other way round) commonly keeps one argument buffer and
// replaces elements in place. Nothing in the property depends on where the
// argument list is stored: the result of a call is a function of the argument
// VALUES. So every list of a case (the concrete list, its weakenings, a second
// concrete list of the same function) is called again through a shared backing
// array, in several orders, and each outcome is held against the outcome the
// same list had through a fresh slice:
//
//   - a weakened list must still succeed and admit the concrete result
//     (clauses i and ii),
//   - a wholly known list must still succeed, give a wholly known result
//     (clause iii) and the same result as before.
//
// State kept by the function object between calls (memoised type checks,
// caches keyed by slice identity, by the previous argument list, ...) shows up
// here and nowhere else.

import (
	"fmt"
	"strings"

	"github.com/zclconf/go-cty/cty"
	"github.com/zclconf/go-cty/cty/function/stdlib"

	"verif/harness/core"
	"verif/harness/mon"
)

const (
	siteFacetHistFail = "call on wholly known arguments failed through a reused argument slice although the same list succeeded through a fresh one"
	siteFacetHistDiff = "call on wholly known arguments gave another result through a reused argument slice than through a fresh one"
)

// hstep is one call of a history.
type hstep struct {
	kind string      // "concrete", "weakened", "other-concrete"
	args []cty.Value // the list (copied into the shared buffer for the call)
	base []cty.Value // weakened: the concrete list it weakens
	ref  cty.Value   // the result of the concrete list (args or base) through a fresh slice
}

// resultsAgree compares two results of the same call. Capsule results are new
// allocations on every call (bytesslice), so they are compared by content where
// the content is known and not at all otherwise.
func resultsAgree(a, b cty.Value) bool {
	if a.Type().IsCapsuleType() || b.Type().IsCapsuleType() {
		if !a.Type().Equals(b.Type()) {
			return false
		}
		if a.Type().Equals(stdlib.Bytes) && a.IsKnown() && b.IsKnown() && !a.IsNull() && !b.IsNull() {
			x, ok1 := a.EncapsulatedValue().(*[]byte)
			y, ok2 := b.EncapsulatedValue().(*[]byte)
			if ok1 && ok2 {
				return string(*x) == string(*y)
			}
		}
		return true
	}
	return mon.ModelEqual(a, b)
}

func histText(fd *fnDef, steps []hstep, upto int) string {
	p := make([]string, 0, upto+1)
	for k := 0; k <= upto && k < len(steps); k++ {
		p = append(p, fmt.Sprintf("%s(%s)", fd.name, fmtArgs(steps[k].args)))
	}
	return "one argument slice reused for: " + strings.Join(p, " ; then ")
}

// runHistory executes the steps through ONE backing array (each call gets the
// prefix of the buffer that is as long as its list) and applies the oracle.
func runHistory(c *core.Ctx, idx int64, fd *fnDef, steps []hstep, shapeName string) {
	maxLen := 0
	for _, s := range steps {
		if len(s.args) > maxLen {
			maxLen = len(s.args)
		}
	}
	if maxLen == 0 || len(steps) < 2 {
		return
	}
	site := "stdlib." + fd.name
	buf := make([]cty.Value, maxLen)
	c.Count("history:" + shapeName)
	c.Count("histories")
	prev := "none"
	for k, s := range steps {
		if len(s.args) == 0 {
			// nothing to reuse: an empty list has no backing array
			prev = s.kind
			continue
		}
		a := buf[:len(s.args)]
		copy(a, s.args)
		k := k
		c.Begin(idx, func() string { return histText(fd, steps, k) })
		res := call(c, fd.fn, a)
		c.Count("history-calls")
		c.Count("history-calls:" + fd.name)
		c.Count("history-step:" + s.kind + "-after-" + prev)
		class := "reused argument slice | " + s.kind + " after " + prev
		switch s.kind {
		case "weakened":
			c.Count("clause:weakened-call-succeeds")
			switch {
			case res.panicked:
				c.Violate(site, siteFacetAbsPanic, core.PanicClass(res.panicMsg)+" | "+class, histText(fd, steps, k),
					fmt.Sprintf("concrete result %#v; Go panic: %s\n%s", s.ref, res.panicMsg, res.stack))
			case res.err != nil && isPanicError(res.err):
				c.Violate(site, siteFacetAbsPanic, "PanicError: "+panicErrorClass(res.err)+" | "+class, histText(fd, steps, k),
					fmt.Sprintf("concrete result %#v; PanicError: %s", s.ref, clip(res.err.Error(), 1500)))
			case res.err != nil:
				c.Violate(site, siteFacetAbsFail, errClass(res.err)+" | "+class, histText(fd, steps, k),
					fmt.Sprintf("concrete result %#v; error: %s", s.ref, res.err))
			default:
				c.Count("clause:abstract-result-admits-concrete-result")
				if why := mon.Admits(res.v, s.ref); why != "" {
					// the same pair through fresh slices is judged by pair(); the listed finding keeps its class there
					c.Violate(site, siteFacetAdmit, narrowClass(fd, admitClass(why), class, s.args, s.ref, res.v), histText(fd, steps, k),
						fmt.Sprintf("concrete result %#v; abstract result %#v; %s", s.ref, res.v, why))
				}
			}
		default:
			c.Count("clause:known-arguments-known-result")
			c.Count("clause:same-known-list-same-outcome")
			switch {
			case res.panicked:
				c.Violate(site, siteFacetHistFail, core.PanicClass(res.panicMsg)+" | "+class, histText(fd, steps, k),
					fmt.Sprintf("result through a fresh slice %#v; Go panic: %s\n%s", s.ref, res.panicMsg, res.stack))
			case res.err != nil:
				c.Violate(site, siteFacetHistFail, errClass(res.err)+" | "+class, histText(fd, steps, k),
					fmt.Sprintf("result through a fresh slice %#v; error: %s", s.ref, clip(res.err.Error(), 1500)))
			case !res.v.IsWhollyKnown():
				c.Violate(site, siteFacetKnown, class, histText(fd, steps, k),
					fmt.Sprintf("result %#v; result of the same list through a fresh slice %#v", res.v, s.ref))
			case !resultsAgree(res.v, s.ref):
				c.Violate(site, siteFacetHistDiff, class, histText(fd, steps, k),
					fmt.Sprintf("result %#v; result of the same list through a fresh slice %#v", res.v, s.ref))
			}
		}
		// the callee must leave the caller's buffer alone, or the next step is not the list it claims to be
		for j := range a {
			if !a[j].RawEquals(s.args[j]) {
				c.Count("history:callee-changed-the-argument-slice")
				copy(a, s.args)
				break
			}
		}
		prev = s.kind
	}
}

// histories builds the histories of one case. valid holds the weakenings of
// conc that passed weakeningAdmits. A second concrete list of the same function
// (drawn from the same generator, called through a fresh slice first) stands for
// "the same expression evaluated again with other values".
func histories(c *core.Ctx, idx int64, r *core.Rand, fd *fnDef, conc []cty.Value, cres cty.Value, valid [][]cty.Value) {
	if len(conc) == 0 {
		return
	}
	cstep := hstep{kind: "concrete", args: conc, ref: cres}
	wstep := func() hstep {
		return hstep{kind: "weakened", args: valid[r.Intn(len(valid))], base: conc, ref: cres}
	}
	// 1. an unknown argument becomes known: weakened, then concrete (sometimes weakened again)
	if len(valid) > 0 {
		steps := []hstep{wstep(), cstep}
		if r.Chance(1, 4) {
			steps = append(steps, wstep())
		}
		runHistory(c, idx, fd, steps, "weakened-then-concrete")
	}
	// 2. (every second case) one of: a known argument becomes unknown; the arguments are replaced by other known values
	if r.Bool() {
		return
	}
	switch k := r.Intn(3); {
	case k == 0 && len(valid) > 0:
		steps := []hstep{cstep, wstep()}
		if r.Chance(1, 4) {
			steps = append(steps, cstep)
		}
		runHistory(c, idx, fd, steps, "concrete-then-weakened")
	default:
		conc2 := fd.gen(r)
		if len(conc2) == 0 {
			return
		}
		cres2, ok := concrete(c, idx, fd, conc2)
		if !ok {
			c.Count("history:second-concrete-list-failed")
			return
		}
		ostep := hstep{kind: "other-concrete", args: conc2, ref: cres2}
		var steps []hstep
		switch r.Intn(3) {
		case 0:
			steps = []hstep{cstep, ostep}
		case 1:
			steps = []hstep{ostep, cstep}
		default:
			if len(valid) > 0 {
				steps = []hstep{wstep(), ostep, cstep}
			} else {
				steps = []hstep{ostep, cstep, ostep}
			}
		}
		runHistory(c, idx, fd, steps, "replaced-by-other-known-values")
	}
}
