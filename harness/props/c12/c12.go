// Package c12: standard functions treat unknown arguments soundly.
//
// For every standard-library function object the driver executes paired calls
// of the real Function.Call: once on a wholly known argument list on which the
// call succeeds, and then on weakened copies of that list in which arguments or
// nested members are replaced by typed unknown values that admit what they
// replace. The oracle observes both results:
//
//	(i)   the weakened call must not fail (error, PanicError or Go panic);
//	(ii)  its result must admit the concrete result (mon.Admits: type,
//	      nullness, numeric and length bounds, string prefix, every known part);
//	(iii) the call on wholly known arguments must give a wholly known result.
//
// The same clauses are applied once more to calls that go through a reused
// argument slice (history.go): the outcome of a call is a function of the
// argument values, not of where the caller keeps them or of earlier calls.
package c12

import (
	"fmt"
	"os"
	"path/filepath"
	"regexp"
	"sort"
	"strings"

	"github.com/zclconf/go-cty/cty"
	"github.com/zclconf/go-cty/cty/function"

	"verif/harness/core"
	"verif/harness/gen"
	"verif/harness/mon"
)

type Driver struct{}

func (Driver) ID() string { return "C12" }

func (Driver) Info() core.Info {
	return core.Info{
		Title: "standard functions treat unknown arguments soundly",
		Rule: "case = (stdlib function, wholly known argument list on which Call succeeds, weakened argument list): argument lists come from one in-domain generator per " +
			"function (every exported ...Func variable of cty/function/stdlib plus MakeToFunc for 8 targets); each successful concrete list is paired with up to 7 weakenings " +
			"(one whole argument unrefined / refined, several whole arguments, nested members at any depth, one enumerated single position, mixed, one collection argument with a length " +
			"bound far from its length: powers of two up to 2^62, the neighbourhood of MaxInt, bounds whose product or sum with the other arguments' lengths passes the int range) that use typed unknowns only, " +
			"unrefined or with refinements true of the replaced part (not-null, inclusive/exclusive numeric bounds incl. the equal neighbour, true string prefixes, tight and loose length bounds incl. " +
			"ones that allow the empty collection); every weakened argument is re-checked with mon.Admits against the original before use. In addition a seed-independent catalogue " +
			"(fixed argument lists per function) x EVERY single-position weakening x EVERY refinement kind of the menu is enumerated, and a hand-written corpus of boundary pairs. " +
			"History steps: the lists of a case (concrete, weakened, a second concrete list of the same function) are called again through ONE reused argument slice (weakened then concrete, " +
			"concrete then weakened, other known values in between) and each outcome is held against the outcome of the same list through a fresh slice. " +
			"Chained calls: the concrete and the abstract result of one step are the two sides of an argument of later steps (3-6 calls of sequence/collection functions); after every call earlier pairs are re-checked, " +
			"one earlier concrete call is repeated, and all values in play are compared with what they were when handed out. " +
			"distinct = hash of (function, concrete arguments, weakened arguments); non-trivial = the concrete call succeeded and at least one position was replaced by an unknown value",
		Assumptions: []string{
			"mon.Admits is the weakest reading of 'admits' (infinite bounds = unset; sets by necessary conditions only; marks not compared)",
			"a concrete call that fails (error or PanicError) promises nothing about the weakened call and is skipped (totality is C11's subject)",
			"only typed unknowns are used as replacements: DynamicVal never replaces a typed part, and no marks are applied (C04's subject)",
			"strings are valid UTF-8, NaN is excluded, argument collections have at most 4 members and nesting depth at most 3",
		},
		MinNontrivial: 2000,
	}
}

func (Driver) Batches(tier string) int {
	if tier == "thorough" {
		return 64
	}
	return 16
}

const (
	siteFacetAbsFail  = "weakened call failed although the concrete call succeeded"
	siteFacetAbsPanic = "weakened call panicked although the concrete call succeeded"
	siteFacetAdmit    = "abstract result does not admit the concrete result"
	siteFacetKnown    = "wholly known arguments gave a result that is not wholly known"
)

func fmtArgs(a []cty.Value) string {
	p := make([]string, len(a))
	for i, v := range a {
		p[i] = fmt.Sprintf("%#v", v)
	}
	return strings.Join(p, ", ")
}

// callResult is the outcome of one guarded Function.Call.
type callResult struct {
	v        cty.Value
	err      error
	panicked bool
	panicMsg string
	stack    string
}

func call(c *core.Ctx, f function.Function, args []cty.Value) callResult {
	var res callResult
	o := core.Guard(func() { res.v, res.err = f.Call(args) })
	c.Eval(1)
	if o.Panicked {
		res.panicked, res.panicMsg, res.stack = true, o.PanicMsg, o.Stack
	}
	return res
}

// panicErrorClass is the class of the value the function implementation panicked with.
func panicErrorClass(err error) string {
	if pe, ok := err.(function.PanicError); ok {
		return core.PanicClass(fmt.Sprint(pe.Value))
	}
	return core.PanicClass(err.Error())
}

func isPanicError(err error) bool {
	_, ok := err.(function.PanicError)
	return ok
}

// concrete runs the concrete call and checks clause (iii). ok is false when the
// call did not succeed (nothing is then promised about weakened calls).
func concrete(c *core.Ctx, idx int64, fd *fnDef, conc []cty.Value) (cty.Value, bool) {
	c.Begin(idx, func() string { return fd.name + "(" + fmtArgs(conc) + ")" })
	res := call(c, fd.fn, conc)
	c.Count("concrete-calls:" + fd.name)
	switch {
	case res.panicked:
		c.Count("concrete-skipped:go-panic")
		c.CrossNote("C11", "stdlib."+fd.name+": Go panic on known arguments: "+core.PanicClass(res.panicMsg), fmtArgs(conc))
		return cty.NilVal, false
	case res.err != nil && isPanicError(res.err):
		c.Count("concrete-skipped:PanicError")
		c.CrossNote("C11", "stdlib."+fd.name+": PanicError on known arguments: "+panicErrorClass(res.err), fmtArgs(conc))
		return cty.NilVal, false
	case res.err != nil:
		c.Count("concrete-skipped:error")
		c.Count("concrete-error:" + fd.name)
		return cty.NilVal, false
	}
	c.Count("concrete-ok:" + fd.name)
	c.Count("clause:known-arguments-known-result")
	if !res.v.IsWhollyKnown() {
		c.Violate("stdlib."+fd.name, siteFacetKnown, "", fd.name+"("+fmtArgs(conc)+")", fmt.Sprintf("result %#v", res.v))
	}
	if w := mon.WellFormed(res.v); w != "" {
		c.CrossNote("C06", "stdlib."+fd.name+": "+w, fmtArgs(conc))
	}
	return res.v, true
}

// weakeningAdmits re-checks the generator: every weakened argument must admit
// the argument it replaces and must use typed unknowns only.
func weakeningAdmits(conc, abs []cty.Value) string {
	changed := false
	for k := range conc {
		if why := mon.Admits(abs[k], conc[k]); why != "" {
			return fmt.Sprintf("arg %d: %s", k, why)
		}
		if !abs[k].IsWhollyKnown() {
			changed = true
		}
		if introducesDynamic(abs[k], conc[k]) {
			return fmt.Sprintf("arg %d: untyped unknown", k)
		}
	}
	if !changed {
		return "nothing replaced"
	}
	return ""
}

// introducesDynamic reports whether abs holds DynamicVal (an untyped unknown).
func introducesDynamic(abs, conc cty.Value) bool {
	found := false
	_ = cty.Walk(abs, func(_ cty.Path, v cty.Value) (bool, error) {
		if !v.IsKnown() && v.Type() == cty.DynamicPseudoType {
			found = true
			return false, nil
		}
		return true, nil
	})
	return found
}

// shape summarises where the unknown parts of a weakened argument list are; it
// is part of the violation class so that different defects of one function do
// not share a signature.
func shape(abs []cty.Value) string {
	m := map[string]bool{}
	for _, a := range abs {
		a, _ = a.Unmark()
		if !a.IsKnown() {
			m["whole-argument"] = true
			continue
		}
		shapeWalk(a, false, m)
	}
	ks := make([]string, 0, len(m))
	for k := range m {
		ks = append(ks, k)
	}
	sort.Strings(ks)
	return strings.Join(ks, "+")
}

func shapeWalk(v cty.Value, inSet bool, m map[string]bool) {
	if !v.IsKnown() {
		if inSet {
			m["member-of-set"] = true
		} else {
			m["nested-member"] = true
		}
		return
	}
	if v.IsNull() {
		return
	}
	ty := v.Type()
	if ty.IsCollectionType() || ty.IsTupleType() || ty.IsObjectType() {
		in := inSet || ty.IsSetType()
		for it := v.ElementIterator(); it.Next(); {
			_, e := it.Element()
			shapeWalk(e, in, m)
		}
	}
}

// admitClass maps the reason text of mon.Admits to a coarse class.
func admitClass(why string) string {
	switch {
	case strings.Contains(why, "does not conform"):
		return "type"
	case strings.Contains(why, "definitely-not-null"), strings.Contains(why, "nullness"), strings.Contains(why, "definitely null"):
		return "nullness"
	case strings.Contains(why, "outside abstract bounds") && strings.Contains(why, "length"):
		return "length"
	case strings.Contains(why, "outside abstract bounds"):
		return "bounds"
	case strings.Contains(why, "prefix"):
		return "prefix"
	case strings.Contains(why, "length"), strings.Contains(why, "key count"), strings.Contains(why, "members, abstract only"):
		return "length"
	case strings.Contains(why, "known abstract"), strings.Contains(why, "admitted by no abstract member"), strings.Contains(why, "missing in concrete"):
		return "known-part-differs"
	case strings.Contains(why, "is known"):
		return "known-vs-unknown"
	}
	return "other"
}

func errClass(err error) string {
	msg := err.Error()
	if ae, ok := err.(function.ArgError); ok {
		return fmt.Sprintf("arg%d: %s", ae.Index, core.PanicClass(msg))
	}
	return core.PanicClass(msg)
}

// pair executes one weakened call and applies clauses (i) and (ii). valid is
// false when the weakening was dropped (it does not admit the original, holds
// an untyped unknown, or replaces nothing).
func pair(c *core.Ctx, idx int64, fd *fnDef, conc []cty.Value, cres cty.Value, abs []cty.Value, mode string) (valid bool) {
	valid, _, _ = pairR(c, idx, fd, conc, cres, abs, mode)
	return
}

// pairR is pair that also hands back the abstract result (ok is true when the
// weakened call returned a value); chain.go feeds it into later calls.
func pairR(c *core.Ctx, idx int64, fd *fnDef, conc []cty.Value, cres cty.Value, abs []cty.Value, mode string) (valid bool, ares cty.Value, ok bool) {
	if why := weakeningAdmits(conc, abs); why != "" {
		if why == "nothing replaced" {
			c.Count("weakening-dropped:nothing-replaced")
		} else if strings.Contains(why, "untyped") {
			c.Count("weakening-dropped:untyped-unknown")
		} else {
			c.Count("weakening-dropped:does-not-admit-original")
			if c.Verbose {
				fmt.Printf("DROPPED %s: %s -> %s: %s\n", fd.name, fmtArgs(conc), fmtArgs(abs), why)
			}
		}
		return
	}
	valid = true
	site := "stdlib." + fd.name
	desc := func() string {
		return fmt.Sprintf("%s(%s) weakened to %s(%s)", fd.name, fmtArgs(conc), fd.name, fmtArgs(abs))
	}
	c.Begin(idx, desc)
	d := desc()
	c.Distinct(d, true)
	sh := shape(abs)
	c.Count("pairs:" + fd.name)
	c.Count("weakening-mode:" + mode)
	c.Count("weakening-shape:" + sh)
	countRefinementKinds(c, abs)

	res := call(c, fd.fn, abs)
	c.Count("clause:weakened-call-succeeds")
	switch {
	case res.panicked:
		c.Violate(site, siteFacetAbsPanic, core.PanicClass(res.panicMsg)+" | "+sh, d,
			fmt.Sprintf("concrete result %#v; Go panic: %s\n%s", cres, res.panicMsg, res.stack))
		return
	case res.err != nil && isPanicError(res.err):
		c.Violate(site, siteFacetAbsPanic, "PanicError: "+panicErrorClass(res.err)+" | "+sh, d,
			fmt.Sprintf("concrete result %#v; PanicError: %s", cres, clip(res.err.Error(), 1500)))
		return
	case res.err != nil:
		c.Violate(site, siteFacetAbsFail, errClass(res.err)+" | "+sh, d,
			fmt.Sprintf("concrete result %#v; error: %s", cres, res.err))
		return
	}
	ares, ok = res.v, true
	if w := mon.WellFormed(ares); w != "" {
		c.CrossNote("C06", site+": "+w, d)
	}
	switch {
	case !ares.IsKnown():
		c.Count("abstract-result:unknown")
		c.Count("abstract-result-unknown:" + fd.name)
		if r := describeRange(ares); r != "" {
			c.Count("abstract-result-unknown-refined:" + r)
		}
	case !ares.IsWhollyKnown():
		c.Count("abstract-result:partly-known")
		c.Count("abstract-result-partly-known:" + fd.name)
	default:
		c.Count("abstract-result:wholly-known")
		c.Count("abstract-result-wholly-known:" + fd.name)
	}
	c.Count("clause:abstract-result-admits-concrete-result")
	if why := mon.Admits(ares, cres); why != "" {
		c.Violate(site, siteFacetAdmit, narrowClass(fd, admitClass(why), sh, abs, cres, ares), d,
			fmt.Sprintf("concrete result %#v; abstract result %#v; %s", cres, ares, why))
	}
	if c.WantSample() && !ares.IsWhollyKnown() {
		c.Sample(map[string]any{"function": fd.name, "concrete": fmtArgs(conc), "weakened": fmtArgs(abs),
			"concrete_result": fmt.Sprintf("%#v", cres), "abstract_result": fmt.Sprintf("%#v", ares), "mode": mode})
	}
	return
}

// classSetproductEmpty is the input class of finding F-112a: the concrete
// product is empty, the abstract result claims at least one element, and one
// of the weakened arguments is an unknown collection whose own length range
// starts at zero.
const classSetproductEmpty = "empty product vs lower bound >= 1 while an unknown argument may be empty"

// narrowClass computes the violation class: the coarse reason plus the shape of
// the weakening, except where a listed finding needs a sharper predicate.
func narrowClass(fd *fnDef, coarse, sh string, abs []cty.Value, cres, ares cty.Value) string {
	if fd.name == "setproduct" && coarse == "length" && cres.IsKnown() && !cres.IsNull() && cres.LengthInt() == 0 {
		mayBeEmpty := false
		for _, a := range abs {
			a, _ = a.Unmark()
			if !a.IsKnown() && a.Type().IsCollectionType() {
				o := core.Guard(func() {
					if a.Range().LengthLowerBound() == 0 {
						mayBeEmpty = true
					}
				})
				_ = o
			}
		}
		minLen := 0
		core.Guard(func() {
			// (with bounds 1..1 the refined result collapses to a known one-element list)
			if ares.IsKnown() {
				minLen = ares.LengthInt()
			} else {
				minLen = ares.Range().LengthLowerBound()
			}
		})
		if mayBeEmpty && minLen >= 1 {
			return classSetproductEmpty
		}
	}
	return coarse + " | " + sh
}

func clip(s string, n int) string {
	if len(s) > n {
		return s[:n] + "..."
	}
	return s
}

// describeRange names the refinement kinds carried by an unknown result.
func describeRange(v cty.Value) string {
	v, _ = v.Unmark()
	if v.Type() == cty.DynamicPseudoType {
		return "dynamic"
	}
	var out []string
	o := core.Guard(func() {
		r := v.Range()
		if r.DefinitelyNotNull() {
			out = append(out, "notnull")
		}
		ty := r.TypeConstraint()
		switch {
		case ty == cty.Number:
			lo, _ := r.NumberLowerBound()
			hi, _ := r.NumberUpperBound()
			if lo.IsKnown() && !lo.AsBigFloat().IsInf() {
				out = append(out, "lower-bound")
			}
			if hi.IsKnown() && !hi.AsBigFloat().IsInf() {
				out = append(out, "upper-bound")
			}
		case ty == cty.String:
			if r.StringPrefix() != "" {
				out = append(out, "prefix")
			}
		case ty.IsCollectionType():
			if r.LengthLowerBound() > 0 {
				out = append(out, "min-length")
			}
			if r.LengthUpperBound() < 1<<30 {
				out = append(out, "max-length")
			}
		}
	})
	if o.Panicked {
		return "range-panicked"
	}
	if len(out) == 0 {
		return "unrefined"
	}
	return strings.Join(out, "+")
}

// countRefinementKinds records which kinds of replacement unknowns a weakened
// argument list holds (input classes for the evidence).
func countRefinementKinds(c *core.Ctx, abs []cty.Value) {
	seen := map[string]bool{}
	for _, a := range abs {
		_ = cty.Walk(a, func(_ cty.Path, v cty.Value) (bool, error) {
			if v.IsMarked() {
				return true, nil
			}
			if !v.IsKnown() {
				k := describeRange(v)
				tyk := "other"
				ty := v.Type()
				switch {
				case ty == cty.Number:
					tyk = "number"
				case ty == cty.String:
					tyk = "string"
				case ty == cty.Bool:
					tyk = "bool"
				case ty.IsListType():
					tyk = "list"
				case ty.IsSetType():
					tyk = "set"
				case ty.IsMapType():
					tyk = "map"
				case ty.IsTupleType():
					tyk = "tuple"
				case ty.IsObjectType():
					tyk = "object"
				case ty.IsCapsuleType():
					tyk = "capsule"
				}
				seen["replacement:"+tyk+":"+k] = true
			}
			return true, nil
		})
	}
	for k := range seen {
		c.Count(k)
	}
}

// weakenings derives up to seven weakened argument lists from conc.
func weakenings(r *core.Rand, conc []cty.Value) ([][]cty.Value, []string) {
	var out [][]cty.Value
	var modes []string
	add := func(a []cty.Value, mode string) { out = append(out, a); modes = append(modes, mode) }
	cp := func() []cty.Value { return append([]cty.Value(nil), conc...) }
	if len(conc) == 0 {
		return nil, nil
	}
	// 1. one whole argument, unrefined
	{
		a := cp()
		k := r.Intn(len(a))
		a[k] = cty.UnknownVal(conc[k].Type())
		add(a, "whole-argument-unrefined")
	}
	// 2. one whole argument, refined with true refinements
	{
		a := cp()
		k := r.Intn(len(a))
		a[k] = gen.AdmittingUnknown(r, conc[k], true, false)
		add(a, "whole-argument-refined")
	}
	// 3. nested members at any depth
	{
		a := cp()
		wo := gen.WeakenOpts{Pct: 15 + r.Intn(30), Refined: r.Chance(3, 4), TypedOnly: true, InflateSets: true}
		n := 0
		for k := range a {
			w := wo
			if k == len(a)-1 && n == 0 {
				w.ForceOne = true
			}
			var rec []gen.Weakening
			a[k], rec = gen.Weaken(r, conc[k], w)
			n += len(rec)
		}
		add(a, "nested-members")
	}
	// 4. one enumerated single position (any depth) with one entry of the refinement menu
	{
		a := cp()
		k := r.Intn(len(a))
		if conc[k].Type() != cty.DynamicPseudoType {
			sp := singlePositions(conc[k])
			if len(sp) > 0 {
				a[k] = sp[r.Intn(len(sp))].V
				add(a, "single-position-menu")
			}
		}
	}
	// 5. several whole arguments
	if len(conc) > 1 {
		a := cp()
		for k := range a {
			if r.Bool() {
				a[k] = gen.AdmittingUnknown(r, conc[k], r.Bool(), false)
			}
		}
		add(a, "several-whole-arguments")
	}
	// 6. mixed: members of one argument, the whole of another
	{
		a := cp()
		k := r.Intn(len(a))
		var rec []gen.Weakening
		a[k], rec = gen.Weaken(r, conc[k], gen.WeakenOpts{Pct: 35, Refined: true, TypedOnly: true, ForceOne: true, InflateSets: true})
		_ = rec
		if len(a) > 1 && r.Bool() {
			j := (k + 1 + r.Intn(len(a)-1)) % len(a)
			a[j] = gen.AdmittingUnknown(r, conc[j], true, false)
		}
		add(a, "mixed")
	}
	// 7. one collection argument with a length bound far from its length (loose.go)
	if a := farLengthWeakening(r, conc); a != nil {
		add(a, "far-length-bound")
	}
	return out, modes
}

// singlePositions guards gen.SinglePositionWeakenings: for numbers of magnitude
// >= 2^640 its "neighbour" bounds round back onto the number itself and the
// refinement builder (rightly) panics on the empty range; such menus are skipped.
func singlePositions(v cty.Value) []gen.SingleWeakening {
	var sp []gen.SingleWeakening
	o := core.Guard(func() { sp = gen.SinglePositionWeakenings(v, false) })
	if o.Panicked {
		return nil
	}
	return sp
}

func (Driver) Run(c *core.Ctx) {
	sched := schedule()
	n := int64(c.N(12000, 88000))
	for i := int64(0); i < n; i++ {
		if !c.Want(i) {
			continue
		}
		r := c.RNG(i)
		fd := sched[(int(i)+c.Batch*13)%len(sched)]
		var conc []cty.Value
		var cres cty.Value
		ok := false
		for try := 0; try < 4 && !ok; try++ {
			conc = fd.gen(r)
			if conc == nil {
				continue
			}
			cres, ok = concrete(c, i, fd, conc)
		}
		if !ok {
			c.Count("case-abandoned:no-successful-concrete-call")
			continue
		}
		ws, modes := weakenings(r, conc)
		var valid [][]cty.Value
		for k := range ws {
			if pair(c, i, fd, conc, cres, ws[k], modes[k]) {
				valid = append(valid, ws[k])
			}
		}
		histories(c, i, r, fd, conc, cres, valid)
	}
	runChains(c, 500_000_000)
	runCorpus(c, 1_000_000_000)
	runCatalogue(c, 2_000_000_000)
	if c.Batch == 0 {
		c.CountN("functions-in-registry", int64(len(registry())))
		registryGaps(c)
	}
}

var reFuncVar = regexp.MustCompile(`(?m)^var ([A-Za-z0-9_]+Func) = function\.New\(`)
var reRegRef = regexp.MustCompile(`stdlib\.([A-Za-z0-9_]+Func)\b`)

// registryGaps reads the stdlib sources of the tree under test and records every
// "var XFunc = function.New(" that the registry does not drive (coverage gap,
// shown in the evidence; not a verdict).
func registryGaps(c *core.Ctx) {
	dir := "/repo"
	if d := os.Getenv("VERIF_REPO"); d != "" {
		dir = d
	}
	dir = filepath.Join(dir, "cty", "function", "stdlib")
	ents, err := os.ReadDir(dir)
	if err != nil {
		c.Count("registry-check:skipped-unreadable-source-dir")
		return
	}
	self, err := os.ReadFile(filepath.Join(os.Getenv("VERIF_ROOT"), "harness", "props", "c12", "gens.go"))
	if err != nil {
		self, err = os.ReadFile("/verif/harness/props/c12/gens.go")
	}
	if err != nil {
		c.Count("registry-check:skipped-unreadable-driver-source")
		return
	}
	driven := map[string]bool{}
	for _, m := range reRegRef.FindAllStringSubmatch(string(self), -1) {
		driven[m[1]] = true
	}
	n := 0
	for _, e := range ents {
		if e.IsDir() || !strings.HasSuffix(e.Name(), ".go") || strings.HasSuffix(e.Name(), "_test.go") {
			continue
		}
		b, err := os.ReadFile(filepath.Join(dir, e.Name()))
		if err != nil {
			continue
		}
		for _, m := range reFuncVar.FindAllStringSubmatch(string(b), -1) {
			n++
			if !driven[m[1]] {
				c.Count("registry-gap:" + m[1])
			}
		}
	}
	c.CountN("registry-check:function-variables-in-source", int64(n))
}
