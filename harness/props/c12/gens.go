package c12

// One in-domain generator of WHOLLY KNOWN argument lists per standard-library
// function. "In domain" = built from the function's parameter constraints and
// its description so that most lists make the concrete call succeed (lists on
// which it fails are counted and skipped by the driver). The generators are
// written for this driver only; they share no code with C13/C14.

import (
	"fmt"
	"strings"
	"sync"

	"github.com/zclconf/go-cty/cty"
	"github.com/zclconf/go-cty/cty/function"
	"github.com/zclconf/go-cty/cty/function/stdlib"

	"verif/harness/core"
	"verif/harness/gen"
	"verif/harness/mon"
)

type fnDef struct {
	name   string
	fn     function.Function
	gen    func(r *core.Rand) []cty.Value
	weight int // relative share of the sampled cases
}

func args(v ...cty.Value) []cty.Value { return v }

func nI(i int) cty.Value     { return cty.NumberIntVal(int64(i)) }
func sV(s string) cty.Value  { return cty.StringVal(s) }
func fV(f float64) cty.Value { return cty.NumberFloatVal(f) }

var prims = []cty.Type{cty.String, cty.Number, cty.Bool}

func primTy(r *core.Rand) cty.Type { return prims[r.Weighted([]int{4, 4, 2})] }

// elemTy: mostly primitive, sometimes structured (depth <= 2).
func elemTy(r *core.Rand) cty.Type {
	if r.Chance(3, 4) {
		return primTy(r)
	}
	return gen.Type(r, 2, gen.TypeOpts{}).Cty()
}

func vo(r *core.Rand, nullPct int) gen.ValueOpts {
	return gen.ValueOpts{SmallNums: true, MaxLen: 3, NullPct: nullPct, NoTopNull: true, LongStr: r.Chance(1, 4)}
}

// kv: a wholly known value of type ty (nested nulls with the given percentage).
func kv(r *core.Rand, ty cty.Type, nullPct int) cty.Value { return gen.Value(r, ty, vo(r, nullPct)) }

func anyTy(r *core.Rand) cty.Type { return gen.Type(r, 3, gen.TypeOpts{}).Cty() }

func tupleTy(r *core.Rand, maxLen int) cty.Type {
	n := r.Intn(maxLen + 1)
	ts := make([]cty.Type, n)
	same := r.Chance(1, 3)
	for i := range ts {
		if same && i > 0 {
			ts[i] = ts[0]
		} else {
			ts[i] = elemTy(r)
		}
	}
	return cty.Tuple(ts)
}

func objectTy(r *core.Rand) cty.Type {
	n := r.Intn(4)
	at := map[string]cty.Type{}
	for i := 0; i < n; i++ {
		at[gen.SimpleKey(r)] = elemTy(r)
	}
	return cty.Object(at)
}

func listOrTuple(r *core.Rand, nullPct int) cty.Value {
	if r.Chance(3, 5) {
		return kv(r, cty.List(elemTy(r)), nullPct)
	}
	return kv(r, tupleTy(r, 3), nullPct)
}

func seqOrSet(r *core.Rand, nullPct int) cty.Value {
	if r.Chance(1, 3) {
		return kv(r, cty.Set(elemTy(r)), nullPct)
	}
	return listOrTuple(r, nullPct)
}

func mapOrObject(r *core.Rand, nullPct int) cty.Value {
	if r.Bool() {
		return kv(r, cty.Map(elemTy(r)), nullPct)
	}
	return kv(r, objectTy(r), nullPct)
}

func str(r *core.Rand) cty.Value {
	if r.Chance(2, 5) {
		return sV(gen.String(r, 8))
	}
	return sV(gen.SmallString(r))
}

func asciiWord(r *core.Rand) string {
	ws := []string{"", "a", "ab", "abc", "hello", "hello world", "x,y", "a-b-c", "foo bar baz", "  pad  ", "line1\nline2", "tail\n", "tail\r\n\n", "A1", "aXbXc", "aaa", "abcabc", "Mixed Case", "ünï", "é", "1,2,3"}
	return ws[r.Intn(len(ws))]
}

func num(r *core.Rand) cty.Value {
	if r.Chance(1, 2) {
		return gen.SmallNumber(r)
	}
	return gen.Number(r).V
}

func smallInt(r *core.Rand, lo, hi int) cty.Value { return nI(lo + r.Intn(hi-lo+1)) }

func boolV(r *core.Rand) cty.Value { return cty.BoolVal(r.Bool()) }

// strList: list(string) with optional nulls and empty strings.
func strList(r *core.Rand, nullPct int, maxLen int) cty.Value {
	n := r.Intn(maxLen + 1)
	if n == 0 {
		return cty.ListValEmpty(cty.String)
	}
	es := make([]cty.Value, n)
	for i := range es {
		switch {
		case nullPct > 0 && r.Chance(nullPct, 100):
			es[i] = cty.NullVal(cty.String)
		case r.Chance(1, 6):
			es[i] = sV("")
		default:
			es[i] = str(r)
		}
	}
	return cty.ListVal(es)
}

func dedupe(es []cty.Value) []cty.Value {
	var out []cty.Value
	for _, e := range es {
		dup := false
		for _, x := range out {
			if mon.ModelEqual(x, e) {
				dup = true
				break
			}
		}
		if !dup {
			out = append(out, e)
		}
	}
	return out
}

func setOf(r *core.Rand, ety cty.Type, maxLen int) cty.Value {
	n := r.Intn(maxLen + 1)
	var es []cty.Value
	for i := 0; i < n; i++ {
		es = append(es, kv(r, ety, 0))
	}
	es = dedupe(es)
	if len(es) == 0 {
		return cty.SetValEmpty(ety)
	}
	return cty.SetVal(es)
}

func listOfLen(r *core.Rand, ety cty.Type, n int, nullPct int) cty.Value {
	if n == 0 {
		return cty.ListValEmpty(ety)
	}
	es := make([]cty.Value, n)
	for i := range es {
		if nullPct > 0 && r.Chance(nullPct, 100) {
			es[i] = cty.NullVal(ety)
		} else {
			es[i] = kv(r, ety, 0)
		}
	}
	return cty.ListVal(es)
}

// ---------------------------------------------------------------------------
// collection.go

func genHasIndex(valid bool) func(r *core.Rand) []cty.Value {
	return func(r *core.Rand) []cty.Value {
		switch r.Intn(3) {
		case 0:
			l := kv(r, cty.List(elemTy(r)), 10)
			n := l.LengthInt()
			if valid && n > 0 && r.Chance(5, 6) {
				return args(l, nI(r.Intn(n)))
			}
			switch r.Intn(6) {
			case 0:
				return args(l, fV(0.5))
			case 1:
				return args(l, sV("0"))
			}
			return args(l, smallInt(r, -1, n+1))
		case 1:
			m := kv(r, cty.Map(elemTy(r)), 10)
			if valid && m.LengthInt() > 0 && r.Chance(5, 6) {
				ks := sortedKeys(m.AsValueMap())
				return args(m, sV(ks[r.Intn(len(ks))]))
			}
			return args(m, sV(gen.SimpleKey(r)))
		default:
			t := kv(r, tupleTy(r, 3), 10)
			n := t.LengthInt()
			if valid && n > 0 && r.Chance(5, 6) {
				return args(t, nI(r.Intn(n)))
			}
			return args(t, smallInt(r, -1, n+1))
		}
	}
}

func sortedKeys(m map[string]cty.Value) []string {
	ks := make([]string, 0, len(m))
	for k := range m {
		ks = append(ks, k)
	}
	for i := 1; i < len(ks); i++ {
		for j := i; j > 0 && ks[j] < ks[j-1]; j-- {
			ks[j], ks[j-1] = ks[j-1], ks[j]
		}
	}
	return ks
}

func genLength(r *core.Rand) []cty.Value {
	switch r.Intn(4) {
	case 0:
		return args(kv(r, cty.List(elemTy(r)), 10))
	case 1:
		return args(setOf(r, elemTy(r), 4))
	case 2:
		return args(kv(r, cty.Map(elemTy(r)), 10))
	}
	return args(kv(r, tupleTy(r, 3), 10))
}

func genElement(r *core.Rand) []cty.Value {
	l := listOrTuple(r, 10)
	n := l.LengthInt()
	return args(l, smallInt(r, -n-2, 2*n+2))
}

func genCoalesceList(r *core.Rand) []cty.Value {
	n := 1 + r.Intn(3)
	ety := elemTy(r)
	out := make([]cty.Value, n)
	for i := range out {
		switch r.Intn(6) {
		case 0:
			out[i] = cty.NullVal(cty.List(ety))
		case 1:
			out[i] = cty.ListValEmpty(ety)
		case 2:
			out[i] = kv(r, tupleTy(r, 2), 5)
		case 3:
			out[i] = kv(r, cty.List(elemTy(r)), 5)
		default:
			out[i] = kv(r, cty.List(ety), 5)
		}
	}
	return out
}

func genCompact(r *core.Rand) []cty.Value { return args(strList(r, 20, 4)) }

func genContains(r *core.Rand) []cty.Value {
	c := seqOrSet(r, 8)
	if c.LengthInt() > 0 && r.Bool() {
		es := c.AsValueSlice()
		return args(c, es[r.Intn(len(es))])
	}
	if c.Type().IsCollectionType() && r.Chance(4, 5) {
		return args(c, kv(r, c.Type().ElementType(), 0))
	}
	return args(c, kv(r, primTy(r), 0))
}

func genDistinct(r *core.Rand) []cty.Value {
	return args(gen.Value(r, cty.List(elemTy(r)), gen.ValueOpts{SmallNums: true, MaxLen: 4, NullPct: 8, NoTopNull: true}))
}

func genChunklist(r *core.Rand) []cty.Value {
	return args(gen.Value(r, cty.List(elemTy(r)), gen.ValueOpts{SmallNums: true, MaxLen: 4, NullPct: 8, NoTopNull: true}), smallInt(r, 0, 4))
}

func genFlatten(r *core.Rand) []cty.Value {
	inner := func() cty.Type {
		switch r.Intn(4) {
		case 0:
			return cty.List(primTy(r))
		case 1:
			return cty.Set(primTy(r))
		case 2:
			return cty.Tuple([]cty.Type{primTy(r), cty.List(primTy(r))})
		}
		return primTy(r)
	}
	switch r.Intn(4) {
	case 0:
		return args(kv(r, cty.List(inner()), 10))
	case 1:
		return args(setOf(r, inner(), 3))
	case 2:
		n := r.Intn(4)
		ts := make([]cty.Type, n)
		for i := range ts {
			ts[i] = inner()
		}
		return args(kv(r, cty.Tuple(ts), 10))
	}
	return args(kv(r, cty.List(cty.List(cty.List(primTy(r)))), 5))
}

func genKeys(r *core.Rand) []cty.Value { return args(mapOrObject(r, 10)) }

func genLookup(r *core.Rand) []cty.Value {
	if r.Bool() {
		ety := elemTy(r)
		m := kv(r, cty.Map(ety), 8)
		key := sV(gen.SimpleKey(r))
		if m.LengthInt() > 0 && r.Bool() {
			ks := sortedKeys(m.AsValueMap())
			key = sV(ks[r.Intn(len(ks))])
		}
		def := kv(r, ety, 0)
		if ety == cty.String && r.Chance(1, 4) {
			def = gen.SmallNumber(r) // convertible default
		}
		return args(m, key, def)
	}
	o := kv(r, objectTy(r), 8)
	key := sV(gen.SimpleKey(r))
	return args(o, key, kv(r, elemTy(r), 0))
}

func genMerge(r *core.Rand) []cty.Value {
	n := r.Intn(4)
	out := make([]cty.Value, n)
	ety := elemTy(r)
	allMaps := r.Chance(1, 3)
	for i := range out {
		switch {
		case allMaps || r.Chance(1, 3):
			if r.Chance(1, 8) {
				out[i] = cty.NullVal(cty.Map(ety))
			} else {
				out[i] = kv(r, cty.Map(ety), 8)
			}
		default:
			ot := objectTy(r)
			if r.Chance(1, 8) {
				out[i] = cty.NullVal(ot)
			} else {
				out[i] = kv(r, ot, 8)
			}
		}
	}
	return out
}

func genReverseList(r *core.Rand) []cty.Value { return args(seqOrSet(r, 8)) }

func genSetProduct(r *core.Rand) []cty.Value {
	n := 2 + r.Intn(2)
	maxLen := 2
	if r.Chance(1, 4) {
		// longer arguments and a fourth one: products of lengths up to 4^4
		maxLen = 4
		n += r.Intn(2)
	}
	out := make([]cty.Value, n)
	anySet := r.Chance(1, 3)
	for i := range out {
		ety := primTy(r)
		o := gen.ValueOpts{SmallNums: true, MaxLen: maxLen, NoTopNull: true}
		switch {
		case anySet && r.Bool():
			out[i] = setOf(r, ety, maxLen)
		case r.Chance(1, 4):
			k := r.Intn(maxLen + 1)
			ts := make([]cty.Type, k)
			for j := range ts {
				ts[j] = ety
				if r.Chance(1, 4) {
					ts[j] = cty.String
				}
			}
			out[i] = gen.Value(r, cty.Tuple(ts), o)
		default:
			out[i] = gen.Value(r, cty.List(ety), o)
		}
	}
	return out
}

func genSlice(r *core.Rand) []cty.Value {
	l := listOrTuple(r, 8)
	n := l.LengthInt()
	if r.Chance(1, 8) {
		return args(l, smallInt(r, -1, n+1), smallInt(r, -1, n+1))
	}
	s := r.Intn(n + 1)
	e := s + r.Intn(n-s+1)
	return args(l, nI(s), nI(e))
}

func genZipmap(r *core.Rand) []cty.Value {
	n := r.Intn(4)
	ks := make([]cty.Value, n)
	for i := range ks {
		ks[i] = sV(gen.SimpleKey(r))
	}
	keys := cty.ListValEmpty(cty.String)
	if n > 0 {
		keys = cty.ListVal(ks)
	}
	if r.Bool() {
		return args(keys, listOfLen(r, elemTy(r), n, 8))
	}
	ts := make([]cty.Type, n)
	for i := range ts {
		ts[i] = elemTy(r)
	}
	return args(keys, kv(r, cty.Tuple(ts), 8))
}

// ---------------------------------------------------------------------------
// conversion.go

func genTo(want cty.Type) func(r *core.Rand) []cty.Value {
	return func(r *core.Rand) []cty.Value {
		if r.Chance(1, 12) {
			return args(cty.NullVal(primTy(r)))
		}
		switch {
		case want == cty.String:
			return args(kv(r, primTy(r), 0))
		case want == cty.Number:
			switch r.Intn(3) {
			case 0:
				return args(sV([]string{"1", "-2.5", "0", "1e3", "12345678901234567890", " 1", "x"}[r.Intn(7)]))
			}
			return args(num(r))
		case want == cty.Bool:
			switch r.Intn(3) {
			case 0:
				return args(sV([]string{"true", "false", "True", "1"}[r.Intn(4)]))
			}
			return args(boolV(r))
		case want.IsListType() || want.IsSetType():
			ety := want.ElementType()
			if ety == cty.DynamicPseudoType {
				return args(seqOrSet(r, 8))
			}
			switch r.Intn(3) {
			case 0:
				return args(kv(r, cty.List(primTy(r)), 8))
			case 1:
				return args(setOf(r, primTy(r), 3))
			}
			k := r.Intn(4)
			ts := make([]cty.Type, k)
			for i := range ts {
				ts[i] = primTy(r)
			}
			return args(kv(r, cty.Tuple(ts), 8))
		case want.IsMapType():
			ety := want.ElementType()
			if ety == cty.DynamicPseudoType {
				return args(mapOrObject(r, 8))
			}
			if r.Bool() {
				return args(kv(r, cty.Map(primTy(r)), 8))
			}
			k := r.Intn(4)
			at := map[string]cty.Type{}
			for i := 0; i < k; i++ {
				at[gen.SimpleKey(r)] = primTy(r)
			}
			return args(kv(r, cty.Object(at), 8))
		}
		return args(kv(r, anyTy(r), 8))
	}
}

func genAnyNonNull(r *core.Rand) []cty.Value { return args(kv(r, anyTy(r), 10)) }

// ---------------------------------------------------------------------------
// csv.go, datetime.go

func genCSV(r *core.Rand) []cty.Value {
	cols := 1 + r.Intn(3)
	names := []string{"a", "b", "name", "id", "long name", "é"}
	off := r.Intn(len(names))
	var b strings.Builder
	cell := func() string {
		c := []string{"", "x", "1", "hello world", "\"quoted, cell\"", "é", "a b", "\"two\nlines\""}
		return c[r.Intn(len(c))]
	}
	for i := 0; i < cols; i++ {
		if i > 0 {
			b.WriteByte(',')
		}
		b.WriteString(names[(off+i)%len(names)])
	}
	b.WriteByte('\n')
	rows := r.Intn(4)
	for j := 0; j < rows; j++ {
		for i := 0; i < cols; i++ {
			if i > 0 {
				b.WriteByte(',')
			}
			b.WriteString(cell())
		}
		if j < rows-1 || r.Bool() {
			b.WriteByte('\n')
		}
	}
	return args(sV(b.String()))
}

var timestamps = []string{"2006-01-02T15:04:05Z", "2020-02-29T23:59:59+05:30", "1999-12-31T00:00:00-08:00", "2024-07-04T12:00:00Z", "0001-01-01T00:00:00Z", "2017-11-22T00:00:00Z"}

func genFormatDate(r *core.Rand) []cty.Value {
	toks := []string{"YYYY", "YY", "MM", "M", "MMM", "MMMM", "DD", "D", "EEE", "EEEE", "hh", "h", "HH", "H", "AA", "aa", "mm", "m", "ss", "s", "ZZZZZ", "ZZZZ", "ZZZ", "Z", "-", ":", " ", "T", "'at'", "''", "/", ", "}
	n := 1 + r.Intn(6)
	var b strings.Builder
	for i := 0; i < n; i++ {
		b.WriteString(toks[r.Intn(len(toks))])
		if r.Bool() {
			b.WriteString([]string{"-", " ", ":", "/"}[r.Intn(4)])
		}
	}
	return args(sV(b.String()), sV(timestamps[r.Intn(len(timestamps))]))
}

func genTimeAdd(r *core.Rand) []cty.Value {
	durs := []string{"1h", "-1h", "30m", "24h", "1h30m15s", "0s", "1.5h", "-720h", "100ms", "8760h"}
	return args(sV(timestamps[r.Intn(len(timestamps))]), sV(durs[r.Intn(len(durs))]))
}

// ---------------------------------------------------------------------------
// format.go

// fmtPiece draws a verb suitable for a value of type ty (or any type) and the value.
func fmtVerbFor(r *core.Rand, v cty.Value) string {
	ty := v.Type()
	flagsW := func() string {
		s := ""
		if r.Chance(1, 4) {
			s += []string{"-", "+", " ", "0"}[r.Intn(4)]
		}
		if r.Chance(1, 3) {
			s += fmt.Sprint(1 + r.Intn(8))
		}
		return s
	}
	if v.IsNull() {
		return []string{"%v", "%#v"}[r.Intn(2)]
	}
	switch {
	case ty == cty.String:
		switch r.Intn(6) {
		case 0:
			return "%" + flagsW() + "q"
		case 1:
			return "%" + flagsW() + "v"
		case 2:
			return "%" + flagsW() + "." + fmt.Sprint(1+r.Intn(3)) + "s"
		case 3:
			return "%#v"
		}
		return "%" + flagsW() + "s"
	case ty == cty.Number:
		isInt := v.AsBigFloat().IsInt()
		switch r.Intn(7) {
		case 0:
			if isInt {
				return "%" + flagsW() + []string{"d", "x", "X", "o", "b"}[r.Intn(5)]
			}
		case 1:
			return "%" + flagsW() + "." + fmt.Sprint(r.Intn(4)) + "f"
		case 2:
			return "%" + flagsW() + []string{"e", "E", "g", "G", "f"}[r.Intn(5)]
		case 3:
			return "%" + flagsW() + "s"
		case 4:
			return "%#v"
		}
		if isInt && r.Bool() {
			return "%" + flagsW() + "d"
		}
		return "%" + flagsW() + "v"
	case ty == cty.Bool:
		switch r.Intn(4) {
		case 0:
			return "%t"
		case 1:
			return "%s"
		case 2:
			return "%#v"
		}
		return "%" + flagsW() + "v"
	}
	return []string{"%v", "%#v", "%10v"}[r.Intn(3)]
}

func fmtLiteral(r *core.Rand) string {
	ls := []string{"", "", "x", "a=", "hello ", "-", " ", "%%", "é", "[", "{\"k\": ", "e", "각", "line\n", "100%% ", "가", "ᄀ", "=", "\r", "👍", "1"}
	return ls[r.Intn(len(ls))]
}

// joiners: strings whose first code point combines with a preceding literal
// (combining marks, a Hangul trailing consonant, ZWJ, a skin-tone modifier).
var joiners = []string{"\u0301x", "\u0323", "\u11a8", "\u1161\u11a8", "\u200d\U0001F469", "\U0001F3FD", "\ufe0f\u20e3", "\n", "\u0338"}

func fmtArgVal(r *core.Rand) cty.Value {
	switch r.Intn(10) {
	case 0, 1, 2:
		if r.Chance(1, 5) {
			return sV(joiners[r.Intn(len(joiners))])
		}
		return str(r)
	case 3, 4, 5:
		return num(r)
	case 6:
		return boolV(r)
	case 7:
		return cty.NullVal(primTy(r))
	case 8:
		return kv(r, cty.List(primTy(r)), 8)
	}
	return kv(r, objectTy(r), 8)
}

// composing: a literal and a continuation that fuse under NFC, so the literal
// text before the first verb is NOT a byte prefix of the formatted result.
var composing = [][2]string{{"e", "\u0301"}, {"a=", "\u0338"}, {"\uac00", "\u11a8"}, {"\u1100", "\u1161"}, {"xA", "\u030a"}, {"o", "\u0323\u0301z"}, {"<", "\u0338="}}

func genFormat(r *core.Rand) []cty.Value {
	if r.Chance(1, 12) {
		p := composing[r.Intn(len(composing))]
		verb := []string{"%s", "%v", "%s%s", "%[1]s"}[r.Intn(4)]
		out := []cty.Value{sV(p[0] + verb + fmtLiteral(r)), sV(p[1])}
		if verb == "%s%s" {
			out = append(out, str(r))
		}
		return out
	}
	n := r.Intn(4)
	vals := make([]cty.Value, n)
	var b strings.Builder
	b.WriteString(fmtLiteral(r))
	explicit := n > 1 && r.Chance(1, 6)
	for i := range vals {
		vals[i] = fmtArgVal(r)
	}
	order := make([]int, n)
	for i := range order {
		order[i] = i
	}
	if explicit {
		order = r.Perm(n)
	}
	for _, i := range order {
		verb := fmtVerbFor(r, vals[i])
		if explicit {
			// %[n]verb : insert the index right before the verb letter
			verb = verb[:len(verb)-1] + fmt.Sprintf("[%d]", i+1) + verb[len(verb)-1:]
		}
		b.WriteString(verb)
		b.WriteString(fmtLiteral(r))
	}
	out := []cty.Value{sV(b.String())}
	return append(out, vals...)
}

func genFormatList(r *core.Rand) []cty.Value {
	n := r.Intn(4)
	length := r.Intn(4)
	vals := make([]cty.Value, n)
	var b strings.Builder
	b.WriteString(fmtLiteral(r))
	for i := range vals {
		ety := primTy(r)
		var verb string
		switch r.Intn(5) {
		case 0: // scalar, repeated on every iteration
			vals[i] = kv(r, ety, 0)
			verb = fmtVerbFor(r, vals[i])
		case 1: // tuple
			ts := make([]cty.Type, length)
			for j := range ts {
				ts[j] = ety
			}
			vals[i] = kv(r, cty.Tuple(ts), 0)
			verb = "%v"
		case 2: // set (its length may differ after de-duplication -> concrete error, skipped)
			es := make([]cty.Value, 0, length)
			for j := 0; j < length; j++ {
				es = append(es, kv(r, ety, 0))
			}
			es = dedupe(es)
			if len(es) == 0 {
				vals[i] = cty.SetValEmpty(ety)
			} else {
				vals[i] = cty.SetVal(es)
			}
			verb = "%v"
		default:
			vals[i] = listOfLen(r, ety, length, 0)
			verb = "%v"
			if ety == cty.String && r.Bool() {
				verb = []string{"%s", "%q", "%5s", "%-4s|"}[r.Intn(4)]
			}
			if ety == cty.Number && r.Chance(1, 3) {
				verb = []string{"%g", "%.2f", "%s"}[r.Intn(3)]
			}
		}
		b.WriteString(verb)
		b.WriteString(fmtLiteral(r))
	}
	out := []cty.Value{sV(b.String())}
	return append(out, vals...)
}

// ---------------------------------------------------------------------------
// general.go, json.go

func genEqual(r *core.Rand) []cty.Value {
	ty := anyTy(r)
	a := gen.Value(r, ty, gen.ValueOpts{SmallNums: true, MaxLen: 3, NullPct: 8})
	switch r.Intn(6) {
	case 0:
		return args(a, a)
	case 1:
		return args(a, gen.Value(r, anyTy(r), gen.ValueOpts{SmallNums: true, MaxLen: 3, NullPct: 8}))
	case 2:
		return args(a, cty.NullVal(ty))
	}
	return args(a, gen.Value(r, ty, gen.ValueOpts{SmallNums: true, MaxLen: 3, NullPct: 8}))
}

func genCoalesce(r *core.Rand) []cty.Value {
	n := 1 + r.Intn(3)
	ty := elemTy(r)
	out := make([]cty.Value, n)
	for i := range out {
		t := ty
		if ty == cty.String && r.Chance(1, 4) {
			t = cty.Number // unifies to string
		}
		if r.Chance(1, 3) {
			out[i] = cty.NullVal(t)
		} else {
			out[i] = kv(r, t, 8)
		}
	}
	return out
}

func genJSONEncode(r *core.Rand) []cty.Value {
	ty := anyTy(r)
	return args(gen.Value(r, ty, gen.ValueOpts{SmallNums: r.Bool(), MaxLen: 3, NullPct: 8, LongStr: r.Bool()}))
}

func jsonText(r *core.Rand, depth int) string {
	k := r.Intn(8)
	if depth <= 0 && k >= 5 {
		k = r.Intn(5)
	}
	switch k {
	case 0:
		return []string{"true", "false"}[r.Intn(2)]
	case 1:
		return "null"
	case 2:
		return []string{"0", "1", "-1", "2.5", "1e3", "-0.125", "12345678901234567890", "1E-2"}[r.Intn(8)]
	case 3, 4:
		return []string{`""`, `"a"`, `"hello world"`, `"é"`, `"é"`, `"line\nbreak"`, `"q\"uote"`, `"true"`, `"1"`, `"👍🏽"`}[r.Intn(10)]
	case 5, 6:
		n := r.Intn(4)
		p := make([]string, n)
		for i := range p {
			p[i] = jsonText(r, depth-1)
		}
		return "[" + strings.Join(p, []string{",", ", "}[r.Intn(2)]) + "]"
	}
	n := r.Intn(4)
	p := make([]string, 0, n)
	used := map[string]bool{}
	for i := 0; i < n; i++ {
		key := gen.SimpleKey(r)
		if used[key] {
			continue
		}
		used[key] = true
		p = append(p, fmt.Sprintf("%q:%s", key, jsonText(r, depth-1)))
	}
	return "{" + strings.Join(p, ",") + "}"
}

func genJSONDecode(r *core.Rand) []cty.Value {
	s := jsonText(r, 2)
	if r.Chance(1, 6) {
		s = []string{" ", "\n", "\t ", "\r\n"}[r.Intn(4)] + s
	}
	if r.Chance(1, 8) {
		s += " "
	}
	return args(sV(s))
}

// ---------------------------------------------------------------------------
// number.go

func genNum1(r *core.Rand) []cty.Value { return args(num(r)) }
func genNum2(r *core.Rand) []cty.Value { return args(num(r), num(r)) }
func genNumN(r *core.Rand) []cty.Value {
	n := 1 + r.Intn(4)
	out := make([]cty.Value, n)
	for i := range out {
		out[i] = num(r)
	}
	return out
}
func genSignum(r *core.Rand) []cty.Value {
	if r.Chance(1, 5) {
		return args(num(r))
	}
	return args(smallInt(r, -1000, 1000))
}
func genLog(r *core.Rand) []cty.Value {
	xs := []cty.Value{nI(1), nI(2), nI(8), nI(10), nI(100), fV(0.5), fV(2.718281828), nI(1024), fV(1e10)}
	bs := []cty.Value{nI(2), nI(10), fV(2.718281828), fV(0.5), nI(16)}
	return args(xs[r.Intn(len(xs))], bs[r.Intn(len(bs))])
}
func genPow(r *core.Rand) []cty.Value {
	xs := []cty.Value{nI(0), nI(1), nI(2), nI(-2), nI(10), fV(0.5), fV(1.5), nI(3)}
	ps := []cty.Value{nI(0), nI(1), nI(2), nI(3), nI(-1), fV(0.5), nI(10)}
	return args(xs[r.Intn(len(xs))], ps[r.Intn(len(ps))])
}
func genParseInt(r *core.Rand) []cty.Value {
	base := []int{2, 8, 10, 16, 36, 62}[r.Intn(6)]
	const digits = "0123456789abcdefghijklmnopqrstuvwxyzABCDEFGHIJKLMNOPQRSTUVWXYZ"
	n := 1 + r.Intn(6)
	var b strings.Builder
	if r.Chance(1, 5) {
		b.WriteByte('-')
	}
	for i := 0; i < n; i++ {
		b.WriteByte(digits[r.Intn(base)])
	}
	return args(sV(b.String()), nI(base))
}

// ---------------------------------------------------------------------------
// regexp.go, string_replace.go

var patterns = []string{"a", "[a-z]+", "(a)(b)?", "(?P<first>[a-z]+) (?P<second>[a-z]+)", "^hello", "o", "\\d+", "(\\d+),(\\d+)", ".", "l+", "(?i)HELLO", "x*", "[,-]", "(?P<k>\\w)=(?P<v>\\w*)"}
var regexSubjects = []string{"hello world", "abc", "ab", "a", "1,2,3", "k=v", "aXbXc", "foo bar baz", "a-b-c", "x", "12 34", "", "hello hello"}

func genRegex(r *core.Rand) []cty.Value {
	return args(sV(patterns[r.Intn(len(patterns))]), sV(regexSubjects[r.Intn(len(regexSubjects))]))
}
func genRegexReplace(r *core.Rand) []cty.Value {
	repl := []string{"", "-", "$1", "${first}", "<$0>", "x"}
	return args(sV(regexSubjects[r.Intn(len(regexSubjects))]), sV(patterns[r.Intn(len(patterns))]), sV(repl[r.Intn(len(repl))]))
}
func genReplace(r *core.Rand) []cty.Value {
	subs := []string{"", "a", "l", "o w", ",", "X", "é", "ab"}
	repl := []string{"", "-", "aa", "é", "́"}
	s := asciiWord(r)
	if r.Chance(1, 4) {
		s = gen.String(r, 6)
	}
	return args(sV(s), sV(subs[r.Intn(len(subs))]), sV(repl[r.Intn(len(repl))]))
}

// ---------------------------------------------------------------------------
// sequence.go, set.go

func genConcat(r *core.Rand) []cty.Value {
	n := 1 + r.Intn(3)
	out := make([]cty.Value, n)
	ety := elemTy(r)
	allLists := r.Bool()
	for i := range out {
		switch {
		case allLists:
			t := ety
			if ety == cty.String && r.Chance(1, 5) {
				t = cty.Number
			}
			out[i] = kv(r, cty.List(t), 8)
		case r.Bool():
			out[i] = kv(r, tupleTy(r, 3), 8)
		default:
			out[i] = kv(r, cty.List(elemTy(r)), 8)
		}
	}
	return out
}

func genRange(r *core.Rand) []cty.Value {
	switch r.Intn(3) {
	case 0:
		return args(smallInt(r, -5, 6))
	case 1:
		return args(smallInt(r, -4, 4), smallInt(r, -4, 6))
	}
	a, b := r.Intn(9)-4, r.Intn(9)-4
	step := []cty.Value{nI(1), nI(2), fV(0.5), nI(-1), nI(-2), fV(-0.5), nI(3)}[r.Intn(7)]
	return args(nI(a), nI(b), step)
}

func genSetHasElement(r *core.Rand) []cty.Value {
	ety := elemTy(r)
	s := setOf(r, ety, 4)
	if s.LengthInt() > 0 && r.Bool() {
		es := s.AsValueSlice()
		return args(s, es[r.Intn(len(es))])
	}
	return args(s, kv(r, ety, 0))
}

func genSets(min, max int) func(r *core.Rand) []cty.Value {
	return func(r *core.Rand) []cty.Value {
		n := min + r.Intn(max-min+1)
		ety := elemTy(r)
		out := make([]cty.Value, n)
		for i := range out {
			t := ety
			if ety == cty.String && r.Chance(1, 5) {
				t = cty.Number // unifies to string
			}
			out[i] = setOf(r, t, 4)
		}
		return out
	}
}

// ---------------------------------------------------------------------------
// string.go, bool.go, bytes.go

func genStr1(r *core.Rand) []cty.Value {
	if r.Chance(1, 3) {
		return args(sV(asciiWord(r)))
	}
	return args(str(r))
}

func genSubstr(r *core.Rand) []cty.Value {
	return args(genStr1(r)[0], smallInt(r, -4, 6), smallInt(r, -1, 6))
}

func genJoin(r *core.Rand) []cty.Value {
	n := 1 + r.Intn(2)
	out := []cty.Value{sV([]string{"", ",", ", ", "-", "́"}[r.Intn(5)])}
	for i := 0; i < n; i++ {
		out = append(out, strList(r, 0, 3))
	}
	return out
}

func genSort(r *core.Rand) []cty.Value { return args(strList(r, 0, 4)) }

func genSplit(r *core.Rand) []cty.Value {
	return args(sV([]string{",", " ", "", "-", "X", "l"}[r.Intn(6)]), sV(asciiWord(r)))
}

func genIndent(r *core.Rand) []cty.Value { return args(smallInt(r, 0, 4), sV(asciiWord(r))) }

func genTrim(r *core.Rand) []cty.Value {
	return args(sV(asciiWord(r)), sV([]string{" ", "a", "abc", "\n\r", "", "ah"}[r.Intn(6)]))
}

func genTrimPrefix(suffix bool) func(r *core.Rand) []cty.Value {
	return func(r *core.Rand) []cty.Value {
		s := asciiWord(r)
		p := []string{"", "a", "hello", "x", "c", "baz", "\n"}[r.Intn(7)]
		if len(s) > 0 && r.Bool() {
			rs := []rune(s)
			k := r.Intn(len(rs) + 1)
			if suffix {
				p = string(rs[k:])
			} else {
				p = string(rs[:k])
			}
		}
		return args(sV(s), sV(p))
	}
}

func genBool1(r *core.Rand) []cty.Value { return args(boolV(r)) }
func genBool2(r *core.Rand) []cty.Value { return args(boolV(r), boolV(r)) }

func bytesVal(r *core.Rand) cty.Value {
	n := r.Intn(6)
	b := make([]byte, n)
	for i := range b {
		b[i] = byte(r.Intn(256))
	}
	return stdlib.BytesVal(b)
}

func genBytesLen(r *core.Rand) []cty.Value { return args(bytesVal(r)) }
func genBytesSlice(r *core.Rand) []cty.Value {
	b := bytesVal(r)
	n := len(*(b.EncapsulatedValue().(*[]byte)))
	off := r.Intn(n + 1)
	return args(b, nI(off), nI(r.Intn(n-off+1)))
}

// ---------------------------------------------------------------------------

var (
	regOnce sync.Once
	reg     []*fnDef
)

// registry lists every function object of cty/function/stdlib (80 package
// variables) plus MakeToFunc for 8 target types.
func registry() []*fnDef {
	regOnce.Do(func() {
		d := func(name string, f function.Function, g func(r *core.Rand) []cty.Value, w int) {
			reg = append(reg, &fnDef{name, f, g, w})
		}
		// bool.go
		d("not", stdlib.NotFunc, genBool1, 1)
		d("and", stdlib.AndFunc, genBool2, 1)
		d("or", stdlib.OrFunc, genBool2, 1)
		// bytes.go
		d("byteslen", stdlib.BytesLenFunc, genBytesLen, 1)
		d("bytesslice", stdlib.BytesSliceFunc, genBytesSlice, 1)
		// collection.go
		d("hasindex", stdlib.HasIndexFunc, genHasIndex(false), 3)
		d("index", stdlib.IndexFunc, genHasIndex(true), 3)
		d("length", stdlib.LengthFunc, genLength, 4)
		d("element", stdlib.ElementFunc, genElement, 3)
		d("coalescelist", stdlib.CoalesceListFunc, genCoalesceList, 4)
		d("compact", stdlib.CompactFunc, genCompact, 3)
		d("contains", stdlib.ContainsFunc, genContains, 4)
		d("distinct", stdlib.DistinctFunc, genDistinct, 3)
		d("chunklist", stdlib.ChunklistFunc, genChunklist, 3)
		d("flatten", stdlib.FlattenFunc, genFlatten, 5)
		d("keys", stdlib.KeysFunc, genKeys, 3)
		d("lookup", stdlib.LookupFunc, genLookup, 4)
		d("merge", stdlib.MergeFunc, genMerge, 5)
		d("reverselist", stdlib.ReverseListFunc, genReverseList, 4)
		d("setproduct", stdlib.SetProductFunc, genSetProduct, 6)
		d("slice", stdlib.SliceFunc, genSlice, 3)
		d("values", stdlib.ValuesFunc, genKeys, 3)
		d("zipmap", stdlib.ZipmapFunc, genZipmap, 4)
		// conversion.go
		d("tostring", stdlib.MakeToFunc(cty.String), genTo(cty.String), 2)
		d("tonumber", stdlib.MakeToFunc(cty.Number), genTo(cty.Number), 2)
		d("tobool", stdlib.MakeToFunc(cty.Bool), genTo(cty.Bool), 2)
		d("tolist", stdlib.MakeToFunc(cty.List(cty.DynamicPseudoType)), genTo(cty.List(cty.DynamicPseudoType)), 4)
		d("toset", stdlib.MakeToFunc(cty.Set(cty.DynamicPseudoType)), genTo(cty.Set(cty.DynamicPseudoType)), 4)
		d("tomap", stdlib.MakeToFunc(cty.Map(cty.DynamicPseudoType)), genTo(cty.Map(cty.DynamicPseudoType)), 4)
		d("to-list-of-string", stdlib.MakeToFunc(cty.List(cty.String)), genTo(cty.List(cty.String)), 3)
		d("to-map-of-string", stdlib.MakeToFunc(cty.Map(cty.String)), genTo(cty.Map(cty.String)), 3)
		d("assertnotnull", stdlib.AssertNotNullFunc, genAnyNonNull, 2)
		// csv.go, datetime.go
		d("csvdecode", stdlib.CSVDecodeFunc, genCSV, 1)
		d("formatdate", stdlib.FormatDateFunc, genFormatDate, 1)
		d("timeadd", stdlib.TimeAddFunc, genTimeAdd, 1)
		// format.go
		d("format", stdlib.FormatFunc, genFormat, 6)
		d("formatlist", stdlib.FormatListFunc, genFormatList, 6)
		// general.go
		d("equal", stdlib.EqualFunc, genEqual, 4)
		d("notequal", stdlib.NotEqualFunc, genEqual, 4)
		d("coalesce", stdlib.CoalesceFunc, genCoalesce, 5)
		// json.go
		d("jsonencode", stdlib.JSONEncodeFunc, genJSONEncode, 6)
		d("jsondecode", stdlib.JSONDecodeFunc, genJSONDecode, 4)
		// number.go
		d("abs", stdlib.AbsoluteFunc, genNum1, 1)
		d("add", stdlib.AddFunc, genNum2, 1)
		d("subtract", stdlib.SubtractFunc, genNum2, 1)
		d("multiply", stdlib.MultiplyFunc, genNum2, 1)
		d("divide", stdlib.DivideFunc, genNum2, 1)
		d("modulo", stdlib.ModuloFunc, genNum2, 1)
		d("greaterthan", stdlib.GreaterThanFunc, genNum2, 3)
		d("greaterthanorequalto", stdlib.GreaterThanOrEqualToFunc, genNum2, 3)
		d("lessthan", stdlib.LessThanFunc, genNum2, 3)
		d("lessthanorequalto", stdlib.LessThanOrEqualToFunc, genNum2, 3)
		d("negate", stdlib.NegateFunc, genNum1, 1)
		d("min", stdlib.MinFunc, genNumN, 1)
		d("max", stdlib.MaxFunc, genNumN, 1)
		d("int", stdlib.IntFunc, genNum1, 1)
		d("ceil", stdlib.CeilFunc, genNum1, 1)
		d("floor", stdlib.FloorFunc, genNum1, 1)
		d("log", stdlib.LogFunc, genLog, 1)
		d("pow", stdlib.PowFunc, genPow, 1)
		d("signum", stdlib.SignumFunc, genSignum, 1)
		d("parseint", stdlib.ParseIntFunc, genParseInt, 1)
		// regexp.go
		d("regex", stdlib.RegexFunc, genRegex, 2)
		d("regexall", stdlib.RegexAllFunc, genRegex, 2)
		// sequence.go
		d("concat", stdlib.ConcatFunc, genConcat, 4)
		d("range", stdlib.RangeFunc, genRange, 1)
		// set.go
		d("sethaselement", stdlib.SetHasElementFunc, genSetHasElement, 3)
		d("setunion", stdlib.SetUnionFunc, genSets(1, 3), 4)
		d("setintersection", stdlib.SetIntersectionFunc, genSets(1, 3), 3)
		d("setsubtract", stdlib.SetSubtractFunc, genSets(2, 2), 3)
		d("setsymmetricdifference", stdlib.SetSymmetricDifferenceFunc, genSets(1, 3), 3)
		// string.go
		d("upper", stdlib.UpperFunc, genStr1, 1)
		d("lower", stdlib.LowerFunc, genStr1, 1)
		d("reverse", stdlib.ReverseFunc, genStr1, 1)
		d("strlen", stdlib.StrlenFunc, genStr1, 5)
		d("substr", stdlib.SubstrFunc, genSubstr, 1)
		d("join", stdlib.JoinFunc, genJoin, 3)
		d("sort", stdlib.SortFunc, genSort, 4)
		d("split", stdlib.SplitFunc, genSplit, 1)
		d("chomp", stdlib.ChompFunc, genStr1, 1)
		d("indent", stdlib.IndentFunc, genIndent, 1)
		d("title", stdlib.TitleFunc, genStr1, 1)
		d("trimspace", stdlib.TrimSpaceFunc, genStr1, 1)
		d("trim", stdlib.TrimFunc, genTrim, 1)
		d("trimprefix", stdlib.TrimPrefixFunc, genTrimPrefix(false), 1)
		d("trimsuffix", stdlib.TrimSuffixFunc, genTrimPrefix(true), 1)
		// string_replace.go
		d("replace", stdlib.ReplaceFunc, genReplace, 1)
		d("regexreplace", stdlib.RegexReplaceFunc, genRegexReplace, 1)
	})
	return reg
}

func fnByName(name string) *fnDef {
	for _, f := range registry() {
		if f.name == name {
			return f
		}
	}
	panic("c12: no function " + name)
}

var (
	schedOnce sync.Once
	sched     []*fnDef
)

// schedule spreads the functions over the case indices in proportion to their weights.
func schedule() []*fnDef {
	schedOnce.Do(func() {
		fs := registry()
		maxW := 0
		for _, f := range fs {
			if f.weight > maxW {
				maxW = f.weight
			}
		}
		for round := 0; round < maxW; round++ {
			for _, f := range fs {
				if f.weight > round {
					sched = append(sched, f)
				}
			}
		}
	})
	return sched
}
