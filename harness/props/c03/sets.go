package c03

import (
	"fmt"
	"strings"

	"github.com/zclconf/go-cty/cty"

	"verif/harness/core"
	"verif/harness/model"
	"verif/harness/mon"
)

// mset is the model: a mathematical set over documented equality.
type mset struct{ vals []cty.Value }

func (m *mset) has(v cty.Value) bool {
	for _, x := range m.vals {
		if mon.ModelEqual(x, v) {
			return true
		}
	}
	return false
}
func (m *mset) add(v cty.Value) {
	if !m.has(v) {
		m.vals = append(m.vals, v)
	}
}
func (m *mset) remove(v cty.Value) {
	for i, x := range m.vals {
		if mon.ModelEqual(x, v) {
			m.vals = append(append([]cty.Value(nil), m.vals[:i]...), m.vals[i+1:]...)
			return
		}
	}
}
func (m *mset) copy() *mset { return &mset{append([]cty.Value(nil), m.vals...)} }
func (m *mset) union(o *mset) *mset {
	r := m.copy()
	for _, v := range o.vals {
		r.add(v)
	}
	return r
}
func (m *mset) inter(o *mset) *mset {
	r := &mset{}
	for _, v := range m.vals {
		if o.has(v) {
			r.add(v)
		}
	}
	return r
}
func (m *mset) sub(o *mset) *mset {
	r := &mset{}
	for _, v := range m.vals {
		if !o.has(v) {
			r.add(v)
		}
	}
	return r
}
func (m *mset) symdiff(o *mset) *mset { return m.sub(o).union(o.sub(m)) }

// compareSet checks a ValueSet against the model and the bucket invariant.
func compareSet(c *core.Ctx, site, pool string, s cty.ValueSet, m *mset, members []cty.Value, hist func() string) bool {
	ok := true
	fail := func(facet, detail string) {
		ok = false
		c.Violate(site, facet, pool, hist(), detail)
	}
	o := core.Guard(func() {
		if s.Length() != len(m.vals) {
			fail("set length differs from the model set", fmt.Sprintf("Length()=%d, model has %d members %s; Values()=%s", s.Length(), len(m.vals), joinVals(m.vals), joinVals(s.Values())))
		}
		vals := s.Values()
		for i := range vals {
			for j := i + 1; j < len(vals); j++ {
				if mon.ModelEqual(vals[i], vals[j]) {
					fail("set holds two equal members", fmt.Sprintf("%#v and %#v", vals[i], vals[j]))
				}
			}
			if !m.has(vals[i]) {
				fail("set holds a member the model does not", fmt.Sprintf("%#v", vals[i]))
			}
		}
		for _, v := range m.vals {
			found := false
			for _, x := range vals {
				if mon.ModelEqual(x, v) {
					found = true
				}
			}
			if !found {
				fail("set lost a member", fmt.Sprintf("%#v missing from %s", v, joinVals(vals)))
			}
		}
		for _, v := range members {
			if s.Has(v) != m.has(v) {
				fail("Has disagrees with the model set", fmt.Sprintf("Has(%#v)=%v, model=%v", v, s.Has(v), m.has(v)))
			}
		}
		c.Eval(2 + len(members))
		// bucket invariant (hook)
		for h, bucket := range cty.VerifValueSetBuckets(s) {
			if len(bucket) == 0 {
				fail("empty hash bucket left behind", fmt.Sprintf("bucket %d", h))
			}
			for i, v := range bucket {
				if v.Hash() != h {
					fail("member sits in the wrong hash bucket", fmt.Sprintf("%#v hashes to %d, bucket %d", v, v.Hash(), h))
				}
				for j := 0; j < i; j++ {
					if mon.ModelEqual(bucket[j], v) {
						fail("two equal members in one bucket", fmt.Sprintf("%#v", v))
					}
				}
			}
		}
		c.Count("invariant:buckets-checked")
	})
	if o.Panicked {
		fail("panic: "+core.PanicClass(o.PanicMsg), o.PanicMsg+"\n"+o.Stack)
	}
	return ok
}

type liveSet struct {
	s cty.ValueSet
	m *mset
}

// runHistories replays random ValueSet histories against the model set.
func runHistories(c *core.Ctx) {
	nh := int64(c.N(150, 1600))
	for i := int64(0); i < nh; i++ {
		idx := 3_000_000_000 + i
		if !c.Want(idx) {
			continue
		}
		r := c.RNG(idx)
		p := pools[r.Intn(len(pools))]
		if p.ty.IsCapsuleType() && p.name == "capsuleA" && r.Bool() {
			p = pools[0]
		}
		pool := buildPool(c.GlobalRNG("pool:"+p.name), p, 48)
		// choose <=10 members, biased to the collision-rich head of the pool
		nm := 3 + r.Intn(8)
		members := make([]cty.Value, nm)
		for k := range members {
			if r.Chance(2, 3) {
				members[k] = pool[r.Intn(min(len(pool), 24))]
			} else {
				members[k] = pool[r.Intn(len(pool))]
			}
		}
		var log []string
		hist := func() string { return fmt.Sprintf("ValueSet(%s) history: %s", p.name, strings.Join(log, "; ")) }
		c.Begin(idx, hist)
		live := []liveSet{{cty.NewValueSet(p.ty), &mset{}}}
		steps := 5 + r.Intn(36)
		good := true
		for st := 0; st < steps && good; st++ {
			a := r.Intn(len(live))
			v := members[r.Intn(len(members))]
			var site string
			o := core.Guard(func() {
				switch op := r.Intn(12); {
				case op < 4:
					site = "ValueSet.Add"
					log = append(log, fmt.Sprintf("s%d.Add(%#v)", a, v))
					live[a].s.Add(v)
					live[a].m.add(v)
				case op < 6:
					site = "ValueSet.Remove"
					log = append(log, fmt.Sprintf("s%d.Remove(%#v)", a, v))
					live[a].s.Remove(v)
					live[a].m.remove(v)
				case op == 6:
					site = "ValueSet.Copy"
					log = append(log, fmt.Sprintf("s%d = s%d.Copy()", len(live), a))
					live = append(live, liveSet{live[a].s.Copy(), live[a].m.copy()})
				case op == 7:
					site = "SetValFromValueSet"
					log = append(log, fmt.Sprintf("s%d = SetValFromValueSet(s%d).AsValueSet()", len(live), a))
					sv := cty.SetValFromValueSet(live[a].s)
					if w := mon.WellFormed(sv); w != "" {
						c.Violate(site, "ill-formed set value", p.name, hist(), w)
					}
					live = append(live, liveSet{sv.AsValueSet(), live[a].m.copy()})
				default:
					b := r.Intn(len(live))
					var rs cty.ValueSet
					var rm *mset
					switch op {
					case 8:
						site = "ValueSet.Union"
						rs, rm = live[a].s.Union(live[b].s), live[a].m.union(live[b].m)
						// conservation: |A u B| + |A n B| = |A| + |B|
						in := live[a].s.Intersection(live[b].s)
						if rs.Length()+in.Length() != live[a].s.Length()+live[b].s.Length() {
							c.Violate(site, "conservation |AuB|+|AnB| = |A|+|B| fails", p.name, hist(), fmt.Sprintf("%d+%d != %d+%d", rs.Length(), in.Length(), live[a].s.Length(), live[b].s.Length()))
						}
						c.Count("law:conservation")
					case 9:
						site = "ValueSet.Intersection"
						rs, rm = live[a].s.Intersection(live[b].s), live[a].m.inter(live[b].m)
					case 10:
						site = "ValueSet.Subtract"
						rs, rm = live[a].s.Subtract(live[b].s), live[a].m.sub(live[b].m)
					default:
						site = "ValueSet.SymmetricDifference"
						rs, rm = live[a].s.SymmetricDifference(live[b].s), live[a].m.symdiff(live[b].m)
					}
					log = append(log, fmt.Sprintf("s%d = s%d.%s(s%d)", len(live), a, strings.TrimPrefix(site, "ValueSet."), b))
					live = append(live, liveSet{rs, rm})
				}
			})
			c.Eval(1)
			c.Count("history-op:" + site)
			if o.Panicked {
				c.Violate(site, "panic: "+core.PanicClass(o.PanicMsg), p.name, hist(), o.PanicMsg+"\n"+o.Stack)
				good = false
				break
			}
			// every live set is re-checked after every step (a step on one set must not disturb another)
			for k := range live {
				k := k
				if !compareSet(c, site, p.name, live[k].s, live[k].m, members, func() string { return hist() + fmt.Sprintf(" -- checking s%d", k) }) {
					good = false
					break
				}
			}
			if len(live) > 6 {
				live = live[len(live)-6:]
				log = append(log, "(oldest sets dropped, remaining renumbered from s0)")
			}
		}
		c.Distinct(hist(), steps >= 3)
		if c.WantSample() && i%7 == 0 {
			c.Sample(map[string]any{"stage": "sets", "history": clipS(hist(), 900)})
		}
	}
}

func clipS(s string, n int) string {
	if len(s) > n {
		return s[:n] + "..."
	}
	return s
}

func min(a, b int) int {
	if a < b {
		return a
	}
	return b
}

// runPerms: set values built from permutations of the same members must hold
// exactly the distinct members and iterate in one order.
func runPerms(c *core.Ctx) {
	np := int64(c.N(120, 1500))
	for i := int64(0); i < np; i++ {
		idx := 4_000_000_000 + i
		if !c.Want(idx) {
			continue
		}
		r := c.RNG(idx)
		p := pools[r.Intn(len(pools))]
		pool := buildPool(c.GlobalRNG("pool:"+p.name), p, 48)
		nm := 2 + r.Intn(4)
		members := make([]cty.Value, nm)
		for k := range members {
			members[k] = pool[r.Intn(min(len(pool), 30))]
		}
		desc := func() string { return fmt.Sprintf("SetVal permutations of %s (%s)", joinVals(members), p.name) }
		c.Begin(idx, desc)
		m := &mset{}
		for _, v := range members {
			m.add(v)
		}
		perms := allPerms(nm)
		var first []cty.Value
		var firstPerm []int
		ordered := !model.HasCapsule(model.TNodeOf(p.ty))
		for _, pm := range perms {
			in := make([]cty.Value, nm)
			for k, j := range pm {
				in[k] = members[j]
			}
			var sv cty.Value
			o := core.Guard(func() { sv = cty.SetVal(in) })
			c.Eval(1)
			if o.Panicked {
				c.Violate("cty.SetVal", "panic: "+core.PanicClass(o.PanicMsg), p.name, desc(), o.PanicMsg)
				break
			}
			got := sv.AsValueSlice()
			if len(got) != len(m.vals) {
				c.Violate("cty.SetVal", "set does not hold exactly the distinct inputs", numClassAll(members)+p.name, fmt.Sprintf("SetVal(%s)", joinVals(in)),
					fmt.Sprintf("holds %d members %s; %d distinct inputs", len(got), joinVals(got), len(m.vals)))
				break
			}
			for _, v := range m.vals {
				if hv := sv.HasElement(v); !hv.IsKnown() || !hv.True() {
					c.Violate("Value.HasElement", "constructed set lacks one of its inputs", p.name, fmt.Sprintf("SetVal(%s).HasElement(%#v)", joinVals(in), v), fmt.Sprintf("%#v", hv))
				}
			}
			if w := mon.WellFormed(sv); w != "" {
				c.Violate("cty.SetVal", "ill-formed set value", p.name, fmt.Sprintf("SetVal(%s)", joinVals(in)), w)
				break
			}
			if first == nil {
				first, firstPerm = got, pm
				continue
			}
			if ordered {
				for k := range got {
					if !got[k].RawEquals(first[k]) {
						c.Violate("cty.SetVal", "iteration order depends on insertion order", numClassAll(members)+p.name,
							fmt.Sprintf("members %s in orders %v and %v", joinVals(members), firstPerm, pm),
							fmt.Sprintf("iteration %s vs %s", joinVals(first), joinVals(got)))
						break
					}
				}
				// equal sets built in different orders must also be RawEquals
				var s0 cty.Value
				in0 := make([]cty.Value, nm)
				for k, j := range firstPerm {
					in0[k] = members[j]
				}
				s0 = cty.SetVal(in0)
				if !s0.RawEquals(sv) {
					c.Violate("Value.RawEquals", "two sets of the same members built in different orders are not RawEquals", numClassAll(members)+p.name,
						fmt.Sprintf("members %s in orders %v and %v", joinVals(members), firstPerm, pm), "")
				}
			}
		}
		c.Count("perm-cases")
		c.Distinct(desc(), len(m.vals) >= 2)
	}
	c.Exhaustive("every permutation of each drawn member list of length <= 5")
}

func numClassAll(vs []cty.Value) string {
	for _, v := range vs {
		if containsNegZero(v) {
			return "neg-zero/"
		}
	}
	return ""
}

func allPerms(n int) [][]int {
	var out [][]int
	p := make([]int, n)
	for i := range p {
		p[i] = i
	}
	var rec func(k int)
	rec = func(k int) {
		if k == n {
			out = append(out, append([]int(nil), p...))
			return
		}
		for i := k; i < n; i++ {
			p[k], p[i] = p[i], p[k]
			rec(k + 1)
			p[k], p[i] = p[i], p[k]
		}
	}
	rec(0)
	return out
}

// runCorpus re-executes the witnesses of this property's findings.
func runCorpus(c *core.Ctx) {
	nums := specialNumbers()
	p := pools[0]
	idx := int64(5_000_000_000)
	for i := range nums {
		for j := range nums {
			idx++
			if !c.Want(idx) {
				continue
			}
			checkPair(c, idx, p, nums[i], nums[j], i != j)
		}
	}
	c.Count("corpus-run")
}
