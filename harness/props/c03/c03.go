// Package c03: equality is a coherent equivalence that agrees with hashing and sets.
package c03

import (
	"fmt"
	"math"
	"math/big"
	"strings"

	"github.com/zclconf/go-cty/cty"

	"verif/harness/core"
	"verif/harness/gen"
	"verif/harness/model"
	"verif/harness/mon"
)

type Driver struct{}

func (Driver) ID() string { return "C03" }

func (Driver) Info() core.Info {
	return core.Info{
		Title: "equality is a coherent equivalence that agrees with hashing and sets",
		Rule: "stage laws: per element type a collision-rich pool (-0/+0, one number at several precisions, the 10/11-significant-digit straddle family, NFC/NFD twins, nulls, nested) - ALL ordered pairs of the pool and sampled triples; " +
			"stage sets: ValueSet histories (Add/Remove/Has/Copy/Union/Intersection/Subtract/SymmetricDifference/SetValFromValueSet) over <=10 members replayed against a model set after every step, with the hash-bucket invariant read through the verif hook; " +
			"stage perms: SetVal over every permutation (<=5 members) / sampled permutations. distinct = hash of the pair/triple/history text; non-trivial = pair of different pool entries, or a history with >=3 steps",
		Assumptions: []string{
			"documented equality as modelled in model.NumEqualDoc / mon.ModelEqual (shortest round-trip decimal text for non-integers, -0 = +0, NFC strings)",
			"ordering is demanded only for capsule-free wholly known members",
			"cty.VerifValueSetBuckets (tag-guarded hook) returns a faithful copy of the buckets",
		},
		MinNontrivial: 1000,
	}
}

func (Driver) Batches(tier string) int {
	if tier == "thorough" {
		return 64
	}
	return 16
}

type poolDef struct {
	name string
	ty   cty.Type
}

func objT(m map[string]cty.Type) cty.Type { return cty.Object(m) }

var pools = []poolDef{
	{"number", cty.Number},
	{"string", cty.String},
	{"bool", cty.Bool},
	{"list(number)", cty.List(cty.Number)},
	{"list(string)", cty.List(cty.String)},
	{"set(number)", cty.Set(cty.Number)},
	{"map(number)", cty.Map(cty.Number)},
	{"object{a:number,b:string}", objT(map[string]cty.Type{"a": cty.Number, "b": cty.String})},
	{"tuple(number,string)", cty.Tuple([]cty.Type{cty.Number, cty.String})},
	{"list(object{a:number})", cty.List(objT(map[string]cty.Type{"a": cty.Number}))},
	{"set(list(number))", cty.Set(cty.List(cty.Number))},
	{"map(string)", cty.Map(cty.String)},
	{"list(list(string))", cty.List(cty.List(cty.String))},
	{"capsuleB", model.CapsuleB},
	{"capsuleA", model.CapsuleA},
}

// specialNumbers is the collision-rich core of every number pool.
func specialNumbers() []cty.Value {
	negZero := cty.NumberVal(new(big.Float).Neg(new(big.Float)))
	return []cty.Value{
		cty.Zero, negZero, cty.NumberFloatVal(math.Copysign(0, -1)), cty.NumberIntVal(0),
		cty.NumberIntVal(3), cty.NumberFloatVal(3), cty.MustParseNumberVal("3"), cty.NumberIntVal(1).Add(cty.NumberIntVal(2)),
		cty.NumberFloatVal(0.12345678905), cty.MustParseNumberVal("0.12345678905"),
		cty.MustParseNumberVal("1.00000000001"), cty.MustParseNumberVal("1.00000000002"), cty.NumberFloatVal(1.00000000001),
		cty.NumberFloatVal(0.1), cty.MustParseNumberVal("0.1"), cty.NumberFloatVal(0.1).Add(cty.NumberFloatVal(0.2)), cty.NumberFloatVal(0.3), cty.MustParseNumberVal("0.3"),
		cty.NumberFloatVal(0.5), cty.MustParseNumberVal("0.5"), cty.NumberIntVal(1).Divide(cty.NumberIntVal(2)),
		cty.NumberFloatVal(1e300), cty.MustParseNumberVal("1e300"), cty.NumberFloatVal(1e23), cty.MustParseNumberVal("1e23"),
		cty.NumberIntVal(math.MaxInt64), cty.NumberUIntVal(math.MaxInt64), cty.NumberFloatVal(9223372036854775807), cty.MustParseNumberVal("9223372036854775807"),
		cty.NumberIntVal(1 << 53), cty.NumberFloatVal(1 << 53), cty.NumberIntVal(1<<53 + 1),
		cty.PositiveInfinity, cty.NegativeInfinity, cty.NumberFloatVal(math.Inf(1)), cty.NumberFloatVal(math.Inf(-1)),
		cty.NumberIntVal(1), cty.NumberIntVal(-1), cty.NumberIntVal(2), cty.NumberFloatVal(2.5), cty.MustParseNumberVal("2.5"),
		cty.MustParseNumberVal("123456789.123456789"), cty.NumberFloatVal(123456789.123456789),
		// one decimal text at float32-like and other odd precisions, next to its 53- and 512-bit twins above
		oddPrec("0.1", 24), oddPrec("0.1", 100), oddPrec("0.3", 24), oddPrec("0.5", 24), oddPrec("1.00000000001", 100),
		cty.NumberFloatVal(float64(float32(0.1))), cty.NumberFloatVal(5e-324), oddPrec("5e-324", 24),
		// whole numbers beyond uint64 at several precisions (2^70, 1e25)
		cty.MustParseNumberVal("1180591620717411303424"), cty.NumberFloatVal(1180591620717411303424), cty.NumberIntVal(1 << 35).Multiply(cty.NumberIntVal(1 << 35)),
		cty.MustParseNumberVal("1e25"), cty.NumberFloatVal(1e25),
		// 53 bits of precision, binary exponent outside the float64 range (arithmetic on float64-made numbers): a
		// comparison or hash that goes through float64 sees +Inf / 0 for all of them
		beyondF64(1, 2000), beyondF64(3, 2000), beyondF64(1, 1024), cty.NumberFloatVal(math.MaxFloat64).Add(cty.NumberFloatVal(math.MaxFloat64)),
		beyondF64(1, -2000), beyondF64(1, -1077), beyondF64(-1, -2000), cty.NumberFloatVal(math.SmallestNonzeroFloat64).Divide(cty.NumberFloatVal(2)),
	}
}

func beyondF64(m float64, exp int) cty.Value {
	return cty.NumberVal(new(big.Float).SetPrec(53).SetMantExp(big.NewFloat(m), exp))
}

func oddPrec(d string, prec uint) cty.Value {
	f, _, err := big.ParseFloat(d, 10, prec, big.ToNearestEven)
	if err != nil {
		panic(err)
	}
	return cty.NumberVal(f)
}

// longStrings share long prefixes (63, 64, 100, 300 bytes) and differ only at the
// tail, so that any hashing or ordering that looks at a bounded part of a
// string cannot tell them apart.
func longStrings() []cty.Value {
	k63, k64 := strings.Repeat("k", 63), strings.Repeat("k", 64)
	e100 := strings.Repeat("\u00e9", 50)
	z300 := strings.Repeat("zy;", 100)
	return []cty.Value{cty.StringVal(k64 + "a"), cty.StringVal(k64 + "b"), cty.StringVal(k64), cty.StringVal(k63 + "a"), cty.StringVal(k63 + "b"),
		cty.StringVal(e100 + "1"), cty.StringVal(e100 + "2"), cty.StringVal(z300 + "p"), cty.StringVal(z300 + "q")}
}

// forgedJoins returns a and b joined by every spelling of the member delimiter of the set hash bytes
// (`;` between members, strings quoted with `"`), so that the ONE string reads like the TWO members a, b.
func forgedJoins(a, b string) []string {
	return []string{a + "\";\"" + b, a + ";" + b, a + "\";" + b, a + ";\"" + b, a + "\\\";\\\"" + b}
}

// longMembers: collections of 17 and 33 members that agree on a long run of leading members and differ only in
// the last one or in one far from the start, so that hashing, equality or ordering that looks at a bounded number
// of members cannot tell them apart (the counterpart of longStrings for collections).
func longMembers(ty cty.Type) []cty.Value {
	var out []cty.Value
	seq := func(n int, mk func(i int) cty.Value, change int, to cty.Value) []cty.Value {
		vs := make([]cty.Value, n)
		for i := range vs {
			vs[i] = mk(i)
		}
		if change >= 0 {
			vs[change] = to
		}
		return vs
	}
	num := func(i int) cty.Value { return cty.NumberIntVal(int64(i)) }
	str := func(i int) cty.Value { return cty.StringVal(fmt.Sprintf("s%02d", i)) }
	switch {
	case ty.Equals(cty.List(cty.Number)):
		for _, n := range []int{17, 33} {
			out = append(out, cty.ListVal(seq(n, num, -1, cty.NilVal)), cty.ListVal(seq(n, num, n-1, num(99))), cty.ListVal(seq(n, num, 16, num(98))))
		}
	case ty.Equals(cty.List(cty.String)):
		for _, n := range []int{17, 33} {
			out = append(out, cty.ListVal(seq(n, str, -1, cty.NilVal)), cty.ListVal(seq(n, str, n-1, str(99))), cty.ListVal(seq(n, str, 16, str(98))))
		}
	case ty.Equals(cty.Set(cty.Number)):
		for _, n := range []int{17, 33} {
			out = append(out, cty.SetVal(seq(n, num, -1, cty.NilVal)), cty.SetVal(seq(n, num, n-1, num(99))), cty.SetVal(seq(n, num, 16, num(98))))
		}
	case ty.Equals(cty.Map(cty.Number)), ty.Equals(cty.Map(cty.String)):
		mk := num
		if ty.ElementType() == cty.String {
			mk = str
		}
		for _, n := range []int{17, 33} {
			for _, ch := range []int{-1, n - 1, 16} {
				m := map[string]cty.Value{}
				for i, v := range seq(n, mk, ch, mk(99)) {
					m[fmt.Sprintf("k%02d", i)] = v
				}
				out = append(out, cty.MapVal(m))
			}
		}
	case ty.Equals(cty.List(cty.List(cty.String))):
		for _, n := range []int{17, 33} {
			out = append(out, cty.ListVal([]cty.Value{cty.ListVal(seq(n, str, -1, cty.NilVal))}), cty.ListVal([]cty.Value{cty.ListVal(seq(n, str, n-1, str(99)))}))
		}
	case ty.Equals(cty.Set(cty.List(cty.Number))):
		a, b, d := cty.ListVal(seq(17, num, -1, cty.NilVal)), cty.ListVal(seq(17, num, 16, num(99))), cty.ListVal(seq(33, num, 32, num(99)))
		e := cty.ListVal(seq(33, num, -1, cty.NilVal))
		out = append(out, cty.SetVal([]cty.Value{a, b}), cty.SetVal([]cty.Value{b, a}), cty.SetVal([]cty.Value{d, e}), cty.SetVal([]cty.Value{e, d}))
	}
	return out
}

func specialStrings() []cty.Value {
	return append(shortStrings(), longStrings()...)
}

func shortStrings() []cty.Value {
	return []cty.Value{cty.StringVal(""), cty.StringVal("a"), cty.StringVal("é"), cty.StringVal("é"), cty.StringVal("A"), cty.StringVal("ab"),
		cty.StringVal("Å"), cty.StringVal("Å"), cty.StringVal("Å"), cty.StringVal("\"a\""), cty.StringVal("a;b"), cty.StringVal("각"), cty.StringVal("각")}
}

// buildPool returns the pool of wholly known (or null) values of ty.
func buildPool(r *core.Rand, p poolDef, size int) []cty.Value {
	var out []cty.Value
	nums, strs := specialNumbers(), specialStrings()
	ty := p.ty
	add := func(v cty.Value) { out = append(out, v) }
	add(cty.NullVal(ty))
	// long members first, so that the quick pool size keeps them (see longMembers)
	out = append(out, longMembers(ty)...)
	switch {
	case ty == cty.Number:
		out = append(out, nums...)
	case ty == cty.String:
		out = append(out, strs...)
	case ty == cty.Bool:
		add(cty.True)
		add(cty.False)
	case ty.Equals(cty.List(cty.Number)):
		add(cty.ListValEmpty(cty.Number))
		for _, n := range nums {
			add(cty.ListVal([]cty.Value{n}))
		}
		add(cty.ListVal([]cty.Value{nums[0], nums[4]}))
		add(cty.ListVal([]cty.Value{nums[1], nums[5]}))
		add(cty.ListVal([]cty.Value{cty.NullVal(cty.Number)}))
	case ty.Equals(cty.List(cty.String)):
		add(cty.ListValEmpty(cty.String))
		for _, s := range strs {
			add(cty.ListVal([]cty.Value{s}))
		}
		add(cty.ListVal([]cty.Value{cty.StringVal("a"), cty.StringVal("b")}))
		add(cty.ListVal([]cty.Value{cty.StringVal("a;b")}))
		// forging family: one string that spells out the delimiters which the set hash / ordering bytes put
		// BETWEEN members, next to the members spelled separately (a hash or order that stops escaping or
		// quoting strings confuses them)
		for _, f := range forgedJoins("a", "b") {
			add(cty.ListVal([]cty.Value{cty.StringVal(f)}))
		}
		add(cty.ListVal([]cty.Value{cty.StringVal("a\""), cty.StringVal("\"b")}))
		add(cty.ListVal([]cty.Value{cty.StringVal("a\\"), cty.StringVal("b")}))
	case ty.Equals(cty.Map(cty.String)):
		add(cty.MapValEmpty(cty.String))
		add(cty.MapVal(map[string]cty.Value{"k": cty.StringVal("v"), "l": cty.StringVal("w")}))
		add(cty.MapVal(map[string]cty.Value{"k": cty.StringVal("v")}))
		for _, f := range forgedJoins("v", "w") {
			add(cty.MapVal(map[string]cty.Value{"k": cty.StringVal(f)}))
		}
		for _, j := range []string{"\":\"", ":", "\":", ":\""} {
			// the key/value separator inside a key, and the member separator + next key inside a value
			add(cty.MapVal(map[string]cty.Value{"k" + j + "v": cty.StringVal("w")}))
			for _, f := range forgedJoins("v", "l") {
				add(cty.MapVal(map[string]cty.Value{"k": cty.StringVal(f + j + "w")}))
			}
		}
		for _, ls := range longStrings() {
			add(cty.MapVal(map[string]cty.Value{"k": ls}))
		}
	case ty.Equals(cty.List(cty.List(cty.String))):
		sl := func(ss ...string) cty.Value {
			vs := make([]cty.Value, len(ss))
			for i, x := range ss {
				vs[i] = cty.StringVal(x)
			}
			return cty.ListVal(vs)
		}
		add(cty.ListValEmpty(cty.List(cty.String)))
		add(cty.ListVal([]cty.Value{sl("a", "b")}))
		add(cty.ListVal([]cty.Value{sl("a"), sl("b")}))
		add(cty.ListVal([]cty.Value{sl("a"), cty.ListValEmpty(cty.String), sl("b")}))
		for _, f := range forgedJoins("a", "b") {
			add(cty.ListVal([]cty.Value{sl(f)}))
		}
		for _, f := range []string{"a];[b", "a\"];[\"b", "a\";];[\"b", "a;];[b"} {
			add(cty.ListVal([]cty.Value{sl(f)}))
		}
	case ty.Equals(cty.Set(cty.Number)):
		add(cty.SetValEmpty(cty.Number))
		for i := 0; i+1 < len(nums); i += 2 {
			add(cty.SetVal([]cty.Value{nums[i], nums[i+1]}))
			add(cty.SetVal([]cty.Value{nums[i+1], nums[i]}))
			add(cty.SetVal([]cty.Value{nums[i]}))
		}
	case ty.Equals(cty.Map(cty.Number)):
		add(cty.MapValEmpty(cty.Number))
		for i, n := range nums {
			add(cty.MapVal(map[string]cty.Value{"k": n}))
			if i%5 == 0 {
				add(cty.MapVal(map[string]cty.Value{"é": n}))
				add(cty.MapVal(map[string]cty.Value{"é": n}))
			}
		}
	case ty.IsObjectType():
		for _, ls := range longStrings() {
			add(cty.ObjectVal(map[string]cty.Value{"a": nums[4], "b": ls}))
		}
		for i, n := range nums {
			add(cty.ObjectVal(map[string]cty.Value{"a": n, "b": strs[i%len(strs)]}))
		}
		add(cty.ObjectVal(map[string]cty.Value{"a": cty.NullVal(cty.Number), "b": cty.NullVal(cty.String)}))
	case ty.IsTupleType():
		for _, ls := range longStrings() {
			add(cty.TupleVal([]cty.Value{nums[4], ls}))
		}
		for i, n := range nums {
			add(cty.TupleVal([]cty.Value{n, strs[(i*3)%len(strs)]}))
		}
	case ty.Equals(cty.List(objT(map[string]cty.Type{"a": cty.Number}))):
		add(cty.ListValEmpty(ty.ElementType()))
		for _, n := range nums {
			add(cty.ListVal([]cty.Value{cty.ObjectVal(map[string]cty.Value{"a": n})}))
		}
	case ty.Equals(cty.Set(cty.List(cty.Number))):
		add(cty.SetValEmpty(cty.List(cty.Number)))
		for i := 0; i+1 < len(nums); i += 2 {
			a, b := cty.ListVal([]cty.Value{nums[i]}), cty.ListVal([]cty.Value{nums[i+1]})
			add(cty.SetVal([]cty.Value{a, b}))
			add(cty.SetVal([]cty.Value{b, a}))
		}
	case ty.Equals(model.CapsuleB):
		for i := 0; i < 6; i++ {
			add(model.NewCapB(i % 3))
		}
	case ty.Equals(model.CapsuleA):
		a, b := model.NewCapA(1), model.NewCapA(1)
		out = append(out, a, a, b, model.NewCapA(2))
	}
	vo := gen.ValueOpts{NullPct: 5, MaxLen: 3, LongStr: true}
	for len(out) < size && !ty.IsCapsuleType() {
		add(gen.Value(r, ty, vo))
	}
	if len(out) > size && size > 0 {
		// keep the specials first; thin the rest deterministically
		out = out[:size]
	}
	return out
}

func (Driver) Run(c *core.Ctx) {
	runLaws(c)
	runHistories(c)
	runPerms(c)
	if c.Batch == 0 {
		runCorpus(c)
	}
}

func triClass(v cty.Value) string {
	switch {
	case !v.IsKnown():
		return "unknown"
	case v.True():
		return "true"
	}
	return "false"
}

// runLaws: all ordered pairs of each pool, sampled triples.
func runLaws(c *core.Ctx) {
	size := c.N(64, 140)
	var caseIdx int64
	for pi, p := range pools {
		psize := size
		if p.ty == cty.Number && psize < 96 {
			psize = 96 // the special numbers alone are about 75
		}
		pool := buildPool(c.GlobalRNG("pool:"+p.name), p, psize)
		// the extra, non-wholly-known entries used for the RawEquals laws only
		extra := []cty.Value{cty.UnknownVal(p.ty), cty.UnknownVal(p.ty).RefineNotNull(), pool[len(pool)-1].Mark(gen.Marks[0]), cty.DynamicVal}
		all := append(append([]cty.Value(nil), pool...), extra...)
		for i := range all {
			for j := range all {
				caseIdx++
				if !c.Mine(caseIdx) || !c.Want(caseIdx) {
					continue
				}
				checkPair(c, caseIdx, p, all[i], all[j], i != j)
			}
		}
		// cross-type pairs: a value of this pool against a value of the next pool
		q := pools[(pi+1)%len(pools)]
		qpool := buildPool(c.GlobalRNG("pool:"+q.name), q, 12)
		for i := 0; i < len(pool) && i < 12; i++ {
			for j := range qpool {
				caseIdx++
				if !c.Mine(caseIdx) || !c.Want(caseIdx) {
					continue
				}
				checkPair(c, caseIdx, p, pool[i], qpool[j], true)
			}
		}
		// triples (transitivity), sampled per batch
		nt := c.N(400, 4000)
		for k := 0; k < nt; k++ {
			caseIdx++
			if !c.Want(caseIdx) {
				continue
			}
			r := c.RNG(caseIdx)
			a, b, d := all[r.Intn(len(all))], all[r.Intn(len(all))], all[r.Intn(len(all))]
			if r.Bool() {
				// bias towards equal triples: pick b, d among values equal to a when they exist
				for t := 0; t < 6; t++ {
					x := all[r.Intn(len(all))]
					if rawEq(a, x) {
						b = x
						break
					}
				}
			}
			checkTriple(c, caseIdx, p, a, b, d)
		}
	}
	c.Exhaustive("all ordered pairs of every per-type pool (split across batches)")
}

func rawEq(a, b cty.Value) (eq bool) {
	defer func() {
		if recover() != nil {
			eq = false
		}
	}()
	return a.RawEquals(b)
}

func whollyKnownUnmarked(v cty.Value) bool {
	return !v.ContainsMarked() && v.IsWhollyKnown()
}

func hasCapsuleA(ty cty.Type) bool { return model.HasCapsule(model.TNodeOf(ty)) }

func checkPair(c *core.Ctx, idx int64, p poolDef, a, b cty.Value, different bool) {
	desc := func() string { return fmt.Sprintf("pair(%#v, %#v)", a, b) }
	c.Begin(idx, desc)
	c.Distinct(desc(), different)
	site := "Value.RawEquals"
	var ab, ba, aa bool
	o := core.Guard(func() { ab = a.RawEquals(b); ba = b.RawEquals(a); aa = a.RawEquals(a) })
	c.Eval(3)
	c.Count("pairs:" + p.name)
	if o.Panicked {
		c.Violate(site, "panic: "+core.PanicClass(o.PanicMsg), p.name, desc(), o.PanicMsg+"\n"+o.Stack)
		return
	}
	if !aa {
		c.Violate(site, "not reflexive", p.name, desc(), fmt.Sprintf("a.RawEquals(a) = false for a = %#v", a))
	}
	if ab != ba {
		c.Violate(site, "not symmetric", p.name, desc(), fmt.Sprintf("a.RawEquals(b)=%v, b.RawEquals(a)=%v", ab, ba))
	}
	c.Count("law:rawequals-reflexive-symmetric")

	// Equals: symmetric; nulls; agreement with RawEquals and the model
	var e1, e2 cty.Value
	o = core.Guard(func() { e1 = a.Equals(b); e2 = b.Equals(a) })
	c.Eval(2)
	if o.Panicked {
		c.Violate("Value.Equals", "panic: "+core.PanicClass(o.PanicMsg), p.name, desc(), o.PanicMsg+"\n"+o.Stack)
		return
	}
	u1, _ := e1.Unmark()
	u2, _ := e2.Unmark()
	if u1.Type() != cty.Bool || u2.Type() != cty.Bool || u1.IsNull() || u2.IsNull() {
		c.Violate("Value.Equals", "result is not a non-null bool", p.name, desc(), fmt.Sprintf("%#v / %#v", e1, e2))
		return
	}
	if triClass(u1) != triClass(u2) {
		c.Violate("Value.Equals", "not symmetric", p.name, desc(), fmt.Sprintf("a.Equals(b)=%#v, b.Equals(a)=%#v", e1, e2))
	}
	c.Count("law:equals-symmetric")
	ua, _ := a.Unmark()
	ub, _ := b.Unmark()
	if ua.IsKnown() && ub.IsKnown() && ua.IsNull() && ub.IsNull() {
		if triClass(u1) != "true" {
			c.Violate("Value.Equals", "two nulls are not equal", p.name, desc(), fmt.Sprintf("got %#v", e1))
		}
		c.Count("law:null-equals-null")
	}
	if whollyKnownUnmarked(a) && whollyKnownUnmarked(b) {
		if !u1.IsKnown() {
			c.Violate("Value.Equals", "unknown result on wholly known values", p.name, desc(), fmt.Sprintf("got %#v", e1))
			return
		}
		sameType := a.Type().Equals(b.Type())
		me := sameType && mon.ModelEqual(a, b)
		if a.IsNull() && b.IsNull() {
			me = true
		}
		if u1.True() != me {
			c.Violate("Value.Equals", "disagrees with documented equality", numClass(a, b)+p.name, desc(), fmt.Sprintf("Equals=%v, documented equality=%v", u1.True(), me))
		}
		c.Count("law:equals-vs-model")
		if sameType {
			if u1.True() != ab {
				c.Violate("Value.Equals", "disagrees with RawEquals on wholly known values of one type", numClass(a, b)+p.name, desc(), fmt.Sprintf("Equals=%v RawEquals=%v", u1.True(), ab))
			}
			c.Count("law:equals-vs-rawequals")
		}
		// Equals True => Hash equal
		if u1.True() && sameType {
			var h1, h2 int
			ho := core.Guard(func() { h1 = a.Hash(); h2 = b.Hash() })
			c.Eval(2)
			if ho.Panicked {
				c.Violate("Value.Hash", "panic: "+core.PanicClass(ho.PanicMsg), p.name, desc(), ho.PanicMsg)
			} else if h1 != h2 {
				c.Violate("Value.Hash", "equal values hash differently", numClass(a, b)+p.name, desc(), fmt.Sprintf("hashes %d vs %d", h1, h2))
			}
			c.Count("law:equal-implies-same-hash")
		}
		// trichotomy on numbers
		if a.Type() == cty.Number && b.Type() == cty.Number && !a.IsNull() && !b.IsNull() {
			var lt, gt cty.Value
			to := core.Guard(func() { lt = a.LessThan(b); gt = a.GreaterThan(b) })
			c.Eval(2)
			if to.Panicked {
				c.Violate("Value.LessThan", "panic: "+core.PanicClass(to.PanicMsg), p.name, desc(), to.PanicMsg)
			} else {
				n := 0
				for _, x := range []cty.Value{lt, gt, u1} {
					if x.IsKnown() && x.True() {
						n++
					}
				}
				if n != 1 {
					c.Violate("Value.LessThan", "trichotomy with Equals and GreaterThan fails", precClass(a, b), desc(), fmt.Sprintf("lt=%#v eq=%#v gt=%#v", lt, u1, gt))
				}
				c.Count("law:trichotomy")
			}
		}
	}
	if c.WantSample() && different {
		c.Sample(map[string]any{"stage": "laws", "pool": p.name, "a": fmt.Sprintf("%#v", a), "b": fmt.Sprintf("%#v", b), "rawequals": ab, "equals": fmt.Sprintf("%#v", e1)})
	}
}

// numClass labels pairs that involve the known-delicate number classes.
func numClass(a, b cty.Value) string {
	cl := ""
	if containsNegZero(a) != containsNegZero(b) {
		cl += "neg-zero/"
	}
	return cl
}

// precClass is "mixed-precision-fraction" when both numbers are finite
// non-integers stored at different precisions (the one situation in which the
// documented text-based equality and the exact ordering can disagree).
func precClass(a, b cty.Value) string {
	fa, fb := a.AsBigFloat(), b.AsBigFloat()
	if !fa.IsInf() && !fb.IsInf() && !fa.IsInt() && !fb.IsInt() && fa.Prec() != fb.Prec() {
		return "mixed-precision-fraction"
	}
	return ""
}

func containsNegZero(v cty.Value) bool {
	found := false
	cty.Walk(v, func(_ cty.Path, x cty.Value) (bool, error) {
		if x.Type() == cty.Number && x.IsKnown() && !x.IsNull() && !x.IsMarked() {
			f := x.AsBigFloat()
			if f.Sign() == 0 && f.Signbit() {
				found = true
			}
		}
		return true, nil
	})
	return found
}

func checkTriple(c *core.Ctx, idx int64, p poolDef, a, b, d cty.Value) {
	desc := func() string { return fmt.Sprintf("triple(%#v, %#v, %#v)", a, b, d) }
	c.Begin(idx, desc)
	var ab, bd, ad bool
	o := core.Guard(func() { ab = a.RawEquals(b); bd = b.RawEquals(d); ad = a.RawEquals(d) })
	c.Eval(3)
	c.Count("triples:" + p.name)
	c.Distinct(desc(), ab || bd)
	if o.Panicked {
		c.Violate("Value.RawEquals", "panic: "+core.PanicClass(o.PanicMsg), p.name, desc(), o.PanicMsg)
		return
	}
	if ab && bd && !ad {
		c.Violate("Value.RawEquals", "not transitive", p.name, desc(), "a=b and b=c but not a=c")
	}
	if ab && bd {
		c.Count("law:rawequals-transitive(premise true)")
	}
	if whollyKnownUnmarked(a) && whollyKnownUnmarked(b) && whollyKnownUnmarked(d) {
		var e1, e2, e3 cty.Value
		o := core.Guard(func() { e1 = a.Equals(b); e2 = b.Equals(d); e3 = a.Equals(d) })
		c.Eval(3)
		if !o.Panicked && e1.IsKnown() && e2.IsKnown() && e3.IsKnown() && e1.True() && e2.True() {
			if !e3.True() {
				c.Violate("Value.Equals", "not transitive on wholly known values", p.name, desc(), "a=b and b=c but not a=c")
			}
			c.Count("law:equals-transitive(premise true)")
		}
	}
}

func joinVals(vs []cty.Value) string {
	p := make([]string, len(vs))
	for i, v := range vs {
		p[i] = fmt.Sprintf("%#v", v)
	}
	return "[" + strings.Join(p, ", ") + "]"
}
