package c09

import (
	"fmt"
	"strings"

	"github.com/zclconf/go-cty/cty"
	"github.com/zclconf/go-cty/cty/convert"

	"verif/harness/core"
	"verif/harness/model"
)

const (
	facetSliceChanged = "the call changed the caller's slice of types"
	facetRepeatDiffer = "a further call over the same slice of types gave another answer than the first call"
)

// sharedSeq is the history of calls made over ONE slice variable (false =
// Unify, true = UnifyUnsafe). It holds every transition between the two modes:
// safe>unsafe, unsafe>unsafe, unsafe>safe, safe>safe.
var sharedSeq = []bool{false, true, true, false, false}

// checkSharedSlice is the history step "the caller keeps its slice of types and
// unifies it again": the same []cty.Type is handed to Unify / UnifyUnsafe
// several times in a row (both modes, every transition). first[m] is what mode m
// answered for a slice of its own holding the same types. After every call
//   - the slice must still hold the types the caller put there (element-wise
//     Type.Equals against a private copy): the types at position i are what the
//     caller's values at position i have, so everything the statement says about
//     "its input type" is about them;
//   - the answer must be the one the first call of that mode gave (unified type,
//     and which conversions are absent); if it is not, the full oracle is
//     applied to the new answer against the caller's types, which then says
//     which clause of the statement the further call breaks.
//
// It returns the number of conversion applications observed.
func checkSharedSlice(c *core.Ctx, lib, types []cty.Type, nodes []*model.TNode, vals [][]cty.Value, first [2]uniResult, hasDyn, eq bool, tw *typeWatch) int {
	if first[0].panicked || first[1].panicked {
		return 0 // already reported; nothing to compare with
	}
	shared := append([]cty.Type(nil), lib...)
	applied := 0
	changed := false
	hist := make([]string, 0, len(sharedSeq))
	for k, unsafe := range sharedSeq {
		site := siteOf(unsafe)
		hist = append(hist, strings.TrimPrefix(site, "convert."))
		u := callUnifyOn(c, shared, types, unsafe, tw)
		c.Count("history:same-slice-call")
		if u.panicked {
			return applied
		}
		// (a) the caller's slice is untouched
		c.Count("clause:callers-slice-unchanged")
		// (when a type itself was rewritten, typeWatch has said so already: the slice holds what it held)
		if at, was, is := firstChanged(shared, types); at >= 0 && !changed && !tw.damaged {
			changed = true
			c.Violate(site, facetSliceChanged, was+">"+is, typesGo(types),
				fmt.Sprintf("calls so far over the one slice: %s; after the last one position %d holds %s, the caller put %#v there; slice now: %s",
					strings.Join(hist, ", "), at, typeGoSafe(shared[at]), types[at], typesGoSafe(shared)))
			// the history goes on with the slice as the call left it, as the caller's program would: the further
			// answers are judged against the types the caller wrote (and its values have)
		}
		if k == 0 {
			continue // nothing happened to the slice before the first call: that call is the one checkList judged already
		}
		// (b) same answer as the first call of this mode
		c.Count("clause:further-call-same-answer")
		m := 0
		if unsafe {
			m = 1
		}
		if why := sameAnswer(first[m], u); why != "" {
			c.Violate(site, facetRepeatDiffer, "after "+hist[k-1], typesGo(types),
				fmt.Sprintf("calls over the one slice: %s; %s", strings.Join(hist, ", "), why))
			if u.ok {
				applied += checkResult(c, types, nodes, vals, u, unsafe, hasDyn, eq)
			}
			return applied
		}
		// (c) the conversions of the last call of each mode do what the statement says for the caller's types
		// (an answer can look the same and still hold conversions made for other input types)
		if k >= len(sharedSeq)-2 && u.ok && len(u.convs) == len(types) {
			applied += applyFew(c, types, vals, u, unsafe, hasDyn, strings.Join(hist, ", "))
		}
	}
	return applied
}

// applyFew applies every returned conversion of a further call to two of the
// values of its input type (the known one and the one with unknown and null
// members) and judges the result as checkResult does.
func applyFew(c *core.Ctx, types []cty.Type, vals [][]cty.Value, u uniResult, unsafe, hasDyn bool, hist string) int {
	site := siteOf(unsafe)
	un := model.TNodeOf(u.ty)
	unDyn := model.HasDynamic(un)
	applied := 0
	for i, cv := range u.convs {
		if cv == nil {
			continue
		}
		for _, vi := range []int{0, 2} {
			if vi >= len(vals[i]) {
				continue
			}
			v := vals[i][len(vals[i])-7+vi] // the generated ones come after the corpus extras
			var out cty.Value
			var err error
			o := core.Guard(func() { out, err = cv(v) })
			c.Eval(1)
			applied++
			c.Count("history:further-call-conversion-applied")
			kind, what := judge(out, err, o, un, unDyn)
			facet := ""
			switch kind {
			case "ok":
				continue
			case "panic":
				facet = "panic in returned conversion: " + core.PanicClass(o.PanicMsg)
			case "error":
				if unsafe || hasDyn {
					continue
				}
				facet = facetSafeErr
			case "nilval":
				facet = facetNilVal
			default:
				facet = facetWrongType
			}
			dk, _ := directOutcome(types[i], u.ty, v, unsafe, un, unDyn)
			if dk == kind {
				continue // the plain conversion fails alike: checkList reported that for the first call already
			}
			c.Violate(site, facet, "further call over the same slice: "+shapeClass(types, i, u.ty, unsafe), fmt.Sprintf("%s; conversion %d applied to %#v", typesGo(types), i, v),
				fmt.Sprintf("calls over the one slice: %s; unified type %s; %s", hist, un, what))
		}
	}
	return applied
}

// callUnifyOn calls one mode over the slice `in` itself (no copy). witness is
// the list the caller wrote, used for reporting only.
func callUnifyOn(c *core.Ctx, in, witness []cty.Type, unsafe bool, tw *typeWatch) uniResult {
	site := siteOf(unsafe)
	var u uniResult
	o := core.Guard(func() {
		if unsafe {
			u.ty, u.convs = convert.UnifyUnsafe(in)
		} else {
			u.ty, u.convs = convert.Unify(in)
		}
	})
	c.Eval(1)
	c.Count("op:" + site)
	tw.after(c, site, witness)
	if o.Panicked {
		c.Violate(site, "panic: "+core.PanicClass(o.PanicMsg), "unify-call over a slice unified before "+dynClass(witness, 0), typesGo(witness), o.PanicMsg+"\n"+o.Stack)
		return uniResult{panicked: true}
	}
	u.ok = u.ty != cty.NilType
	return u
}

// firstChanged compares the slice after a call with the caller's private copy.
func firstChanged(now, orig []cty.Type) (at int, was, is string) {
	for i := range orig {
		same := false
		o := core.Guard(func() { same = now[i].Equals(orig[i]) })
		if o.Panicked || !same {
			is = "unreadable"
			core.Guard(func() {
				if now[i] == cty.NilType {
					is = "NilType"
				} else {
					is = kindOf(now[i])
				}
			})
			return i, kindOf(orig[i]), is
		}
	}
	return -1, "", ""
}

func typeGoSafe(t cty.Type) (s string) {
	s = "(unprintable type)"
	core.Guard(func() {
		if t == cty.NilType {
			s = "cty.NilType"
		} else {
			s = t.GoString()
		}
	})
	return s
}

func typesGoSafe(ts []cty.Type) string {
	p := make([]string, len(ts))
	for i, t := range ts {
		p[i] = typeGoSafe(t)
	}
	return "[]cty.Type{" + strings.Join(p, ", ") + "}"
}

// sameAnswer compares two answers of one mode for the same list of types: the
// outcome, the unified type and the positions without a conversion. "" = same.
func sameAnswer(a, b uniResult) string {
	switch {
	case a.ok != b.ok:
		return fmt.Sprintf("first call unified: %v (%s), further call unified: %v (%s)", a.ok, typeGoSafe(a.ty), b.ok, typeGoSafe(b.ty))
	case !a.ok:
		return ""
	}
	var an, bn *model.TNode
	if o := core.Guard(func() { an, bn = model.TNodeOf(a.ty), model.TNodeOf(b.ty) }); o.Panicked {
		return "unified type of the further call is unreadable: " + o.PanicMsg
	}
	if !model.TypeEq(an, bn) {
		return fmt.Sprintf("first call gave %#v, further call gave %#v", a.ty, b.ty)
	}
	if len(a.convs) != len(b.convs) {
		return fmt.Sprintf("first call gave %d conversions, further call %d", len(a.convs), len(b.convs))
	}
	for i := range a.convs {
		if (a.convs[i] == nil) != (b.convs[i] == nil) {
			return fmt.Sprintf("unified type %#v both times, but conversion %d is absent in the first call: %v, in the further call: %v", a.ty, i, a.convs[i] == nil, b.convs[i] == nil)
		}
	}
	return ""
}
