package c09

import (
	"sort"

	"github.com/zclconf/go-cty/cty"

	"verif/harness/core"
	"verif/harness/gen"
	"verif/harness/model"
)

// genVariants draws a random base type from the shared generator (outside the
// fixed pool, depth up to 4) and fills the list with related variants of it:
// primitive leaves swapped, a list turned into a tuple of 0..3 members (and
// back), a map into an object (and back), a set into a list, a leaf replaced
// by the placeholder. Related types are what unification succeeds on, so this
// strategy reaches the kind-directed and the composed paths of unify.go at
// every depth with types the pool does not contain.
func genVariants(r *core.Rand, n int) []cty.Type {
	depth := 2 + r.Intn(3)
	base := gen.Type(r, depth, gen.TypeOpts{Dynamic: r.Chance(1, 4), Capsule: r.Chance(1, 8)})
	withDyn := r.Chance(1, 4)
	rate := 10 + r.Intn(30) // percent, per node
	ts := make([]cty.Type, n)
	keep := -1
	if r.Bool() {
		keep = r.Intn(n)
	}
	for i := range ts {
		if i == keep {
			ts[i] = base.Cty()
			continue
		}
		ts[i] = variant(r, base, rate, withDyn).Cty()
	}
	return ts
}

func otherPrim(r *core.Rand, k model.Kind) *model.TNode {
	// string is the supertype of the primitives; make it the most likely partner
	c := []*model.TNode{model.TString, model.TString, model.TNumber, model.TBool}
	for {
		p := c[r.Intn(len(c))]
		if p.K != k {
			return p
		}
	}
}

func variant(r *core.Rand, t *model.TNode, rate int, withDyn bool) *model.TNode {
	hit := func() bool { return r.Chance(rate, 100) }
	switch t.K {
	case model.KBool, model.KNumber, model.KString:
		switch {
		case withDyn && r.Chance(rate, 400):
			return model.TDynamic
		case hit():
			return otherPrim(r, t.K)
		}
		return t
	case model.KDynamic, model.KCapsule:
		return t
	case model.KList:
		switch {
		case hit():
			m := r.Intn(4)
			es := make([]*model.TNode, m)
			for i := range es {
				es[i] = variant(r, t.Elem, rate, withDyn)
			}
			return model.TupleOf(es...)
		case r.Chance(rate, 300):
			return model.SetOf(variant(r, t.Elem, rate, withDyn))
		}
		return model.ListOf(variant(r, t.Elem, rate, withDyn))
	case model.KSet:
		if hit() {
			return model.ListOf(variant(r, t.Elem, rate, withDyn))
		}
		return model.SetOf(variant(r, t.Elem, rate, withDyn))
	case model.KMap:
		if hit() {
			names := []string{"a", "b", "c"}[:r.Intn(4)]
			as := map[string]*model.TNode{}
			for _, k := range names {
				as[k] = variant(r, t.Elem, rate, withDyn)
			}
			return model.ObjectOf(as)
		}
		return model.MapOf(variant(r, t.Elem, rate, withDyn))
	case model.KTuple:
		if len(t.Elems) > 0 && hit() {
			return model.ListOf(variant(r, t.Elems[r.Intn(len(t.Elems))], rate, withDyn))
		}
		es := make([]*model.TNode, len(t.Elems))
		for i, e := range t.Elems {
			es[i] = variant(r, e, rate, withDyn)
		}
		if len(es) > 0 && r.Chance(rate, 300) { // another length
			if r.Bool() {
				es = es[:len(es)-1]
			} else {
				es = append(es, variant(r, es[r.Intn(len(es))], rate, withDyn))
			}
		}
		return model.TupleOf(es...)
	case model.KObject:
		keys := make([]string, 0, len(t.Attrs))
		for k := range t.Attrs {
			keys = append(keys, k)
		}
		sort.Strings(keys)
		if len(keys) > 0 && hit() {
			return model.MapOf(variant(r, t.Attrs[keys[r.Intn(len(keys))]], rate, withDyn))
		}
		as := map[string]*model.TNode{}
		for _, k := range keys {
			as[k] = variant(r, t.Attrs[k], rate, withDyn)
		}
		if len(keys) > 0 && r.Chance(rate, 300) { // another attribute set
			if r.Bool() {
				delete(as, keys[r.Intn(len(keys))])
			} else {
				as["z"] = variant(r, t.Attrs[keys[r.Intn(len(keys))]], rate, withDyn)
			}
		}
		return model.ObjectOf(as)
	}
	return t
}
