package c09

import (
	"fmt"

	"github.com/zclconf/go-cty/cty"

	"verif/harness/core"
	"verif/harness/model"
)

type corpusEntry struct {
	note  string
	types []cty.Type
	extra [][]cty.Value // extra[i]: fixed values of input i the returned conversion is applied to
}

func n(i int64) cty.Value  { return cty.NumberIntVal(i) }
func s(x string) cty.Value { return cty.StringVal(x) }
func tv(vs ...cty.Value) cty.Value {
	return cty.TupleVal(vs)
}
func ov(kv ...any) cty.Value {
	m := map[string]cty.Value{}
	for i := 0; i+1 < len(kv); i += 2 {
		m[kv[i].(string)] = kv[i+1].(cty.Value)
	}
	return cty.ObjectVal(m)
}

// corpus: boundary cases written from reading unify.go, and the witnesses of
// the defects this check found (re-executed on every run).
func corpus() []corpusEntry {
	return []corpusEntry{
		// --- DESIGN.md F-07 as first written down (tuple next to a list with a placeholder element)
		{"F-07 design witness", []cty.Type{cty.List(tDyn), tup(tNum, tStr)}, [][]cty.Value{nil, {tv(n(1), s("a"))}}},
		// --- F-07, placeholder-free: the second step (list->list / map->map) is applied to the ORIGINAL tuple / object
		{"F-07 tuple of tuples next to list of lists", []cty.Type{cty.List(cty.List(tStr)), tup(tup(tNum), tup(tStr))},
			[][]cty.Value{nil, {tv(tv(n(1)), tv(s("a")))}}},
		{"F-07 tuple of objects next to list of maps", []cty.Type{cty.List(cty.Map(tStr)), tup(obj("a", tNum), obj("a", tStr))},
			[][]cty.Value{nil, {tv(ov("a", n(1)), ov("a", s("x")))}}},
		{"F-07 object of objects next to map of maps", []cty.Type{cty.Map(cty.Map(tStr)), obj("a", obj("a", tNum), "b", obj("a", tStr))},
			[][]cty.Value{nil, {ov("a", ov("a", n(1)), "b", ov("a", s("x")))}}},
		{"F-07 object of tuples next to map of lists", []cty.Type{cty.Map(cty.List(tStr)), obj("a", tup(tNum), "b", tup(tStr))},
			[][]cty.Value{nil, {ov("a", tv(n(1)), "b", tv(s("x")))}}},
		{"F-07 with a placeholder member", []cty.Type{cty.List(tStr), tup(tNum, tDyn)}, [][]cty.Value{nil, {tv(n(1), cty.True), tv(n(1), s("x")), tv(n(2), cty.DynamicVal)}}},
		{"F-07 object with a placeholder member", []cty.Type{cty.Map(tStr), obj("a", tNum, "b", tDyn)}, [][]cty.Value{nil, {ov("a", n(1), "b", cty.True)}}},
		// --- F-07: one witness per violation signature the check reported on the unrepaired tree
		{"F-07 empty tuple: second step panics 'not a collection type'", []cty.Type{cty.EmptyTuple, tup(tup(tNum)), cty.List(cty.List(tStr))},
			[][]cty.Value{{cty.EmptyTupleVal}, {tv(tv(n(1)))}, nil}},
		{"F-07 empty object: second step panics 'not a collection type'", []cty.Type{cty.EmptyObject, obj("a", obj("a", tNum)), cty.Map(cty.Map(tStr))},
			[][]cty.Value{{cty.EmptyObjectVal}, {ov("a", ov("a", n(1)))}, nil}},
		{"F-07 unsafe, object: 'not a string'", []cty.Type{cty.Map(cty.List(tNum)), cty.Map(tDyn), obj("a", tup(tNum), "b", tup(tStr))},
			[][]cty.Value{nil, nil, {ov("a", tv(n(4)), "b", tv(s("ab"))), ov("a", tv(n(4)), "b", tv(s("12")))}}},
		{"F-07 unsafe, object: 'not a number'", []cty.Type{cty.Map(tStr), obj("a", tNum, "b", tDyn)},
			[][]cty.Value{nil, {ov("a", n(256), "b", s("1"))}}},
		{"F-07 unsafe, tuple: 'not a number'", []cty.Type{cty.List(tStr), tup(tNum, tDyn)},
			[][]cty.Value{nil, {tv(n(2), s("1"))}}},
		{"F-07 unsafe, tuple: 'not a string'", []cty.Type{cty.List(cty.List(tNum)), tup(tup(tNum), tup(tStr)), cty.List(cty.Set(tStr))},
			[][]cty.Value{nil, {tv(tv(n(0)), tv(s("b"))), tv(tv(n(0)), tv(s("7")))}, nil}},
		{"F-07 result of another type (map of maps of numbers)", []cty.Type{cty.Map(cty.Map(tStr)), obj("a", obj("a", tNum), "b", obj("a", tStr)), cty.Map(obj("a", tNum)), obj("a", obj("a", tNum))},
			[][]cty.Value{nil, nil, nil, {ov("a", ov("a", cty.NumberFloatVal(-79.75)))}}},
		{"F-07 safe error, tuple of sets next to list of sets", []cty.Type{tup(cty.Set(tNum), cty.Set(tStr)), cty.List(cty.Set(tStr))},
			[][]cty.Value{{tv(cty.SetVal([]cty.Value{n(-3)}), cty.SetVal([]cty.Value{s("x")}))}, nil}},
		{"F-07 result of another type (list of maps of bools)", []cty.Type{cty.List(obj("k", tStr, "z", tNum)), tup(obj("k", tBoo)), tup(obj("k", tStr))},
			[][]cty.Value{nil, {tv(ov("k", cty.True))}, nil}},
		{"F-07 safe error, object of tuples next to maps of tuples", []cty.Type{obj("a", tup(tNum, tNum), "b", tup(tNum, tStr)), cty.Map(tup(tStr, tStr)), cty.Map(tup(tNum, tStr))},
			[][]cty.Value{{ov("a", tv(n(2), n(4)), "b", tv(n(0), s("ab")))}, nil, nil}},
		// --- F-29: set holding an unknown member converted to a list of another element type
		{"F-29 set holding unknown next to list", []cty.Type{cty.List(tStr), cty.Set(tNum)},
			[][]cty.Value{nil, {cty.SetVal([]cty.Value{n(1), cty.UnknownVal(tNum)})}}},
		{"F-29 nested", []cty.Type{cty.List(cty.List(tStr)), tup(cty.Set(tNum))},
			[][]cty.Value{nil, {tv(cty.SetVal([]cty.Value{cty.UnknownVal(tNum)}))}}},
		// --- two-step paths that happen to work (collection conversions iterate tuples/objects too)
		{"two-step, primitive members", []cty.Type{cty.List(tStr), tup(tNum)}, [][]cty.Value{nil, {tv(n(1))}}},
		{"two-step, map", []cty.Type{cty.Map(tStr), obj("a", tNum)}, [][]cty.Value{nil, {ov("a", n(1))}}},
		{"tuple conversion only", []cty.Type{cty.List(tStr), tup(tNum, tStr)}, nil},
		{"object conversion only", []cty.Type{cty.Map(tStr), obj("a", tNum, "b", tStr)}, nil},
		// --- safe chains that exist although the plain conversion does not (an attribute is dropped by the first step)
		{"safe chain via map(list(object{k})), single object", []cty.Type{cty.Map(tup(obj("a", tBoo, "k", tBoo))), cty.Map(tup(cty.Map(tBoo))),
			obj("a", tup(obj("a", tBoo, "k", tBoo)), "b", tup(obj("a", tNum, "k", tBoo)), "c", cty.List(obj("k", tBoo))), cty.Map(cty.EmptyTuple)}, nil},
		{"safe chain, two objects", []cty.Type{obj("k", cty.Set(obj("k", tStr))), obj("k", tup(obj("k", tStr), obj("k", tBoo), obj("k", tBoo)), "z", cty.Set(cty.EmptyObject)),
			cty.Map(cty.EmptyTuple), cty.Map(cty.List(cty.Map(tBoo)))}, nil},
		// --- boundaries
		{"single type", []cty.Type{tStr}, nil},
		{"single dynamic", []cty.Type{tDyn}, nil},
		{"all dynamic", []cty.Type{tDyn, tDyn, tDyn}, nil},
		{"dynamic next to primitive", []cty.Type{tDyn, tStr}, [][]cty.Value{{s("a"), n(1), cty.DynamicVal, cty.NullVal(tDyn), cty.EmptyObjectVal}, nil}},
		{"dynamic next to list", []cty.Type{cty.List(tStr), tDyn}, nil},
		{"dynamic next to object", []cty.Type{obj("a", tNum), tDyn}, nil},
		{"dynamic next to tuple", []cty.Type{tup(tNum), tDyn}, nil},
		{"dynamic next to map and object", []cty.Type{cty.Map(tStr), obj("a", tNum), tDyn}, nil},
		{"primitives", []cty.Type{tNum, tStr, tBoo}, nil},
		{"number and bool", []cty.Type{tNum, tBoo}, nil},
		{"empty tuple alone", []cty.Type{cty.EmptyTuple}, nil},
		{"empty tuples", []cty.Type{cty.EmptyTuple, cty.EmptyTuple}, nil},
		{"empty tuple next to tuple", []cty.Type{cty.EmptyTuple, tup(tStr)}, nil},
		{"empty tuple next to list", []cty.Type{cty.EmptyTuple, cty.List(tStr)}, nil},
		{"empty object alone", []cty.Type{cty.EmptyObject}, nil},
		{"empty object next to object", []cty.Type{cty.EmptyObject, obj("a", tNum)}, nil},
		{"empty object next to map", []cty.Type{cty.EmptyObject, cty.Map(tNum)}, nil},
		{"object and tuple", []cty.Type{obj("a", tNum), tup(tNum)}, nil},
		{"objects, same names", []cty.Type{obj("a", tNum, "b", tStr), obj("a", tStr, "b", tNum)}, nil},
		{"objects, other names", []cty.Type{obj("a", tNum), obj("b", tStr)}, nil},
		{"tuples, same length", []cty.Type{tup(tNum, tStr), tup(tStr, tNum)}, nil},
		{"tuples, other length", []cty.Type{tup(tNum), tup(tStr, tNum)}, nil},
		{"set next to tuple", []cty.Type{cty.Set(tStr), tup(tNum, tStr)}, nil},
		{"set next to list", []cty.Type{cty.Set(tStr), cty.List(tNum)}, nil},
		{"set of numbers next to tuple of strings", []cty.Type{cty.Set(tNum), tup(tStr)}, nil},
		{"map next to list", []cty.Type{cty.Map(tStr), cty.List(tStr)}, nil},
		{"capsules", []cty.Type{model.CapsuleA, model.CapsuleA}, nil},
		{"other capsules", []cty.Type{model.CapsuleA, model.CapsuleB}, nil},
		{"capsule next to string", []cty.Type{model.CapsuleB, tStr}, nil},
		{"list of dynamic twice", []cty.Type{cty.List(tDyn), cty.List(tDyn)}, nil},
		{"tuple of dynamic next to tuple", []cty.Type{tup(tDyn), tup(tNum)}, nil},
		{"object of dynamic next to object", []cty.Type{obj("a", tDyn), obj("a", tNum)}, nil},
		{"nested tuples to list of lists", []cty.Type{tup(tup(tNum), tup(tNum, tNum)), cty.List(cty.List(tNum))}, nil},
		{"four types", []cty.Type{cty.List(tNum), tup(tNum), tup(tStr, tNum), cty.List(tStr)}, nil},
	}
}

func runCorpus(c *core.Ctx, base int64) {
	for k, e := range corpus() {
		idx := base + int64(k)
		if !c.Want(idx) {
			continue
		}
		r := core.NewRand(core.HashString(fmt.Sprintf("c09-corpus-%d", k)))
		checkList(c, idx, e.types, e.extra, r)
		c.Count("corpus-cases")
	}
}
