package c09

import (
	"strings"

	"github.com/zclconf/go-cty/cty"

	"verif/harness/core"
	"verif/harness/gen"
	"verif/harness/model"
)

func tup(ts ...cty.Type) cty.Type { return cty.Tuple(ts) }
func obj(kv ...any) cty.Type {
	m := map[string]cty.Type{}
	for i := 0; i+1 < len(kv); i += 2 {
		m[kv[i].(string)] = kv[i+1].(cty.Type)
	}
	return cty.Object(m)
}

var (
	tNum = cty.Number
	tStr = cty.String
	tBoo = cty.Bool
	tDyn = cty.DynamicPseudoType
)

// The fixed pool. It is written from unify.go: the interesting paths are the
// ones where structural types (tuple, object) sit next to collection types
// (list, map) so that unifyTuplesAsList / unifyObjectsAsMaps compose two
// conversions, where tuple/object members need a second unification
// (unifyTupleTypesToList / unifyObjectTypesToMap), and where a set is converted
// to a list (the unknown-length shortcut of conversionCollectionToList).
var (
	poolPrims = []cty.Type{tBoo, tNum, tStr}
	poolLists = []cty.Type{
		cty.List(tNum), cty.List(tStr), cty.List(tBoo), cty.List(tDyn),
		cty.List(cty.List(tNum)), cty.List(cty.List(tStr)), cty.List(cty.Map(tStr)),
		cty.List(tup(tNum)), cty.List(obj("a", tNum)), cty.List(obj("a", tStr)), cty.List(cty.Set(tStr)),
	}
	poolSets = []cty.Type{
		cty.Set(tNum), cty.Set(tStr), cty.Set(tDyn), cty.Set(cty.List(tStr)), cty.Set(tup(tNum, tStr)),
	}
	poolMaps = []cty.Type{
		cty.Map(tNum), cty.Map(tStr), cty.Map(tBoo), cty.Map(tDyn),
		cty.Map(cty.List(tNum)), cty.Map(cty.Map(tStr)), cty.Map(obj("a", tNum)), cty.Map(cty.List(tStr)),
	}
	poolTuples = []cty.Type{
		cty.EmptyTuple, tup(tNum), tup(tStr), tup(tNum, tStr), tup(tNum, tNum), tup(tBoo, tStr), tup(tBoo, tNum), tup(tNum, tStr, tBoo),
		tup(tDyn), tup(tNum, tDyn),
		tup(cty.List(tNum)), tup(cty.List(tNum), cty.List(tStr)), tup(tup(tNum), tup(tStr)), tup(tup(tNum), cty.List(tNum)),
		tup(obj("a", tNum), obj("a", tStr)), tup(obj("a", tNum), obj("b", tNum)), tup(cty.Set(tNum), cty.List(tStr)), tup(cty.Set(tNum)),
	}
	poolObjects = []cty.Type{
		cty.EmptyObject, obj("a", tNum), obj("a", tStr), obj("b", tNum), obj("a", tNum, "b", tStr), obj("a", tBoo, "b", tBoo),
		obj("a", tDyn), obj("a", tNum, "b", tDyn),
		obj("a", cty.List(tNum)), obj("a", tup(tNum, tStr)), obj("a", obj("a", tNum)), obj("a", cty.Map(tStr)),
		obj("a", obj("a", tNum), "b", obj("a", tStr)), obj("a", obj("a", tNum), "b", cty.Map(tNum)), obj("a", cty.Map(tNum), "b", cty.Map(tStr)),
		obj("a", tup(tNum), "b", tup(tStr)),
	}
	poolOther = []cty.Type{tDyn, model.CapsuleA, model.CapsuleB}
)

var (
	poolAll []cty.Type
	poolSeq []cty.Type // lists, tuples, sets
	poolMap []cty.Type // maps, objects
)

func init() {
	for _, p := range [][]cty.Type{poolPrims, poolLists, poolSets, poolMaps, poolTuples, poolObjects, poolOther} {
		poolAll = append(poolAll, p...)
	}
	poolSeq = append(append(append(poolSeq, poolLists...), poolTuples...), poolSets...)
	poolMap = append(append(poolMap, poolMaps...), poolObjects...)
}

func pick(r *core.Rand, p []cty.Type) cty.Type { return p[r.Intn(len(p))] }

// drawSeq / drawMap draw from one family; lists next to tuples (maps next to
// objects) is the most likely combination.
func drawSeq(r *core.Rand) cty.Type {
	switch k := r.Intn(20); {
	case k < 8:
		return pick(r, poolLists)
	case k < 16:
		return pick(r, poolTuples)
	case k < 18:
		return pick(r, poolSets)
	case k < 19:
		return tDyn
	}
	return pick(r, poolAll)
}

func drawMap(r *core.Rand) cty.Type {
	switch k := r.Intn(20); {
	case k < 8:
		return pick(r, poolMaps)
	case k < 17:
		return pick(r, poolObjects)
	case k < 18:
		return tDyn
	}
	return pick(r, poolAll)
}

// genTypes draws one type list and names the strategy that produced it.
func genTypes(r *core.Rand) ([]cty.Type, string) {
	n := 1 + r.Weighted([]int{2, 8, 6, 4})
	ts := make([]cty.Type, n)
	strat := ""
	if r.Chance(1, 5) {
		return genVariants(r, n), "variants"
	}
	switch k := r.Intn(100); {
	case k < 30:
		strat = "seq-family"
		for i := range ts {
			ts[i] = drawSeq(r)
		}
	case k < 55:
		strat = "map-family"
		for i := range ts {
			ts[i] = drawMap(r)
		}
	case k < 67:
		strat = "uniform"
		for i := range ts {
			ts[i] = pick(r, poolAll)
		}
	case k < 71:
		strat = "all-equal"
		t := pick(r, poolAll)
		for i := range ts {
			ts[i] = t
		}
	case k < 79:
		strat = "prims+dynamic"
		for i := range ts {
			if r.Chance(1, 5) {
				ts[i] = tDyn
			} else {
				ts[i] = pick(r, poolPrims)
			}
		}
	case k < 86:
		// the same constructor around a family draw: pushes the family one level down
		strat = "wrapped-same"
		fam := drawSeq
		if r.Bool() {
			fam = drawMap
		}
		w := r.Intn(5)
		for i := range ts {
			t := fam(r)
			switch w {
			case 0:
				ts[i] = cty.List(t)
			case 1:
				ts[i] = cty.Map(t)
			case 2:
				ts[i] = tup(t)
			case 3:
				ts[i] = obj("a", t)
			default:
				ts[i] = cty.Set(t)
			}
		}
	case k < 93:
		// lists next to tuples whose members come from one family (two-step paths with non-primitive members)
		strat = "wrapped-seq-mix"
		fam := drawSeq
		if r.Bool() {
			fam = drawMap
		}
		for i := range ts {
			switch r.Intn(4) {
			case 0, 1:
				ts[i] = cty.List(fam(r))
			case 2:
				ts[i] = tup(fam(r))
			default:
				ts[i] = tup(fam(r), fam(r))
			}
		}
	default:
		strat = "wrapped-map-mix"
		fam := drawMap
		if r.Bool() {
			fam = drawSeq
		}
		for i := range ts {
			switch r.Intn(4) {
			case 0, 1:
				ts[i] = cty.Map(fam(r))
			case 2:
				ts[i] = obj("a", fam(r))
			default:
				ts[i] = obj("a", fam(r), "b", fam(r))
			}
		}
	}
	// now and then one slot is a type from the shared random generator (outside the pool)
	if r.Chance(1, 14) {
		ts[r.Intn(n)] = gen.Type(r, 3, gen.TypeOpts{Dynamic: true, Capsule: true}).Cty()
		strat += "+random"
	}
	return ts, strat
}

func typesText(ts []cty.Type) string {
	p := make([]string, len(ts))
	for i, t := range ts {
		p[i] = model.TNodeOf(t).String()
	}
	return "[" + strings.Join(p, ", ") + "]"
}

func typesGo(ts []cty.Type) string {
	p := make([]string, len(ts))
	for i, t := range ts {
		p[i] = t.GoString()
	}
	return "[]cty.Type{" + strings.Join(p, ", ") + "}"
}

// valuesFor draws the values a returned conversion of input type ty is applied
// to: known, null, unknown (plain and refined), and mixed ones with unknown and
// null members at every depth. Every value conforms to ty.
func valuesFor(r *core.Rand, ty cty.Type) []cty.Value {
	vs := make([]cty.Value, 0, 7)
	vs = append(vs, gen.Value(r, ty, gen.ValueOpts{MaxLen: 3, SmallNums: r.Bool()}))
	vs = append(vs, gen.Value(r, ty, gen.ValueOpts{MaxLen: 2, NullPct: 20, NoTopNull: true}))
	vs = append(vs, gen.Value(r, ty, gen.ValueOpts{MaxLen: 3, UnknownPct: 20, NullPct: 10, Refined: true, NoTopNull: true, NoTopUnk: true, SmallNums: true}))
	vs = append(vs, gen.Value(r, ty, gen.ValueOpts{MaxLen: 3, UnknownPct: 35, Refined: r.Bool(), NoTopNull: true, NoTopUnk: true}))
	vs = append(vs, cty.NullVal(ty))
	vs = append(vs, gen.Unknown(r, ty, true))
	vs = append(vs, gen.MarkSome(r, gen.Value(r, ty, gen.ValueOpts{MaxLen: 2, UnknownPct: 10, NullPct: 10, NoTopNull: true, NoTopUnk: true, SmallNums: true}), 60, 25))
	return vs
}
