// Package c09: unification returns a type every input really converts to.
package c09

import (
	"fmt"
	"sort"
	"strings"

	"github.com/zclconf/go-cty/cty"
	"github.com/zclconf/go-cty/cty/convert"

	"verif/harness/core"
	"verif/harness/model"
	"verif/harness/mon"
)

type Driver struct{}

func (Driver) ID() string { return "C09" }

func (Driver) Info() core.Info {
	return core.Info{
		Title: "unification returns a type every input really converts to",
		Rule: "case = list of 1..4 types: drawn from a fixed 64-type pool (primitives, lists, sets, maps, tuples, objects, nested, with and without the dynamic placeholder, two capsule types) " +
			"with strategies biased towards lists next to tuples and maps next to objects, optionally wrapped in a common or mixed constructor, now and then a random type from the shared generator, and (1 list in 5) a random type of depth 2..4 next to derived variants of itself (leaves swapped, list<->tuple, map<->object, set->list, placeholder inserted); " +
			"plus every ordered pair of pool types, every ordered triple within the list/tuple and the map/object family (thorough: every ordered triple of the pool and every ordered quadruple within the two families) and a fixed corpus. For each list Unify and UnifyUnsafe are called; every returned non-nil conversion is applied to 7 values of its input type " +
			"(known, with nulls, with unknown/refined-unknown members, null, unknown, marked). History step per list: ONE slice is then handed to Unify, UnifyUnsafe, UnifyUnsafe, Unify, Unify in a row " +
			"(every transition between the modes); after each call the slice must still hold the caller's types and the answer must be the one a fresh slice got (the last call of each mode also has its conversions applied); behind every call every input type must print as it did when the list was built. Plus histories over tuple types that are windows cty.Tuple(full[a:b]) of one longer array of element types: the longer type cty.Tuple(full) is watched as a bystander and is an input of two following calls, all judged against equal types over private arrays. distinct = hash of the type list; non-trivial = unification succeeded in some mode and at least one returned conversion was applied to a value",
		Assumptions: []string{
			"a value 'of its input type' is a value whose type conforms to the input type (placeholders instantiated by the value generator)",
			"'placeholder-free inputs' = no type of the list contains DynamicPseudoType at any depth",
			"'safe unification never relies on an unsafe conversion' is decided as: in safe mode, for placeholder-free inputs, no returned conversion errors on a generated value, and a safe route exists: convert.GetConversion(input, result) != nil or, for a tuple next to lists / an object next to maps, safe conversions input -> M -> result where M is the list / map of what the members of all tuple / object inputs unify to",
			"a nil conversion is read as 'the value is used as it is' (doc comment of convert.Unify), so with placeholders in the list the input type must conform to the unified type",
			"optional-attribute annotations are not generated: no value has such a type, so the value quantifier would be empty",
			"type comparisons go through model.TNodeOf / TypeEq / Conforms, not through Type.Equals",
		},
		MinNontrivial: 10000,
	}
}

func (Driver) Batches(tier string) int {
	if tier == "thorough" {
		return 64
	}
	return 16
}

const (
	facetLen        = "len(conversions) != len(types)"
	facetEqualType  = "all-equal inputs did not unify to that type"
	facetEqualConv  = "all-equal inputs got a non-nil conversion"
	facetNilDiff    = "conversion is nil although the input type differs from the result type"
	facetNonNilSame = "conversion is non-nil although the input type equals the result type"
	facetSafeErr    = "safe conversion for placeholder-free inputs returned an error"
	facetWrongType  = "returned conversion yields a value that is not of the unified type"
	facetNilVal     = "returned conversion yields NilVal without an error"
	facetUnsafeFail = "Unify succeeded on placeholder-free inputs but UnifyUnsafe failed"
	facetNoSafeConv = "safe unification chose a type to which no safe conversion exists"
	facetNilNonConf = "conversion is nil although values of the input type do not conform to the result type"
)

type uniResult struct {
	ty       cty.Type
	convs    []convert.Conversion
	ok       bool // call returned (no panic) and ty != NilType
	panicked bool
}

func siteOf(unsafe bool) string {
	if unsafe {
		return "convert.UnifyUnsafe"
	}
	return "convert.Unify"
}

func anyDynamic(ts []cty.Type) bool {
	for _, t := range ts {
		if model.HasDynamic(model.TNodeOf(t)) {
			return true
		}
	}
	return false
}

func allEqual(ns []*model.TNode) bool {
	for _, n := range ns[1:] {
		if !model.TypeEq(ns[0], n) {
			return false
		}
	}
	return true
}

func kindOf(t cty.Type) string { return model.TNodeOf(t).K.String() }

// shapeClass names the path a conversion for input i took, as far as that is
// visible from outside: kind of input > kind of result, and whether unify.go's
// composed paths (structural type next to a collection type at top level) were
// in play. "two-step" means the structural inputs on their own unify to a
// collection type other than the final one, so the returned conversion is a
// composition of structural->collection and collection->collection.
func shapeClass(types []cty.Type, i int, unified cty.Type, unsafe bool) string {
	in := types[i]
	s := kindOf(in) + ">" + kindOf(unified)
	var isStruct, isColl func(cty.Type) bool
	switch {
	case in.IsTupleType() && unified.IsListType():
		isStruct, isColl = cty.Type.IsTupleType, cty.Type.IsListType
	case in.IsObjectType() && unified.IsMapType():
		isStruct, isColl = cty.Type.IsObjectType, cty.Type.IsMapType
	default:
		return s
	}
	var structs []cty.Type
	next := false
	for _, t := range types {
		if isStruct(t) {
			structs = append(structs, t)
		}
		if isColl(t) {
			next = true
		}
	}
	if !next {
		return s
	}
	s += " next-to-" + kindOf(unified)
	// classification only (never part of the oracle): what do the structural inputs unify to on their own?
	var first cty.Type
	o := core.Guard(func() {
		if unsafe {
			first, _ = convert.UnifyUnsafe(structs)
		} else {
			first, _ = convert.Unify(structs)
		}
	})
	if !o.Panicked && first != cty.NilType && isColl(first) && !model.TypeEq(model.TNodeOf(first), model.TNodeOf(unified)) {
		s += " two-step"
	}
	return s
}

// safeRouteExists decides "safe unification never relies on an unsafe
// conversion" structurally for input i of a placeholder-free list ("" = yes):
// either the plain safe conversion input -> unified type exists, or - where a
// tuple sits next to lists / an object next to maps, the only place where
// unify.go composes two conversions - safe conversions exist from the input to
// an intermediate collection type M (list / map of what the members of all
// structural inputs unify to) and from M to the unified type. (Safe conversions are not transitive: object{a:number,k:bool}
// -> object{k:bool} -> map(bool) is a safe chain although number -> bool does
// not exist, so the plain conversion alone would be too much to ask.)
func safeRouteExists(c *core.Ctx, types []cty.Type, i int, unified cty.Type) string {
	get := func(from, to cty.Type) (cv convert.Conversion, ok bool) {
		o := core.Guard(func() { cv = convert.GetConversion(from, to) })
		c.Eval(1)
		return cv, !o.Panicked
	}
	direct, ok := get(types[i], unified)
	if !ok || direct != nil {
		return "" // a panic of GetConversion is C08's subject
	}
	in := types[i]
	var isStruct func(cty.Type) bool
	switch {
	case in.IsTupleType() && unified.IsListType():
		isStruct = cty.Type.IsTupleType
	case in.IsObjectType() && unified.IsMapType():
		isStruct = cty.Type.IsObjectType
	default:
		return fmt.Sprintf("GetConversion(%#v, %#v) is nil", in, unified)
	}
	// members of all structural inputs: tuple elements in order, object attributes by sorted name
	var members []cty.Type
	for _, t := range types {
		if !isStruct(t) {
			continue
		}
		if t.IsTupleType() {
			members = append(members, t.TupleElementTypes()...)
			continue
		}
		atys := t.AttributeTypes()
		names := make([]string, 0, len(atys))
		for k := range atys {
			names = append(names, k)
		}
		sort.Strings(names)
		for _, k := range names {
			members = append(members, atys[k])
		}
	}
	if len(members) == 0 {
		return fmt.Sprintf("GetConversion(%#v, %#v) is nil and the structural inputs have no members", in, unified)
	}
	// candidate intermediate types: collection of what the members unify to (asked in both orders,
	// because the preference order of incomparable types follows the input order)
	rev := make([]cty.Type, len(members))
	for k, m := range members {
		rev[len(members)-1-k] = m
	}
	why := ""
	for _, ms := range [][]cty.Type{members, rev} {
		var ety cty.Type
		o := core.Guard(func() { ety, _ = convert.Unify(ms) })
		c.Eval(1)
		if o.Panicked || ety == cty.NilType {
			why = fmt.Sprintf("GetConversion(%#v, %#v) is nil and the members of the structural inputs do not unify", in, unified)
			continue
		}
		mid := cty.List(ety)
		if in.IsObjectType() {
			mid = cty.Map(ety)
		}
		first, ok1 := get(in, mid)
		second, ok2 := get(mid, unified)
		midIsUnified := model.TypeEq(model.TNodeOf(mid), model.TNodeOf(unified))
		if (!ok1 || first != nil) && (midIsUnified || !ok2 || second != nil) {
			c.Count("clause:safe-conversion-exists:via-intermediate-type")
			return ""
		}
		why = fmt.Sprintf("GetConversion(%#v, %#v) is nil, and no safe two-step route through %#v either (first step exists: %v, second step exists: %v)", in, unified, mid, first != nil, midIsUnified || second != nil)
	}
	return why
}

// valueClass names the most specific feature of a value that conversions are
// known to special-case.
func valueClass(v cty.Value) string {
	if v.ContainsMarked() {
		return "marked"
	}
	if !v.IsKnown() {
		return "unknown"
	}
	if v.IsNull() {
		return "null"
	}
	var setUnk, unk, null bool
	var walk func(v cty.Value)
	walk = func(v cty.Value) {
		if !v.IsKnown() {
			unk = true
			return
		}
		if v.IsNull() {
			null = true
			return
		}
		ty := v.Type()
		if ty.IsSetType() && !v.IsWhollyKnown() {
			setUnk = true
		}
		if ty.IsCollectionType() || ty.IsTupleType() || ty.IsObjectType() {
			for it := v.ElementIterator(); it.Next(); {
				_, e := it.Element()
				walk(e)
			}
		}
	}
	walk(v)
	switch {
	case setUnk:
		return "set-holding-unknown"
	case unk:
		return "unknown-member"
	case null:
		return "null-member"
	}
	return "known"
}

func dynClass(types []cty.Type, i int) string {
	if model.HasDynamic(model.TNodeOf(types[i])) {
		return "dyn-in-input"
	}
	if anyDynamic(types) {
		return "dyn-in-sibling"
	}
	return "no-dyn"
}

func (Driver) Run(c *core.Ctx) {
	n := int64(c.N(22000, 94000)) // x16 batches = 60 k lists quick, x64 = 1.5 M thorough
	for i := int64(0); i < n; i++ {
		if !c.Want(i) {
			continue
		}
		r := c.RNG(i)
		types, strat := genTypes(r)
		c.Count("strategy:" + strat)
		if checkList(c, i, types, nil, r) {
			c.Count("strategy-nontrivial:" + strat)
		}
	}
	// histories over tuple types that share their element-type array with a longer tuple type (backing.go)
	for j := int64(0); j < n/24; j++ {
		idx := 5_000_000_000 + j
		if !c.Want(idx) {
			continue
		}
		runBacking(c, idx, c.RNG(idx))
	}
	runPairs(c, 2_000_000_000)
	runTriples(c, 3_000_000_000)
	if !c.Quick() {
		runQuads(c, 4_000_000_000)
	}
	if c.Batch == 0 {
		runCorpus(c, 1_000_000_000)
	}
}

// runPairs enumerates every ordered pair of pool types (seed-independent,
// split between the batches). Values come from a stream keyed by the pair only.
func runPairs(c *core.Ctx, base int64) {
	k := int64(0)
	for a := range poolAll {
		for b := range poolAll {
			k++
			if !c.Mine(k) || !c.Want(base+k) {
				continue
			}
			r := core.NewRand(core.HashString(fmt.Sprintf("c09-pair-%d-%d", a, b)))
			checkList(c, base+k, []cty.Type{poolAll[a], poolAll[b]}, nil, r)
			c.Count("pool-pairs")
		}
	}
	if c.Batch == 0 {
		c.Exhaustive(fmt.Sprintf("every ordered pair of the %d pool types, both modes, 7 values per converted input", len(poolAll)))
	}
}

// runTriples enumerates ordered triples (seed-independent, split between the
// batches): in the quick tier every triple within the sequence family (lists,
// tuples, the placeholder) and within the mapping family (maps, objects, the
// placeholder) - the families in which unify.go composes conversions; in the
// thorough tier every triple of the whole pool.
func runTriples(c *core.Ctx, base int64) {
	var subs [][]cty.Type
	if c.Quick() {
		subs = [][]cty.Type{
			append(append(append([]cty.Type{}, poolLists...), poolTuples...), tDyn),
			append(append(append([]cty.Type{}, poolMaps...), poolObjects...), tDyn),
		}
	} else {
		subs = [][]cty.Type{poolAll}
	}
	k := int64(0)
	for si, sub := range subs {
		for a := range sub {
			for b := range sub {
				for d := range sub {
					k++
					if !c.Mine(k) || !c.Want(base+k) {
						continue
					}
					r := core.NewRand(core.HashString(fmt.Sprintf("c09-triple-%d-%d-%d-%d", len(subs)*10+si, a, b, d)))
					checkList(c, base+k, []cty.Type{sub[a], sub[b], sub[d]}, nil, r)
					c.Count("pool-triples")
				}
			}
		}
	}
	if c.Batch == 0 {
		if c.Quick() {
			c.Exhaustive(fmt.Sprintf("every ordered triple of the %d sequence-family pool types (lists, tuples, dynamic) and of the %d mapping-family pool types (maps, objects, dynamic), both modes, 7 values per converted input", len(subs[0]), len(subs[1])))
		} else {
			c.Exhaustive(fmt.Sprintf("every ordered triple of the %d pool types, both modes, 7 values per converted input", len(poolAll)))
		}
	}
}

// runQuads (thorough only): every ordered quadruple within the sequence family
// and within the mapping family.
func runQuads(c *core.Ctx, base int64) {
	subs := [][]cty.Type{
		append(append(append([]cty.Type{}, poolLists...), poolTuples...), tDyn),
		append(append(append([]cty.Type{}, poolMaps...), poolObjects...), tDyn),
	}
	k := int64(0)
	for si, sub := range subs {
		for a := range sub {
			for b := range sub {
				for d := range sub {
					for e := range sub {
						k++
						if !c.Mine(k) || !c.Want(base+k) {
							continue
						}
						r := core.NewRand(core.HashString(fmt.Sprintf("c09-quad-%d-%d-%d-%d-%d", si, a, b, d, e)))
						checkList(c, base+k, []cty.Type{sub[a], sub[b], sub[d], sub[e]}, nil, r)
						c.Count("pool-quadruples")
					}
				}
			}
		}
	}
	if c.Batch == 0 {
		c.Exhaustive(fmt.Sprintf("every ordered quadruple of the %d sequence-family pool types and of the %d mapping-family pool types, both modes, 7 values per converted input", len(subs[0]), len(subs[1])))
	}
}

// checkList runs both modes on one type list. extra[i] are additional fixed
// values for input i (corpus witnesses); r supplies the generated values.
func checkList(c *core.Ctx, idx int64, types []cty.Type, extra [][]cty.Value, r *core.Rand) bool {
	return checkListW(c, idx, types, nil, extra, r, nil)
}

// checkListW is checkList for a list whose types may share storage with other
// types (backing.go): lib is what the library is handed; decl holds the same
// types as the caller wrote them, each built over storage of its own (nil: lib
// itself). Everything the oracle says - type model, values "of the input type",
// witnesses - is about decl; by lists types outside the list whose print must
// not change either (nil: none).
func checkListW(c *core.Ctx, idx int64, lib, decl []cty.Type, extra [][]cty.Value, r *core.Rand, by *bystanders) bool {
	types := decl
	if types == nil {
		types = lib
	}
	tw := newTypeWatch(lib, types, by)
	desc := func() string { return typesGo(types) + tw.histText() }
	c.Begin(idx, desc)
	nodes := make([]*model.TNode, len(types))
	for i, t := range types {
		nodes[i] = model.TNodeOf(t)
	}
	hasDyn := anyDynamic(types)
	eq := allEqual(nodes)
	c.Count(fmt.Sprintf("types:%d", len(types)))
	if hasDyn {
		c.Count("input:with-placeholders")
	} else {
		c.Count("input:placeholder-free")
	}
	if eq {
		c.Count("input:all-equal")
	}

	// values are drawn once per input so that both modes see the same ones
	vals := make([][]cty.Value, len(types))
	for i, t := range types {
		vals[i] = valuesFor(r, t)
		if extra != nil && i < len(extra) {
			vals[i] = append(append([]cty.Value{}, extra[i]...), vals[i]...)
		}
	}

	var res [2]uniResult
	applied := 0
	for m := 0; m < 2; m++ {
		unsafe := m == 1
		res[m] = callUnify(c, lib, types, unsafe, tw)
		if !res[m].ok {
			if eq && !res[m].panicked {
				c.Count("clause:all-equal")
				c.Violate(siteOf(unsafe), facetEqualType, kindOf(types[0]), typesGo(types), "no unification (NilType)")
			}
			continue
		}
		applied += checkResult(c, types, nodes, vals, res[m], unsafe, hasDyn, eq)
	}
	if res[0].ok && !hasDyn {
		c.Count("clause:safe-success-implies-unsafe-success")
		if !res[1].ok {
			c.Violate("convert.UnifyUnsafe", facetUnsafeFail, "", typesGo(types), fmt.Sprintf("Unify gave %#v, UnifyUnsafe gave NilType (or panicked)", res[0].ty))
		}
	}
	// history step: the caller keeps ONE slice and unifies it again (both modes, every transition)
	applied += checkSharedSlice(c, lib, types, nodes, vals, res, hasDyn, eq, tw)
	c.Distinct(typesText(types), applied > 0)
	if applied > 0 && c.WantSample() {
		s := map[string]any{"types": typesText(types)}
		for m, name := range []string{"Unify", "UnifyUnsafe"} {
			if res[m].ok {
				s[name] = model.TNodeOf(res[m].ty).String()
			} else {
				s[name] = "no unification"
			}
		}
		c.Sample(s)
	}
	return applied > 0
}

func callUnify(c *core.Ctx, lib, types []cty.Type, unsafe bool, tw *typeWatch) uniResult {
	site := siteOf(unsafe)
	var u uniResult
	in := append([]cty.Type(nil), lib...) // the call gets its own slice
	o := core.Guard(func() {
		if unsafe {
			u.ty, u.convs = convert.UnifyUnsafe(in)
		} else {
			u.ty, u.convs = convert.Unify(in)
		}
	})
	c.Eval(1)
	c.Count("op:" + site)
	tw.after(c, site, types)
	if o.Panicked {
		c.Violate(site, "panic: "+core.PanicClass(o.PanicMsg), "unify-call "+dynClass(types, 0), typesGo(types), o.PanicMsg+"\n"+o.Stack)
		return uniResult{panicked: true}
	}
	if u.ty == cty.NilType {
		c.Count("outcome:" + site + ":no-unification")
		return uniResult{}
	}
	c.Count("outcome:" + site + ":unified")
	u.ok = true
	return u
}

// checkResult applies the oracle to one successful unification and returns the
// number of conversion applications it observed.
func checkResult(c *core.Ctx, types []cty.Type, nodes []*model.TNode, vals [][]cty.Value, u uniResult, unsafe, hasDyn, eq bool) int {
	site := siteOf(unsafe)
	wit := typesGo(types)
	un := model.TNodeOf(u.ty)
	unDyn := model.HasDynamic(un)
	c.Count("result-kind:" + un.K.String())

	c.Count("clause:len")
	if len(u.convs) != len(types) {
		c.Violate(site, facetLen, "", wit, fmt.Sprintf("unified type %#v, %d conversions for %d types", u.ty, len(u.convs), len(types)))
		return 0
	}
	if eq {
		c.Count("clause:all-equal")
		if !model.TypeEq(un, nodes[0]) {
			c.Violate(site, facetEqualType, kindOf(types[0]), wit, fmt.Sprintf("unified type %#v", u.ty))
		}
		for i, cv := range u.convs {
			if cv != nil {
				c.Violate(site, facetEqualConv, kindOf(types[0]), wit, fmt.Sprintf("conversion %d is non-nil; unified type %#v", i, u.ty))
				break
			}
		}
	}
	applied := 0
	for i, cv := range u.convs {
		same := model.TypeEq(nodes[i], un)
		if !hasDyn {
			c.Count("clause:nil-iff-equal")
			if cv == nil && !same {
				c.Violate(site, facetNilDiff, shapeClass(types, i, u.ty, unsafe), wit, fmt.Sprintf("input %d is %#v, unified type %#v", i, types[i], u.ty))
			}
			if cv != nil && same {
				c.Violate(site, facetNonNilSame, shapeClass(types, i, u.ty, unsafe), wit, fmt.Sprintf("input %d is %#v, unified type %#v", i, types[i], u.ty))
			}
			if !unsafe && !same {
				c.Count("clause:safe-conversion-exists")
				if why := safeRouteExists(c, types, i, u.ty); why != "" {
					c.Violate(site, facetNoSafeConv, shapeClass(types, i, u.ty, unsafe), wit, why)
				}
			}
		}
		if hasDyn {
			// a nil conversion means "already of the appropriate type" (doc comment of convert.Unify), so with
			// placeholders around every value of the input type must conform to the unified type as it is.
			// (The existence of a direct safe conversion is NOT demanded here: tuple -> list(X) -> list(dynamic)
			// can exist where GetConversion(tuple, list(dynamic)) does not, because the latter unifies the
			// tuple's members on their own.)
			if cv == nil {
				c.Count("clause:nil-with-placeholders-conforms")
				if !model.Conforms(nodes[i], un) {
					c.Violate(site, facetNilNonConf, shapeClass(types, i, u.ty, unsafe), wit, fmt.Sprintf("input %d is %#v, unified type %#v", i, types[i], u.ty))
				}
			}
		}
		if cv == nil {
			c.Count("conversion:nil")
			continue
		}
		c.Count("conversion:non-nil")
		c.Count("path:" + modeName(unsafe) + ":" + shapeClass(types, i, u.ty, unsafe))
		for _, v := range vals[i] {
			var out cty.Value
			var err error
			o := core.Guard(func() { out, err = cv(v) })
			c.Eval(1)
			applied++
			vc := valueClass(v)
			c.Count("value:" + vc)
			kind, what := judge(out, err, o, un, unDyn)
			c.Count("applied:" + kind)
			if kind == "ok" {
				if unDyn {
					c.Count("clause:result-conforms")
				} else {
					c.Count("clause:result-type-equal")
				}
				if wf := mon.WellFormed(out); wf != "" {
					c.CrossNote("C06", site+" conversion: "+wf, fmt.Sprintf("%s; conversion %d applied to %#v", wit, i, v))
				}
				continue
			}
			facet := ""
			switch kind {
			case "panic":
				facet = "panic in returned conversion: " + core.PanicClass(o.PanicMsg)
			case "error":
				if unsafe || hasDyn {
					c.Count("applied:error-allowed")
					continue
				}
				facet = facetSafeErr
			case "nilval":
				facet = facetNilVal
			default:
				facet = facetWrongType
			}
			// diagnosis for the class: does the plain conversion input type -> unified type, applied to
			// the same value, behave? If it does, the fault is in what unification returned.
			dk, dwhat := directOutcome(types[i], u.ty, v, unsafe, un, unDyn)
			class := violationClass(shapeClass(types, i, u.ty, unsafe), dk == kind, vc)
			c.Violate(site, facet, class, fmt.Sprintf("%s; conversion %d applied to %#v", wit, i, v),
				fmt.Sprintf("unified type %s; %s; [%s; %s; value: %s] plain %s conversion to the unified type on the same value: %s", un, what, shapeClass(types, i, u.ty, unsafe), dynClass(types, i), vc, modeName(unsafe), dwhat))
		}
	}
	return applied
}

// violationClass reduces the diagnosis to a root-cause oriented class:
//   - "as plain conversion: ..."  the plain conversion input type -> unified type fails in the same way on
//     the same value, so unification merely inherits a defect of package convert (C08's subject);
//   - "composed ..."              the conversion came from unifyTuplesAsList / unifyObjectsAsMaps (a tuple
//     next to a list, an object next to a map) and the plain conversion does not fail in that way;
//   - "unify only: ..."           anything else.
func violationClass(shape string, plainFailsAlike bool, vc string) string {
	feature := vc
	switch vc {
	case "null", "unknown", "null-member", "unknown-member":
		feature = "null or unknown part"
	}
	switch {
	case plainFailsAlike:
		return "as plain conversion: " + feature
	case strings.Contains(shape, " next-to-"):
		return "composed " + strings.TrimSuffix(shape, " two-step")
	}
	return "unify only: " + shape + " | " + feature
}

func modeName(unsafe bool) string {
	if unsafe {
		return "unsafe"
	}
	return "safe"
}

// judge classifies one application of a conversion against the unified type.
func judge(out cty.Value, err error, o core.Outcome, un *model.TNode, unDyn bool) (kind, what string) {
	switch {
	case o.Panicked:
		return "panic", "panic: " + o.PanicMsg + "\n" + o.Stack
	case err != nil:
		return "error", "error: " + err.Error()
	case out == cty.NilVal:
		return "nilval", "NilVal and a nil error"
	}
	var on *model.TNode
	if to := core.Guard(func() { on = model.TNodeOf(out.Type()) }); to.Panicked {
		return "wrong-type", fmt.Sprintf("result %#v has an unreadable type: %s", out, to.PanicMsg)
	}
	good := false
	if unDyn {
		good = model.Conforms(on, un)
	} else {
		good = model.TypeEq(on, un)
	}
	if !good {
		return "wrong-type", fmt.Sprintf("result %#v of type %s", out, on)
	}
	return "ok", fmt.Sprintf("result %#v", out)
}

// directOutcome applies the plain conversion from -> to (same mode) to v. Used
// only to classify a violation, never to decide one.
func directOutcome(from, to cty.Type, v cty.Value, unsafe bool, un *model.TNode, unDyn bool) (kind, what string) {
	var cv convert.Conversion
	o := core.Guard(func() {
		if unsafe {
			cv = convert.GetConversionUnsafe(from, to)
		} else {
			cv = convert.GetConversion(from, to)
		}
	})
	if o.Panicked {
		return "panic", "GetConversion panicked: " + o.PanicMsg
	}
	if cv == nil {
		return "none", "no such conversion"
	}
	var out cty.Value
	var err error
	o = core.Guard(func() { out, err = cv(v) })
	k, w := judge(out, err, o, un, unDyn)
	if len(w) > 300 {
		w = w[:300] + "..."
	}
	return k, w
}
