package c09

import (
	"fmt"
	"strings"

	"github.com/zclconf/go-cty/cty"

	"verif/harness/core"
)

// Types that share storage.
//
// cty.Tuple keeps the slice of element types it is given, and
// Type.TupleElementTypes hands that slice out again. A program that builds a
// tuple type from a window of a longer slice - cty.Tuple(full[:k]), which is
// what the type function of stdlib's slice() does - therefore owns two types
// over one array: the short one and cty.Tuple(full). Unification receives the
// short one; whatever it appends to the element types it reads from it lands in
// the longer type. Nothing in the statement lets a unification change a type:
// "its input type" is the type the caller's values have before and after the
// call, and the types of a later call are the ones the caller wrote.
//
// The observation point is general (typeWatch.after, behind every Unify /
// UnifyUnsafe call of the driver): every input type must print after the call
// as it printed when the caller built it. The generator dimension is
// runBacking: lists in which a share of the tuple types are windows of one
// longer array, the longer type kept as a bystander and then used as an input
// of the following calls of the same history.

const (
	facetInputTypeChanged = "an input type prints differently after the call than when the caller built it"
	facetBystanderChanged = "a type that was not an input prints differently after the call (it shares its element-type array with an input tuple type)"
)

// fp is the private textual copy of a type.
func fp(t cty.Type) (s string) {
	s = "(unreadable type)"
	core.Guard(func() {
		if t == cty.NilType {
			s = "nil"
		} else {
			s = string(cty.VerifTypeFingerprint(t))
		}
	})
	return s
}

// bystanders are types of one history that are not (or not yet) inputs, the
// text each had when it was built, and the calls made so far.
type bystanders struct {
	what     []string
	tys      []cty.Type
	pre      []string
	hist     []string
	reported bool
}

// typeWatch belongs to one list: the types as handed to the library and the
// text of each as the caller built it.
type typeWatch struct {
	lib      []cty.Type
	pre      []string
	by       *bystanders
	damaged  bool // some input type no longer prints as built
	reported bool
}

func newTypeWatch(lib, decl []cty.Type, by *bystanders) *typeWatch {
	tw := &typeWatch{lib: lib, pre: make([]string, len(decl)), by: by}
	for i, t := range decl {
		tw.pre[i] = fp(t)
		if by != nil && fp(lib[i]) != tw.pre[i] {
			// an earlier call of the history did that and was reported then (the type was a bystander of it)
			tw.damaged, tw.reported = true, true
		}
	}
	return tw
}

func (tw *typeWatch) histText() string {
	if tw.by == nil || len(tw.by.hist) == 0 {
		return ""
	}
	return "; earlier calls of this history: " + strings.Join(tw.by.hist, ", ")
}

// after runs behind every unification call over tw.lib. decl is the list as the
// caller wrote it (for the witness).
func (tw *typeWatch) after(c *core.Ctx, site string, decl []cty.Type) {
	c.Count("clause:input-types-print-as-built")
	for i, t := range tw.lib {
		now := fp(t)
		if now == tw.pre[i] {
			continue
		}
		tw.damaged = true
		if tw.reported {
			break
		}
		tw.reported = true
		class := kindOf(decl[i])
		if tw.by != nil {
			class += " over a shared element-type array"
		}
		c.Violate(site, facetInputTypeChanged, class, typesGo(decl)+tw.histText(),
			fmt.Sprintf("input %d printed %s when it was built and prints %s after the call (%s)", i, tw.pre[i], now, typeGoSafe(t)))
		break
	}
	by := tw.by
	if by == nil {
		return
	}
	c.Count("clause:bystander-types-print-as-built")
	for j, t := range by.tys {
		now := fp(t)
		if now == by.pre[j] || by.reported {
			continue
		}
		by.reported = true
		c.Violate(site, facetBystanderChanged, "tuple type over the longer array", typesGo(decl)+tw.histText(),
			fmt.Sprintf("%s printed %s when it was built and prints %s after the call (%s)", by.what[j], by.pre[j], now, typeGoSafe(t)))
	}
	by.hist = append(by.hist, strings.TrimPrefix(site, "convert.")+"("+typesGo(decl)+")")
	if len(by.hist) > 6 {
		by.hist = append([]string{"..."}, by.hist[len(by.hist)-5:]...)
	}
}

func ownCopy(ts []cty.Type) []cty.Type {
	out := make([]cty.Type, len(ts))
	copy(out, ts)
	return out
}

// backingElem draws one element type of the long array: mostly primitives (so
// that the tuples-as-list route has something to unify), now and then a small
// compound.
func backingElem(r *core.Rand) cty.Type {
	switch k := r.Intn(20); {
	case k < 8:
		return tStr
	case k < 13:
		return tNum
	case k < 16:
		return tBoo
	case k < 17:
		return cty.List(pick(r, poolPrims))
	case k < 18:
		return tup(pick(r, poolPrims))
	case k < 19:
		return obj("a", pick(r, poolPrims))
	}
	return pick(r, poolAll)
}

func wrapType(w int, t cty.Type) cty.Type {
	switch w {
	case 1:
		return cty.List(t)
	case 2:
		return cty.Tuple([]cty.Type{t})
	case 3:
		return cty.Object(map[string]cty.Type{"a": t})
	case 4:
		return cty.Map(t)
	}
	return t
}

// runBacking is one history over types that share storage:
//
//	full := []cty.Type{e0 .. eL-1}          (L = 2..5)
//	long := cty.Tuple(full)                 kept, and watched as a bystander
//	list  = 2..4 types, of which at least one is a window cty.Tuple(full[a:b]), b < L
//	        (mostly a prefix, mostly the first tuple type of the list), the others short tuple
//	        types, list types, now and then long itself; optionally all wrapped alike
//	call 1: the list            (full oracle, both modes, same-slice history)
//	call 2: [long, an equal type built afresh]   - "unifying equal types returns that type"
//	call 3: long next to a list / a short tuple  - conversions applied to values of long's type
//
// Every list is judged against the types as the caller wrote them (equal types
// over arrays of their own), values included.
func runBacking(c *core.Ctx, idx int64, r *core.Rand) {
	L := 2 + r.Intn(4)
	full := make([]cty.Type, L)
	for i := range full {
		full[i] = backingElem(r)
	}
	if r.Chance(1, 3) {
		// one leaf type throughout the tail: the equal-length route stays open for the later calls
		for i := 1; i < L; i++ {
			full[i] = full[1]
		}
	}
	long := cty.Tuple(full)
	longDecl := cty.Tuple(ownCopy(full))
	by := &bystanders{what: []string{fmt.Sprintf("cty.Tuple(full), full = %s,", typesGo(ownCopy(full)))}, tys: []cty.Type{long}, pre: []string{fp(longDecl)}}

	wrap := 0
	if r.Chance(3, 10) {
		wrap = 1 + r.Intn(4)
	}
	n := 2 + r.Weighted([]int{6, 5, 3})
	lib := make([]cty.Type, n)
	decl := make([]cty.Type, n)
	first := 0
	if r.Chance(2, 5) {
		first = r.Intn(n)
	}
	windows := 0
	for i := range lib {
		k := r.Intn(10)
		if i == first {
			k = 0
		}
		switch {
		case k < 3:
			// a window with spare capacity behind it
			a, b := 0, r.Intn(L)
			if r.Chance(1, 4) {
				a = r.Intn(b + 1)
			}
			lib[i], decl[i] = cty.Tuple(full[a:b]), cty.Tuple(ownCopy(full[a:b]))
			windows++
			by.what[0] += fmt.Sprintf(" input %d = cty.Tuple(full[%d:%d]),", i, a, b)
		case k < 6:
			es := make([]cty.Type, 1+r.Intn(2))
			for j := range es {
				es[j] = backingElem(r)
			}
			lib[i] = cty.Tuple(es)
			decl[i] = lib[i]
		case k < 8:
			lib[i] = cty.List(backingElem(r))
			decl[i] = lib[i]
		case k < 9:
			lib[i], decl[i] = long, longDecl
			by.what[0] += fmt.Sprintf(" input %d = cty.Tuple(full),", i)
		default:
			lib[i] = pick(r, poolTuples)
			decl[i] = lib[i]
		}
		lib[i], decl[i] = wrapType(wrap, lib[i]), wrapType(wrap, decl[i])
	}
	by.what[0] = strings.TrimSuffix(by.what[0], ",")
	c.Count("strategy:shared-backing")
	c.Count(fmt.Sprintf("shared-backing:windows=%d,wrap=%d", windows, wrap))
	if checkListW(c, idx, lib, decl, nil, r, by) {
		c.Count("strategy-nontrivial:shared-backing")
	}

	// the following calls of the history use the longer type
	c.Count("history:following-call-with-the-longer-type")
	checkListW(c, idx, []cty.Type{long, cty.Tuple(ownCopy(full))}, []cty.Type{longDecl, cty.Tuple(ownCopy(full))}, nil, r, by)
	var other cty.Type
	switch r.Intn(4) {
	case 0:
		other = cty.List(tStr)
	case 1:
		other = cty.List(full[r.Intn(L)])
	case 2:
		other = cty.Tuple([]cty.Type{backingElem(r)})
	default:
		other = decl[r.Intn(n)]
		if wrap != 0 {
			other = cty.List(backingElem(r))
		}
	}
	if r.Bool() {
		checkListW(c, idx, []cty.Type{long, other}, []cty.Type{longDecl, other}, nil, r, by)
	} else {
		checkListW(c, idx, []cty.Type{other, long}, []cty.Type{other, longDecl}, nil, r, by)
	}
}
