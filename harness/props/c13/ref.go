package c13

// Reference implementations of the collection, set and sequence functions.
//
// Written from the function descriptions / doc comments of
// cty/function/stdlib and the semantics the existing table tests pin
// (DESIGN.md Appendix A; tags D/T). Containers are taken apart into plain Go
// slices and maps; members stay opaque cty values. Nothing here calls the
// function under test or a sibling stdlib function. Trusted base that IS used:
// the cty value constructors, the read accessors AsValueSlice / AsValueMap /
// AsBigFloat / AsString, convert.UnifyUnsafe and convert.Convert (the
// documented meaning of "unified element type" and "converted to"; checked on
// their own by C08/C09) and mon.ModelEqual (documented equality).

import (
	"bytes"
	"math"
	"math/big"
	"sort"

	"github.com/zclconf/go-cty/cty"
	"github.com/zclconf/go-cty/cty/convert"

	"verif/harness/model"
	"verif/harness/mon"
)

// Ref is what the reference says about one argument list.
type Ref struct {
	Err       bool      // outside the documented domain: the call must fail
	Skip      bool      // nothing is asserted for this input (counted, never compared)
	Why       string    // reason for Err / Skip
	Val       cty.Value // expected result when !Err && !Skip
	OrderFree bool      // the order of the result's elements is not asserted (a set whose members have no documented order was traversed)
	Clauses   []string  // reference clauses that decided this case (counted in the evidence as clause:<fn>:<name>)
	ExactNums bool      // the result is a list of numbers that must also agree as exact values (not only by documented equality)
}

// cl records which clauses of the reference decided the case.
func (r Ref) cl(names ...string) Ref { r.Clauses = append(r.Clauses, names...); return r }

func bad(why string) Ref   { return Ref{Err: true, Why: why} }
func skip(why string) Ref  { return Ref{Skip: true, Why: why} }
func good(v cty.Value) Ref { return Ref{Val: v} }
func boolRef(b bool) Ref   { return Ref{Val: cty.BoolVal(b)} }
func (r Ref) free() Ref    { r.OrderFree = true; return r }
func (r Ref) freeIf(b bool) Ref {
	if b {
		r.OrderFree = true
	}
	return r
}

// ---- taking values apart ------------------------------------------------------

func kindOf(ty cty.Type) string {
	switch {
	case ty == cty.String:
		return "string"
	case ty == cty.Number:
		return "number"
	case ty == cty.Bool:
		return "bool"
	case ty == cty.DynamicPseudoType:
		return "dynamic"
	case ty.IsListType():
		return "list"
	case ty.IsSetType():
		return "set"
	case ty.IsMapType():
		return "map"
	case ty.IsTupleType():
		return "tuple"
	case ty.IsObjectType():
		return "object"
	}
	return "other"
}

func isPrim(ty cty.Type) bool { return ty == cty.String || ty == cty.Number || ty == cty.Bool }

// int64Of: "int" in Appendix A = a whole number within int64.
func int64Of(v cty.Value) (int64, bool) {
	f := v.AsBigFloat()
	if f.IsInf() || !f.IsInt() {
		return 0, false
	}
	i, acc := f.Int64()
	if acc != big.Exact {
		return 0, false
	}
	return i, true
}

// members returns the elements of a known, non-null list, tuple or set in the
// documented iteration order. For a set the documented order covers only
// primitive element types (strings byte-wise, numbers ascending, false before
// true, nulls last); ordered=false says the order of what is returned means
// nothing.
func members(v cty.Value) (es []cty.Value, ordered bool) {
	es = append([]cty.Value(nil), v.AsValueSlice()...)
	ty := v.Type()
	if !ty.IsSetType() {
		return es, true
	}
	if len(es) <= 1 {
		return es, true
	}
	ety := ty.ElementType()
	if !isPrim(ety) {
		return es, false
	}
	sort.SliceStable(es, func(i, j int) bool { return primLess(ety, es[i], es[j]) })
	return es, true
}

func primLess(ety cty.Type, a, b cty.Value) bool {
	if a.IsNull() || b.IsNull() {
		return !a.IsNull() && b.IsNull()
	}
	switch ety {
	case cty.String:
		return bytes.Compare([]byte(a.AsString()), []byte(b.AsString())) < 0
	case cty.Number:
		return a.AsBigFloat().Cmp(b.AsBigFloat()) < 0
	case cty.Bool:
		return !a.True() && b.True()
	}
	return false
}

// entries returns the keys of a known, non-null map or object in byte-wise
// order together with the plain Go map.
func entries(v cty.Value) ([]string, map[string]cty.Value) {
	m := v.AsValueMap()
	if m == nil {
		m = map[string]cty.Value{}
	}
	ks := make([]string, 0, len(m))
	for k := range m {
		ks = append(ks, k)
	}
	sort.Slice(ks, func(i, j int) bool { return bytes.Compare([]byte(ks[i]), []byte(ks[j])) < 0 })
	return ks, m
}

// ---- putting values together --------------------------------------------------

func mkList(ety cty.Type, es []cty.Value) cty.Value {
	if len(es) == 0 {
		return cty.ListValEmpty(ety)
	}
	return cty.ListVal(es)
}

func mkSet(ety cty.Type, es []cty.Value) cty.Value {
	if len(es) == 0 {
		return cty.SetValEmpty(ety)
	}
	return cty.SetVal(es)
}

func mkMap(ety cty.Type, m map[string]cty.Value) cty.Value {
	if len(m) == 0 {
		return cty.MapValEmpty(ety)
	}
	return cty.MapVal(m)
}

func mkTuple(es []cty.Value) cty.Value {
	if len(es) == 0 {
		return cty.EmptyTupleVal
	}
	return cty.TupleVal(es)
}

func typesOf(es []cty.Value) []cty.Type {
	ts := make([]cty.Type, len(es))
	for i, e := range es {
		ts[i] = e.Type()
	}
	return ts
}

// partlyDynamic: a type with dynamic parts that is not the dynamic placeholder itself. Only empty collections have
// such (element) types. What "the unified type" of such a type and concrete ones is, and whether the empty
// collection converts to it, is the unification's and the conversions' business (C08 / C09) and nothing the
// function descriptions speak about: the references that unify argument types assert nothing there.
func partlyDynamic(t cty.Type) bool { return t != cty.DynamicPseudoType && t.HasDynamicTypes() }

// ---- the call protocol's documented part --------------------------------------

// anyNull: a null argument where the parameter does not allow null is outside
// the domain (function.Parameter.AllowNull doc).
func anyNull(a []cty.Value) bool {
	for _, v := range a {
		if v.IsNull() {
			return true
		}
	}
	return false
}

func pre(a []cty.Value, min, max int) (Ref, bool) {
	if len(a) < min || (max >= 0 && len(a) > max) {
		return bad("wrong number of arguments"), false
	}
	if anyNull(a) {
		return bad("null argument where null is not allowed"), false
	}
	return Ref{}, true
}

// ---- the functions ------------------------------------------------------------

func refLength(a []cty.Value) Ref {
	if r, ok := pre(a, 1, 1); !ok {
		return r
	}
	v := a[0]
	switch kindOf(v.Type()) {
	case "list", "set":
		return good(cty.NumberIntVal(int64(len(v.AsValueSlice())))).cl(kindOf(v.Type()))
	case "tuple":
		return good(cty.NumberIntVal(int64(len(v.Type().TupleElementTypes())))).cl("tuple")
	case "map":
		_, m := entries(v)
		return good(cty.NumberIntVal(int64(len(m)))).cl("map")
	}
	return bad("not a list, map, set or tuple")
}

// hasIndexModel: list/tuple keys are whole numbers in [0,len), map keys strings.
func hasIndexModel(a []cty.Value) (has bool, why string) {
	coll, key := a[0], a[1]
	switch kindOf(coll.Type()) {
	case "list", "tuple":
		if key.Type() != cty.Number {
			return false, ""
		}
		i, ok := int64Of(key)
		if !ok {
			return false, ""
		}
		return i >= 0 && i < int64(len(coll.AsValueSlice())), ""
	case "map":
		if key.Type() != cty.String {
			return false, ""
		}
		_, m := entries(coll)
		_, ok := m[key.AsString()]
		return ok, ""
	}
	return false, "collection is not a list, map or tuple"
}

func refHasIndex(a []cty.Value) Ref {
	if r, ok := pre(a, 2, 2); !ok {
		return r
	}
	has, why := hasIndexModel(a)
	if why != "" {
		return bad(why)
	}
	if has {
		return boolRef(true).cl(kindOf(a[0].Type()) + "-key-present")
	}
	return boolRef(false).cl(kindOf(a[0].Type()) + "-key-absent")
}

func refIndex(a []cty.Value) Ref {
	if r, ok := pre(a, 2, 2); !ok {
		return r
	}
	has, why := hasIndexModel(a)
	if why != "" {
		return bad(why)
	}
	if !has {
		return bad("no such index")
	}
	coll, key := a[0], a[1]
	if coll.Type().IsMapType() {
		_, m := entries(coll)
		return good(m[key.AsString()]).cl("map")
	}
	i, _ := int64Of(key)
	return good(coll.AsValueSlice()[i]).cl(kindOf(coll.Type()))
}

func refElement(a []cty.Value) Ref {
	if r, ok := pre(a, 2, 2); !ok {
		return r
	}
	if a[1].Type() != cty.Number {
		return bad("index is not a number")
	}
	k := kindOf(a[0].Type())
	if k != "list" && k != "tuple" {
		return bad("not a list or tuple")
	}
	i, ok := int64Of(a[1])
	if !ok {
		return bad("index is not a whole number within int64")
	}
	es := a[0].AsValueSlice()
	if len(es) == 0 {
		return bad("empty sequence")
	}
	// mathematical (non-negative) modulo
	j := new(big.Int).Mod(big.NewInt(i), big.NewInt(int64(len(es))))
	n := int64(len(es))
	switch {
	case i < 0:
		return good(es[j.Int64()]).cl("negative-index-wraps")
	case i >= n:
		return good(es[j.Int64()]).cl("index-beyond-length-wraps")
	}
	return good(es[j.Int64()]).cl("index-in-range")
}

func refLookup(a []cty.Value) Ref {
	if r, ok := pre(a, 3, 3); !ok {
		return r
	}
	if a[1].Type() != cty.String {
		return bad("key is not a string")
	}
	key := a[1].AsString()
	switch kindOf(a[0].Type()) {
	case "map":
		ety := a[0].Type().ElementType()
		if ety == cty.DynamicPseudoType {
			// only the empty map has this type: no key is present, and "converted to the element type" asks nothing of the default
			if len(a[0].AsValueMap()) == 0 {
				return good(a[2]).cl("empty-map-of-dynamic-default-as-given")
			}
		}
		if ety.HasDynamicTypes() {
			return skip("map element type has dynamic parts")
		}
		d, err := convert.Convert(a[2], ety)
		if err != nil {
			return bad("default is not convertible to the element type")
		}
		_, m := entries(a[0])
		if v, ok := m[key]; ok {
			return good(v).cl("map-key-present")
		}
		if !d.Type().Equals(a[2].Type()) {
			return good(d).cl("map-default-converted")
		}
		return good(d).cl("map-default")
	case "object":
		// Appendix A only: neither the description nor a table-test row mentions object arguments
		_, m := entries(a[0])
		if v, ok := m[key]; ok {
			return good(v).cl("object-attribute-present", "appendix-only")
		}
		return good(a[2]).cl("object-default-as-given", "appendix-only")
	}
	return bad("not a map or object")
}

func refContains(a []cty.Value) Ref {
	if r, ok := pre(a, 2, 2); !ok {
		return r
	}
	switch kindOf(a[0].Type()) {
	case "list", "tuple", "set":
	default:
		return bad("not a list, tuple or set")
	}
	otherType := false
	for _, e := range a[0].AsValueSlice() {
		if !e.Type().Equals(a[1].Type()) {
			otherType = true
			continue
		}
		if mon.ModelEqual(e, a[1]) {
			return boolRef(true).cl("found")
		}
	}
	if len(a[0].AsValueSlice()) == 0 {
		return boolRef(false).cl("empty-collection")
	}
	if otherType {
		return boolRef(false).cl("elements-of-another-type-never-match")
	}
	return boolRef(false).cl("not-found")
}

func refKeys(a []cty.Value) Ref {
	if r, ok := pre(a, 1, 1); !ok {
		return r
	}
	k := kindOf(a[0].Type())
	if k != "map" && k != "object" {
		return bad("not a map or object")
	}
	ks, _ := entries(a[0])
	out := make([]cty.Value, len(ks))
	for i, s := range ks {
		out[i] = cty.StringVal(s)
	}
	if k == "map" {
		return good(mkList(cty.String, out)).cl("map-list-of-string")
	}
	return good(mkTuple(out)).cl("object-tuple-of-string")
}

func refValues(a []cty.Value) Ref {
	if r, ok := pre(a, 1, 1); !ok {
		return r
	}
	k := kindOf(a[0].Type())
	if k != "map" && k != "object" {
		return bad("not a map or object")
	}
	ks, m := entries(a[0])
	out := make([]cty.Value, len(ks))
	for i, s := range ks {
		out[i] = m[s]
	}
	if k == "map" {
		return good(mkList(a[0].Type().ElementType(), out)).cl("map-list")
	}
	return good(mkTuple(out)).cl("object-tuple")
}

func refMerge(a []cty.Value) Ref {
	if len(a) == 0 {
		return good(cty.EmptyObjectVal)
	}
	allSameMap := true
	for _, v := range a {
		k := kindOf(v.Type())
		if k == "dynamic" && v.IsNull() {
			return skip("null of dynamic type: acceptance not documented")
		}
		if k != "map" && k != "object" {
			return bad("argument is not a map or object")
		}
		if k != "map" || !v.Type().Equals(a[0].Type()) {
			allSameMap = false
		}
	}
	merged := map[string]cty.Value{}
	var cls []string
	nonNull := 0
	for _, v := range a {
		if v.IsNull() {
			cls = append(cls, "null-argument-skipped")
			continue // null arguments are skipped
		}
		nonNull++
		_, m := entries(v)
		for k, e := range m {
			if _, dup := merged[k]; dup {
				cls = append(cls, "later-wins")
			}
			merged[k] = e // later wins
		}
	}
	if nonNull == 0 {
		cls = append(cls, "all-null")
	}
	if allSameMap {
		return good(mkMap(a[0].Type().ElementType(), merged)).cl(cls...).cl("one-map-type-stays-map")
	}
	if len(merged) == 0 {
		return good(cty.EmptyObjectVal).cl(cls...).cl("object-result")
	}
	return good(cty.ObjectVal(merged)).cl(cls...).cl("object-result")
}

func refConcat(a []cty.Value) Ref {
	if r, ok := pre(a, 1, -1); !ok {
		return r
	}
	allLists := true
	var all []cty.Value
	var etys []cty.Type
	for _, v := range a {
		switch kindOf(v.Type()) {
		case "list":
			etys = append(etys, v.Type().ElementType())
		case "tuple":
			allLists = false
		default:
			return bad("argument is not a list or tuple")
		}
		all = append(all, v.AsValueSlice()...)
	}
	if allLists {
		for _, e := range etys {
			if partlyDynamic(e) {
				return skip("an argument's element type has dynamic parts inside")
			}
		}
		ety, _ := convert.UnifyUnsafe(etys)
		if ety != cty.NilType {
			if ety.HasDynamicTypes() {
				return skip("unified element type has dynamic parts")
			}
			out := make([]cty.Value, len(all))
			for i, e := range all {
				c, err := convert.Convert(e, ety)
				if err != nil {
					return bad("element not convertible to the unified element type")
				}
				out[i] = c
			}
			same := true
			for _, t := range etys {
				if !t.Equals(ety) {
					same = false
				}
			}
			if same {
				return good(mkList(ety, out)).cl("lists-of-one-type")
			}
			return good(mkList(ety, out)).cl("lists-unified")
		}
		return good(mkTuple(all)).cl("lists-not-unifiable-tuple")
	}
	return good(mkTuple(all)).cl("tuple-result")
}

func flattenInto(v cty.Value, out *[]cty.Value, ordered *bool, cls *[]string) {
	es, ord := members(v)
	if !ord {
		*ordered = false
	}
	if v.Type().IsSetType() {
		*cls = append(*cls, "set-traversed")
	}
	for _, e := range es {
		k := kindOf(e.Type())
		seq := k == "list" || k == "set" || k == "tuple"
		if !e.IsNull() && seq {
			*cls = append(*cls, "nested-sequence-spliced")
			flattenInto(e, out, ordered, cls)
		} else {
			if seq {
				*cls = append(*cls, "null-sequence-kept-as-element")
			}
			*out = append(*out, e)
		}
	}
}

func refFlatten(a []cty.Value) Ref {
	if r, ok := pre(a, 1, 1); !ok {
		return r
	}
	switch kindOf(a[0].Type()) {
	case "list", "set", "tuple":
	default:
		return bad("not a list, set or tuple")
	}
	var out []cty.Value
	ordered := true
	var cls []string
	flattenInto(a[0], &out, &ordered, &cls)
	return good(mkTuple(out)).freeIf(!ordered).cl(cls...)
}

func refSlice(a []cty.Value) Ref {
	if r, ok := pre(a, 3, 3); !ok {
		return r
	}
	if a[1].Type() != cty.Number || a[2].Type() != cty.Number {
		return bad("index is not a number")
	}
	k := kindOf(a[0].Type())
	if k != "list" && k != "tuple" {
		return bad("not a list or tuple")
	}
	s, ok1 := int64Of(a[1])
	e, ok2 := int64Of(a[2])
	if !ok1 || !ok2 {
		return bad("index is not a whole number within int64")
	}
	es := a[0].AsValueSlice()
	if !(0 <= s && s <= e && e <= int64(len(es))) {
		return bad("indices outside 0 <= start <= end <= len")
	}
	sub := append([]cty.Value(nil), es[s:e]...)
	c := "proper-subslice"
	switch {
	case s == e:
		c = "empty-slice"
	case s == 0 && e == int64(len(es)):
		c = "whole-sequence"
	}
	if k == "list" {
		return good(mkList(a[0].Type().ElementType(), sub)).cl(c)
	}
	return good(mkTuple(sub)).cl(c)
}

func refChunklist(a []cty.Value) Ref {
	if r, ok := pre(a, 2, 2); !ok {
		return r
	}
	if !a[0].Type().IsListType() {
		return bad("not a list")
	}
	if a[1].Type() != cty.Number {
		return bad("size is not a number")
	}
	n, ok := int64Of(a[1])
	if !ok || n < 0 {
		return bad("size is not a whole number >= 0")
	}
	lty := a[0].Type()
	es := a[0].AsValueSlice()
	if len(es) == 0 {
		return good(cty.ListValEmpty(lty)).cl("empty-list")
	}
	if n == 0 {
		return good(cty.ListVal([]cty.Value{a[0]})).cl("size-zero-one-chunk")
	}
	var chunks []cty.Value
	for i := int64(0); i < int64(len(es)); i += n {
		j := i + n
		if j > int64(len(es)) || j < i {
			j = int64(len(es))
		}
		chunks = append(chunks, cty.ListVal(append([]cty.Value(nil), es[i:j]...)))
		if j == int64(len(es)) {
			break
		}
	}
	if int64(len(es))%n == 0 {
		return good(cty.ListVal(chunks)).cl("all-chunks-full")
	}
	return good(cty.ListVal(chunks)).cl("last-chunk-shorter")
}

func refDistinct(a []cty.Value) Ref {
	if r, ok := pre(a, 1, 1); !ok {
		return r
	}
	if !a[0].Type().IsListType() {
		return bad("not a list")
	}
	var out []cty.Value
outer:
	for _, e := range a[0].AsValueSlice() {
		for _, x := range out {
			if mon.ModelEqual(x, e) {
				continue outer
			}
		}
		out = append(out, e)
	}
	if len(out) != len(a[0].AsValueSlice()) {
		return good(mkList(a[0].Type().ElementType(), out)).cl("duplicates-removed")
	}
	return good(mkList(a[0].Type().ElementType(), out)).cl("already-distinct")
}

func refCompact(a []cty.Value) Ref {
	if r, ok := pre(a, 1, 1); !ok {
		return r
	}
	if !a[0].Type().Equals(cty.List(cty.String)) {
		return bad("not a list of string")
	}
	var out []cty.Value
	var cls []string
	for _, e := range a[0].AsValueSlice() {
		if e.IsNull() {
			// Appendix A only: the description speaks of empty strings; no table test exists for compact
			cls = append(cls, "null-dropped", "appendix-only")
			continue
		}
		if e.AsString() == "" {
			cls = append(cls, "empty-string-dropped")
			continue
		}
		out = append(out, e)
	}
	return good(mkList(cty.String, out)).cl(cls...)
}

func refReverse(a []cty.Value) Ref {
	if r, ok := pre(a, 1, 1); !ok {
		return r
	}
	k := kindOf(a[0].Type())
	if k != "list" && k != "set" && k != "tuple" {
		return bad("not a list, set or tuple")
	}
	es, ordered := members(a[0])
	out := make([]cty.Value, len(es))
	for i, e := range es {
		out[len(es)-1-i] = e
	}
	if k == "tuple" {
		return good(mkTuple(out)).cl("tuple")
	}
	if k == "set" {
		return good(mkList(a[0].Type().ElementType(), out)).freeIf(!ordered).cl("set-reversed-canonical-order")
	}
	return good(mkList(a[0].Type().ElementType(), out)).cl("list")
}

func refSort(a []cty.Value) Ref {
	if r, ok := pre(a, 1, 1); !ok {
		return r
	}
	if !a[0].Type().Equals(cty.List(cty.String)) {
		return bad("not a list of string")
	}
	var ss [][]byte
	for _, e := range a[0].AsValueSlice() {
		if e.IsNull() {
			return bad("null element")
		}
		ss = append(ss, []byte(e.AsString()))
	}
	// insertion sort, byte-wise ascending
	for i := 1; i < len(ss); i++ {
		for j := i; j > 0 && bytes.Compare(ss[j-1], ss[j]) > 0; j-- {
			ss[j-1], ss[j] = ss[j], ss[j-1]
		}
	}
	out := make([]cty.Value, len(ss))
	moved := false
	for i, s := range ss {
		out[i] = cty.StringVal(string(s))
		if !bytes.Equal(s, []byte(a[0].AsValueSlice()[i].AsString())) {
			moved = true
		}
	}
	if moved {
		return good(mkList(cty.String, out)).cl("order-changed")
	}
	return good(mkList(cty.String, out)).cl("already-sorted")
}

func refZipmap(a []cty.Value) Ref {
	if r, ok := pre(a, 2, 2); !ok {
		return r
	}
	if !a[0].Type().Equals(cty.List(cty.String)) {
		return bad("keys is not a list of string")
	}
	k := kindOf(a[1].Type())
	if k != "list" && k != "tuple" {
		return bad("values is not a list or tuple")
	}
	ks, vs := a[0].AsValueSlice(), a[1].AsValueSlice()
	if len(ks) != len(vs) {
		return bad("lengths differ")
	}
	m := map[string]cty.Value{}
	var cls []string
	for i, kv := range ks {
		if kv.IsNull() {
			return bad("null key")
		}
		if _, dup := m[kv.AsString()]; dup {
			// Appendix A only: the description does not say which of several values a repeated key gets; no table-test row has one
			cls = append(cls, "duplicate-key-last-wins", "appendix-only")
		}
		m[kv.AsString()] = vs[i] // last wins
	}
	if k == "list" {
		return good(mkMap(a[1].Type().ElementType(), m)).cl(cls...).cl("map-result")
	}
	if len(m) == 0 {
		return good(cty.EmptyObjectVal).cl("object-result")
	}
	return good(cty.ObjectVal(m)).cl(cls...).cl("object-result")
}

func ratOf(v cty.Value) (*big.Rat, bool) {
	f := v.AsBigFloat()
	if f.IsInf() {
		return nil, false
	}
	r, _ := f.Rat(nil)
	return r, r != nil
}

// docEqualNums is model.NumEqualDoc(a, b) for finite a, b with cmp = a.Cmp(b), without producing the decimal
// texts where the answer is plain: numbers of one precision have the same shortest text exactly when they are
// the same number, whole numbers are compared as integers, and two texts can only coincide when the values are
// within an ulp of the coarser precision (24 bits at least here) of each other.
func docEqualNums(a, b *big.Float, cmp int) bool {
	if a.Prec() == b.Prec() || a.IsInt() || b.IsInt() {
		return cmp == 0 && a.IsInt() == b.IsInt()
	}
	if cmp != 0 && a.Prec() >= 24 && b.Prec() >= 24 {
		fa, _ := a.Float64()
		fb, _ := b.Float64()
		if d := math.Abs(fa - fb); !math.IsInf(fa, 0) && !math.IsInf(fb, 0) && fa != 0 && fb != 0 && d > 1e-4*math.Abs(fb) {
			return false
		}
	}
	return model.NumEqualDoc(a, b)
}

// intFloat is the number an integer literal stands for (what cty.NumberIntVal builds: 64 bits of mantissa).
func intFloat(i int64) *big.Float { return new(big.Float).SetInt64(i) }

// refRange follows the documented wording literally: "starting from the given
// starting value, then adding the given step value until the result is greater
// than or equal to the given stopping value; each intermediate result becomes
// an element". Adding two cty numbers is adding two big.Floats (result
// precision = the larger of the operands' precisions, round to nearest even;
// trusted base, C02/C14's subject), so element k is the k-fold RUNNING sum,
// which for a step that is not a short binary fraction differs from
// start + k*step computed in one go, in the values and sometimes in the count.
// Whenever no sum rounds, the closed form over exact rationals must give the
// same list (checked here; a difference is a harness fault).
func refRange(a []cty.Value) Ref {
	if r, ok := pre(a, 1, 3); !ok {
		return r
	}
	fs := make([]*big.Float, len(a))
	for i, v := range a {
		if v.Type() != cty.Number {
			return bad("argument is not a number")
		}
		f := v.AsBigFloat()
		if f.IsInf() {
			return skip("infinite argument: nothing documented")
		}
		fs[i] = f
	}
	var start, end, step *big.Float
	implicit := len(fs) < 3
	switch len(fs) {
	case 1:
		start, end = intFloat(0), fs[0]
		step = intFloat(1)
		if end.Sign() < 0 {
			step = intFloat(-1)
		}
	case 2:
		start, end = fs[0], fs[1]
		step = intFloat(1)
		if end.Cmp(start) < 0 {
			step = intFloat(-1)
		}
	case 3:
		start, end, step = fs[0], fs[1], fs[2]
		if step.Sign() == 0 {
			return bad("step is zero")
		}
		if step.Sign() > 0 && end.Cmp(start) < 0 {
			return bad("end before start with a positive step")
		}
		if step.Sign() < 0 && end.Cmp(start) > 0 {
			return bad("end after start with a negative step")
		}
	}
	down := step.Sign() < 0
	var sums []*big.Float
	exact := true
	for num := start; ; {
		cmp := num.Cmp(end)
		if (cmp == 0) != docEqualNums(num, end, cmp) {
			// "greater than or equal" is decided by the library with cty's own operators, whose "equal" is the
			// documented number equality (shortest decimal text at each operand's own precision), not equality of
			// the exact values: a rounded sum can be "equal" to an end it has not reached, and the same exact value
			// held at two precisions can be "unequal". Which of the two the wording means is not documented.
			return skip("a running sum and the end are equal under one of exact / documented number equality only")
		}
		if down && cmp <= 0 || !down && cmp >= 0 {
			break
		}
		if len(sums) >= 1024 {
			return bad("more than 1024 elements")
		}
		sums = append(sums, num)
		next := new(big.Float).Add(num, step) // precision 0: takes the larger of the operands' precisions
		if next.Acc() != big.Exact {
			exact = false
		}
		num = next
	}
	if !exact && implicit {
		return skip("a running sum rounds with the implicit step: the precision of the implicit operands is not documented")
	}
	if exact {
		// closed form: the k >= 0 with start + k*step strictly before end are 0 .. ceil((end-start)/step)-1
		rs, _ := start.Rat(nil)
		re, _ := end.Rat(nil)
		rp, _ := step.Rat(nil)
		q := new(big.Rat).Quo(new(big.Rat).Sub(re, rs), rp)
		cnt := new(big.Int).Quo(q.Num(), q.Denom()) // truncates toward zero; q >= 0 here
		if new(big.Rat).SetInt(cnt).Cmp(q) < 0 {
			cnt.Add(cnt, big.NewInt(1))
		}
		if !cnt.IsInt64() || cnt.Int64() != int64(len(sums)) {
			panic("refRange: exact running sums and the closed form disagree on the element count")
		}
		for k, x := range sums {
			want := new(big.Rat).Add(rs, new(big.Rat).Mul(big.NewRat(int64(k), 1), rp))
			if xr, _ := x.Rat(nil); xr.Cmp(want) != 0 {
				panic("refRange: exact running sums and the closed form disagree on an element")
			}
		}
	}
	n := len(sums)
	out := make([]cty.Value, n)
	for k, x := range sums {
		out[k] = cty.NumberVal(x)
	}
	cl := "ascending"
	switch {
	case n == 0:
		cl = "empty"
	case down:
		cl = "descending"
	}
	r := good(mkList(cty.Number, out)).cl(cl)
	r.ExactNums = true
	if !step.IsInt() || !start.IsInt() {
		r = r.cl("fractional")
	}
	if !exact {
		r = r.cl("running-sums-rounded")
	}
	if n == 1024 {
		r = r.cl("exactly-1024")
	}
	return r
}

func refCoalesce(a []cty.Value) Ref {
	if len(a) == 0 {
		return bad("no arguments")
	}
	for _, t := range typesOf(a) {
		if partlyDynamic(t) {
			return skip("an argument's type has dynamic parts inside")
		}
	}
	ty, _ := convert.UnifyUnsafe(typesOf(a))
	if ty == cty.NilType {
		return bad("argument types cannot be unified")
	}
	for i, v := range a {
		if v.IsNull() {
			continue
		}
		c, err := convert.Convert(v, ty)
		if err != nil {
			return bad("first non-null argument not convertible to the unified type")
		}
		r := good(c)
		if i > 0 {
			r = r.cl("leading-nulls-skipped")
		}
		if !c.Type().Equals(v.Type()) {
			r = r.cl("converted-to-unified-type")
		}
		return r
	}
	return bad("no non-null argument")
}

func refCoalesceList(a []cty.Value) Ref {
	if len(a) == 0 {
		return bad("no arguments")
	}
	for _, v := range a {
		k := kindOf(v.Type())
		if k == "dynamic" && v.IsNull() {
			return skip("null of dynamic type: acceptance not documented")
		}
		if k != "list" && k != "tuple" {
			return bad("argument is not a list or tuple")
		}
	}
	var cls []string
	for _, v := range a {
		if v.IsNull() {
			cls = append(cls, "null-skipped")
			continue
		}
		if len(v.AsValueSlice()) > 0 {
			return good(v).cl(cls...)
		}
		cls = append(cls, "empty-skipped")
	}
	return bad("no non-empty argument")
}

func refSetProduct(a []cty.Value) Ref {
	if r, ok := pre(a, 2, -1); !ok {
		return r
	}
	etys := make([]cty.Type, len(a))
	cols := make([][]cty.Value, len(a))
	allSeq := true
	for i, v := range a {
		switch kindOf(v.Type()) {
		case "list":
			etys[i] = v.Type().ElementType()
		case "set":
			etys[i] = v.Type().ElementType()
			allSeq = false
		case "tuple":
			ts := v.Type().TupleElementTypes()
			if len(ts) == 0 {
				etys[i] = cty.DynamicPseudoType
			} else {
				u, _ := convert.UnifyUnsafe(ts)
				if u == cty.NilType {
					return bad("tuple elements cannot be unified")
				}
				etys[i] = u
			}
		default:
			return bad("argument is not a list, set or tuple")
		}
		cols[i] = v.AsValueSlice()
	}
	tty := cty.Tuple(etys)
	total := 1
	for _, c := range cols {
		total *= len(c)
	}
	mk := func(es []cty.Value) cty.Value {
		if allSeq {
			return mkList(tty, es)
		}
		return mkSet(tty, es)
	}
	resKind := "set-result"
	if allSeq {
		resKind = "list-result-odometer-order"
	}
	if total == 0 {
		return good(mk(nil)).cl("empty-argument", resKind)
	}
	if tty.HasDynamicTypes() {
		return skip("element type has dynamic parts")
	}
	// odometer: the LAST argument varies fastest
	var out []cty.Value
	idx := make([]int, len(cols))
	for {
		tup := make([]cty.Value, len(cols))
		for j, c := range cols {
			e, err := convert.Convert(c[idx[j]], etys[j])
			if err != nil {
				return bad("element not convertible to the unified element type")
			}
			tup[j] = e
		}
		out = append(out, cty.TupleVal(tup))
		j := len(idx) - 1
		for ; j >= 0; j-- {
			idx[j]++
			if idx[j] < len(cols[j]) {
				break
			}
			idx[j] = 0
		}
		if j < 0 {
			break
		}
	}
	return good(mk(out)).cl(resKind)
}

// setArgs unifies the element types (empty set(dynamic) arguments do not
// constrain the type) and converts every member to the unified type.
func setArgs(a []cty.Value) (ety cty.Type, sets [][]cty.Value, r Ref, ok bool) {
	var etys []cty.Type
	for _, v := range a {
		if !v.Type().IsSetType() {
			return cty.NilType, nil, bad("argument is not a set"), false
		}
		e := v.Type().ElementType()
		if e == cty.DynamicPseudoType && len(v.AsValueSlice()) == 0 {
			continue
		}
		etys = append(etys, e)
	}
	for _, e := range etys {
		if partlyDynamic(e) {
			return cty.NilType, nil, skip("an argument's element type has dynamic parts inside"), false
		}
	}
	if len(etys) == 0 {
		ety = cty.DynamicPseudoType
	} else {
		ety, _ = convert.UnifyUnsafe(etys)
		if ety == cty.NilType {
			return cty.NilType, nil, bad("element types cannot be unified"), false
		}
		if ety.HasDynamicTypes() {
			return cty.NilType, nil, skip("unified element type has dynamic parts"), false
		}
	}
	for _, v := range a {
		var s []cty.Value
		for _, e := range v.AsValueSlice() {
			c, err := convert.Convert(e, ety)
			if err != nil {
				return cty.NilType, nil, bad("member not convertible to the unified element type"), false
			}
			s = addMember(s, c)
		}
		sets = append(sets, s)
	}
	return ety, sets, Ref{}, true
}

func hasMember(s []cty.Value, e cty.Value) bool {
	for _, x := range s {
		if mon.ModelEqual(x, e) {
			return true
		}
	}
	return false
}

func addMember(s []cty.Value, e cty.Value) []cty.Value {
	if hasMember(s, e) {
		return s
	}
	return append(s, e)
}

func refSetOp(op string) func(a []cty.Value) Ref {
	return func(a []cty.Value) Ref {
		max := -1
		min := 1
		if op == "subtract" {
			min, max = 2, 2
		}
		if r, ok := pre(a, min, max); !ok {
			return r
		}
		ety, sets, r, ok := setArgs(a)
		if !ok {
			return r
		}
		acc := sets[0]
		for _, s := range sets[1:] {
			var next []cty.Value
			switch op {
			case "union":
				next = append(next, acc...)
				for _, e := range s {
					next = addMember(next, e)
				}
			case "intersection":
				for _, e := range acc {
					if hasMember(s, e) {
						next = append(next, e)
					}
				}
			case "subtract":
				for _, e := range acc {
					if !hasMember(s, e) {
						next = append(next, e)
					}
				}
			case "symdiff":
				for _, e := range acc {
					if !hasMember(s, e) {
						next = append(next, e)
					}
				}
				for _, e := range s {
					if !hasMember(acc, e) {
						next = append(next, e)
					}
				}
			}
			acc = next
		}
		r = good(mkSet(ety, acc))
		if len(a) > 2 {
			r = r.cl("left-fold-of-more-than-two")
		}
		for _, v := range a {
			if !v.Type().ElementType().Equals(ety) {
				r = r.cl("element-types-unified")
				break
			}
		}
		if len(acc) == 0 {
			r = r.cl("empty-result")
		}
		return r
	}
}

func refSetHasElement(a []cty.Value) Ref {
	if r, ok := pre(a, 2, 2); !ok {
		return r
	}
	if !a[0].Type().IsSetType() {
		return bad("not a set")
	}
	// (dynamic parts in the element type are asserted too since F-153: the arguments are wholly known, so a type
	// that differs is a value that differs, and a set(dynamic) can only hold untyped nulls)
	if !a[0].Type().ElementType().Equals(a[1].Type()) {
		return boolRef(false).cl("element-of-another-type")
	}
	for _, e := range a[0].AsValueSlice() {
		if mon.ModelEqual(e, a[1]) {
			return boolRef(true).cl("member")
		}
	}
	return boolRef(false).cl("not-a-member")
}
