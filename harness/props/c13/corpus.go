package c13

// Fixed, seed-independent part of the C13 check (runs in batch 0 of every run):
//
//  1. corpus(): boundary cases written from reading the code, rows TRANSCRIBED by
//     hand from the table tests of cty/function/stdlib (only their wholly known,
//     unmarked rows; nothing is imported from the test files), and the witness of
//     every genuine defect this driver found. A row with an expectation is a
//     calibration fixture: the REFERENCE is checked against it as well as the
//     library, so a wrong reference cannot hide behind agreement with the code.
//  2. enumerate(): small sub-spaces enumerated completely (index arithmetic of
//     element / slice / chunklist / index / hasindex, range on a half-unit grid,
//     set algebra over all subsets of a 3-element universe, setproduct over all
//     small argument shapes).

import (
	"fmt"
	"math"
	"math/big"

	"github.com/zclconf/go-cty/cty"

	"verif/harness/core"
)

// short constructors
func nI(i int64) cty.Value         { return cty.NumberIntVal(i) }
func nF(f float64) cty.Value       { return cty.NumberFloatVal(f) }
func nP(s string) cty.Value        { return cty.MustParseNumberVal(s) }
func sV(s string) cty.Value        { return cty.StringVal(s) }
func lV(v ...cty.Value) cty.Value  { return cty.ListVal(v) }
func tV(v ...cty.Value) cty.Value  { return mkTuple(v) }
func stV(v ...cty.Value) cty.Value { return cty.SetVal(v) }
func mV(kv ...any) cty.Value       { return cty.MapVal(kvs(kv)) }
func oV(kv ...any) cty.Value       { return cty.ObjectVal(kvs(kv)) }
func strs(ss ...string) []cty.Value {
	out := make([]cty.Value, len(ss))
	for i, s := range ss {
		out[i] = sV(s)
	}
	return out
}
func ints(is ...int64) []cty.Value {
	out := make([]cty.Value, len(is))
	for i, n := range is {
		out[i] = nI(n)
	}
	return out
}
func kvs(kv []any) map[string]cty.Value {
	m := map[string]cty.Value{}
	for i := 0; i+1 < len(kv); i += 2 {
		m[kv[i].(string)] = kv[i+1].(cty.Value)
	}
	return m
}

type corpusCase struct {
	fn   string
	args []cty.Value
	fx   *fixture // nil: reference only
}

func want(v cty.Value) *fixture { return &fixture{want: v} }

var fails = &fixture{err: true}

func cc(fn string, fx *fixture, args ...cty.Value) corpusCase {
	return corpusCase{fn: fn, args: args, fx: fx}
}

func corpus() []corpusCase {
	the4 := lV(strs("the", "quick", "brown", "fox")...)
	int4 := lV(ints(1, 2, 3, 4)...)
	tup4 := tV(sV("the"), sV("quick"), sV("brown"), cty.False)
	abc := lV(strs("a", "b", "c")...)
	objT := cty.Object(map[string]cty.Type{"a": cty.String, "c": cty.Bool})
	var c []corpusCase
	add := func(x ...corpusCase) { c = append(c, x...) }

	// ---- element (rows of TestElement) ----
	add(
		cc("element", want(sV("brown")), the4, nI(2)),
		cc("element", want(sV("quick")), the4, nI(5)),
		cc("element", want(sV("fox")), the4, nI(-1)),
		cc("element", want(sV("brown")), the4, nI(-6)),
		cc("element", want(sV("the")), the4, nI(math.MinInt64)),
		cc("element", want(sV("fox")), the4, nI(math.MaxInt64)),
		cc("element", want(the4), lV(the4, the4), nI(0)),
		cc("element", want(nI(3)), int4, nI(2)),
		cc("element", fails, the4, sV("brown")),
		cc("element", fails, the4, nF(0.5)),
		cc("element", fails, the4, nP("-9223372036854775809")),
		cc("element", fails, the4, nP("9223372036854775808")),
		cc("element", want(sV("the")), tup4, nI(0)),
		cc("element", want(cty.False), tup4, nI(3)),
		cc("element", want(sV("the")), tup4, nI(4)),
		cc("element", want(sV("brown")), tup4, nI(10)),
		cc("element", want(cty.False), tup4, nI(-1)),
		cc("element", want(sV("brown")), tup4, nI(-6)),
		// boundary cases from reading the code
		cc("element", fails, cty.ListValEmpty(cty.String), nI(0)),
		cc("element", fails, cty.EmptyTupleVal, nI(0)),
		cc("element", fails, stV(strs("a")...), nI(0)),
		cc("element", fails, mV("a", sV("x")), nI(0)),
		cc("element", want(sV("a")), abc, nI(-3)),
		cc("element", want(sV("c")), abc, nI(-4)),
		cc("element", want(sV("a")), abc, nF(3)),
		cc("element", want(sV("b")), abc, nP("4")),
		cc("element", want(cty.NullVal(cty.String)), lV(sV("a"), cty.NullVal(cty.String)), nI(-1)),
		cc("element", fails, abc, cty.PositiveInfinity),
		cc("element", fails, abc, cty.NullVal(cty.Number)),
		cc("element", fails, cty.NullVal(cty.List(cty.String)), nI(0)),
	)

	// ---- hasindex / index (TestHasIndex, TestIndex) ----
	ab := lV(strs("a", "b")...)
	for _, x := range []struct {
		coll, key cty.Value
		has       bool
		elem      cty.Value
	}{
		{ab, nI(0), true, sV("a")}, {ab, nI(1), true, sV("b")}, {ab, nI(2), false, cty.NilVal}, {ab, nI(-1), false, cty.NilVal},
		{ab, nF(0.5), false, cty.NilVal}, {cty.ListValEmpty(cty.Number), nI(0), false, cty.NilVal},
		{mV("a", sV("x")), sV("a"), true, sV("x")}, {mV("a", sV("x")), sV("b"), false, cty.NilVal}, {cty.MapValEmpty(cty.Bool), sV("a"), false, cty.NilVal},
		{tV(sV("a"), cty.True), nI(1), true, cty.True}, {tV(sV("a"), cty.True), nI(2), false, cty.NilVal}, {cty.EmptyTupleVal, nI(0), false, cty.NilVal},
		{ab, nP("18446744073709551616"), false, cty.NilVal}, {ab, nF(1), true, sV("b")},
	} {
		add(cc("hasindex", want(cty.BoolVal(x.has)), x.coll, x.key))
		if x.has {
			add(cc("index", want(x.elem), x.coll, x.key))
		} else {
			add(cc("index", fails, x.coll, x.key))
		}
	}
	add(
		cc("hasindex", fails, stV(strs("a")...), nI(0)),
		cc("hasindex", fails, oV("a", sV("x")), sV("a")),
		cc("hasindex", fails, sV("abc"), nI(0)),
		cc("index", fails, stV(strs("a")...), nI(0)),
		cc("index", fails, oV("a", sV("x")), sV("a")),
		cc("index", fails, ab, sV("0")),
		cc("index", fails, mV("0", sV("x")), nI(0)),
		cc("hasindex", want(cty.False), ab, sV("0")),
		cc("hasindex", want(cty.False), mV("0", sV("x")), nI(0)),
		cc("hasindex", fails, ab, cty.NullVal(cty.Number)),
		cc("hasindex", fails, cty.NullVal(cty.List(cty.String)), nI(0)),
	)

	// ---- length (TestLength) ----
	add(
		cc("length", want(nI(0)), cty.ListValEmpty(cty.Number)),
		cc("length", want(nI(1)), lV(cty.True)),
		cc("length", want(nI(0)), cty.SetValEmpty(cty.Number)),
		cc("length", want(nI(1)), stV(cty.True)),
		cc("length", want(nI(0)), cty.MapValEmpty(cty.Bool)),
		cc("length", want(nI(1)), mV("hello", cty.True)),
		cc("length", want(nI(0)), cty.EmptyTupleVal),
		cc("length", want(nI(1)), tV(cty.True)),
		cc("length", want(nI(2)), tV(cty.True, cty.NullVal(cty.String))),
		cc("length", want(nI(2)), stV(nI(2), nP("2"), nF(0.5))), // equal numbers are one member
		cc("length", fails, oV("a", cty.True)),
		cc("length", fails, cty.EmptyObjectVal),
		cc("length", fails, sV("hello")),
		cc("length", fails, cty.NullVal(cty.List(cty.String))),
		cc("length", fails),
		cc("length", fails, ab, ab),
	)

	// ---- lookup (TestLookup) ----
	add(
		cc("lookup", want(sV("foo")), cty.MapValEmpty(cty.String), sV("baz"), sV("foo")),
		cc("lookup", want(sV("bar")), mV("foo", sV("bar")), sV("foo"), sV("nope")),
		cc("lookup", want(sV("5")), mV("boop", sV("beep"), "frob", sV("honk")), sV("squish"), nI(5)),
		cc("lookup", want(sV("beep")), mV("boop", sV("beep")), sV("boop"), nI(5)),
		cc("lookup", fails, mV("boop", nI(1)), sV("squish"), sV("not a number")),
		cc("lookup", fails, mV("boop", nI(1)), sV("boop"), lV(nI(1))),
		cc("lookup", want(nI(7)), mV("boop", nI(1)), sV("x"), sV("7")),
		cc("lookup", want(cty.NullVal(cty.String)), mV("a", cty.NullVal(cty.String)), sV("a"), sV("d")),
		cc("lookup", nil, oV("a", sV("x"), "b", nI(1)), sV("b"), sV("d")),
		cc("lookup", nil, oV("a", sV("x"), "b", nI(1)), sV("z"), lV(cty.True)),
		cc("lookup", nil, cty.EmptyObjectVal, sV("z"), nI(1)),
		cc("lookup", fails, lV(sV("a")), sV("0"), sV("d")),
		cc("lookup", fails, mV("a", sV("x")), nI(0), sV("d")),
		cc("lookup", fails, mV("a", sV("x")), sV("a"), cty.NullVal(cty.String)),
		cc("lookup", fails, mV("a", sV("x")), sV("a")),
	)

	// ---- contains (TestContains) ----
	add(
		cc("contains", want(cty.True), the4, sV("the")),
		cc("contains", want(cty.False), the4, sV("penguin")),
		cc("contains", want(cty.True), int4, nI(1)),
		cc("contains", want(cty.False), int4, nI(42)),
		cc("contains", want(cty.False), int4, sV("1")),
		cc("contains", want(cty.True), stV(strs("quick", "brown", "fox")...), sV("quick")),
		cc("contains", want(cty.True), tV(sV("quick"), sV("brown"), nI(3)), nI(3)),
		cc("contains", want(cty.False), tV(sV("quick"), sV("brown"), nI(3)), sV("3")),
		cc("contains", want(cty.False), cty.ListValEmpty(cty.String), sV("a")),
		cc("contains", want(cty.False), cty.EmptyTupleVal, sV("a")),
		cc("contains", want(cty.True), lV(nI(2)), nP("2")),
		cc("contains", want(cty.True), lV(lV(sV("a")), lV(sV("b"))), lV(sV("b"))),
		cc("contains", want(cty.False), lV(sV("a"), cty.NullVal(cty.String)), sV("b")),
		cc("contains", fails, mV("a", sV("x")), sV("x")),
		cc("contains", fails, sV("abc"), sV("a")),
		cc("contains", fails, the4, cty.NullVal(cty.String)),
		cc("contains", fails, cty.NullVal(cty.List(cty.String)), sV("a")),
	)

	// empty collections of every element type, cty.DynamicPseudoType included (what an empty collection made from
	// untyped input is): no member equals anything
	for _, e := range []cty.Value{cty.ListValEmpty(cty.DynamicPseudoType), cty.SetValEmpty(cty.DynamicPseudoType), cty.SetValEmpty(cty.String),
		cty.SetValEmpty(cty.EmptyObject), cty.ListValEmpty(cty.List(cty.DynamicPseudoType)), cty.SetValEmpty(cty.List(cty.DynamicPseudoType)),
		cty.SetValEmpty(cty.Object(map[string]cty.Type{"a": cty.DynamicPseudoType}))} {
		for _, needle := range []cty.Value{sV("a"), nI(1), cty.True, cty.EmptyObjectVal, lV(sV("a")), cty.EmptyTupleVal, cty.ListValEmpty(cty.DynamicPseudoType)} {
			add(cc("contains", want(cty.False), e, needle))
		}
	}
	add(
		cc("contains", want(cty.False), stV(lV(cty.True)), cty.ListValEmpty(cty.DynamicPseudoType)),
		cc("contains", want(cty.False), lV(cty.ListValEmpty(cty.Bool)), cty.ListValEmpty(cty.DynamicPseudoType)),
		cc("length", want(nI(0)), cty.ListValEmpty(cty.DynamicPseudoType)),
		cc("length", want(nI(0)), cty.SetValEmpty(cty.DynamicPseudoType)),
		cc("length", want(nI(0)), cty.MapValEmpty(cty.DynamicPseudoType)),
		cc("keys", want(cty.ListValEmpty(cty.String)), cty.MapValEmpty(cty.DynamicPseudoType)),
		cc("values", want(cty.ListValEmpty(cty.DynamicPseudoType)), cty.MapValEmpty(cty.DynamicPseudoType)),
		cc("lookup", want(sV("d")), cty.MapValEmpty(cty.DynamicPseudoType), sV("a"), sV("d")),
		cc("hasindex", want(cty.False), cty.ListValEmpty(cty.DynamicPseudoType), nI(0)),
		cc("hasindex", want(cty.False), cty.MapValEmpty(cty.DynamicPseudoType), sV("a")),
		cc("index", fails, cty.ListValEmpty(cty.DynamicPseudoType), nI(0)),
		cc("element", fails, cty.ListValEmpty(cty.DynamicPseudoType), nI(0)),
		cc("flatten", want(cty.EmptyTupleVal), cty.ListValEmpty(cty.DynamicPseudoType)),
		cc("flatten", want(cty.EmptyTupleVal), cty.SetValEmpty(cty.DynamicPseudoType)),
		cc("reverselist", want(cty.ListValEmpty(cty.DynamicPseudoType)), cty.ListValEmpty(cty.DynamicPseudoType)),
		cc("reverselist", want(cty.ListValEmpty(cty.DynamicPseudoType)), cty.SetValEmpty(cty.DynamicPseudoType)),
		cc("distinct", want(cty.ListValEmpty(cty.DynamicPseudoType)), cty.ListValEmpty(cty.DynamicPseudoType)),
		cc("slice", want(cty.ListValEmpty(cty.DynamicPseudoType)), cty.ListValEmpty(cty.DynamicPseudoType), nI(0), nI(0)),
		cc("chunklist", want(cty.ListValEmpty(cty.List(cty.DynamicPseudoType))), cty.ListValEmpty(cty.DynamicPseudoType), nI(2)),
		cc("zipmap", want(cty.MapValEmpty(cty.DynamicPseudoType)), cty.ListValEmpty(cty.String), cty.ListValEmpty(cty.DynamicPseudoType)),
		cc("coalescelist", want(lV(sV("a"))), cty.ListValEmpty(cty.DynamicPseudoType), lV(sV("a"))),
		cc("merge", want(cty.MapValEmpty(cty.DynamicPseudoType)), cty.MapValEmpty(cty.DynamicPseudoType)),
	)

	// ---- keys / values (TestKeys, TestValues) ----
	add(
		cc("keys", want(lV(strs("goodbye", "hello")...)), mV("hello", nI(1), "goodbye", nI(42))),
		cc("keys", want(cty.ListValEmpty(cty.String)), cty.MapValEmpty(cty.String)),
		cc("keys", want(tV(sV("a"), sV("b"))), oV("b", sV("x"), "a", nI(1))),
		cc("keys", want(cty.EmptyTupleVal), cty.EmptyObjectVal),
		cc("keys", want(lV(strs("A", "Z", "a", "é")...)), mV("é", nI(1), "a", nI(2), "Z", nI(3), "A", nI(4))),
		cc("keys", fails, lV(sV("a"))),
		cc("keys", fails, cty.NullVal(cty.Map(cty.String))),
		cc("values", want(lV(nI(42), nI(1))), mV("hello", nI(1), "goodbye", nI(42))),
		cc("values", want(cty.ListValEmpty(cty.String)), cty.MapValEmpty(cty.String)),
		cc("values", want(tV(nI(1), sV("x"))), oV("b", sV("x"), "a", nI(1))),
		cc("values", want(cty.EmptyTupleVal), cty.EmptyObjectVal),
		cc("values", want(tV(cty.NullVal(cty.Bool), lV(cty.True))), oV("y", lV(cty.True), "x", cty.NullVal(cty.Bool))),
		cc("values", fails, lV(sV("a"))),
		cc("values", fails, cty.NullVal(cty.Map(cty.String))),
	)

	// ---- merge (TestMerge, CHANGELOG 1.1.0: all-null gives the empty object) ----
	add(
		cc("merge", want(mV("a", sV("b"), "c", sV("d"))), mV("a", sV("b")), mV("c", sV("d"))),
		cc("merge", want(mV("c", sV("d"))), cty.NullVal(cty.Map(cty.String)), mV("c", sV("d"))),
		cc("merge", want(cty.EmptyObjectVal), cty.NullVal(cty.Map(cty.String)), cty.NullVal(cty.Object(map[string]cty.Type{"a": cty.List(cty.String)}))),
		cc("merge", want(cty.MapValEmpty(cty.String)), cty.MapValEmpty(cty.String)),
		cc("merge", want(oV("c", sV("d"))), mV("c", sV("d")), cty.NullVal(cty.Object(map[string]cty.Type{"a": cty.List(cty.String)}))),
		cc("merge", want(mV("a", sV("x"), "c", sV("d"))), mV("a", sV("b"), "c", sV("d")), mV("a", sV("x"))),
		cc("merge", fails, mV("a", sV("b")), lV(strs("a", "x")...)),
		cc("merge", fails, mV("a", sV("b")), cty.NullVal(cty.String)),
		cc("merge", want(oV("a", lV(strs("b", "c")...), "d", mV("e", sV("f")))), mV("a", lV(strs("b", "c")...)), mV("d", mV("e", sV("f")))),
		cc("merge", want(oV("a", lV(sV("b")), "d", nI(2))), mV("a", lV(sV("b"))), oV("d", nI(2))),
		cc("merge", want(oV("a", oV("e", sV("f")), "b", sV("b"))), oV("a", lV(sV("b")), "b", sV("b")), oV("a", oV("e", sV("f")))),
		cc("merge", want(cty.MapValEmpty(cty.String)), cty.MapValEmpty(cty.String), cty.MapValEmpty(cty.String)),
		cc("merge", want(oV("a", sV("A"), "b", sV("B"))), oV("a", sV("a"), "b", cty.NullVal(cty.String)), oV("a", sV("A"), "b", sV("B"))),
		cc("merge", want(cty.EmptyObjectVal)),
		cc("merge", want(cty.MapValEmpty(cty.String)), cty.NullVal(cty.Map(cty.String))),
		cc("merge", want(cty.MapValEmpty(cty.String)), cty.NullVal(cty.Map(cty.String)), cty.NullVal(cty.Map(cty.String))),
		cc("merge", want(cty.EmptyObjectVal), cty.MapValEmpty(cty.String), cty.MapValEmpty(cty.Number)),
		cc("merge", want(cty.EmptyObjectVal), cty.EmptyObjectVal, cty.EmptyObjectVal),
		cc("merge", want(cty.EmptyObjectVal), cty.NullVal(cty.EmptyObject)),
		// defect witnesses (F-113a): every argument is a null of one object type with attributes
		cc("merge", want(cty.EmptyObjectVal), cty.NullVal(objT)),
		cc("merge", want(cty.EmptyObjectVal), cty.NullVal(objT), cty.NullVal(objT)),
		// the neighbours that already work
		cc("merge", want(oV("a", sV("x"), "c", cty.True)), cty.NullVal(objT), oV("a", sV("x"), "c", cty.True)),
		cc("merge", want(oV("a", sV("x"), "c", cty.True)), oV("a", sV("x"), "c", cty.True), cty.NullVal(objT)),
	)

	// ---- concat (TestConcat) ----
	add(
		cc("concat", want(cty.ListValEmpty(cty.Number)), cty.ListValEmpty(cty.Number)),
		cc("concat", want(lV(ints(1, 2, 3)...)), lV(ints(1, 2, 3)...)),
		cc("concat", want(lV(ints(1, 2, 3)...)), lV(nI(1)), lV(ints(2, 3)...)),
		cc("concat", want(lV(strs("1", "foo", "true")...)), lV(nI(1)), lV(sV("foo")), lV(cty.True)),
		cc("concat", want(lV(strs("1", "foo", "bar")...)), lV(nI(1)), lV(strs("foo", "bar")...)),
		cc("concat", want(cty.EmptyTupleVal), cty.EmptyTupleVal),
		cc("concat", want(tV(nI(1), cty.True, nI(3))), tV(nI(1), cty.True, nI(3))),
		cc("concat", want(tV(nI(1), cty.True, nI(3))), tV(nI(1)), tV(cty.True, nI(3))),
		cc("concat", want(tV(nI(1), cty.True, nI(3))), lV(nI(1)), tV(cty.True, nI(3))),
		cc("concat", want(tV(nI(1), cty.True, nI(3))), tV(nI(1), cty.True), lV(nI(3))),
		cc("concat", want(tV(nI(1), cty.ListValEmpty(cty.Bool))), lV(nI(1)), lV(cty.ListValEmpty(cty.Bool))),
		cc("concat", want(cty.ListValEmpty(cty.String)), cty.ListValEmpty(cty.String), cty.ListValEmpty(cty.Number)),
		cc("concat", want(cty.EmptyTupleVal), cty.ListValEmpty(cty.String), cty.EmptyTupleVal),
		cc("concat", fails),
		cc("concat", fails, lV(nI(1)), stV(nI(2))),
		cc("concat", fails, lV(nI(1)), cty.NullVal(cty.List(cty.Number))),
		cc("concat", fails, lV(nI(1)), sV("a")),
	)

	// ---- flatten (TestFlatten; CHANGELOG 1.8.0 / 1.9.1: null sequences are kept as elements) ----
	add(
		cc("flatten", want(cty.EmptyTupleVal), cty.ListValEmpty(cty.String)),
		cc("flatten", want(cty.EmptyTupleVal), cty.ListValEmpty(cty.Number)),
		cc("flatten", fails, cty.MapValEmpty(cty.String)),
		cc("flatten", want(tV(strs("a", "b", "c")...)), lV(lV(sV("a")), lV(strs("b", "c")...), cty.ListValEmpty(cty.String))),
		cc("flatten", want(tV(strs("a", "b", "c", "d", "e")...)), tV(sV("a"), lV(sV("b")), tV(lV(sV("c")), lV(strs("d", "e")...)))),
		cc("flatten", want(tV(sV("a"), sV("b"), cty.NullVal(cty.DynamicPseudoType), sV("c"))), tV(tV(sV("a"), sV("b")), cty.NullVal(cty.DynamicPseudoType), tV(sV("c")))),
		cc("flatten", want(tV(cty.NullVal(cty.String), cty.True)), tV(cty.NullVal(cty.String), cty.True)),
		cc("flatten", want(tV(cty.NullVal(cty.List(cty.String)), cty.True)), tV(cty.NullVal(cty.List(cty.String)), cty.True)),
		cc("flatten", want(tV(cty.NullVal(cty.EmptyTuple), cty.True)), tV(cty.NullVal(cty.EmptyTuple), cty.True)),
		cc("flatten", want(tV(cty.NullVal(cty.List(cty.String)), cty.True)), tV(tV(cty.NullVal(cty.List(cty.String))), cty.True)),
		cc("flatten", want(tV(cty.NullVal(cty.EmptyTuple), cty.True)), tV(tV(cty.NullVal(cty.EmptyTuple)), cty.True)),
		cc("flatten", want(tV(strs("a", "b", "c")...)), stV(strs("c", "a", "b")...)),
		cc("flatten", want(tV(ints(1, 2, 3)...)), lV(stV(ints(2, 1)...), stV(nI(3)))),
		cc("flatten", want(cty.EmptyTupleVal), cty.EmptyTupleVal),
		cc("flatten", want(cty.EmptyTupleVal), lV(cty.ListValEmpty(cty.String), cty.ListValEmpty(cty.String))),
		cc("flatten", want(tV(oV("a", lV(nI(1))))), lV(oV("a", lV(nI(1))))), // sequences inside objects are left alone
		cc("flatten", fails, sV("a")),
		cc("flatten", fails, cty.NullVal(cty.List(cty.String))),
	)

	// ---- slice (TestSlice + boundaries) ----
	add(
		cc("slice", want(lV(strs("a", "b")...)), abc, nI(0), nI(2)),
		cc("slice", want(abc), abc, nI(0), nI(3)),
		cc("slice", want(cty.ListValEmpty(cty.String)), abc, nI(3), nI(3)),
		cc("slice", want(cty.ListValEmpty(cty.String)), abc, nI(0), nI(0)),
		cc("slice", want(lV(sV("c"))), abc, nI(2), nI(3)),
		cc("slice", fails, abc, nI(0), nI(4)),
		cc("slice", fails, abc, nI(4), nI(4)),
		cc("slice", fails, abc, nI(2), nI(1)),
		cc("slice", fails, abc, nI(-1), nI(2)),
		cc("slice", fails, abc, nI(0), nI(-1)),
		cc("slice", fails, abc, nF(0.5), nI(2)),
		cc("slice", fails, abc, nI(0), nF(1.5)),
		cc("slice", fails, abc, nI(0), nP("9223372036854775808")),
		cc("slice", fails, stV(strs("a", "b")...), nI(0), nI(1)),
		cc("slice", fails, mV("a", sV("b")), nI(0), nI(1)),
		cc("slice", want(tV(cty.True, nI(3))), tV(sV("a"), cty.True, nI(3)), nI(1), nI(3)),
		cc("slice", want(cty.EmptyTupleVal), tV(sV("a"), cty.True, nI(3)), nI(1), nI(1)),
		cc("slice", want(cty.EmptyTupleVal), cty.EmptyTupleVal, nI(0), nI(0)),
		cc("slice", want(cty.ListValEmpty(cty.Bool)), cty.ListValEmpty(cty.Bool), nI(0), nI(0)),
		cc("slice", fails, cty.ListValEmpty(cty.Bool), nI(0), nI(1)),
	)

	// ---- chunklist (TestChunklist) ----
	add(
		cc("chunklist", want(cty.ListValEmpty(cty.List(cty.String))), cty.ListValEmpty(cty.String), nI(2)),
		cc("chunklist", want(lV(lV(sV("a")))), lV(sV("a")), nI(2)),
		cc("chunklist", want(lV(lV(strs("a", "b")...))), lV(strs("a", "b")...), nI(2)),
		cc("chunklist", want(lV(lV(strs("a", "b")...), lV(sV("c")))), abc, nI(2)),
		cc("chunklist", want(lV(lV(strs("a", "b")...), lV(strs("c", "d")...), lV(strs("e", "f")...))), lV(strs("a", "b", "c", "d", "e", "f")...), nI(2)),
		cc("chunklist", want(lV(lV(sV("a")))), lV(sV("a")), cty.Zero),
		cc("chunklist", want(lV(abc)), abc, nI(0)),
		cc("chunklist", fails, cty.ListValEmpty(cty.String), nI(-1)),
		cc("chunklist", fails, cty.ListValEmpty(cty.String), cty.PositiveInfinity),
		cc("chunklist", fails, cty.ListValEmpty(cty.String), nF(1.5)),
		cc("chunklist", want(lV(lV(sV("a")), lV(sV("b")), lV(sV("c")))), abc, nI(1)),
		cc("chunklist", want(lV(abc)), abc, nI(3)),
		cc("chunklist", want(lV(abc)), abc, nI(math.MaxInt64)),
		cc("chunklist", fails, abc, nP("9223372036854775808")),
		cc("chunklist", fails, tV(sV("a")), nI(1)),
		cc("chunklist", fails, stV(sV("a")), nI(1)),
	)

	// ---- distinct (TestDistinct) ----
	add(
		cc("distinct", want(cty.ListValEmpty(cty.String)), cty.ListValEmpty(cty.String)),
		cc("distinct", want(lV(sV("single"))), lV(sV("single"))),
		cc("distinct", want(lV(nI(42))), lV(ints(42, 42, 42)...)),
		cc("distinct", want(abc), abc),
		cc("distinct", want(lV(lV(strs("a", "a")...), lV(sV("b")))), lV(lV(strs("a", "a")...), lV(sV("b")), lV(strs("a", "a")...))),
		cc("distinct", want(lV(cty.NullVal(cty.String), sV("a"), sV("b"))), lV(cty.NullVal(cty.String), sV("a"), cty.NullVal(cty.String), sV("b"))),
		cc("distinct", want(lV(strs("a", "b")...)), lV(strs("a", "b", "a")...)), // first occurrences, not last
		cc("distinct", want(lV(nI(2), nF(0.5))), lV(nI(2), nF(0.5), nP("2"), nP("0.5"))),
		cc("distinct", fails, cty.NullVal(cty.List(cty.String))),
		cc("distinct", fails, stV(sV("a"))),
		cc("distinct", fails, tV(sV("a"), sV("a"))),
	)

	// ---- compact (no table test exists; description + code reading) ----
	add(
		cc("compact", want(cty.ListValEmpty(cty.String)), cty.ListValEmpty(cty.String)),
		cc("compact", want(lV(strs("a", "b")...)), lV(strs("a", "", "b", "")...)),
		cc("compact", want(cty.ListValEmpty(cty.String)), lV(strs("", "")...)),
		cc("compact", want(lV(strs(" ", "a")...)), lV(strs(" ", "a")...)),
		cc("compact", nil, lV(sV("a"), cty.NullVal(cty.String), sV(""))),
		cc("compact", fails, lV(nI(1))),
		cc("compact", fails, stV(sV("a"))),
		cc("compact", fails, cty.NullVal(cty.List(cty.String))),
	)

	// ---- reverselist (TestReverseList) ----
	add(
		cc("reverselist", want(cty.ListValEmpty(cty.String)), cty.ListValEmpty(cty.String)),
		cc("reverselist", want(lV(strs("bloop", "bop", "beep")...)), lV(strs("beep", "bop", "bloop")...)),
		cc("reverselist", want(tV(strs("bloop", "bop", "beep")...)), tV(strs("beep", "bop", "bloop")...)),
		cc("reverselist", want(lV(strs("bop", "bloop", "beep")...)), stV(strs("beep", "bop", "bloop")...)),
		cc("reverselist", want(tV(cty.True, nI(1), sV("a"))), tV(sV("a"), nI(1), cty.True)),
		cc("reverselist", want(cty.EmptyTupleVal), cty.EmptyTupleVal),
		cc("reverselist", want(cty.ListValEmpty(cty.Number)), cty.SetValEmpty(cty.Number)),
		cc("reverselist", want(lV(nI(10), nI(2), nF(0.5), nI(-1))), stV(nI(2), nI(10), nI(-1), nF(0.5))),
		cc("reverselist", want(lV(cty.True, cty.False)), stV(cty.True, cty.False)),
		cc("reverselist", fails, mV("a", sV("b"))),
		cc("reverselist", fails, sV("abc")),
		cc("reverselist", fails, cty.NullVal(cty.List(cty.String))),
	)

	// ---- sort (TestSort) ----
	add(
		cc("sort", want(cty.ListValEmpty(cty.String)), cty.ListValEmpty(cty.String)),
		cc("sort", want(lV(sV("banana"))), lV(sV("banana"))),
		cc("sort", want(lV(strs("apple", "banana")...)), lV(strs("banana", "apple")...)),
		cc("sort", want(lV(strs("1", "10", "2", "8", "9")...)), lV(strs("8", "9", "10", "1", "2")...)),
		cc("sort", want(lV(strs("", "A", "Z", "a", "z", "é")...)), lV(strs("é", "z", "a", "Z", "A", "")...)),
		cc("sort", want(lV(strs("a", "a", "b")...)), lV(strs("a", "b", "a")...)),
		cc("sort", fails, lV(sV("b"), cty.NullVal(cty.String), sV("a"))),
		cc("sort", fails, lV(nI(2), nI(1))),
		cc("sort", fails, cty.NullVal(cty.List(cty.String))),
	)

	// ---- zipmap (TestZipMap) ----
	add(
		cc("zipmap", want(cty.MapValEmpty(cty.String)), cty.ListValEmpty(cty.String), cty.ListValEmpty(cty.String)),
		cc("zipmap", want(mV("bleep", sV("bloop"))), lV(sV("bleep")), lV(sV("bloop"))),
		cc("zipmap", want(mV("beep", sV("boop"), "bleep", sV("bloop"))), lV(strs("bleep", "beep")...), lV(strs("bloop", "boop")...)),
		cc("zipmap", fails, lV(sV("boop")), cty.ListValEmpty(cty.String)),
		cc("zipmap", fails, cty.ListValEmpty(cty.String), lV(sV("boop"))),
		cc("zipmap", want(cty.EmptyObjectVal), cty.ListValEmpty(cty.String), cty.EmptyTupleVal),
		cc("zipmap", want(oV("bleep", sV("bloop"))), lV(sV("bleep")), tV(sV("bloop"))),
		cc("zipmap", want(oV("beep", nI(1), "bleep", sV("bloop"))), lV(strs("bleep", "beep")...), tV(sV("bloop"), nI(1))),
		cc("zipmap", fails, lV(sV("boop")), cty.EmptyTupleVal),
		cc("zipmap", fails, cty.ListValEmpty(cty.String), tV(sV("boop"))),
		cc("zipmap", want(cty.MapValEmpty(cty.Number)), cty.ListValEmpty(cty.String), cty.ListValEmpty(cty.Number)),
		cc("zipmap", nil, lV(strs("a", "b", "a")...), lV(ints(1, 2, 3)...)),
		cc("zipmap", nil, lV(strs("a", "b", "a")...), tV(nI(1), nI(2), sV("x"))),
		cc("zipmap", fails, lV(cty.NullVal(cty.String)), tV(sV("a"))),
		cc("zipmap", fails, lV(cty.NullVal(cty.String)), lV(sV("a"))), // DESIGN F-09: an error is required, the PanicError kind is C11's subject
		cc("zipmap", fails, lV(nI(1)), lV(sV("a"))),
		cc("zipmap", fails, lV(sV("a")), stV(sV("a"))),
		cc("zipmap", fails, lV(sV("a")), mV("a", sV("a"))),
	)

	// ---- range (TestRange + boundaries) ----
	add(
		cc("range", want(lV(ints(0, 1, 2, 3, 4)...)), nI(5)),
		cc("range", want(lV(ints(0, -1, -2, -3, -4)...)), nI(-5)),
		cc("range", want(lV(nI(0))), nI(1)),
		cc("range", want(cty.ListValEmpty(cty.Number)), nI(0)),
		cc("range", want(lV(ints(0, 1, 2, 3, 4, 5)...)), nP("5.5")),
		cc("range", want(lV(ints(1, 2, 3, 4)...)), nI(1), nI(5)),
		cc("range", want(lV(ints(5, 4, 3, 2)...)), nI(5), nI(1)),
		cc("range", want(lV(nF(1.5), nF(2.5), nF(3.5), nF(4.5))), nF(1.5), nI(5)),
		cc("range", want(lV(nI(1))), nI(1), nI(2)),
		cc("range", want(cty.ListValEmpty(cty.Number)), nI(1), nI(1)),
		cc("range", want(lV(ints(0, 2, 4)...)), nI(0), nI(5), nI(2)),
		cc("range", want(lV(ints(0, 1, 2, 3, 4)...)), nI(0), nI(5), nI(1)),
		cc("range", want(lV(nI(0))), nI(0), nI(1), nI(1)),
		cc("range", want(cty.ListValEmpty(cty.Number)), nI(0), nI(0), nI(1)),
		cc("range", want(lV(ints(5, 4, 3, 2, 1)...)), nI(5), nI(0), nI(-1)),
		cc("range", want(lV(nI(0), nF(0.5), nI(1), nF(1.5), nI(2), nF(2.5), nI(3), nF(3.5), nI(4), nF(4.5))), nI(0), nI(5), nF(0.5)),
		cc("range", fails, nI(0), nI(5), nI(-1)),
		cc("range", fails, nI(5), nI(0), nI(1)),
		cc("range", fails, nI(0), nI(5), cty.Zero),
		cc("range", fails, nI(0), nI(5), nI(0)),
		cc("range", fails, nI(0), nI(5), nF(0)),
		// defect witnesses (F-113b): a zero step that is not the cty.Zero singleton, with start == end
		cc("range", fails, nI(2), nI(2), nI(0)),
		cc("range", fails, nI(0), nI(0), nP("0")),
		cc("range", fails, nI(2), nI(2), cty.Zero),
		cc("range", fails),
		cc("range", fails, nI(0), nI(1), nI(1), nI(1)),
		cc("range", fails, sV("5")),
		cc("range", fails, cty.NullVal(cty.Number)),
		cc("range", nil, nI(1024)),
		cc("range", fails, nI(1025)),
		cc("range", nil, nI(-1024)),
		cc("range", fails, nI(-1025)),
		cc("range", nil, nI(0), nI(512), nF(0.5)),
		cc("range", fails, nI(0), nP("512.5"), nF(0.5)),
		cc("range", fails, nI(0), cty.NumberVal(pow2(40))),
		cc("range", want(cty.ListValEmpty(cty.Number)), cty.NumberVal(pow2(40)), cty.NumberVal(pow2(40)), nI(-3)),
	)

	// steps that are not short binary fractions: the elements are the RUNNING sums (each rounded to the operands'
	// precision), written here as the float64 running sums every float-arithmetic text shows
	add(
		cc("range", want(lV(nF(0), nF(0.1), nF(0.2), nF(0.30000000000000004), nF(0.4), nF(0.5), nF(0.6), nF(0.7), nF(0.7999999999999999), nF(0.8999999999999999), nF(0.9999999999999999))), nF(0), nF(1), nF(0.1)),
		cc("range", want(lV(nF(1), nF(0.9), nF(0.8), nF(0.7000000000000001), nF(0.6000000000000001), nF(0.5000000000000001), nF(0.40000000000000013), nF(0.30000000000000016), nF(0.20000000000000015), nF(0.10000000000000014), nF(1.3877787807814457e-16))), nF(1), nF(0), nF(-0.1)),
		cc("range", want(lV(nF(0.1), nF(0.30000000000000004), nF(0.5), nF(0.7), nF(0.8999999999999999))), nF(0.1), nF(1), nF(0.2)),
		cc("range", nil, nP("0"), nP("1"), nP("0.1")),
		cc("range", nil, nP("1"), nP("0"), nP("-0.1")),
		cc("range", nil, nP("0"), nP("2"), nP("0.3")),
		cc("range", nil, nP("0.7"), nP("3"), nP("0.7")),
		cc("range", nil, nI(0), nP("102.4"), nP("0.1")),
		cc("range", nil, nF(0), nF(102.4), nF(0.1)),
		cc("range", nil, nF(0), nF(102.5), nF(0.1)),
	)

	// ---- coalesce (TestCoalesce) ----
	add(
		cc("coalesce", want(cty.True), cty.True),
		cc("coalesce", want(cty.True), cty.NullVal(cty.Bool), cty.True),
		cc("coalesce", want(cty.False), cty.NullVal(cty.Bool), cty.False),
		cc("coalesce", want(sV("false")), cty.NullVal(cty.Bool), cty.False, sV("hello")),
		cc("coalesce", want(sV("1")), cty.NullVal(cty.String), nI(1), sV("a")),
		cc("coalesce", want(sV("")), sV(""), sV("a")), // the empty string is not null
		cc("coalesce", fails),
		cc("coalesce", fails, cty.NullVal(cty.Bool)),
		cc("coalesce", fails, cty.NullVal(cty.Bool), cty.NullVal(cty.String)),
		cc("coalesce", fails, lV(sV("a")), sV("a")),
		cc("coalesce", fails, oV("a", sV("x")), lV(sV("a"))),
	)

	// ---- coalescelist (TestCoalesceList) ----
	add(
		cc("coalescelist", want(lV(strs("a", "b")...)), lV(strs("a", "b")...), lV(strs("c", "d")...)),
		cc("coalescelist", want(lV(strs("c", "d")...)), cty.ListValEmpty(cty.String), lV(strs("c", "d")...)),
		cc("coalescelist", want(lV(ints(3, 4)...)), cty.ListValEmpty(cty.String), lV(ints(3, 4)...)),
		cc("coalescelist", want(tV(strs("c", "d")...)), cty.EmptyTupleVal, tV(strs("c", "d")...)),
		cc("coalescelist", want(lV(strs("c", "d")...)), cty.NullVal(cty.List(cty.String)), lV(strs("c", "d")...)),
		cc("coalescelist", fails, cty.NullVal(cty.List(cty.String)), cty.NullVal(cty.List(cty.String))),
		cc("coalescelist", fails, mV("a", cty.True), oV("b", cty.False)),
		cc("coalescelist", fails),
		cc("coalescelist", fails, cty.ListValEmpty(cty.String), cty.EmptyTupleVal),
		cc("coalescelist", fails, stV(sV("a"))),
		cc("coalescelist", fails, lV(sV("a")), stV(sV("a"))),
		cc("coalescelist", want(lV(cty.NullVal(cty.String))), lV(cty.NullVal(cty.String)), lV(sV("a"))), // a list holding a null is not empty
	)

	// ---- setproduct (TestSetproduct) ----
	tSS := cty.Tuple([]cty.Type{cty.String, cty.String})
	add(
		cc("setproduct", fails, cty.ListValEmpty(cty.String)),
		cc("setproduct", fails),
		cc("setproduct", want(cty.ListValEmpty(cty.Tuple([]cty.Type{cty.EmptyObject, cty.String}))), cty.ListValEmpty(cty.EmptyObject), lV(strs("quick", "fox")...)),
		cc("setproduct", want(cty.SetValEmpty(cty.Tuple([]cty.Type{cty.EmptyObject, cty.String}))), cty.SetValEmpty(cty.EmptyObject), stV(strs("quick", "fox")...)),
		cc("setproduct", want(lV(tV(cty.ListValEmpty(cty.String), cty.ListValEmpty(cty.String)))), lV(cty.ListValEmpty(cty.String)), lV(cty.ListValEmpty(cty.String))),
		cc("setproduct", want(stV(tV(cty.ListValEmpty(cty.String), cty.ListValEmpty(cty.String)))), stV(cty.ListValEmpty(cty.String)), stV(cty.ListValEmpty(cty.String))),
		cc("setproduct", want(lV(tV(strs("the", "fox")...), tV(strs("the", "3")...), tV(strs("brown", "fox")...), tV(strs("brown", "3")...))), tV(strs("the", "brown")...), tV(sV("fox"), nI(3))),
		cc("setproduct", want(stV(tV(strs("the", "quick")...), tV(strs("the", "fox")...), tV(strs("brown", "quick")...), tV(strs("brown", "fox")...))), stV(strs("the", "brown")...), stV(strs("quick", "fox")...)),
		cc("setproduct", want(lV(tV(strs("the", "quick")...), tV(strs("the", "fox")...), tV(strs("brown", "quick")...), tV(strs("brown", "fox")...))), lV(strs("the", "brown")...), lV(strs("quick", "fox")...)),
		cc("setproduct", want(cty.ListValEmpty(cty.Tuple([]cty.Type{cty.String, cty.Bool}))), cty.ListValEmpty(cty.String), cty.ListValEmpty(cty.Bool)),
		cc("setproduct", want(cty.SetValEmpty(cty.Tuple([]cty.Type{cty.String, cty.Bool}))), cty.SetValEmpty(cty.String), cty.SetValEmpty(cty.Bool)),
		cc("setproduct", want(cty.ListValEmpty(cty.Tuple([]cty.Type{cty.String, cty.DynamicPseudoType}))), tV(strs("a", "b")...), cty.EmptyTupleVal),
		cc("setproduct", want(stV(tV(strs("a", "x")...), tV(strs("b", "x")...))), lV(strs("a", "b")...), stV(sV("x"))),
		cc("setproduct", want(cty.SetValEmpty(tSS)), lV(strs("a", "b")...), cty.SetValEmpty(cty.String)),
		cc("setproduct", want(lV(tV(nI(1), sV("a"), cty.True), tV(nI(1), sV("a"), cty.False), tV(nI(2), sV("a"), cty.True), tV(nI(2), sV("a"), cty.False))), lV(ints(1, 2)...), lV(sV("a")), lV(cty.True, cty.False)),
		cc("setproduct", want(lV(tV(sV("a"), sV("a")), tV(sV("a"), sV("a")))), lV(strs("a", "a")...), lV(sV("a"))), // lists keep duplicates
		cc("setproduct", fails, lV(sV("a")), mV("a", sV("b"))),
		cc("setproduct", fails, lV(sV("a")), sV("b")),
		cc("setproduct", fails, lV(sV("a")), cty.NullVal(cty.List(cty.String))),
		cc("setproduct", fails, lV(sV("a")), tV(sV("a"), lV(sV("b")))), // tuple elements without a common type
	)

	// ---- set algebra (TestSetUnion / Intersection / Subtract / SymmetricDifference) ----
	sDyn := cty.SetValEmpty(cty.DynamicPseudoType)
	add(
		cc("setunion", want(cty.SetValEmpty(cty.String)), cty.SetValEmpty(cty.String)),
		cc("setunion", want(stV(cty.True)), stV(cty.True)),
		cc("setunion", want(stV(sV("true"))), stV(cty.True), cty.SetValEmpty(cty.String)),
		cc("setunion", want(stV(cty.True, cty.False)), stV(cty.True), stV(cty.False)),
		cc("setunion", want(stV(strs("a", "b", "c", "d")...)), stV(strs("a", "b")...), stV(strs("b", "c")...), stV(strs("d")...)),
		cc("setunion", want(stV(sV("a"))), stV(sV("a")), sDyn),
		cc("setunion", want(stV(cty.EmptyObjectVal)), stV(cty.EmptyObjectVal), sDyn),
		cc("setunion", want(sDyn), sDyn, sDyn),
		cc("setunion", want(stV(strs("1", "2")...)), stV(sV("1")), stV(nI(1), nI(2))), // conflation after conversion
		cc("setintersection", want(cty.SetValEmpty(cty.String)), cty.SetValEmpty(cty.String)),
		cc("setintersection", want(stV(cty.True)), stV(cty.True)),
		cc("setintersection", want(cty.SetValEmpty(cty.String)), stV(cty.True), cty.SetValEmpty(cty.String)),
		cc("setintersection", want(cty.SetValEmpty(cty.Bool)), stV(cty.True), stV(cty.False)),
		cc("setintersection", want(stV(sV("b"))), stV(strs("a", "b")...), stV(strs("b", "c")...)),
		cc("setintersection", want(cty.SetValEmpty(cty.String)), stV(strs("a", "b")...), stV(strs("b", "c")...), stV(strs("c", "d")...)),
		cc("setintersection", want(cty.SetValEmpty(cty.String)), stV(sV("a")), sDyn),
		cc("setintersection", want(sDyn), sDyn, sDyn),
		cc("setsubtract", want(cty.SetValEmpty(cty.String)), cty.SetValEmpty(cty.String), cty.SetValEmpty(cty.String)),
		cc("setsubtract", want(stV(sV("true"))), stV(cty.True), cty.SetValEmpty(cty.String)),
		cc("setsubtract", want(stV(cty.True)), stV(cty.True), stV(cty.False)),
		cc("setsubtract", want(stV(sV("b"))), stV(strs("a", "b", "c")...), stV(strs("a", "c")...)),
		cc("setsubtract", want(cty.SetValEmpty(cty.String)), stV(strs("a", "c")...), stV(strs("a", "b", "c")...)),
		cc("setsubtract", want(stV(sV("a"))), stV(sV("a")), sDyn),
		cc("setsubtract", want(sDyn), sDyn, sDyn),
		cc("setsubtract", fails, stV(sV("a"))),
		cc("setsubtract", fails, stV(sV("a")), stV(sV("a")), stV(sV("a"))),
		cc("setsymmetricdifference", want(cty.SetValEmpty(cty.String)), cty.SetValEmpty(cty.String), cty.SetValEmpty(cty.String)),
		cc("setsymmetricdifference", want(stV(sV("true"))), stV(cty.True), cty.SetValEmpty(cty.String)),
		cc("setsymmetricdifference", want(stV(cty.True, cty.False)), stV(cty.True), stV(cty.False)),
		cc("setsymmetricdifference", want(stV(sV("b"))), stV(strs("a", "b", "c")...), stV(strs("a", "c")...)),
		cc("setsymmetricdifference", want(stV(sV("a"))), stV(sV("a")), sDyn),
		cc("setsymmetricdifference", want(sDyn), sDyn, sDyn),
		cc("setunion", fails),
		cc("setunion", fails, lV(sV("a"))),
		cc("setunion", fails, stV(sV("a")), cty.NullVal(cty.Set(cty.String))),
		cc("setunion", fails, stV(sV("a")), stV(lV(sV("a")))), // element types without a common type
		cc("sethaselement", want(cty.True), stV(strs("a", "b")...), sV("a")),
		cc("sethaselement", want(cty.False), stV(strs("a", "b")...), sV("c")),
		cc("sethaselement", want(cty.False), cty.SetValEmpty(cty.String), sV("c")),
		// F-153: wholly known operands whose types differ in a dynamic part give False, not unknown
		cc("sethaselement", want(cty.False), cty.SetValEmpty(cty.DynamicPseudoType), sV("a")),
		cc("sethaselement", want(cty.False), cty.SetVal([]cty.Value{cty.NullVal(cty.DynamicPseudoType)}), sV("a")),
		cc("sethaselement", want(cty.False), cty.SetValEmpty(cty.String), cty.ListValEmpty(cty.DynamicPseudoType)),
		cc("sethaselement", want(cty.False), cty.SetValEmpty(cty.Object(map[string]cty.Type{"c": cty.DynamicPseudoType})), cty.ObjectVal(map[string]cty.Value{"c": sV("x")})),
		cc("sethaselement", want(cty.True), stV(nI(2)), nP("2")),
		cc("sethaselement", want(cty.True), stV(lV(sV("a")), lV(sV("b"))), lV(sV("b"))),
		cc("sethaselement", nil, stV(strs("1")...), nI(1)),
		cc("sethaselement", fails, lV(sV("a")), sV("a")),
		cc("sethaselement", fails, stV(sV("a")), cty.NullVal(cty.String)),
		cc("sethaselement", fails, cty.NullVal(cty.Set(cty.String)), sV("a")),
	)
	return c
}

func runCorpus(c *core.Ctx, base int64) {
	cs := corpus()
	for k, e := range cs {
		idx := base + int64(k)
		if !c.Want(idx) {
			continue
		}
		fd := fnByName(e.fn)
		if fd == nil {
			c.Begin(idx, func() string { return "corpus: unknown function " + e.fn })
			c.Violate("harness", "harness: corpus names an unknown function", "", e.fn, "")
			continue
		}
		c.Count("input:corpus")
		checkCase(c, idx, fd, e.args, e.fx)
	}
	for k, fh := range fixedHistories() {
		idx := base + 100_000 + int64(k)
		if !c.Want(idx) {
			continue
		}
		c.Count("input:corpus-history")
		runFixedHistory(c, idx, fh)
	}
	enumerate(c, base+1_000_000_000)
}

// A fixedHistory is a scripted sequence of calls over shared values: step i calls fn on the
// values with the given indices; an index < 0 stands for the result of step -index (1-based).
type histStep struct {
	fn   string
	args []int
}
type fixedHistory struct {
	vals  []cty.Value
	steps []histStep
}

func hs(fn string, args ...int) histStep { return histStep{fn: fn, args: args} }

// fixedHistories: for every function that walks, copies or rebuilds its arguments, a call followed by
// reads of the same argument values (and of the result) through other functions, and the call again.
func fixedHistories() []fixedHistory {
	defaults := func() cty.Value { return oV("name", sV("web"), "size", sV("small")) }
	overrides := func() cty.Value { return oV("size", nI(3), "zones", lV(strs("a", "b")...)) }
	unsorted := func() cty.Value { return lV(strs("c", "a", "b", "a", "")...) }
	return []fixedHistory{
		// merge, then the first / second argument again through every map reader
		{[]cty.Value{defaults(), overrides(), sV("zones"), sV("size"), sV("none"), oV("name", sV("db"))},
			[]histStep{hs("merge", 0, 1), hs("keys", 0), hs("values", 0), hs("lookup", 0, 2, 4), hs("lookup", 0, 3, 4), hs("merge", 0, 5), hs("keys", 1), hs("merge", 1, 0), hs("values", 0), hs("merge", 0, 1)}},
		{[]cty.Value{mV("a", sV("x")), oV("b", nI(1)), mV("c", sV("y")), sV("b"), sV("d")},
			[]histStep{hs("merge", 0, 1, 2), hs("keys", 0), hs("length", 0), hs("lookup", 0, 3, 4), hs("values", 1), hs("merge", 1, 0), hs("keys", 1), hs("merge", 0, 2), hs("merge", 0, 1, 2)}},
		// the shared empty object and empty tuple
		{[]cty.Value{cty.EmptyObjectVal, mV("a", sV("x")), oV("b", cty.True), sV("a"), sV("d")},
			[]histStep{hs("merge", 0, 1), hs("keys", 0), hs("values", 0), hs("lookup", 0, 3, 4), hs("merge", 0, 2), hs("keys", 0), hs("merge", 0, 0)}},
		{[]cty.Value{cty.EmptyTupleVal, tV(sV("a"), nI(1)), lV(sV("z"))},
			[]histStep{hs("concat", 0, 1), hs("length", 0), hs("flatten", 0), hs("concat", 0, 2), hs("reverselist", 0), hs("setproduct", 0, 1), hs("length", 0)}},
		// a member of a container as the argument: the container and its other members are read afterwards
		{[]cty.Value{tV(defaults(), defaults()), overrides(), nI(0), nI(1)},
			[]histStep{hs("element", 0, 2), hs("merge", -1, 1), hs("element", 0, 3), hs("keys", -3), hs("element", 0, 2), hs("values", -5), hs("flatten", 0)}},
		// functions that reorder or filter: the argument list is read again
		{[]cty.Value{unsorted(), nI(0), nI(2), sV("a")},
			[]histStep{hs("sort", 0), hs("element", 0, 1), hs("reverselist", 0), hs("element", 0, 1), hs("distinct", 0), hs("length", 0), hs("compact", 0), hs("element", 0, 2), hs("chunklist", 0, 2), hs("slice", 0, 1, 2), hs("contains", 0, 3), hs("sort", 0), hs("element", -1, 1)}},
		{[]cty.Value{tV(sV("b"), nI(1), sV("a")), lV(strs("x", "y", "z")...), nI(0), nI(-1)},
			[]histStep{hs("reverselist", 0), hs("element", 0, 2), hs("concat", 0, 1), hs("element", 0, 3), hs("zipmap", 1, 0), hs("element", 0, 2), hs("flatten", 0), hs("setproduct", 0, 1), hs("length", 0), hs("reverselist", 0)}},
		// sets: the operands of the set algebra are read again
		{[]cty.Value{stV(strs("a", "b", "c")...), stV(strs("b", "d")...), cty.SetValEmpty(cty.DynamicPseudoType), sV("d"), sV("a")},
			[]histStep{hs("setunion", 0, 1), hs("contains", 0, 3), hs("length", 0), hs("setsubtract", 0, 1), hs("sethaselement", 0, 4), hs("setintersection", 0, 1, 2), hs("length", 1), hs("setsymmetricdifference", 1, 0), hs("reverselist", 0), hs("setunion", 0, 2), hs("contains", 2, 3), hs("length", -1), hs("setunion", 0, 1)}},
		{[]cty.Value{stV(nI(2), nI(1)), lV(strs("p", "q")...), nI(1)},
			[]histStep{hs("setproduct", 0, 1), hs("reverselist", 0), hs("contains", 0, 2), hs("length", -1), hs("flatten", 0), hs("setproduct", 0, 1)}},
		// maps
		{[]cty.Value{mV("b", nI(2), "a", nI(1)), sV("a"), nI(9), mV("c", nI(3))},
			[]histStep{hs("keys", 0), hs("values", 0), hs("lookup", 0, 1, 2), hs("merge", 0, 3), hs("length", 0), hs("index", 0, 1), hs("keys", 0), hs("values", -4)}},
		// numbers
		{[]cty.Value{nF(0), nF(1), nF(0.1), nI(3)},
			[]histStep{hs("range", 0, 1, 2), hs("element", -1, 3), hs("range", 0, 1, 2), hs("range", 3), hs("coalesce", 2, 3)}},
	}
}

func runFixedHistory(c *core.Ctx, idx int64, fh fixedHistory) {
	h := &history{c: c, idx: idx, r: core.NewRand(uint64(idx))}
	c.Begin(idx, func() string { return fmt.Sprintf("fixed history over %s", fmtArgs(fh.vals)) })
	slots := h.enterAll(fh.vals)
	results := map[int]slot{}
	for i, st := range fh.steps {
		fd := fnByName(st.fn)
		args := make([]slot, len(st.args))
		for j, a := range st.args {
			switch {
			case a >= 0:
				args[j] = slots[a]
			default:
				s, ok := results[-a]
				if !ok {
					c.Violate("harness", "harness: a fixed history refers to a step without a compared result", "", fmt.Sprintf("history %d step %d", idx, i+1), "")
					return
				}
				args[j] = s
			}
		}
		n := len(h.pool)
		if !h.callKeep(fd, args, "fixed") {
			return
		}
		if len(h.pool) > n {
			results[i+1] = h.pool[len(h.pool)-1]
		}
	}
}

// seqOf builds the list (kind 0) or tuple (kind 1) of the first n of "a","b",...; the
// tuple alternates string and number elements so that a wrong element is also a wrong type.
func seqOf(kind, n int) cty.Value {
	es := make([]cty.Value, n)
	for i := range es {
		if kind == 1 && i%2 == 1 {
			es[i] = nI(int64(100 + i))
		} else {
			es[i] = sV(string(rune('a' + i)))
		}
	}
	if kind == 0 {
		return mkList(cty.String, es)
	}
	return mkTuple(es)
}

// enumerate runs the completely enumerated sub-spaces.
func enumerate(c *core.Ctx, base int64) {
	idx := base
	run := func(fn string, args ...cty.Value) {
		i := idx
		idx++
		if !c.Want(i) {
			return
		}
		c.Count("input:enumerated")
		checkCase(c, i, fnByName(fn), args, nil)
	}

	// element / index / hasindex: list and tuple of length 0..5 x every index in -(2len+3)..(2len+3), plus halves
	for kind := 0; kind < 2; kind++ {
		for n := 0; n <= 5; n++ {
			s := seqOf(kind, n)
			for i := -(2*n + 3); i <= 2*n+3; i++ {
				run("element", s, nI(int64(i)))
				run("index", s, nI(int64(i)))
				run("hasindex", s, nI(int64(i)))
				run("element", s, nF(float64(i)+0.5))
				run("hasindex", s, nF(float64(i)+0.5))
			}
		}
	}
	c.Exhaustive("element, index, hasindex: list and tuple of length 0..5 x every whole index in -(2len+3)..(2len+3) and every half in between")

	// slice: length 0..5 x every (start, end) in -1..len+1
	for kind := 0; kind < 2; kind++ {
		for n := 0; n <= 5; n++ {
			s := seqOf(kind, n)
			for a := -1; a <= n+1; a++ {
				for b := -1; b <= n+1; b++ {
					run("slice", s, nI(int64(a)), nI(int64(b)))
				}
			}
		}
	}
	c.Exhaustive("slice: list and tuple of length 0..5 x every (start, end) in -1..len+1")

	// chunklist: length 0..8 x size -1..10
	for n := 0; n <= 8; n++ {
		s := seqOf(0, n)
		for k := -1; k <= 10; k++ {
			run("chunklist", s, nI(int64(k)))
		}
	}
	c.Exhaustive("chunklist: list of length 0..8 x size -1..10")

	// range on the half-unit grid: one, two and three arguments
	grid := []float64{-3, -2.5, -2, -1.5, -1, -0.5, 0, 0.5, 1, 1.5, 2, 2.5, 3}
	steps := []float64{-2, -1.5, -1, -0.5, 0, 0.5, 1, 1.5, 2}
	for _, a := range grid {
		run("range", nF(a))
		for _, b := range grid {
			run("range", nF(a), nF(b))
			for _, s := range steps {
				run("range", nF(a), nF(b), nF(s))
			}
		}
	}
	c.Exhaustive("range: every start, end in -3..3 and step in -2..2 on the half-unit grid (1, 2 and 3 arguments)")

	// range with decimal-fraction steps (no binary mantissa holds them: the running sums round): the end lies exactly
	// n steps from the start in decimal arithmetic, which the rounded sums reach, overshoot or fall short of
	decStarts := []string{"0", "0.1", "1", "-0.3"}
	decSteps := []string{"0.1", "0.2", "0.3", "0.7", "-0.1", "-0.2", "-0.3", "-0.7"}
	for _, a := range decStarts {
		for _, st := range decSteps {
			ra, _ := new(big.Rat).SetString(a)
			rs, _ := new(big.Rat).SetString(st)
			for n := int64(1); n <= 12; n++ {
				re := new(big.Rat).Add(ra, new(big.Rat).Mul(rs, big.NewRat(n, 1)))
				fa, _ := ra.Float64()
				fe, _ := re.Float64()
				fs, _ := rs.Float64()
				run("range", nF(fa), nF(fe), nF(fs))
				p := func(q *big.Rat) cty.Value { return cty.NumberVal(new(big.Float).SetPrec(512).SetRat(q)) }
				run("range", p(ra), p(re), p(rs))
			}
		}
	}
	c.Exhaustive("range: start in {0, 0.1, 1, -0.3} x step in +-{0.1, 0.2, 0.3, 0.7} x end exactly 1..12 steps away, as float-made (53-bit) and as parsed (512-bit) numbers")

	// set algebra: all pairs (and, for the variadic ones, triples) of subsets of {1,2,3}; one argument as set(string) to force unification
	var subsN, subsS []cty.Value
	for m := 0; m < 8; m++ {
		var en, es []cty.Value
		for b := 0; b < 3; b++ {
			if m&(1<<b) != 0 {
				en = append(en, nI(int64(b+1)))
				es = append(es, sV(fmt.Sprint(b+1)))
			}
		}
		subsN = append(subsN, mkSet(cty.Number, en))
		subsS = append(subsS, mkSet(cty.String, es))
	}
	for _, fn := range []string{"setunion", "setintersection", "setsubtract", "setsymmetricdifference"} {
		for _, x := range subsN {
			for j, y := range subsN {
				run(fn, x, y)
				run(fn, x, subsS[j])
				if fn == "setsubtract" {
					continue
				}
				for _, z := range subsN {
					run(fn, x, y, z)
				}
			}
		}
	}
	for _, x := range subsN {
		for e := 0; e <= 4; e++ {
			run("sethaselement", x, nI(int64(e)))
		}
	}
	c.Exhaustive("set algebra: every pair (union, intersection, symmetric difference: also every triple) of subsets of {1,2,3}, also with one side as set(string); sethaselement for 0..4")

	// setproduct: 2 and 3 arguments, each a list / tuple / set of 0..2 members
	var shapes []cty.Value
	for n := 0; n <= 2; n++ {
		es := strs("p", "q")[:n]
		shapes = append(shapes, mkList(cty.String, es), mkTuple(es), mkSet(cty.String, es))
	}
	numShapes := []cty.Value{cty.ListValEmpty(cty.Number), lV(ints(1, 2)...), tV(nI(1), sV("z")), stV(ints(2, 1)...)}
	for _, x := range shapes {
		for _, y := range numShapes {
			run("setproduct", x, y)
			run("setproduct", y, x)
			for _, z := range shapes {
				run("setproduct", x, y, z)
			}
		}
	}
	c.Exhaustive("setproduct: 2 and 3 arguments over list / tuple / set shapes of 0..2 members")

	// distinct / reverselist / flatten-free permutations: every list over {a,b} of length 0..4
	for n := 0; n <= 4; n++ {
		for m := 0; m < 1<<n; m++ {
			es := make([]cty.Value, n)
			for i := range es {
				es[i] = sV(string(rune('a' + (m>>i)&1)))
			}
			l := mkList(cty.String, es)
			run("distinct", l)
			run("reverselist", l)
			run("sort", l)
			run("compact", l)
			run("contains", l, sV("b"))
		}
	}
	c.Exhaustive("distinct, reverselist, sort, compact, contains: every list over {a,b} of length 0..4")
}
