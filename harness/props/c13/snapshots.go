package c13

import (
	"fmt"
	"strings"

	"github.com/zclconf/go-cty/cty"

	"verif/harness/core"
)

// Set arguments with a past. A caller that keeps a cty.ValueSet, takes a set
// value from it (cty.SetValFromValueSet), changes the ValueSet and takes
// another value holds two set values that must be independent of each other
// and of the ValueSet. One generated case in snapshotEvery that has a non-empty
// set among its arguments (top level, or as an element of a list / tuple
// argument) is rewritten that way: the chosen set S (members M) and a proper
// subset of it (M' = some of M, possibly none) are taken as two snapshots of
// one ValueSet that grows from M' to M or shrinks from M to M' in between, the
// older snapshot is enumerated before and/or after the change, the ValueSet may
// change again afterwards. S's place is taken by the snapshot holding M; the
// snapshot holding M' takes the place of another set argument of the same type
// where there is one (the reference gets cty.SetVal(M') there) and/or is the
// argument of a length() call made first. The reference never sees a snapshot:
// it works on the generator's own cty.SetVal values of the same member lists.

const snapshotEvery = 6

const snapshotMark = "set arguments taken as snapshots of one cty.ValueSet"

const snapshotClass = "set arguments are snapshots of one changing cty.ValueSet: "

// classPrefix: the class prefix of a call that is not a plain single call.
func classPrefix(hist string) string {
	switch {
	case hist == "":
		return ""
	case strings.HasPrefix(hist, snapshotMark):
		return snapshotClass
	}
	return historyClass
}

type setPos struct{ p, j int } // argument p; j >= 0: element j of that list / tuple argument

func snapshotable(v cty.Value) bool {
	return v.Type().IsSetType() && !v.IsNull() && v.IsKnown() && v.LengthInt() > 0 && !v.Type().ElementType().HasDynamicTypes()
}

func setPositions(args []cty.Value, ok func(cty.Value) bool) []setPos {
	var out []setPos
	for p, a := range args {
		if ok(a) {
			out = append(out, setPos{p, -1})
			continue
		}
		if a.IsNull() || !a.IsKnown() || !(a.Type().IsListType() || a.Type().IsTupleType()) {
			continue
		}
		for j, e := range a.AsValueSlice() {
			if ok(e) {
				out = append(out, setPos{p, j})
			}
		}
	}
	return out
}

func at(args []cty.Value, q setPos) cty.Value {
	if q.j < 0 {
		return args[q.p]
	}
	return args[q.p].AsValueSlice()[q.j]
}

func put(args []cty.Value, q setPos, v cty.Value) {
	if q.j < 0 {
		args[q.p] = v
		return
	}
	es := args[q.p].AsValueSlice()
	es[q.j] = v
	if args[q.p].Type().IsListType() {
		args[q.p] = cty.ListVal(es)
	} else {
		args[q.p] = cty.TupleVal(es)
	}
}

func walkSet(v cty.Value) {
	for it := v.ElementIterator(); it.Next(); {
		it.Element()
	}
}

// runSnapshotCase rewrites the case as described above and runs it; false = the case has no set to rewrite
// (the caller then runs it as it is).
func runSnapshotCase(c *core.Ctx, idx int64, r *core.Rand, fd *FnDef, args []cty.Value) (done bool) {
	cands := setPositions(args, snapshotable)
	if len(cands) == 0 {
		return false
	}
	a := cands[r.Intn(len(cands))]
	S := at(args, a)
	ety := S.Type().ElementType()
	ms := S.AsValueSlice()
	M := make([]cty.Value, len(ms))
	for i, k := range r.Perm(len(ms)) {
		M[i] = ms[k]
	}
	k := r.Intn(len(M)) // M' = M[:k], a proper subset
	grow := r.Bool()
	var steps []string
	var big, sub cty.Value
	o := core.Guard(func() {
		vs := cty.NewValueSet(ety)
		var older cty.Value
		first, rest := M[:k], M[k:]
		if !grow {
			first = M
		}
		for _, e := range first {
			vs.Add(e)
		}
		older = cty.SetValFromValueSet(vs)
		steps = append(steps, fmt.Sprintf("%d members added, snapshot A", len(first)))
		if r.Bool() {
			walkSet(older)
			steps = append(steps, "A enumerated")
		}
		for _, e := range rest {
			if grow {
				vs.Add(e)
			} else {
				vs.Remove(e)
			}
		}
		if grow {
			steps = append(steps, fmt.Sprintf("%d more added", len(rest)))
		} else {
			steps = append(steps, fmt.Sprintf("%d removed", len(rest)))
		}
		if r.Bool() {
			walkSet(older)
			steps = append(steps, "A enumerated")
		}
		newer := cty.SetValFromValueSet(vs)
		steps = append(steps, "snapshot B")
		switch r.Intn(4) {
		case 0:
			// the ValueSet lives on and changes after both values were taken
			for _, e := range M[:k] {
				vs.Remove(e)
			}
			steps = append(steps, fmt.Sprintf("%d removed", k))
		case 1:
			walkSet(newer)
			steps = append(steps, "B enumerated")
		}
		if grow {
			big, sub = newer, older
			steps = append(steps, "A holds the subset")
		} else {
			big, sub = older, newer
			steps = append(steps, "B holds the subset")
		}
	})
	if o.Panicked {
		return false
	}
	subRef := cty.SetValEmpty(ety)
	if k > 0 {
		subRef = cty.SetVal(M[:k])
	}
	lib := append([]cty.Value(nil), args...)
	ref := append([]cty.Value(nil), args...)
	put(lib, a, big)
	// the other snapshot takes the place of another set argument of the same type, where there is one
	placed := false
	if others := setPositions(args, func(v cty.Value) bool {
		return v.Type().Equals(S.Type()) && !v.IsNull() && v.IsKnown()
	}); len(others) > 1 && r.Chance(3, 4) {
		b := others[r.Intn(len(others))]
		if b != a {
			put(lib, b, sub)
			put(ref, b, subRef)
			placed = true
			steps = append(steps, fmt.Sprintf("the subset is argument %d", b.p))
		}
	}
	c.Count("input:set-snapshots")
	hist := snapshotMark + " (" + strings.Join(steps, ", ") + "): "
	c.Begin(idx, func() string { return hist + fd.Name + "(" + fmtArgs(ref) + ")" })
	if !placed || r.Bool() {
		c.Count("input:set-snapshots:length-of-the-other-first")
		_, _, _, _, _, call := checkCall(c, idx, fnByName("length"), []cty.Value{sub}, []cty.Value{subRef}, nil, hist)
		hist += call + "; "
	}
	if placed {
		c.Count("input:set-snapshots:both-are-arguments")
	}
	checkCall(c, idx, fd, lib, ref, nil, hist)
	return true
}
