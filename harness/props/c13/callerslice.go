package c13

import (
	"bytes"
	"fmt"
	"strings"

	"github.com/zclconf/go-cty/cty"

	"verif/harness/core"
)

// Function.Call hands the slice it is given straight to the implementation. A
// caller may well hold its arguments in a longer slice (params[:2] of a
// three-element params) and use that slice again afterwards, so the harness
// calls the library that way: the arguments are the first n elements of a
// backing array with room for two more, the spare elements being values of the
// caller's own (sentinels). After the call every element of the backing array
// must be the very value that was put there; a share of the calls is repeated
// through the same slice, and for variadic functions the longer form
// buf[:n+1], whose last argument is the first sentinel, is called next to the
// reference as well.

const spareRoom = 2

// beyond is the value of a spare element that is never meant to be an argument.
var beyond = cty.StringVal("verif: the caller's own value past the end of the arguments")

type callerSlice struct {
	buf     []cty.Value // len n, cap n+spareRoom: what the library is given
	priv    []cty.Value // the harness's own record of all cap(buf) elements
	fp0     []byte      // complete internal state of the first spare element where it is a copy of an argument (the marker is a plain string)
	refArgs []cty.Value
	sentRef cty.Value // reference-side twin of the first spare element
	idx     int64
	second  bool // repeat the call through the same slice
	longer  bool // call the longer form buf[:n+1]
}

func newCallerSlice(fd *FnDef, libArgs, refArgs []cty.Value, idx int64) *callerSlice {
	n := len(libArgs)
	cs := &callerSlice{refArgs: refArgs, idx: idx}
	fixedPart := idx >= 1_000_000_000
	cs.second = fixedPart || idx%8 == 3
	cs.longer = fd.Fn.VarParam() != nil && (fixedPart || idx%4 == 1)
	cs.buf = make([]cty.Value, n, n+spareRoom)
	copy(cs.buf, libArgs)
	full := cs.buf[:n+spareRoom]
	full[n], full[n+1] = beyond, beyond
	cs.sentRef = beyond
	if cs.longer && n > 0 {
		// a plausible further argument: a rebuilt copy of one of the arguments
		k := int((idx / 4) % int64(n))
		full[n] = cloneVal(refArgs[k])
		cs.sentRef = cloneVal(refArgs[k])
	}
	cs.priv = append([]cty.Value(nil), full...)
	if cs.longer && n > 0 {
		cs.fp0 = cty.VerifFingerprint(full[n])
	}
	return cs
}

func (cs *callerSlice) args() []cty.Value { return cs.buf }

// damage reports the elements of the backing array that are no longer the values the caller put there ("" = none).
// The state inside the argument values themselves is the business of the arguments-untouched clause.
func (cs *callerSlice) damage() string {
	n := len(cs.buf)
	full := cs.buf[:cap(cs.buf)]
	var out []string
	for i := range full {
		same := full[i].Type().Equals(cs.priv[i].Type())
		if same {
			o := core.Guard(func() { same = full[i].RawEquals(cs.priv[i]) })
			same = same && !o.Panicked
		}
		if same && i == n && cs.fp0 != nil {
			same = bytes.Equal(cty.VerifFingerprint(full[i]), cs.fp0)
		}
		if !same {
			where := fmt.Sprintf("argument %d of %d", i, n)
			if i >= n {
				where = fmt.Sprintf("element %d of the backing array (the call had %d arguments)", i, n)
			}
			out = append(out, fmt.Sprintf("%s was %#v, is now %#v", where, cs.priv[i], full[i]))
			full[i] = cs.priv[i] // put back, so that the follow-up calls are about the caller's values again
		}
	}
	return strings.Join(out, "\n")
}

// followUps runs the further calls through the same slice after a first call that agreed with the reference.
// It reports whether a violation was reported.
func (cs *callerSlice) followUps(c *core.Ctx, fd *FnDef, site, class, witness, hist string, got cty.Value, err error, ref Ref) (reported bool) {
	n := len(cs.buf)
	violate := func(facet, cl, wit, detail string) {
		reported = true
		c.Violate(site, facet, cl, wit, detail)
	}
	if cs.second {
		c.Count("oracle:second-call-same-slice")
		var got2 cty.Value
		var err2 error
		o := core.Guard(func() { got2, err2 = fd.Fn.Call(cs.buf) })
		c.Eval(1)
		switch {
		case o.Panicked:
			violate("panic: "+core.PanicClass(o.PanicMsg), class, witness+" called a second time through the same slice", o.PanicMsg+"\n"+o.Stack)
		case (err == nil) != (err2 == nil):
			violate(facetSecondCall, class, witness+" called a second time through the same slice", fmt.Sprintf("first call: value %#v, error %v; second call: value %#v, error %v", got, err != nil, got2, err2 != nil))
		case err == nil && !(got2.IsWhollyKnown() && sameType(got2, ref.Val, ref.OrderFree) && sameAsRef(got2, ref)):
			violate(facetSecondCall, class, witness+" called a second time through the same slice", fmt.Sprintf("first call %#v; second call %#v; reference %#v", got, got2, ref.Val))
		}
		if d := cs.damage(); d != "" {
			c.Count("outcome:caller-slice-written")
			violate(facetSliceWritten, classPrefix(hist)+fmt.Sprintf("%d arguments in a slice with room for %d", n, cap(cs.buf)), witness+" called a second time through the same slice", d)
		}
	}
	if cs.longer {
		c.Count("oracle:longer-form-same-slice")
		libArgs := cs.buf[:n+1]
		refArgs := append(append([]cty.Value(nil), cs.refArgs...), cs.sentRef)
		call := fd.Name + "(" + fmtArgs(refArgs) + ")"
		wit := witness + "; then, the first " + fmt.Sprint(n) + " arguments being the same slice elements, " + call
		cl := "longer form through the slice of an earlier call: " + classify(fd.Name, refArgs)
		var ref2 Ref
		ro := core.Guard(func() { ref2 = fd.Ref(refArgs) })
		if ro.Panicked {
			violate(facetRefPanic, "", wit, ro.PanicMsg+"\n"+ro.Stack)
			return
		}
		var got2 cty.Value
		var err2 error
		o := core.Guard(func() { got2, err2 = fd.Fn.Call(libArgs) })
		c.Eval(1)
		c.Distinct(call, !ref2.Err && !ref2.Skip)
		switch {
		case o.Panicked:
			violate("panic: "+core.PanicClass(o.PanicMsg), cl, wit, o.PanicMsg+"\n"+o.Stack)
		case ref2.Skip:
			c.Count("oracle:not-asserted:" + ref2.Why)
		case ref2.Err:
			c.Count("oracle:error-expected")
			if err2 == nil {
				violate(facetOKWhereErr, cl, wit, fmt.Sprintf("reference: %s; library returned %#v", ref2.Why, got2))
			}
		case err2 != nil:
			violate(facetErrWhereOK, cl, wit, fmt.Sprintf("reference result %#v; library error: %s", ref2.Val, errText(err2)))
		case !got2.IsWhollyKnown() || got2.IsMarked():
			violate(facetNotKnown, cl, wit, fmt.Sprintf("library returned %#v; reference %#v", got2, ref2.Val))
		case !sameType(got2, ref2.Val, ref2.OrderFree):
			violate(facetType, cl, wit, fmt.Sprintf("library type %#v (value %#v); reference type %#v (value %#v)", got2.Type(), got2, ref2.Val.Type(), ref2.Val))
		case !sameAsRef(got2, ref2):
			violate(facetValue, cl, wit, fmt.Sprintf("library %#v; reference %#v", got2, ref2.Val))
		default:
			c.Count("oracle:value-expected")
			c.Count("outcome:agree-value")
		}
		if d := cs.damage(); d != "" {
			c.Count("outcome:caller-slice-written")
			violate(facetSliceWritten, classPrefix(hist)+fmt.Sprintf("%d arguments in a slice with room for %d", n+1, cap(cs.buf)), wit, d)
		}
	}
	return reported
}
