// Package c13: collection, set and sequence functions match reference semantics.
//
// Runtime monitoring with a reference-model monitor: every stdlib function of
// the family is called on generated, wholly known argument lists next to an
// independent executable model of its documented behaviour (ref.go); the
// monitor compares outcome class (error / success), exact result type and
// result value (documented equality).
package c13

import (
	"fmt"
	"strings"

	"github.com/zclconf/go-cty/cty"
	"github.com/zclconf/go-cty/cty/function"
	"github.com/zclconf/go-cty/cty/function/stdlib"

	"verif/harness/core"
	"verif/harness/mon"
)

type Driver struct{}

func (Driver) ID() string { return "C13" }

func (Driver) Info() core.Info {
	return core.Info{
		Title: "collection, set and sequence functions match reference semantics",
		Rule: "case = (function, wholly known argument list). 27 functions x an equal share of argument lists drawn per function from its parameter constraints " +
			"(empty and non-empty collections, duplicates, nested nulls, list/tuple and map/object forms, indices/sizes/steps in -(len+2)..(len+2) plus halves, 2^40 and the int64 edges; " +
			"~9% of lists are pushed out of the domain: top-level null, argument of another type, wrong count) plus, in batch 0 of every run, a fixed corpus (rows transcribed by hand from the table tests, " +
			"boundary cases, defect witnesses; a row with an expectation also calibrates the reference) and seven completely enumerated sub-spaces (see exhaustive_subspaces). " +
			"Oracle: Call fails exactly where the reference says 'outside the documented domain'; otherwise the result has exactly the reference's type and is model-equal to it; never a Go panic. " +
			"distinct = hash of (function, %#v of the arguments); non-trivial = the reference is in-domain, so type and value were compared",
		Assumptions: []string{
			"trusted base of the reference: cty constructors and read accessors, convert.UnifyUnsafe / convert.Convert (the documented meaning of 'unified type' / 'converted to'; checked by C08/C09), mon.ModelEqual",
			"set iteration order is asserted only for primitive element types (the only order cty documents); otherwise results are compared as multisets",
			"numbers are small integers, dyadic fractions, 2^40 and int64 edges, on which arithmetic is exact (rounding is C02/C14's subject); no marks, no unknowns (C04, C12)",
			"setsymmetricdifference of more than two sets is the left fold (Appendix A), although one doc comment reads 'in any of the sets but not multiple'",
			"clauses resting on DESIGN Appendix A alone (no description / table-test row in /repo), counted as clause:*:appendix-only: lookup on objects, compact drops nulls, zipmap last duplicate key wins",
			"not asserted (counted as oracle:not-asserted): infinite range arguments, dynamically typed null arguments of merge / coalescelist, element types with dynamic parts",
			"a function.PanicError where the reference also expects an error is only cross-noted for C11",
		},
		MinNontrivial: 5000,
	}
}

func (Driver) Batches(tier string) int {
	if tier == "thorough" {
		return 64
	}
	return 16
}

// FnDef ties a function under test to its reference and generator.
type FnDef struct {
	Name string
	Fn   function.Function
	Ref  func([]cty.Value) Ref
	Gen  func(*core.Rand) []cty.Value
}

// Funcs is the list of functions covered by C13.
var Funcs = []FnDef{
	{"length", stdlib.LengthFunc, refLength, genLength},
	{"element", stdlib.ElementFunc, refElement, genElement},
	{"index", stdlib.IndexFunc, refIndex, genIndex},
	{"hasindex", stdlib.HasIndexFunc, refHasIndex, genHasIndex},
	{"lookup", stdlib.LookupFunc, refLookup, genLookup},
	{"contains", stdlib.ContainsFunc, refContains, genContains},
	{"keys", stdlib.KeysFunc, refKeys, genKeys},
	{"values", stdlib.ValuesFunc, refValues, genKeys},
	{"merge", stdlib.MergeFunc, refMerge, genMerge},
	{"concat", stdlib.ConcatFunc, refConcat, genConcat},
	{"flatten", stdlib.FlattenFunc, refFlatten, genFlatten},
	{"slice", stdlib.SliceFunc, refSlice, genSlice},
	{"chunklist", stdlib.ChunklistFunc, refChunklist, genChunklist},
	{"distinct", stdlib.DistinctFunc, refDistinct, genDistinct},
	{"compact", stdlib.CompactFunc, refCompact, genStringList(25)},
	{"reverselist", stdlib.ReverseListFunc, refReverse, genReverse},
	{"sort", stdlib.SortFunc, refSort, genStringList(4)},
	{"zipmap", stdlib.ZipmapFunc, refZipmap, genZipmap},
	{"range", stdlib.RangeFunc, refRange, genRange},
	{"coalesce", stdlib.CoalesceFunc, refCoalesce, genCoalesce},
	{"coalescelist", stdlib.CoalesceListFunc, refCoalesceList, genCoalesceList},
	{"setproduct", stdlib.SetProductFunc, refSetProduct, genSetProduct},
	{"setunion", stdlib.SetUnionFunc, refSetOp("union"), genSets(1, 3)},
	{"setintersection", stdlib.SetIntersectionFunc, refSetOp("intersection"), genSets(1, 3)},
	{"setsubtract", stdlib.SetSubtractFunc, refSetOp("subtract"), genSets(2, 2)},
	{"setsymmetricdifference", stdlib.SetSymmetricDifferenceFunc, refSetOp("symdiff"), genSets(1, 3)},
	{"sethaselement", stdlib.SetHasElementFunc, refSetHasElement, genSetHasElement},
}

func fnByName(name string) *FnDef {
	for i := range Funcs {
		if Funcs[i].Name == name {
			return &Funcs[i]
		}
	}
	return nil
}

const (
	perFnQuick    = 60000
	perFnThorough = 2000000
)

func (Driver) Run(c *core.Ctx) {
	nf := int64(len(Funcs))
	per := int64(c.N(perFnQuick, perFnThorough))
	total := per * nf
	// the case list is split evenly: batch b runs cases [b*share, (b+1)*share) of every function's quota
	share := (total + int64(c.NBatches) - 1) / int64(c.NBatches)
	share = (share + nf - 1) / nf * nf // whole rounds over the functions
	for i := int64(0); i < share; i++ {
		if !c.Want(i) {
			continue
		}
		r := c.RNG(i)
		fd := &Funcs[i%nf]
		args := fd.Gen(r)
		args, pert := perturb(r, args)
		if pert != "" {
			c.Count("input:" + pert)
		}
		checkCase(c, i, fd, args, nil)
	}
	if c.Batch == 0 {
		runCorpus(c, 1_000_000_000)
	}
}

// errText is the error message without the goroutine dump a function.PanicError carries.
func errText(err error) string {
	t := err.Error()
	if i := strings.Index(t, "\ngoroutine "); i >= 0 {
		t = t[:i]
	}
	return t
}

func fmtArgs(a []cty.Value) string {
	p := make([]string, len(a))
	for i, v := range a {
		p[i] = fmt.Sprintf("%#v", v)
	}
	return strings.Join(p, ", ")
}

const (
	facetErrWhereOK = "error where the reference succeeds"
	facetOKWhereErr = "success where the reference says outside the documented domain"
	facetType       = "result type differs from the reference"
	facetValue      = "result value differs from the reference"
	facetNotKnown   = "result of wholly known arguments is not wholly known, or is marked"
	facetRefPanic   = "harness: reference implementation panicked"
	facetFixture    = "harness: reference disagrees with a transcribed fixture"
	facetFixtureLib = "library disagrees with a transcribed table-test fixture"
)

// fixture is an expectation transcribed from the table tests (or written by
// hand for a boundary case); nil means "reference only".
type fixture struct {
	err  bool
	want cty.Value
}

func checkCase(c *core.Ctx, idx int64, fd *FnDef, args []cty.Value, fx *fixture) {
	site := "stdlib." + fd.Name
	desc := func() string { return fd.Name + "(" + fmtArgs(args) + ")" }
	c.Begin(idx, desc)
	c.Count("fn:" + fd.Name)

	// reference
	var ref Ref
	ro := core.Guard(func() { ref = fd.Ref(args) })
	if ro.Panicked {
		c.Violate(site, facetRefPanic, "", desc(), ro.PanicMsg+"\n"+ro.Stack)
		return
	}

	// library
	var got cty.Value
	var err error
	o := core.Guard(func() { got, err = fd.Fn.Call(args) })
	c.Eval(1)
	witness := desc()
	class := classify(fd.Name, args)
	c.Distinct(witness, !ref.Err && !ref.Skip)

	if o.Panicked {
		c.Count("outcome:go-panic")
		c.Violate(site, "panic: "+core.PanicClass(o.PanicMsg), class, witness, o.PanicMsg+"\n"+o.Stack)
		return
	}
	if err == nil {
		if w := mon.WellFormed(got); w != "" {
			c.CrossNote("C06", site+": "+w, witness)
		}
		if e := cty.VerifWellFormed(got); e != nil {
			c.CrossNote("C06", site+": (hook) "+e.Error(), witness)
		}
	}
	_, isPanicErr := err.(function.PanicError)

	// fixture (calibration of both sides)
	if fx != nil {
		c.Count("oracle:fixture")
		switch {
		case fx.err != ref.Err && !ref.Skip:
			c.Violate(site, facetFixture, "", witness, fmt.Sprintf("fixture expects error=%v, reference says error=%v (%s)", fx.err, ref.Err, ref.Why))
		case !fx.err && !ref.Skip && !(ref.Val.Type().Equals(fx.want.Type()) && sameValue(ref.Val, fx.want, ref.OrderFree)):
			c.Violate(site, facetFixture, "", witness, fmt.Sprintf("fixture expects %#v, reference gives %#v", fx.want, ref.Val))
		}
		// where the reference decides the case, agreement of reference and fixture (just checked) makes the
		// comparison below cover the fixture as well; the library is held against the fixture directly
		// only where the reference asserts nothing.
		if ref.Skip {
			switch {
			case fx.err != (err != nil):
				c.Violate(site, facetFixtureLib, class, witness, fmt.Sprintf("fixture expects error=%v, library: value %#v error %v", fx.err, got, err != nil))
			case !fx.err && !(got.Type().Equals(fx.want.Type()) && sameValue(got, fx.want, false)):
				c.Violate(site, facetFixtureLib, class, witness, fmt.Sprintf("fixture expects %#v, library gives %#v", fx.want, got))
			}
		}
	}

	switch {
	case ref.Skip:
		c.Count("oracle:not-asserted:" + ref.Why)
		if isPanicErr {
			c.CrossNote("C11", site+": function.PanicError: "+core.PanicClass(errText(err)), witness)
		}
		return
	case ref.Err:
		c.Count("oracle:error-expected")
		c.Count("domain:" + fd.Name + ":outside")
		if err == nil {
			c.Count("outcome:disagree")
			c.Violate(site, facetOKWhereErr, class, witness, fmt.Sprintf("reference: %s; library returned %#v", ref.Why, got))
			return
		}
		if isPanicErr {
			c.CrossNote("C11", site+": function.PanicError: "+core.PanicClass(errText(err)), witness)
		}
		c.Count("outcome:agree-error")
		return
	}
	c.Count("oracle:value-expected")
	c.Count("domain:" + fd.Name + ":inside")
	seen := map[string]bool{}
	for _, cl := range ref.Clauses {
		if !seen[cl] {
			seen[cl] = true
			c.Count("clause:" + fd.Name + ":" + cl)
		}
	}
	if ref.OrderFree {
		c.Count("oracle:order-free")
	}
	if err != nil {
		c.Count("outcome:disagree")
		d := fmt.Sprintf("reference result %#v; library error: %s", ref.Val, errText(err))
		if isPanicErr {
			d = "function.PanicError; " + d
		}
		c.Violate(site, facetErrWhereOK, class, witness, d)
		return
	}
	if !got.IsWhollyKnown() || got.IsMarked() {
		c.Count("outcome:disagree")
		c.Violate(site, facetNotKnown, class, witness, fmt.Sprintf("library returned %#v; reference %#v", got, ref.Val))
		return
	}
	if !sameType(got, ref.Val, ref.OrderFree) {
		c.Count("outcome:disagree")
		c.Violate(site, facetType, class, witness, fmt.Sprintf("library type %#v (value %#v); reference type %#v (value %#v)", got.Type(), got, ref.Val.Type(), ref.Val))
		return
	}
	if !sameValue(got, ref.Val, ref.OrderFree) {
		c.Count("outcome:disagree")
		c.Violate(site, facetValue, class, witness, fmt.Sprintf("library %#v; reference %#v", got, ref.Val))
		return
	}
	c.Count("outcome:agree-value")
	c.Count("result-kind:" + kindOf(got.Type()))
	if c.WantSample() && (idx%7 == 3) {
		c.Sample(map[string]any{"call": witness, "result": fmt.Sprintf("%#v", got), "reference": fmt.Sprintf("%#v", ref.Val)})
	}
}

// sameType: exact type equality; with orderFree the result of flatten over an
// unordered set may legitimately permute a tuple's element types.
func sameType(got, want cty.Value, orderFree bool) bool {
	if got.Type().Equals(want.Type()) {
		return true
	}
	if orderFree && got.Type().IsTupleType() && want.Type().IsTupleType() {
		return len(got.Type().TupleElementTypes()) == len(want.Type().TupleElementTypes())
	}
	return false
}

// sameValue: model equality; with orderFree the top-level elements are compared as multisets.
func sameValue(got, want cty.Value, orderFree bool) bool {
	if !orderFree {
		return got.Type().Equals(want.Type()) && mon.ModelEqual(got, want)
	}
	if got.IsNull() || want.IsNull() {
		return got.IsNull() && want.IsNull()
	}
	gs, ws := got.AsValueSlice(), want.AsValueSlice()
	if len(gs) != len(ws) {
		return false
	}
	used := make([]bool, len(ws))
outer:
	for _, g := range gs {
		for j, w := range ws {
			if !used[j] && g.Type().Equals(w.Type()) && mon.ModelEqual(g, w) {
				used[j] = true
				continue outer
			}
		}
		return false
	}
	return true
}

// ---- input classes ----------------------------------------------------------------

func numClass(v cty.Value) string {
	f := v.AsBigFloat()
	switch {
	case f.IsInf():
		return "inf"
	case !f.IsInt():
		return "frac"
	}
	if _, ok := int64Of(v); !ok {
		return "beyond-int64"
	}
	switch f.Sign() {
	case 0:
		return "zero"
	case -1:
		return "neg"
	}
	return "pos"
}

func shape(v cty.Value) string {
	k := kindOf(v.Type())
	if v.IsNull() {
		return "null-" + k
	}
	switch k {
	case "number":
		return "number:" + numClass(v)
	case "list", "set", "tuple", "map", "object":
		if v.LengthInt() == 0 {
			return "empty-" + k
		}
		if k == "list" || k == "set" || k == "map" {
			return k + "(" + kindOf(v.Type().ElementType()) + ")"
		}
	}
	return k
}

func shapes(args []cty.Value) string {
	p := make([]string, 0, len(args))
	for i, v := range args {
		if i == 4 {
			p = append(p, "...")
			break
		}
		p = append(p, shape(v))
	}
	return strings.Join(p, ",")
}

// classify computes the narrow, stable input class of a disagreement: a named
// predicate for the inputs of the defects found so far, else the argument shapes.
func classify(fn string, args []cty.Value) string {
	switch fn {
	case "merge":
		if len(args) > 0 && args[0].Type().IsObjectType() && len(args[0].Type().AttributeTypes()) > 0 {
			all := true
			for _, a := range args {
				if !a.IsNull() || !a.Type().Equals(args[0].Type()) {
					all = false
				}
			}
			if all {
				return "every argument is a null of one object type with attributes"
			}
		}
	case "range":
		if len(args) == 3 && args[2].Type() == cty.Number && !args[2].IsNull() && args[2].AsBigFloat().Sign() == 0 {
			eq := args[0].Type() == cty.Number && args[1].Type() == cty.Number && !args[0].IsNull() && !args[1].IsNull() &&
				args[0].AsBigFloat().Cmp(args[1].AsBigFloat()) == 0
			if eq {
				return "step is zero and start equals end"
			}
			return "step is zero"
		}
	}
	return shapes(args)
}
