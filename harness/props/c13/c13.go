// Package c13: collection, set and sequence functions match reference semantics.
//
// Runtime monitoring with a reference-model monitor: every stdlib function of
// the family is called on generated, wholly known argument lists next to an
// independent executable model of its documented behaviour (ref.go); the
// monitor compares outcome class (error / success), exact result type and
// result value (documented equality).
package c13

import (
	"bytes"
	"fmt"
	"strings"

	"github.com/zclconf/go-cty/cty"
	"github.com/zclconf/go-cty/cty/function"
	"github.com/zclconf/go-cty/cty/function/stdlib"

	"verif/harness/core"
	"verif/harness/mon"
)

type Driver struct{}

func (Driver) ID() string { return "C13" }

func (Driver) Info() core.Info {
	return core.Info{
		Title: "collection, set and sequence functions match reference semantics",
		Rule: "case = (function, wholly known argument list). 27 functions x an equal share of argument lists drawn per function from its parameter constraints " +
			"(empty and non-empty collections, duplicates, nested nulls, list/tuple and map/object forms, indices/sizes/steps in -(len+2)..(len+2) plus halves, 2^40 and the int64 edges; " +
			"one collection argument in 16 is an EMPTY list / set / map whose element type is drawn from the whole type language, cty.DynamicPseudoType and types with dynamic parts included; " +
			"one range case in 6 has a step that is not a short binary fraction (0.1, 0.3, 1/3, ...) with operands at 24, 53, 64 or 512 bits, so that the running sums round; " +
			"~9% of lists are pushed out of the domain: top-level null, argument of another type, wrong count). One round in 32 is a round of HISTORIES (history.go): a first call, then 1..3 calls of other " +
			"functions of the family that are given a value already in play (an earlier argument, a member of one, an earlier result), then the first call again; the library gets the values themselves, the " +
			"reference gets copies rebuilt through the constructors before the first call, so nothing a call does to a value can reach the expectation of a later call. " +
			"One generated case in 6 that has a non-empty set among its arguments (top level or inside a list / tuple) takes that set and a proper subset of it as two snapshots of one growing or shrinking cty.ValueSet " +
			"(SetValFromValueSet, Add / Remove, SetValFromValueSet; the older snapshot enumerated around the change) and uses both in the case, as two arguments and / or in a length() call made first; the reference gets cty.SetVal values of the same member lists (snapshots.go). " +
			"Every call is made the way a caller holding a longer slice would make it (callerslice.go): the arguments are the first n elements of a backing array with two spare elements of the caller's own; one call in 8 is repeated through the same slice, " +
			"and for variadic functions one in 4 is followed by the longer form buf[:n+1]; both are compared with the reference. " +
			"Plus, in batch 0 of every run, a fixed corpus (rows transcribed by hand from the table tests, boundary cases, defect witnesses, 11 scripted histories; a row with an expectation also calibrates " +
			"the reference) and eight completely enumerated sub-spaces (see exhaustive_subspaces). " +
			"Oracle: Call fails exactly where the reference says 'outside the documented domain'; otherwise the result has exactly the reference's type and is model-equal to it (range: also the same exact numbers); never a Go panic; " +
			"the complete internal state (VerifFingerprint) of every argument is the same after the call as before it (every call of a history and every second single call; in a history: of every value in play); " +
			"after every call each element of the caller's backing array, the spare ones included, is the very value the caller put there. " +
			"distinct = hash of (function, %#v of the arguments); non-trivial = the reference is in-domain, so type and value were compared",
		Assumptions: []string{
			"trusted base of the reference: cty constructors and read accessors, convert.UnifyUnsafe / convert.Convert (the documented meaning of 'unified type' / 'converted to'; checked by C08/C09), mon.ModelEqual",
			"set iteration order is asserted only for primitive element types (the only order cty documents); otherwise results are compared as multisets",
			"numbers are small integers, dyadic fractions, 2^40 and int64 edges, on which arithmetic is exact; only range is also given numbers on which addition rounds, and its reference is the documented wording taken literally " +
				"(start, then add the step repeatedly) with big.Float addition as the meaning of adding two cty numbers (result precision = the larger operand precision, round to nearest even; C02/C14's subject); " +
				"whenever no sum rounds the closed form over exact rationals must agree with it (checked inside the reference). No marks, no unknowns (C04, C12)",
			"range is not asserted where a running sum and the end are equal under exact comparison but not under documented number equality or the other way round (the library's >= is built from cty's operators; which equality the wording means is not documented), " +
				"nor where a sum rounds in the one- and two-argument forms (precision of the implicit start / step not documented)",
			"setsymmetricdifference of more than two sets is the left fold (Appendix A), although one doc comment reads 'in any of the sets but not multiple'",
			"clauses resting on DESIGN Appendix A alone (no description / table-test row in /repo), counted as clause:*:appendix-only: lookup on objects, compact drops nulls, zipmap last duplicate key wins",
			"not asserted (counted as oracle:not-asserted): infinite range arguments, dynamically typed null arguments of merge / coalescelist, element types with dynamic parts",
			"a function.PanicError where the reference also expects an error is only cross-noted for C11",
		},
		MinNontrivial: 5000,
	}
}

func (Driver) Batches(tier string) int {
	if tier == "thorough" {
		return 64
	}
	return 16
}

// FnDef ties a function under test to its reference and generator.
type FnDef struct {
	Name string
	Fn   function.Function
	Ref  func([]cty.Value) Ref
	Gen  func(*core.Rand) []cty.Value
}

// Funcs is the list of functions covered by C13.
var Funcs = []FnDef{
	{"length", stdlib.LengthFunc, refLength, genLength},
	{"element", stdlib.ElementFunc, refElement, genElement},
	{"index", stdlib.IndexFunc, refIndex, genIndex},
	{"hasindex", stdlib.HasIndexFunc, refHasIndex, genHasIndex},
	{"lookup", stdlib.LookupFunc, refLookup, genLookup},
	{"contains", stdlib.ContainsFunc, refContains, genContains},
	{"keys", stdlib.KeysFunc, refKeys, genKeys},
	{"values", stdlib.ValuesFunc, refValues, genKeys},
	{"merge", stdlib.MergeFunc, refMerge, genMerge},
	{"concat", stdlib.ConcatFunc, refConcat, genConcat},
	{"flatten", stdlib.FlattenFunc, refFlatten, genFlatten},
	{"slice", stdlib.SliceFunc, refSlice, genSlice},
	{"chunklist", stdlib.ChunklistFunc, refChunklist, genChunklist},
	{"distinct", stdlib.DistinctFunc, refDistinct, genDistinct},
	{"compact", stdlib.CompactFunc, refCompact, genStringList(25)},
	{"reverselist", stdlib.ReverseListFunc, refReverse, genReverse},
	{"sort", stdlib.SortFunc, refSort, genStringList(4)},
	{"zipmap", stdlib.ZipmapFunc, refZipmap, genZipmap},
	{"range", stdlib.RangeFunc, refRange, genRange},
	{"coalesce", stdlib.CoalesceFunc, refCoalesce, genCoalesce},
	{"coalescelist", stdlib.CoalesceListFunc, refCoalesceList, genCoalesceList},
	{"setproduct", stdlib.SetProductFunc, refSetProduct, genSetProduct},
	{"setunion", stdlib.SetUnionFunc, refSetOp("union"), genSets(1, 3)},
	{"setintersection", stdlib.SetIntersectionFunc, refSetOp("intersection"), genSets(1, 3)},
	{"setsubtract", stdlib.SetSubtractFunc, refSetOp("subtract"), genSets(2, 2)},
	{"setsymmetricdifference", stdlib.SetSymmetricDifferenceFunc, refSetOp("symdiff"), genSets(1, 3)},
	{"sethaselement", stdlib.SetHasElementFunc, refSetHasElement, genSetHasElement},
}

func fnByName(name string) *FnDef {
	for i := range Funcs {
		if Funcs[i].Name == name {
			return &Funcs[i]
		}
	}
	return nil
}

const (
	perFnQuick    = 60000
	perFnThorough = 2000000
)

func (Driver) Run(c *core.Ctx) {
	nf := int64(len(Funcs))
	per := int64(c.N(perFnQuick, perFnThorough))
	total := per * nf
	// the case list is split evenly: batch b runs cases [b*share, (b+1)*share) of every function's quota
	share := (total + int64(c.NBatches) - 1) / int64(c.NBatches)
	share = (share + nf - 1) / nf * nf // whole rounds over the functions
	for i := int64(0); i < share; i++ {
		if !c.Want(i) {
			continue
		}
		r := c.RNG(i)
		fd := &Funcs[i%nf]
		if (i/nf)%historyEvery == historyEvery-1 {
			// one round in historyEvery is a round of multi-call histories (history.go)
			runHistory(c, i, r, fd)
			continue
		}
		args := fd.Gen(r)
		args, pert := perturb(r, args)
		if pert != "" {
			c.Count("input:" + pert)
		}
		if r.Chance(1, snapshotEvery) {
			// set arguments taken as snapshots of one changing cty.ValueSet (snapshots.go)
			if runSnapshotCase(c, i, r, fd, args) {
				continue
			}
		}
		checkCase(c, i, fd, args, nil)
	}
	if c.Batch == 0 {
		runCorpus(c, 1_000_000_000)
	}
}

// errText is the error message without the goroutine dump a function.PanicError carries.
func errText(err error) string {
	t := err.Error()
	if i := strings.Index(t, "\ngoroutine "); i >= 0 {
		t = t[:i]
	}
	return t
}

func fmtArgs(a []cty.Value) string {
	p := make([]string, len(a))
	for i, v := range a {
		p[i] = fmt.Sprintf("%#v", v)
	}
	return strings.Join(p, ", ")
}

const (
	facetErrWhereOK   = "error where the reference succeeds"
	facetOKWhereErr   = "success where the reference says outside the documented domain"
	facetType         = "result type differs from the reference"
	facetValue        = "result value differs from the reference"
	facetNotKnown     = "result of wholly known arguments is not wholly known, or is marked"
	facetArgChanged   = "a value in play is not the same after the call as before it (a later call given this value cannot match the reference)"
	facetSliceWritten = "the call wrote into the caller's argument slice (an element of its backing array is not the value the caller put there)"
	facetSecondCall   = "a second call through the same argument slice does not answer as the first call did"
	facetRefPanic     = "harness: reference implementation panicked"
	facetFixture      = "harness: reference disagrees with a transcribed fixture"
	facetFixtureLib   = "library disagrees with a transcribed table-test fixture"
)

// fixture is an expectation transcribed from the table tests (or written by
// hand for a boundary case); nil means "reference only".
type fixture struct {
	err  bool
	want cty.Value
}

func checkCase(c *core.Ctx, idx int64, fd *FnDef, args []cty.Value, fx *fixture) {
	c.Begin(idx, func() string { return fd.Name + "(" + fmtArgs(args) + ")" })
	checkCall(c, idx, fd, args, args, fx, "")
}

// historyClass marks the input class of a disagreement that was observed in a
// later step of a multi-call history (history.go).
const historyClass = "after earlier calls on the same values: "

// checkCall runs one call next to the reference. libArgs go to the library;
// refArgs, structurally the same values, go to the reference and into the
// witness (in a history they are copies rebuilt through the constructors that
// share no type or payload with libArgs, so nothing an earlier call did to a
// library-side value can reach the reference). hist describes the earlier
// calls of the history ("" for a single call). agreed reports that the
// library returned a value and that it matched the reference by type and value,
// reported that a violation (new or known) was reported, argChanged that one of them was a changed argument;
// call is the text of the call.
func checkCall(c *core.Ctx, idx int64, fd *FnDef, libArgs, refArgs []cty.Value, fx *fixture, hist string) (got cty.Value, ref Ref, agreed, reported, argChanged bool, call string) {
	violate := func(site, facet, class, witness, detail string) {
		reported = true
		c.Violate(site, facet, class, witness, detail)
	}
	site := "stdlib." + fd.Name
	call = fd.Name + "(" + fmtArgs(refArgs) + ")"
	witness := call
	if hist != "" {
		witness = hist + call
	}
	c.Count("fn:" + fd.Name)

	// reference
	ro := core.Guard(func() { ref = fd.Ref(refArgs) })
	if ro.Panicked {
		violate(site, facetRefPanic, "", witness, ro.PanicMsg+"\n"+ro.Stack)
		return
	}

	// library, with the complete internal state of every argument taken before and after
	untouched := hist != "" || idx >= 1_000_000_000 || idx%2 == 0 // every call of a history (its first call has an odd or even index like any case), the fixed part, every second single call
	var before [][]byte
	if untouched {
		before = make([][]byte, len(libArgs))
		for i, a := range libArgs {
			before[i] = cty.VerifFingerprint(a)
		}
	}
	// The library is handed the arguments the way a caller holding a longer slice would: as the first len(libArgs)
	// elements of a backing array with room to spare, the elements past the end being the caller's own values.
	cs := newCallerSlice(fd, libArgs, refArgs, idx)
	var err error
	o := core.Guard(func() { got, err = fd.Fn.Call(cs.args()) })
	c.Eval(1)
	class := classify(fd.Name, refArgs)
	class = classPrefix(hist) + class
	c.Distinct(call, !ref.Err && !ref.Skip)

	if o.Panicked {
		c.Count("outcome:go-panic")
		violate(site, "panic: "+core.PanicClass(o.PanicMsg), class, witness, o.PanicMsg+"\n"+o.Stack)
		return
	}
	// the caller's slice: every element of the backing array, those past the end included, is the very value the caller put there
	c.Count("oracle:caller-slice-untouched")
	if d := cs.damage(); d != "" {
		c.Count("outcome:caller-slice-written")
		cl := classPrefix(hist) + fmt.Sprintf("%d arguments in a slice with room for %d", len(libArgs), cap(cs.buf))
		violate(site, facetSliceWritten, cl, witness, d)
		argChanged = true
	}
	if untouched {
		c.Count("oracle:arguments-untouched")
		for i, a := range libArgs {
			if after := cty.VerifFingerprint(a); !bytes.Equal(after, before[i]) {
				// reported, and the result is still compared below (it may well be right: the damage shows in later calls)
				c.Count("outcome:argument-changed")
				cl := fmt.Sprintf("argument %d (%s) of %d", i, shape(refArgs[i]), len(refArgs))
				cl = classPrefix(hist) + cl
				violate(site, facetArgChanged, cl, witness, fmt.Sprintf("argument %d before the call: %s\nafter the call: %s", i, before[i], after))
				argChanged = true
			}
		}
	}
	if err == nil {
		if w := mon.WellFormed(got); w != "" {
			c.CrossNote("C06", site+": "+w, witness)
		}
		if e := cty.VerifWellFormed(got); e != nil {
			c.CrossNote("C06", site+": (hook) "+e.Error(), witness)
		}
	}
	_, isPanicErr := err.(function.PanicError)

	// fixture (calibration of both sides)
	if fx != nil {
		c.Count("oracle:fixture")
		switch {
		case fx.err != ref.Err && !ref.Skip:
			violate(site, facetFixture, "", witness, fmt.Sprintf("fixture expects error=%v, reference says error=%v (%s)", fx.err, ref.Err, ref.Why))
		case !fx.err && !ref.Skip && !(ref.Val.Type().Equals(fx.want.Type()) && sameValue(ref.Val, fx.want, ref.OrderFree)):
			violate(site, facetFixture, "", witness, fmt.Sprintf("fixture expects %#v, reference gives %#v", fx.want, ref.Val))
		}
		// where the reference decides the case, agreement of reference and fixture (just checked) makes the
		// comparison below cover the fixture as well; the library is held against the fixture directly
		// only where the reference asserts nothing.
		if ref.Skip {
			switch {
			case fx.err != (err != nil):
				violate(site, facetFixtureLib, class, witness, fmt.Sprintf("fixture expects error=%v, library: value %#v error %v", fx.err, got, err != nil))
			case !fx.err && !(got.Type().Equals(fx.want.Type()) && sameValue(got, fx.want, false)):
				violate(site, facetFixtureLib, class, witness, fmt.Sprintf("fixture expects %#v, library gives %#v", fx.want, got))
			}
		}
	}

	switch {
	case ref.Skip:
		c.Count("oracle:not-asserted:" + ref.Why)
		if isPanicErr {
			c.CrossNote("C11", site+": function.PanicError: "+core.PanicClass(errText(err)), witness)
		}
		return
	case ref.Err:
		c.Count("oracle:error-expected")
		c.Count("domain:" + fd.Name + ":outside")
		if err == nil {
			c.Count("outcome:disagree")
			violate(site, facetOKWhereErr, class, witness, fmt.Sprintf("reference: %s; library returned %#v", ref.Why, got))
			return
		}
		if isPanicErr {
			c.CrossNote("C11", site+": function.PanicError: "+core.PanicClass(errText(err)), witness)
		}
		c.Count("outcome:agree-error")
		if !reported {
			reported = cs.followUps(c, fd, site, class, witness, hist, got, err, ref)
		}
		return
	}
	c.Count("oracle:value-expected")
	c.Count("domain:" + fd.Name + ":inside")
	seen := map[string]bool{}
	for _, cl := range ref.Clauses {
		if !seen[cl] {
			seen[cl] = true
			c.Count("clause:" + fd.Name + ":" + cl)
		}
	}
	if ref.OrderFree {
		c.Count("oracle:order-free")
	}
	if err != nil {
		c.Count("outcome:disagree")
		d := fmt.Sprintf("reference result %#v; library error: %s", ref.Val, errText(err))
		if isPanicErr {
			d = "function.PanicError; " + d
		}
		violate(site, facetErrWhereOK, class, witness, d)
		return
	}
	if !got.IsWhollyKnown() || got.IsMarked() {
		c.Count("outcome:disagree")
		violate(site, facetNotKnown, class, witness, fmt.Sprintf("library returned %#v; reference %#v", got, ref.Val))
		return
	}
	if !sameType(got, ref.Val, ref.OrderFree) {
		c.Count("outcome:disagree")
		violate(site, facetType, class, witness, fmt.Sprintf("library type %#v (value %#v); reference type %#v (value %#v)", got.Type(), got, ref.Val.Type(), ref.Val))
		return
	}
	if !sameAsRef(got, ref) {
		c.Count("outcome:disagree")
		violate(site, facetValue, class, witness, fmt.Sprintf("library %#v; reference %#v", got, ref.Val))
		return
	}
	c.Count("outcome:agree-value")
	c.Count("result-kind:" + kindOf(got.Type()))
	if !reported {
		if cs.followUps(c, fd, site, class, witness, hist, got, err, ref) {
			return got, ref, false, true, argChanged, call
		}
	}
	if c.WantSample() && (idx%7 == 3) {
		c.Sample(map[string]any{"call": witness, "result": fmt.Sprintf("%#v", got), "reference": fmt.Sprintf("%#v", ref.Val)})
	}
	return got, ref, true, reported, argChanged, call
}

// sameAsRef: the value comparison of the oracle (the types were compared before).
func sameAsRef(got cty.Value, ref Ref) bool {
	if ref.ExactNums && !sameNumbersExactly(got, ref.Val) {
		return false
	}
	return ref.ExactNums && sameNumbersBitwise(got, ref.Val) || sameValue(got, ref.Val, ref.OrderFree)
}

// sameNumbersExactly: two lists of numbers hold, position by position, the
// same exact values (documented equality compares fractional numbers by their
// shortest decimal text, which can conflate neighbours held at different precisions).
func sameNumbersExactly(got, want cty.Value) bool {
	gs, ws := got.AsValueSlice(), want.AsValueSlice()
	if len(gs) != len(ws) {
		return false
	}
	for i := range gs {
		if gs[i].IsNull() || ws[i].IsNull() || gs[i].AsBigFloat().Cmp(ws[i].AsBigFloat()) != 0 {
			return false
		}
	}
	return true
}

// sameNumbersBitwise: the same exact values at the same precisions, position by position (then
// they are trivially equal under documented equality as well, and the decimal texts need not be produced).
func sameNumbersBitwise(got, want cty.Value) bool {
	gs, ws := got.AsValueSlice(), want.AsValueSlice()
	if len(gs) != len(ws) {
		return false
	}
	for i := range gs {
		if gs[i].IsNull() || ws[i].IsNull() {
			return false
		}
		g, w := gs[i].AsBigFloat(), ws[i].AsBigFloat()
		if g.Prec() != w.Prec() || g.Cmp(w) != 0 {
			return false
		}
	}
	return true
}

// sameType: exact type equality; with orderFree the result of flatten over an
// unordered set may legitimately permute a tuple's element types.
func sameType(got, want cty.Value, orderFree bool) bool {
	if got.Type().Equals(want.Type()) {
		return true
	}
	if orderFree && got.Type().IsTupleType() && want.Type().IsTupleType() {
		return len(got.Type().TupleElementTypes()) == len(want.Type().TupleElementTypes())
	}
	return false
}

// sameValue: model equality; with orderFree the top-level elements are compared as multisets.
func sameValue(got, want cty.Value, orderFree bool) bool {
	if !orderFree {
		return got.Type().Equals(want.Type()) && mon.ModelEqual(got, want)
	}
	if got.IsNull() || want.IsNull() {
		return got.IsNull() && want.IsNull()
	}
	gs, ws := got.AsValueSlice(), want.AsValueSlice()
	if len(gs) != len(ws) {
		return false
	}
	used := make([]bool, len(ws))
outer:
	for _, g := range gs {
		for j, w := range ws {
			if !used[j] && g.Type().Equals(w.Type()) && mon.ModelEqual(g, w) {
				used[j] = true
				continue outer
			}
		}
		return false
	}
	return true
}

// ---- input classes ----------------------------------------------------------------

func numClass(v cty.Value) string {
	f := v.AsBigFloat()
	switch {
	case f.IsInf():
		return "inf"
	case !f.IsInt():
		return "frac"
	}
	if _, ok := int64Of(v); !ok {
		return "beyond-int64"
	}
	switch f.Sign() {
	case 0:
		return "zero"
	case -1:
		return "neg"
	}
	return "pos"
}

func shape(v cty.Value) string {
	k := kindOf(v.Type())
	if v.IsNull() {
		return "null-" + k
	}
	switch k {
	case "number":
		return "number:" + numClass(v)
	case "list", "set", "tuple", "map", "object":
		if v.LengthInt() == 0 {
			return "empty-" + k
		}
		if k == "list" || k == "set" || k == "map" {
			return k + "(" + kindOf(v.Type().ElementType()) + ")"
		}
	}
	return k
}

func shapes(args []cty.Value) string {
	p := make([]string, 0, len(args))
	for i, v := range args {
		if i == 4 {
			p = append(p, "...")
			break
		}
		p = append(p, shape(v))
	}
	return strings.Join(p, ",")
}

// classify computes the narrow, stable input class of a disagreement: a named
// predicate for the inputs of the defects found so far, else the argument shapes.
func classify(fn string, args []cty.Value) string {
	switch fn {
	case "merge":
		if len(args) > 0 && args[0].Type().IsObjectType() && len(args[0].Type().AttributeTypes()) > 0 {
			all := true
			for _, a := range args {
				if !a.IsNull() || !a.Type().Equals(args[0].Type()) {
					all = false
				}
			}
			if all {
				return "every argument is a null of one object type with attributes"
			}
		}
	case "range":
		if len(args) == 3 && args[2].Type() == cty.Number && !args[2].IsNull() && args[2].AsBigFloat().Sign() == 0 {
			eq := args[0].Type() == cty.Number && args[1].Type() == cty.Number && !args[0].IsNull() && !args[1].IsNull() &&
				args[0].AsBigFloat().Cmp(args[1].AsBigFloat()) == 0
			if eq {
				return "step is zero and start equals end"
			}
			return "step is zero"
		}
	}
	return shapes(args)
}
