package c13

// Generators of WHOLLY KNOWN argument lists, one per function, derived from the
// functions' parameter constraints: empty and non-empty collections,
// duplicates, nulls where allowed (and sometimes where not), list/tuple and
// map/object forms, indices / sizes / steps in -(len+2)..(len+2) plus halves,
// 2^40 and the int64 boundaries, empty collections of every element type
// (cty.DynamicPseudoType and types with dynamic parts included: emptyOf),
// range steps that are not short binary fractions (rangeFractional), and a
// small share of arguments of the wrong kind or number (on which the
// reference expects an error).

import (
	"math"
	"math/big"

	"github.com/zclconf/go-cty/cty"

	"verif/harness/core"
	"verif/harness/gen"
)

func vopts(r *core.Rand, maxLen int) gen.ValueOpts {
	o := gen.ValueOpts{SmallNums: true, MaxLen: maxLen, NoTopNull: true}
	if r.Chance(1, 3) {
		o.NullPct = 12
	}
	return o
}

var prims = []cty.Type{cty.String, cty.Number, cty.Bool}

func primTy(r *core.Rand) cty.Type { return prims[r.Weighted([]int{4, 4, 2})] }

// elemTy draws an element type: mostly primitive, sometimes structured.
func elemTy(r *core.Rand) cty.Type {
	if r.Chance(3, 4) {
		return primTy(r)
	}
	return gen.Type(r, 2, gen.TypeOpts{}).Cty()
}

// val draws a value of the given type. Where a list, set or map is asked for, one draw in 16 is
// an EMPTY collection of that kind whose element type is drawn afresh from the whole type
// language: primitive, structured, with dynamic parts inside, or cty.DynamicPseudoType itself
// (what an empty collection made from untyped input looks like, e.g. an empty tuple converted to
// a set). A known collection of a not fully concrete element type can only be an empty one, and
// only through these values do such element types reach the functions at all.
func val(r *core.Rand, ty cty.Type, maxLen int) cty.Value {
	if (ty.IsListType() || ty.IsSetType() || ty.IsMapType()) && r.Chance(1, 16) {
		return emptyOf(r, ty)
	}
	return gen.Value(r, ty, vopts(r, maxLen))
}

// emptyElemTy draws the element type of an empty collection.
func emptyElemTy(r *core.Rand) cty.Type {
	switch r.Intn(8) {
	case 0, 1, 2:
		return cty.DynamicPseudoType
	case 3:
		return gen.Type(r, 3, gen.TypeOpts{Dynamic: true}).Cty()
	case 4:
		return gen.Type(r, 3, gen.TypeOpts{}).Cty()
	}
	return primTy(r)
}

// emptyOf: the empty collection of the kind of ty (list, set or map).
func emptyOf(r *core.Rand, ty cty.Type) cty.Value {
	ety := emptyElemTy(r)
	switch {
	case ty.IsListType():
		return cty.ListValEmpty(ety)
	case ty.IsSetType():
		return cty.SetValEmpty(ety)
	}
	return cty.MapValEmpty(ety)
}

func tupleTy(r *core.Rand, maxLen int, et func(*core.Rand) cty.Type) cty.Type {
	n := r.Intn(maxLen + 1)
	ts := make([]cty.Type, n)
	same := r.Chance(1, 3)
	var t0 cty.Type
	for i := range ts {
		if same && i > 0 {
			ts[i] = t0
		} else {
			ts[i] = et(r)
		}
		if i == 0 {
			t0 = ts[i]
		}
	}
	return cty.Tuple(ts)
}

func objectTy(r *core.Rand, et func(*core.Rand) cty.Type) cty.Type {
	n := r.Intn(4)
	at := map[string]cty.Type{}
	for i := 0; i < n; i++ {
		at[gen.SimpleKey(r)] = et(r)
	}
	return cty.Object(at)
}

// seqVal: a list or tuple.
func seqVal(r *core.Rand, maxLen int) cty.Value {
	if r.Bool() {
		return val(r, cty.List(elemTy(r)), maxLen)
	}
	return val(r, tupleTy(r, maxLen, elemTy), maxLen)
}

// seqOrSet: a list, tuple or set.
func seqOrSet(r *core.Rand, maxLen int) cty.Value {
	switch r.Intn(3) {
	case 0:
		return val(r, cty.Set(elemTy(r)), maxLen)
	}
	return seqVal(r, maxLen)
}

func mapOrObject(r *core.Rand) cty.Value {
	if r.Bool() {
		return val(r, cty.Map(elemTy(r)), 4)
	}
	return val(r, objectTy(r, elemTy), 3)
}

func anyVal(r *core.Rand) cty.Value {
	return val(r, gen.Type(r, 3, gen.TypeOpts{}).Cty(), 3)
}

func pow2(n int) *big.Float {
	f := new(big.Float).SetPrec(512).SetInt64(1)
	return f.SetMantExp(f, n)
}

var two40 = cty.NumberVal(pow2(40))
var negTwo40 = cty.NumberVal(new(big.Float).Neg(pow2(40)))

var int64Edges = []cty.Value{
	cty.NumberIntVal(math.MaxInt64), cty.NumberIntVal(math.MinInt64),
	cty.MustParseNumberVal("9223372036854775808"), cty.MustParseNumberVal("-9223372036854775809"),
	cty.NumberIntVal(math.MaxInt64 - 1), cty.NumberIntVal(math.MinInt64 + 1),
	cty.NumberVal(pow2(64)), cty.MustParseNumberVal("1000000000000000000000000000000"),
}

// idxNum draws an index / size for a sequence of length n.
func idxNum(r *core.Rand, n int) cty.Value {
	span := 2*(n+2) + 1
	small := int64(r.Intn(span) - (n + 2))
	switch k := r.Intn(100); {
	case k < 66:
		return cty.NumberIntVal(small)
	case k < 74:
		return cty.NumberFloatVal(float64(small) + 0.5)
	case k < 79:
		if r.Bool() {
			return two40
		}
		return negTwo40
	case k < 85:
		return int64Edges[r.Intn(len(int64Edges))]
	case k < 90:
		// the same small integer at another precision
		if r.Bool() {
			return cty.NumberFloatVal(float64(small))
		}
		return cty.MustParseNumberVal(big.NewInt(small).String())
	case k < 94:
		return cty.NumberIntVal(int64(n))
	case k < 97:
		return cty.NumberIntVal(0)
	}
	return cty.NumberIntVal(int64(n - 1))
}

func existingKey(r *core.Rand, m cty.Value) (string, bool) {
	if m.IsNull() || m.LengthInt() == 0 {
		return "", false
	}
	ks, _ := entries(m)
	return ks[r.Intn(len(ks))], true
}

func keyFor(r *core.Rand, m cty.Value) cty.Value {
	if r.Chance(3, 5) {
		if k, ok := existingKey(r, m); ok {
			return cty.StringVal(k)
		}
	}
	return cty.StringVal(gen.SimpleKey(r))
}

// elemFor draws a value to look for in coll: an existing member, a fresh value
// of the element type, or a value of another type.
func elemFor(r *core.Rand, coll cty.Value) cty.Value {
	es := coll.AsValueSlice()
	if len(es) > 0 && r.Chance(1, 2) {
		e := es[r.Intn(len(es))]
		if !e.IsNull() {
			return e
		}
	}
	var ety cty.Type
	switch {
	case coll.Type().IsTupleType():
		ts := coll.Type().TupleElementTypes()
		if len(ts) == 0 {
			ety = primTy(r)
		} else {
			ety = ts[r.Intn(len(ts))]
		}
	default:
		ety = coll.Type().ElementType()
	}
	if r.Chance(1, 6) || ety == cty.DynamicPseudoType {
		ety = elemTy(r)
	}
	return val(r, ety, 3)
}

// ---- per-function generators ----------------------------------------------------

func genLength(r *core.Rand) []cty.Value {
	switch r.Intn(6) {
	case 0:
		return []cty.Value{val(r, cty.Map(elemTy(r)), 4)}
	case 1:
		return []cty.Value{val(r, objectTy(r, elemTy), 3)} // outside the domain
	}
	return []cty.Value{seqOrSet(r, 5)}
}

func genHasIndex(r *core.Rand) []cty.Value {
	var coll, key cty.Value
	switch r.Intn(8) {
	case 0, 1, 2:
		coll = val(r, cty.List(elemTy(r)), 5)
		key = idxNum(r, coll.LengthInt())
	case 3, 4:
		coll = val(r, tupleTy(r, 4, elemTy), 3)
		key = idxNum(r, coll.LengthInt())
	case 5, 6:
		coll = val(r, cty.Map(elemTy(r)), 4)
		key = keyFor(r, coll)
	default:
		if r.Bool() {
			coll = val(r, cty.Set(elemTy(r)), 3)
		} else {
			coll = val(r, objectTy(r, elemTy), 3)
		}
		key = []cty.Value{cty.NumberIntVal(0), cty.StringVal("a")}[r.Intn(2)]
	}
	if r.Chance(1, 12) {
		key = []cty.Value{cty.StringVal("a"), cty.StringVal("0"), cty.NumberIntVal(0), cty.True, cty.ListVal([]cty.Value{cty.NumberIntVal(0)})}[r.Intn(5)]
	}
	return []cty.Value{coll, key}
}

// genIndex is genHasIndex biased towards keys that are present (index fails otherwise).
func genIndex(r *core.Rand) []cty.Value {
	a := genHasIndex(r)
	if r.Chance(1, 2) && !a[0].IsNull() {
		switch kindOf(a[0].Type()) {
		case "list", "tuple":
			if n := a[0].LengthInt(); n > 0 {
				a[1] = cty.NumberIntVal(int64(r.Intn(n)))
			}
		case "map":
			if k, ok := existingKey(r, a[0]); ok {
				a[1] = cty.StringVal(k)
			}
		}
	}
	return a
}

func genElement(r *core.Rand) []cty.Value {
	s := seqVal(r, 5)
	return []cty.Value{s, idxNum(r, s.LengthInt())}
}

func genLookup(r *core.Rand) []cty.Value {
	m := mapOrObject(r)
	key := keyFor(r, m)
	var def cty.Value
	switch {
	case m.Type().IsMapType() && r.Chance(2, 3):
		def = val(r, m.Type().ElementType(), 3)
	case r.Chance(1, 2):
		def = val(r, primTy(r), 3)
	default:
		def = val(r, elemTy(r), 3)
	}
	return []cty.Value{m, key, def}
}

func genContains(r *core.Rand) []cty.Value {
	c := seqOrSet(r, 5)
	return []cty.Value{c, elemFor(r, c)}
}

func genKeys(r *core.Rand) []cty.Value { return []cty.Value{mapOrObject(r)} }

func genMerge(r *core.Rand) []cty.Value {
	n := r.Weighted([]int{1, 3, 6, 4, 2})
	out := make([]cty.Value, n)
	ety := elemTy(r)
	oty := objectTy(r, elemTy)
	mode := r.Intn(4) // 0: maps of one type; 1: objects of one type; 2,3: mixed
	for i := range out {
		var ty cty.Type
		switch {
		case mode == 0:
			ty = cty.Map(ety)
		case mode == 1:
			ty = oty
		case r.Chance(1, 3):
			ty = cty.Map(ety)
		case r.Chance(1, 2):
			ty = cty.Map(elemTy(r))
		default:
			ty = objectTy(r, elemTy)
		}
		if r.Chance(1, 8) {
			out[i] = cty.NullVal(ty)
		} else {
			out[i] = val(r, ty, 3)
		}
	}
	return out
}

func genConcat(r *core.Rand) []cty.Value {
	n := r.Weighted([]int{1, 4, 6, 3, 1})
	out := make([]cty.Value, n)
	ety := elemTy(r)
	allLists := r.Chance(3, 5)
	for i := range out {
		switch {
		case allLists && r.Chance(3, 4):
			out[i] = val(r, cty.List(ety), 3)
		case allLists:
			out[i] = val(r, cty.List(primTy(r)), 3)
		default:
			out[i] = seqVal(r, 3)
		}
	}
	return out
}

func nestTy(r *core.Rand, depth int) cty.Type {
	if depth <= 0 {
		return elemTy(r)
	}
	switch r.Intn(6) {
	case 0, 1:
		return cty.List(nestTy(r, depth-1))
	case 2:
		return cty.Set(nestTy(r, depth-1))
	case 3, 4:
		return tupleTy(r, 3, func(r *core.Rand) cty.Type { return nestTy(r, depth-1) })
	}
	return elemTy(r)
}

func genFlatten(r *core.Rand) []cty.Value {
	var ty cty.Type
	switch r.Intn(4) {
	case 0:
		ty = cty.Set(nestTy(r, 2))
	case 1:
		ty = tupleTy(r, 3, func(r *core.Rand) cty.Type { return nestTy(r, 2) })
	default:
		ty = cty.List(nestTy(r, 2))
	}
	return []cty.Value{val(r, ty, 3)}
}

func genSlice(r *core.Rand) []cty.Value {
	s := seqVal(r, 6)
	n := s.LengthInt()
	if r.Chance(11, 20) {
		// inside the domain: 0 <= start <= end <= len (boundaries included), sometimes at another precision
		a, b := r.Intn(n+1), r.Intn(n+1)
		if a > b {
			a, b = b, a
		}
		av, bv := cty.NumberIntVal(int64(a)), cty.NumberIntVal(int64(b))
		if r.Chance(1, 8) {
			av = cty.NumberFloatVal(float64(a))
		}
		if r.Chance(1, 8) {
			bv = cty.MustParseNumberVal(big.NewInt(int64(b)).String())
		}
		return []cty.Value{s, av, bv}
	}
	a, b := idxNum(r, n), idxNum(r, n)
	if r.Chance(1, 2) {
		// bias towards start <= end
		if x, ok1 := int64Of(a); ok1 {
			if y, ok2 := int64Of(b); ok2 && x > y {
				a, b = b, a
			}
		}
	}
	return []cty.Value{s, a, b}
}

func genChunklist(r *core.Rand) []cty.Value {
	l := val(r, cty.List(elemTy(r)), 7)
	if r.Chance(2, 5) {
		return []cty.Value{l, cty.NumberIntVal(int64(r.Intn(l.LengthInt() + 3)))}
	}
	return []cty.Value{l, idxNum(r, l.LengthInt())}
}

func genDistinct(r *core.Rand) []cty.Value {
	return []cty.Value{val(r, cty.List(elemTy(r)), 6)}
}

func genStringList(nullPct int) func(r *core.Rand) []cty.Value {
	return func(r *core.Rand) []cty.Value {
		o := gen.ValueOpts{MaxLen: 6, NoTopNull: true}
		if r.Chance(1, 2) {
			o.NullPct = nullPct
		}
		if r.Chance(1, 3) {
			o.LongStr = true
		}
		return []cty.Value{gen.Value(r, cty.List(cty.String), o)}
	}
}

func genReverse(r *core.Rand) []cty.Value { return []cty.Value{seqOrSet(r, 5)} }

func genZipmap(r *core.Rand) []cty.Value {
	n := r.Intn(5)
	ks := make([]cty.Value, n)
	for i := range ks {
		switch {
		case r.Chance(1, 40):
			ks[i] = cty.NullVal(cty.String)
		case r.Chance(1, 4):
			ks[i] = cty.StringVal(gen.Key(r))
		default:
			ks[i] = cty.StringVal(gen.SimpleKey(r))
		}
	}
	keys := mkList(cty.String, ks)
	m := n
	if r.Chance(1, 6) {
		m = n + r.Intn(3) - 1
		if m < 0 {
			m = 0
		}
	}
	var vals cty.Value
	if r.Bool() {
		ety := elemTy(r)
		vs := make([]cty.Value, m)
		for i := range vs {
			vs[i] = val(r, ety, 3)
		}
		// members of one declared type may still differ in type when that type is structural: go through the typed generator
		if m == 0 {
			vals = cty.ListValEmpty(ety)
		} else if cty.CanListVal(vs) {
			vals = cty.ListVal(vs)
		} else {
			vals = cty.ListVal(vs[:1])
			keys = mkList(cty.String, ks[:min(1, len(ks))])
		}
	} else {
		vs := make([]cty.Value, m)
		for i := range vs {
			vs[i] = val(r, elemTy(r), 3)
		}
		vals = mkTuple(vs)
	}
	return []cty.Value{keys, vals}
}

var rangePool = []float64{0, 1, -1, 2, -2, 3, 5, -5, 6, 0.5, -0.5, 1.5, 2.5, 0.25, 10, 1023, 1024, 1025, -1024, -1025}

func rangeNum(r *core.Rand) cty.Value {
	switch k := r.Intn(20); {
	case k < 13:
		return cty.NumberIntVal(int64(r.Intn(13) - 6))
	case k < 18:
		return cty.NumberFloatVal(rangePool[r.Intn(len(rangePool))])
	case k == 18:
		if r.Bool() {
			return two40
		}
		return cty.NumberVal(new(big.Float).SetPrec(512).Add(pow2(40), big.NewFloat(3)))
	}
	return cty.MustParseNumberVal([]string{"0", "1", "-1", "2", "0.5", "512.5"}[r.Intn(6)])
}

// rangeNearBoundary anchors a short range at a machine-integer boundary (2^31, 2^32, 2^53, 2^63, 2^64 and
// their negatives): start a few steps before the boundary, end at or just around it, |step| from 1 to 1000.
// Numbers that fit int64 are built with NumberIntVal half of the time (64-bit mantissa), otherwise parsed at
// 512 bits; every produced element is exactly representable either way, so the exact reference applies.
func rangeNearBoundary(r *core.Rand) []cty.Value {
	bounds := []string{"2147483647", "2147483648", "4294967295", "4294967296", "9007199254740992", "9223372036854775807", "9223372036854775808",
		"18446744073709551615", "18446744073709551616", "-2147483648", "-9223372036854775808", "-9223372036854775809", "-9007199254740992"}
	B, _ := new(big.Int).SetString(bounds[r.Intn(len(bounds))], 10)
	step := []int64{1, 2, 3, 7, 100, 1000}[r.Intn(6)]
	k := int64(1 + r.Intn(5)) // elements before the boundary
	down := r.Bool()
	start := new(big.Int).Sub(B, big.NewInt(k*step+int64(r.Intn(int(step)))))
	end := new(big.Int).Add(B, big.NewInt(int64(r.Intn(3))-1)) // B-1, B, B+1
	if r.Chance(1, 4) {
		end.Add(B, big.NewInt(step*int64(r.Intn(3))))
	}
	s := big.NewInt(step)
	if down {
		// mirror: count downwards towards -B
		start.Neg(start)
		end.Neg(end)
		s.Neg(s)
	}
	mk := func(x *big.Int) cty.Value {
		if x.IsInt64() && r.Bool() {
			return cty.NumberIntVal(x.Int64())
		}
		return cty.MustParseNumberVal(x.String())
	}
	if step == 1 && r.Bool() {
		return []cty.Value{mk(start), mk(end)}
	}
	return []cty.Value{mk(start), mk(end), mk(s)}
}

// Decimal fractions (and two thirds-like quotients) that no binary mantissa holds exactly: with
// such a step the running sums round, at every precision.
var rangeFracs = []string{"0.1", "0.2", "0.3", "0.7", "0.9", "1.1", "2.3", "0.01", "0.05", "0.15", "0.333", "1e-3", "0.6", "12.7"}

// numAt builds the number written as the decimal text s the way the different producers of cty
// numbers do: from a float64 (53 bits: gocty, JSON / msgpack floats), parsed (512 bits: HCL, JSON
// numbers), from a float32 (24 bits) or at 64 bits (what arithmetic on integer-made numbers yields).
func numAt(r *core.Rand, q *big.Rat) cty.Value {
	f64, _ := q.Float64()
	switch k := r.Intn(16); {
	case k < 7:
		return cty.NumberFloatVal(f64)
	case k < 14:
		return cty.NumberVal(new(big.Float).SetPrec(512).SetRat(q)) // what MustParseNumberVal gives for the decimal text
	case k == 14:
		return cty.NumberVal(new(big.Float).SetPrec(24).SetRat(q))
	}
	return cty.NumberVal(new(big.Float).SetPrec(64).SetRat(q))
}

// rangeFractional: three-argument ranges whose step is not a short binary fraction. start is 0, a
// small whole number or another such fraction; end lies n steps away (exactly, in decimal
// arithmetic, or a little before / after), n mostly 1..24 and now and then around the 1024 cap.
// Here "add the step repeatedly" and "start + k*step" part in the elements and, where the exact
// end is hit or missed by a rounded sum, in the element count.
func rangeFractional(r *core.Rand) []cty.Value {
	rat := func(s string) *big.Rat { q, _ := new(big.Rat).SetString(s); return q }
	step := rat(rangeFracs[r.Intn(len(rangeFracs))])
	switch r.Intn(12) {
	case 0:
		step = big.NewRat(1, 3)
	case 1:
		step = big.NewRat(2, 7)
	}
	var start *big.Rat
	switch r.Intn(4) {
	case 0:
		start = new(big.Rat)
	case 1:
		start = big.NewRat(int64(r.Intn(7)-3), 1)
	case 2:
		start = rat(rangeFracs[r.Intn(len(rangeFracs))])
	default:
		start = new(big.Rat).Mul(step, big.NewRat(int64(r.Intn(5)), 1))
	}
	n := int64(1 + r.Intn(24))
	switch r.Intn(120) {
	case 0:
		n = int64(1020 + r.Intn(8))
	case 1, 2:
		n = int64(100 + r.Intn(400))
	}
	end := new(big.Rat).Add(start, new(big.Rat).Mul(step, big.NewRat(n, 1)))
	switch r.Intn(6) {
	case 0:
		end.Add(end, new(big.Rat).Quo(step, big.NewRat(2, 1)))
	case 1:
		end.Sub(end, new(big.Rat).Quo(step, big.NewRat(4, 1)))
	}
	if r.Bool() {
		// mirrored: counting downwards
		start.Neg(start)
		end.Neg(end)
		step = new(big.Rat).Neg(step)
	}
	out := []cty.Value{numAt(r, start), numAt(r, end), numAt(r, step)}
	if r.Chance(1, 2) {
		// one producer for all three, the common situation
		switch r.Intn(2) {
		case 0:
			for i, q := range []*big.Rat{start, end, step} {
				f, _ := q.Float64()
				out[i] = cty.NumberFloatVal(f)
			}
		default:
			for i, q := range []*big.Rat{start, end, step} {
				out[i] = cty.NumberVal(new(big.Float).SetPrec(512).SetRat(q))
			}
		}
	}
	return out
}

func genRange(r *core.Rand) []cty.Value {
	if r.Chance(1, 8) {
		return rangeNearBoundary(r)
	}
	if r.Chance(1, 6) {
		return rangeFractional(r)
	}
	n := r.Weighted([]int{0, 3, 4, 8})
	if r.Chance(1, 60) {
		n = []int{0, 4}[r.Intn(2)]
	}
	out := make([]cty.Value, n)
	for i := range out {
		out[i] = rangeNum(r)
	}
	if n == 3 {
		switch r.Intn(6) {
		case 0:
			out[2] = []cty.Value{cty.NumberIntVal(0), cty.Zero, cty.NumberFloatVal(0), cty.MustParseNumberVal("0")}[r.Intn(4)]
		case 1, 2:
			// consistent direction
			a, _ := ratOf(out[0])
			b, _ := ratOf(out[1])
			s, _ := ratOf(out[2])
			if s.Sign() != 0 && (b.Cmp(a) < 0) != (s.Sign() < 0) {
				out[0], out[1] = out[1], out[0]
			}
		}
	}
	return out
}

func genCoalesce(r *core.Rand) []cty.Value {
	n := r.Weighted([]int{1, 4, 6, 4, 2})
	out := make([]cty.Value, n)
	base := elemTy(r)
	for i := range out {
		ty := base
		switch {
		case r.Chance(1, 4):
			ty = primTy(r)
		case r.Chance(1, 10):
			ty = elemTy(r)
		}
		switch {
		case r.Chance(2, 5):
			out[i] = cty.NullVal(ty)
		case r.Chance(1, 40):
			out[i] = cty.NullVal(cty.DynamicPseudoType)
		default:
			out[i] = val(r, ty, 3)
		}
	}
	return out
}

func genCoalesceList(r *core.Rand) []cty.Value {
	n := r.Weighted([]int{1, 4, 6, 4, 2})
	out := make([]cty.Value, n)
	ety := elemTy(r)
	for i := range out {
		var ty cty.Type
		switch r.Intn(4) {
		case 0, 1:
			ty = cty.List(ety)
		case 2:
			ty = cty.List(elemTy(r))
		default:
			ty = tupleTy(r, 3, elemTy)
		}
		switch {
		case r.Chance(1, 6):
			out[i] = cty.NullVal(ty)
		case r.Chance(2, 5) && ty.IsListType():
			out[i] = cty.ListValEmpty(ty.ElementType())
		case r.Chance(1, 5):
			out[i] = cty.EmptyTupleVal
		default:
			out[i] = val(r, ty, 3)
		}
	}
	return out
}

func genSetProduct(r *core.Rand) []cty.Value {
	n := r.Weighted([]int{0, 1, 8, 5, 1})
	out := make([]cty.Value, n)
	kindMode := r.Intn(4) // 0: all lists/tuples; 1: all sets; 2,3: mixed
	for i := range out {
		k := r.Intn(3)
		switch kindMode {
		case 0:
			k = r.Intn(2)
		case 1:
			k = 2
		}
		ety := primTy(r)
		if r.Chance(1, 8) {
			ety = elemTy(r)
		}
		switch k {
		case 0:
			out[i] = val(r, cty.List(ety), 3)
		case 1:
			out[i] = val(r, tupleTy(r, 3, func(r *core.Rand) cty.Type {
				if r.Chance(1, 10) {
					return elemTy(r)
				}
				return primTy(r)
			}), 3)
		default:
			out[i] = val(r, cty.Set(ety), 3)
		}
	}
	return out
}

func genSets(minN, maxN int) func(r *core.Rand) []cty.Value {
	return func(r *core.Rand) []cty.Value {
		n := minN + r.Intn(maxN-minN+1)
		if r.Chance(1, 40) {
			n = []int{0, 1, 3}[r.Intn(3)]
		}
		out := make([]cty.Value, n)
		base := primTy(r)
		if r.Chance(1, 5) {
			base = elemTy(r)
		}
		for i := range out {
			ety := base
			switch {
			case r.Chance(1, 4):
				ety = primTy(r)
			case r.Chance(1, 12):
				ety = elemTy(r)
			}
			switch {
			case r.Chance(1, 12):
				out[i] = cty.SetValEmpty(cty.DynamicPseudoType)
			case r.Chance(1, 8):
				out[i] = cty.SetValEmpty(ety)
			default:
				out[i] = val(r, cty.Set(ety), 4)
			}
		}
		return out
	}
}

func genSetHasElement(r *core.Rand) []cty.Value {
	s := val(r, cty.Set(elemTy(r)), 4)
	return []cty.Value{s, elemFor(r, s)}
}

// perturb occasionally takes an argument list out of the domain: a top-level
// null, an argument of an arbitrary other type, or a wrong argument count.
func perturb(r *core.Rand, a []cty.Value) ([]cty.Value, string) {
	switch k := r.Intn(100); {
	case k < 3 && len(a) > 0:
		i := r.Intn(len(a))
		b := append([]cty.Value(nil), a...)
		b[i] = cty.NullVal(a[i].Type())
		return b, "null-arg"
	case k < 7 && len(a) > 0:
		i := r.Intn(len(a))
		b := append([]cty.Value(nil), a...)
		b[i] = anyVal(r)
		return b, "other-type-arg"
	case k < 8 && len(a) > 0:
		return append([]cty.Value(nil), a[:len(a)-1]...), "arg-dropped"
	case k < 9:
		return append(append([]cty.Value(nil), a...), anyVal(r)), "arg-added"
	}
	return a, ""
}
