package c13

// Multi-call histories.
//
// The property speaks about every call on wholly known arguments, also the
// second call that is given a value an earlier call has already seen. cty
// values are immutable by contract, and types and payloads are shared freely
// between a container, its members and everything derived from them, so a
// function that writes into something reachable from an argument (an
// attribute table, a backing slice, a set's buckets) or keeps state between
// calls still answers its own call correctly and spoils a LATER one. A single
// call compared with the reference cannot see that, whatever its arguments.
//
// A history is one case: a first call drawn like any other case, then 1..3
// further calls, each of which reads a value that is already in play (an
// earlier argument, a member of one, an earlier result) through some function
// of the family that accepts a value of that kind, and finally the first call
// once more. Every value exists twice: the library-side value, which is what
// the calls are given, and a model-side copy rebuilt bottom-up through the
// public constructors before the first call, which shares no type and no
// payload with it. The reference only ever sees model-side values, so whatever
// an earlier call did to a library-side value cannot reach the expectation of
// a later one. After every call the complete internal state (VerifFingerprint)
// of every library-side value in play is compared with what it was when the
// value entered the history.

import (
	"bytes"
	"fmt"
	"math/big"
	"strings"

	"github.com/zclconf/go-cty/cty"

	"verif/harness/core"
	"verif/harness/gen"
)

// historyEvery: one round (one case per function) in historyEvery rounds is a round of histories.
const historyEvery = 32

// slot is one value in play.
type slot struct {
	lib   cty.Value // given to the library
	model cty.Value // given to the reference; rebuilt copy
	fp    []byte    // complete internal state of lib when it entered the history
	name  string    // how the witness refers to it
}

// cloneType rebuilds a type through the type constructors.
func cloneType(t cty.Type) cty.Type {
	switch {
	case t.IsListType():
		return cty.List(cloneType(t.ElementType()))
	case t.IsSetType():
		return cty.Set(cloneType(t.ElementType()))
	case t.IsMapType():
		return cty.Map(cloneType(t.ElementType()))
	case t.IsTupleType():
		ets := t.TupleElementTypes()
		out := make([]cty.Type, len(ets))
		for i, et := range ets {
			out[i] = cloneType(et)
		}
		return cty.Tuple(out)
	case t.IsObjectType():
		out := map[string]cty.Type{}
		for k, at := range t.AttributeTypes() {
			out[k] = cloneType(at)
		}
		if opt := t.OptionalAttributes(); len(opt) > 0 {
			var names []string
			for k := range opt {
				names = append(names, k)
			}
			return cty.ObjectWithOptionalAttrs(out, names)
		}
		return cty.Object(out)
	}
	return t // primitive, dynamic, capsule
}

// cloneVal rebuilds a wholly known, unmarked value bottom-up through the value
// constructors: the result is structurally the same value and shares no type
// object, map, slice or number with v.
func cloneVal(v cty.Value) cty.Value {
	ty := v.Type()
	if v.IsNull() {
		return cty.NullVal(cloneType(ty))
	}
	if !v.IsKnown() || v.IsMarked() {
		return v // never generated here
	}
	switch {
	case ty == cty.Number:
		return cty.NumberVal(new(big.Float).Copy(v.AsBigFloat()))
	case ty == cty.String:
		return cty.StringVal(strings.Clone(v.AsString()))
	case ty == cty.Bool:
		return cty.BoolVal(v.True())
	case ty.IsListType() || ty.IsSetType() || ty.IsTupleType():
		es := v.AsValueSlice()
		out := make([]cty.Value, len(es))
		for i, e := range es {
			out[i] = cloneVal(e)
		}
		switch {
		case ty.IsTupleType():
			return mkTuple(out)
		case len(out) > 0 && ty.ElementType().HasDynamicTypes():
			return v // a non-empty collection of a not fully concrete element type: never generated here
		case ty.IsListType():
			return mkList(cloneType(ty.ElementType()), out)
		}
		return mkSet(cloneType(ty.ElementType()), out)
	case ty.IsMapType() || ty.IsObjectType():
		m := v.AsValueMap()
		out := make(map[string]cty.Value, len(m))
		for k, e := range m {
			out[strings.Clone(k)] = cloneVal(e)
		}
		switch {
		case ty.IsObjectType() && len(ty.OptionalAttributes()) > 0:
			return v // never generated here
		case ty.IsObjectType():
			return cty.ObjectVal(out)
		case len(out) > 0 && ty.ElementType().HasDynamicTypes():
			return v
		}
		return mkMap(cloneType(ty.ElementType()), out)
	}
	return v // capsule
}

// maxKeepLeaves bounds the size of a result that joins the values in play of a generated history (results feed
// later calls, and setproduct / concat of results of results would grow without bound); maxProduct bounds the
// number of tuples a follow-up setproduct may be asked for.
const (
	maxKeepLeaves = 96
	maxProduct    = 256
)

// leaves counts the primitive, null and empty positions of v, giving up at limit.
func leaves(v cty.Value, limit int) int {
	if v.IsNull() || !v.IsKnown() || !v.CanIterateElements() {
		return 1
	}
	n := 1
	for it := v.ElementIterator(); it.Next() && n < limit; {
		_, e := it.Element()
		n += leaves(e, limit-n)
	}
	return n
}

type history struct {
	c     *core.Ctx
	idx   int64
	r     *core.Rand
	pool  []slot
	calls []string // the calls made so far, as text
}

// enter puts a fresh (generated) value in play.
func (h *history) enter(v cty.Value) slot {
	s := slot{lib: v, model: cloneVal(v), fp: cty.VerifFingerprint(v), name: fmt.Sprintf("v%d", len(h.pool))}
	h.pool = append(h.pool, s)
	return s
}

func (h *history) enterAll(vs []cty.Value) []slot {
	out := make([]slot, len(vs))
	for i, v := range vs {
		out[i] = h.enter(v)
	}
	return out
}

// text: the earlier calls, for the witness of a later one.
func (h *history) text() string {
	if len(h.calls) == 0 {
		return ""
	}
	var b strings.Builder
	for i, s := range h.calls {
		fmt.Fprintf(&b, "[%d] %s; ", i+1, s)
	}
	fmt.Fprintf(&b, "THEN [%d] ", len(h.calls)+1)
	return b.String()
}

// call runs one step. It returns false when the history should stop (something was reported).
func (h *history) call(fd *FnDef, args []slot, what string) bool {
	return h.step(fd, args, what, h.r.Chance(1, 2))
}

// callKeep is call for scripted histories: the result always joins the values in play.
func (h *history) callKeep(fd *FnDef, args []slot, what string) bool {
	return h.step(fd, args, what, true)
}

func (h *history) step(fd *FnDef, args []slot, what string, keep bool) bool {
	c := h.c
	lib := make([]cty.Value, len(args))
	mod := make([]cty.Value, len(args))
	for i, a := range args {
		lib[i], mod[i] = a.lib, a.model
	}
	c.Count("history:step:" + what)
	// the first call of a history is an ordinary single call: its history text is empty
	got, ref, agreed, reported, argChanged, callText := checkCall(c, h.idx, fd, lib, mod, nil, h.text())
	h.calls = append(h.calls, callText)
	if reported && !argChanged {
		return false
	}
	// every value in play must still be what it was (the arguments of this call were checked by checkCall already,
	// but a call may reach other values through shared types). A changed value is reported once; the history
	// goes on, so that the later calls show what the change does to them.
	for i := range h.pool {
		s := &h.pool[i]
		after := cty.VerifFingerprint(s.lib)
		if bytes.Equal(after, s.fp) {
			continue
		}
		isArg := false
		for _, a := range args {
			if a.name == s.name {
				isArg = true
			}
		}
		if !isArg {
			c.Count("outcome:argument-changed")
			c.Violate("stdlib."+fd.Name, facetArgChanged, historyClass+"a value in play that is not an argument of the call ("+shape(s.model)+")", h.textDone(),
				fmt.Sprintf("value %s = %#v before: %s\nafter: %s", s.name, s.model, s.fp, after))
		}
		s.fp = after
	}
	c.Count("oracle:history-values-untouched")
	if agreed && !ref.OrderFree && keep && (what == "fixed" || leaves(ref.Val, maxKeepLeaves+1) <= maxKeepLeaves) {
		// the result joins the values in play; its model-side twin is rebuilt from the reference's result
		h.pool = append(h.pool, slot{lib: got, model: cloneVal(ref.Val), fp: cty.VerifFingerprint(got), name: fmt.Sprintf("result of [%d]", len(h.calls))})
	}
	return true
}

func (h *history) textDone() string {
	var b strings.Builder
	for i, s := range h.calls {
		fmt.Fprintf(&b, "[%d] %s; ", i+1, s)
	}
	return b.String()
}

// pick draws a value in play, preferring containers, and now and then descends
// into a member of a list, tuple, map or object (a member shares its type with
// the container's element / attribute type).
func (h *history) pick() slot {
	r := h.r
	s := h.pool[r.Intn(len(h.pool))]
	for try := 0; try < 2; try++ {
		switch kindOf(s.model.Type()) {
		case "list", "set", "tuple", "map", "object":
			try = 2
		default:
			s = h.pool[r.Intn(len(h.pool))]
		}
	}
	if s.model.IsNull() || !r.Chance(1, 5) {
		return s
	}
	switch kindOf(s.model.Type()) {
	case "list", "tuple":
		if n := s.model.LengthInt(); n > 0 {
			i := r.Intn(n)
			m := slot{lib: s.lib.AsValueSlice()[i], model: s.model.AsValueSlice()[i], name: fmt.Sprintf("%s[%d]", s.name, i)}
			m.fp = cty.VerifFingerprint(m.lib)
			h.pool = append(h.pool, m)
			return m
		}
	case "map", "object":
		if k, ok := existingKey(r, s.model); ok {
			m := slot{lib: s.lib.AsValueMap()[k], model: s.model.AsValueMap()[k], name: fmt.Sprintf("%s[%q]", s.name, k)}
			m.fp = cty.VerifFingerprint(m.lib)
			h.pool = append(h.pool, m)
			return m
		}
	}
	return s
}

// other draws a further argument of one of the given kinds: a value in play of
// such a kind if there is one (half of the time), else a fresh one.
func (h *history) other(fresh func() cty.Value, kinds ...string) slot {
	if h.r.Chance(1, 2) {
		var cand []int
		for i, s := range h.pool {
			k := kindOf(s.model.Type())
			for _, want := range kinds {
				if k == want && !s.model.IsNull() {
					cand = append(cand, i)
				}
			}
		}
		if len(cand) > 0 {
			return h.pool[cand[h.r.Intn(len(cand))]]
		}
	}
	return h.enter(fresh())
}

// followUp builds a call of some function of the family that is given x (and
// is inside that function's domain as far as the kind of x goes; indices, keys
// and members are drawn relative to x like the single-call generators do).
func (h *history) followUp(x slot) (*FnDef, []slot) {
	r := h.r
	xm := x.model
	k := kindOf(xm.Type())
	fresh := func(v cty.Value) slot { return h.enter(v) }
	fn := func(name string, args ...slot) (*FnDef, []slot) { return fnByName(name), args }
	if xm.IsNull() {
		switch k {
		case "map", "object":
			return fn("merge", h.other(func() cty.Value { return mapOrObject(r) }, "map", "object"), x)
		case "list", "tuple":
			return fn("coalescelist", x, h.other(func() cty.Value { return seqVal(r, 3) }, "list", "tuple"))
		}
		return fn("coalesce", x, fresh(val(r, xm.Type(), 3)))
	}
	freshMap := func() cty.Value { return mapOrObject(r) }
	freshSeq := func() cty.Value { return seqVal(r, 3) }
	switch k {
	case "map", "object":
		switch r.Intn(9) {
		case 0:
			return fn("keys", x)
		case 1:
			return fn("values", x)
		case 2, 3:
			var def cty.Value
			if xm.Type().IsMapType() && r.Chance(2, 3) {
				def = val(r, xm.Type().ElementType(), 3)
			} else {
				def = val(r, elemTy(r), 3)
			}
			return fn("lookup", x, fresh(keyFor(r, xm)), fresh(def))
		case 4, 5:
			return fn("merge", x, h.other(freshMap, "map", "object"))
		case 6:
			return fn("merge", h.other(freshMap, "map", "object"), x)
		case 7:
			if k == "map" {
				if r.Bool() {
					return fn("length", x)
				}
				return fn("hasindex", x, fresh(keyFor(r, xm)))
			}
			return fn("values", x)
		}
		return fn("coalesce", x, x)
	case "list", "tuple":
		n := xm.LengthInt()
		isList := k == "list"
		switch r.Intn(16) {
		case 0:
			return fn("length", x)
		case 1:
			return fn("element", x, fresh(idxNum(r, n)))
		case 2:
			if n > 0 {
				return fn("index", x, fresh(cty.NumberIntVal(int64(r.Intn(n)))))
			}
			return fn("hasindex", x, fresh(idxNum(r, n)))
		case 3:
			return fn("contains", x, fresh(elemFor(r, xm)))
		case 4:
			return fn("concat", x, h.other(freshSeq, "list", "tuple"))
		case 5:
			return fn("concat", h.other(freshSeq, "list", "tuple"), x)
		case 6:
			return fn("flatten", x)
		case 7:
			a, b := r.Intn(n+1), r.Intn(n+1)
			if a > b {
				a, b = b, a
			}
			return fn("slice", x, fresh(cty.NumberIntVal(int64(a))), fresh(cty.NumberIntVal(int64(b))))
		case 8:
			return fn("reverselist", x)
		case 9:
			return fn("coalescelist", fresh(cty.ListValEmpty(cty.String)), x)
		case 10:
			return h.product(x, freshSeq)
		case 11:
			ks := make([]cty.Value, n)
			for i := range ks {
				ks[i] = cty.StringVal(gen.SimpleKey(r))
			}
			return fn("zipmap", fresh(mkList(cty.String, ks)), x)
		case 12:
			if isList {
				return fn("distinct", x)
			}
			return fn("flatten", x)
		case 13:
			if isList {
				return fn("chunklist", x, fresh(cty.NumberIntVal(int64(r.Intn(n+3)))))
			}
			return fn("reverselist", x)
		case 14:
			if xm.Type().Equals(cty.List(cty.String)) {
				switch r.Intn(3) {
				case 0:
					return fn("sort", x)
				case 1:
					return fn("compact", x)
				}
				vs := make([]cty.Value, n)
				for i := range vs {
					vs[i] = val(r, elemTy(r), 3)
				}
				return fn("zipmap", x, fresh(mkTuple(vs)))
			}
			return fn("length", x)
		}
		return fn("coalesce", x, x)
	case "set":
		ety := xm.Type().ElementType()
		freshSet := func() cty.Value {
			if ety.HasDynamicTypes() || r.Chance(1, 4) {
				return val(r, cty.Set(primTy(r)), 4)
			}
			return val(r, cty.Set(ety), 4)
		}
		switch r.Intn(10) {
		case 0:
			return fn("length", x)
		case 1:
			return fn("contains", x, fresh(elemFor(r, xm)))
		case 2:
			return fn("sethaselement", x, fresh(elemFor(r, xm)))
		case 3:
			return fn("reverselist", x)
		case 4:
			return fn("flatten", x)
		case 5:
			return h.product(x, freshSeq)
		}
		name := []string{"setunion", "setintersection", "setsubtract", "setsymmetricdifference"}[r.Intn(4)]
		if r.Bool() {
			return fn(name, x, h.other(freshSet, "set"))
		}
		return fn(name, h.other(freshSet, "set"), x)
	case "number":
		switch r.Intn(4) {
		case 0:
			return fn("range", x)
		case 1:
			return fn("range", fresh(cty.NumberIntVal(int64(r.Intn(5)-2))), x)
		case 2:
			return fn("element", h.other(freshSeq, "list", "tuple"), x)
		}
		return fn("coalesce", x, fresh(val(r, primTy(r), 3)))
	case "string":
		switch r.Intn(3) {
		case 0:
			return fn("lookup", h.other(freshMap, "map", "object"), x, fresh(val(r, primTy(r), 3)))
		case 1:
			return fn("zipmap", fresh(cty.ListVal([]cty.Value{x.lib})), fresh(mkTuple([]cty.Value{val(r, elemTy(r), 3)})))
		}
		return fn("contains", h.other(func() cty.Value { return val(r, cty.List(cty.String), 4) }, "list", "tuple", "set"), x)
	}
	return fn("coalesce", x, fresh(val(r, primTy(r), 3)))
}

// product: setproduct(x, other), with other a value in play only while the product stays small.
func (h *history) product(x slot, freshSeq func() cty.Value) (*FnDef, []slot) {
	o := h.other(freshSeq, "list", "tuple", "set")
	if x.model.LengthInt()*o.model.LengthInt() > maxProduct {
		o = h.enter(cty.ListVal([]cty.Value{cty.StringVal("p"), cty.StringVal("q")}))
	}
	if x.model.LengthInt()*o.model.LengthInt() > maxProduct {
		return fnByName("length"), []slot{x}
	}
	return fnByName("setproduct"), []slot{x, o}
}

// runHistory runs one history as case idx.
func runHistory(c *core.Ctx, idx int64, r *core.Rand, fd0 *FnDef) {
	h := &history{c: c, idx: idx, r: r}
	args0 := fd0.Gen(r)
	args0, pert := perturb(r, args0)
	c.Begin(idx, func() string { return "history starting with " + fd0.Name + "(" + fmtArgs(args0) + ")" })
	c.Count("input:history")
	if pert != "" {
		c.Count("input:" + pert)
	}
	first := h.enterAll(args0)
	if !h.call(fd0, first, "first") {
		return
	}
	steps := 1 + r.Intn(3)
	for s := 0; s < steps; s++ {
		if len(h.pool) == 0 {
			h.enter(anyVal(r))
		}
		x := h.pick()
		fd, args := h.followUp(x)
		if !h.call(fd, args, "follow-up") {
			return
		}
	}
	// the first call once more: same arguments, same expectation
	h.call(fd0, first, "first-call-repeated")
}
