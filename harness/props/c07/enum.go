package c07

import (
	m "verif/harness/model"
)

func capA() *m.TNode { return &m.TNode{K: m.KCapsule, Capsule: "capA"} }
func capB() *m.TNode { return &m.TNode{K: m.KCapsule, Capsule: "capB"} }

// leafAlphabet is the kind alphabet at a leaf position: the three primitives,
// the dynamic placeholder and the two capsule types.
func leafAlphabet() []*m.TNode {
	return []*m.TNode{m.TBool, m.TNumber, m.TString, m.TDynamic, capA(), capB()}
}

// depth1 is every type of depth 1 (model.TNode.Depth): the leaves plus the
// empty tuple and the empty object.
func depth1() []*m.TNode {
	return append(leafAlphabet(), m.TupleOf(), &m.TNode{K: m.KObject, Attrs: map[string]*m.TNode{}})
}

var enumAttrNames = []string{"a", "b"}

// enumDepth2 lists, without repetition, every type of depth <= 2 over the kind
// alphabet {bool, number, string, dynamic, capA, capB, list, set, map, tuple,
// object}: tuples of length 0..maxTuple, objects over the attribute names
// {"a","b"} with every subset of their attributes marked optional.
// maxTuple=3 gives 904 types, maxTuple=4 gives 5000.
func enumDepth2(maxTuple int) []*m.TNode {
	d1 := depth1()
	out := append([]*m.TNode(nil), d1...)
	for _, e := range d1 {
		out = append(out, m.ListOf(e), m.SetOf(e), m.MapOf(e))
	}
	// tuples of length 1..maxTuple
	var rec func(prefix []*m.TNode, left int)
	rec = func(prefix []*m.TNode, left int) {
		if len(prefix) > 0 {
			out = append(out, m.TupleOf(append([]*m.TNode(nil), prefix...)...))
		}
		if left == 0 {
			return
		}
		for _, e := range d1 {
			rec(append(prefix, e), left-1)
		}
	}
	rec(nil, maxTuple)
	// objects over non-empty subsets of the two names, every optional subset
	for mask := 1; mask < 1<<len(enumAttrNames); mask++ {
		var names []string
		for i, n := range enumAttrNames {
			if mask&(1<<i) != 0 {
				names = append(names, n)
			}
		}
		var recO func(i int, attrs map[string]*m.TNode)
		recO = func(i int, attrs map[string]*m.TNode) {
			if i == len(names) {
				for om := 0; om < 1<<len(names); om++ {
					t := &m.TNode{K: m.KObject, Attrs: map[string]*m.TNode{}}
					for k, v := range attrs {
						t.Attrs[k] = v
					}
					for j, n := range names {
						if om&(1<<j) != 0 {
							if t.Opt == nil {
								t.Opt = map[string]bool{}
							}
							t.Opt[n] = true
						}
					}
					out = append(out, t)
				}
				return
			}
			for _, e := range d1 {
				attrs[names[i]] = e
				recO(i+1, attrs)
			}
			delete(attrs, names[i])
		}
		recO(0, map[string]*m.TNode{})
	}
	return out
}

// enumTiny is the sub-space over which triples are enumerated completely:
// depth <= 2, tuples of length <= 1, objects over the single name "a".
func enumTiny() []*m.TNode {
	d1 := depth1()
	out := append([]*m.TNode(nil), d1...)
	for _, e := range d1 {
		out = append(out, m.ListOf(e), m.SetOf(e), m.MapOf(e), m.TupleOf(e),
			m.ObjectOf(map[string]*m.TNode{"a": e}), m.ObjectOf(map[string]*m.TNode{"a": e}, "a"))
	}
	return out
}
