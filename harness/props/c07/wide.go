package c07

import (
	"fmt"

	"verif/harness/core"
	"verif/harness/gen"
	m "verif/harness/model"
)

var wideNames = []string{"a", "b", "c", "k", "", "é", "long-key", "attr7", "z", `q"\\`, "<&>"}

// wideType draws a type the way gen.Type does, but with tuples of up to 6
// elements and objects of up to 6 attributes, each attribute optional with
// probability 1/2. These are the shapes on which a comparison that looks only
// at the first few positions or names, or only at the SIZE of the optional
// set, goes wrong; gen.Type stops at 3 elements / 3 attributes and marks one
// attribute in four. budget bounds the number of positions of the tree.
func wideType(r *core.Rand, depth int, budget *int) *m.TNode {
	*budget--
	if depth <= 1 || *budget <= 0 {
		return gen.Type(r, 1, typeOpts)
	}
	switch r.Intn(10) {
	case 0:
		return gen.Type(r, 1, typeOpts)
	case 1:
		return m.ListOf(wideType(r, depth-1, budget))
	case 2:
		return m.SetOf(wideType(r, depth-1, budget))
	case 3:
		return m.MapOf(wideType(r, depth-1, budget))
	case 4, 5, 6:
		n := r.Intn(7)
		es := make([]*m.TNode, n)
		for i := range es {
			es[i] = wideType(r, depth-1, budget)
		}
		return m.TupleOf(es...)
	}
	n := r.Intn(7)
	t := &m.TNode{K: m.KObject, Attrs: map[string]*m.TNode{}}
	for _, pi := range r.Perm(len(wideNames))[:n] {
		k := wideNames[pi]
		t.Attrs[k] = wideType(r, depth-1, budget)
		if r.Bool() {
			if t.Opt == nil {
				t.Opt = map[string]bool{}
			}
			t.Opt[k] = true
		}
	}
	return t
}

// shapeStats returns the longest tuple, the widest object and the largest
// optional-attribute set found anywhere in the tree.
func shapeStats(t *m.TNode) (maxTuple, maxAttrs, maxOpt, optDepth int) {
	var walk func(t *m.TNode, d int)
	walk = func(t *m.TNode, d int) {
		switch t.K {
		case m.KList, m.KSet, m.KMap:
			walk(t.Elem, d+1)
		case m.KTuple:
			if len(t.Elems) > maxTuple {
				maxTuple = len(t.Elems)
			}
			for _, e := range t.Elems {
				walk(e, d+1)
			}
		case m.KObject:
			if len(t.Attrs) > maxAttrs {
				maxAttrs = len(t.Attrs)
			}
			if len(t.Opt) > maxOpt {
				maxOpt = len(t.Opt)
			}
			if len(t.Opt) > 0 && d > optDepth {
				optDepth = d
			}
			for _, a := range t.Attrs {
				walk(a, d+1)
			}
		}
	}
	walk(t, 1)
	return
}

func (r *run) countShape(prefix string, t *m.TNode) {
	mt, ma, mo, od := shapeStats(t)
	r.bump(fmt.Sprintf("%s:longest-tuple-%d", prefix, mt))
	r.bump(fmt.Sprintf("%s:widest-object-%d", prefix, ma))
	r.bump(fmt.Sprintf("%s:largest-optional-set-%d", prefix, mo))
	r.bump(fmt.Sprintf("%s:deepest-annotated-object-at-level-%d", prefix, od))
}

// veryWideType: one object or tuple with 31..70 members (primitive or one-level member types), about half
// of an object's attributes optional, sometimes below a collection. Every single-position mutant of it is
// then compared with it (allMutants), so a comparison, conformance walk, strip or serialisation that keeps
// per-member bookkeeping in a machine word (32 / 64 flags) or a small fixed array is exercised beyond its
// width, at every position.
func veryWideType(r *core.Rand) *m.TNode {
	n := []int{31, 32, 33, 63, 64, 65, 66, 70}[r.Intn(8)]
	leaf := func() *m.TNode {
		switch r.Intn(8) {
		case 0:
			return m.ListOf(gen.Type(r, 1, typeOpts))
		case 1:
			return gen.Type(r, 2, typeOpts)
		}
		return gen.Type(r, 1, typeOpts)
	}
	var t *m.TNode
	if r.Chance(1, 3) {
		es := make([]*m.TNode, n)
		for i := range es {
			es[i] = leaf()
		}
		t = m.TupleOf(es...)
	} else {
		t = &m.TNode{K: m.KObject, Attrs: map[string]*m.TNode{}}
		for i := 0; i < n; i++ {
			k := fmt.Sprintf("a%02d", i)
			t.Attrs[k] = leaf()
			if r.Bool() {
				if t.Opt == nil {
					t.Opt = map[string]bool{}
				}
				t.Opt[k] = true
			}
		}
	}
	switch r.Intn(6) {
	case 0:
		return m.ListOf(t)
	case 1:
		return m.MapOf(t)
	case 2:
		return m.TupleOf(m.Prim(m.KString), t)
	}
	return t
}
