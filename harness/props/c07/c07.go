// Package c07: type equality, conformance and type serialization obey their algebra.
//
// Every oracle compares what the library answers for a cty.Type built FROM a
// model tree (model.TNode) with what the model says about the tree. The model
// is written from the documentation only (model/tnode.go).
package c07

import (
	"bytes"
	stdjson "encoding/json"
	"fmt"

	"github.com/zclconf/go-cty/cty"
	ctyjson "github.com/zclconf/go-cty/cty/json"

	"verif/harness/core"
	"verif/harness/gen"
	m "verif/harness/model"
)

type Driver struct{}

func (Driver) ID() string { return "C07" }

func (Driver) Info() core.Info {
	return core.Info{
		Title: "type equality, conformance and type serialization obey their algebra",
		Rule: "cases are (a) every ordered pair of the types of depth<=2 over {bool,number,string,dynamic,capsule A,capsule B,list,set,map,tuple(0..3; thorough 0..4),object over names a,b with every optional subset} " +
			"(904 types quick / 5000 thorough; both sides built independently), each type also checked alone (HasDynamicTypes, WithoutOptionalAttributesDeep, JSON); " +
			"(b) sampled types of depth<=4 (3 in 4 drawn by gen.Type: tuples/objects of <=3 members, one attribute in four optional; 1 in 4 drawn wide: tuples/objects of <=6 members, every second attribute optional; " +
			"dynamic, capsules, attribute names incl. \"\", a non-ASCII name and names that need JSON escaping) with EVERY single-position mutant " +
			"(kind / element type / attribute type / tuple element type, attribute name, attribute count, optional flag, optional flag moved, tuple position, tuple length, capsule identity), pair oracles in both directions; " +
			"(c) triples: all triples of a 56-type sub-space and sampled triples (origin, independent rebuild / mutant / mutant of mutant / stripped / unrelated) checked for reflexivity, symmetry, transitivity on the observed answers; " +
			"(d) a fixed corpus. Every pair is decided twice: against the model (Equals==TypeEq, TestConformance==Conforms) and, for conformance, literally as the statement words it with the library's own functions: " +
			"conforms <=> strip(given).Equals(strip(constraint with its placeholders replaced by the corresponding parts of given)). " +
			"distinct = canonical text of the (pair of) model tree(s); non-trivial pair = both sides have the same top-level kind or the constraint side is the dynamic placeholder " +
			"(the comparison goes below the top-level kind); non-trivial mutant case = always (differs from its origin in one position)",
		Assumptions: []string{
			"model.TypeEq / Conforms / HasDynamic / StripOptional (written from the documentation) are the reference; model.TNodeOf re-reads a cty.Type through public accessors only (each built type is first read back and compared with its tree)",
			"two separately constructed, structurally identical types are the same type (Equals must answer true); capsule identity is modelled by the capsule's name; the two generated capsule types have different names (same-name, different-pointer capsules are in the corpus)",
			"attribute names are NFC (cty normalizes attribute names; NFD names are outside the model)",
			"a panic of a monitored entry point on a well-formed type counts as a failure of the clause that entry point decides (none documents a panic for valid types)",
			"what MarshalJSON does with a type that contains a capsule is recorded but not judged: the statement promises the round trip for capsule-free types only",
		},
		MinNontrivial: 100000,
	}
}

func (Driver) Batches(tier string) int {
	if tier == "thorough" {
		return 64
	}
	return 16
}

const (
	idxPairs   = int64(1_000_000_000)
	idxSingles = int64(3_000_000_000)
	idxTriples = int64(4_000_000_000)
	idxCorpus  = int64(5_000_000_000)
)

var typeOpts = gen.TypeOpts{Dynamic: true, Optional: true, Capsule: true, TwinKeys: true}

// run holds per-batch state: local counters for the hot loops (flushed into the
// context at the end) and the context itself.
type run struct {
	kept     []keptJSON
	keptNext int
	c        *core.Ctx
	cnt      map[string]*int64
	nsmp     map[string]int
	src      string // which part of the workload is running (for the violation counters)
}

// viol reports a violation and counts it per part of the workload and per site,
// so that the evidence of a firing run shows which cases caught it.
func (r *run) viol(site, facet, class, witness, detail string) {
	r.bump("violations-raised-in:" + r.src + ":" + site)
	r.c.Violate(site, facet, class, witness, detail)
}

// sampleOK rations the evidence samples between the kinds of case.
func (r *run) sampleOK(kind string, max int) bool {
	if !r.c.WantSample() || r.nsmp[kind] >= max {
		return false
	}
	r.nsmp[kind]++
	return true
}

func (r *run) n(key string) *int64 {
	p, ok := r.cnt[key]
	if !ok {
		p = new(int64)
		r.cnt[key] = p
	}
	return p
}

func (r *run) bump(key string) { *r.n(key)++ }

func (r *run) flush() {
	for k, p := range r.cnt {
		if *p != 0 {
			r.c.CountN(k, *p)
		}
	}
}

func b2s(b bool) string {
	if b {
		return "true"
	}
	return "false"
}

func tyText(T *m.TNode, ty cty.Type) string { return fmt.Sprintf("%s = %#v", T.String(), ty) }

func pairText(A, B *m.TNode, a, b cty.Type) string {
	return fmt.Sprintf("a: %s\nb: %s", tyText(A, a), tyText(B, b))
}

// buildCty builds the cty type for a tree under recover.
func (r *run) buildCty(T *m.TNode) (ty cty.Type, ok bool) {
	o := core.Guard(func() { ty = T.Cty() })
	if o.Panicked {
		r.viol("type constructors", "panic: "+core.PanicClass(o.PanicMsg), "", T.String(), o.PanicMsg+"\n"+o.Stack)
		return cty.NilType, false
	}
	return ty, true
}

// ---------------------------------------------------------------- pair oracles

// nontrivialPair: the comparison has to look below the top-level kind.
func nontrivialPair(A, B *m.TNode) bool { return A.K == B.K || B.K == m.KDynamic }

// checkEquals: Type.Equals(a,b) == model.TypeEq(A,B). Returns the observed answer.
func (r *run) checkEquals(A, B *m.TNode, a, b cty.Type, tag string) (got, ok bool) {
	c := r.c
	want := m.TypeEq(A, B)
	o := core.Guard(func() { got = a.Equals(b) })
	c.Eval(1)
	if o.Panicked {
		r.viol("Type.Equals", "panic: "+core.PanicClass(o.PanicMsg), "", pairText(A, B, a, b), o.PanicMsg+"\n"+o.Stack)
		return false, false
	}
	if want {
		r.bump("oracle:Equals==model:equal-types")
	} else {
		r.bump("oracle:Equals==model:different-types")
	}
	if got != want {
		facet := "Equals answers true for structurally different types"
		if want {
			facet = "Equals answers false for structurally identical types"
		}
		r.viol("Type.Equals", facet, "first-difference:"+orNone(diffKind(A, B)), pairText(A, B, a, b),
			fmt.Sprintf("a.Equals(b) = %v, model says %v (%s)", got, want, tag))
	}
	return got, true
}

func orNone(s string) string {
	if s == "" {
		return "none"
	}
	return s
}

// confDiff names why the model says T does not conform to C ("" if it does).
func confDiff(t, c *m.TNode) string {
	if c.K == m.KDynamic {
		return ""
	}
	if t.K != c.K {
		if t.K == m.KDynamic {
			return "given-is-dynamic"
		}
		return "kind"
	}
	switch t.K {
	case m.KList, m.KSet, m.KMap:
		return confDiff(t.Elem, c.Elem)
	case m.KTuple:
		if len(t.Elems) != len(c.Elems) {
			return "tuple-length"
		}
		for i := range t.Elems {
			if d := confDiff(t.Elems[i], c.Elems[i]); d != "" {
				return d
			}
		}
	case m.KObject:
		if len(t.Attrs) != len(c.Attrs) {
			return "attribute-names"
		}
		for _, k := range t.AttrNames() {
			if _, ok := c.Attrs[k]; !ok {
				return "attribute-names"
			}
		}
		for _, k := range t.AttrNames() {
			if d := confDiff(t.Attrs[k], c.Attrs[k]); d != "" {
				return d
			}
		}
	case m.KCapsule:
		if t.Capsule != c.Capsule {
			return "capsule-identity"
		}
	}
	return ""
}

// substitute returns the constraint C with each dynamic placeholder replaced by
// the corresponding part of T (a placeholder that has no corresponding part,
// because the shapes already differ above it, stays).
func substitute(C, T *m.TNode) *m.TNode {
	if C.K == m.KDynamic {
		return T
	}
	if T.K != C.K {
		return C
	}
	switch C.K {
	case m.KList, m.KSet, m.KMap:
		return &m.TNode{K: C.K, Elem: substitute(C.Elem, T.Elem)}
	case m.KTuple:
		es := make([]*m.TNode, len(C.Elems))
		for i, e := range C.Elems {
			if i < len(T.Elems) {
				es[i] = substitute(e, T.Elems[i])
			} else {
				es[i] = e
			}
		}
		return &m.TNode{K: m.KTuple, Elems: es}
	case m.KObject:
		a := make(map[string]*m.TNode, len(C.Attrs))
		for k, e := range C.Attrs {
			if te, ok := T.Attrs[k]; ok {
				a[k] = substitute(e, te)
			} else {
				a[k] = e
			}
		}
		return &m.TNode{K: m.KObject, Attrs: a, Opt: copyOpt(C.Opt)}
	}
	return C
}

// checkConformanceLiteral decides the conformance clause the way the statement
// words it, with the library's own Equals and WithoutOptionalAttributesDeep as
// the comparator: t conforms to the constraint exactly when
// strip(t).Equals(strip(constraint with its placeholders replaced by the
// corresponding parts of t)). Only the substitution is done on the model tree.
func (r *run) checkConformanceLiteral(T, C *m.TNode, t, cn cty.Type, conforms bool, tag string) {
	c := r.c
	S := substitute(C, T)
	sc, ok := r.buildCty(S)
	if !ok {
		return
	}
	var eq bool
	o := core.Guard(func() { eq = t.WithoutOptionalAttributesDeep().Equals(sc.WithoutOptionalAttributesDeep()) })
	c.Eval(3)
	if eq {
		r.bump("oracle:TestConformance==Equals(after-substitution-and-stripping):equal")
	} else {
		r.bump("oracle:TestConformance==Equals(after-substitution-and-stripping):different")
	}
	if o.Panicked || eq != conforms {
		r.viol("Type.TestConformance", "conformance disagrees with Equals after substituting the placeholders and stripping the annotations", "model-reason:"+orNone(confDiff(T, C)),
			"given "+pairText(T, C, t, cn)+" (b is the constraint)\nconstraint after substitution: "+S.String(),
			fmt.Sprintf("TestConformance conforms=%v, strip(given).Equals(strip(substituted constraint))=%v (%s) %s", conforms, eq, tag, o.PanicMsg))
	}
}

// checkConformance: TestConformance(t, constraint) reports no error iff
// model.Conforms; every reported error is non-nil.
func (r *run) checkConformance(T, C *m.TNode, t, cn cty.Type, tag string) {
	c := r.c
	want := m.Conforms(T, C)
	var errs []error
	o := core.Guard(func() { errs = t.TestConformance(cn) })
	c.Eval(1)
	if o.Panicked {
		r.viol("Type.TestConformance", "panic: "+core.PanicClass(o.PanicMsg), "", pairText(T, C, t, cn), o.PanicMsg+"\n"+o.Stack)
		return
	}
	got := len(errs) == 0
	defer r.checkConformanceLiteral(T, C, t, cn, got, tag)
	switch {
	case want && m.TypeEq(T, C):
		r.bump("oracle:TestConformance:conforms:equal-types")
	case want && m.HasDynamic(C):
		r.bump("oracle:TestConformance:conforms:through-a-placeholder")
	case want:
		r.bump("oracle:TestConformance:conforms:differs-only-in-optional-annotations")
	default:
		r.bump("oracle:TestConformance:non-conformance-reports>=1-error")
	}
	if got != want {
		facet := "non-conforming type reported no error"
		if want {
			facet = "conforming type reported errors"
		}
		r.viol("Type.TestConformance", facet, "model-reason:"+orNone(confDiff(T, C)), "given "+pairText(T, C, t, cn)+" (b is the constraint)",
			fmt.Sprintf("TestConformance returned %d error(s) %v, model.Conforms = %v (%s)", len(errs), errs, want, tag))
		return
	}
	for _, e := range errs {
		if e == nil {
			r.viol("Type.TestConformance", "a reported error is nil", "", "given "+pairText(T, C, t, cn), fmt.Sprintf("%v", errs))
			break
		}
	}
	if !want {
		*r.n("observed:conformance-errors-total") += int64(len(errs))
	}
}

// checkPair runs both binary oracles on the ordered pair (a, b).
func (r *run) checkPair(A, B *m.TNode, a, b cty.Type, tag string) {
	r.checkEquals(A, B, a, b, tag)
	r.checkConformance(A, B, a, b, tag)
}

// --------------------------------------------------------------- unary oracles

func (r *run) checkHasDynamic(T *m.TNode, ty cty.Type) {
	c := r.c
	want := m.HasDynamic(T)
	var got bool
	o := core.Guard(func() { got = ty.HasDynamicTypes() })
	c.Eval(1)
	if o.Panicked {
		r.viol("Type.HasDynamicTypes", "panic: "+core.PanicClass(o.PanicMsg), "", tyText(T, ty), o.PanicMsg+"\n"+o.Stack)
		return
	}
	if want {
		if T.K == m.KDynamic {
			r.bump("oracle:HasDynamicTypes:placeholder-at-top")
		} else {
			r.bump("oracle:HasDynamicTypes:placeholder-inside")
		}
	} else {
		r.bump("oracle:HasDynamicTypes:no-placeholder")
	}
	if got != want {
		facet := "HasDynamicTypes true although no placeholder occurs"
		if want {
			facet = "HasDynamicTypes false although a placeholder occurs inside"
		}
		r.viol("Type.HasDynamicTypes", facet, "top-kind:"+T.K.String(), tyText(T, ty), fmt.Sprintf("got %v, model %v", got, want))
	}
}

// checkStrip: WithoutOptionalAttributesDeep removes every annotation, changes
// nothing else, and is idempotent.
func (r *run) checkStrip(T *m.TNode, ty cty.Type) {
	c := r.c
	const site = "Type.WithoutOptionalAttributesDeep"
	var s1 cty.Type
	o := core.Guard(func() { s1 = ty.WithoutOptionalAttributesDeep() })
	c.Eval(1)
	if o.Panicked {
		r.viol(site, "panic: "+core.PanicClass(o.PanicMsg), "", tyText(T, ty), o.PanicMsg+"\n"+o.Stack)
		return
	}
	var S1 *m.TNode
	if o := core.Guard(func() { S1 = m.TNodeOf(s1) }); o.Panicked {
		r.viol(site, "result cannot be read back through the type accessors", "", tyText(T, ty), fmt.Sprintf("result %#v: %s", s1, o.PanicMsg))
		return
	}
	hadOpt := m.HasOptional(T)
	if hadOpt {
		r.bump("oracle:strip:type-with-annotations")
	} else {
		r.bump("oracle:strip:type-without-annotations")
	}
	if m.HasOptional(S1) {
		r.viol(site, "an optional-attribute annotation survives", "", tyText(T, ty), fmt.Sprintf("result %s = %#v", S1, s1))
	}
	want := m.StripOptional(T)
	if !m.TypeEq(S1, want) {
		r.viol(site, "result differs from the input in more than the annotations", "first-difference:"+orNone(diffKind(S1, want)), tyText(T, ty),
			fmt.Sprintf("result %s = %#v, expected %s", S1, s1, want))
	}
	if !hadOpt {
		// nothing to remove: the result is the same type
		var eq bool
		o := core.Guard(func() { eq = s1.Equals(ty) && ty.Equals(s1) })
		c.Eval(2)
		r.bump("oracle:strip:identity-on-annotation-free-type")
		if o.Panicked || !eq {
			r.viol(site, "annotation-free type not Equal to its stripped form", "", tyText(T, ty), fmt.Sprintf("result %#v %s", s1, o.PanicMsg))
		}
	}
	// idempotence
	var s2 cty.Type
	o = core.Guard(func() { s2 = s1.WithoutOptionalAttributesDeep() })
	c.Eval(1)
	if o.Panicked {
		r.viol(site, "panic: "+core.PanicClass(o.PanicMsg), "second application", tyText(T, ty), o.PanicMsg+"\n"+o.Stack)
		return
	}
	var S2 *m.TNode
	var eq12 bool
	o = core.Guard(func() { S2 = m.TNodeOf(s2); eq12 = s2.Equals(s1) && s1.Equals(s2) })
	c.Eval(2)
	r.bump("oracle:strip:idempotent")
	if o.Panicked || !m.TypeEq(S1, S2) || !eq12 {
		r.viol(site, "not idempotent", "", tyText(T, ty), fmt.Sprintf("once %#v, twice %#v (Equals=%v) %s", s1, s2, eq12, o.PanicMsg))
	}
	// the stripped type and the original conform to each other (annotations are disregarded)
	r.checkConformance(T, S1, ty, s1, "type vs its stripped form")
	r.checkConformance(S1, T, s1, ty, "stripped form vs type")
	// and they are Equal exactly when there was nothing to strip
	r.checkEquals(T, S1, ty, s1, "type vs its stripped form")
}

// checkJSON: capsule-free types survive marshal+unmarshal unchanged (optional
// sets included); types containing a capsule refuse to marshal.
func (r *run) checkJSON(T *m.TNode, ty cty.Type, full bool) {
	c := r.c
	var buf []byte
	var err error
	o := core.Guard(func() { buf, err = ty.MarshalJSON() })
	c.Eval(1)
	if m.HasCapsule(T) {
		// The statement promises the round trip for capsule-FREE types only. What
		// MarshalJSON does with a capsule (its documentation says: refuse) is
		// recorded, never judged.
		where := "capsule-inside"
		if T.K == m.KCapsule {
			where = "capsule-at-top"
		}
		switch {
		case o.Panicked:
			r.bump("observed(not judged):json:capsule-type:panicked:" + where)
		case err != nil:
			r.bump("observed(not judged):json:capsule-type:refused-with-error:" + where)
		default:
			r.bump("observed(not judged):json:capsule-type:marshalled:" + where)
		}
		return
	}
	if o.Panicked {
		r.viol("Type.MarshalJSON", "panic: "+core.PanicClass(o.PanicMsg), "", tyText(T, ty), o.PanicMsg+"\n"+o.Stack)
		return
	}
	if err != nil {
		r.viol("Type.MarshalJSON", "capsule-free type failed to marshal", "top-kind:"+T.K.String(), tyText(T, ty), err.Error())
		return
	}
	if m.HasOptional(T) {
		r.bump("oracle:json:round-trip:with-optional-attributes")
	} else {
		r.bump("oracle:json:round-trip:no-optional-attributes")
	}
	if !stdjson.Valid(buf) {
		r.viol("Type.MarshalJSON", "output is not valid JSON", "", tyText(T, ty), string(buf))
		return
	}
	r.retainJSON(T, ty, buf)
	r.roundTripBack("Type.UnmarshalJSON", T, ty, buf, func(b []byte) (cty.Type, error) {
		var back cty.Type
		e := back.UnmarshalJSON(b)
		return back, e
	})
	if !full {
		return
	}
	// the same through the other public entry points
	var buf2 []byte
	o = core.Guard(func() { buf2, err = ctyjson.MarshalType(ty) })
	c.Eval(1)
	if o.Panicked || err != nil {
		r.viol("json.MarshalType", "capsule-free type failed to marshal", "", tyText(T, ty), fmt.Sprintf("err=%v %s", err, o.PanicMsg))
		return
	}
	if bytes.Equal(buf, buf2) { // not demanded, only recorded
		r.bump("observed(not judged):json.MarshalType-bytes-same-as-Type.MarshalJSON")
	} else {
		r.bump("observed(not judged):json.MarshalType-bytes-differ-from-Type.MarshalJSON")
	}
	r.bump("oracle:json:round-trip:via-ctyjson.MarshalType+UnmarshalType")
	r.roundTripBack("json.UnmarshalType", T, ty, buf2, ctyjson.UnmarshalType)
	var buf3 []byte
	o = core.Guard(func() { buf3, err = stdjson.Marshal(ty) })
	c.Eval(1)
	if o.Panicked || err != nil {
		r.viol("encoding/json.Marshal(Type)", "capsule-free type failed to marshal", "", tyText(T, ty), fmt.Sprintf("err=%v %s", err, o.PanicMsg))
		return
	}
	r.bump("oracle:json:round-trip:via-encoding/json")
	r.roundTripBack("encoding/json.Unmarshal(Type)", T, ty, buf3, func(b []byte) (cty.Type, error) {
		var back cty.Type
		e := stdjson.Unmarshal(b, &back)
		return back, e
	})
}

func (r *run) roundTripBack(site string, T *m.TNode, ty cty.Type, buf []byte, dec func([]byte) (cty.Type, error)) {
	c := r.c
	var back cty.Type
	var err error
	o := core.Guard(func() { back, err = dec(buf) })
	c.Eval(1)
	if o.Panicked {
		r.viol(site, "panic: "+core.PanicClass(o.PanicMsg), "decoding the library's own output", tyText(T, ty)+"\njson: "+string(buf), o.PanicMsg+"\n"+o.Stack)
		return
	}
	if err != nil {
		r.viol(site, "the library's own output is rejected", "top-kind:"+T.K.String(), tyText(T, ty)+"\njson: "+string(buf), err.Error())
		return
	}
	var B *m.TNode
	if o := core.Guard(func() { B = m.TNodeOf(back) }); o.Panicked {
		r.viol(site, "decoded type cannot be read back through the type accessors", "", tyText(T, ty)+"\njson: "+string(buf), fmt.Sprintf("%#v: %s", back, o.PanicMsg))
		return
	}
	if !m.TypeEq(B, T) {
		r.viol(site, "round trip changed the type", "first-difference:"+orNone(diffKind(T, B)), tyText(T, ty)+"\njson: "+string(buf),
			fmt.Sprintf("came back as %s = %#v", B, back))
		return
	}
	var eq bool
	o = core.Guard(func() { eq = back.Equals(ty) && ty.Equals(back) })
	c.Eval(2)
	if o.Panicked || !eq {
		r.viol(site, "round-tripped type is not Equal to the original", "", tyText(T, ty)+"\njson: "+string(buf), fmt.Sprintf("came back as %#v %s", back, o.PanicMsg))
	}
}

// checkSelf: the unary oracles plus the reflexive cases of the binary ones
// (against an independently built copy of the same tree).
func (r *run) checkSelf(T *m.TNode, ty cty.Type, full bool) {
	// harness self-check: the accessors give back the tree the type was built from
	var R *m.TNode
	o := core.Guard(func() { R = m.TNodeOf(ty) })
	if o.Panicked || !m.TypeEq(R, T) {
		r.viol("type constructors+accessors", "type read back through its accessors differs from the tree it was built from", "", tyText(T, ty), fmt.Sprintf("read back %v %s", R, o.PanicMsg))
		return
	}
	r.bump("selfcheck:accessors-return-the-constructed-tree")
	r.checkHasDynamic(T, ty)
	r.checkStrip(T, ty)
	r.checkJSON(T, ty, full)
	if copyTy, ok := r.buildCty(T); ok {
		r.bump("oracle:Equals:reflexive(independent-copy)")
		r.checkPair(T, T, ty, copyTy, "independent copy")
		r.checkPair(T, T, copyTy, ty, "independent copy")
		r.checkPair(T, T, ty, ty, "same value")
	}
	// everything conforms to the bare placeholder; the placeholder conforms only to itself
	r.checkConformance(T, m.TDynamic, ty, cty.DynamicPseudoType, "against the bare placeholder")
	r.checkConformance(m.TDynamic, T, cty.DynamicPseudoType, ty, "placeholder as the given type")
}

// ----------------------------------------------------------------------- laws

// checkLaws checks reflexivity, symmetry and transitivity on the OBSERVED
// answers of Equals over a small family of types (no model involved).
func (r *run) checkLaws(Ts []*m.TNode, tys []cty.Type, tag string) {
	c := r.c
	n := len(tys)
	e := make([][]bool, n)
	for i := range e {
		e[i] = make([]bool, n)
		for j := range e[i] {
			got, ok := r.checkEquals(Ts[i], Ts[j], tys[i], tys[j], tag)
			if !ok {
				return
			}
			e[i][j] = got
		}
	}
	witness := func(idx ...int) string {
		s := ""
		for _, i := range idx {
			s += fmt.Sprintf("t%d: %s\n", i, tyText(Ts[i], tys[i]))
		}
		return s
	}
	for i := 0; i < n; i++ {
		r.bump("law:reflexive")
		if !e[i][i] {
			r.viol("Type.Equals", "not reflexive", "top-kind:"+Ts[i].K.String(), witness(i), "t.Equals(t) = false")
		}
		for j := 0; j < n; j++ {
			if i < j {
				r.bump("law:symmetric")
				if e[i][j] != e[j][i] {
					r.viol("Type.Equals", "not symmetric", "first-difference:"+orNone(diffKind(Ts[i], Ts[j])), witness(i, j),
						fmt.Sprintf("t%d.Equals(t%d)=%v but t%d.Equals(t%d)=%v", i, j, e[i][j], j, i, e[j][i]))
				}
			}
			for k := 0; k < n; k++ {
				if e[i][j] && e[j][k] {
					if i != j && j != k && i != k {
						r.bump("law:transitive:premise-true-on-three-separately-built-types")
					} else {
						r.bump("law:transitive:premise-true-degenerate")
					}
					if !e[i][k] {
						r.viol("Type.Equals", "not transitive", "", witness(i, j, k), fmt.Sprintf("t%d=t%d and t%d=t%d but not t%d=t%d", i, j, j, k, i, k))
					}
				} else {
					r.bump("law:transitive:premise-false")
				}
			}
		}
	}
	// congruence: Equal types are indistinguishable by the other observers
	for i := 0; i < n; i++ {
		for j := i + 1; j < n; j++ {
			if !e[i][j] {
				continue
			}
			r.bump("law:equal-types-are-indistinguishable")
			var hi, hj bool
			var ci, cj []int
			o := core.Guard(func() {
				hi, hj = tys[i].HasDynamicTypes(), tys[j].HasDynamicTypes()
				for k := 0; k < n; k++ {
					ci = append(ci, len(tys[i].TestConformance(tys[k])), len(tys[k].TestConformance(tys[i])))
					cj = append(cj, len(tys[j].TestConformance(tys[k])), len(tys[k].TestConformance(tys[j])))
				}
			})
			c.Eval(2 + 4*n)
			bad := o.Panicked || hi != hj
			for k := range ci {
				if k < len(cj) && (ci[k] == 0) != (cj[k] == 0) {
					bad = true
				}
			}
			if bad {
				r.viol("Type.Equals", "Equal types are told apart by HasDynamicTypes/TestConformance", "", witness(i, j),
					fmt.Sprintf("HasDynamicTypes %v/%v conformance error counts %v / %v %s", hi, hj, ci, cj, o.PanicMsg))
			}
		}
	}
}

// retainJSON keeps the byte slices MarshalJSON returned for the last few types (the slices themselves, not
// copies, next to a private copy taken at once) and re-reads them after every later serialisation: a type
// "survives JSON serialization" only if the bytes the caller was handed stay what they were - a serialiser
// that returns a view of a pooled or reused buffer hands out bytes that the NEXT call rewrites.
func (r *run) retainJSON(T *m.TNode, ty cty.Type, buf []byte) {
	for i := range r.kept {
		k := &r.kept[i]
		if k.reported || bytes.Equal(k.live, k.copy) {
			continue
		}
		k.reported = true
		r.viol("Type.MarshalJSON", "bytes returned earlier were changed by a later serialisation", "history", k.desc,
			fmt.Sprintf("returned %s; the same slice now reads %s (after marshalling %s)", clipB(k.copy), clipB(k.live), tyText(T, ty)))
	}
	r.bump("oracle:json:earlier-results-stay-stable")
	e := keptJSON{live: buf, copy: append([]byte(nil), buf...), desc: tyText(T, ty)}
	if len(r.kept) < 8 {
		r.kept = append(r.kept, e)
	} else {
		r.kept[r.keptNext%8] = e
	}
	r.keptNext++
}

type keptJSON struct {
	live, copy []byte
	desc       string
	reported   bool
}

func clipB(b []byte) string {
	if len(b) > 300 {
		return string(b[:300]) + "..."
	}
	return string(b)
}

// ------------------------------------------------------------------------ Run

func (Driver) Run(c *core.Ctx) {
	r := &run{c: c, cnt: map[string]*int64{}, nsmp: map[string]int{}}
	defer r.flush()
	r.src = "sampled-with-mutants"
	r.sampled()
	r.src = "enumerated-pairs-and-singles"
	r.exhaustivePairs()
	r.src = "enumerated-triples"
	r.exhaustiveTriples()
	if c.Batch == 0 {
		r.src = "corpus"
		r.corpus()
	}
}

// sampled: depth-4 types, every single-position mutant, and a triple.
func (r *run) sampled() {
	c := r.c
	n := int64(c.N(800, 5000))
	for i := int64(0); i < n; i++ {
		if !c.Want(i) {
			continue
		}
		rng := c.RNG(i)
		depth := 4
		if rng.Chance(1, 5) {
			depth = 3
		}
		// prefer deep origins: redraw (a bounded number of times) while the tree is shallower than 3
		var T *m.TNode
		if rng.Chance(1, 40) {
			T = veryWideType(rng)
			r.bump("sampled:origin-drawn-very-wide")
		} else if rng.Chance(1, 4) {
			// wide shapes: tuples / objects of up to 6 members, half of the attributes optional
			budget := 40
			T = wideType(rng, depth, &budget)
			for try := 0; try < 8 && T.Depth() < 3; try++ {
				budget = 40
				T = wideType(rng, depth, &budget)
			}
			r.bump("sampled:origin-drawn-wide")
		} else {
			T = gen.Type(rng, depth, typeOpts)
			for try := 0; try < 8 && T.Depth() < 3; try++ {
				if try%2 == 0 {
					T = gen.Type(rng, depth, typeOpts)
				} else {
					T = gen.ObjectType(rng, depth, typeOpts)
				}
			}
			r.bump("sampled:origin-drawn-by-gen.Type")
		}
		r.countShape("sampled:origin", T)
		c.Begin(i, func() string { return "sampled type with all single-position mutants: " + T.String() })
		ty, ok := r.buildCty(T)
		if !ok {
			continue
		}
		r.bump(fmt.Sprintf("sampled:origin-depth-%d", T.Depth()))
		*r.n("sampled:origin-positions-total") += int64(nodeCount(T))
		c.Distinct("origin "+T.String(), !isLeaf(T))
		r.checkSelf(T, ty, true)

		muts := allMutants(T)
		for _, mu := range muts {
			M := mu.T
			mt, ok := r.buildCty(M)
			if !ok {
				continue
			}
			r.bump("mutant:" + mu.Kind)
			same := m.TypeEq(T, M)
			if same {
				r.bump("mutant-equal-to-origin:" + mu.Kind) // e.g. exchanging two equal tuple elements
			}
			c.Distinct("mutant "+T.String()+" -> "+M.String(), !same)
			tag := "single-position mutant (" + mu.Kind + " at " + mu.Path + ")"
			r.checkPair(T, M, ty, mt, tag)
			r.checkPair(M, T, mt, ty, tag)
			r.checkHasDynamic(M, mt)
			r.checkStrip(M, mt)
			r.checkJSON(M, mt, false)
		}
		if r.sampleOK("mutant", 2) && len(muts) > 0 {
			mu := muts[rng.Intn(len(muts))]
			c.Sample(map[string]any{"origin": T.String(), "mutants": len(muts), "one_mutant": mu.T.String(), "mutation": mu.Kind + " at " + mu.Path,
				"model_equal": m.TypeEq(T, mu.T), "model_origin_conforms_to_mutant": m.Conforms(T, mu.T), "model_mutant_conforms_to_origin": m.Conforms(mu.T, T)})
		}

		// a sampled triple around T
		fam := []*m.TNode{T}
		pick := func() *m.TNode {
			switch rng.Intn(6) {
			case 0, 1:
				return T // independent rebuild of the same tree
			case 2:
				if len(muts) > 0 {
					return muts[rng.Intn(len(muts))].T
				}
			case 3:
				if len(muts) > 0 {
					mm := allMutants(muts[rng.Intn(len(muts))].T)
					return mm[rng.Intn(len(mm))].T // two positions away (or back at the origin)
				}
			case 4:
				return m.StripOptional(T)
			}
			return gen.Type(rng, 3, typeOpts)
		}
		fam = append(fam, pick(), pick())
		ftys := make([]cty.Type, len(fam))
		good := true
		for k, F := range fam {
			if ftys[k], ok = r.buildCty(F); !ok {
				good = false
			}
		}
		if good {
			r.bump("triples:sampled")
			if r.sampleOK("triple", 1) {
				c.Sample(map[string]any{"triple": []string{fam[0].String(), fam[1].String(), fam[2].String()},
					"model_equal_01_12_02": []bool{m.TypeEq(fam[0], fam[1]), m.TypeEq(fam[1], fam[2]), m.TypeEq(fam[0], fam[2])}})
			}
			c.Distinct("triple "+fam[0].String()+" | "+fam[1].String()+" | "+fam[2].String(), true)
			r.checkLaws(fam, ftys, "sampled triple")
		}
	}
}

// exhaustivePairs: all ordered pairs of the depth<=2 space, rows split between batches.
func (r *run) exhaustivePairs() {
	c := r.c
	maxTuple := c.N(3, 4)
	Ts := enumDepth2(maxTuple)
	N := int64(len(Ts))
	left := make([]cty.Type, N)
	right := make([]cty.Type, N) // built independently of left
	for i, T := range Ts {
		var ok1, ok2 bool
		left[i], ok1 = r.buildCty(T)
		right[i], ok2 = r.buildCty(T)
		if !ok1 || !ok2 {
			return
		}
	}
	var rows, nontriv, triv int64
	for i := int64(0); i < N; i++ {
		if !c.Mine(i) {
			continue
		}
		A, a := Ts[i], left[i]
		// each type alone
		if idx := idxSingles + i; c.Want(idx) {
			c.Begin(idx, func() string { return "enumerated type alone: " + A.String() })
			r.bump("enumerated:types-checked-alone")
			c.BulkDistinct(1)
			r.checkSelf(A, a, true)
		}
		rows++
		for j := int64(0); j < N; j++ {
			idx := idxPairs + i*N + j
			if !c.Want(idx) {
				continue
			}
			B, b := Ts[j], right[j]
			c.Begin(idx, func() string { return "enumerated pair: " + A.String() + " vs " + B.String() })
			r.checkPair(A, B, a, b, "enumerated pair")
			if nontrivialPair(A, B) {
				nontriv++
			} else {
				triv++
			}
			if (i*N+j)%9973 == 5000 && nontrivialPair(A, B) && r.sampleOK("pair", 1) {
				c.Sample(map[string]any{"a": A.String(), "b_constraint": B.String(), "model_equal": m.TypeEq(A, B), "model_a_conforms_to_b": m.Conforms(A, B)})
			}
		}
	}
	c.BulkDistinct(nontriv)
	*r.n("enumerated:pairs:same-top-kind-or-placeholder-constraint") += nontriv
	*r.n("enumerated:pairs:different-top-kind") += triv
	*r.n("enumerated:rows") += rows
	if c.Only < 0 {
		c.Exhaustive(fmt.Sprintf("all %d x %d ordered pairs (Equals, TestConformance) and all %d single types (HasDynamicTypes, WithoutOptionalAttributesDeep, JSON) of depth<=2 over {bool,number,string,dynamic,capA,capB,list,set,map,tuple len<=%d,object over names a,b x every optional subset}",
			N, N, N, maxTuple))
	}
}

// exhaustiveTriples: equivalence laws on every triple of the 56-type sub-space.
func (r *run) exhaustiveTriples() {
	c := r.c
	Ts := enumTiny()
	N := int64(len(Ts))
	for i := int64(0); i < N; i++ {
		if !c.Mine(i) {
			continue
		}
		for j := int64(0); j < N; j++ {
			for k := int64(0); k < N; k++ {
				idx := idxTriples + (i*N+j)*N + k
				if !c.Want(idx) {
					continue
				}
				fam := []*m.TNode{Ts[i], Ts[j], Ts[k]}
				c.Begin(idx, func() string {
					return "enumerated triple: " + fam[0].String() + " | " + fam[1].String() + " | " + fam[2].String()
				})
				tys := make([]cty.Type, 3)
				ok := true
				for x := range fam {
					var o bool
					if tys[x], o = r.buildCty(fam[x]); !o {
						ok = false
					}
				}
				if !ok {
					continue
				}
				r.bump("triples:enumerated")
				if fam[0].K == fam[1].K || fam[1].K == fam[2].K || fam[0].K == fam[2].K {
					c.BulkDistinct(1)
				}
				r.checkLaws(fam, tys, "enumerated triple")
			}
		}
	}
	if c.Only < 0 {
		c.Exhaustive(fmt.Sprintf("equivalence laws of Equals on all %d^3 triples (each member built separately) of the types of depth<=2 with tuples of length<=1 and objects over the single name a", N))
	}
}
