package c07

import (
	"fmt"
	"reflect"

	"github.com/zclconf/go-cty/cty"

	"verif/harness/core"
	m "verif/harness/model"
)

func obj(opt []string, kv ...any) *m.TNode {
	a := map[string]*m.TNode{}
	for i := 0; i+1 < len(kv); i += 2 {
		a[kv[i].(string)] = kv[i+1].(*m.TNode)
	}
	return m.ObjectOf(a, opt...)
}

func opt(names ...string) []string { return names }

// corpusTypes is the fixed, seed-independent list of boundary types written
// from reading cty/*_type.go, type_conform.go and json.go. Every entry is
// checked alone and against every other entry, in both directions.
func corpusTypes() []*m.TNode {
	S, N, B, D := m.TString, m.TNumber, m.TBool, m.TDynamic
	oa := obj(nil, "a", S)
	oaOpt := obj(opt("a"), "a", S)
	ts := []*m.TNode{
		S, N, B, D, capA(), capB(), m.TupleOf(), obj(nil),
		// optional-attribute sets: every way two attributes can be annotated, and sets of equal size
		oa, oaOpt,
		obj(nil, "a", S, "b", N), obj(opt("a"), "a", S, "b", N), obj(opt("b"), "a", S, "b", N), obj(opt("a", "b"), "a", S, "b", N),
		obj(nil, "a", N, "b", S), obj(nil, "a", S, "c", N), obj(opt("c"), "a", S, "c", N), obj(nil, "a", S, "b", N, "c", B),
		obj(nil, "a", D), obj(opt("a"), "a", D), obj(nil, "a", D, "b", D), obj(nil, "a", S, "b", D), obj(nil, "a", D, "b", N),
		// tuple order and length
		m.TupleOf(S), m.TupleOf(S, N), m.TupleOf(N, S), m.TupleOf(S, N, B), m.TupleOf(S, N, N), m.TupleOf(S, S), m.TupleOf(D), m.TupleOf(D, D), m.TupleOf(S, D), m.TupleOf(D, N),
		m.TupleOf(S, N, B, S, N, B, S, N, B, S, N, B), m.TupleOf(S, N, B, S, N, B, S, N, B, S, N, N),
		// collections, placeholders in element position
		m.ListOf(S), m.SetOf(S), m.MapOf(S), m.ListOf(N), m.ListOf(D), m.SetOf(D), m.MapOf(D), m.ListOf(m.ListOf(D)), m.ListOf(m.ListOf(S)),
		m.SetOf(m.SetOf(D)), m.SetOf(m.SetOf(S)), m.SetOf(m.SetOf(N)), m.MapOf(m.SetOf(m.ListOf(D))), m.MapOf(m.SetOf(m.ListOf(B))),
		// annotations below every kind of parent (conformance must recurse past an Equals that answers false)
		m.ListOf(oaOpt), m.ListOf(oa), m.SetOf(oaOpt), m.SetOf(oa), m.MapOf(oaOpt), m.MapOf(oa), m.TupleOf(oaOpt), m.TupleOf(oa),
		obj(nil, "a", oaOpt), obj(nil, "a", oa), obj(opt("a"), "a", oaOpt), obj(opt("a"), "a", oa),
		// annotated objects as attributes of wider objects (stripping must recurse into every attribute)
		obj(nil, "a", oaOpt, "b", N), obj(opt("b"), "a", oaOpt, "b", oaOpt), obj(opt("a", "c"), "a", N, "b", m.TupleOf(S, oaOpt, N, oaOpt), "c", m.MapOf(oaOpt)),
		m.SetOf(obj(opt("a"), "a", D)), m.SetOf(obj(nil, "a", N)), m.SetOf(obj(opt("a"), "a", N)), m.SetOf(obj(opt("a"), "a", S, "b", N)),
		// capsules inside
		m.ListOf(capA()), m.ListOf(capB()), m.SetOf(m.ListOf(capA())), m.TupleOf(S, capA()), m.TupleOf(S, capB()), obj(nil, "a", capA()), obj(opt("a"), "a", capB()), m.MapOf(obj(nil, "a", S, "b", capA())),
		// attribute names that need care in JSON
		obj(opt(`a"b`, ""), `a"b`, S, "<tag>&", N, " ", B, "é", D, "", S, "日本", m.ListOf(S), "a\\b", S, "\x01", N),
		obj(opt("é"), `a"b`, S, "<tag>&", N, " ", B, "é", D, "", S, "日本", m.ListOf(S), "a\\b", S, "\x01", N),
		obj(nil, "", S), obj(opt(""), "", S), obj(nil, "object", S), obj(nil, "dynamic", D, "list", m.ListOf(S)),
	}
	// deep chains
	deep := obj(opt("a"), "a", D, "b", S)
	deep2 := obj(opt("b"), "a", D, "b", S)
	for i := 0; i < 40; i++ {
		switch i % 4 {
		case 0:
			deep, deep2 = m.ListOf(deep), m.ListOf(deep2)
		case 1:
			deep, deep2 = m.MapOf(deep), m.MapOf(deep2)
		case 2:
			deep, deep2 = m.TupleOf(N, deep), m.TupleOf(N, deep2)
		default:
			deep, deep2 = obj(opt("k"), "k", deep), obj(opt("k"), "k", deep2)
		}
	}
	ts = append(ts, deep, deep2)
	// wide objects that differ in one optional flag / one attribute type at the end
	wide := func(flip int, last *m.TNode) *m.TNode {
		a := map[string]*m.TNode{}
		var o []string
		for i := 0; i < 24; i++ {
			k := fmt.Sprintf("attr%02d", i)
			a[k] = []*m.TNode{S, N, B, m.ListOf(S)}[i%4]
			if (i%2 == 0) != (i == flip) {
				o = append(o, k)
			}
		}
		a["attr23"] = last
		return m.ObjectOf(a, o...)
	}
	ts = append(ts, wide(-1, S), wide(23, S), wide(0, S), wide(-1, D), wide(-1, N))
	return ts
}

type otherNative struct{ Y string }

func (r *run) corpus() {
	c := r.c
	Ts := corpusTypes()
	tys := make([]cty.Type, len(Ts))
	tys2 := make([]cty.Type, len(Ts))
	for i, T := range Ts {
		var ok1, ok2 bool
		tys[i], ok1 = r.buildCty(T)
		tys2[i], ok2 = r.buildCty(T)
		if !ok1 || !ok2 {
			return
		}
	}
	N := int64(len(Ts))
	for i := int64(0); i < N; i++ {
		idx := idxCorpus + i
		if !c.Want(idx) {
			continue
		}
		c.Begin(idx, func() string { return "corpus type against every corpus type: " + Ts[i].String() })
		r.bump("corpus:types")
		c.Distinct("corpus "+Ts[i].String(), true)
		r.checkSelf(Ts[i], tys[i], true)
		for j := int64(0); j < N; j++ {
			r.bump("corpus:pairs")
			r.checkPair(Ts[i], Ts[j], tys[i], tys2[j], "corpus pair")
		}
		// laws on a window of three neighbours and on (i, i, next)
		j, k := (i+1)%N, (i+2)%N
		r.checkLaws([]*m.TNode{Ts[i], Ts[j], Ts[k]}, []cty.Type{tys[i], tys2[j], tys[k]}, "corpus triple")
		r.checkLaws([]*m.TNode{Ts[i], Ts[i], Ts[j]}, []cty.Type{tys[i], tys2[i], tys[j]}, "corpus triple")
		// every single-position mutant of the corpus type
		for _, mu := range allMutants(Ts[i]) {
			mt, ok := r.buildCty(mu.T)
			if !ok {
				continue
			}
			r.bump("corpus:mutants")
			tag := "corpus mutant (" + mu.Kind + " at " + mu.Path + ")"
			r.checkPair(Ts[i], mu.T, tys[i], mt, tag)
			r.checkPair(mu.T, Ts[i], mt, tys[i], tag)
			r.checkHasDynamic(mu.T, mt)
			r.checkJSON(mu.T, mt, false)
		}
	}
	if idx := idxCorpus + 1000; c.Want(idx) {
		c.Begin(idx, func() string { return "corpus: direct assertions (capsule identity, constructor aliases, singletons)" })
		r.direct()
	}
}

// direct holds the boundary cases that the tree model cannot express.
func (r *run) direct() {
	c := r.c
	expectEq := func(name string, a, b cty.Type, want bool) {
		var e1, e2 bool
		var n1, n2 int
		o := core.Guard(func() {
			e1, e2 = a.Equals(b), b.Equals(a)
			n1, n2 = len(a.TestConformance(b)), len(b.TestConformance(a))
		})
		c.Eval(4)
		r.bump("corpus:direct-assertions")
		if o.Panicked {
			r.viol("Type.Equals", "panic: "+core.PanicClass(o.PanicMsg), "corpus:"+name, fmt.Sprintf("%#v vs %#v", a, b), o.PanicMsg+"\n"+o.Stack)
			return
		}
		if e1 != want || e2 != want {
			r.viol("Type.Equals", "corpus assertion failed", "corpus:"+name, fmt.Sprintf("%#v vs %#v", a, b), fmt.Sprintf("Equals %v/%v, expected %v", e1, e2, want))
		}
		if (n1 == 0) != want || (n2 == 0) != want {
			r.viol("Type.TestConformance", "corpus assertion failed", "corpus:"+name, fmt.Sprintf("%#v vs %#v", a, b), fmt.Sprintf("error counts %d/%d, expected conformance %v", n1, n2, want))
		}
	}
	// capsule identity: a second capsule type with the same name (and even the same native type) is a different type
	sameName := cty.Capsule("capA", reflect.TypeOf(otherNative{}))
	sameNative := cty.Capsule("capA", m.CapsuleA.EncapsulatedType())
	expectEq("capsule same name, other native type", sameName, m.CapsuleA, false)
	expectEq("capsule same name, same native type", sameNative, m.CapsuleA, false)
	expectEq("capsule with itself", sameNative, sameNative, true)
	expectEq("list of same-name capsule", cty.List(sameNative), cty.List(m.CapsuleA), false)
	expectEq("object of same-name capsule", cty.Object(map[string]cty.Type{"a": sameName}), cty.Object(map[string]cty.Type{"a": m.CapsuleA}), false)
	expectEq("tuple of same-name capsule", cty.Tuple([]cty.Type{cty.String, sameName}), cty.Tuple([]cty.Type{cty.String, m.CapsuleA}), false)
	expectEq("set of same-name capsule", cty.Set(sameNative), cty.Set(m.CapsuleA), false)
	expectEq("map of same-name capsule", cty.Map(sameName), cty.Map(m.CapsuleA), false)
	expectEq("same-name capsule three levels down", cty.Map(cty.Tuple([]cty.Type{cty.Number, cty.ObjectWithOptionalAttrs(map[string]cty.Type{"a": cty.String, "b": sameNative}, []string{"b"})})),
		cty.Map(cty.Tuple([]cty.Type{cty.Number, cty.ObjectWithOptionalAttrs(map[string]cty.Type{"a": cty.String, "b": m.CapsuleA}, []string{"b"})})), false)
	expectEq("two same-name capsules against each other", sameName, sameNative, false)
	// constructor aliases
	at := map[string]cty.Type{"a": cty.String, "b": cty.Number}
	expectEq("empty optional list is no annotation", cty.ObjectWithOptionalAttrs(at, []string{}), cty.Object(at), true)
	expectEq("nil optional list is no annotation", cty.ObjectWithOptionalAttrs(at, nil), cty.Object(at), true)
	expectEq("repeated optional name", cty.ObjectWithOptionalAttrs(at, []string{"a", "a"}), cty.ObjectWithOptionalAttrs(at, []string{"a"}), true)
	expectEq("optional order", cty.ObjectWithOptionalAttrs(at, []string{"a", "b"}), cty.ObjectWithOptionalAttrs(at, []string{"b", "a"}), true)
	expectEq("EmptyObject singleton", cty.EmptyObject, cty.Object(map[string]cty.Type{}), true)
	expectEq("EmptyObject vs nil map", cty.EmptyObject, cty.Object(nil), true)
	expectEq("EmptyTuple singleton", cty.EmptyTuple, cty.Tuple([]cty.Type{}), true)
	expectEq("EmptyTuple vs nil slice", cty.EmptyTuple, cty.Tuple(nil), true)
	expectEq("EmptyObject vs EmptyTuple", cty.EmptyObject, cty.EmptyTuple, false)
	expectEq("EmptyObject vs map", cty.EmptyObject, cty.Map(cty.DynamicPseudoType), false)
	expectEq("EmptyTuple vs list", cty.EmptyTuple, cty.List(cty.DynamicPseudoType), false)
	// the two empty structural types through the unary oracles
	r.checkSelf(m.TupleOf(), cty.EmptyTuple, true)
	r.checkSelf(obj(nil), cty.EmptyObject, true)
	r.checkSelf(obj(nil), cty.Object(nil), true)
	r.checkSelf(m.TupleOf(), cty.Tuple(nil), true)
	// capsule types outside the model through the unary observers that do not need the model:
	// no placeholder inside, stripping gives an Equal type back (nothing else changes)
	for _, ty := range []cty.Type{sameName, cty.Map(sameNative), cty.ObjectWithOptionalAttrs(map[string]cty.Type{"a": sameName}, []string{"a"})} {
		var hd, eqStrip, eqTwice bool
		o := core.Guard(func() {
			hd = ty.HasDynamicTypes()
			s := ty.WithoutOptionalAttributesDeep()
			eqStrip = s.Equals(ty.WithoutOptionalAttributesDeep()) && len(ty.TestConformance(s)) == 0 && len(s.TestConformance(ty)) == 0
			eqTwice = s.WithoutOptionalAttributesDeep().Equals(s)
		})
		c.Eval(8)
		r.bump("corpus:direct-assertions")
		if o.Panicked || hd || !eqStrip || !eqTwice {
			r.viol("Type.WithoutOptionalAttributesDeep", "corpus assertion failed", "corpus:extra capsule", fmt.Sprintf("%#v", ty),
				fmt.Sprintf("HasDynamicTypes=%v strip-stable=%v idempotent=%v %s", hd, eqStrip, eqTwice, o.PanicMsg))
		}
	}
}
