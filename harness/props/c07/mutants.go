package c07

import (
	"fmt"

	m "verif/harness/model"
)

// mutant is a type that differs from its origin in exactly one position.
type mutant struct {
	Kind string // which feature of the position was changed
	Path string // where
	T    *m.TNode
}

type localMut struct {
	kind string
	t    *m.TNode
}

func isLeaf(t *m.TNode) bool {
	switch t.K {
	case m.KBool, m.KNumber, m.KString, m.KDynamic, m.KCapsule:
		return true
	}
	return false
}

func isColl(t *m.TNode) bool { return t.K == m.KList || t.K == m.KSet || t.K == m.KMap }

func copyAttrs(a map[string]*m.TNode) map[string]*m.TNode {
	n := make(map[string]*m.TNode, len(a)+1)
	for k, v := range a {
		n[k] = v
	}
	return n
}

func copyOpt(o map[string]bool) map[string]bool {
	if len(o) == 0 {
		return nil
	}
	n := make(map[string]bool, len(o)+1)
	for k, v := range o {
		if v {
			n[k] = true
		}
	}
	if len(n) == 0 {
		return nil
	}
	return n
}

var tupleAsObjectNames = []string{"a", "b", "c", "k", "k4", "k5"}

// typeLabel names a change of the type found at a position after the role the
// position plays in its parent.
func typeLabel(parent m.Kind, root bool) string {
	if root {
		return "kind"
	}
	switch parent {
	case m.KList, m.KSet, m.KMap:
		return "element-type"
	case m.KTuple:
		return "tuple-element-type"
	case m.KObject:
		return "attribute-type"
	}
	return "kind"
}

// localMutants lists replacements for the node t that change exactly one
// feature of that node and keep its children wherever the new shape has room.
func localMutants(t *m.TNode, label string) []localMut {
	var out []localMut
	add := func(kind string, n *m.TNode) { out = append(out, localMut{kind, n}) }
	switch {
	case isLeaf(t):
		for _, l := range leafAlphabet() {
			if l.K == t.K && l.Capsule == t.Capsule {
				continue
			}
			if l.K == m.KCapsule && t.K == m.KCapsule {
				add("capsule-identity", l)
			} else {
				add(label, l)
			}
		}
		add(label, m.ListOf(t))
		add(label, m.SetOf(t))
		add(label, m.MapOf(t))
		add(label, m.TupleOf(t))
		add(label, m.ObjectOf(map[string]*m.TNode{"a": t}))
	case isColl(t):
		for _, k := range []m.Kind{m.KList, m.KSet, m.KMap} {
			if k != t.K {
				add(label, &m.TNode{K: k, Elem: t.Elem})
			}
		}
		add(label, t.Elem) // unwrap
		add(label, m.TupleOf(t.Elem))
		add(label, m.ObjectOf(map[string]*m.TNode{"a": t.Elem}))
		add(label, m.TDynamic)
		add(label, m.TString)
	case t.K == m.KTuple:
		first := m.TString
		if len(t.Elems) > 0 {
			first = t.Elems[0]
		}
		add(label, m.ListOf(first))
		add(label, m.SetOf(first))
		if len(t.Elems) <= len(tupleAsObjectNames) {
			attrs := map[string]*m.TNode{}
			for i, e := range t.Elems {
				attrs[tupleAsObjectNames[i]] = e
			}
			add(label, &m.TNode{K: m.KObject, Attrs: attrs})
		}
		add(label, m.TDynamic)
		add(label, m.TNumber)
		// tuple position: exchange two neighbours
		for i := 0; i+1 < len(t.Elems); i++ {
			es := append([]*m.TNode(nil), t.Elems...)
			es[i], es[i+1] = es[i+1], es[i]
			add("tuple-position", m.TupleOf(es...))
		}
		if len(t.Elems) >= 3 {
			es := append([]*m.TNode(nil), t.Elems...)
			es[0], es[len(es)-1] = es[len(es)-1], es[0]
			add("tuple-position", m.TupleOf(es...))
		}
		// tuple length
		add("tuple-length", m.TupleOf(append(append([]*m.TNode(nil), t.Elems...), m.TString)...))
		add("tuple-length", m.TupleOf(append([]*m.TNode{m.TDynamic}, t.Elems...)...))
		if len(t.Elems) > 0 {
			last := t.Elems[len(t.Elems)-1]
			add("tuple-length", m.TupleOf(append(append([]*m.TNode(nil), t.Elems...), last)...))
			add("tuple-length", m.TupleOf(t.Elems[:len(t.Elems)-1]...))
			add("tuple-length", m.TupleOf(t.Elems[1:]...))
		}
	case t.K == m.KObject:
		names := t.AttrNames()
		es := make([]*m.TNode, len(names))
		for i, k := range names {
			es[i] = t.Attrs[k]
		}
		add(label, m.TupleOf(es...))
		first := m.TString
		if len(es) > 0 {
			first = es[0]
		}
		add(label, m.MapOf(first))
		add(label, m.TDynamic)
		add(label, m.TBool)
		for _, k := range names {
			// attribute name: rename k (keeping type and optional flag)
			for _, nn := range []string{k + "x", "zz", "A", ""} {
				if _, taken := t.Attrs[nn]; taken || nn == k {
					continue
				}
				a := copyAttrs(t.Attrs)
				delete(a, k)
				a[nn] = t.Attrs[k]
				o := copyOpt(t.Opt)
				if t.Opt[k] {
					delete(o, k)
					o[nn] = true
				}
				add("attribute-name", &m.TNode{K: m.KObject, Attrs: a, Opt: o})
				break
			}
			// attribute count: drop k
			a := copyAttrs(t.Attrs)
			delete(a, k)
			o := copyOpt(t.Opt)
			if t.Opt[k] {
				delete(o, k)
				if len(o) == 0 {
					o = nil
				}
			}
			add("attribute-count", &m.TNode{K: m.KObject, Attrs: a, Opt: o})
			// optional flag of k
			o2 := copyOpt(t.Opt)
			if t.Opt[k] {
				delete(o2, k)
				if len(o2) == 0 {
					o2 = nil
				}
			} else {
				if o2 == nil {
					o2 = map[string]bool{}
				}
				o2[k] = true
			}
			add("optional-flag", &m.TNode{K: m.KObject, Attrs: t.Attrs, Opt: o2})
		}
		// move an optional flag to a neighbour (the size of the optional set is unchanged)
		for _, k1 := range names {
			if !t.Opt[k1] {
				continue
			}
			for _, k2 := range names {
				if t.Opt[k2] {
					continue
				}
				o := copyOpt(t.Opt)
				delete(o, k1)
				o[k2] = true
				add("optional-moved", &m.TNode{K: m.KObject, Attrs: t.Attrs, Opt: o})
				break
			}
		}
		// attribute count: one more attribute, required and optional
		for _, nn := range []string{"zz", "q", "new"} {
			if _, taken := t.Attrs[nn]; taken {
				continue
			}
			a := copyAttrs(t.Attrs)
			a[nn] = m.TString
			add("attribute-count", &m.TNode{K: m.KObject, Attrs: a, Opt: copyOpt(t.Opt)})
			a2 := copyAttrs(t.Attrs)
			a2[nn] = m.TDynamic
			o := copyOpt(t.Opt)
			if o == nil {
				o = map[string]bool{}
			}
			o[nn] = true
			add("attribute-count", &m.TNode{K: m.KObject, Attrs: a2, Opt: o})
			break
		}
	}
	return out
}

// allMutants returns every single-position mutant of t.
func allMutants(t *m.TNode) []mutant {
	var out []mutant
	var walk func(sub *m.TNode, path string, parent m.Kind, root bool, rebuild func(*m.TNode) *m.TNode)
	walk = func(sub *m.TNode, path string, parent m.Kind, root bool, rebuild func(*m.TNode) *m.TNode) {
		for _, lm := range localMutants(sub, typeLabel(parent, root)) {
			p := path
			if p == "" {
				p = "(root)"
			}
			out = append(out, mutant{Kind: lm.kind, Path: p, T: rebuild(lm.t)})
		}
		switch sub.K {
		case m.KList, m.KSet, m.KMap:
			walk(sub.Elem, path+"."+sub.K.String()+"-elem", sub.K, false, func(r *m.TNode) *m.TNode {
				return rebuild(&m.TNode{K: sub.K, Elem: r})
			})
		case m.KTuple:
			for i := range sub.Elems {
				i := i
				walk(sub.Elems[i], fmt.Sprintf("%s[%d]", path, i), m.KTuple, false, func(r *m.TNode) *m.TNode {
					es := append([]*m.TNode(nil), sub.Elems...)
					es[i] = r
					return rebuild(&m.TNode{K: m.KTuple, Elems: es})
				})
			}
		case m.KObject:
			for _, k := range sub.AttrNames() {
				k := k
				walk(sub.Attrs[k], fmt.Sprintf("%s.%q", path, k), m.KObject, false, func(r *m.TNode) *m.TNode {
					a := copyAttrs(sub.Attrs)
					a[k] = r
					return rebuild(&m.TNode{K: m.KObject, Attrs: a, Opt: copyOpt(sub.Opt)})
				})
			}
		}
	}
	walk(t, "", m.KBool, true, func(r *m.TNode) *m.TNode { return r })
	return out
}

// diffKind names the first structural difference between two types, in the
// terms the property uses. "" = no difference.
func diffKind(a, b *m.TNode) string {
	if a.K != b.K {
		return "kind"
	}
	switch a.K {
	case m.KList, m.KSet, m.KMap:
		return diffKind(a.Elem, b.Elem)
	case m.KTuple:
		if len(a.Elems) != len(b.Elems) {
			return "tuple-length"
		}
		for i := range a.Elems {
			if d := diffKind(a.Elems[i], b.Elems[i]); d != "" {
				return d
			}
		}
	case m.KObject:
		if len(a.Attrs) != len(b.Attrs) {
			return "attribute-names"
		}
		for _, k := range a.AttrNames() {
			if _, ok := b.Attrs[k]; !ok {
				return "attribute-names"
			}
		}
		for _, k := range a.AttrNames() {
			if d := diffKind(a.Attrs[k], b.Attrs[k]); d != "" {
				return d
			}
		}
		for _, k := range a.AttrNames() {
			if a.Opt[k] != b.Opt[k] {
				return "optional-set"
			}
		}
	case m.KCapsule:
		if a.Capsule != b.Capsule {
			return "capsule-identity"
		}
	}
	return ""
}

// nodeCount is the number of positions of a type.
func nodeCount(t *m.TNode) int {
	n := 1
	switch t.K {
	case m.KList, m.KSet, m.KMap:
		n += nodeCount(t.Elem)
	case m.KTuple:
		for _, e := range t.Elems {
			n += nodeCount(e)
		}
	case m.KObject:
		for _, a := range t.Attrs {
			n += nodeCount(a)
		}
	}
	return n
}
