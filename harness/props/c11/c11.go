// Package c11: standard functions are total and their predicted types are sound.
package c11

import (
	"errors"
	"fmt"
	"os"
	"strings"

	"github.com/zclconf/go-cty/cty"
	"github.com/zclconf/go-cty/cty/function"
	"github.com/zclconf/go-cty/cty/function/stdlib"

	"verif/harness/core"
	"verif/harness/model"
	"verif/harness/mon"
)

type Driver struct{}

func (Driver) ID() string { return "C11" }

func (Driver) Info() core.Info {
	return core.Info{
		Title: "standard functions are total and their predicted types are sound",
		Rule: "case = (function object from the registry of every exported stdlib function variable + MakeToFunc for 12 target types, argument list): length = fixed parameters + 0..4 variadic arguments; " +
			"each argument generated from its parameter's type constraint with dynamic constraints instantiated by arbitrary types (biased to the kinds the function mentions), " +
			"as a known value (hostile scalars: negative, fractional, huge, +-Inf, -0; format strings from the verb grammar; regexes; JSON/CSV/timestamps with mutations), a typed null, a null of dynamic type, " +
			"a typed (possibly refined) unknown, DynamicVal, with nulls/unknowns/dynamically typed members injected at nested positions and marks at top level or depth; plus a fixed corpus of boundary witnesses; plus chained calls (chain.go): 3-6 calls of sequence/collection functions in which a result, or an unknown placeholder of the type predicted for it, is an argument of a later call, " +
			"with all types and values in play compared after every call with what they were when handed out and earlier results re-checked against their predictions. " +
			"Each case executes Call(args), ReturnTypeForValues(args) and ReturnType(types of args) under recover in a worker limited to 4 GiB of address space. " +
			"Stated bounds: size-like numbers (indent spaces) are clamped to |n| <= 65536, printf widths/precisions to 3 digits, collections to 3 members (variadic lists to 4). " +
			"distinct = hash of (function, printable arguments); non-trivial = Call returned a value, so the conformance clauses were decided on it",
		Assumptions: []string{
			"model.Conforms (type conforms to a constraint with dynamic placeholders) written from the documentation of Type.TestConformance, independent of the library",
			"an error value is 'ordinary' unless it is, or wraps, a function.PanicError (also recognised by its fixed message prefix when flattened into text)",
			"strings are valid UTF-8; resource exhaustion is excluded by the stated caps, not observed",
			"the registry-completeness check parses the stdlib sources the binary was built from with go/parser and reports function.New variables the registry misses as counters registry:missing:*",
		},
		MinNontrivial: 30000,
		MemLimitKB:    4 << 20,
		Durable:       true,
	}
}

func (Driver) Batches(tier string) int {
	if tier == "thorough" {
		return 64
	}
	return 16
}

const (
	quickCases    = 1_600_000
	thoroughCases = 30_000_000
)

func (Driver) Run(c *core.Ctx) {
	w := weighted()
	nw := int64(len(w))
	total := int64(c.N(quickCases, thoroughCases))
	share := (total + int64(c.NBatches) - 1) / int64(c.NBatches)
	// start each batch at a different offset of the round-robin so that small batches still visit every function
	off := int64(c.Batch) * 7
	if c.Batch == 0 {
		// the corpus goes first so that its witnesses are reported before the sampled cases
		runCompleteness(c)
		runCorpus(c, 1_000_000_000)
	}
	for i := int64(0); i < share; i++ {
		if !c.Want(i) {
			continue
		}
		r := c.RNG(i)
		d := w[(i+off)%nw]
		var al argList
		g := core.Guard(func() { al = genArgs(r, d) })
		if g.Panicked {
			c.Begin(i, func() string { return d.name + "(<generator panicked>)" })
			c.Count("harness:generator-panicked")
			c.Violate("harness", "harness: argument generator panicked", d.name, fmt.Sprintf("seed case %d", i), g.PanicMsg+"\n"+g.Stack)
			continue
		}
		c.Count("profile:" + al.profile)
		for _, k := range al.unknownKinds {
			c.Count("unknown-kind:" + k)
			if k != "unrefined" && k != "dynamic" {
				c.Count("refined-unknowns-seen-by:" + d.name)
			}
		}
		for _, cl := range al.classes {
			for _, part := range strings.Split(cl, "+") {
				c.Count("arg:" + part)
			}
		}
		checkCase(c, i, d, al.vals)
	}
	runChains(c, 500_000_000)
}

func runCompleteness(c *core.Ctx) {
	if c.Only >= 0 {
		return
	}
	res := checkCompleteness()
	if res.err != "" {
		c.Count("registry:parse-error")
		fmt.Fprintf(os.Stderr, "C11 registry completeness: cannot parse %s: %s\n", res.dir, res.err)
		return
	}
	c.CountN("registry:stdlib-function.New-variables-parsed", int64(len(res.parsedVars)))
	c.CountN("registry:stdlib-constructors-parsed", int64(len(res.constructors)))
	c.CountN("registry:entries", int64(len(registry)))
	c.CountN("registry:variables-covered", int64(len(res.parsedVars)-len(res.missingVars)))
	for _, v := range res.missingVars {
		c.Count("registry:missing:" + v)
		c.CrossNote("C11", "COVERAGE GAP: stdlib variable "+v+" (function.New) is not in the driver's registry, so it was not exercised", res.dir)
		fmt.Fprintf(os.Stderr, "C11 COVERAGE GAP: stdlib variable %s (function.New) is not in the registry\n", v)
	}
	for _, v := range res.missingCtors {
		c.Count("registry:missing-constructor:" + v)
		c.CrossNote("C11", "COVERAGE GAP: stdlib constructor "+v+" (returns function.New) is not in the driver's registry", res.dir)
		fmt.Fprintf(os.Stderr, "C11 COVERAGE GAP: stdlib constructor %s (returns function.New) is not in the registry\n", v)
	}
	for _, v := range res.staleVars {
		c.Count("registry:stale:" + v)
	}
	if len(res.missingVars) == 0 && len(res.missingCtors) == 0 {
		c.Exhaustive(fmt.Sprintf("registry covers all %d function.New variables and %d constructor(s) found by go/parser in %s", len(res.parsedVars), len(res.constructors), res.dir))
	}
}

// ---------------------------------------------------------------------------
// printing and input classes

func show(v cty.Value) string {
	u, marks := v.Unmark()
	if u.Type().Equals(stdlib.Bytes) && u.IsKnown() && !u.IsNull() {
		b := *(u.EncapsulatedValue().(*[]byte))
		s := fmt.Sprintf("stdlib.BytesVal(%x)", b)
		if len(marks) > 0 {
			s += fmt.Sprintf(".WithMarks(%#v)", marks)
		}
		return s
	}
	return fmt.Sprintf("%#v", v)
}

func fmtArgs(a []cty.Value) string {
	p := make([]string, len(a))
	for i, v := range a {
		p[i] = show(v)
	}
	return strings.Join(p, ", ")
}

func fmtTypes(a []cty.Type) string {
	p := make([]string, len(a))
	for i, v := range a {
		p[i] = fmt.Sprintf("%#v", v)
	}
	return strings.Join(p, ", ")
}

// classPriority orders the input flags: the class of a violation is the first
// flag in this order that the argument list has (one token, so that one defect
// does not fan out into dozens of signatures).
var classPriority = []string{"dynamicval-arg", "null-dynamic-arg", "dynamic-typed-part", "null-arg", "nested-null", "unknown-arg", "nested-unknown", "inf", "negative", "fraction"}

// inputClass summarises an argument list by its most unusual feature.
func inputClass(args []cty.Value) string {
	fl := map[string]bool{}
	for _, a := range args {
		u, _ := a.UnmarkDeep()
		switch {
		case u.Type() == cty.DynamicPseudoType && !u.IsKnown():
			fl["dynamicval-arg"] = true
		case u.Type() == cty.DynamicPseudoType:
			fl["null-dynamic-arg"] = true
		case !u.IsKnown():
			fl["unknown-arg"] = true
		case u.IsNull():
			fl["null-arg"] = true
		}
		if u.Type() != cty.DynamicPseudoType && u.Type().HasDynamicTypes() {
			fl["dynamic-typed-part"] = true
		}
		if u.IsKnown() && !u.IsNull() {
			if u.Type() == cty.Number {
				f := u.AsBigFloat()
				switch {
				case f.IsInf():
					fl["inf"] = true
				case f.Sign() < 0:
					fl["negative"] = true
				}
				if !f.IsInf() && !f.IsInt() {
					fl["fraction"] = true
				}
			}
			walkNested(u, fl, true)
		}
	}
	for _, k := range classPriority {
		if fl[k] {
			return k
		}
	}
	return "plain"
}

func walkNested(v cty.Value, fl map[string]bool, top bool) {
	if !top {
		switch {
		case !v.IsKnown():
			fl["nested-unknown"] = true
			return
		case v.IsNull():
			fl["nested-null"] = true
			return
		}
	}
	ty := v.Type()
	if ty.IsListType() || ty.IsSetType() || ty.IsMapType() || ty.IsTupleType() || ty.IsObjectType() {
		for it := v.ElementIterator(); it.Next(); {
			_, e := it.Element()
			walkNested(e, fl, false)
		}
	}
}

// ---------------------------------------------------------------------------
// the oracle

const (
	facetNilVal      = "Call returned NilVal without an error"
	facetRTVFailed   = "ReturnTypeForValues failed although Call succeeded"
	facetConfRTV     = "result type does not conform to ReturnTypeForValues"
	facetConfRT      = "result type does not conform to ReturnType (type-only prediction)"
	facetRTRejects   = "type-only prediction rejects a call that succeeds with wholly known arguments"
	panicErrorPrefix = "panic in function implementation"
)

// panicErrorOf reports whether err is, wraps, or textually carries a function.PanicError.
func panicErrorOf(err error) (string, bool) {
	if err == nil {
		return "", false
	}
	var pe function.PanicError
	if errors.As(err, &pe) {
		return fmt.Sprint(pe.Value), true
	}
	// ArgError embeds an error without Unwrap, and fmt.Errorf("%s") flattens: fall back to the fixed message prefix
	if s := err.Error(); strings.Contains(s, panicErrorPrefix) {
		i := strings.Index(s, panicErrorPrefix)
		msg := strings.TrimPrefix(s[i+len(panicErrorPrefix):], ": ")
		if j := strings.Index(msg, "\n"); j >= 0 {
			msg = msg[:j]
		}
		return msg, true
	}
	return "", false
}

// caseOut is what one checked case observed; chain.go builds the next calls of a history from it.
type caseOut struct {
	got    cty.Value // result of Call (valid when callOK)
	callOK bool
	tv     cty.Type // ReturnTypeForValues (valid when rtvOK)
	rtvOK  bool
	tt     cty.Type // ReturnType of the argument types (valid when rtOK)
	rtOK   bool
}

func checkCase(c *core.Ctx, idx int64, d *fnDef, args []cty.Value) (out caseOut) {
	site := "stdlib." + d.name
	desc := func() string { return d.name + "(" + fmtArgs(args) + ")" }
	c.Begin(idx, desc)
	c.Count("fn:" + d.name)
	witness := desc()
	class := ""
	classOnce := func() string {
		if class == "" {
			class = inputClass(args)
		}
		return class
	}

	types := make([]cty.Type, len(args))
	whollyKnown := true
	for i, a := range args {
		types[i] = a.Type()
		if !a.IsWhollyKnown() {
			whollyKnown = false
		}
	}

	// --- Call
	var got cty.Value
	var err error
	o := core.Guard(func() { got, err = d.fn.Call(args) })
	c.Eval(1)
	reported := map[string]bool{}
	callOK := false
	switch {
	case o.Panicked:
		c.Count("outcome:go-panic")
		pc := pclass(o.PanicMsg)
		reported[pc] = true
		c.Violate(site, "panic: "+pc, classOnce(), witness, "Go panic out of Function.Call: "+o.PanicMsg+"\n"+o.Stack)
	case err != nil:
		if msg, isPanic := panicErrorOf(err); isPanic {
			c.Count("outcome:panic-error")
			pc := pclass(msg)
			reported[pc] = true
			c.Violate(site, "PanicError: "+pc, classOnce(), witness, "Function.Call returned function.PanicError: "+msg+"\n"+stackOf(err))
		} else {
			c.Count("outcome:ordinary-error")
		}
	case got == cty.NilVal:
		c.Count("outcome:nilval")
		c.Violate(site, facetNilVal, classOnce(), witness, "value is cty.NilVal, error is nil")
	default:
		callOK = true
		c.Count("outcome:value")
		c.Count("ok:" + d.name)
		if w := mon.WellFormed(got); w != "" {
			c.CrossNote("C06", site+": "+w, witness)
		}
		if e := cty.VerifWellFormed(got); e != nil {
			c.CrossNote("C06", site+": (hook) "+e.Error(), witness)
		}
	}
	c.Distinct(witness, callOK)

	// --- ReturnTypeForValues
	var tv cty.Type
	var errv error
	ov := core.Guard(func() { tv, errv = d.fn.ReturnTypeForValues(args) })
	c.Eval(1)
	switch {
	case ov.Panicked:
		c.Count("outcome-rtv:go-panic")
		if pc := pclass(ov.PanicMsg); !reported[pc] {
			reported[pc] = true
			c.Violate(site, "panic: "+pc, classOnce(), witness, "Go panic out of Function.ReturnTypeForValues: "+ov.PanicMsg+"\n"+ov.Stack)
		}
	case errv != nil:
		if msg, isPanic := panicErrorOf(errv); isPanic {
			c.Count("outcome-rtv:panic-error")
			if pc := pclass(msg); !reported[pc] {
				reported[pc] = true
				c.Violate(site, "PanicError: "+pc, classOnce(), witness, "Function.ReturnTypeForValues returned function.PanicError: "+msg+"\n"+stackOf(errv))
			}
		} else {
			c.Count("outcome-rtv:ordinary-error")
		}
	default:
		c.Count("outcome-rtv:type")
	}

	// --- ReturnType (type-only prediction; the same as calling with unknown placeholders)
	var tt cty.Type
	var errt error
	ot := core.Guard(func() { tt, errt = d.fn.ReturnType(types) })
	c.Eval(1)
	rtOK := false
	switch {
	case ot.Panicked:
		c.Count("outcome-rt:go-panic")
		if pc := pclass(ot.PanicMsg); !reported[pc] {
			reported[pc] = true
			c.Violate(site, "panic: "+pc, "type-only", d.name+".ReturnType("+fmtTypes(types)+")", "Go panic out of Function.ReturnType: "+ot.PanicMsg+"\n"+ot.Stack)
		}
	case errt != nil:
		if msg, isPanic := panicErrorOf(errt); isPanic {
			c.Count("outcome-rt:panic-error")
			if pc := pclass(msg); !reported[pc] {
				reported[pc] = true
				c.Violate(site, "PanicError: "+pc, "type-only", d.name+".ReturnType("+fmtTypes(types)+")", "Function.ReturnType returned function.PanicError: "+msg+"\n"+stackOf(errt))
			}
		} else {
			c.Count("outcome-rt:ordinary-error")
		}
	default:
		rtOK = true
		c.Count("outcome-rt:type")
	}

	out = caseOut{got: got, callOK: callOK, tv: tv, rtvOK: !ov.Panicked && errv == nil, tt: tt, rtOK: rtOK}
	if !callOK {
		return
	}
	// --- conformance clauses
	gotT := model.TNodeOf(got.Type())
	switch {
	case ov.Panicked || errv != nil:
		if _, isPanic := panicErrorOf(errv); !ov.Panicked && !isPanic {
			c.Violate(site, facetRTVFailed, classOnce(), witness, fmt.Sprintf("Call returned %s; ReturnTypeForValues: %v", show(got), errv))
		}
	default:
		c.Count("oracle:conforms-to-ReturnTypeForValues:checked")
		if tv == cty.NilType || !model.Conforms(gotT, model.TNodeOf(tv)) {
			c.Violate(site, facetConfRTV, classOnce(), witness, fmt.Sprintf("Call returned %s of type %#v; ReturnTypeForValues predicted %#v", show(got), got.Type(), tv))
		} else if tv.HasDynamicTypes() {
			c.Count("oracle:conforms-to-ReturnTypeForValues:through-placeholder")
		}
	}
	if rtOK {
		c.Count("oracle:conforms-to-ReturnType:checked")
		if tt == cty.NilType || !model.Conforms(gotT, model.TNodeOf(tt)) {
			c.Violate(site, facetConfRT, classOnce(), witness, fmt.Sprintf("Call returned %s of type %#v; ReturnType(%s) predicted %#v", show(got), got.Type(), fmtTypes(types), tt))
		} else if tt.HasDynamicTypes() {
			c.Count("oracle:conforms-to-ReturnType:through-placeholder")
		} else {
			c.Count("oracle:conforms-to-ReturnType:exact")
		}
	}
	if whollyKnown {
		c.Count("oracle:known-success-not-rejected:checked")
		c.Count("ok-known:" + d.name)
		if !rtOK && !ot.Panicked {
			if _, isPanic := panicErrorOf(errt); !isPanic {
				c.Violate(site, facetRTRejects, classOnce(), witness, fmt.Sprintf("Call returned %s; ReturnType(%s) failed: %v", show(got), fmtTypes(types), errt))
			}
		}
	}
	if c.WantSample() && idx%97 == 0 {
		c.Sample(map[string]any{"call": witness, "result": show(got), "ReturnTypeForValues": fmt.Sprintf("%#v", tv), "ReturnType": fmt.Sprintf("%#v / %v", tt, errt)})
	}
	return
}

// pclass is core.PanicClass with a parenthesised tail (which embeds types) cut off.
func pclass(msg string) string {
	c := core.PanicClass(msg)
	if i := strings.Index(c, " ("); i > 0 {
		c = c[:i]
	}
	return c
}

// stackOf extracts the go-cty frames of the stack a PanicError carries.
func stackOf(err error) string {
	var pe function.PanicError
	if !errors.As(err, &pe) {
		return ""
	}
	lines := strings.Split(string(pe.Stack), "\n")
	var keep []string
	for i := 0; i+1 < len(lines); i++ {
		if strings.Contains(lines[i+1], "/cty/") && !strings.Contains(lines[i], "errorForPanic") && !strings.Contains(lines[i], "debug.Stack") {
			loc := strings.TrimSpace(lines[i+1])
			if j := strings.Index(loc, " +0x"); j >= 0 {
				loc = loc[:j]
			}
			keep = append(keep, strings.TrimSpace(lines[i])+" @ "+loc)
			if len(keep) >= 7 {
				break
			}
		}
	}
	return strings.Join(keep, "\n")
}
