package c11

import (
	"go/ast"
	"go/parser"
	"go/token"
	"os"
	"path/filepath"
	"reflect"
	"runtime"
	"sort"
	"strings"

	"github.com/zclconf/go-cty/cty"
	"github.com/zclconf/go-cty/cty/function"
	"github.com/zclconf/go-cty/cty/function/stdlib"
)

// fnDef is one registry entry: a function object of the standard library (or
// one built by a stdlib constructor) plus what the generator needs to know to
// be hostile without exhausting resources.
type fnDef struct {
	name    string // registry name; violations use site "stdlib."+name
	goVar   string // Go variable in package stdlib ("" for constructed functions)
	fn      function.Function
	weight  int                                                       // share of the case list
	hint    func(r *rnd, pos, nargs int, prev []cty.Value) *cty.Value // targeted argument for position pos (nil = use the generic generator)
	sizePos map[int]bool                                              // positions whose number drives an allocation: capped to |n| <= sizeCap
	fmtPos  int                                                       // position of a printf-style format string (-1 = none); widths/precisions capped to 3 digits
	bias    []string                                                  // type kinds a dynamic parameter is biased to
}

// sizeCap is the stated bound on size-like numeric arguments (repeat counts):
// larger values are legal inputs but make the call allocate proportionally, and
// resource exhaustion is not what this property is about.
const sizeCap = 65536

var registry []*fnDef

func reg(name, goVar string, fn function.Function, weight int) *fnDef {
	d := &fnDef{name: name, goVar: goVar, fn: fn, weight: weight, fmtPos: -1}
	registry = append(registry, d)
	return d
}

// toTargets are the representative target types for which conversion functions
// are built with stdlib.MakeToFunc.
var toTargets = []struct {
	name string
	ty   cty.Type
}{
	{"to_string", cty.String},
	{"to_number", cty.Number},
	{"to_bool", cty.Bool},
	{"to_list_dynamic", cty.List(cty.DynamicPseudoType)},
	{"to_set_dynamic", cty.Set(cty.DynamicPseudoType)},
	{"to_map_dynamic", cty.Map(cty.DynamicPseudoType)},
	{"to_list_string", cty.List(cty.String)},
	{"to_set_number", cty.Set(cty.Number)},
	{"to_map_bool", cty.Map(cty.Bool)},
	{"to_object_ab", cty.Object(map[string]cty.Type{"a": cty.String, "b": cty.Number})},
	{"to_tuple_sn", cty.Tuple([]cty.Type{cty.String, cty.Number})},
	{"to_dynamic", cty.DynamicPseudoType},
}

func init() {
	var d *fnDef
	// bool.go
	reg("not", "NotFunc", stdlib.NotFunc, 1)
	reg("and", "AndFunc", stdlib.AndFunc, 1)
	reg("or", "OrFunc", stdlib.OrFunc, 1)
	// bytes.go
	reg("byteslen", "BytesLenFunc", stdlib.BytesLenFunc, 1)
	reg("bytesslice", "BytesSliceFunc", stdlib.BytesSliceFunc, 2).hint = hintBytesSlice
	// collection.go
	reg("hasindex", "HasIndexFunc", stdlib.HasIndexFunc, 2).hint = hintIndex
	reg("index", "IndexFunc", stdlib.IndexFunc, 2).hint = hintIndex
	reg("length", "LengthFunc", stdlib.LengthFunc, 1)
	reg("element", "ElementFunc", stdlib.ElementFunc, 3).hint = hintElement
	reg("coalescelist", "CoalesceListFunc", stdlib.CoalesceListFunc, 3).hint = hintFamily([]string{"list", "tuple"}, "")
	reg("compact", "CompactFunc", stdlib.CompactFunc, 1)
	reg("contains", "ContainsFunc", stdlib.ContainsFunc, 3).hint = hintContains
	reg("distinct", "DistinctFunc", stdlib.DistinctFunc, 2)
	reg("chunklist", "ChunklistFunc", stdlib.ChunklistFunc, 2).hint = hintSmallSecond
	reg("flatten", "FlattenFunc", stdlib.FlattenFunc, 3).bias = []string{"list", "set", "tuple"}
	reg("keys", "KeysFunc", stdlib.KeysFunc, 2).bias = []string{"map", "object"}
	reg("lookup", "LookupFunc", stdlib.LookupFunc, 4).hint = hintLookup
	reg("merge", "MergeFunc", stdlib.MergeFunc, 5).hint = hintMerge
	reg("reverselist", "ReverseListFunc", stdlib.ReverseListFunc, 2).bias = []string{"list", "set", "tuple"}
	d = reg("setproduct", "SetProductFunc", stdlib.SetProductFunc, 5)
	d.bias, d.hint = []string{"list", "set", "tuple"}, hintFamily([]string{"list", "set", "tuple"}, "")
	reg("slice", "SliceFunc", stdlib.SliceFunc, 3).hint = hintSlice
	reg("values", "ValuesFunc", stdlib.ValuesFunc, 2).bias = []string{"map", "object"}
	reg("zipmap", "ZipmapFunc", stdlib.ZipmapFunc, 4).hint = hintZipmap
	// conversion.go
	reg("assertnotnull", "AssertNotNullFunc", stdlib.AssertNotNullFunc, 1)
	for _, t := range toTargets {
		reg(t.name, "", stdlib.MakeToFunc(t.ty), 1).hint = hintTo(t.ty)
	}
	// csv.go
	reg("csvdecode", "CSVDecodeFunc", stdlib.CSVDecodeFunc, 2).hint = hintCSV
	// datetime.go
	reg("formatdate", "FormatDateFunc", stdlib.FormatDateFunc, 3).hint = hintFormatDate
	reg("timeadd", "TimeAddFunc", stdlib.TimeAddFunc, 2).hint = hintTimeAdd
	// format.go
	d = reg("format", "FormatFunc", stdlib.FormatFunc, 6)
	d.hint, d.fmtPos = hintFormat, 0
	d = reg("formatlist", "FormatListFunc", stdlib.FormatListFunc, 5)
	d.hint, d.fmtPos = hintFormat, 0
	// general.go
	reg("equal", "EqualFunc", stdlib.EqualFunc, 2).hint = hintFamily(nil, "")
	reg("notequal", "NotEqualFunc", stdlib.NotEqualFunc, 2).hint = hintFamily(nil, "")
	reg("coalesce", "CoalesceFunc", stdlib.CoalesceFunc, 4).hint = hintFamily(nil, "")
	// json.go
	reg("jsonencode", "JSONEncodeFunc", stdlib.JSONEncodeFunc, 2)
	reg("jsondecode", "JSONDecodeFunc", stdlib.JSONDecodeFunc, 3).hint = hintJSON
	// number.go
	reg("abs", "AbsoluteFunc", stdlib.AbsoluteFunc, 1)
	reg("add", "AddFunc", stdlib.AddFunc, 1)
	reg("subtract", "SubtractFunc", stdlib.SubtractFunc, 1)
	reg("multiply", "MultiplyFunc", stdlib.MultiplyFunc, 1)
	reg("divide", "DivideFunc", stdlib.DivideFunc, 1)
	reg("modulo", "ModuloFunc", stdlib.ModuloFunc, 2)
	reg("gt", "GreaterThanFunc", stdlib.GreaterThanFunc, 1)
	reg("gte", "GreaterThanOrEqualToFunc", stdlib.GreaterThanOrEqualToFunc, 1)
	reg("lt", "LessThanFunc", stdlib.LessThanFunc, 1)
	reg("lte", "LessThanOrEqualToFunc", stdlib.LessThanOrEqualToFunc, 1)
	reg("negate", "NegateFunc", stdlib.NegateFunc, 1)
	reg("min", "MinFunc", stdlib.MinFunc, 1)
	reg("max", "MaxFunc", stdlib.MaxFunc, 1)
	reg("int", "IntFunc", stdlib.IntFunc, 1)
	reg("ceil", "CeilFunc", stdlib.CeilFunc, 1)
	reg("floor", "FloorFunc", stdlib.FloorFunc, 1)
	reg("log", "LogFunc", stdlib.LogFunc, 2)
	reg("pow", "PowFunc", stdlib.PowFunc, 2)
	reg("signum", "SignumFunc", stdlib.SignumFunc, 1)
	reg("parseint", "ParseIntFunc", stdlib.ParseIntFunc, 2).hint = hintParseInt
	// regexp.go
	reg("regex", "RegexFunc", stdlib.RegexFunc, 3).hint = hintRegex(0)
	reg("regexall", "RegexAllFunc", stdlib.RegexAllFunc, 3).hint = hintRegex(0)
	// sequence.go
	d = reg("concat", "ConcatFunc", stdlib.ConcatFunc, 4)
	d.bias, d.hint = []string{"list", "tuple"}, hintFamily([]string{"list", "list", "tuple"}, "")
	reg("range", "RangeFunc", stdlib.RangeFunc, 3)
	// set.go
	reg("sethaselement", "SetHasElementFunc", stdlib.SetHasElementFunc, 2).hint = hintContains
	reg("setunion", "SetUnionFunc", stdlib.SetUnionFunc, 3).hint = hintFamily(nil, "set")
	reg("setintersection", "SetIntersectionFunc", stdlib.SetIntersectionFunc, 3).hint = hintFamily(nil, "set")
	reg("setsubtract", "SetSubtractFunc", stdlib.SetSubtractFunc, 3).hint = hintFamily(nil, "set")
	reg("setsymmetricdifference", "SetSymmetricDifferenceFunc", stdlib.SetSymmetricDifferenceFunc, 3).hint = hintFamily(nil, "set")
	// string.go
	reg("upper", "UpperFunc", stdlib.UpperFunc, 1)
	reg("lower", "LowerFunc", stdlib.LowerFunc, 1)
	reg("reverse", "ReverseFunc", stdlib.ReverseFunc, 1)
	reg("strlen", "StrlenFunc", stdlib.StrlenFunc, 1)
	reg("substr", "SubstrFunc", stdlib.SubstrFunc, 3).hint = hintSubstr
	reg("join", "JoinFunc", stdlib.JoinFunc, 2)
	reg("sort", "SortFunc", stdlib.SortFunc, 2)
	reg("split", "SplitFunc", stdlib.SplitFunc, 1)
	reg("chomp", "ChompFunc", stdlib.ChompFunc, 1)
	d = reg("indent", "IndentFunc", stdlib.IndentFunc, 2)
	d.sizePos = map[int]bool{0: true}
	reg("title", "TitleFunc", stdlib.TitleFunc, 1)
	reg("trimspace", "TrimSpaceFunc", stdlib.TrimSpaceFunc, 1)
	reg("trim", "TrimFunc", stdlib.TrimFunc, 1)
	reg("trimprefix", "TrimPrefixFunc", stdlib.TrimPrefixFunc, 1)
	reg("trimsuffix", "TrimSuffixFunc", stdlib.TrimSuffixFunc, 1)
	// string_replace.go
	reg("replace", "ReplaceFunc", stdlib.ReplaceFunc, 1)
	reg("regexreplace", "RegexReplaceFunc", stdlib.RegexReplaceFunc, 2).hint = hintRegex(1)
}

// constructorsCovered lists the stdlib constructors (functions that return a
// function.New result) the registry instantiates.
var constructorsCovered = map[string]bool{"MakeToFunc": true}

// weighted returns the registry expanded by weight (the case list walks it round-robin).
func weighted() []*fnDef {
	var out []*fnDef
	for _, d := range registry {
		for k := 0; k < d.weight; k++ {
			out = append(out, d)
		}
	}
	return out
}

func byName(name string) *fnDef {
	for _, d := range registry {
		if d.name == name {
			return d
		}
	}
	return nil
}

// stdlibDir locates the source directory of the stdlib package the binary was
// built from (so that a scratch worktree is parsed when VERIF_REPO is set).
func stdlibDir() string {
	pc := reflect.ValueOf(stdlib.Upper).Pointer()
	if f := runtime.FuncForPC(pc); f != nil {
		file, _ := f.FileLine(pc)
		if file != "" {
			if _, err := os.Stat(file); err == nil {
				return filepath.Dir(file)
			}
		}
	}
	return "/repo/cty/function/stdlib"
}

type completeness struct {
	dir          string
	parsedVars   []string // package-level variables initialised with function.New(...)
	constructors []string // functions whose body contains function.New(...)
	missingVars  []string // parsedVars not in the registry
	missingCtors []string
	staleVars    []string // registry entries naming a variable that does not exist
	err          string
}

// checkCompleteness parses the stdlib sources with go/parser and compares the
// function.New sites with the registry.
func checkCompleteness() completeness {
	res := completeness{dir: stdlibDir()}
	fset := token.NewFileSet()
	pkgs, err := parser.ParseDir(fset, res.dir, func(fi os.FileInfo) bool { return !strings.HasSuffix(fi.Name(), "_test.go") }, 0)
	if err != nil {
		res.err = err.Error()
		return res
	}
	isFunctionNew := func(e ast.Expr) bool {
		call, ok := e.(*ast.CallExpr)
		if !ok {
			return false
		}
		sel, ok := call.Fun.(*ast.SelectorExpr)
		if !ok {
			return false
		}
		x, ok := sel.X.(*ast.Ident)
		return ok && x.Name == "function" && sel.Sel.Name == "New"
	}
	for _, pkg := range pkgs {
		for _, file := range pkg.Files {
			for _, decl := range file.Decls {
				switch d := decl.(type) {
				case *ast.GenDecl:
					if d.Tok != token.VAR {
						continue
					}
					for _, sp := range d.Specs {
						vs := sp.(*ast.ValueSpec)
						for i, v := range vs.Values {
							if isFunctionNew(v) && i < len(vs.Names) {
								res.parsedVars = append(res.parsedVars, vs.Names[i].Name)
							}
						}
					}
				case *ast.FuncDecl:
					if d.Body == nil || d.Recv != nil {
						continue
					}
					found := false
					ast.Inspect(d.Body, func(n ast.Node) bool {
						if e, ok := n.(ast.Expr); ok && isFunctionNew(e) {
							found = true
						}
						return !found
					})
					if found {
						res.constructors = append(res.constructors, d.Name.Name)
					}
				}
			}
		}
	}
	sort.Strings(res.parsedVars)
	sort.Strings(res.constructors)
	have := map[string]bool{}
	for _, d := range registry {
		if d.goVar != "" {
			have[d.goVar] = true
		}
	}
	parsed := map[string]bool{}
	for _, v := range res.parsedVars {
		parsed[v] = true
		if !have[v] && ast.IsExported(v) {
			res.missingVars = append(res.missingVars, v)
		}
	}
	for _, f := range res.constructors {
		if !constructorsCovered[f] && ast.IsExported(f) {
			res.missingCtors = append(res.missingCtors, f)
		}
	}
	for v := range have {
		if !parsed[v] {
			res.staleVars = append(res.staleVars, v)
		}
	}
	sort.Strings(res.staleVars)
	return res
}
