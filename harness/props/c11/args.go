package c11

import (
	"math"
	"strings"

	"github.com/zclconf/go-cty/cty"
	"github.com/zclconf/go-cty/cty/function"
	"github.com/zclconf/go-cty/cty/function/stdlib"

	"verif/harness/core"
	"verif/harness/gen"
	"verif/harness/model"
)

type rnd = core.Rand

// ---------------------------------------------------------------------------
// types

var attrPool = []string{"a", "b", "c", "k"}

// genType draws a type of depth <= depth. Dynamic leaves and capsule leaves are
// allowed: a value generated for such a type holds DynamicVal / a null of
// dynamic type / a capsule value there.
func genType(r *rnd, depth int) cty.Type {
	if depth <= 1 {
		return primType(r)
	}
	switch r.Intn(12) {
	case 0, 1, 2:
		return primType(r)
	case 3, 4:
		return cty.List(genType(r, depth-1))
	case 5:
		return cty.Set(genType(r, depth-1))
	case 6, 7:
		return cty.Map(genType(r, depth-1))
	case 8, 9:
		n := r.Intn(4)
		es := make([]cty.Type, n)
		for i := range es {
			es[i] = genType(r, depth-1)
		}
		return cty.Tuple(es)
	default:
		n := r.Intn(4)
		at := map[string]cty.Type{}
		for i := 0; i < n; i++ {
			at[attrPool[r.Intn(len(attrPool))]] = genType(r, depth-1)
		}
		return cty.Object(at)
	}
}

func primType(r *rnd) cty.Type {
	switch k := r.Intn(40); {
	case k < 12:
		return cty.String
	case k < 24:
		return cty.Number
	case k < 33:
		return cty.Bool
	case k < 37:
		return cty.DynamicPseudoType
	case k < 38:
		return stdlib.Bytes
	case k < 39:
		return model.CapsuleA
	}
	return model.CapsuleB
}

func kindType(r *rnd, kind string, depth int) cty.Type {
	switch kind {
	case "list":
		return cty.List(genType(r, depth))
	case "set":
		return cty.Set(genType(r, depth))
	case "map":
		return cty.Map(genType(r, depth))
	case "tuple":
		n := r.Intn(4)
		es := make([]cty.Type, n)
		for i := range es {
			es[i] = genType(r, depth)
		}
		return cty.Tuple(es)
	case "object":
		n := r.Intn(4)
		at := map[string]cty.Type{}
		for i := 0; i < n; i++ {
			at[attrPool[r.Intn(len(attrPool))]] = genType(r, depth)
		}
		return cty.Object(at)
	case "string":
		return cty.String
	case "number":
		return cty.Number
	case "bool":
		return cty.Bool
	}
	return genType(r, depth)
}

// instantiate replaces the dynamic placeholders of a parameter's type
// constraint by arbitrary types, biased to the kinds the function mentions.
func instantiate(r *rnd, c cty.Type, bias []string) cty.Type {
	switch {
	case c == cty.DynamicPseudoType:
		if len(bias) > 0 && r.Chance(3, 5) {
			return kindType(r, bias[r.Intn(len(bias))], 2)
		}
		return genType(r, 3)
	case c.IsListType():
		return cty.List(instantiate(r, c.ElementType(), nil))
	case c.IsSetType():
		return cty.Set(instantiate(r, c.ElementType(), nil))
	case c.IsMapType():
		return cty.Map(instantiate(r, c.ElementType(), nil))
	case c.IsTupleType():
		ets := c.TupleElementTypes()
		out := make([]cty.Type, len(ets))
		for i, e := range ets {
			out[i] = instantiate(r, e, nil)
		}
		return cty.Tuple(out)
	case c.IsObjectType():
		out := map[string]cty.Type{}
		for k, e := range c.AttributeTypes() {
			out[k] = instantiate(r, e, nil)
		}
		return cty.Object(out)
	}
	return c
}

// concretize replaces every dynamic leaf by a concrete primitive or small type.
func concretize(r *rnd, ty cty.Type) cty.Type {
	switch {
	case ty == cty.DynamicPseudoType:
		for {
			t := genType(r, 2)
			if !t.HasDynamicTypes() {
				return t
			}
		}
	case ty.IsListType():
		return cty.List(concretize(r, ty.ElementType()))
	case ty.IsSetType():
		return cty.Set(concretize(r, ty.ElementType()))
	case ty.IsMapType():
		return cty.Map(concretize(r, ty.ElementType()))
	case ty.IsTupleType():
		ets := ty.TupleElementTypes()
		out := make([]cty.Type, len(ets))
		for i, e := range ets {
			out[i] = concretize(r, e)
		}
		return cty.Tuple(out)
	case ty.IsObjectType():
		out := map[string]cty.Type{}
		tn := model.TNodeOf(ty)
		for _, k := range tn.AttrNames() {
			out[k] = concretize(r, ty.AttributeType(k))
		}
		return cty.Object(out)
	}
	return ty
}

// ---------------------------------------------------------------------------
// scalars

var specialNumbers = []cty.Value{
	cty.NumberIntVal(0), cty.NumberIntVal(1), cty.NumberIntVal(-1), cty.NumberIntVal(2), cty.NumberIntVal(10),
	cty.NumberFloatVal(0.5), cty.NumberFloatVal(-0.5), cty.NumberFloatVal(1.5), cty.NumberFloatVal(-2.5),
	cty.PositiveInfinity, cty.NegativeInfinity, cty.NumberFloatVal(math.Inf(1)), cty.NumberFloatVal(math.Inf(-1)),
	cty.NumberFloatVal(math.Copysign(0, -1)),
	cty.NumberIntVal(math.MaxInt64), cty.NumberIntVal(math.MinInt64), cty.NumberIntVal(math.MaxInt64 - 1), cty.NumberIntVal(math.MaxInt32), cty.NumberIntVal(math.MaxInt32 + 1),
	cty.NumberUIntVal(math.MaxUint64), cty.NumberUIntVal(1 << 63),
	cty.MustParseNumberVal("1e30"), cty.MustParseNumberVal("-1e30"), cty.MustParseNumberVal("1e400"), cty.MustParseNumberVal("1e-400"),
	cty.NumberFloatVal(math.MaxFloat64), cty.NumberFloatVal(math.SmallestNonzeroFloat64),
	cty.NumberIntVal(1024), cty.NumberIntVal(1025), cty.NumberIntVal(65536), cty.NumberIntVal(-65536),
}

func hostileNumber(r *rnd) cty.Value {
	switch k := r.Intn(20); {
	case k < 7:
		return cty.NumberIntVal(int64(r.Intn(12) - 3))
	case k < 12:
		return specialNumbers[r.Intn(len(specialNumbers))]
	}
	return gen.Number(r).V
}

// smallInt draws an index-like number around [lo,hi], sometimes hostile.
func smallInt(r *rnd, lo, hi int) cty.Value {
	if r.Chance(1, 5) {
		return hostileNumber(r)
	}
	return cty.NumberIntVal(int64(lo + r.Intn(hi-lo+1)))
}

var specialStrings = []string{
	"", " ", "a", "abc", "hello world", "true", "false", "1", "-1", "0.5", "1e3", "null", "é", "e\u0301", "👍🏽", "각",
	"line1\nline2", "a\r\nb\r\n", "\n", "\n\n\n", "a\n", "\r", "tab\there", "%", "%%", "%d", "$1", "${x}", "a,b", "x,y\n1,2\n",
	"2006-01-02T15:04:05Z", "{}", "[]", "\"q\"", "  padded  ", "UPPER lower Title", "ß", "İ", "ǅ", "\u0000", "a\u0000b",
}

func hostileString(r *rnd) string {
	switch k := r.Intn(10); {
	case k < 3:
		return gen.SmallString(r)
	case k < 6:
		return gen.String(r, 8)
	case k < 7:
		// multi-line
		n := r.Intn(4)
		var sb strings.Builder
		for i := 0; i <= n; i++ {
			sb.WriteString(gen.String(r, 3))
			if i < n {
				sb.WriteString([]string{"\n", "\r\n", "\n\n"}[r.Intn(3)])
			}
		}
		return sb.String()
	}
	return specialStrings[r.Intn(len(specialStrings))]
}

func randBytes(r *rnd) cty.Value {
	n := r.Intn(9)
	b := make([]byte, n)
	for i := range b {
		b[i] = byte(r.Intn(256))
	}
	return stdlib.BytesVal(b)
}

// ---------------------------------------------------------------------------
// values

type valOpts struct {
	nullPct int  // chance that a nested position is null
	unkPct  int  // chance that a nested position is unknown
	keepDyn bool // dynamic positions stay dynamically typed (DynamicVal / null of dynamic type)
	maxLen  int
}

// unkLog records the kind of every unknown value drawn for the current case
// (workers are single-threaded; genArgs resets and reads it).
var unkLog []string

// unknownOf draws an unknown value of type ty from the menu of refinement
// kinds: unrefined; not-null only; for collections an exact length that stays
// unknown because the value may still be null, an exact length with not-null,
// length bounds lo..hi (incl. 0..0 and n..n), one-sided bounds; for numbers
// equal inclusive bounds (nullable, so the value stays unknown although its
// range holds one value), two-sided and one-sided bounds, inclusive or not;
// for strings a prefix (full or safely trimmed). Whether a refinement
// collapses the value into a known one is up to the library; if it does, the
// case simply has a known argument there.
func unknownOf(r *rnd, ty cty.Type) cty.Value {
	if ty == cty.DynamicPseudoType {
		unkLog = append(unkLog, "dynamic")
		return cty.DynamicVal
	}
	kind := "unrefined"
	v := cty.UnknownVal(ty)
	g := core.Guard(func() {
		b := cty.UnknownVal(ty).Refine()
		notNull := false
		switch {
		case ty.IsListType() || ty.IsSetType() || ty.IsMapType():
			switch r.Intn(8) {
			case 0:
				return
			case 1:
				kind, notNull = "not-null-only", true
			case 2, 3:
				kind = "exact-length-nullable"
				b = b.CollectionLength(r.Intn(4))
			case 4:
				kind, notNull = "exact-length-not-null", true
				b = b.CollectionLength(r.Intn(4))
			case 5:
				kind = "length-bounds"
				lo := r.Intn(3)
				hi := lo + r.Intn(3)
				b = b.CollectionLengthLowerBound(lo).CollectionLengthUpperBound(hi)
				notNull = r.Bool()
			case 6:
				kind = "length-lower-bound"
				b = b.CollectionLengthLowerBound(r.Intn(4))
				notNull = r.Bool()
			default:
				kind = "length-upper-bound"
				b = b.CollectionLengthUpperBound(r.Intn(4))
				notNull = r.Bool()
			}
		case ty == cty.Number:
			pick := func() cty.Value {
				if r.Chance(1, 4) {
					return hostileNumber(r)
				}
				return cty.NumberIntVal(int64(r.Intn(9) - 3))
			}
			switch r.Intn(7) {
			case 0:
				return
			case 1:
				kind, notNull = "not-null-only", true
			case 2, 3:
				kind = "number-equal-bounds-nullable"
				n := pick()
				b = b.NumberRangeInclusive(n, n)
			case 4:
				kind = "number-two-bounds"
				lo := int64(r.Intn(9) - 4)
				b = b.NumberRangeLowerBound(cty.NumberIntVal(lo), r.Bool()).NumberRangeUpperBound(cty.NumberIntVal(lo+1+int64(r.Intn(4))), r.Bool())
				notNull = r.Bool()
			case 5:
				kind = "number-lower-bound"
				b = b.NumberRangeLowerBound(pick(), r.Bool())
				notNull = r.Bool()
			default:
				kind = "number-upper-bound"
				b = b.NumberRangeUpperBound(pick(), r.Bool())
				notNull = r.Bool()
			}
		case ty == cty.String:
			switch r.Intn(5) {
			case 0:
				return
			case 1:
				kind, notNull = "not-null-only", true
			default:
				kind = "string-prefix"
				pfx := []string{"{", "[", "\"", "t", "f", "n", "-", "1", "x", " {", "é", "%d", "a", "a\n", "2006-01-02T", "(", "%"}[r.Intn(17)]
				if r.Bool() {
					b = b.StringPrefixFull(pfx)
				} else {
					b = b.StringPrefix(pfx)
				}
				notNull = r.Bool()
			}
		default:
			if r.Bool() {
				return
			}
			kind, notNull = "not-null-only", true
		}
		if notNull {
			b = b.NotNull()
		}
		v = b.NewValue()
	})
	if g.Panicked {
		// an inconsistent combination refused by the builder: fall back
		kind, v = "unrefined", cty.UnknownVal(ty)
	}
	if v.IsKnown() {
		kind += "(collapsed-to-known)"
	}
	unkLog = append(unkLog, kind)
	return v
}

// genVal draws a value of exactly type ty (dynamic positions of ty hold
// dynamically typed values unless they are outside any collection, where a
// concrete value may be substituted).
func genVal(r *rnd, ty cty.Type, o valOpts, top bool) cty.Value {
	if o.maxLen == 0 {
		o.maxLen = 3
	}
	if ty == cty.DynamicPseudoType {
		if o.keepDyn {
			if r.Chance(7, 10) {
				return cty.DynamicVal
			}
			return cty.NullVal(cty.DynamicPseudoType)
		}
		switch k := r.Intn(20); {
		case k < 2:
			return cty.DynamicVal
		case k < 3:
			return cty.NullVal(cty.DynamicPseudoType)
		}
		return genVal(r, concretize(r, genType(r, 2)), o, top)
	}
	if !top {
		if o.unkPct > 0 && r.Chance(o.unkPct, 100) {
			return unknownOf(r, ty)
		}
		if o.nullPct > 0 && r.Chance(o.nullPct, 100) {
			return cty.NullVal(ty)
		}
	}
	switch {
	case ty == cty.Bool:
		return cty.BoolVal(r.Bool())
	case ty == cty.Number:
		if !top && r.Chance(2, 3) {
			return gen.SmallNumber(r)
		}
		return hostileNumber(r)
	case ty == cty.String:
		if !top && r.Chance(2, 3) {
			return cty.StringVal(gen.SmallString(r))
		}
		return cty.StringVal(hostileString(r))
	case ty.IsListType() || ty.IsSetType() || ty.IsMapType():
		ety := ty.ElementType()
		eo := o
		if ety.HasDynamicTypes() {
			eo.keepDyn = true // all members must have exactly the declared element type
		}
		n := r.Intn(o.maxLen + 1)
		switch {
		case ty.IsListType():
			if n == 0 {
				return cty.ListValEmpty(ety)
			}
			es := make([]cty.Value, n)
			for i := range es {
				es[i] = genVal(r, ety, eo, false)
			}
			return cty.ListVal(es)
		case ty.IsSetType():
			if n == 0 {
				return cty.SetValEmpty(ety)
			}
			es := make([]cty.Value, n)
			for i := range es {
				es[i] = genVal(r, ety, eo, false)
			}
			return cty.SetVal(es)
		default:
			if n == 0 {
				return cty.MapValEmpty(ety)
			}
			mm := map[string]cty.Value{}
			for i := 0; i < n; i++ {
				mm[gen.SimpleKey(r)] = genVal(r, ety, eo, false)
			}
			return cty.MapVal(mm)
		}
	case ty.IsTupleType():
		ets := ty.TupleElementTypes()
		es := make([]cty.Value, len(ets))
		for i, et := range ets {
			es[i] = genVal(r, et, o, false)
		}
		return cty.TupleVal(es)
	case ty.IsObjectType():
		tn := model.TNodeOf(ty)
		mm := map[string]cty.Value{}
		for _, k := range tn.AttrNames() {
			mm[k] = genVal(r, ty.AttributeType(k), o, false)
		}
		return cty.ObjectVal(mm)
	case ty.Equals(stdlib.Bytes):
		return randBytes(r)
	case ty.Equals(model.CapsuleB):
		return model.NewCapB(r.Intn(3))
	case ty.IsCapsuleType():
		return model.NewCapA(r.Intn(2))
	}
	panic("genVal: unsupported type " + ty.GoString())
}

// genOfType draws a known value conforming to ty whose dynamic positions may be
// instantiated (outside collections) or kept dynamic (inside collections, or
// with chance 1/4 everywhere).
func genOfType(r *rnd, ty cty.Type, o valOpts) cty.Value {
	if ty.HasDynamicTypes() && ty != cty.DynamicPseudoType {
		switch r.Intn(4) {
		case 0:
			o.keepDyn = true
		case 1, 2:
			ty = concretize(r, ty)
		}
	}
	return genVal(r, ty, o, true)
}

// ---------------------------------------------------------------------------
// argument lists

type argList struct {
	vals         []cty.Value
	classes      []string // one input class per argument (for the counters)
	profile      string
	unknownKinds []string // kind of every unknown value drawn (top level or nested)
}

func paramFor(d *fnDef, pos int) function.Parameter {
	ps := d.fn.Params()
	if pos < len(ps) {
		return ps[pos]
	}
	return *d.fn.VarParam()
}

// genArgs draws an argument list of admissible length for d.
func genArgs(r *rnd, d *fnDef) argList {
	ps := d.fn.Params()
	n := len(ps)
	if d.fn.VarParam() != nil {
		n += r.Intn(5)
	}
	var al argList
	unkLog = unkLog[:0]
	clean := r.Chance(9, 20)
	if clean {
		al.profile = "all-known"
	} else {
		al.profile = "mixed"
	}
	for pos := 0; pos < n; pos++ {
		p := paramFor(d, pos)
		v, cls := genArg(r, d, p, pos, n, al.vals, clean)
		al.vals = append(al.vals, v)
		al.classes = append(al.classes, cls)
	}
	al.unknownKinds = append([]string(nil), unkLog...)
	// marks
	if r.Chance(3, 20) && n > 0 {
		k := r.Intn(n)
		if r.Bool() {
			al.vals[k] = gen.MarkSome(r, al.vals[k], 100, 0)
			al.classes[k] += "+marked-top"
		} else {
			al.vals[k] = gen.MarkSome(r, al.vals[k], 20, 40)
			if al.vals[k].ContainsMarked() {
				al.classes[k] += "+marked-deep"
			}
		}
	}
	return al
}

func genArg(r *rnd, d *fnDef, p function.Parameter, pos, n int, prev []cty.Value, clean bool) (cty.Value, string) {
	if !clean {
		switch k := r.Intn(100); {
		case k < 4:
			return cty.DynamicVal, "dynamicval"
		case k < 7:
			return cty.NullVal(cty.DynamicPseudoType), "null-of-dynamic-type"
		case k < 12:
			return cty.NullVal(instantiate(r, p.Type, d.bias)), "null"
		case k < 28:
			ty := instantiate(r, p.Type, d.bias)
			v := unknownOf(r, ty)
			if v.Type() != cty.DynamicPseudoType && !v.RawEquals(cty.UnknownVal(v.Type())) {
				return v, "unknown-refined"
			}
			return v, "unknown"
		}
	}
	o := valOpts{}
	if !clean && r.Chance(1, 2) {
		o.nullPct, o.unkPct = 12, 12
	}
	var v cty.Value
	cls := "known"
	if d.hint != nil && r.Chance(4, 5) {
		if hv := d.hint(r, pos, n, prev); hv != nil {
			v = *hv
			cls = "known-targeted"
		}
	}
	if v == cty.NilVal {
		ty := instantiate(r, p.Type, d.bias)
		v = genOfType(r, ty, o)
	}
	if d.sizePos[pos] {
		v = capSize(v)
	}
	if d.fmtPos == pos {
		v = capFormat(v)
	}
	if clean && !v.IsWhollyKnown() {
		// hints may return unknowns; in the all-known profile that is still fine, the
		// profile is only a bias. Classify honestly.
		cls = "partly-unknown"
	} else if !v.IsWhollyKnown() {
		cls += "+nested-unknown"
	}
	return v, cls
}

// capSize clamps a finite size-like number to [-sizeCap, sizeCap].
func capSize(v cty.Value) cty.Value {
	if v.IsMarked() || !v.IsKnown() || v.IsNull() || v.Type() != cty.Number {
		return v
	}
	f := v.AsBigFloat()
	if f.IsInf() {
		return v
	}
	ff, _ := f.Float64()
	if ff > sizeCap {
		return cty.NumberIntVal(sizeCap)
	}
	if ff < -sizeCap {
		return cty.NumberIntVal(-sizeCap)
	}
	return v
}

// capFormat truncates digit runs outside [..] to 3 digits so that widths and
// precisions stay below 1000.
func capFormat(v cty.Value) cty.Value {
	if v.IsMarked() || !v.IsKnown() || v.IsNull() || v.Type() != cty.String {
		return v
	}
	s := v.AsString()
	var sb strings.Builder
	run, inBr := 0, false
	for _, c := range s {
		switch {
		case c == '[':
			inBr, run = true, 0
		case c == ']':
			inBr, run = false, 0
		case c >= '0' && c <= '9':
			run++
			if run > 3 && !inBr {
				continue
			}
		default:
			run = 0
		}
		sb.WriteRune(c)
	}
	return cty.StringVal(sb.String())
}

// ---------------------------------------------------------------------------
// targeted arguments

func pv(v cty.Value) *cty.Value { return &v }

func seqOf(r *rnd, kinds ...string) cty.Value {
	ty := kindType(r, kinds[r.Intn(len(kinds))], 2)
	return genOfType(r, ty, valOpts{})
}

func lenOf(v cty.Value) int {
	u, _ := v.Unmark()
	if !u.IsKnown() || u.IsNull() {
		return 2
	}
	ty := u.Type()
	if ty.IsTupleType() || ty.IsListType() || ty.IsSetType() || ty.IsMapType() || ty.IsObjectType() {
		return u.LengthInt()
	}
	return 2
}

func hintBytesSlice(r *rnd, pos, n int, prev []cty.Value) *cty.Value {
	if pos == 0 {
		return nil
	}
	if r.Chance(1, 4) {
		return pv([]cty.Value{cty.NumberIntVal(math.MaxInt64), cty.NumberIntVal(math.MaxInt64 - 1), cty.NumberIntVal(math.MinInt64), cty.NumberIntVal(1 << 62), cty.NumberFloatVal(0.5)}[r.Intn(5)])
	}
	return pv(smallInt(r, -1, 9))
}

func hintIndex(r *rnd, pos, n int, prev []cty.Value) *cty.Value {
	if pos == 0 {
		return pv(seqOf(r, "list", "map", "tuple", "list", "map", "tuple", "object", "set"))
	}
	u, _ := prev[0].Unmark()
	ty := u.Type()
	switch {
	case ty.IsMapType() || ty.IsObjectType():
		if r.Chance(1, 5) {
			return nil
		}
		return pv(cty.StringVal(gen.SimpleKey(r)))
	}
	return pv(smallInt(r, -1, lenOf(prev[0])+1))
}

func hintElement(r *rnd, pos, n int, prev []cty.Value) *cty.Value {
	if pos == 0 {
		return pv(seqOf(r, "list", "tuple", "tuple", "set"))
	}
	return pv(smallInt(r, -4, lenOf(prev[0])+2))
}

func hintSmallSecond(r *rnd, pos, n int, prev []cty.Value) *cty.Value {
	if pos == 1 {
		return pv(smallInt(r, -1, 4))
	}
	return nil
}

func hintSlice(r *rnd, pos, n int, prev []cty.Value) *cty.Value {
	if pos == 0 {
		return pv(seqOf(r, "list", "tuple", "tuple", "set"))
	}
	if pos == 2 && r.Chance(2, 3) {
		// mostly a valid end index (start <= end <= length)
		start := 0
		if p1, _ := prev[1].Unmark(); p1.IsKnown() && !p1.IsNull() && p1.Type() == cty.Number {
			if f, acc := p1.AsBigFloat().Int64(); acc == 0 && f >= 0 && f <= 4 {
				start = int(f)
			}
		}
		if l := lenOf(prev[0]); l >= start {
			return pv(cty.NumberIntVal(int64(start + r.Intn(l-start+1))))
		}
	}
	return pv(smallInt(r, -1, lenOf(prev[0])+1))
}

func hintSubstr(r *rnd, pos, n int, prev []cty.Value) *cty.Value {
	if pos == 0 {
		return nil
	}
	return pv(smallInt(r, -5, 8))
}

func hintLookup(r *rnd, pos, n int, prev []cty.Value) *cty.Value {
	switch pos {
	case 0:
		return pv(seqOf(r, "map", "object", "object"))
	case 1:
		return pv(cty.StringVal(gen.SimpleKey(r)))
	}
	u, _ := prev[0].Unmark()
	ty := u.Type()
	if ty.IsMapType() && r.Chance(2, 3) {
		return pv(valueOrAbsent(r, variantType(r, ty.ElementType(), 1)))
	}
	return nil
}

func hintMerge(r *rnd, pos, n int, prev []cty.Value) *cty.Value {
	if pos > 0 && r.Chance(1, 3) {
		// same type as an earlier argument (the "all types match" path), value or null
		u, _ := prev[r.Intn(len(prev))].Unmark()
		ty := u.Type()
		if ty != cty.DynamicPseudoType {
			if r.Bool() {
				ty = variantType(r, ty, 0)
			}
			switch r.Intn(5) {
			case 0:
				return pv(cty.NullVal(ty))
			case 1:
				return pv(cty.UnknownVal(ty))
			}
			return pv(genOfType(r, ty, valOpts{}))
		}
	}
	v := seqOf(r, "map", "object", "object")
	switch r.Intn(8) {
	case 0:
		return pv(cty.NullVal(v.Type()))
	case 1:
		return pv(cty.UnknownVal(v.Type()))
	}
	return pv(v)
}

func hintZipmap(r *rnd, pos, n int, prev []cty.Value) *cty.Value {
	if pos == 0 {
		k := r.Intn(4)
		if k == 0 {
			return pv(cty.ListValEmpty(cty.String))
		}
		es := make([]cty.Value, k)
		for i := range es {
			switch r.Intn(10) {
			case 0:
				es[i] = cty.NullVal(cty.String)
			case 1:
				es[i] = cty.UnknownVal(cty.String)
			default:
				es[i] = cty.StringVal(gen.SimpleKey(r))
			}
		}
		return pv(cty.ListVal(es))
	}
	want := lenOf(prev[0])
	if r.Chance(1, 5) {
		want = r.Intn(4)
	}
	if r.Bool() {
		ety := concretize(r, genType(r, 2))
		if want == 0 {
			return pv(cty.ListValEmpty(ety))
		}
		es := make([]cty.Value, want)
		for i := range es {
			es[i] = genVal(r, ety, valOpts{}, false)
		}
		return pv(cty.ListVal(es))
	}
	es := make([]cty.Value, want)
	for i := range es {
		es[i] = genOfType(r, genType(r, 2), valOpts{})
	}
	return pv(cty.TupleVal(es))
}

func hintContains(r *rnd, pos, n int, prev []cty.Value) *cty.Value {
	if pos == 0 {
		return pv(seqOf(r, "list", "set", "tuple"))
	}
	u, _ := prev[0].Unmark()
	if !u.IsKnown() || u.IsNull() || !(u.Type().IsListType() || u.Type().IsSetType() || u.Type().IsTupleType()) {
		return nil
	}
	if u.LengthInt() > 0 && r.Bool() {
		es := u.AsValueSlice()
		return pv(es[r.Intn(len(es))])
	}
	if u.Type().IsCollectionType() && r.Bool() {
		return pv(valueOrAbsent(r, variantType(r, u.Type().ElementType(), 1)))
	}
	return nil
}

// --- type families: variants of a base type that unification may or may not
// reconcile (list/set/tuple, map/object, primitive swaps, dynamic leaves)

func variantType(r *rnd, t cty.Type, depth int) cty.Type {
	if depth > 3 {
		return t
	}
	switch k := r.Intn(20); {
	case k < 6:
		return t
	case k < 7:
		return cty.DynamicPseudoType
	}
	prims := []cty.Type{cty.String, cty.Number, cty.Bool}
	switch {
	case t == cty.String || t == cty.Number || t == cty.Bool:
		return prims[r.Intn(3)]
	case t.IsListType() || t.IsSetType():
		e := variantType(r, t.ElementType(), depth+1)
		switch r.Intn(4) {
		case 0:
			return cty.List(e)
		case 1:
			return cty.Set(e)
		case 2:
			n := r.Intn(4)
			es := make([]cty.Type, n)
			for i := range es {
				es[i] = variantType(r, t.ElementType(), depth+1)
			}
			return cty.Tuple(es)
		}
		if t.IsListType() {
			return cty.List(e)
		}
		return cty.Set(e)
	case t.IsTupleType():
		ets := t.TupleElementTypes()
		if len(ets) > 0 && r.Chance(1, 3) {
			e := variantType(r, ets[0], depth+1)
			if r.Bool() {
				return cty.List(e)
			}
			return cty.Set(e)
		}
		out := make([]cty.Type, 0, len(ets)+1)
		for _, e := range ets {
			if r.Chance(1, 10) {
				continue
			}
			out = append(out, variantType(r, e, depth+1))
		}
		if r.Chance(1, 10) {
			out = append(out, primType(r))
		}
		return cty.Tuple(out)
	case t.IsMapType():
		e := variantType(r, t.ElementType(), depth+1)
		if r.Chance(1, 3) {
			at := map[string]cty.Type{}
			for i, n := 0, r.Intn(3); i < n; i++ {
				at[attrPool[r.Intn(len(attrPool))]] = variantType(r, t.ElementType(), depth+1)
			}
			return cty.Object(at)
		}
		return cty.Map(e)
	case t.IsObjectType():
		tn := model.TNodeOf(t)
		names := tn.AttrNames()
		if len(names) > 0 && r.Chance(1, 3) {
			return cty.Map(variantType(r, t.AttributeType(names[0]), depth+1))
		}
		at := map[string]cty.Type{}
		for _, k := range names {
			if r.Chance(1, 10) {
				continue
			}
			at[k] = variantType(r, t.AttributeType(k), depth+1)
		}
		if r.Chance(1, 10) {
			at[attrPool[r.Intn(len(attrPool))]] = primType(r)
		}
		return cty.Object(at)
	}
	return t
}

// valueOrAbsent draws a value of type ty: mostly known, sometimes null or unknown.
func valueOrAbsent(r *rnd, ty cty.Type) cty.Value {
	switch r.Intn(12) {
	case 0:
		return cty.NullVal(ty)
	case 1:
		return unknownOf(r, ty)
	}
	return genOfType(r, ty, valOpts{})
}

// hintFamily makes every argument after the first a value of a variant of the
// type of an earlier argument. wrap, if not "", forces the collection kind of
// the variant (the parameter's constraint).
func hintFamily(first []string, wrap string) func(r *rnd, pos, n int, prev []cty.Value) *cty.Value {
	return func(r *rnd, pos, n int, prev []cty.Value) *cty.Value {
		if pos == 0 || len(prev) == 0 {
			if len(first) == 0 {
				return nil
			}
			return pv(seqOf(r, first...))
		}
		u, _ := prev[r.Intn(len(prev))].Unmark()
		bt := u.Type()
		if bt == cty.DynamicPseudoType {
			return nil
		}
		switch wrap {
		case "set":
			if !bt.IsSetType() {
				return nil
			}
			if r.Chance(1, 8) {
				if r.Bool() {
					return pv(cty.SetValEmpty(cty.DynamicPseudoType))
				}
				return pv(cty.UnknownVal(cty.Set(cty.DynamicPseudoType)))
			}
			return pv(valueOrAbsent(r, cty.Set(variantType(r, bt.ElementType(), 1))))
		case "elem":
			if !bt.IsCollectionType() {
				return nil
			}
			return pv(valueOrAbsent(r, variantType(r, bt.ElementType(), 1)))
		}
		return pv(valueOrAbsent(r, variantType(r, bt, 0)))
	}
}

// hintTo feeds a conversion function values of variants of its target type.
func hintTo(target cty.Type) func(r *rnd, pos, n int, prev []cty.Value) *cty.Value {
	return func(r *rnd, pos, n int, prev []cty.Value) *cty.Value {
		if target == cty.DynamicPseudoType || r.Chance(1, 4) {
			return nil
		}
		t := target
		if t.HasDynamicTypes() {
			t = concretize(r, t)
		}
		return pv(valueOrAbsent(r, variantType(r, t, 0)))
	}
}

// --- printf-style format strings, from the verb grammar of format_fsm.rl:
//     '%' flags* width? ('.' digits*)? ('[' num ']')? letter

var fmtIdxPool = []string{"0", "1", "2", "3", "4", "5", "9", "18446744073709551615", "18446744073709551616", "9223372036854775807", "9223372036854775808", "4294967296", "99999999999999999999", "01"}

func genFormatString(r *rnd, nargs int) string {
	var sb strings.Builder
	nv := nargs
	switch r.Intn(6) {
	case 0:
		nv = nargs + 1
	case 1:
		if nv > 0 {
			nv--
		}
	}
	lit := func() {
		switch r.Intn(5) {
		case 0:
			sb.WriteString(gen.String(r, 3))
		case 1:
			sb.WriteString("%%")
		case 2:
			sb.WriteString("x=")
		}
	}
	lit()
	for i := 0; i < nv; i++ {
		sb.WriteByte('%')
		for k := r.Intn(3); k > 0; k-- {
			sb.WriteByte("0#-+ "[r.Intn(5)])
		}
		if r.Chance(2, 5) {
			sb.WriteString([]string{"1", "2", "5", "9", "10", "12", "40", "100", "999"}[r.Intn(9)])
		}
		if r.Chance(3, 10) {
			sb.WriteString([]string{".", ".0", ".1", ".2", ".3", ".10", ".50", ".999", ".00"}[r.Intn(9)])
		}
		if r.Chance(1, 4) {
			sb.WriteByte('[')
			if r.Chance(2, 3) {
				sb.WriteString([]string{"1", "2", "3", "4"}[r.Intn(4)])
			} else {
				sb.WriteString(fmtIdxPool[r.Intn(len(fmtIdxPool))])
			}
			if !r.Chance(1, 30) {
				sb.WriteByte(']')
			}
		}
		switch k := r.Intn(30); {
		case k < 27:
			sb.WriteByte("vvvsssqdddboxXeEfgGt"[r.Intn(20)])
		case k < 28:
			sb.WriteByte("acijklmnpruwyzABCDFHZ"[r.Intn(21)])
		case k < 29:
			sb.WriteString("é")
		default:
			// truncated verb
		}
		lit()
	}
	return sb.String()
}

func hintFormat(r *rnd, pos, n int, prev []cty.Value) *cty.Value {
	if pos == 0 {
		return pv(cty.StringVal(genFormatString(r, n-1)))
	}
	switch r.Intn(8) {
	case 0, 1:
		return pv(hostileNumber(r))
	case 2, 3:
		return pv(cty.StringVal(hostileString(r)))
	case 4:
		return pv(cty.BoolVal(r.Bool()))
	case 5:
		// sequences of primitives (formatlist zips them)
		ety := []cty.Type{cty.String, cty.Number, cty.Bool}[r.Intn(3)]
		return pv(genOfType(r, []cty.Type{cty.List(ety), cty.Set(ety), cty.Tuple([]cty.Type{ety, cty.String})}[r.Intn(3)], valOpts{maxLen: 2}))
	}
	return nil
}

// --- regular expressions

var rePool = []string{
	"", ".", "a", "a+", "(a)", "(a)(b)?", "(?P<x>a)", "(?P<x>a)?b", "(?P<x>a)(b)", "(a)|(b)", "(?P<x>a)|(?P<y>b)", "((a)|b)*", "[", "(", ")", "a{2000}", "a{1000}",
	"\\pL+", "(?i)A", "^$", "\\d+", "x*", "(?:a)", "(?P<a>x)(?P<a>y)", "(?P<>x)", "\\", "[a-", "(?P<x", "a**", "\\b", "(?s).", "(é)", "(?P<k>.)(?P<v>.)?", "(.)(.)(.)",
	"[[:alpha:]]", "\\C", "(?=a)", "a|", "|", "()", "(())", "(?U)a+",
}

func genRegex(r *rnd) string {
	if r.Chance(2, 3) {
		return rePool[r.Intn(len(rePool))]
	}
	// compose two or three pool entries
	s := rePool[r.Intn(len(rePool))] + rePool[r.Intn(len(rePool))]
	if r.Bool() {
		s += []string{"*", "+", "?", "{2}", "|", ")"}[r.Intn(6)]
	}
	return s
}

func hintRegex(patPos int) func(r *rnd, pos, n int, prev []cty.Value) *cty.Value {
	return func(r *rnd, pos, n int, prev []cty.Value) *cty.Value {
		if pos == patPos {
			return pv(cty.StringVal(genRegex(r)))
		}
		if r.Bool() {
			return pv(cty.StringVal([]string{"a", "ab", "aab", "b", "", "xay", "$1", "${x}", "$", "${", "$x", "é", "abcabc"}[r.Intn(13)]))
		}
		return nil
	}
}

// --- JSON, CSV

var jsonPool = []string{
	"null", "true", "false", "1", "-0", "1.5", "1e400", "1e-400", "1E+2", "\"a\"", "\"\\ud800\"", "\"\\u00e9\"", "[]", "{}", "[1,\"a\"]", "[1,2]", "{\"a\":1}", "{\"a\":null}", "[null]",
	"{\"a\":1,\"a\":\"x\"}", "{\"a\":{\"b\":[1,{\"c\":null}]}}", " {\"a\":1} ", "{\"a\":", "", " ", "nul", "0x1", "NaN", "Infinity", "[1,]", "{\"a\" 1}", "[[[[[[[[[[[[[[[[[[[[[[[[[[[[[[]]]]]]]]]]]]]]]]]]]]]]]]]]]]]]",
	"[{\"a\":1},{\"a\":\"x\"}]", "[{\"a\":1},{}]", "[[],[1]]", "{\"\":1}", "{\"e\\u0301\":1,\"é\":2}", "123456789012345678901234567890", "0.1234567890123456789012345678901234567890", "\"a\" \"b\"", "1 2", "tru", "t", "-", "[1", "\"",
}

func mutate(r *rnd, s string) string {
	if len(s) == 0 || !r.Chance(1, 4) {
		return s
	}
	b := []byte(s)
	k := r.Intn(len(b))
	switch r.Intn(3) {
	case 0:
		b = append(b[:k], b[k+1:]...)
	case 1:
		b[k] = "{}[]\",:0a\\ "[r.Intn(11)]
	default:
		b = append(b[:k], append([]byte{"{}[]\",:0a\\ "[r.Intn(11)]}, b[k:]...)...)
	}
	return strings.ToValidUTF8(string(b), "?")
}

func hintJSON(r *rnd, pos, n int, prev []cty.Value) *cty.Value {
	return pv(cty.StringVal(mutate(r, jsonPool[r.Intn(len(jsonPool))])))
}

var csvPool = []string{"a,b\n1,2\n", "", "a,a\n", "a\n1,2\n", "\"a", "a,b\n1\n", "\n", "a,b", "é,e\u0301\n1,2\n", "a;b\n", "a,\"b\"\"c\"\n1,2", ",\n1,2\n", "a,b\r\n1,2\r\n3,4", "a,b\n\n1,2\n", "a,b\n1,2,3\n", " a , b \n", "a,b\n\"1\n2\",3\n", "\"a\"b\n", "a\n\"\n"}

func hintCSV(r *rnd, pos, n int, prev []cty.Value) *cty.Value {
	return pv(cty.StringVal(mutate(r, csvPool[r.Intn(len(csvPool))])))
}

// --- dates

var dateFmtPool = []string{"YYYY-MM-DD", "YY", "YYY", "YYYYY", "M", "MM", "MMM", "MMMM", "MMMMM", "D", "DD", "DDD", "EEE", "EEEE", "E", "EEEEE", "hh:mm:ss", "h", "hhh", "HH AA", "H aa", "A", "aaa", "m", "mmm", "s", "sss",
	"Z", "ZZ", "ZZZ", "ZZZZ", "ZZZZZ", "ZZZZZZ", "'literal'", "'unterminated", "''", "'it''s'", "'", "x", "YYYY'", "é", "", "'a''", "'''", "''''", "q", "YYYY-MM-DD'T'hh:mm:ssZ", "DD MMM YYYY hh:mm ZZZ", "EEE, DD MMM YYYY", "' '", "Y'é'M"}

var timestampPool = []string{"2006-01-02T15:04:05Z", "2006-01-02T15:04:05+07:00", "2006-01-02T15:04:05-23:59", "2006-01-02T15:04:05+24:00", "2006-01-02T15:04:05.123456789Z", "2006-12-31T23:59:60Z", "0000-01-01T00:00:00Z",
	"9999-12-31T23:59:59Z", "9999-12-31T23:59:59-23:59", "2006-13-02T15:04:05Z", "2006-01-32T15:04:05Z", "2006-02-30T15:04:05Z", "2006-01-02", "2006-01-02t15:04:05z", "", "garbage", "2006-01-02T15:04:05", "2006-01-02T15:04:05+0700",
	"10000-01-01T00:00:00Z", "2006-01-02T24:00:00Z", "2006-01-02T15:60:05Z", "2006-01-02T15:04:05.Z", "2006-01-02T1:04:05Z", "2006-01-02T15:4:05Z", "2006-01-02 15:04:05Z", "2006-01-02T15:04:05z", "2006-01-02T15:04:05+7:00", "-006-01-02T15:04:05Z",
	"2006-01-02T15:04:05,5Z", "2006-01-02T15:04:05Zjunk", "２００６-01-02T15:04:05Z", "2006-01-02T15:04:05+00:60", "1970-01-01T00:00:00Z", "2262-04-11T23:47:16Z", "1677-09-21T00:12:43Z"}

func hintFormatDate(r *rnd, pos, n int, prev []cty.Value) *cty.Value {
	if pos == 0 {
		s := dateFmtPool[r.Intn(len(dateFmtPool))]
		if r.Chance(1, 3) {
			s += dateFmtPool[r.Intn(len(dateFmtPool))]
		}
		return pv(cty.StringVal(s))
	}
	return pv(cty.StringVal(pickTimestamp(r)))
}

var durationPool = []string{"1h", "-1h", "1.5h", "0", "1000000h", "2562047h47m16.854775807s", "-2562047h47m16.854775808s", "9223372036854775807ns", "-9223372036854775808ns", "9223372036854775808ns", "1d", "", "h", "1h1h", "1µs", "1us", ".5s", "1e3s", "+1m", "1 h", "1H", "876000h"}

func pickTimestamp(r *rnd) string {
	if r.Bool() {
		return timestampPool[r.Intn(9)] // the well-formed ones
	}
	return mutate(r, timestampPool[r.Intn(len(timestampPool))])
}

func hintTimeAdd(r *rnd, pos, n int, prev []cty.Value) *cty.Value {
	if pos == 0 {
		return pv(cty.StringVal(pickTimestamp(r)))
	}
	if r.Bool() {
		return pv(cty.StringVal(durationPool[r.Intn(9)]))
	}
	return pv(cty.StringVal(mutate(r, durationPool[r.Intn(len(durationPool))])))
}

// --- parseint

var digitPool = []string{"10", "-10", "+10", "ff", "FF", "zz", "ZZ", "_1", "1_000", "0x10", "0b1", "", " 1", "1 ", "9999999999999999999999999999999999999999", "é", "-", "+", "1.5", "1e3", "0", "-0", "Zz09"}

func hintParseInt(r *rnd, pos, n int, prev []cty.Value) *cty.Value {
	if pos == 0 {
		if r.Chance(1, 6) {
			return nil // any type: the parameter is dynamically typed
		}
		return pv(cty.StringVal(digitPool[r.Intn(len(digitPool))]))
	}
	if r.Chance(1, 3) {
		return pv(hostileNumber(r))
	}
	return pv(cty.NumberIntVal([]int64{2, 8, 10, 16, 36, 62, 1, 0, 63, -2, 37}[r.Intn(11)]))
}
