package c11

// Chained calls: histories in which the result of one call, or an unknown
// placeholder of the type PREDICTED for it, is an argument of a later call of
// another function.
//
// The sampled cases and the corpus call every function once on freshly built
// arguments. A type checker does something else: it predicts the type of an
// inner call and feeds that prediction (as an unknown placeholder) into the
// prediction of the enclosing call, over and over, and it keeps the types it
// was given earlier. The types a function hands out are therefore inputs of
// later calls, and whatever a later call does to them (they may share storage
// with the argument types they were derived from) is visible in
//
//   - the types in play: the types of the original arguments, of earlier
//     results and the earlier predictions must read the same after every
//     later call (a prediction that is rewritten afterwards was never a
//     prediction);
//   - the values in play: they must stay well-formed and unchanged;
//   - the clauses of the property re-checked for EARLIER steps: the result an
//     earlier call gave must still conform to the types predicted for it
//     then, as those predictions read now, and a prediction asked again must
//     be the type it was the first time.
//
// A chain keeps two values per expression: the concrete (known) value and the
// placeholder that stands for it in predictions (an unknown of the predicted
// type; the unknown result of the call on placeholders, which carries the
// type the function predicted; or the value itself, as a literal constant
// would be). Every step is judged twice by the ordinary oracle of checkCase,
// on the concrete list and on the placeholder list.

import (
	"fmt"
	"strings"

	"github.com/zclconf/go-cty/cty"

	"verif/harness/core"
	"verif/harness/gen"
	"verif/harness/model"
)

const (
	facetChainType    = "a type handed out earlier (argument type, result type or prediction) reads differently after a later call"
	facetChainValue   = "a value in play (argument or earlier result) changed or is no longer well-formed after a later call"
	facetChainReask   = "the same type prediction asked again after later calls gives another type"
	facetChainConfPh  = "result type does not conform to the type predicted for placeholders of the same argument types"
	classChainRecheck = "earlier step of a chain re-checked after later calls"
	classChain        = "chained calls"

	quickChains    = 1500 // per batch
	thoroughChains = 12000
)

type slotKind int

const (
	kSeq     slotKind = iota // list or tuple
	kSeqs                    // 1..3 of them (variadic)
	kColl                    // list, set or tuple
	kColls                   // 2..3 of them
	kMapObj                  // map or object
	kMapObjs                 // 1..3 of them
	kIdx                     // a fresh small index (within the first argument's length as a rule)
	kSize                    // a fresh size 1..3
	kKey                     // a fresh key (one of the first argument's keys as a rule)
	kAny
)

type chainFn struct {
	name   string
	slots  []slotKind
	weight int
}

// chainFns are the functions whose result type is derived from the argument
// types (sequence and collection functions). Weights favour the ones that
// build structural types out of the arguments' structural types.
var chainFns = []chainFn{
	{"slice", []slotKind{kSeq, kIdx, kIdx}, 3},
	{"concat", []slotKind{kSeqs}, 3},
	{"chunklist", []slotKind{kSeq, kSize}, 1},
	{"flatten", []slotKind{kColl}, 2},
	{"reverselist", []slotKind{kColl}, 2},
	{"setproduct", []slotKind{kColls}, 2},
	{"coalescelist", []slotKind{kSeqs}, 2},
	{"merge", []slotKind{kMapObjs}, 2},
	{"values", []slotKind{kMapObj}, 1},
	{"keys", []slotKind{kMapObj}, 1},
	{"zipmap", []slotKind{kSeq, kSeq}, 2},
	{"element", []slotKind{kSeq, kIdx}, 1},
	{"index", []slotKind{kSeq, kIdx}, 1},
	{"lookup", []slotKind{kMapObj, kKey, kAny}, 1},
	{"length", []slotKind{kColl}, 1},
	{"distinct", []slotKind{kSeq}, 1},
	{"compact", []slotKind{kSeq}, 1},
	{"coalesce", []slotKind{kAny, kAny}, 1},
	{"setunion", []slotKind{kColls}, 1},
	{"to_list_dynamic", []slotKind{kColl}, 1},
}

func slotFits(k slotKind, ty cty.Type) bool {
	switch k {
	case kSeq, kSeqs:
		return ty.IsListType() || ty.IsTupleType()
	case kColl, kColls:
		return ty.IsListType() || ty.IsTupleType() || ty.IsSetType()
	case kMapObj, kMapObjs:
		return ty.IsMapType() || ty.IsObjectType()
	case kAny:
		return true
	}
	return false
}

// chainEntry is one expression of a chain.
type chainEntry struct {
	conc   cty.Value // its value
	ph     cty.Value // what stands for it in predictions
	origin string
}

type watchedType struct {
	what string
	ty   cty.Type
	fp   string
	text string
}

type watchedValue struct {
	what string
	v    cty.Value
	fp   string
	text string
}

type chainPred struct {
	label string
	ty    cty.Type
}

type chainStep struct {
	d     *fnDef
	argsP []cty.Value
	text  string
	got   cty.Value
	preds []chainPred
	tvP   cty.Type // prediction for the placeholder list (NilType when it failed)
	tvPfp string
}

type chain struct {
	pool   []chainEntry
	types  []watchedType
	values []watchedValue
	steps  []chainStep
	log    []string
}

func typeFP(t cty.Type) (fp string) {
	o := core.Guard(func() { fp = string(cty.VerifTypeFingerprint(t)) })
	if o.Panicked {
		return "<fingerprint panicked: " + o.PanicMsg + ">"
	}
	return fp
}

func valueFP(v cty.Value) (fp string) {
	o := core.Guard(func() { fp = string(cty.VerifFingerprint(v)) })
	if o.Panicked {
		return "<fingerprint panicked: " + o.PanicMsg + ">"
	}
	return fp
}

func (ch *chain) watchType(what string, t cty.Type) {
	if t == cty.NilType {
		return
	}
	ch.types = append(ch.types, watchedType{what, t, typeFP(t), fmt.Sprintf("%#v", t)})
}

func (ch *chain) watchValue(what string, v cty.Value) {
	if v == cty.NilVal {
		return
	}
	ch.values = append(ch.values, watchedValue{what, v, valueFP(v), show(v)})
	ch.watchType("type of "+what, v.Type())
}

func (ch *chain) add(e chainEntry) {
	k := len(ch.pool)
	ch.pool = append(ch.pool, e)
	ch.watchValue(fmt.Sprintf("e%d (%s)", k, e.origin), e.conc)
	ch.watchValue(fmt.Sprintf("placeholder of e%d (%s)", k, e.origin), e.ph)
}

func (ch *chain) text() string { return strings.Join(ch.log, " ; ") }

func chainStartTuple(r *rnd) cty.Type {
	n := 2 + r.Intn(3)
	ts := make([]cty.Type, n)
	prims := []cty.Type{cty.String, cty.Number, cty.Bool}
	for i := range ts {
		switch {
		case r.Chance(1, 8):
			ts[i] = gen.Type(r, 2, gen.TypeOpts{}).Cty()
		default:
			ts[i] = prims[r.Intn(3)]
		}
	}
	return cty.Tuple(ts)
}

func chainStart(r *rnd, ch *chain) {
	vo := gen.ValueOpts{SmallNums: true, MaxLen: 3, NoTopNull: true, NoBig: true, NullPct: 3}
	prims := []cty.Type{cty.String, cty.Number, cty.Bool}
	var tys []cty.Type
	tys = append(tys, chainStartTuple(r))
	if r.Bool() {
		tys = append(tys, chainStartTuple(r))
	}
	tys = append(tys, cty.List(prims[r.Intn(3)]))
	if r.Bool() {
		tys = append(tys, cty.Map(prims[r.Intn(3)]))
	} else {
		tys = append(tys, gen.ObjectType(r, 2, gen.TypeOpts{}).Cty())
	}
	switch r.Intn(4) {
	case 0:
		tys = append(tys, cty.Set(prims[r.Intn(3)]))
	case 1:
		tys = append(tys, cty.List(cty.String))
	case 2:
		tys = append(tys, cty.List(chainStartTuple(r)))
	}
	for _, i := range r.Perm(len(tys)) {
		ty := tys[i]
		if ty.HasDynamicTypes() {
			continue
		}
		conc := gen.Value(r, ty, vo)
		ph := conc
		if r.Chance(3, 4) {
			// the same cty.Type as the value has: a placeholder for "an expression of this type"
			ph = cty.UnknownVal(conc.Type())
		}
		ch.add(chainEntry{conc, ph, "start"})
	}
}

// pick chooses a pool entry fitting k; the latest fitting entry half of the time.
func (ch *chain) pick(r *rnd, k slotKind) int {
	var fit []int
	for i, e := range ch.pool {
		if slotFits(k, e.conc.Type()) {
			fit = append(fit, i)
		}
	}
	if len(fit) == 0 {
		return -1
	}
	if r.Bool() {
		return fit[len(fit)-1]
	}
	return fit[r.Intn(len(fit))]
}

func knownLen(v cty.Value) int {
	n := 0
	core.Guard(func() {
		if v.IsKnown() && !v.IsNull() && (v.Type().IsCollectionType() || v.Type().IsTupleType()) {
			n = v.LengthInt()
		}
	})
	return n
}

func firstKeys(v cty.Value) []string {
	var ks []string
	core.Guard(func() {
		if v.IsKnown() && !v.IsNull() && (v.Type().IsMapType() || v.Type().IsObjectType()) {
			for it := v.ElementIterator(); it.Next(); {
				k, _ := it.Element()
				ks = append(ks, k.AsString())
			}
		}
	})
	return ks
}

// buildArgs fills the slots of f; -1 in from means a fresh literal. ok is false
// when the pool has nothing for a slot.
func (ch *chain) buildArgs(r *rnd, f chainFn, carry int) (argsC, argsP []cty.Value, from []int, ok bool) {
	carryUsed := carry < 0
	put := func(i int) {
		e := ch.pool[i]
		argsC = append(argsC, e.conc)
		if r.Chance(1, 5) {
			argsP = append(argsP, e.conc)
		} else {
			argsP = append(argsP, e.ph)
		}
		from = append(from, i)
	}
	lit := func(v cty.Value) {
		argsC = append(argsC, v)
		argsP = append(argsP, v)
		from = append(from, -1)
	}
	choose := func(k slotKind) bool {
		if !carryUsed && slotFits(k, ch.pool[carry].conc.Type()) {
			carryUsed = true
			put(carry)
			return true
		}
		i := ch.pick(r, k)
		if i < 0 {
			return false
		}
		put(i)
		return true
	}
	var idxs []int
	for _, k := range f.slots {
		switch k {
		case kSeq, kColl, kMapObj, kAny:
			if !choose(k) {
				return nil, nil, nil, false
			}
		case kSeqs, kMapObjs, kColls:
			n := 1 + r.Intn(3)
			if k == kColls {
				n = 2 + r.Intn(2)
			}
			for j := 0; j < n; j++ {
				if !choose(k) {
					return nil, nil, nil, false
				}
			}
		case kIdx:
			n := knownLen(argsC[0])
			v := r.Intn(4)
			if r.Chance(4, 5) {
				v = r.Intn(n + 1)
			}
			idxs = append(idxs, len(argsC))
			lit(cty.NumberIntVal(int64(v)))
		case kSize:
			lit(cty.NumberIntVal(int64(1 + r.Intn(3))))
		case kKey:
			ks := firstKeys(argsC[0])
			key := gen.SimpleKey(r)
			if len(ks) > 0 && r.Chance(4, 5) {
				key = ks[r.Intn(len(ks))]
			}
			lit(cty.StringVal(key))
		}
	}
	if len(idxs) == 2 {
		// a range: start <= end as a rule
		a, b := argsC[idxs[0]], argsC[idxs[1]]
		if a.AsBigFloat().Cmp(b.AsBigFloat()) > 0 && r.Chance(9, 10) {
			argsC[idxs[0]], argsC[idxs[1]] = b, a
			argsP[idxs[0]], argsP[idxs[1]] = b, a
		}
	}
	return argsC, argsP, from, true
}

func sameTypes(a, b []cty.Value) bool {
	for i := range a {
		if !a[i].Type().Equals(b[i].Type()) {
			return false
		}
	}
	return true
}

func rawSame(a, b []cty.Value) bool {
	for i := range a {
		if !a[i].RawEquals(b[i]) {
			return false
		}
	}
	return true
}

func runChains(c *core.Ctx, base int64) {
	n := int64(c.N(quickChains, thoroughChains))
	for i := int64(0); i < n; i++ {
		idx := base + i
		if !c.Want(idx) {
			continue
		}
		r := c.RNG(idx)
		o := core.Guard(func() { runChain(c, idx, r) })
		if o.Panicked {
			c.Count("chain:harness-panicked")
			c.Violate("harness", "harness: chain runner panicked", "chain", fmt.Sprintf("chain case %d", idx), o.PanicMsg+"\n"+o.Stack)
		}
	}
}

func runChain(c *core.Ctx, idx int64, r *rnd) {
	ch := &chain{}
	chainStart(r, ch)
	for k, e := range ch.pool {
		ch.log = append(ch.log, fmt.Sprintf("e%d = %s [placeholder %s]", k, show(e.conc), show(e.ph)))
	}
	c.Count("chains")
	totalW := 0
	for _, f := range chainFns {
		totalW += f.weight
	}
	nsteps := 3 + r.Intn(4)
	for s := 0; s < nsteps; s++ {
		carry := -1
		if r.Chance(3, 4) {
			carry = len(ch.pool) - 1
		}
		// a function the carried expression fits (any function when nothing is carried)
		var f chainFn
		found := false
		for try := 0; try < 8 && !found; try++ {
			w := r.Intn(totalW)
			for _, cf := range chainFns {
				if w < cf.weight {
					f = cf
					break
				}
				w -= cf.weight
			}
			if carry < 0 {
				found = true
				break
			}
			for _, k := range f.slots {
				if slotFits(k, ch.pool[carry].conc.Type()) {
					found = true
					break
				}
			}
		}
		if !found {
			c.Count("chain:no-function-for-the-carried-value")
			continue
		}
		d := byName(f.name)
		if d == nil {
			c.Count("chain:function-not-in-registry:" + f.name)
			continue
		}
		argsC, argsP, from, ok := ch.buildArgs(r, f, carry)
		if !ok {
			c.Count("chain:no-fitting-expression")
			continue
		}
		refs := make([]string, len(from))
		chained := false
		for j, fi := range from {
			if fi < 0 {
				refs[j] = show(argsC[j])
				continue
			}
			refs[j] = fmt.Sprintf("e%d", fi)
			if !argsP[j].RawEquals(argsC[j]) {
				refs[j] += "/placeholder"
			}
			if ch.pool[fi].origin != "start" {
				chained = true
			}
		}
		newIdx := len(ch.pool)
		stepText := fmt.Sprintf("e%d = %s(%s)", newIdx, f.name, strings.Join(refs, ", "))
		ch.log = append(ch.log, stepText)
		c.Count("chain-step:" + f.name)
		if chained {
			c.Count("chain-step:argument-from-an-earlier-step")
			if len(ch.steps) > 0 {
				c.Count("chain-link:" + ch.steps[len(ch.steps)-1].d.name + "->" + f.name)
			}
		}

		// the ordinary oracle, on the concrete list and on the placeholder list
		out := checkCase(c, idx, d, argsC)
		var outP caseOut
		hasP := !rawSame(argsC, argsP)
		if hasP {
			outP = checkCase(c, idx, d, argsP)
			c.Count("chain:placeholder-list-checked")
		}
		c.Begin(idx, func() string { return ch.text() })
		site := "stdlib." + d.name

		if out.callOK && hasP && outP.rtvOK {
			if sameTypes(argsC, argsP) {
				c.Count("oracle:chain:conforms-to-placeholder-prediction:checked")
				if outP.tv == cty.NilType || !model.Conforms(model.TNodeOf(out.got.Type()), model.TNodeOf(outP.tv)) {
					c.Violate(site, facetChainConfPh, classChain, ch.text(),
						fmt.Sprintf("%s: Call on the values returned a result of type %#v; ReturnTypeForValues on placeholders (%s) predicted %#v", stepText, out.got.Type(), fmtArgs(argsP), outP.tv))
					return
				}
			} else {
				c.Count("chain:placeholder-types-wider-than-the-values")
			}
		}

		// record the step and what it handed out
		st := chainStep{d: d, argsP: argsP, text: stepText, got: cty.NilVal}
		if out.callOK {
			st.got = out.got
			if out.rtvOK {
				st.preds = append(st.preds, chainPred{"ReturnTypeForValues(values)", out.tv})
			}
			if out.rtOK {
				st.preds = append(st.preds, chainPred{"ReturnType(types of the values)", out.tt})
			}
			if hasP && sameTypes(argsC, argsP) {
				if outP.rtvOK {
					st.preds = append(st.preds, chainPred{"ReturnTypeForValues(placeholders)", outP.tv})
				}
				if outP.rtOK {
					st.preds = append(st.preds, chainPred{"ReturnType(types of the placeholders)", outP.tt})
				}
			}
		}
		if hasP && outP.rtvOK {
			st.tvP, st.tvPfp = outP.tv, typeFP(outP.tv)
		}
		for _, p := range st.preds {
			ch.watchType(fmt.Sprintf("%s of step %q", p.label, stepText), p.ty)
		}
		if hasP && outP.rtvOK {
			ch.watchType(fmt.Sprintf("ReturnTypeForValues(placeholders) of step %q", stepText), outP.tv)
		}
		if hasP && outP.rtOK {
			ch.watchType(fmt.Sprintf("ReturnType(types of the placeholders) of step %q", stepText), outP.tt)
		}
		ch.steps = append(ch.steps, st)

		if out.callOK && knownLen(out.got) <= 12 && !out.got.Type().IsCapsuleType() {
			// what stands for the new expression in later predictions
			var cands []cty.Value
			if hasP && outP.callOK && model.Conforms(model.TNodeOf(out.got.Type()), model.TNodeOf(outP.got.Type())) {
				cands = append(cands, outP.got, outP.got) // an unknown (or partly known) result carries the type the function predicted
			}
			if hasP && outP.rtvOK && outP.tv != cty.NilType && model.Conforms(model.TNodeOf(out.got.Type()), model.TNodeOf(outP.tv)) {
				cands = append(cands, cty.UnknownVal(outP.tv))
			}
			if out.rtOK && out.tt != cty.NilType && model.Conforms(model.TNodeOf(out.got.Type()), model.TNodeOf(out.tt)) {
				cands = append(cands, cty.UnknownVal(out.tt))
			}
			if out.rtvOK && out.tv != cty.NilType && model.Conforms(model.TNodeOf(out.got.Type()), model.TNodeOf(out.tv)) {
				cands = append(cands, cty.UnknownVal(out.tv))
			}
			cands = append(cands, cty.UnknownVal(out.got.Type()))
			ph := cands[r.Intn(len(cands))]
			ch.add(chainEntry{out.got, ph, f.name})
			c.Count("chain:expressions-added")
		} else {
			if !out.callOK {
				c.Count("chain:step-without-a-result")
			}
			ch.log[len(ch.log)-1] = "(not kept) " + stepText
		}

		if !ch.recheck(c, r, site) {
			c.Count("chain:stopped-after-a-violation")
			return
		}
	}
	c.Count("chain:completed")
}

// recheck holds everything handed out so far against what it was when it was
// handed out. site is the function called last (the one after which a change
// is observed). It returns false when something was reported.
func (ch *chain) recheck(c *core.Ctx, r *rnd, site string) bool {
	okAll := true
	// (1) earlier steps: result still conforms to the predictions made for it
	for j := 0; j+1 < len(ch.steps); j++ {
		st := ch.steps[j]
		if st.got == cty.NilVal {
			continue
		}
		for _, p := range st.preds {
			c.Count("oracle:chain:earlier-step-still-conforms:checked")
			conf := false
			o := core.Guard(func() { conf = model.Conforms(model.TNodeOf(st.got.Type()), model.TNodeOf(p.ty)) })
			if o.Panicked || !conf {
				facet := facetConfRT
				if strings.HasPrefix(p.label, "ReturnTypeForValues") {
					facet = facetConfRTV
				}
				c.Violate(site, facet+", re-checked for an earlier call of the chain after this call", classChainRecheck, ch.text(),
					fmt.Sprintf("earlier step %q (%s): result type now reads %#v; %s now reads %#v (first observed after the call of %s)", st.text, st.d.name, st.got.Type(), p.label, p.ty, site))
				okAll = false
				break
			}
		}
	}
	// (2) one earlier prediction asked again
	if len(ch.steps) >= 2 {
		st := ch.steps[r.Intn(len(ch.steps)-1)]
		if st.tvP != cty.NilType {
			var again cty.Type
			var err error
			o := core.Guard(func() { again, err = st.d.fn.ReturnTypeForValues(st.argsP) })
			c.Eval(1)
			c.Count("oracle:chain:prediction-asked-again:checked")
			switch {
			case o.Panicked:
				c.Violate("stdlib."+st.d.name, "panic: "+pclass(o.PanicMsg), classChainRecheck, ch.text(), fmt.Sprintf("step %q: ReturnTypeForValues asked again: %s\n%s", st.text, o.PanicMsg, o.Stack))
				okAll = false
			case err != nil:
				c.Violate("stdlib."+st.d.name, facetChainReask, classChainRecheck, ch.text(), fmt.Sprintf("step %q: predicted %s the first time; asked again: error %v", st.text, st.tvPfp, err))
				okAll = false
			case typeFP(again) != st.tvPfp:
				c.Violate("stdlib."+st.d.name, facetChainReask, classChainRecheck, ch.text(), fmt.Sprintf("step %q: predicted %s the first time; asked again: %#v", st.text, st.tvPfp, again))
				okAll = false
			}
		}
	}
	// (3) the types in play
	c.CountN("oracle:chain:type-unchanged:checked", int64(len(ch.types)))
	for _, w := range ch.types {
		if now := typeFP(w.ty); now != w.fp {
			c.Violate(site, facetChainType, classChain, ch.text(),
				fmt.Sprintf("%s was %s when it was handed out and reads %s after the last call", w.what, w.text, now))
			okAll = false
			break
		}
	}
	// (4) the values in play
	c.CountN("oracle:chain:value-unchanged:checked", int64(len(ch.values)))
	for _, w := range ch.values {
		now := valueFP(w.v)
		var wf error
		o := core.Guard(func() { wf = cty.VerifWellFormed(w.v) })
		if now != w.fp || o.Panicked || wf != nil {
			why := "internal state changed"
			if o.Panicked {
				why = "well-formedness walk panicked: " + o.PanicMsg
			} else if wf != nil {
				why = "not well-formed: " + wf.Error()
			}
			c.Violate(site, facetChainValue, classChain, ch.text(), fmt.Sprintf("%s was %s; %s", w.what, w.text, why))
			okAll = false
			break
		}
	}
	return okAll
}
