package c01

import (
	"math/big"

	"github.com/zclconf/go-cty/cty"

	"verif/harness/core"
	"verif/harness/gen"
)

// Decimal twins: one decimal text held at two precisions. The two numbers are
// different under exact comparison (what LessThan/GreaterThan and range bounds
// use) although they have the same shortest decimal text (what Equals uses for
// fractions). A value that lies strictly between the twins, weakened to an
// unknown bounded by one twin and compared with the other twin, is the input on
// which a range shortcut that mixes the two notions of "same number" goes wrong.
//
// Only comparison and equality operations are driven here: they are exact at
// any precision, so C01's restriction to exactly representable arithmetic
// (rounding is C02's subject) does not apply to them.

var twinTexts = []string{"0.1", "0.3", "1.00000000001", "123.456", "-0.7", "-2.2", "1e-7", "0.12345678905"}

type twin struct {
	lo, hi, mid cty.Value // lo < mid < hi under exact comparison
}

// twinPrecs: the pairs of precisions one decimal text is held at. 53 = float64 (built with NumberFloatVal, so
// that its GoString differs from the parsed twin's), the others are parsed at that precision.
var twinPrecs = [][2]uint{{53, 512}, {100, 512}, {24, 53}, {200, 64}}

func atPrec(d string, prec uint) cty.Value {
	f, _, err := big.ParseFloat(d, 10, prec, big.ToNearestEven)
	if err != nil {
		panic(err)
	}
	if prec == 53 {
		f64, _ := f.Float64()
		return cty.NumberFloatVal(f64)
	}
	if prec == 512 {
		return cty.MustParseNumberVal(d)
	}
	return cty.NumberVal(f)
}

func twins() []twin {
	var out []twin
	for pi, pp := range twinPrecs {
		for ti, d := range twinTexts {
			if pi > 0 && ti > 2 {
				continue // the further precision pairs run on the first three texts only
			}
			a, b := atPrec(d, pp[0]), atPrec(d, pp[1])
			c := a.AsBigFloat().Cmp(b.AsBigFloat())
			if c == 0 {
				continue
			}
			lo, hi := a, b
			if c > 0 {
				lo, hi = b, a
			}
			m := new(big.Float).SetPrec(700).Add(lo.AsBigFloat(), hi.AsBigFloat())
			m.Quo(m, big.NewFloat(2))
			out = append(out, twin{lo, hi, cty.NumberVal(m)})
		}
	}
	return out
}

type bd struct {
	v   cty.Value
	inc bool
}

type twinW struct {
	val    cty.Value
	lo, hi *bd
}

// separates reports whether the range of w rules out `other` under exact comparison in a way that
// documented equality does not mend: other lies beyond a bound, and that bound is exclusive or is
// not the same number as other by documented equality (Equals).
func (w twinW) separates(other cty.Value) bool {
	of := other.AsBigFloat()
	beyond := func(b *bd, sign int) bool {
		if b == nil {
			return false
		}
		c := of.Cmp(b.v.AsBigFloat()) * sign // > 0: other is beyond the bound
		if c < 0 || (c == 0 && b.inc) {
			return false
		}
		if b.inc && other.Equals(b.v).True() {
			return false // beyond exactly, but the inclusive bound is "the same number": LessThanOrEqualTo mends it
		}
		return true
	}
	return beyond(w.lo, -1) || beyond(w.hi, 1)
}

func twinWeakenings(t twin, x cty.Value) []twinW {
	u := cty.UnknownVal(cty.Number)
	var lows, ups []bd
	xf := x.AsBigFloat()
	for _, b := range []cty.Value{t.lo, t.mid, t.hi} {
		switch c := b.AsBigFloat().Cmp(xf); {
		case c < 0:
			lows = append(lows, bd{b, true}, bd{b, false})
		case c > 0:
			ups = append(ups, bd{b, true}, bd{b, false})
		default:
			lows = append(lows, bd{b, true})
			ups = append(ups, bd{b, true})
		}
	}
	var out []twinW
	for _, nn := range []bool{false, true} {
		start := func() *cty.RefinementBuilder {
			if nn {
				return u.Refine().NotNull()
			}
			return u.Refine()
		}
		for i := range lows {
			l := lows[i]
			out = append(out, twinW{start().NumberRangeLowerBound(l.v, l.inc).NewValue(), &l, nil})
		}
		for i := range ups {
			h := ups[i]
			out = append(out, twinW{start().NumberRangeUpperBound(h.v, h.inc).NewValue(), nil, &h})
		}
		for i := range lows {
			for j := range ups {
				l, h := lows[i], ups[j]
				out = append(out, twinW{start().NumberRangeLowerBound(l.v, l.inc).NumberRangeUpperBound(h.v, h.inc).NewValue(), &l, &h})
			}
		}
	}
	return out
}

var twinOps = []string{"LessThan", "GreaterThan", "LessThanOrEqualTo", "GreaterThanOrEqualTo", "Equals", "NotEqual"}

// runTwins enumerates op x twin x (mid against lo / hi / mid, both operand
// orders) x every twin-bounded weakening of mid, also with both operands weakened.
func runTwins(c *core.Ctx, base int64) {
	idx := base
	for _, t := range twins() {
		ws := twinWeakenings(t, t.mid)
		for _, on := range twinOps {
			op := opByName(on)
			for xi, x := range []cty.Value{t.mid, t.lo, t.hi} {
				xws := ws
				if xi > 0 {
					xws = twinWeakenings(t, x)
				}
				for _, other := range []cty.Value{t.lo, t.hi, t.mid} {
					for _, w := range xws {
						for order := 0; order < 2; order++ {
							idx++
							if !c.Want(idx) {
								continue
							}
							conc := []cty.Value{x, other}
							abs := []cty.Value{w.val, other}
							if order == 1 {
								conc = []cty.Value{other, x}
								abs = []cty.Value{other, w.val}
							}
							if x.AsBigFloat().Cmp(other.AsBigFloat()) != 0 && x.Equals(other).True() && w.separates(other) {
								classSuffix = "/operands-equal-by-text-only"
								c.Count("twin-cases:operands-equal-by-text-only")
							}
							checkCase(c, idx, op, conc, abs, "", 1)
							classSuffix = ""
							c.Count("twin-cases")
						}
					}
				}
			}
			// both operands unknown: mid vs lo/hi where the other side is bounded by itself
			for _, w := range ws {
				for _, other := range []cty.Value{t.lo, t.hi} {
					ow := cty.UnknownVal(cty.Number).Refine().NotNull().NumberRangeLowerBound(other, true).NumberRangeUpperBound(other, true).NewValue()
					ow2 := cty.UnknownVal(cty.Number).Refine().NumberRangeLowerBound(other, true).NewValue()
					for _, o2 := range []cty.Value{ow, ow2} {
						idx++
						if !c.Want(idx) {
							continue
						}
						checkCase(c, idx, op, []cty.Value{t.mid, other}, []cty.Value{w.val, o2}, "", 2)
						c.Count("twin-cases")
					}
				}
			}
		}
	}
	c.Exhaustive("decimal twins (one decimal text at 53 and 512 bits) x comparison/equality ops x twin-bounded weakenings of a value strictly between them")
}

// runNullPairs: both operands (or the same nested slot of both operands) are
// nulls, and BOTH are weakened, to every pair of unknowns of the null menu
// (unrefined, or refined with bounds / prefix / length bounds but not with
// not-null: such refinements speak only about the non-null case, so the
// unknown still admits the null). null == null is True whatever the types.
func runNullPairs(c *core.Ctx, base int64) {
	idx := base
	tys := []cty.Type{cty.Number, cty.String, cty.Bool, cty.List(cty.String), cty.Set(cty.Number), cty.Map(cty.Bool)}
	wrap := []func(v cty.Value) cty.Value{
		func(v cty.Value) cty.Value { return v },
		func(v cty.Value) cty.Value { return cty.TupleVal([]cty.Value{v, cty.True}) },
		func(v cty.Value) cty.Value {
			return cty.ObjectVal(map[string]cty.Value{"a": v, "b": cty.StringVal("x")})
		},
		func(v cty.Value) cty.Value { return cty.ListVal([]cty.Value{v}) },
	}
	for _, ta := range tys {
		for _, tb := range tys {
			na, nb := cty.NullVal(ta), cty.NullVal(tb)
			for wi, w := range wrap {
				if wi > 0 && !ta.Equals(tb) {
					continue // nested slots keep one type so that the containers are comparable
				}
				for _, ua := range gen.AllAdmittingUnknowns(na, false) {
					for _, ub := range gen.AllAdmittingUnknowns(nb, false) {
						for _, on := range []string{"Equals", "NotEqual"} {
							idx++
							if !c.Want(idx) {
								continue
							}
							checkCase(c, idx, opByName(on), []cty.Value{w(na), w(nb)}, []cty.Value{w(ua), w(ub)}, "", 2)
							c.Count("nullpair-cases")
						}
					}
				}
			}
		}
	}
	c.Exhaustive("pairs of nulls (6 types, bare and nested) x every pair of nullable admitting unknowns, Equals/NotEqual")
}
