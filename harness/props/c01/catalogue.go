package c01

import (
	"github.com/zclconf/go-cty/cty"

	"verif/harness/core"
	"verif/harness/gen"
)

type catEntry struct {
	op   string
	args []cty.Value
	attr string
}

func n(i int64) cty.Value   { return cty.NumberIntVal(i) }
func s(x string) cty.Value  { return cty.StringVal(x) }
func f(x float64) cty.Value { return cty.NumberFloatVal(x) }

// catalogue is the fixed, seed-independent list of concrete operand tuples whose
// single-position weakenings are enumerated exhaustively.
func catalogue() []catEntry {
	var c []catEntry
	nums := []cty.Value{n(0), n(1), n(-1), n(2), n(5), f(0.5), f(-2.5), cty.PositiveInfinity, cty.NegativeInfinity, cty.MustParseNumberVal("1000000000000000000000000000000")}
	for _, op := range []string{"Add", "Subtract", "Multiply", "Divide", "Modulo", "LessThan", "GreaterThan", "LessThanOrEqualTo", "GreaterThanOrEqualTo", "Equals", "NotEqual"} {
		for i, a := range nums {
			// a diagonal band of pairs keeps the catalogue small but covers ties, neighbours and signs
			for _, j := range []int{i, (i + 1) % len(nums), (i + 3) % len(nums)} {
				c = append(c, catEntry{op, []cty.Value{a, nums[j]}, ""})
			}
		}
	}
	for _, a := range nums {
		c = append(c, catEntry{"Negate", []cty.Value{a}, ""}, catEntry{"Absolute", []cty.Value{a}, ""})
	}
	for _, a := range []cty.Value{cty.True, cty.False} {
		c = append(c, catEntry{"Not", []cty.Value{a}, ""})
		for _, b := range []cty.Value{cty.True, cty.False} {
			c = append(c, catEntry{"And", []cty.Value{a, b}, ""}, catEntry{"Or", []cty.Value{a, b}, ""}, catEntry{"Equals", []cty.Value{a, b}, ""})
		}
	}
	list12 := cty.ListVal([]cty.Value{n(1), n(2)})
	listAB := cty.ListVal([]cty.Value{s("a"), s("é")})
	set12 := cty.SetVal([]cty.Value{n(1), n(2)})
	setNested := cty.SetVal([]cty.Value{cty.ListVal([]cty.Value{n(1)}), cty.ListVal([]cty.Value{n(1), n(2)})})
	mapAB := cty.MapVal(map[string]cty.Value{"a": n(1), "b": n(2)})
	tup := cty.TupleVal([]cty.Value{n(1), s("x"), cty.True})
	obj := cty.ObjectVal(map[string]cty.Value{"a": n(1), "b": s("x"), "c": cty.ListVal([]cty.Value{cty.True})})
	objNull := cty.ObjectVal(map[string]cty.Value{"a": cty.NullVal(cty.Number), "b": s("x")})
	nested := cty.ObjectVal(map[string]cty.Value{"a": cty.ListVal([]cty.Value{cty.MapVal(map[string]cty.Value{"k": set12})}), "b": tup})
	eqPairs := [][2]cty.Value{
		{list12, list12}, {list12, cty.ListVal([]cty.Value{n(1), n(3)})}, {list12, cty.ListVal([]cty.Value{n(1)})}, {list12, cty.ListValEmpty(cty.Number)},
		{listAB, listAB}, {listAB, list12}, {set12, set12}, {set12, cty.SetVal([]cty.Value{n(1)})}, {set12, cty.SetVal([]cty.Value{n(2), n(3)})},
		{setNested, setNested}, {mapAB, mapAB}, {mapAB, cty.MapVal(map[string]cty.Value{"a": n(1)})}, {mapAB, cty.MapVal(map[string]cty.Value{"a": n(1), "c": n(2)})},
		{tup, tup}, {tup, cty.TupleVal([]cty.Value{n(1), s("y"), cty.True})}, {tup, cty.TupleVal([]cty.Value{n(1), s("x")})},
		{obj, obj}, {objNull, objNull}, {objNull, cty.ObjectVal(map[string]cty.Value{"a": n(1), "b": s("x")})}, {nested, nested},
		{cty.NullVal(cty.String), cty.NullVal(cty.Number)}, {cty.NullVal(cty.String), s("a")}, {s("a"), s("a")}, {s("a"), s("é")}, {s("abc"), s("abd")},
		{s("a"), n(1)}, {obj, tup}, {cty.EmptyObjectVal, cty.EmptyObjectVal}, {cty.EmptyTupleVal, cty.EmptyTupleVal}, {cty.NullVal(cty.DynamicPseudoType), cty.NullVal(cty.DynamicPseudoType)},
	}
	for _, p := range eqPairs {
		c = append(c, catEntry{"Equals", []cty.Value{p[0], p[1]}, ""}, catEntry{"Equals", []cty.Value{p[1], p[0]}, ""})
	}
	for _, k := range []cty.Value{n(0), n(1), n(2), n(-1), f(0.5)} {
		c = append(c, catEntry{"Index", []cty.Value{list12, k}, ""}, catEntry{"HasIndex", []cty.Value{list12, k}, ""},
			catEntry{"Index", []cty.Value{tup, k}, ""}, catEntry{"HasIndex", []cty.Value{tup, k}, ""})
	}
	for _, k := range []cty.Value{s("a"), s("b"), s("zz"), n(1)} {
		c = append(c, catEntry{"Index", []cty.Value{mapAB, k}, ""}, catEntry{"HasIndex", []cty.Value{mapAB, k}, ""})
	}
	for _, a := range []string{"a", "b", "c"} {
		c = append(c, catEntry{"GetAttr", []cty.Value{obj}, a})
	}
	c = append(c, catEntry{"GetAttr", []cty.Value{nested}, "a"}, catEntry{"GetAttr", []cty.Value{objNull}, "a"})
	for _, e := range []cty.Value{n(1), n(2), n(3), s("a"), cty.NullVal(cty.Number)} {
		c = append(c, catEntry{"HasElement", []cty.Value{set12, e}, ""}, catEntry{"HasElement", []cty.Value{cty.SetValEmpty(cty.Number), e}, ""})
	}
	c = append(c, catEntry{"HasElement", []cty.Value{setNested, cty.ListVal([]cty.Value{n(1)})}, ""}, catEntry{"HasElement", []cty.Value{setNested, cty.ListVal([]cty.Value{n(2)})}, ""})
	for _, v := range []cty.Value{list12, cty.ListValEmpty(cty.String), set12, setNested, cty.SetValEmpty(cty.Bool), mapAB, cty.MapValEmpty(cty.Number), tup, cty.EmptyTupleVal,
		cty.SetVal([]cty.Value{n(1), n(2), n(3)}), cty.SetVal([]cty.Value{n(1)})} {
		c = append(c, catEntry{"Length", []cty.Value{v}, ""})
	}
	return c
}

type corpusEntry struct {
	op        string
	conc, abs []cty.Value
}

// corpus holds the witnesses of every finding of this property (fixed or
// listed), re-executed on every run so that a regression is reported again.
func corpus() []corpusEntry {
	unkNum := cty.UnknownVal(cty.Number)
	objC := cty.ObjectVal(map[string]cty.Value{"c": cty.EmptyObjectVal})
	mapK := cty.MapVal(map[string]cty.Value{"k": s("a")})
	l6 := cty.ListVal([]cty.Value{cty.NullVal(cty.Number), n(6)})
	t1 := cty.TupleVal([]cty.Value{cty.NullVal(cty.Set(cty.Bool)), cty.EmptyObjectVal})
	return []corpusEntry{
		// fixed: unset bound reported as exclusive infinity
		{"Equals", []cty.Value{cty.PositiveInfinity, cty.PositiveInfinity}, []cty.Value{unkNum.RefineNotNull(), cty.PositiveInfinity}},
		{"Equals", []cty.Value{cty.NegativeInfinity, cty.NegativeInfinity}, []cty.Value{unkNum.Refine().NumberRangeUpperBound(n(1), true).NewValue(), cty.NegativeInfinity}},
		// fixed: HasElement with a partly unknown element
		{"HasElement", []cty.Value{cty.SetVal([]cty.Value{mapK}), mapK}, []cty.Value{cty.SetVal([]cty.Value{mapK}), cty.MapVal(map[string]cty.Value{"k": cty.UnknownVal(cty.String)})}},
		// fixed: set equality with a partly unknown member
		{"Equals", []cty.Value{cty.SetVal([]cty.Value{l6}), cty.SetVal([]cty.Value{l6})},
			[]cty.Value{cty.SetVal([]cty.Value{cty.ListVal([]cty.Value{unkNum, n(6)})}), cty.SetVal([]cty.Value{l6})}},
		// fixed: known value with a dynamic part vs. unknown
		{"Equals", []cty.Value{objC, objC}, []cty.Value{cty.ObjectVal(map[string]cty.Value{"c": cty.DynamicVal}), cty.UnknownVal(objC.Type())}},
		{"Equals", []cty.Value{objC, objC}, []cty.Value{cty.ObjectVal(map[string]cty.Value{"c": cty.DynamicVal}), cty.UnknownVal(objC.Type()).RefineNotNull()}},
		// fixed: HasElement type shortcut with nested dynamic
		{"HasElement", []cty.Value{cty.SetVal([]cty.Value{objC}), objC}, []cty.Value{cty.SetVal([]cty.Value{objC}), cty.ObjectVal(map[string]cty.Value{"c": cty.DynamicVal})}},
		// fixed (F-153): wholly known operands whose types differ in a dynamic part give a known answer
		{"HasElement", []cty.Value{cty.SetValEmpty(cty.DynamicPseudoType), s("a")}, []cty.Value{cty.SetValEmpty(cty.DynamicPseudoType), cty.UnknownVal(cty.String)}},
		{"HasElement", []cty.Value{cty.SetVal([]cty.Value{cty.NullVal(cty.DynamicPseudoType)}), s("a")}, []cty.Value{cty.SetVal([]cty.Value{cty.NullVal(cty.DynamicPseudoType)}), cty.DynamicVal}},
		{"HasElement", []cty.Value{cty.SetValEmpty(cty.String), cty.ListValEmpty(cty.DynamicPseudoType)}, []cty.Value{cty.UnknownVal(cty.Set(cty.String)), cty.ListValEmpty(cty.DynamicPseudoType)}},
		// fixed: dynamic parts on both sides
		{"Equals", []cty.Value{t1, t1}, []cty.Value{cty.TupleVal([]cty.Value{cty.NullVal(cty.Set(cty.Bool)), cty.DynamicVal}), cty.TupleVal([]cty.Value{cty.DynamicVal, cty.EmptyObjectVal})}},
	}
}

func runCorpus(c *core.Ctx, base int64) {
	for k, e := range corpus() {
		idx := base + int64(k)
		if !c.Want(idx) {
			continue
		}
		checkCase(c, idx, opByName(e.op), e.conc, e.abs, "", 1)
		c.Count("corpus-cases")
	}
}

func opByName(name string) opDef {
	for _, o := range ops {
		if o.name == name {
			return o
		}
	}
	panic("no op " + name)
}

// runCatalogue enumerates every single-position weakening of every catalogue
// entry with every kind of admitting unknown. Seed-independent; exhaustive.
func runCatalogue(c *core.Ctx, base int64) {
	idx := base
	cat := catalogue()
	for _, e := range cat {
		op := opByName(e.op)
		for k := range e.args {
			for _, w := range gen.SinglePositionWeakenings(e.args[k], true) {
				idx++
				if !c.Want(idx) {
					continue
				}
				abs := append([]cty.Value(nil), e.args...)
				abs[k] = w.V
				checkCase(c, idx, op, e.args, abs, e.attr, 1)
				c.Count("catalogue-cases")
			}
		}
	}
	c.CountN("catalogue-entries", int64(len(cat)))
	c.Exhaustive("catalogue of concrete operand tuples x every single-position weakening x every refinement kind of the menu")
}
