// Package c01: operations on unknown values are sound approximations.
package c01

import (
	"fmt"
	"strings"

	"github.com/zclconf/go-cty/cty"

	"verif/harness/core"
	"verif/harness/gen"
	"verif/harness/mon"
)

type Driver struct{}

func (Driver) ID() string { return "C01" }

func (Driver) Info() core.Info {
	return core.Info{
		Title: "operations on unknown values are sound approximations",
		Rule: "case = (operation method, wholly known operand tuple, weakened operand tuple): operands drawn per operation from typed generators " +
			"(exact numbers, nested collections depth<=3, nulls for Equals); weakening replaces sub-values at any depth by unknowns (unrefined, refined with true " +
			"nullness/bounds/prefix/length refinements, or DynamicVal at operand/tuple/object level); plus a fixed catalogue x every single-position weakening x every refinement kind. " +
			"distinct = hash of (op, concrete operands, abstract operands); non-trivial = the concrete run succeeded and at least one position was replaced",
		Assumptions: []string{
			"mon.Admits is the weakest reading of 'admits' (infinite bounds = unset, sets by necessary conditions only)",
			"numbers restricted to values on which the arithmetic is exact at operand precision (rounding is C02's subject)",
			"a concrete run that panics promises nothing about the abstract run",
		},
		MinNontrivial: 1000,
	}
}

func (Driver) Batches(tier string) int {
	if tier == "thorough" {
		return 64
	}
	return 16
}

type opDef struct {
	name  string
	arity int
	kind  string // num2, num1, bool2, bool1, eq, index, hasindex, getattr, haselement, length
	call  func(a []cty.Value, attr string) cty.Value
}

var ops = []opDef{
	{"Equals", 2, "eq", func(a []cty.Value, _ string) cty.Value { return a[0].Equals(a[1]) }},
	{"NotEqual", 2, "eq", func(a []cty.Value, _ string) cty.Value { return a[0].NotEqual(a[1]) }},
	{"Add", 2, "num2", func(a []cty.Value, _ string) cty.Value { return a[0].Add(a[1]) }},
	{"Subtract", 2, "num2", func(a []cty.Value, _ string) cty.Value { return a[0].Subtract(a[1]) }},
	{"Multiply", 2, "num2", func(a []cty.Value, _ string) cty.Value { return a[0].Multiply(a[1]) }},
	{"Divide", 2, "num2", func(a []cty.Value, _ string) cty.Value { return a[0].Divide(a[1]) }},
	{"Modulo", 2, "num2", func(a []cty.Value, _ string) cty.Value { return a[0].Modulo(a[1]) }},
	{"Negate", 1, "num1", func(a []cty.Value, _ string) cty.Value { return a[0].Negate() }},
	{"Absolute", 1, "num1", func(a []cty.Value, _ string) cty.Value { return a[0].Absolute() }},
	{"LessThan", 2, "num2", func(a []cty.Value, _ string) cty.Value { return a[0].LessThan(a[1]) }},
	{"GreaterThan", 2, "num2", func(a []cty.Value, _ string) cty.Value { return a[0].GreaterThan(a[1]) }},
	{"LessThanOrEqualTo", 2, "num2", func(a []cty.Value, _ string) cty.Value { return a[0].LessThanOrEqualTo(a[1]) }},
	{"GreaterThanOrEqualTo", 2, "num2", func(a []cty.Value, _ string) cty.Value { return a[0].GreaterThanOrEqualTo(a[1]) }},
	{"Not", 1, "bool1", func(a []cty.Value, _ string) cty.Value { return a[0].Not() }},
	{"And", 2, "bool2", func(a []cty.Value, _ string) cty.Value { return a[0].And(a[1]) }},
	{"Or", 2, "bool2", func(a []cty.Value, _ string) cty.Value { return a[0].Or(a[1]) }},
	{"Index", 2, "index", func(a []cty.Value, _ string) cty.Value { return a[0].Index(a[1]) }},
	{"HasIndex", 2, "hasindex", func(a []cty.Value, _ string) cty.Value { return a[0].HasIndex(a[1]) }},
	{"GetAttr", 1, "getattr", func(a []cty.Value, n string) cty.Value { return a[0].GetAttr(n) }},
	{"HasElement", 2, "haselement", func(a []cty.Value, _ string) cty.Value { return a[0].HasElement(a[1]) }},
	{"Length", 1, "length", func(a []cty.Value, _ string) cty.Value { return a[0].Length() }},
}

var neverNull = map[string]bool{"num2": true, "num1": true, "bool1": true, "bool2": true, "eq": true, "hasindex": true, "haselement": true, "length": true}

func valOpts() gen.ValueOpts { return gen.ValueOpts{ExactNums: true, MaxLen: 3} }

// operands draws a wholly known operand tuple suitable for op.
func operands(r *core.Rand, op opDef) ([]cty.Value, string) {
	vo := valOpts()
	switch op.kind {
	case "num2":
		return []cty.Value{gen.ExactNumber(r).V, gen.ExactNumber(r).V}, ""
	case "num1":
		return []cty.Value{gen.ExactNumber(r).V}, ""
	case "bool2":
		return []cty.Value{cty.BoolVal(r.Bool()), cty.BoolVal(r.Bool())}, ""
	case "bool1":
		return []cty.Value{cty.BoolVal(r.Bool())}, ""
	case "eq":
		ty := gen.Type(r, 3, gen.TypeOpts{}).Cty()
		vo.NullPct = 8
		vo.SmallNums = r.Bool()
		a := gen.Value(r, ty, vo)
		var b cty.Value
		switch r.Intn(6) {
		case 0:
			b = a // identical
		case 1:
			b = gen.Value(r, gen.Type(r, 2, gen.TypeOpts{}).Cty(), vo) // likely another type
		case 2:
			b = cty.NullVal(ty)
		default:
			b = gen.Value(r, ty, vo)
		}
		return []cty.Value{a, b}, ""
	case "index", "hasindex":
		var coll, key cty.Value
		switch r.Intn(3) {
		case 0:
			coll = gen.Value(r, cty.List(gen.Type(r, 2, gen.TypeOpts{}).Cty()), vo)
			key = cty.NumberIntVal(int64(r.Intn(4)))
		case 1:
			coll = gen.Value(r, cty.Map(gen.Type(r, 2, gen.TypeOpts{}).Cty()), vo)
			key = cty.StringVal(gen.SimpleKey(r))
		default:
			n := 1 + r.Intn(3)
			ts := make([]cty.Type, n)
			for i := range ts {
				ts[i] = gen.Type(r, 2, gen.TypeOpts{}).Cty()
			}
			coll = gen.Value(r, cty.Tuple(ts), vo)
			key = cty.NumberIntVal(int64(r.Intn(n + 1)))
		}
		if op.kind == "hasindex" && r.Chance(1, 6) {
			// odd keys: HasIndex imposes no type constraint on the key
			key = []cty.Value{cty.NumberFloatVal(0.5), cty.NumberIntVal(-1), cty.StringVal("a"), cty.True}[r.Intn(4)]
		}
		return []cty.Value{coll, key}, ""
	case "getattr":
		ot := gen.ObjectType(r, 3, gen.TypeOpts{})
		if len(ot.Attrs) == 0 {
			return nil, ""
		}
		names := ot.AttrNames()
		return []cty.Value{gen.Value(r, ot.Cty(), vo)}, names[r.Intn(len(names))]
	case "haselement":
		ety := gen.Type(r, 2, gen.TypeOpts{}).Cty()
		vo.SmallNums = true
		s := gen.Value(r, cty.Set(ety), vo)
		var e cty.Value
		if s.LengthInt() > 0 && r.Bool() {
			es := s.AsValueSlice()
			e = es[r.Intn(len(es))]
		} else if r.Chance(1, 8) {
			e = gen.Value(r, gen.Type(r, 2, gen.TypeOpts{}).Cty(), vo)
		} else {
			e = gen.Value(r, ety, vo)
		}
		return []cty.Value{s, e}, ""
	case "length":
		ety := gen.Type(r, 2, gen.TypeOpts{}).Cty()
		vo.SmallNums = true
		switch r.Intn(4) {
		case 0:
			return []cty.Value{gen.Value(r, cty.List(ety), vo)}, ""
		case 1:
			return []cty.Value{gen.Value(r, cty.Set(ety), vo)}, ""
		case 2:
			return []cty.Value{gen.Value(r, cty.Map(ety), vo)}, ""
		default:
			return []cty.Value{gen.Value(r, cty.Tuple([]cty.Type{ety, cty.String}), vo)}, ""
		}
	}
	return nil, ""
}

func fmtArgs(a []cty.Value, attr string) string {
	p := make([]string, len(a))
	for i, v := range a {
		p[i] = fmt.Sprintf("%#v", v)
	}
	s := strings.Join(p, ", ")
	if attr != "" {
		s += fmt.Sprintf(", attr=%q", attr)
	}
	return s
}

func (Driver) Run(c *core.Ctx) {
	n := int64(c.N(30000, 600000))
	for i := int64(0); i < n; i++ {
		if !c.Want(i) {
			continue
		}
		r := c.RNG(i)
		op := ops[r.Intn(len(ops))]
		conc, attr := operands(r, op)
		if conc == nil {
			continue
		}
		// weaken
		abs := make([]cty.Value, len(conc))
		var recs []gen.Weakening
		wo := gen.WeakenOpts{Pct: 12 + r.Intn(25), Refined: r.Chance(3, 4), Dynamic: r.Chance(1, 3), InflateSets: true}
		for k, v := range conc {
			w := wo
			if k == len(conc)-1 && len(recs) == 0 {
				w.ForceOne = true
			}
			var rc []gen.Weakening
			abs[k], rc = gen.Weaken(r, v, w)
			for _, x := range rc {
				x.Path = fmt.Sprintf("arg%d%s", k, x.Path)
				recs = append(recs, x)
			}
		}
		checkCase(c, i, op, conc, abs, attr, len(recs))
	}
	if c.Batch == 0 {
		runCorpus(c, 1_000_000_000)
		runCatalogue(c, 2_000_000_000)
		runTwins(c, 3_000_000_000)
		runNullPairs(c, 4_000_000_000)
	}
}

// classSuffix is appended to the class of "does not admit" violations raised while it is set. The
// twin enumeration sets it for cases whose two CONCRETE operands are the same number by documented
// equality (same shortest decimal text) but differ exactly: on such pairs Equals and the exact
// order disagree by design (known finding F-47), so a bound lying between them separates two
// "equal" numbers. Those cases get their own class; every other case keeps the strict class.
var classSuffix string

func checkCase(c *core.Ctx, idx int64, op opDef, conc, abs []cty.Value, attr string, nrep int) {
	desc := func() string {
		return fmt.Sprintf("%s(%s) weakened to %s(%s)", op.name, fmtArgs(conc, attr), op.name, fmtArgs(abs, attr))
	}
	c.Begin(idx, desc)
	var cres, ares cty.Value
	co := core.Guard(func() { cres = op.call(conc, attr) })
	c.Eval(1)
	c.Count("op:" + op.name)
	if co.Panicked {
		c.Count("skipped:concrete-panicked")
		c.Distinct(desc(), false)
		return
	}
	// clause (ii): wholly known operands => wholly known, and never null for the listed kinds
	if !cres.IsWhollyKnown() {
		c.Violate("Value."+op.name, "wholly known operands gave a result that is not wholly known", "", desc(), fmt.Sprintf("result %#v", cres))
	} else if neverNull[op.kind] && cres.IsNull() {
		c.Violate("Value."+op.name, "result is null", "", desc(), fmt.Sprintf("result %#v", cres))
	}
	if w := mon.WellFormed(cres); w != "" {
		c.CrossNote("C06", "Value."+op.name+": "+w, desc())
	}
	if idx%3 == 0 {
		// history step: somebody else has already refined the placeholders of the abstract operands further and
		// thrown the results away. The operands are values; they still admit what they admitted.
		derived := 0
		for _, a := range abs {
			derived += gen.DeriveAndDiscard(a)
		}
		if derived > 0 {
			c.Count("history:placeholders-refined-further-elsewhere")
			c.Eval(derived)
		}
	}
	ao := core.Guard(func() { ares = op.call(abs, attr) })
	c.Eval(1)
	c.Distinct(desc(), nrep > 0)
	if nrep > 0 {
		c.Count("nontrivial:" + op.name)
	}
	if ao.Panicked {
		c.Violate("Value."+op.name, "abstract run panicked although the concrete run succeeded", core.PanicClass(ao.PanicMsg), desc(),
			fmt.Sprintf("concrete result %#v; abstract panic: %s\n%s", cres, ao.PanicMsg, ao.Stack))
		return
	}
	if w := mon.WellFormed(ares); w != "" {
		c.CrossNote("C06", "Value."+op.name+": "+w, desc())
	}
	if !ares.IsKnown() {
		c.Count("abstract-result:unknown")
	} else if !ares.IsWhollyKnown() {
		c.Count("abstract-result:partly-known")
	} else {
		c.Count("abstract-result:known")
	}
	if why := mon.Admits(ares, cres); why != "" {
		c.Violate("Value."+op.name, "abstract result does not admit the concrete result", admitClass(why)+classSuffix, desc(),
			fmt.Sprintf("concrete result %#v; abstract result %#v; %s", cres, ares, why))
	}
	if c.WantSample() && nrep > 0 {
		c.Sample(map[string]any{"op": op.name, "concrete": fmtArgs(conc, attr), "abstract": fmtArgs(abs, attr),
			"concrete_result": fmt.Sprintf("%#v", cres), "abstract_result": fmt.Sprintf("%#v", ares)})
	}
}

// admitClass maps the reason text to a coarse class used in signatures.
func admitClass(why string) string {
	switch {
	case strings.Contains(why, "does not conform"):
		return "type"
	case strings.Contains(why, "definitely-not-null"), strings.Contains(why, "nullness"), strings.Contains(why, "definitely null"):
		return "nullness"
	case strings.Contains(why, "outside abstract bounds"):
		return "bounds"
	case strings.Contains(why, "prefix"):
		return "prefix"
	case strings.Contains(why, "length"):
		return "length"
	case strings.Contains(why, "known abstract"):
		return "known-part-differs"
	case strings.Contains(why, "is known"):
		return "known-vs-unknown"
	}
	return "other"
}
