package c02

import (
	"fmt"
	"math"
	"math/big"
	"runtime"
	"strings"

	"github.com/zclconf/go-cty/cty"

	"verif/harness/core"
	"verif/harness/gen"
	"verif/harness/model"
	"verif/harness/mon"
)

// operand is a number together with everything the reference needs to know about it.
type operand struct {
	v       cty.Value
	class   string
	f       *big.Float
	n       model.Num
	prec    uint
	negZero bool
}

func mkOperand(nc gen.NumCase) operand {
	f := nc.V.AsBigFloat()
	return operand{v: nc.V, class: nc.Class, f: f, n: model.NumOf(f), prec: f.Prec(), negZero: f.Sign() == 0 && f.Signbit()}
}

func (o operand) isZero() bool { return o.n.Inf == 0 && o.n.R.Sign() == 0 }
func (o operand) isInf() bool  { return o.n.Inf != 0 }
func (o operand) String() string {
	return fmt.Sprintf("%#v@p%d[%s]", o.v, o.prec, o.class)
}

type numOp struct {
	name  string
	arity int
	kind  string // arith, cmp
	call  func(a, b cty.Value) cty.Value
}

var numOps = []numOp{
	{"Add", 2, "arith", func(a, b cty.Value) cty.Value { return a.Add(b) }},
	{"Subtract", 2, "arith", func(a, b cty.Value) cty.Value { return a.Subtract(b) }},
	{"Multiply", 2, "arith", func(a, b cty.Value) cty.Value { return a.Multiply(b) }},
	{"Divide", 2, "arith", func(a, b cty.Value) cty.Value { return a.Divide(b) }},
	{"Modulo", 2, "arith", func(a, b cty.Value) cty.Value { return a.Modulo(b) }},
	{"Negate", 1, "arith", func(a, _ cty.Value) cty.Value { return a.Negate() }},
	{"Absolute", 1, "arith", func(a, _ cty.Value) cty.Value { return a.Absolute() }},
	{"LessThan", 2, "cmp", func(a, b cty.Value) cty.Value { return a.LessThan(b) }},
	{"GreaterThan", 2, "cmp", func(a, b cty.Value) cty.Value { return a.GreaterThan(b) }},
	{"LessThanOrEqualTo", 2, "cmp", func(a, b cty.Value) cty.Value { return a.LessThanOrEqualTo(b) }},
	{"GreaterThanOrEqualTo", 2, "cmp", func(a, b cty.Value) cty.Value { return a.GreaterThanOrEqualTo(b) }},
}

func opByName(name string) numOp {
	for _, o := range numOps {
		if o.name == name {
			return o
		}
	}
	panic("no such op " + name)
}

// ---- reference arithmetic on exact extended rationals -------------------------------------------

type expKind int

const (
	expValue    expKind = iota // a defined number (finite or infinite)
	expBool                    // a defined truth value
	expNaNPanic                // documented: must panic with big.ErrNaN
	expRecord                  // nothing documented / to be classified: outcome recorded, not asserted
	expModulo                  // finite receiver, finite non-zero divisor
)

type expectation struct {
	kind  expKind
	val   model.Num
	b     bool
	tie   bool   // comparison answered through the documented-equality tie rule
	class string // label of the recorded class
}

func finite(r *big.Rat) model.Num { return model.Num{R: r} }
func inf(sign int) model.Num      { return model.Num{Inf: sign} }

func ratAbs(r *big.Rat) *big.Rat { return new(big.Rat).Abs(r) }

func minPrec(a, b operand, unary bool) uint {
	p := a.prec
	if !unary && (b.prec < p || p == 0) && b.prec != 0 {
		p = b.prec
	}
	if p < 8 {
		p = 64 // a zero-precision big.Float can only be an exact zero
	}
	return p
}

// maxPrec is the precision results are held to: the LARGER operand precision (every operation
// computes at least at that precision: Add/Subtract/Divide/Modulo at max(prec), Multiply at
// max(prec, MinPrec of the 512-bit product)). The result of an operation must not depend on
// which of the two operands is the narrower one, or on which is the receiver.
func maxPrec(a, b operand, unary bool) uint {
	p := a.prec
	if !unary && b.prec > p {
		p = b.prec
	}
	if p < 8 {
		p = 64 // a zero-precision big.Float can only be an exact zero
	}
	return p
}

// expect computes what the documentation promises for op(a, b).
func expect(op string, a, b operand) expectation {
	an, bn := a.n, b.n
	switch op {
	case "Negate":
		if an.Inf != 0 {
			return expectation{kind: expValue, val: inf(-an.Inf)}
		}
		return expectation{kind: expValue, val: finite(new(big.Rat).Neg(an.R))}
	case "Absolute":
		if an.Inf != 0 {
			return expectation{kind: expValue, val: inf(1)}
		}
		return expectation{kind: expValue, val: finite(ratAbs(an.R))}
	case "Add", "Subtract":
		if op == "Subtract" {
			if bn.Inf != 0 {
				bn = inf(-bn.Inf)
			} else {
				bn = finite(new(big.Rat).Neg(bn.R))
			}
		}
		switch {
		case an.Inf != 0 && bn.Inf != 0 && an.Inf != bn.Inf:
			return expectation{kind: expRecord, class: "inf-minus-inf"}
		case an.Inf != 0:
			return expectation{kind: expValue, val: inf(an.Inf)}
		case bn.Inf != 0:
			return expectation{kind: expValue, val: inf(bn.Inf)}
		}
		return expectation{kind: expValue, val: finite(new(big.Rat).Add(an.R, bn.R))}
	case "Multiply":
		if an.Inf != 0 || bn.Inf != 0 {
			s := an.Sign() * bn.Sign()
			if s == 0 {
				return expectation{kind: expRecord, class: "zero-times-inf"}
			}
			return expectation{kind: expValue, val: inf(s)}
		}
		return expectation{kind: expValue, val: finite(new(big.Rat).Mul(an.R, bn.R))}
	case "Divide":
		switch {
		case an.Inf != 0 && bn.Inf != 0:
			return expectation{kind: expNaNPanic}
		case a.isZero() && b.isZero():
			return expectation{kind: expNaNPanic}
		case b.isZero():
			// documented: "If the other value is exactly zero, this operation will return either
			// PositiveInfinity or NegativeInfinity, depending on the sign of the receiver value."
			// Negative zero is exactly zero (it Equals Zero and has no sign of its own in cty), so
			// the sign of the receiver alone decides (F-14). Kept in its own class.
			if b.negZero {
				return expectation{kind: expValue, val: inf(an.Sign()), class: "neg-zero-divisor"}
			}
			return expectation{kind: expValue, val: inf(an.Sign())}
		case an.Inf != 0:
			return expectation{kind: expValue, val: inf(an.Inf * bn.Sign())}
		case bn.Inf != 0:
			return expectation{kind: expValue, val: finite(new(big.Rat))}
		}
		return expectation{kind: expValue, val: finite(new(big.Rat).Quo(an.R, bn.R))}
	case "Modulo":
		switch {
		case b.isZero():
			return expectation{kind: expRecord, class: "modulo-zero-divisor"}
		case an.Inf != 0 || bn.Inf != 0:
			return expectation{kind: expRecord, class: "modulo-infinite-operand"}
		}
		return expectation{kind: expModulo}
	case "LessThan", "GreaterThan", "LessThanOrEqualTo", "GreaterThanOrEqualTo":
		cmp := an.Cmp(bn)
		switch op {
		case "LessThan":
			return expectation{kind: expBool, b: cmp < 0}
		case "GreaterThan":
			return expectation{kind: expBool, b: cmp > 0}
		}
		strict := cmp < 0
		if op == "GreaterThanOrEqualTo" {
			strict = cmp > 0
		}
		if cmp == 0 && an.Inf == 0 && !model.NumEqualDoc(a.f, b.f) {
			// Exactly the same number stored at two precisions whose shortest decimal texts differ:
			// Equals answers False, so "LessThan Or Equals" answers False for x <= x. Exact
			// arithmetic says True; kept in its own narrow class (same root cause as C03's F-47).
			return expectation{kind: expBool, b: true, class: "exactly-equal-fractions-at-different-precisions"}
		}
		if cmp == 0 || strict {
			return expectation{kind: expBool, b: true}
		}
		// Documented as "LessThan/GreaterThan combined with Equals by Or", and documented
		// number equality is "same shortest decimal text". Two numbers that are equal in
		// that sense and lie within operand precision of each other are a tie.
		if an.Inf == 0 && bn.Inf == 0 && model.NumEqualDoc(a.f, b.f) && closeRel(an.R, bn.R, minPrec(a, b, false)) {
			return expectation{kind: expBool, b: true, tie: true}
		}
		return expectation{kind: expBool, b: false}
	}
	panic("expect: unknown op " + op)
}

// oddBits is the number of significant bits of |n| once trailing zero bits are dropped.
func oddBits(n *big.Int) int {
	if n.Sign() == 0 {
		return 0
	}
	a := new(big.Int).Abs(n)
	return a.BitLen() - int(a.TrailingZeroBits())
}

// fitsBits reports whether r is an integer whose significant bits fit in a p-bit mantissa.
func fitsBits(r *big.Rat, p uint) bool {
	return r.IsInt() && oddBits(r.Num()) <= int(p)
}

// dyadicFits reports whether the dyadic rational r is representable with a p-bit mantissa.
func dyadicFits(r *big.Rat, p uint) bool {
	return oddBits(r.Num()) <= int(p)
}

// closeRel reports |got-want| <= 2^-(p-2) * |want|.
func closeRel(got, want *big.Rat, p uint) bool {
	return closeAbs(got, want, ratAbs(want), p)
}

// closeAbs reports |got-want| <= 2^-(p-2) * scale.
func closeAbs(got, want, scale *big.Rat, p uint) bool {
	d := new(big.Rat).Sub(got, want)
	d.Abs(d)
	if d.Sign() == 0 {
		return true
	}
	if p < 3 {
		p = 3
	}
	sh := new(big.Int).Lsh(big.NewInt(1), p-2)
	d.Mul(d, new(big.Rat).SetInt(sh))
	return d.Cmp(scale) <= 0
}

func ratOfFloat(f *big.Float) *big.Rat {
	r, _ := f.Rat(nil)
	if r == nil {
		r = new(big.Rat)
	}
	return r
}

func ratText(r *big.Rat) string {
	if r.IsInt() && r.Num().BitLen() < 400 {
		return r.Num().String()
	}
	f := new(big.Float).SetPrec(600).SetRat(r)
	return f.Text('g', 60)
}

func numText(n model.Num) string {
	if n.Inf != 0 {
		return n.String()
	}
	return ratText(n.R)
}

// compareArith checks a numeric result against the exact value. facet == "" means it agrees.
// rounded reports that an exact integer result that fits the documented 512 bits came back
// inexact (within tolerance): an observation, not a violation.
//
// exactBits is the mantissa width within which an exactly representable result must come back
// exact: the operand precision p in general; 512 for Multiply, whose documented precision
// selection (value_ops.go: "make sure we have enough precision for the product ... reduce the
// precision back to the greater argument, or the minimum required by the product"; CHANGELOG
// 1.7.1: "avoids generating incorrect results for large integer operands") keeps every product
// that fits the documented 512 bits.
func compareArith(got *big.Float, want model.Num, p, exactBits uint) (facet string, rounded bool) {
	if want.Inf != 0 {
		if !got.IsInf() {
			return "infinite result expected, got a finite number", false
		}
		if (got.Sign() < 0) != (want.Inf < 0) {
			return "infinity of the wrong sign", false
		}
		return "", false
	}
	if got.IsInf() {
		return "finite result expected, got an infinity", false
	}
	g := ratOfFloat(got)
	if g.Cmp(want.R) == 0 {
		return "", false
	}
	if fitsBits(want.R, p) {
		return "exact integer result expected (it fits in the operand precision)", false
	}
	if exactBits > p && dyadicFits(want.R, exactBits) {
		return "Multiply: a product that fits in 512 bits must be exact (documented precision selection)", false
	}
	if !closeRel(g, want.R, p) {
		return "result outside relative tolerance 2^-(p-2) of the exact value", false
	}
	return "", fitsBits(want.R, 512)
}

// moduloRef is the exact remainder of truncated division.
func moduloRef(a, b *big.Rat) (q *big.Int, r *big.Rat) {
	quo := new(big.Rat).Quo(a, b)
	q = new(big.Int).Quo(quo.Num(), quo.Denom()) // big.Int.Quo truncates toward zero
	r = new(big.Rat).Mul(b, new(big.Rat).SetInt(q))
	r.Sub(a, r)
	return q, r
}

// compareModulo checks Modulo on a finite receiver and a finite non-zero divisor.
func compareModulo(got *big.Float, a, b operand, p uint) (facet, class, detail string, tie bool) {
	q, r := moduloRef(a.n.R, b.n.R)
	detail = fmt.Sprintf("exact trunc(a/b)=%s (%d bits), exact remainder %s", clipText(q.String()), q.BitLen(), ratText(r))
	// root-cause class of the operand pair (used only when something fails)
	P := a.prec
	if b.prec > P {
		P = b.prec
	}
	bq := new(big.Rat).Mul(b.n.R, new(big.Rat).SetInt(q))
	switch {
	case q.BitLen() > int(P):
		class = "quotient-wider-than-max-operand-precision"
	case q.BitLen() > int(a.prec) || !dyadicFits(bq, a.prec):
		class = "receiver-precision-below-quotient-product"
	default:
		class = "precision-sufficient"
	}
	if got.IsInf() {
		return "Modulo: finite remainder expected, got an infinity", class, detail, false
	}
	g := ratOfFloat(got)
	if g.Cmp(r) == 0 {
		return "", class, detail, false
	}
	absB := ratAbs(b.n.R)
	scale := ratAbs(a.n.R)
	if absB.Cmp(scale) > 0 {
		scale = absB
	}
	zero := new(big.Rat)
	// vacuous: the quotient has more bits than the operands carry, so every value below the
	// divisor is within operand precision of the exact remainder; only exactness of integer
	// remainders and the magnitude bound can be demanded.
	vacuous := closeAbs(absB, zero, scale, p)
	// nearInteger: the exact quotient is within operand precision of an integer, so the
	// truncation may legitimately resolve to either neighbour.
	nearInteger := !vacuous && r.Sign() != 0 && (closeAbs(r, zero, scale, p) || closeAbs(ratAbs(r), absB, scale, p))
	altMatches := func() bool {
		for _, s := range []int64{1, -1} {
			alt := new(big.Rat).Mul(b.n.R, big.NewRat(s, 1))
			alt.Sub(r, alt)
			if closeAbs(g, alt, scale, p) {
				return true
			}
		}
		return false
	}
	if fitsBits(r, p) {
		if nearInteger && altMatches() {
			return "", class, detail, true
		}
		return "Modulo: exact integer remainder expected (it fits in the operand precision)", class, detail, false
	}
	if ratAbs(g).Cmp(absB) > 0 {
		return "Modulo: result magnitude exceeds the divisor", class, detail, false
	}
	if vacuous {
		return "", class + " (nothing but magnitude to assert)", detail, false
	}
	if closeAbs(g, r, scale, p) {
		return "", class, detail, false
	}
	if nearInteger && altMatches() {
		return "", class, detail, true
	}
	return "Modulo: result differs from a - b*trunc(a/b) beyond operand precision", class, detail, false
}

func clipText(s string) string {
	if len(s) > 80 {
		return s[:40] + "..." + s[len(s)-20:]
	}
	return s
}

// outcomeOf describes what a recorded (not asserted) call did.
func outcomeOf(out core.Outcome, res cty.Value, a operand) string {
	if out.Panicked {
		if _, ok := out.PanicVal.(big.ErrNaN); ok {
			return "panic big.ErrNaN"
		}
		if _, ok := out.PanicVal.(runtime.Error); ok {
			return "panic runtime error (" + core.PanicClass(out.PanicMsg) + ")"
		}
		return "panic " + core.PanicClass(out.PanicMsg)
	}
	if res.Type() != cty.Number || !res.IsKnown() || res.IsNull() {
		return "non-number"
	}
	f := res.AsBigFloat()
	switch {
	case f.IsInf() && f.Sign() > 0:
		return "+Inf"
	case f.IsInf():
		return "-Inf"
	case f.Sign() == 0:
		return "zero"
	case !a.isInf() && f.Cmp(a.f) == 0:
		return "the receiver"
	}
	return "other finite number"
}

// sampledRecorded limits the evidence samples of recorded (not asserted) classes to one per class.
var sampledRecorded = map[string]bool{}

func isErrNaN(out core.Outcome) bool {
	_, ok := out.PanicVal.(big.ErrNaN)
	return ok
}

// checkNum runs one numeric operation next to the reference. It returns whether the
// case was non-trivial (the reference defines the result and it was compared).
func checkNum(c *core.Ctx, idx int64, op numOp, a, b operand, sampled bool) bool {
	unary := op.arity == 1
	desc := func() string {
		if unary {
			return fmt.Sprintf("%s.%s()", a, op.name)
		}
		return fmt.Sprintf("%s.%s(%s)", a, op.name, b)
	}
	site := "Value." + op.name
	pairClass := a.class
	if !unary {
		pairClass = a.class + "/" + b.class
	}
	c.Begin(idx, desc)
	var res cty.Value
	out := core.Guard(func() { res = op.call(a.v, b.v) })
	c.Eval(1)
	c.Count("op:" + op.name)
	c.Count("receiver-class:" + a.class)
	if a.negZero || (!unary && b.negZero) {
		c.Count("neg-zero-operand:" + op.name)
	}
	if !out.Panicked {
		if w := mon.WellFormed(res); w != "" {
			c.CrossNote("C06", site+": "+w, desc())
		}
	}
	if !unary {
		checkRelational(c, op, a, b, res, out, desc)
	}
	ex := expect(op.name, a, b)
	p := maxPrec(a, b, unary)
	if ex.kind != expRecord && ex.class != "" {
		pairClass = ex.class
		c.Count("input-class:" + ex.class)
	}

	switch ex.kind {
	case expRecord:
		oc := outcomeOf(out, res, a)
		key := "recorded:" + ex.class + ":" + op.name + ": "
		switch ex.class {
		case "modulo-zero-divisor":
			want := "+Inf"
			if a.n.Sign() < 0 {
				want = "-Inf"
			}
			switch {
			case oc == want && a.n.Sign() != 0:
				key += "documented infinity"
			case oc == "the receiver" || (a.isZero() && oc == "zero") || (a.isInf() && (oc == "+Inf" || oc == "-Inf")):
				key += "returned the receiver (doc comment says +-Inf)"
			default:
				key += oc
			}
		default:
			key += oc
		}
		c.Count(key)
		if c.WantSample() && !sampled && idx >= baseCorpus && !sampledRecorded[ex.class] && len(sampledRecorded) < 2 {
			sampledRecorded[ex.class] = true
			c.Sample(map[string]any{"kind": "recorded-not-asserted", "class": ex.class, "call": desc(), "outcome": oc})
		}
		return false

	case expNaNPanic:
		c.Count("clause:documented-ErrNaN-panic")
		switch {
		case !out.Panicked:
			c.Violate(site, "documented big.ErrNaN panic missing (0/0 or inf/inf returned a value)", pairClass, desc(), fmt.Sprintf("returned %#v", res))
		case !isErrNaN(out):
			c.Violate(site, "panic is not a big.ErrNaN", pairClass, desc(), fmt.Sprintf("panic value %T: %s\n%s", out.PanicVal, out.PanicMsg, out.Stack))
		}
		return true
	}

	// a defined result: any panic is a violation
	if out.Panicked {
		c.Violate(site, "panic: "+core.PanicClass(out.PanicMsg), pairClass, desc(), fmt.Sprintf("reference result %s; panic: %s\n%s", expText(ex), out.PanicMsg, out.Stack))
		return true
	}
	wantTy := cty.Number
	if ex.kind == expBool {
		wantTy = cty.Bool
	}
	c.Count("clause:result-type")
	if !res.Type().Equals(wantTy) || !res.IsKnown() || res.IsNull() || res.IsMarked() {
		c.Violate(site, "result is not a known non-null value of the documented result type", pairClass, desc(), fmt.Sprintf("result %#v, want a known %#v", res, wantTy))
		return true
	}

	switch ex.kind {
	case expBool:
		c.Count("clause:exact-order")
		if ex.tie {
			c.Count("cmp:tie-by-documented-equality")
		}
		if a.isInf() && b.isInf() && a.n.Inf == b.n.Inf {
			c.Count("cmp:equal-infinities")
		}
		if res.True() != ex.b {
			cls := pairClass
			c.Violate(site, "comparison disagrees with the exact order", cls, desc(), fmt.Sprintf("returned %#v, exact order says %v (a=%s, b=%s)", res, ex.b, numText(a.n), numText(b.n)))
		}
	case expValue:
		got := res.AsBigFloat()
		if got.Sign() == 0 && got.Signbit() {
			c.Count("neg-zero-result:" + op.name)
		}
		exactBits := p
		if op.name == "Multiply" {
			exactBits = 512
		}
		facet, rounded := compareArith(got, ex.val, p, exactBits)
		if exactBits > p && ex.val.Inf == 0 && !fitsBits(ex.val.R, p) && dyadicFits(ex.val.R, exactBits) {
			c.Count("clause:multiply-product-fits-512-bits-exact")
		}
		switch {
		case ex.val.Inf != 0:
			c.Count("clause:infinite-result")
			if op.name == "Divide" && b.isZero() {
				c.Count("clause:divide-by-zero-sign")
			}
		case fitsBits(ex.val.R, p):
			c.Count("clause:exact-integer")
		default:
			c.Count("clause:relative-tolerance")
		}
		if facet != "" {
			c.Violate(site, facet, pairClass, desc(), fmt.Sprintf("returned %s (prec %d); exact %s; p=%d", got.Text('g', 60), got.Prec(), numText(ex.val), p))
		} else if rounded {
			c.Count("observed:integer-result-rounded-to-operand-precision:" + op.name)
			if c.WantSample() && idx >= baseCorpus {
				c.Sample(map[string]any{"kind": "observation", "class": "integer-result-rounded-to-operand-precision", "call": desc(),
					"returned": got.Text('f', 0), "exact": numText(ex.val)})
			}
		}
	case expModulo:
		got := res.AsBigFloat()
		if got.Sign() == 0 && got.Signbit() {
			c.Count("neg-zero-result:" + op.name)
		}
		facet, class, detail, tie := compareModulo(got, a, b, p)
		c.Count("clause:modulo-truncated-remainder")
		c.Count("modulo-pair:" + class)
		if tie {
			c.Count("modulo:quotient-within-precision-of-an-integer")
		}
		if facet != "" {
			c.Violate(site, facet, class, desc(), fmt.Sprintf("returned %s (prec %d); %s; p=%d", got.Text('g', 60), got.Prec(), detail, p))
		}
	}
	if sampled && c.WantSample() {
		c.Sample(map[string]any{"kind": "numeric", "call": desc(), "result": fmt.Sprintf("%#v", res), "reference": expText(ex)})
	}
	return true
}

// relational clauses: a result must not depend on which operand is the receiver. The partner
// call swaps the operands; the two LIBRARY results are compared exactly (big.Float.Cmp; the sign
// of a zero is not compared), no reference involved.
var relPartner = map[string]struct {
	partner string
	negate  bool
	facet   string
}{
	"Add":                  {"Add", false, "a.Add(b) differs from b.Add(a)"},
	"Multiply":             {"Multiply", false, "a.Multiply(b) differs from b.Multiply(a)"},
	"Subtract":             {"Subtract", true, "a.Subtract(b) differs from b.Subtract(a).Negate()"},
	"LessThan":             {"GreaterThan", false, "a.LessThan(b) differs from b.GreaterThan(a)"},
	"GreaterThan":          {"LessThan", false, "a.GreaterThan(b) differs from b.LessThan(a)"},
	"LessThanOrEqualTo":    {"GreaterThanOrEqualTo", false, "a.LessThanOrEqualTo(b) differs from b.GreaterThanOrEqualTo(a)"},
	"GreaterThanOrEqualTo": {"LessThanOrEqualTo", false, "a.GreaterThanOrEqualTo(b) differs from b.LessThanOrEqualTo(a)"},
}

func precRelation(a, b operand) string {
	switch {
	case a.prec < b.prec:
		return "receiver-narrower-than-argument"
	case a.prec > b.prec:
		return "receiver-wider-than-argument"
	}
	return "same-precision"
}

func checkRelational(c *core.Ctx, op numOp, a, b operand, res cty.Value, out core.Outcome, desc func() string) {
	rel, ok := relPartner[op.name]
	if !ok {
		return
	}
	partner := opByName(rel.partner)
	var sw cty.Value
	so := core.Guard(func() {
		sw = partner.call(b.v, a.v)
		if rel.negate {
			sw = sw.Negate()
		}
	})
	c.Eval(1)
	c.Count("clause:relational:" + op.name)
	site := "Value." + op.name
	class := precRelation(a, b)
	isVal := func(v cty.Value, ty cty.Type) bool {
		return v != cty.NilVal && v.Type() == ty && v.IsKnown() && !v.IsNull() && !v.IsMarked()
	}
	switch {
	case out.Panicked != so.Panicked:
		c.Violate(site, rel.facet+" (one call panics, the other returns)", class, desc(),
			fmt.Sprintf("this call: panicked=%v %s; swapped call: panicked=%v %s", out.Panicked, out.PanicMsg, so.Panicked, so.PanicMsg))
	case out.Panicked:
		c.Count("relational:both-calls-panic:" + op.name)
	case op.kind == "cmp":
		if isVal(res, cty.Bool) && isVal(sw, cty.Bool) && res.True() != sw.True() {
			c.Violate(site, rel.facet, class, desc(), fmt.Sprintf("this call %#v, swapped call %#v", res, sw))
		}
	default:
		if isVal(res, cty.Number) && isVal(sw, cty.Number) {
			x, y := res.AsBigFloat(), sw.AsBigFloat()
			if x.Cmp(y) != 0 {
				c.Violate(site, rel.facet, class, desc(),
					fmt.Sprintf("this call %s (prec %d), swapped call %s (prec %d)", x.Text('g', 60), x.Prec(), y.Text('g', 60), y.Prec()))
			}
		}
	}
}

func expText(ex expectation) string {
	switch ex.kind {
	case expBool:
		return fmt.Sprint(ex.b)
	case expValue:
		return numText(ex.val)
	case expModulo:
		return "a - b*trunc(a/b)"
	case expNaNPanic:
		return "panic big.ErrNaN"
	}
	return "(recorded)"
}

// checkZeroEquals asserts the one thing demanded of negative zero: it equals zero.
func checkZeroEquals(c *core.Ctx, idx int64, a, b operand) {
	desc := func() string { return fmt.Sprintf("%s.Equals(%s)", a, b) }
	c.Begin(idx, desc)
	var res cty.Value
	out := core.Guard(func() { res = a.v.Equals(b.v) })
	c.Eval(1)
	c.Count("op:Equals(zeros)")
	c.Count("clause:neg-zero-equals-zero")
	switch {
	case out.Panicked:
		c.Violate("Value.Equals", "panic: "+core.PanicClass(out.PanicMsg), "neg-zero", desc(), out.PanicMsg+"\n"+out.Stack)
	case !res.IsKnown() || res.IsNull() || res.Type() != cty.Bool || !res.True():
		c.Violate("Value.Equals", "negative zero does not equal zero", "neg-zero", desc(), fmt.Sprintf("returned %#v", res))
	}
}

// ---- number generators for the sampled part -----------------------------------------------------

var samplePrecs = []uint{32, 53, 64, 100, 200, 512}

func randBigInt(r *core.Rand, bits int) *big.Int {
	n := new(big.Int)
	for n.BitLen() < bits {
		n.Lsh(n, 64)
		n.Or(n, new(big.Int).SetUint64(r.Uint64()))
	}
	n.Rsh(n, uint(n.BitLen()-bits))
	if n.BitLen() < bits { // top bit must be set
		n.SetBit(n, bits-1, 1)
	}
	return n
}

// freshNumber draws a number that is not in the fixed pool; all are representable in 512 bits.
func freshNumber(r *core.Rand) gen.NumCase {
	switch r.Intn(9) {
	case 0:
		bits := 1 + r.Intn(200)
		n := randBigInt(r, bits)
		if r.Bool() {
			n.Neg(n)
		}
		return gen.NumCase{V: cty.NumberVal(new(big.Float).SetPrec(512).SetInt(n)), Class: "random-bigint", Exact: true}
	case 1:
		for {
			f := math.Float64frombits(r.Uint64())
			if !math.IsNaN(f) && !math.IsInf(f, 0) {
				return gen.NumCase{V: cty.NumberFloatVal(f), Class: "random-float64"}
			}
		}
	case 2:
		p := samplePrecs[r.Intn(len(samplePrecs))]
		m := randBigInt(r, 1+r.Intn(int(p)))
		if r.Bool() {
			m.Neg(m)
		}
		f := new(big.Float).SetPrec(p).SetInt(m)
		f.SetMantExp(f, r.Intn(401)-200-m.BitLen())
		return gen.NumCase{V: cty.NumberVal(f), Class: fmt.Sprintf("random-mantissa-p%d", p)}
	case 3:
		var sb strings.Builder
		if r.Bool() {
			sb.WriteByte('-')
		}
		for i, n := 0, 1+r.Intn(30); i < n; i++ {
			sb.WriteByte(byte('0' + r.Intn(10)))
		}
		if r.Chance(3, 4) {
			sb.WriteByte('.')
			for i, n := 0, 1+r.Intn(30); i < n; i++ {
				sb.WriteByte(byte('0' + r.Intn(10)))
			}
		}
		return gen.NumCase{V: cty.MustParseNumberVal(sb.String()), Class: "parsed-decimal"}
	case 4:
		// a float64 next to an integer or to a power of two
		k := r.Intn(60)
		f := math.Ldexp(1, k)
		switch r.Intn(4) {
		case 0:
			f = math.Nextafter(f, 0)
		case 1:
			f = math.Nextafter(f, math.Inf(1))
		case 2:
			f += 1
		}
		if r.Bool() {
			f = -f
		}
		return gen.NumCase{V: cty.NumberFloatVal(f), Class: "float64-near-power-of-two"}
	case 5:
		return gen.NumCase{V: cty.NumberIntVal(int64(r.Uint64())), Class: "random-int64", Exact: true}
	case 6:
		return gen.NumCase{V: cty.NumberUIntVal(r.Uint64()), Class: "random-uint64", Exact: true}
	}
	return gen.Number(r)
}

func sampledNumeric(c *core.Ctx, idx int64, r *core.Rand) {
	pick := func() operand {
		if r.Chance(1, 3) {
			return mkOperand(gen.Number(r))
		}
		return mkOperand(freshNumber(r))
	}
	a, b := pick(), pick()
	// a receiver that is itself the result of a library operation (odd precisions)
	if r.Chance(1, 3) {
		x := pick()
		pre := numOps[r.Intn(5)] // Add..Modulo
		var t cty.Value
		out := core.Guard(func() { t = pre.call(a.v, x.v) })
		if !out.Panicked && t.Type() == cty.Number && t.IsKnown() && !t.IsNull() {
			a = mkOperand(gen.NumCase{V: t, Class: "library-result-" + pre.name})
		}
	}
	// the same number stored at another precision (exactly, when the precision grows)
	if r.Chance(1, 8) && !a.isInf() {
		np := samplePrecs[r.Intn(len(samplePrecs))]
		b = mkOperand(gen.NumCase{V: cty.NumberVal(new(big.Float).SetPrec(np).Set(a.f)), Class: fmt.Sprintf("receiver-at-p%d", np)})
	}
	op := numOps[r.Intn(len(numOps))]
	nt := checkNum(c, idx, op, a, b, true)
	if op.arity == 1 {
		c.Distinct(fmt.Sprintf("%s|%s", op.name, a), nt)
	} else {
		c.Distinct(fmt.Sprintf("%s|%s|%s", op.name, a, b), nt)
	}
	if a.prec != b.prec && op.arity == 2 {
		c.Count("sampled:mixed-precision")
	}
}
