package c02

import (
	"fmt"

	"github.com/zclconf/go-cty/cty"

	"verif/harness/core"
)

// ---- boolean operations against enumerated truth tables (exhaustive) -------------------------------

type boolVariant struct {
	name string
	mk   func(b bool) cty.Value
}

// Every way this driver knows of obtaining a known boolean: the singletons, the
// constructor, and results of library operations.
var boolVariants = []boolVariant{
	{"singleton", func(b bool) cty.Value {
		if b {
			return cty.True
		}
		return cty.False
	}},
	{"BoolVal", func(b bool) cty.Value { return cty.BoolVal(b) }},
	{"comparison-result", func(b bool) cty.Value {
		if b {
			return cty.NumberIntVal(1).LessThan(cty.NumberIntVal(2))
		}
		return cty.NumberIntVal(2).LessThan(cty.NumberIntVal(1))
	}},
	{"Not-result", func(b bool) cty.Value { return cty.BoolVal(!b).Not() }},
	{"Equals-result", func(b bool) cty.Value {
		return cty.StringVal("a").Equals(cty.StringVal(map[bool]string{true: "a", false: "b"}[b]))
	}},
}

func runTruthTables(c *core.Ctx, base int64) {
	idx := base
	check := func(op string, a, b bool, va, vb boolVariant, unary bool) {
		idx++
		if !c.Want(idx) {
			return
		}
		x, y := va.mk(a), vb.mk(b)
		var want bool
		var call func() cty.Value
		switch op {
		case "Not":
			want, call = !a, func() cty.Value { return x.Not() }
		case "And":
			want, call = a && b, func() cty.Value { return x.And(y) }
		case "Or":
			want, call = a || b, func() cty.Value { return x.Or(y) }
		}
		desc := func() string {
			if unary {
				return fmt.Sprintf("%v[%s].%s()", a, va.name, op)
			}
			return fmt.Sprintf("%v[%s].%s(%v[%s])", a, va.name, op, b, vb.name)
		}
		c.Begin(idx, desc)
		var res cty.Value
		out := core.Guard(func() { res = call() })
		c.Eval(1)
		c.Count("op:" + op)
		c.Count("clause:truth-table")
		cls := fmt.Sprintf("%v", a)
		if !unary {
			cls = fmt.Sprintf("%v/%v", a, b)
		}
		switch {
		case out.Panicked:
			c.Violate("Value."+op, "panic: "+core.PanicClass(out.PanicMsg), cls, desc(), out.PanicMsg+"\n"+out.Stack)
		case !knownBool(res):
			c.Violate("Value."+op, "result is not a known non-null value of the documented result type", cls, desc(), fmt.Sprintf("returned %#v", res))
		case res.True() != want || res.False() == want || !res.RawEquals(cty.BoolVal(want)):
			c.Violate("Value."+op, "result disagrees with the truth table", cls, desc(), fmt.Sprintf("returned %#v, truth table says %v", res, want))
		}
		c.BulkDistinct(1)
	}
	for _, va := range boolVariants {
		for _, a := range []bool{false, true} {
			check("Not", a, false, va, va, true)
			for _, vb := range boolVariants {
				for _, b := range []bool{false, true} {
					check("And", a, b, va, vb, false)
					check("Or", a, b, va, vb, false)
				}
			}
		}
	}
	if c.Only < 0 {
		c.Exhaustive("truth tables of Not, And, Or over {false,true} x every way of obtaining a known boolean (singleton, BoolVal, comparison / Not / Equals results)")
	}
}

// ---- operands of the wrong type must be rejected, not answered ------------------------------------

type kindVal struct {
	kind string
	v    cty.Value
}

func kindValues() []kindVal {
	one := cty.NumberIntVal(1)
	return []kindVal{
		{"bool", cty.True},
		{"bool", cty.False},
		{"number", one},
		{"number", cty.Zero},
		{"number", cty.PositiveInfinity},
		{"string", cty.StringVal("1")},
		{"string", cty.StringVal("")},
		{"string", cty.StringVal("true")},
		{"list", cty.ListVal([]cty.Value{one})},
		{"list", cty.ListValEmpty(cty.Number)},
		{"list", cty.ListVal([]cty.Value{cty.True})},
		{"set", cty.SetVal([]cty.Value{one})},
		{"set", cty.SetValEmpty(cty.Bool)},
		{"map", cty.MapVal(map[string]cty.Value{"a": one})},
		{"map", cty.MapValEmpty(cty.Number)},
		{"tuple", cty.TupleVal([]cty.Value{one, cty.True})},
		{"tuple", cty.EmptyTupleVal},
		{"object", cty.ObjectVal(map[string]cty.Value{"a": one, "0": cty.True})},
		{"object", cty.EmptyObjectVal},
	}
}

func runWrongTypes(c *core.Ctx, base int64) {
	idx := base
	kvs := kindValues()
	mustPanic := func(site, class string, desc func() string, call func() any) {
		idx++
		if !c.Want(idx) {
			return
		}
		c.Begin(idx, desc)
		var res any
		out := guard(func() { res = call() })
		c.Eval(1)
		c.Count("op:" + site[len("Value."):])
		c.Count("clause:wrong-operand-type-rejected")
		c.BulkDistinct(1)
		if !out.Panicked {
			c.Violate(site, "operand of the wrong type yielded a value", class, desc(), fmt.Sprintf("returned %#v", res))
		} else {
			c.Count("rejected:" + site[len("Value."):] + ":" + rejectionKind(out))
		}
	}

	// numeric operations: at least one operand is not a number
	for _, op := range numOps {
		op := op
		for _, a := range kvs {
			if op.arity == 1 {
				if a.kind == "number" {
					continue
				}
				a := a
				mustPanic("Value."+op.name, a.kind, func() string { return fmt.Sprintf("%#v.%s()", a.v, op.name) },
					func() any { return op.call(a.v, cty.NilVal) })
				continue
			}
			for _, b := range kvs {
				if a.kind == "number" && b.kind == "number" {
					continue
				}
				a, b := a, b
				mustPanic("Value."+op.name, a.kind+"/"+b.kind, func() string { return fmt.Sprintf("%#v.%s(%#v)", a.v, op.name, b.v) },
					func() any { return op.call(a.v, b.v) })
			}
		}
	}
	// boolean operations: at least one operand is not a bool
	for _, a := range kvs {
		a := a
		if a.kind != "bool" {
			mustPanic("Value.Not", a.kind, func() string { return fmt.Sprintf("%#v.Not()", a.v) }, func() any { return a.v.Not() })
		}
		for _, b := range kvs {
			if a.kind == "bool" && b.kind == "bool" {
				continue
			}
			b := b
			mustPanic("Value.And", a.kind+"/"+b.kind, func() string { return fmt.Sprintf("%#v.And(%#v)", a.v, b.v) }, func() any { return a.v.And(b.v) })
			mustPanic("Value.Or", a.kind+"/"+b.kind, func() string { return fmt.Sprintf("%#v.Or(%#v)", a.v, b.v) }, func() any { return a.v.Or(b.v) })
		}
	}
	keys := []cty.Value{cty.NumberIntVal(0), cty.StringVal("a"), cty.StringVal("0"), cty.True}
	for _, a := range kvs {
		a := a
		// receivers that are not indexable (sets: docs/types.md and the method comment disagree; recorded elsewhere)
		if a.kind == "bool" || a.kind == "number" || a.kind == "string" || a.kind == "object" {
			for _, k := range keys {
				k := k
				mustPanic("Value.Index", a.kind+"-receiver", func() string { return fmt.Sprintf("%#v.Index(%#v)", a.v, k) }, func() any { return a.v.Index(k) })
				mustPanic("Value.HasIndex", a.kind+"-receiver", func() string { return fmt.Sprintf("%#v.HasIndex(%#v)", a.v, k) }, func() any { return a.v.HasIndex(k) })
			}
		}
		// keys of the wrong type on indexable receivers: Index must reject (HasIndex is documented to answer False; see the collection oracle)
		switch a.kind {
		case "list", "tuple":
			for _, k := range []cty.Value{cty.StringVal("0"), cty.True, cty.ListVal([]cty.Value{cty.NumberIntVal(0)})} {
				k := k
				mustPanic("Value.Index", a.kind+"/mistyped-key", func() string { return fmt.Sprintf("%#v.Index(%#v)", a.v, k) }, func() any { return a.v.Index(k) })
			}
		case "map":
			for _, k := range []cty.Value{cty.NumberIntVal(0), cty.True, cty.ListVal([]cty.Value{cty.StringVal("a")})} {
				k := k
				mustPanic("Value.Index", a.kind+"/mistyped-key", func() string { return fmt.Sprintf("%#v.Index(%#v)", a.v, k) }, func() any { return a.v.Index(k) })
			}
		}
		if a.kind != "object" {
			for _, name := range []string{"a", "0", ""} {
				name := name
				mustPanic("Value.GetAttr", a.kind+"-receiver", func() string { return fmt.Sprintf("%#v.GetAttr(%q)", a.v, name) }, func() any { return a.v.GetAttr(name) })
			}
		}
		if a.kind != "set" {
			for _, e := range []cty.Value{cty.NumberIntVal(1), cty.True, cty.StringVal("a")} {
				e := e
				mustPanic("Value.HasElement", a.kind+"-receiver", func() string { return fmt.Sprintf("%#v.HasElement(%#v)", a.v, e) }, func() any { return a.v.HasElement(e) })
			}
		}
		if a.kind == "bool" || a.kind == "number" || a.kind == "string" {
			mustPanic("Value.Length", a.kind+"-receiver", func() string { return fmt.Sprintf("%#v.Length()", a.v) }, func() any { return a.v.Length() })
			mustPanic("Value.LengthInt", a.kind+"-receiver", func() string { return fmt.Sprintf("%#v.LengthInt()", a.v) }, func() any { return a.v.LengthInt() })
			mustPanic("Value.ElementIterator", a.kind+"-receiver", func() string { return fmt.Sprintf("%#v.ElementIterator()", a.v) }, func() any { return a.v.ElementIterator() })
			mustPanic("Value.AsValueSlice", a.kind+"-receiver", func() string { return fmt.Sprintf("%#v.AsValueSlice()", a.v) }, func() any { return a.v.AsValueSlice() })
			mustPanic("Value.AsValueMap", a.kind+"-receiver", func() string { return fmt.Sprintf("%#v.AsValueMap()", a.v) }, func() any { return a.v.AsValueMap() })
		}
	}
	if c.Only < 0 {
		c.Exhaustive("wrong-operand-type matrix: every operation x every operand kind combination that the documentation excludes (fixed representatives of bool, number, string, list, set, map, tuple, object)")
	}
}
