package c02

import (
	"fmt"
	"math"
	"math/big"

	"github.com/zclconf/go-cty/cty"
	"golang.org/x/text/unicode/norm"

	"verif/harness/core"
	"verif/harness/gen"
)

// The fixed, seed-independent corpus: boundary cases written from reading
// cty/value_ops.go, plus the witness of every genuine defect this driver found.
// It runs in batch 0 of every run, so a repaired defect is re-detected if it returns.

type numCorpusEntry struct {
	op   string
	a, b cty.Value
	note string
}

func pf(s string) cty.Value { return cty.MustParseNumberVal(s) }

func fprec(prec uint, s string) cty.Value {
	f, _, err := big.ParseFloat(s, 10, prec, big.ToNearestEven)
	if err != nil {
		panic(err)
	}
	return cty.NumberVal(f)
}

func pow2v(n int) cty.Value {
	f := new(big.Float).SetPrec(512).SetInt64(1)
	return cty.NumberVal(f.SetMantExp(f, n))
}

func numCorpus() []numCorpusEntry {
	n := cty.NumberIntVal
	fl := cty.NumberFloatVal
	negZeroA := cty.Zero.Negate()
	negZeroB := fl(math.Copysign(0, -1))
	negZeroC := pf("-0")
	negZeroD := n(0).Multiply(n(-1))
	var es []numCorpusEntry
	add := func(op string, a, b cty.Value, note string) { es = append(es, numCorpusEntry{op, a, b, note}) }

	// F-14: division by zero; the sign is documented to follow the receiver
	for _, nz := range []cty.Value{negZeroA, negZeroB, negZeroC, negZeroD} {
		add("Divide", n(2), nz, "F-14 (fixed 47ed13c) positive / -0")
		add("Divide", n(-2), nz, "F-14 negative / -0")
		add("Divide", cty.PositiveInfinity, nz, "F-14 +Inf / -0")
		add("Divide", fl(0.5), nz, "F-14 fraction / -0")
		add("Divide", nz, cty.Zero, "-0 / 0 must panic ErrNaN")
		add("Divide", cty.Zero, nz, "0 / -0 must panic ErrNaN")
		add("Divide", nz, n(5), "-0 / 5")
		add("Modulo", nz, n(5), "-0 % 5")
		add("Modulo", n(5), nz, "5 % -0 (recorded)")
		add("LessThan", nz, cty.Zero, "-0 < 0 is false")
		add("GreaterThanOrEqualTo", nz, cty.Zero, "-0 >= 0")
		add("Add", nz, cty.Zero, "-0 + 0")
		add("Multiply", nz, n(3), "-0 * 3")
	}
	add("Divide", n(2), cty.Zero, "2/0 = +Inf")
	add("Divide", n(-2), cty.Zero, "-2/0 = -Inf")
	add("Divide", pf("-1e-40"), cty.Zero, "tiny negative / 0")
	add("Divide", n(2), new0(0), "2 / zero of precision 0")
	add("Divide", cty.Zero, cty.Zero, "0/0 must panic ErrNaN")
	add("Divide", cty.PositiveInfinity, cty.NegativeInfinity, "inf/-inf must panic ErrNaN")
	add("Divide", fl(math.Inf(1)), cty.PositiveInfinity, "fresh inf / inf must panic ErrNaN")
	add("Divide", n(1), cty.NegativeInfinity, "1/-inf = 0")
	add("Divide", cty.NegativeInfinity, n(-3), "-inf/-3 = +inf")
	add("Divide", n(1), n(3), "1/3 at 64 bits")
	add("Divide", pf("1"), n(3), "1/3 at 512 bits")
	add("Divide", n(6), fl(3), "exact quotient")

	// Modulo: truncated division; precision of the floor step (value_ops.go Modulo, "FIXME: a bit clumsy")
	add("Modulo", pow2v(600), n(65535), "F-50 (fixed 1320825) quotient wider than 512 bits: exact remainder 256")
	add("Modulo", fl(1e23), n(65535), "F-50 (fixed 1320825) receiver 53 bits, quotient 61 bits: exact remainder 61247")
	add("Modulo", n(math.MaxInt64), pf("0.12345678905"), "F-50 (fixed 1320825) result exceeds the divisor")
	add("Modulo", fprec(32, "-9.787954735e55"), fprec(53, "-2.053742361684148e-25"), "F-50 (fixed 1320825) 32-bit receiver, result exceeds the divisor")
	add("Modulo", fl(1e300), n(7), "F-50 (fixed 1320825) 1e300 % 7: exact remainder 1")
	add("Modulo", fl(72057594037927952), n(10), "float64 receiver 2^56+16 % 10 = 2")
	add("Modulo", fl(1<<53), n(3), "2^53 % 3 = 2")
	add("Modulo", fl(float64(1<<62)*4), n(10), "2^64 as float64 % 10 = 6")
	add("Modulo", pf("967323432120515089486873574508975134568969931547"), n(10), "repository test row")
	add("Modulo", pf("1000000000000000000000000000000"), n(7), "10^30 % 7 = 1")
	add("Modulo", n(math.MaxInt64), n(10), "MaxInt64 % 10 = 7")
	add("Modulo", cty.NumberUIntVal(math.MaxUint64), n(10), "MaxUint64 % 10 = 5")
	add("Modulo", n(math.MinInt64), n(-1), "MinInt64 % -1 = 0")
	add("Modulo", n(11), n(2), "11 % 2 = 1")
	add("Modulo", n(-11), n(2), "-11 % 2 = -1 (truncated, not floored)")
	add("Modulo", n(11), n(-2), "11 % -2 = 1")
	add("Modulo", n(-11), n(-2), "-11 % -2 = -1")
	add("Modulo", fl(-5.5), n(2), "-5.5 % 2 = -1.5")
	add("Modulo", fl(5.5), n(-2), "5.5 % -2 = 1.5")
	add("Modulo", n(5), fl(1.5), "5 % 1.5 = 0.5")
	add("Modulo", n(5), fl(0.5), "5 % 0.5 = 0")
	add("Modulo", n(1), n(3), "1 % 3 = 1")
	add("Modulo", n(3), n(3), "3 % 3 = 0")
	add("Modulo", n(10), fl(0.1), "10 % 0.1(float64)")
	add("Modulo", n(5), pf("0.1"), "5 % 0.1 (512 bit divisor, 64 bit receiver)")
	add("Modulo", pf("5"), pf("0.1"), "5 % 0.1 all 512 bit")
	add("Modulo", n(5), cty.Zero, "x % 0 (recorded)")
	add("Modulo", n(5), cty.PositiveInfinity, "5 % inf (recorded)")
	add("Modulo", cty.PositiveInfinity, n(5), "inf % 5 (recorded)")
	add("Modulo", fl(math.Inf(1)), n(5), "fresh inf % 5 (recorded)")
	add("Modulo", n(5), fl(math.Inf(-1)), "5 % fresh -inf (recorded)")

	// Multiply: precision selection (512-bit product, then max(operand precision, MinPrec))
	p256 := pow2v(256).Add(pf("1"))
	p255 := pow2v(255).Add(pf("1"))
	add("Multiply", p256, p256, "(2^256+1)^2 needs 513 bits: rounded")
	add("Multiply", p255, p255, "(2^255+1)^2 needs 511 bits: exact")
	add("Multiply", cty.NumberUIntVal(math.MaxUint64), cty.NumberUIntVal(math.MaxUint64), "MaxUint64^2: 128 bits, exact")
	add("Multiply", n(math.MaxInt64), n(math.MaxInt64), "MaxInt64^2 exact")
	add("Multiply", n(math.MinInt64), n(math.MinInt64), "MinInt64^2 = 2^126")
	add("Multiply", fl(0.1), n(3), "0.1*3")
	add("Multiply", fl(0.1), pf("0.1"), "float64 x 512 bit")
	add("Multiply", fl(1e300), fl(1e300), "1e600")
	add("Multiply", fl(math.SmallestNonzeroFloat64), fl(math.SmallestNonzeroFloat64), "denormal squared")
	add("Multiply", fprec(32, "3"), fprec(32, "1431655765"), "32-bit operands, product needs 33 bits")
	add("Multiply", cty.PositiveInfinity, n(-1), "inf * -1")
	add("Multiply", cty.Zero, cty.PositiveInfinity, "0 * inf (recorded)")
	add("Multiply", fl(math.Inf(-1)), fl(math.Inf(-1)), "-inf * -inf")

	// Add / Subtract: result precision is the larger operand precision
	add("Add", n(math.MaxInt64), n(1), "2^63 exact")
	add("Add", cty.NumberUIntVal(math.MaxUint64), n(1), "2^64 exact (1 bit)")
	add("Add", cty.NumberUIntVal(math.MaxUint64), n(2), "2^64+1 needs 65 bits at precision 64: rounded (observation)")
	add("Add", cty.NumberUIntVal(math.MaxUint64), pf("2"), "2^64+1 with a 512-bit operand: exact")
	add("Add", fl(0.1), fl(0.2), "0.1+0.2")
	add("Add", fl(1e16), fl(1), "1e16+1 at 53 bits")
	add("Add", fl(1e16), n(1), "1e16+1 at 64 bits: exact")
	add("Add", pf("1e-40"), n(1), "1+1e-40 at 512 bits")
	add("Add", fprec(32, "4294967295"), fprec(32, "1"), "32-bit operands, 2^32")
	add("Add", fprec(32, "4294967295"), fprec(32, "2"), "32-bit operands, 2^32+1 does not fit")
	add("Add", cty.PositiveInfinity, cty.NegativeInfinity, "inf + -inf (recorded)")
	add("Add", cty.PositiveInfinity, cty.PositiveInfinity, "inf + inf")
	add("Add", cty.NegativeInfinity, n(5), "-inf + 5")
	add("Subtract", cty.PositiveInfinity, cty.PositiveInfinity, "inf - inf (recorded)")
	add("Subtract", cty.PositiveInfinity, cty.NegativeInfinity, "inf - -inf")
	add("Subtract", n(math.MinInt64), n(1), "-(2^63+1) needs 64 bits")
	add("Subtract", fl(0.3), fl(0.1), "cancellation")
	add("Subtract", pf("1.0000000000000000000000000000000000001"), n(1), "cancellation 512/64")
	add("Subtract", n(5), n(5), "x - x = 0")
	add("Subtract", fl(2), n(-(math.MaxInt64 - 2)), "seeded change 1: 53-bit receiver, 64-bit argument, sum MaxInt64 must be exact")
	add("Subtract", n(-(math.MaxInt64 - 2)), fl(2), "seeded change 1 reversed")
	add("Subtract", fl(1), pf("0.1"), "53-bit receiver minus 512-bit argument: result at 512 bits")
	add("Add", fl(2), n(math.MaxInt64-2), "53-bit receiver plus 64-bit argument = MaxInt64")
	add("Divide", fl(1), pf("3"), "53-bit receiver / 512-bit argument: quotient at 512 bits")
	add("Negate", n(math.MinInt64), cty.NilVal, "-MinInt64")
	add("Negate", cty.Zero, cty.NilVal, "-0")
	add("Negate", cty.NegativeInfinity, cty.NilVal, "-(-inf)")
	add("Absolute", n(math.MinInt64), cty.NilVal, "|MinInt64|")
	add("Absolute", negZeroA, cty.NilVal, "|-0|")
	add("Absolute", cty.NegativeInfinity, cty.NilVal, "|-inf|")
	add("Absolute", pf("-0.1"), cty.NilVal, "|-0.1|")

	// comparisons
	for _, op := range []string{"LessThan", "GreaterThan", "LessThanOrEqualTo", "GreaterThanOrEqualTo"} {
		add(op, cty.PositiveInfinity, cty.PositiveInfinity, "equal infinities")
		add(op, cty.NegativeInfinity, cty.NegativeInfinity, "equal infinities")
		add(op, cty.PositiveInfinity, fl(math.Inf(1)), "singleton vs fresh infinity")
		add(op, fl(math.Inf(-1)), cty.NegativeInfinity, "fresh vs singleton infinity")
		add(op, cty.NegativeInfinity, cty.PositiveInfinity, "-inf vs +inf")
		add(op, fl(math.MaxFloat64), cty.PositiveInfinity, "max float vs inf")
		add(op, cty.Zero, negZeroB, "0 vs -0")
		add(op, fl(0.1), pf("0.1"), "float64 0.1 vs 512-bit 0.1 (documented-equal, exactly greater)")
		add(op, pf("0.1"), fl(0.1), "512-bit 0.1 vs float64 0.1")
		add(op, fl(1.00000000001), pf("1.00000000001"), "F-47 pair")
		add(op, n(3), pf("3"), "same integer, other precision")
		add(op, fl(0.1), cty.NumberVal(new(big.Float).SetPrec(512).SetFloat64(0.1)), "F-120 (fixed 0c5f415) same fraction at 53 and 512 bits (Equals is False)")
		add(op, cty.NumberVal(new(big.Float).SetPrec(512).SetFloat64(0.0005032122135162354)), fl(0.0005032122135162354), "F-120 (fixed 0c5f415) same fraction at 512 and 53 bits")
		add(op, fl(0.1).Multiply(n(1)), fl(0.1), "F-120 (fixed 0c5f415) x*1 vs x: same value at 64 and 53 bits")
		add(op, fl(0.5), pf("0.5"), "same short fraction at 53 and 512 bits (Equals is True)")
		add(op, n(math.MaxInt64), cty.NumberUIntVal(1<<63), "2^63-1 vs 2^63")
		add(op, fl(float64(1<<62)*2), n(math.MaxInt64), "2^63 (float64) vs MaxInt64")
		add(op, pf("0.123456789049999"), pf("0.1234567890500001"), "neighbours around the 10-digit boundary")
		add(op, n(-1), n(1), "-1 vs 1")
		add(op, pf("-1e-40"), cty.Zero, "tiny negative vs 0")
	}
	return es
}

func new0(prec uint) cty.Value { return cty.NumberVal(new(big.Float).SetPrec(prec)) }

func collCorpus() []collCase {
	n := cty.NumberIntVal
	s := cty.StringVal
	r := core.NewRand(20260929)
	nfd := func(x string) string { return norm.NFD.String(x) }
	var out []collCase
	add := func(label string, cc collCase) { cc.label = label; out = append(out, cc) }
	seq := func(kind string, ety cty.Type, members ...cty.Value) collCase {
		m := collModel{kind: kind, ety: ety, seq: members}
		return collCase{m: m, keys: seqKeys(r, len(members), true)}
	}
	keyed := func(kind string, ety cty.Type, kvs ...any) collCase {
		m := collModel{kind: kind, ety: ety}
		for i := 0; i+1 < len(kvs); i += 2 {
			m.keys = append(m.keys, kvs[i].(string))
			m.vals = append(m.vals, kvs[i+1].(cty.Value))
		}
		cc := collCase{m: m}
		if kind == "map" {
			cc.keys = mapKeys(r, m)
			cc.keys = append(cc.keys, otherKey(cty.ListVal([]cty.Value{s("a")}), "list-key"))
		} else {
			for _, k := range m.keys {
				cc.attrs = append(cc.attrs, k, norm.NFC.String(k), nfd(k), k+"x")
			}
			cc.attrs = append(cc.attrs, absentKeyPool...)
			cc.keys = []probeKey{strKey("a", "string-key-on-object"), intKey(0, "number-key-on-object")}
		}
		return cc
	}
	set := func(ety cty.Type, members []cty.Value, cands ...cty.Value) collCase {
		m := collModel{kind: "set", ety: ety, seq: members}
		cc := collCase{m: m, cands: append(append([]cty.Value(nil), members...), cands...)}
		cc.cands = append(cc.cands, cty.NullVal(ety), cty.TupleVal(members))
		cc.keys = []probeKey{intKey(0, "number-key-on-set")}
		if len(members) > 0 {
			cc.keys = append(cc.keys, otherKey(members[0], "member-as-key-on-set"))
		}
		return cc
	}

	// F-49 witness: Index on a map with a key that is absent yields a null instead of being rejected
	add("F-49 (fixed 2df8f8f) map Index absent key", keyed("map", cty.Number, "a", n(1)))
	add("map with empty-string key", keyed("map", cty.String, "", s("empty"), "a", s("A")))
	add("map offered an NFD key", keyed("map", cty.Number, nfd("é"), n(1), "k", n(2)))
	add("map of null members", keyed("map", cty.Bool, "a", cty.NullVal(cty.Bool), "b", cty.True))
	add("map of lists", keyed("map", cty.List(cty.Number), "a", cty.ListVal([]cty.Value{n(1), n(2)}), "b", cty.ListValEmpty(cty.Number)))
	add("empty map", keyed("map", cty.String))
	add("map keys in byte order", keyed("map", cty.Number, "b", n(2), "a", n(1), "B", n(3), "", n(0), "é", n(4), "aa", n(5)))

	add("empty list", seq("list", cty.String))
	add("list of one", seq("list", cty.Number, n(7)))
	add("list of two", seq("list", cty.Number, n(1), n(2)))
	add("list of six", seq("list", cty.String, s("a"), s("b"), s("c"), s("d"), s("e"), s("f")))
	add("list with duplicates and nulls", seq("list", cty.Number, n(1), cty.NullVal(cty.Number), n(1), cty.NullVal(cty.Number)))
	add("list of empty lists", seq("list", cty.List(cty.Bool), cty.ListValEmpty(cty.Bool), cty.ListVal([]cty.Value{cty.True})))
	add("list of objects", seq("list", cty.Object(map[string]cty.Type{"a": cty.Number}),
		cty.ObjectVal(map[string]cty.Value{"a": n(1)}), cty.ObjectVal(map[string]cty.Value{"a": n(2)})))
	add("list of non-canonical numbers", seq("list", cty.Number, cty.NumberFloatVal(0.1), pf("0.1"), cty.Zero.Negate(), cty.PositiveInfinity))

	add("empty tuple", seq("tuple", cty.NilType))
	add("tuple of two types", seq("tuple", cty.NilType, n(1), s("x")))
	add("tuple with null and nested", seq("tuple", cty.NilType, cty.NullVal(cty.String), cty.ListVal([]cty.Value{n(1)}), cty.EmptyObjectVal, cty.True))

	add("empty object", keyed("object", cty.NilType))
	add("object one attribute", keyed("object", cty.NilType, "a", n(1)))
	add("object NFD attribute name", keyed("object", cty.NilType, nfd("é"), s("x"), "", cty.True, "long-key", cty.NullVal(cty.Number)))
	add("object nested", keyed("object", cty.NilType, "a", cty.ObjectVal(map[string]cty.Value{"a": n(1)}), "b", cty.TupleVal([]cty.Value{n(1), s("x")})))

	add("empty set", set(cty.Number, nil, n(0)))
	add("set of numbers, candidates at other precisions", set(cty.Number, []cty.Value{n(1), n(2), cty.NumberFloatVal(0.5)},
		pf("1"), cty.NumberFloatVal(2), pf("0.5"), n(3), cty.NumberFloatVal(0.25), s("1"), cty.True))
	add("set of zeros", set(cty.Number, []cty.Value{cty.Zero}, cty.Zero.Negate(), cty.NumberFloatVal(math.Copysign(0, -1)), pf("0")))
	add("set with a null member", set(cty.String, []cty.Value{s("a"), cty.NullVal(cty.String)}, s("b"), s("")))
	add("set of strings, NFD candidates", set(cty.String, []cty.Value{s("é"), s("a")}, s(nfd("é")), s("e"), s("A")))
	add("set of lists", set(cty.List(cty.Number), []cty.Value{cty.ListVal([]cty.Value{n(1)}), cty.ListValEmpty(cty.Number), cty.ListVal([]cty.Value{n(1), n(2)})},
		cty.ListVal([]cty.Value{n(2)}), cty.ListVal([]cty.Value{pf("1")}), cty.TupleVal([]cty.Value{n(1)})))
	add("set of objects", set(cty.Object(map[string]cty.Type{"a": cty.Number}), []cty.Value{cty.ObjectVal(map[string]cty.Value{"a": n(1)})},
		cty.ObjectVal(map[string]cty.Value{"a": n(2)}), cty.ObjectVal(map[string]cty.Value{"a": pf("1")}), cty.MapVal(map[string]cty.Value{"a": n(1)})))
	add("set of bools", set(cty.Bool, []cty.Value{cty.True}, cty.False))
	add("set of float64 fractions, 512-bit candidates", set(cty.Number, []cty.Value{cty.NumberFloatVal(0.1), cty.NumberFloatVal(0.12345678905)},
		pf("0.1"), pf("0.12345678905"), pf("0.1234567890500001")))
	return out
}

func runCorpus(c *core.Ctx, base int64) {
	idx := base
	for _, e := range numCorpus() {
		idx++
		if !c.Want(idx) {
			continue
		}
		a := mkOperand(gen.NumCase{V: e.a, Class: "corpus"})
		b := a
		if e.b != cty.NilVal {
			b = mkOperand(gen.NumCase{V: e.b, Class: "corpus"})
		}
		op := opByName(e.op)
		nt := checkNum(c, idx, op, a, b, false)
		c.Count("corpus:numeric-cases")
		if op.arity == 1 {
			c.Distinct(fmt.Sprintf("%s|%s", op.name, a), nt)
		} else {
			c.Distinct(fmt.Sprintf("%s|%s|%s", op.name, a, b), nt)
		}
	}
	idx = base + 100_000
	for _, cc := range collCorpus() {
		idx++
		if !c.Want(idx) {
			continue
		}
		checkColl(c, idx, cc, false)
		c.Count("corpus:collection-cases")
	}
}
