// Package c02: core operations compute the documented result on known values.
//
// Reference-model monitor: every operation method runs on wholly known,
// non-null operands next to an independent reference (exact extended
// rationals on math/big.Rat for numbers, enumerated truth tables for
// booleans, the plain Go slices/maps a collection was built from).
package c02

import (
	"verif/harness/core"
	"verif/harness/gen"
)

type Driver struct{}

func (Driver) ID() string { return "C02" }

func (Driver) Info() core.Info {
	return core.Info{
		Title: "core operations compute the documented result on known values",
		Rule: "numeric case = (operation, receiver, argument) with both numbers tagged by class and precision: ALL ordered pairs of the fixed boundary pool " +
			"(gen.NumberPool; thorough: extended to 400 numbers) x {Add,Subtract,Multiply,Divide,Modulo,Negate,Absolute,LessThan,GreaterThan,LessThanOrEqualTo,GreaterThanOrEqualTo}, " +
			"plus sampled pairs mixing precisions 32..512 bit, random float64, random big integers, parsed decimals and results of earlier library operations; " +
			"boolean case = full truth tables; collection case = a list/set/map/tuple/object of size 0..6 built from generated Go slices/maps of wholly known members (nested to depth 2, " +
			"NFC/NFD twin keys), then every accessor and a probe set of keys in and out of range; plus a fixed wrong-operand-type matrix and a fixed corpus. " +
			"distinct = hash of (operation, printable operands incl. precision) resp. (kind, printable members, keys); non-trivial = the result was compared with the reference " +
			"(numeric: exact arithmetic defines the result; collection: at least one member)",
		Assumptions: []string{
			"tolerance for Add/Subtract/Multiply/Divide/Negate/Absolute: relative error <= 2^-(p-2), p = smaller operand precision; exact when the exact result is an integer whose significant bits fit in p",
			"numbers are within the documented domain: representable in at most 512 bits of mantissa (no NaN); generated precisions 32..512",
			"Modulo (finite receiver, finite non-zero divisor): exact when the exact remainder is an integer fitting in p bits; |result| <= |divisor|; otherwise within 2^-(p-2) of the larger operand magnitude (the remainder is computed by cancellation), and a quotient within operand precision of an integer may resolve to either neighbour",
			"LessThanOrEqualTo/GreaterThanOrEqualTo are documented as LessThan/GreaterThan OR Equals: two numbers that are documented-equal (same shortest decimal text) although exactly different, and that lie within operand precision of each other, count as a tie",
			"negative zero is treated as zero; the sign of a zero result is not asserted; x/(-0) is recorded in class neg-zero-divisor (F-14), not asserted",
			"recorded, not asserted (nothing documented or documentation contradicts itself): inf-inf, 0*inf, Modulo with a zero divisor (doc comment says +-Inf, implementation and its test return the receiver), Modulo with an infinite operand, Index/HasIndex on a set, Length of an object",
			"set members and HasElement candidates use canonical numbers (small ints, 0.5) so that C03's hash defects are not re-reported here; duplicates are not offered to SetVal (documented as undefined)",
		},
		MinNontrivial: 5000,
	}
}

func (Driver) Batches(tier string) int {
	if tier == "thorough" {
		return 64
	}
	return 16
}

const (
	basePairs  = int64(1_000_000_000)
	baseTruth  = int64(2_000_000_000)
	baseWrong  = int64(2_100_000_000)
	baseCorpus = int64(3_000_000_000)
)

func (Driver) Run(c *core.Ctx) {
	if c.Batch == 0 {
		// corpus first: its observation samples are the ones worth keeping
		runCorpus(c, baseCorpus)
		runTruthTables(c, baseTruth)
		runWrongTypes(c, baseWrong)
	}
	runPairTable(c, basePairs)
	runSampled(c)
}

// pool returns the number pool of this tier: the fixed boundary pool, extended
// in the thorough tier to 400 numbers by a stream that is the same in every batch.
func pool(c *core.Ctx) []operand {
	p := gen.NumberPool()
	out := make([]operand, 0, 400)
	for _, nc := range p {
		out = append(out, mkOperand(nc))
	}
	if !c.Quick() {
		r := c.GlobalRNG("c02-pool")
		for len(out) < 400 {
			out = append(out, mkOperand(freshNumber(r)))
		}
	}
	return out
}

func runPairTable(c *core.Ctx, base int64) {
	ps := pool(c)
	L := int64(len(ps))
	slots := int64(len(numOps) + 1)
	var done int64
	for i := int64(0); i < L; i++ {
		for j := int64(0); j < L; j++ {
			k := i*L + j
			if !c.Mine(k) {
				continue
			}
			a, b := ps[i], ps[j]
			for oi, op := range numOps {
				idx := base + k*slots + int64(oi)
				if !c.Want(idx) {
					continue
				}
				if op.arity == 1 && j != 0 {
					continue // unary operations see every pool element once
				}
				checkNum(c, idx, op, a, b, false)
				done++
			}
			if a.isZero() && b.isZero() && (a.negZero || b.negZero) {
				idx := base + k*slots + int64(len(numOps))
				if c.Want(idx) {
					checkZeroEquals(c, idx, a, b)
					done++
				}
			}
		}
	}
	c.BulkDistinct(done)
	if c.Only < 0 {
		c.Exhaustive("all ordered pairs of the number pool x 11 numeric operations (this batch's share)")
	}
}

func runSampled(c *core.Ctx) {
	n := int64(c.N(6000, 60000))
	for i := int64(0); i < n; i++ {
		if !c.Want(i) {
			continue
		}
		r := c.RNG(i)
		if r.Chance(2, 5) {
			sampledNumeric(c, i, r)
		} else {
			sampledCollection(c, i, r)
		}
	}
}
