// Package c02: core operations compute the documented result on known values.
//
// Reference-model monitor: every operation method runs on wholly known,
// non-null operands next to an independent reference (exact extended
// rationals on math/big.Rat for numbers, enumerated truth tables for
// booleans, the plain Go slices/maps a collection was built from).
package c02

import (
	"fmt"
	"math/big"

	"github.com/zclconf/go-cty/cty"

	"verif/harness/core"
	"verif/harness/gen"
)

type Driver struct{}

func (Driver) ID() string { return "C02" }

func (Driver) Info() core.Info {
	return core.Info{
		Title: "core operations compute the documented result on known values",
		Rule: "numeric case = (operation, receiver, argument) with both numbers tagged by class and precision: ALL ordered pairs of the fixed boundary pool " +
			"(gen.NumberPool plus the same fractions at 64/512 bits; thorough: extended to 400 numbers) x {Add,Subtract,Multiply,Divide,Modulo,Negate,Absolute,LessThan,GreaterThan,LessThanOrEqualTo,GreaterThanOrEqualTo}, " +
			"plus sampled pairs mixing precisions 32..512 bit, random float64, random big integers, parsed decimals, results of earlier library operations and the receiver itself at another precision; " +
			"boolean case = full truth tables over every way of obtaining a known boolean; collection case = a list/set/map/tuple/object of size 0..6 built from generated Go slices/maps of wholly known members " +
			"(nested to depth 2, null members, NFC/NFD twin keys), then Length, LengthInt, ElementIterator, AsValueSlice, AsValueMap, AsValueSet and, for a probe set of keys in and out of range " +
			"(-2..len+2, fractions, 2^32..2^70, infinities, -0, other precisions, NFC/NFD spellings, near misses, wrong-typed keys), HasIndex next to Index / GetAttr / HasElement; " +
			"plus a fixed wrong-operand-type matrix and a fixed corpus holding the witness of every defect found. " +
			"distinct = hash of (operation, printable operands incl. precision) resp. (kind, printable members, keys); non-trivial = the result was compared with the reference " +
			"(numeric: exact arithmetic defines the result; collection: at least one member)",
		Assumptions: []string{
			"reference = exact extended rationals (math/big.Rat) for numbers, enumerated truth tables for booleans, the Go slice/map a collection was built from (keys NFC-normalised with x/text) for collections; returned members are compared with the members put in by type, documented equality (mon.ModelEqual) and RawEquals",
			"tolerance for Add/Subtract/Multiply/Divide/Negate/Absolute: relative error <= 2^-(p-2), p = the LARGER operand precision (every operation computes at least at that precision); exact when the exact result is an integer whose significant bits fit in p. An integer sum that needs more bits than either operand carries (MaxUint64+2 at 64/64 bits) may come back rounded: counted as an observation",
			"relational clauses, decided by exact comparison of two library results (no reference): a.Add(b) = b.Add(a), a.Multiply(b) = b.Multiply(a), a.Subtract(b) = b.Subtract(a).Negate(), a<b iff b>a, a<=b iff b>=a (and that both calls panic or neither does); the sign of a zero is not compared",
			"Multiply additionally: a product that fits in 512 bits must be exact (its documented precision selection: in-code comments and CHANGELOG 1.7.1)",
			"numbers are within the documented domain: representable in at most 512 bits of mantissa (no NaN); generated precisions 32..512",
			"Modulo (finite receiver, finite non-zero divisor): exact when the exact remainder is an integer fitting in p bits; |result| <= |divisor|; otherwise within 2^-(p-2) of the larger operand magnitude, and a quotient within operand precision of an integer may resolve to either neighbour",
			"LessThanOrEqualTo/GreaterThanOrEqualTo are documented as LessThan/GreaterThan OR Equals: two numbers that are documented-equal (same shortest decimal text) although exactly different, and that lie within operand precision of each other, count as a tie (this tie rule alone uses the SMALLER operand precision); two numbers with exactly the same value must compare <= and >= (class exactly-equal-fractions-at-different-precisions)",
			"negative zero is exactly zero: x/(-0) must give the infinity with the sign of x as documented for a zero divisor (class neg-zero-divisor, F-14); the sign of a zero RESULT is never asserted",
			"recorded, not asserted (nothing documented or documentation contradicts itself): inf-inf, 0*inf, Modulo with a zero divisor (doc comment says +-Inf, implementation and its unit test return the receiver), Modulo with an infinite operand, Index/HasIndex on a set (docs/types.md vs the method comment), Length() of an object (method comment promises a panic, code answers the attribute count)",
			"rejection = any panic; HasIndex is documented never to panic on the key and to answer False for a key of the wrong type",
			"duplicates (by documented equality) and both spellings of one key are not offered to SetVal/MapVal/ObjectVal (documented as undefined resp. order-dependent); null, unknown or marked operands are outside this property",
		},
		MinNontrivial: 5000,
	}
}

func (Driver) Batches(tier string) int {
	if tier == "thorough" {
		return 64
	}
	return 16
}

const (
	basePairs  = int64(1_000_000_000)
	baseTruth  = int64(2_000_000_000)
	baseWrong  = int64(2_100_000_000)
	baseCorpus = int64(3_000_000_000)
)

func (Driver) Run(c *core.Ctx) {
	if c.Batch == 0 {
		// corpus first: its observation samples are the ones worth keeping
		runCorpus(c, baseCorpus)
		runTruthTables(c, baseTruth)
		runWrongTypes(c, baseWrong)
	}
	runPairTable(c, basePairs)
	runSampled(c)
}

// pool returns the number pool of this tier: the fixed boundary pool, extended
// in the thorough tier to 400 numbers by a stream that is the same in every batch.
func pool(c *core.Ctx) []operand {
	p := gen.NumberPool()
	out := make([]operand, 0, 400)
	for _, nc := range p {
		out = append(out, mkOperand(nc))
	}
	// the same fractions at other precisions (gen.NumberPool has this class for integers only)
	for _, f := range []float64{0.1, 0.12345678905, 3.14159, 1e-7, 0.0005032122135162354} {
		for _, np := range []uint{64, 512} {
			out = append(out, mkOperand(gen.NumCase{V: cty.NumberVal(new(big.Float).SetPrec(np).SetFloat64(f)), Class: fmt.Sprintf("float64-value-at-p%d", np)}))
		}
	}
	out = append(out, mkOperand(gen.NumCase{V: cty.NumberFloatVal(0.0005032122135162354), Class: "float64"}))
	out = append(out, mkOperand(gen.NumCase{V: cty.NumberFloatVal(0.1).Multiply(cty.NumberIntVal(1)), Class: "library-result-Multiply"}))
	if !c.Quick() {
		r := c.GlobalRNG("c02-pool")
		for len(out) < 400 {
			out = append(out, mkOperand(freshNumber(r)))
		}
	}
	return out
}

func runPairTable(c *core.Ctx, base int64) {
	ps := pool(c)
	L := int64(len(ps))
	slots := int64(len(numOps) + 1)
	var done int64
	for i := int64(0); i < L; i++ {
		for j := int64(0); j < L; j++ {
			k := i*L + j
			if !c.Mine(k) {
				continue
			}
			a, b := ps[i], ps[j]
			for oi, op := range numOps {
				idx := base + k*slots + int64(oi)
				if !c.Want(idx) {
					continue
				}
				if op.arity == 1 && j != 0 {
					continue // unary operations see every pool element once
				}
				checkNum(c, idx, op, a, b, false)
				done++
			}
			if a.isZero() && b.isZero() && (a.negZero || b.negZero) {
				idx := base + k*slots + int64(len(numOps))
				if c.Want(idx) {
					checkZeroEquals(c, idx, a, b)
					done++
				}
			}
		}
	}
	c.BulkDistinct(done)
	if c.Only < 0 {
		c.Exhaustive("all ordered pairs of the number pool x 11 numeric operations (this batch's share)")
	}
}

func runSampled(c *core.Ctx) {
	n := int64(c.N(36000, 240000))
	for i := int64(0); i < n; i++ {
		if !c.Want(i) {
			continue
		}
		r := c.RNG(i)
		if r.Chance(2, 5) {
			sampledNumeric(c, i, r)
		} else {
			sampledCollection(c, i, r)
		}
	}
}
