package c02

import (
	"fmt"
	"math"
	"math/big"
	"sort"
	"strings"

	"github.com/zclconf/go-cty/cty"
	"golang.org/x/text/unicode/norm"

	"verif/harness/core"
	"verif/harness/gen"
	"verif/harness/model"
	"verif/harness/mon"
)

// ---- the plain-Go reference of a collection --------------------------------------------------------
//
// A collection case is described entirely on the Go side BEFORE the library sees it:
// the members are held in a Go slice (list, tuple, set) or in a Go map keyed by the
// key text as it will be offered to the constructor (map, object). Every expectation
// below is computed from these Go structures; the cty collection value is only ever
// the thing under observation.

type collModel struct {
	kind string      // "list", "set", "map", "tuple", "object"
	ety  cty.Type    // declared element type (list, set, map)
	seq  []cty.Value // members in order (list, tuple); members in offer order (set)
	keys []string    // key / attribute names as offered, possibly in NFD spelling (map, object)
	vals []cty.Value // vals[i] belongs to keys[i]
	// via (set only): "" = cty.SetVal; "valueset" = the members reach the set value through a cty.ValueSet that
	// has a history: members and the non-members in extras are added, the set is enumerated and queried, the
	// non-members are removed again, and the result is wrapped with cty.SetValFromValueSet. The members the value
	// "was constructed from" are the same Go slice either way.
	via    string
	extras []cty.Value
}

func (m collModel) n() int {
	if m.kind == "map" || m.kind == "object" {
		return len(m.keys)
	}
	return len(m.seq)
}

// nfc is the reference normalisation (x/text tables; documented: keys are NFC-normalised on entry).
func nfc(s string) string { return norm.NFC.String(s) }

// byKey returns the expected key -> member map (keys normalised) and the keys in ascending byte order.
func (m collModel) byKey() (map[string]cty.Value, []string) {
	out := make(map[string]cty.Value, len(m.keys))
	ks := make([]string, 0, len(m.keys))
	for i, k := range m.keys {
		out[nfc(k)] = m.vals[i]
		ks = append(ks, nfc(k))
	}
	sort.Strings(ks)
	return out, ks
}

func (m collModel) String() string {
	var sb strings.Builder
	sb.WriteString(m.kind)
	switch m.kind {
	case "list", "set":
		fmt.Fprintf(&sb, "<%#v>[", m.ety)
		for i, v := range m.seq {
			if i > 0 {
				sb.WriteString(", ")
			}
			fmt.Fprintf(&sb, "%#v", v)
		}
		sb.WriteString("]")
	case "tuple":
		sb.WriteString("[")
		for i, v := range m.seq {
			if i > 0 {
				sb.WriteString(", ")
			}
			fmt.Fprintf(&sb, "%#v", v)
		}
		sb.WriteString("]")
	default:
		if m.kind == "map" {
			fmt.Fprintf(&sb, "<%#v>", m.ety)
		}
		sb.WriteString("{")
		for i, k := range m.keys {
			if i > 0 {
				sb.WriteString(", ")
			}
			fmt.Fprintf(&sb, "%+q: %#v", k, m.vals[i])
		}
		sb.WriteString("}")
	}
	return sb.String()
}

// construct hands the Go members to the documented constructor (copies, so that the
// reference cannot be disturbed through aliasing).
func (m collModel) construct() cty.Value {
	switch m.kind {
	case "list":
		if len(m.seq) == 0 {
			return cty.ListValEmpty(m.ety)
		}
		return cty.ListVal(append([]cty.Value(nil), m.seq...))
	case "set":
		if m.via == "valueset" {
			vs := cty.NewValueSet(m.ety)
			for i, e := range m.seq {
				vs.Add(e)
				if i < len(m.extras) {
					vs.Add(m.extras[i])
					_ = vs.Values() // enumerated while the non-member is inside
				}
			}
			for i := len(m.seq); i < len(m.extras); i++ {
				vs.Add(m.extras[i])
			}
			_ = vs.Values()
			_ = vs.Length()
			for i, x := range m.extras {
				vs.Remove(x)
				if i%2 == 0 {
					_ = vs.Has(x)
					_ = vs.Values()
				}
			}
			snap := cty.SetValFromValueSet(vs)
			// the helper set lives on after the value was taken: it is enumerated, grows, shrinks and is wrapped
			// again; none of that is the value's business
			_ = vs.Values()
			for _, x := range m.extras {
				vs.Add(x)
			}
			_ = vs.Values()
			later := cty.SetValFromValueSet(vs)
			_ = later.LengthInt()
			for it := later.ElementIterator(); it.Next(); {
				it.Element()
			}
			for i, e := range m.seq {
				if i%2 == 0 {
					vs.Remove(e)
				}
			}
			_ = vs.Values()
			return snap
		}
		if len(m.seq) == 0 {
			return cty.SetValEmpty(m.ety)
		}
		return cty.SetVal(append([]cty.Value(nil), m.seq...))
	case "tuple":
		return cty.TupleVal(append([]cty.Value(nil), m.seq...))
	case "map":
		if len(m.keys) == 0 {
			return cty.MapValEmpty(m.ety)
		}
		mm := make(map[string]cty.Value, len(m.keys))
		for i, k := range m.keys {
			mm[k] = m.vals[i]
		}
		return cty.MapVal(mm)
	case "object":
		mm := make(map[string]cty.Value, len(m.keys))
		for i, k := range m.keys {
			mm[k] = m.vals[i]
		}
		return cty.ObjectVal(mm)
	}
	panic("construct: kind " + m.kind)
}

// wantType is the documented type of the constructed value.
func (m collModel) wantType() cty.Type {
	switch m.kind {
	case "list":
		return cty.List(m.ety)
	case "set":
		return cty.Set(m.ety)
	case "map":
		return cty.Map(m.ety)
	case "tuple":
		ts := make([]cty.Type, len(m.seq))
		for i, v := range m.seq {
			ts[i] = v.Type()
		}
		return cty.Tuple(ts)
	}
	ats := make(map[string]cty.Type, len(m.keys))
	for i, k := range m.keys {
		ats[nfc(k)] = m.vals[i].Type()
	}
	return cty.Object(ats)
}

// probeKey is a key offered to Index / HasIndex, described on the Go side.
type probeKey struct {
	v     cty.Value
	class string
	isNum bool
	num   model.Num // when isNum
	isStr bool
	str   string // Go text as offered to StringVal (not normalised)
}

func numKey(v cty.Value, class string) probeKey {
	return probeKey{v: v, class: class, isNum: true, num: model.NumOf(v.AsBigFloat())}
}
func intKey(i int64, class string) probeKey {
	return probeKey{v: cty.NumberIntVal(i), class: class, isNum: true, num: model.NumInt(i)}
}
func strKey(s, class string) probeKey {
	return probeKey{v: cty.StringVal(s), class: class, isStr: true, str: s}
}
func otherKey(v cty.Value, class string) probeKey { return probeKey{v: v, class: class} }

// position returns the index addressed by a numeric key in a sequence of length n, or -1.
func (k probeKey) position(n int) int {
	if !k.isNum || k.num.Inf != 0 || !k.num.R.IsInt() {
		return -1
	}
	i := k.num.R.Num()
	if i.Sign() < 0 || !i.IsInt64() || i.Int64() >= int64(n) {
		return -1
	}
	return int(i.Int64())
}

type collCase struct {
	m     collModel
	keys  []probeKey  // Index / HasIndex probes (list, map, tuple; sets and objects: receiver-type probes)
	attrs []string    // GetAttr probes (object)
	cands []cty.Value // HasElement candidates (set)
	label string      // corpus label
}

func (cc collCase) canon() string {
	var sb strings.Builder
	sb.WriteString(cc.m.String())
	if cc.m.via != "" {
		fmt.Fprintf(&sb, " via:%s extras:%#v", cc.m.via, cc.m.extras)
	}
	sb.WriteString(" keys:")
	for _, k := range cc.keys {
		fmt.Fprintf(&sb, " %#v", k.v)
	}
	for _, a := range cc.attrs {
		fmt.Fprintf(&sb, " .%+q", a)
	}
	for _, e := range cc.cands {
		fmt.Fprintf(&sb, " ?%#v", e)
	}
	return sb.String()
}

// ---- comparing a returned member with the member that was put in ----------------------------------

// sameMember reports how a returned value differs from the member that was put in ("" = identical).
func sameMember(got, want cty.Value, wantTy cty.Type) (facet, detail string) {
	if got == cty.NilVal {
		return "returned cty.NilVal", ""
	}
	if !got.Type().Equals(wantTy) {
		return "result type differs from the documented element / attribute type", fmt.Sprintf("result type %#v, documented %#v", got.Type(), wantTy)
	}
	if got.IsMarked() {
		return "result carries marks although nothing was marked", ""
	}
	if !got.IsWhollyKnown() {
		return "wholly known collection gave a member that is not wholly known", ""
	}
	var eq, raw bool
	out := core.Guard(func() { eq = mon.ModelEqual(got, want); raw = got.RawEquals(want) })
	if out.Panicked {
		return "comparing the returned member panicked", out.PanicMsg
	}
	if !eq {
		return "returned member differs from the member put in", ""
	}
	if !raw {
		return "returned member is not RawEquals to the member put in", ""
	}
	return "", ""
}

func knownBool(v cty.Value) bool {
	return v != cty.NilVal && v.Type() == cty.Bool && !v.IsMarked() && v.IsKnown() && !v.IsNull()
}

func crossWF(c *core.Ctx, site string, v cty.Value, desc func() string) {
	if w := mon.WellFormed(v); w != "" {
		c.CrossNote("C06", site+": "+w, desc())
	}
}

// guard is core.Guard without the stack capture: used where a panic is the EXPECTED outcome
// (rejections are most of the probes, and runtime/debug.Stack dominated the run time).
func guard(f func()) (out core.Outcome) {
	defer func() {
		if r := recover(); r != nil {
			out.Panicked = true
			out.PanicVal = r
			out.PanicMsg = fmt.Sprint(r)
		}
	}()
	f()
	return
}

// ---- the collection oracle ------------------------------------------------------------------------

func checkColl(c *core.Ctx, idx int64, cc collCase, sampled bool) {
	m := cc.m
	desc := func() string {
		if cc.label != "" {
			return cc.label + ": " + cc.canon()
		}
		return cc.canon()
	}
	c.Begin(idx, desc)
	c.Count("coll-kind:" + m.kind)
	c.Count(fmt.Sprintf("coll-size:%d", m.n()))
	viol := func(site, facet, class, detail string) { c.Violate(site, facet, class, desc(), detail) }

	ctor := map[string]string{"list": "cty.ListVal", "set": "cty.SetVal", "map": "cty.MapVal", "tuple": "cty.TupleVal", "object": "cty.ObjectVal"}[m.kind]
	if m.via == "valueset" {
		ctor = "cty.SetValFromValueSet"
		c.Count("coll-via:valueset-history")
	}
	var coll cty.Value
	out := core.Guard(func() { coll = m.construct() })
	c.Eval(1)
	c.Count("op:" + ctor)
	if out.Panicked {
		viol(ctor, "panic: "+core.PanicClass(out.PanicMsg), m.kind, "constructor panicked on homogeneous wholly known members: "+out.PanicMsg+"\n"+out.Stack)
		return
	}
	crossWF(c, ctor, coll, desc)
	c.Count("clause:constructed-type")
	if !coll.Type().Equals(m.wantType()) || !coll.IsKnown() || coll.IsNull() || coll.IsMarked() {
		viol(ctor, "constructed value is not a known value of the documented type", m.kind, fmt.Sprintf("got %#v, documented type %#v", coll, m.wantType()))
		return
	}

	n := m.n()
	checkLength(c, viol, m, coll, n)

	switch m.kind {
	case "list", "tuple":
		for _, k := range cc.keys {
			pos := k.position(n)
			var want *cty.Value
			var wantTy cty.Type
			if pos >= 0 {
				want = &m.seq[pos]
				wantTy = m.ety
				if m.kind == "tuple" {
					wantTy = m.seq[pos].Type()
				}
			}
			checkIndexProbe(c, viol, m, coll, k, want, wantTy, n)
		}
		checkIterSeq(c, viol, m, coll)
	case "map":
		byKey, sorted := m.byKey()
		for _, k := range cc.keys {
			var want *cty.Value
			if k.isStr {
				if v, ok := byKey[nfc(k.str)]; ok {
					want = &v
				}
			}
			checkIndexProbe(c, viol, m, coll, k, want, m.ety, n)
		}
		checkIterKeyed(c, viol, m, coll, byKey, sorted)
	case "object":
		byKey, sorted := m.byKey()
		for _, a := range cc.attrs {
			checkGetAttr(c, viol, coll, a, byKey)
		}
		for _, k := range cc.keys {
			checkWrongReceiver(c, viol, "object", coll, k)
		}
		checkIterKeyed(c, viol, m, coll, byKey, sorted)
	case "set":
		for _, e := range cc.cands {
			checkHasElement(c, viol, m, coll, e)
		}
		for _, k := range cc.keys {
			recordSetIndex(c, coll, k)
		}
		checkIterSet(c, viol, m, coll)
	}

	c.Distinct(cc.canon(), n > 0)
	if n > 0 {
		c.Count("nontrivial:collection-" + m.kind)
	}
	if sampled && n > 0 && c.WantSample() && idx%7 == 0 {
		c.Sample(map[string]any{"kind": "collection", "built_from": m.String(), "constructed": fmt.Sprintf("%#v", coll),
			"probe_keys": len(cc.keys), "attr_probes": len(cc.attrs), "haselement_candidates": len(cc.cands)})
	}
}

type violFn func(site, facet, class, detail string)

func checkLength(c *core.Ctx, viol violFn, m collModel, coll cty.Value, n int) {
	var l cty.Value
	out := core.Guard(func() { l = coll.Length() })
	c.Eval(1)
	c.Count("op:Length")
	if m.kind == "object" {
		// Length's doc comment demands a collection or tuple type and promises a panic otherwise;
		// the code answers the attribute count. Recorded, not asserted.
		if out.Panicked {
			c.Count("recorded:object-Length: panic " + core.PanicClass(out.PanicMsg))
		} else {
			c.Count("recorded:object-Length: returned a value (doc comment promises a panic for non-collection, non-tuple receivers)")
		}
	} else {
		c.Count("clause:length")
		switch {
		case out.Panicked:
			viol("Value.Length", "panic: "+core.PanicClass(out.PanicMsg), m.kind, out.PanicMsg+"\n"+out.Stack)
		case l == cty.NilVal || l.Type() != cty.Number || !l.IsKnown() || l.IsNull() || l.IsMarked():
			viol("Value.Length", "result is not a known non-null value of the documented result type", m.kind, fmt.Sprintf("returned %#v", l))
		default:
			f := l.AsBigFloat()
			if i, acc := f.Int64(); acc != big.Exact || i != int64(n) {
				viol("Value.Length", "Length differs from the number of members put in", m.kind, fmt.Sprintf("returned %#v, %d members were put in", l, n))
			}
			crossWF(c, "Value.Length", l, func() string { return m.String() })
		}
	}
	var li int
	out = core.Guard(func() { li = coll.LengthInt() })
	c.Eval(1)
	c.Count("op:LengthInt")
	c.Count("clause:length-int")
	switch {
	case out.Panicked:
		viol("Value.LengthInt", "panic: "+core.PanicClass(out.PanicMsg), m.kind, out.PanicMsg+"\n"+out.Stack)
	case li != n:
		viol("Value.LengthInt", "LengthInt differs from the number of members put in", m.kind, fmt.Sprintf("returned %d, %d members were put in", li, n))
	}
}

// checkIndexProbe runs HasIndex and Index for one key on a list, map or tuple. want == nil
// means the reference says the key addresses nothing.
func checkIndexProbe(c *core.Ctx, viol violFn, m collModel, coll cty.Value, k probeKey, want *cty.Value, wantTy cty.Type, n int) {
	class := m.kind + "/" + k.class
	c.Count("key-class:" + class)
	kd := fmt.Sprintf("key %#v (%s)", k.v, k.class)

	var has, got cty.Value
	ho := core.Guard(func() { has = coll.HasIndex(k.v) })
	c.Eval(1)
	c.Count("op:HasIndex")
	g := core.Guard
	if want == nil {
		g = guard // rejection expected
	}
	io := g(func() { got = coll.Index(k.v) })
	c.Eval(1)
	c.Count("op:Index")

	hasTrue := false
	c.Count("clause:has-index-vs-members")
	switch {
	case ho.Panicked:
		// documented: HasIndex imposes no panic-causing constraint on the key
		viol("Value.HasIndex", "panic: "+core.PanicClass(ho.PanicMsg), class, kd+": "+ho.PanicMsg+"\n"+ho.Stack)
	case !knownBool(has):
		viol("Value.HasIndex", "result is not a known non-null value of the documented result type", class, fmt.Sprintf("%s: returned %#v", kd, has))
	default:
		hasTrue = has.True()
		if hasTrue != (want != nil) {
			viol("Value.HasIndex", "HasIndex disagrees with the members put in", class, fmt.Sprintf("%s: returned %#v, reference says present=%v (length %d)", kd, has, want != nil, n))
		}
	}

	if want != nil {
		c.Count("clause:index-returns-member")
		if io.Panicked {
			viol("Value.Index", "Index rejected a key that addresses a member", class, fmt.Sprintf("%s: panic %s\n%s", kd, io.PanicMsg, io.Stack))
		} else {
			crossWF(c, "Value.Index", got, func() string { return m.String() + " " + kd })
			if facet, detail := sameMember(got, *want, wantTy); facet != "" {
				viol("Value.Index", facet, class, fmt.Sprintf("%s: returned %#v, member put in %#v; %s", kd, got, *want, detail))
			}
		}
	} else {
		c.Count("clause:index-rejects-absent-or-mistyped-key")
		if !io.Panicked {
			viol("Value.Index", "Index yielded a value for a key that addresses no member", class, fmt.Sprintf("%s: returned %#v (length %d)", kd, got, n))
		} else {
			c.Count("rejected:Index:" + rejectionKind(io))
		}
	}

	// the lookup succeeds exactly when the query answers True
	if !ho.Panicked && knownBool(has) {
		c.Count("clause:index-succeeds-iff-has-index")
		switch {
		case !io.Panicked && !hasTrue:
			viol("Value.Index", "Index succeeds although HasIndex does not answer True", class, fmt.Sprintf("%s: Index returned %#v, HasIndex returned %#v", kd, got, has))
		case io.Panicked && hasTrue:
			viol("Value.Index", "HasIndex answers True but Index is rejected", class, fmt.Sprintf("%s: Index panic %s", kd, io.PanicMsg))
		}
	}
}

func rejectionKind(o core.Outcome) string {
	if strings.HasPrefix(o.PanicMsg, "runtime error") {
		return "runtime error (" + core.PanicClass(o.PanicMsg) + ")"
	}
	return core.PanicClass(o.PanicMsg)
}

// checkWrongReceiver: Index / HasIndex on a receiver that is documented as not indexable must panic.
func checkWrongReceiver(c *core.Ctx, viol violFn, kind string, coll cty.Value, k probeKey) {
	var r cty.Value
	c.Count("clause:not-indexable-receiver-rejected")
	o := guard(func() { r = coll.Index(k.v) })
	c.Eval(1)
	c.Count("op:Index")
	if !o.Panicked {
		viol("Value.Index", "receiver of the wrong type yielded a value", kind+"-receiver", fmt.Sprintf("key %#v: returned %#v", k.v, r))
	}
	o = guard(func() { r = coll.HasIndex(k.v) })
	c.Eval(1)
	c.Count("op:HasIndex")
	if !o.Panicked {
		viol("Value.HasIndex", "receiver of the wrong type yielded a value", kind+"-receiver", fmt.Sprintf("key %#v: returned %#v", k.v, r))
	}
}

// recordSetIndex: docs/types.md says HasIndex/Index work on sets, the method comments say the
// receiver must be a list, map or tuple and the code panics. Recorded, not asserted.
func recordSetIndex(c *core.Ctx, coll cty.Value, k probeKey) {
	for _, name := range []string{"Index", "HasIndex"} {
		var r cty.Value
		o := guard(func() {
			if name == "Index" {
				r = coll.Index(k.v)
			} else {
				r = coll.HasIndex(k.v)
			}
		})
		c.Eval(1)
		c.Count("op:" + name)
		if o.Panicked {
			c.Count("recorded:set-" + name + ": panic " + core.PanicClass(o.PanicMsg))
		} else {
			c.Count("recorded:set-" + name + ": returned " + r.Type().FriendlyName())
		}
	}
}

func checkGetAttr(c *core.Ctx, viol violFn, coll cty.Value, name string, byKey map[string]cty.Value) {
	want, present := byKey[nfc(name)]
	cls := "object/absent-attribute"
	if present {
		cls = "object/present-attribute"
		if nfc(name) != name {
			cls = "object/present-attribute-nfd-spelling"
		}
	}
	c.Count("key-class:" + cls)
	var got cty.Value
	g := core.Guard
	if !present {
		g = guard // rejection expected
	}
	o := g(func() { got = coll.GetAttr(name) })
	c.Eval(1)
	c.Count("op:GetAttr")
	if present {
		c.Count("clause:getattr-returns-member")
		if o.Panicked {
			viol("Value.GetAttr", "GetAttr rejected an attribute that exists", cls, fmt.Sprintf("attribute %+q: panic %s\n%s", name, o.PanicMsg, o.Stack))
			return
		}
		crossWF(c, "Value.GetAttr", got, func() string { return fmt.Sprintf("%#v .%+q", coll, name) })
		if facet, detail := sameMember(got, want, want.Type()); facet != "" {
			viol("Value.GetAttr", facet, cls, fmt.Sprintf("attribute %+q: returned %#v, member put in %#v; %s", name, got, want, detail))
		}
		return
	}
	c.Count("clause:getattr-rejects-missing-attribute")
	if !o.Panicked {
		viol("Value.GetAttr", "GetAttr yielded a value for an attribute that does not exist", cls, fmt.Sprintf("attribute %+q: returned %#v", name, got))
	}
}

func checkHasElement(c *core.Ctx, viol violFn, m collModel, coll cty.Value, e cty.Value) {
	// reference: membership in the Go slice by documented equality
	want := false
	sameType := e.Type().Equals(m.ety)
	if sameType {
		for _, x := range m.seq {
			if mon.ModelEqual(x, e) {
				want = true
				break
			}
		}
	}
	cls := "set/non-member"
	switch {
	case want:
		cls = "set/member"
	case !sameType:
		cls = "set/candidate-of-another-type"
	}
	c.Count("key-class:" + cls)
	var got cty.Value
	o := core.Guard(func() { got = coll.HasElement(e) })
	c.Eval(1)
	c.Count("op:HasElement")
	c.Count("clause:has-element-vs-members")
	switch {
	case o.Panicked:
		viol("Value.HasElement", "panic: "+core.PanicClass(o.PanicMsg), cls, fmt.Sprintf("candidate %#v: %s\n%s", e, o.PanicMsg, o.Stack))
	case !knownBool(got):
		viol("Value.HasElement", "result is not a known non-null value of the documented result type", cls, fmt.Sprintf("candidate %#v: returned %#v", e, got))
	case got.True() != want:
		viol("Value.HasElement", "HasElement disagrees with the members put in", cls, fmt.Sprintf("candidate %#v: returned %#v, reference says %v", e, got, want))
	}
}

type kv struct{ k, v cty.Value }

// iterate drains an ElementIterator.
func iterate(coll cty.Value) (pairs []kv, o core.Outcome) {
	o = core.Guard(func() {
		it := coll.ElementIterator()
		for it.Next() {
			k, v := it.Element()
			pairs = append(pairs, kv{k, v})
			if len(pairs) > 1000 {
				panic("iterator does not terminate")
			}
		}
		if it.Next() {
			panic("Next answered true after it had answered false")
		}
	})
	return
}

func checkIterSeq(c *core.Ctx, viol violFn, m collModel, coll cty.Value) {
	pairs, o := iterate(coll)
	c.Eval(1)
	c.Count("op:ElementIterator")
	c.Count("clause:iterator-yields-members-in-order")
	if o.Panicked {
		viol("Value.ElementIterator", "panic: "+core.PanicClass(o.PanicMsg), m.kind, o.PanicMsg+"\n"+o.Stack)
	} else if len(pairs) != len(m.seq) {
		viol("Value.ElementIterator", "iterator yields a different number of elements than were put in", m.kind, fmt.Sprintf("%d yielded, %d put in", len(pairs), len(m.seq)))
	} else {
		for i, p := range pairs {
			wantTy := m.ety
			if m.kind == "tuple" {
				wantTy = m.seq[i].Type()
			}
			if p.k == cty.NilVal || p.k.Type() != cty.Number || !p.k.RawEquals(cty.NumberIntVal(int64(i))) {
				viol("Value.ElementIterator", "iterator key is not the element's position as a number", m.kind, fmt.Sprintf("position %d: key %#v", i, p.k))
				break
			}
			if facet, detail := sameMember(p.v, m.seq[i], wantTy); facet != "" {
				viol("Value.ElementIterator", facet, m.kind, fmt.Sprintf("position %d: yielded %#v, member put in %#v; %s", i, p.v, m.seq[i], detail))
				break
			}
		}
	}
	var sl []cty.Value
	o = core.Guard(func() { sl = coll.AsValueSlice() })
	c.Eval(1)
	c.Count("op:AsValueSlice")
	c.Count("clause:as-value-slice")
	if o.Panicked {
		viol("Value.AsValueSlice", "panic: "+core.PanicClass(o.PanicMsg), m.kind, o.PanicMsg+"\n"+o.Stack)
	} else if len(sl) != len(m.seq) {
		viol("Value.AsValueSlice", "slice length differs from the number of members put in", m.kind, fmt.Sprintf("%d returned, %d put in", len(sl), len(m.seq)))
	} else {
		for i, v := range sl {
			wantTy := m.ety
			if m.kind == "tuple" {
				wantTy = m.seq[i].Type()
			}
			if facet, detail := sameMember(v, m.seq[i], wantTy); facet != "" {
				viol("Value.AsValueSlice", facet, m.kind, fmt.Sprintf("position %d: returned %#v, member put in %#v; %s", i, v, m.seq[i], detail))
				break
			}
		}
	}
}

func checkIterKeyed(c *core.Ctx, viol violFn, m collModel, coll cty.Value, byKey map[string]cty.Value, sorted []string) {
	tyOf := func(k string) cty.Type {
		if m.kind == "map" {
			return m.ety
		}
		return byKey[k].Type()
	}
	pairs, o := iterate(coll)
	c.Eval(1)
	c.Count("op:ElementIterator")
	c.Count("clause:iterator-yields-members-in-key-order")
	if o.Panicked {
		viol("Value.ElementIterator", "panic: "+core.PanicClass(o.PanicMsg), m.kind, o.PanicMsg+"\n"+o.Stack)
	} else if len(pairs) != len(sorted) {
		viol("Value.ElementIterator", "iterator yields a different number of elements than were put in", m.kind, fmt.Sprintf("%d yielded, %d put in", len(pairs), len(sorted)))
	} else {
		for i, p := range pairs {
			k := sorted[i]
			if p.k == cty.NilVal || p.k.Type() != cty.String || !p.k.IsKnown() || p.k.IsNull() || p.k.AsString() != k {
				viol("Value.ElementIterator", "iterator keys are not the normalised keys in ascending order", m.kind, fmt.Sprintf("position %d: key %#v, want %+q", i, p.k, k))
				break
			}
			if facet, detail := sameMember(p.v, byKey[k], tyOf(k)); facet != "" {
				viol("Value.ElementIterator", facet, m.kind, fmt.Sprintf("key %+q: yielded %#v, member put in %#v; %s", k, p.v, byKey[k], detail))
				break
			}
		}
	}
	var vm map[string]cty.Value
	o = core.Guard(func() { vm = coll.AsValueMap() })
	c.Eval(1)
	c.Count("op:AsValueMap")
	c.Count("clause:as-value-map")
	if o.Panicked {
		viol("Value.AsValueMap", "panic: "+core.PanicClass(o.PanicMsg), m.kind, o.PanicMsg+"\n"+o.Stack)
	} else if len(vm) != len(byKey) {
		viol("Value.AsValueMap", "map size differs from the number of members put in", m.kind, fmt.Sprintf("%d returned, %d put in", len(vm), len(byKey)))
	} else {
		for _, k := range sorted {
			v, ok := vm[k]
			if !ok {
				viol("Value.AsValueMap", "a key that was put in is missing", m.kind, fmt.Sprintf("key %+q", k))
				break
			}
			if facet, detail := sameMember(v, byKey[k], tyOf(k)); facet != "" {
				viol("Value.AsValueMap", facet, m.kind, fmt.Sprintf("key %+q: returned %#v, member put in %#v; %s", k, v, byKey[k], detail))
				break
			}
		}
	}
	var sl []cty.Value
	o = core.Guard(func() { sl = coll.AsValueSlice() })
	c.Eval(1)
	c.Count("op:AsValueSlice")
	c.Count("clause:as-value-slice")
	if o.Panicked {
		viol("Value.AsValueSlice", "panic: "+core.PanicClass(o.PanicMsg), m.kind, o.PanicMsg+"\n"+o.Stack)
	} else if len(sl) != len(sorted) {
		viol("Value.AsValueSlice", "slice length differs from the number of members put in", m.kind, fmt.Sprintf("%d returned, %d put in", len(sl), len(sorted)))
	} else {
		for i, k := range sorted {
			if facet, detail := sameMember(sl[i], byKey[k], tyOf(k)); facet != "" {
				viol("Value.AsValueSlice", facet, m.kind, fmt.Sprintf("position %d (key %+q): returned %#v, member put in %#v; %s", i, k, sl[i], byKey[k], detail))
				break
			}
		}
	}
}

// matchMultiset pairs every returned element with a distinct member that was put in.
func matchMultiset(got, want []cty.Value, ety cty.Type) (facet, detail string) {
	if len(got) != len(want) {
		return "a different number of elements than were put in", fmt.Sprintf("%d returned, %d put in", len(got), len(want))
	}
	used := make([]bool, len(want))
outer:
	for _, g := range got {
		if g == cty.NilVal || !g.Type().Equals(ety) {
			return "result type differs from the documented element / attribute type", fmt.Sprintf("element %#v, documented element type %#v", g, ety)
		}
		for j, w := range want {
			if used[j] {
				continue
			}
			if f, _ := sameMember(g, w, ety); f == "" {
				used[j] = true
				continue outer
			}
		}
		return "an element was returned that is not one of the members put in (or is returned twice)", fmt.Sprintf("element %#v", g)
	}
	return "", ""
}

func checkIterSet(c *core.Ctx, viol violFn, m collModel, coll cty.Value) {
	pairs, o := iterate(coll)
	c.Eval(1)
	c.Count("op:ElementIterator")
	c.Count("clause:set-iterator-yields-each-member-once")
	var order []cty.Value
	if o.Panicked {
		viol("Value.ElementIterator", "panic: "+core.PanicClass(o.PanicMsg), "set", o.PanicMsg+"\n"+o.Stack)
	} else {
		for _, p := range pairs {
			if p.k == cty.NilVal || p.v == cty.NilVal || !p.k.RawEquals(p.v) {
				viol("Value.ElementIterator", "set iterator key is not the element itself", "set", fmt.Sprintf("key %#v, value %#v", p.k, p.v))
				break
			}
			order = append(order, p.v)
		}
		if facet, detail := matchMultiset(order, m.seq, m.ety); facet != "" {
			viol("Value.ElementIterator", "set iterator: "+facet, "set", detail)
		}
		// documented: undefined but consistent order
		again, o2 := iterate(coll)
		c.Eval(1)
		c.Count("clause:set-iteration-order-consistent")
		if !o2.Panicked && len(again) == len(pairs) {
			for i := range again {
				if !again[i].v.RawEquals(pairs[i].v) {
					viol("Value.ElementIterator", "two iterations of the same set yield different orders", "set", fmt.Sprintf("position %d: %#v then %#v", i, pairs[i].v, again[i].v))
					break
				}
			}
		}
	}
	var sl []cty.Value
	o = core.Guard(func() { sl = coll.AsValueSlice() })
	c.Eval(1)
	c.Count("op:AsValueSlice")
	c.Count("clause:as-value-slice")
	if o.Panicked {
		viol("Value.AsValueSlice", "panic: "+core.PanicClass(o.PanicMsg), "set", o.PanicMsg+"\n"+o.Stack)
	} else if facet, detail := matchMultiset(sl, m.seq, m.ety); facet != "" {
		viol("Value.AsValueSlice", "set: "+facet, "set", detail)
	}
	// AsValueSet: a ValueSet holding the same members
	var vsLen int
	var vsVals []cty.Value
	o = core.Guard(func() { vs := coll.AsValueSet(); vsLen = vs.Length(); vsVals = vs.Values() })
	c.Eval(1)
	c.Count("op:AsValueSet")
	c.Count("clause:as-value-set")
	if o.Panicked {
		viol("Value.AsValueSet", "panic: "+core.PanicClass(o.PanicMsg), "set", o.PanicMsg+"\n"+o.Stack)
	} else if vsLen != len(m.seq) {
		viol("Value.AsValueSet", "ValueSet length differs from the number of members put in", "set", fmt.Sprintf("%d vs %d", vsLen, len(m.seq)))
	} else if facet, detail := matchMultiset(vsVals, m.seq, m.ety); facet != "" {
		viol("Value.AsValueSet", "set: "+facet, "set", detail)
	}
}

// ---- generators -----------------------------------------------------------------------------------

var bigKeys = []struct {
	v     cty.Value
	class string
}{
	{cty.NumberVal(new(big.Float).SetMantExp(big.NewFloat(1), 70)), "index-2^70"},
	{cty.NumberIntVal(1 << 32), "index-2^32"},
	{cty.NumberIntVal(1<<32 + 1), "index-2^32+1"},
	{cty.NumberIntVal(math.MaxInt64), "index-maxint64"},
	{cty.NumberUIntVal(1 << 63), "index-2^63"},
	{cty.NumberUIntVal(math.MaxUint64), "index-maxuint64"},
	{cty.NumberVal(new(big.Float).SetPrec(512).SetMantExp(big.NewFloat(1), 64)), "index-2^64"},
	{cty.NumberFloatVal(1e300), "index-1e300"},
	{cty.PositiveInfinity, "index-+inf"},
	{cty.NegativeInfinity, "index--inf"},
	{cty.NumberIntVal(math.MinInt64), "index-minint64"},
}

// seqKeys is the probe set for a list or tuple of length n: every position, a margin on both
// sides, fractions, huge numbers, the same integers at other precisions, negative zero and
// keys of the wrong type.
func seqKeys(r *core.Rand, n int, all bool) []probeKey {
	var ks []probeKey
	for i := -2; i <= n+2; i++ {
		cls := "position"
		switch {
		case i < 0:
			cls = "negative"
		case i == n:
			cls = "index=length"
		case i > n:
			cls = "beyond-length"
		}
		ks = append(ks, intKey(int64(i), cls))
	}
	ks = append(ks, numKey(cty.NumberFloatVal(0.5), "fraction"))
	ks = append(ks, numKey(cty.NumberFloatVal(float64(n)-0.5), "fraction"))
	ks = append(ks, numKey(cty.MustParseNumberVal(fmt.Sprintf("%d.0000000000000000000000000000000000001", imax(n-1, 0))), "fraction-512bit-just-above-a-position"))
	ks = append(ks, numKey(cty.NumberFloatVal(math.Copysign(0, -1)), "negative-zero"))
	// the same integer at another precision / through another constructor
	p := 0
	if n > 0 {
		p = r.Intn(n)
	}
	ks = append(ks, numKey(cty.MustParseNumberVal(fmt.Sprint(p)), "position-parsed-512bit"))
	ks = append(ks, numKey(cty.NumberFloatVal(float64(p)), "position-float64"))
	ks = append(ks, numKey(cty.NumberFloatVal(float64(n)), "index=length-float64"))
	ks = append(ks, numKey(cty.NumberIntVal(int64(p)+1).Subtract(cty.NumberIntVal(1)), "position-library-result"))
	if all {
		for _, b := range bigKeys {
			ks = append(ks, numKey(b.v, b.class))
		}
	} else {
		for i := 0; i < 3; i++ {
			b := bigKeys[r.Intn(len(bigKeys))]
			ks = append(ks, numKey(b.v, b.class))
		}
	}
	ks = append(ks, strKey(fmt.Sprint(p), "string-key-on-sequence"))
	ks = append(ks, otherKey(cty.True, "bool-key"))
	if all || r.Chance(1, 4) {
		ks = append(ks, otherKey(cty.ListVal([]cty.Value{cty.NumberIntVal(0)}), "list-key"))
		ks = append(ks, otherKey(cty.EmptyObjectVal, "object-key"))
	}
	return ks
}

func imax(a, b int) int {
	if a > b {
		return a
	}
	return b
}

var absentKeyPool = []string{"a", "b", "c", "k", "", "é", "long-key", "A", "0", "1", "zz", "a ", " a", "ab", "long", "K", "e", "é́", "é́"}

// mapKeys is the probe set for a map: every key put in (as offered, in NFC and in NFD
// spelling), absent strings (including near misses of present keys) and wrong-typed keys.
func mapKeys(r *core.Rand, m collModel) []probeKey {
	var ks []probeKey
	present := map[string]bool{}
	for _, k := range m.keys {
		present[nfc(k)] = true
		ks = append(ks, strKey(k, "present-as-offered"))
		c, d := norm.NFC.String(k), norm.NFD.String(k)
		if c != d {
			ks = append(ks, strKey(c, "present-nfc-spelling"))
			ks = append(ks, strKey(d, "present-nfd-spelling"))
		}
	}
	for _, k := range absentKeyPool {
		if !present[nfc(k)] {
			cls := "absent-string"
			if k == "" {
				cls = "absent-empty-string"
			}
			ks = append(ks, strKey(k, cls))
		}
	}
	for _, k := range m.keys {
		for _, near := range []string{k + "x", strings.ToUpper(k), k + "́"} {
			if !present[nfc(near)] && near != k {
				ks = append(ks, strKey(near, "absent-near-miss"))
			}
		}
		if len(k) > 1 {
			if pre := k[:1]; !present[nfc(pre)] && pre[0] < 0x80 {
				ks = append(ks, strKey(pre, "absent-prefix-of-present"))
			}
		}
	}
	ks = append(ks, intKey(0, "number-key-on-map"))
	ks = append(ks, otherKey(cty.False, "bool-key"))
	if r.Chance(1, 4) {
		ks = append(ks, otherKey(cty.ListVal([]cty.Value{cty.StringVal("a")}), "list-key"))
	}
	return ks
}

func memberOpts(r *core.Rand) gen.ValueOpts {
	vo := gen.ValueOpts{MaxLen: 3, TwinKeys: true, LongStr: r.Chance(1, 3), SmallNums: r.Chance(1, 2)}
	if r.Chance(1, 4) {
		vo.NullPct = 12
	}
	return vo
}

func drawKeys(r *core.Rand, n int) []string {
	var ks []string
	seen := map[string]bool{}
	for tries := 0; len(ks) < n && tries < 40; tries++ {
		k := gen.Key(r)
		if r.Chance(1, 6) {
			k = gen.String(r, 4)
		}
		if r.Chance(1, 5) {
			k = norm.NFD.String(k)
		}
		if seen[nfc(k)] {
			continue // both spellings of one key would collide after normalisation (undefined winner)
		}
		seen[nfc(k)] = true
		ks = append(ks, k)
	}
	return ks
}

// genCollCase draws a collection case. All randomness is consumed here.
func genCollCase(r *core.Rand) collCase {
	kinds := []string{"list", "list", "map", "map", "set", "set", "tuple", "object", "object"}
	kind := kinds[r.Intn(len(kinds))]
	n := r.Intn(7)
	if r.Chance(1, 12) {
		n = 0
	}
	to := gen.TypeOpts{TwinKeys: true}
	vo := memberOpts(r)
	m := collModel{kind: kind}
	var cc collCase
	switch kind {
	case "list":
		m.ety = gen.Type(r, 2, to).Cty()
		for i := 0; i < n; i++ {
			m.seq = append(m.seq, gen.Value(r, m.ety, vo))
		}
		cc.keys = seqKeys(r, n, false)
	case "tuple":
		for i := 0; i < n; i++ {
			m.seq = append(m.seq, gen.Value(r, gen.Type(r, 2, to).Cty(), vo))
		}
		cc.keys = seqKeys(r, n, false)
	case "set":
		m.ety = gen.Type(r, 2, to).Cty()
		for i := 0; i < n; i++ {
			e := gen.Value(r, m.ety, vo)
			dup := false
			for _, x := range m.seq {
				if mon.ModelEqual(x, e) {
					dup = true
					break
				}
			}
			if !dup { // equal members are documented as undefined for SetVal: not offered
				m.seq = append(m.seq, e)
			}
		}
		cc.cands = append(cc.cands, m.seq...)
		for i := 0; i < 4; i++ {
			cc.cands = append(cc.cands, gen.Value(r, m.ety, vo))
		}
		if m.ety == cty.Number {
			// the same numbers through other constructors / at other precisions
			for _, x := range m.seq {
				if x.IsNull() {
					continue
				}
				f := x.AsBigFloat()
				if f.IsInt() && !f.IsInf() {
					cc.cands = append(cc.cands, cty.MustParseNumberVal(f.Text('f', 0)))
					cc.cands = append(cc.cands, x.Add(cty.NumberIntVal(1)).Subtract(cty.NumberIntVal(1)))
				}
				cc.cands = append(cc.cands, x.Add(cty.NumberIntVal(1)))
			}
		}
		if m.ety == cty.String {
			for _, x := range m.seq {
				if x.IsNull() {
					continue
				}
				cc.cands = append(cc.cands, cty.StringVal(norm.NFD.String(x.AsString())))
				cc.cands = append(cc.cands, cty.StringVal(x.AsString()+"x"))
			}
		}
		if r.Chance(1, 3) {
			// through a ValueSet with a history; the non-members are candidates of the element type that equal no
			// member and no earlier non-member (documented equality)
			m.via = "valueset"
			for _, x := range cc.cands[len(m.seq):] {
				if len(m.extras) >= 4 || !x.Type().Equals(m.ety) || !x.IsWhollyKnown() {
					continue
				}
				dup := false
				for _, y := range append(append([]cty.Value(nil), m.seq...), m.extras...) {
					if mon.ModelEqual(x, y) {
						dup = true
						break
					}
				}
				if !dup {
					m.extras = append(m.extras, x)
				}
			}
		}
		cc.cands = append(cc.cands, cty.NullVal(m.ety))
		cc.cands = append(cc.cands, gen.Value(r, gen.Type(r, 2, to).Cty(), vo)) // most likely another type
		cc.cands = append(cc.cands, cty.TupleVal(append([]cty.Value(nil), m.seq...)))
		cc.keys = []probeKey{intKey(0, "number-key-on-set")}
		if len(m.seq) > 0 {
			cc.keys = append(cc.keys, otherKey(m.seq[0], "member-as-key-on-set"))
		}
	case "map":
		m.ety = gen.Type(r, 2, to).Cty()
		m.keys = drawKeys(r, n)
		for range m.keys {
			m.vals = append(m.vals, gen.Value(r, m.ety, vo))
		}
		cc.keys = mapKeys(r, m)
	case "object":
		m.keys = drawKeys(r, n)
		for range m.keys {
			m.vals = append(m.vals, gen.Value(r, gen.Type(r, 2, to).Cty(), vo))
		}
		present := map[string]bool{}
		for _, k := range m.keys {
			present[nfc(k)] = true
			cc.attrs = append(cc.attrs, k, norm.NFC.String(k), norm.NFD.String(k))
			for _, near := range []string{k + "x", strings.ToUpper(k)} {
				cc.attrs = append(cc.attrs, near)
			}
		}
		cc.attrs = append(cc.attrs, absentKeyPool...)
		cc.keys = []probeKey{strKey("a", "string-key-on-object"), intKey(0, "number-key-on-object")}
		if len(m.keys) > 0 {
			cc.keys = append(cc.keys, strKey(m.keys[0], "attribute-name-as-key-on-object"))
		}
	}
	cc.m = m
	return cc
}

func sampledCollection(c *core.Ctx, idx int64, r *core.Rand) {
	cc := genCollCase(r)
	checkColl(c, idx, cc, true)
}
