package c20

import (
	"fmt"

	"github.com/zclconf/go-cty/cty"

	"verif/harness/core"
	"verif/harness/gen"
	"verif/harness/model"
)

// The fixed, seed-independent corpus (batch 0 of every run): boundary cases
// written from reading the code, including the witness of every genuine defect
// found so far, so that a repaired defect is re-detected if it ever returns.

func unkNum(lo int64) cty.Value {
	return cty.UnknownVal(cty.Number).Refine().NumberRangeLowerBound(cty.NumberIntVal(lo), true).NewValue()
}

func runCorpus(c *core.Ctx, base int64) {
	idx := base
	next := func() int64 { idx++; return idx }

	// ---- F-26: copies of a value set share their bucket slices. Three members in
	// one hash bucket (all unknown values hash alike) leave spare capacity in the
	// bucket; Add on the copy and on the original then write the same array slot.
	for _, ety := range memberTypes {
		i := next()
		if !c.Want(i) {
			continue
		}
		r := core.NewRand(uint64(i))
		h := &history{c: c, r: r}
		c.Begin(i, func() string {
			return fmt.Sprintf("scripted history: copies of a ValueSet<%#v> with three colliding members", ety)
		})
		pool := memberPool(r, ety)
		var coll []cty.Value // members that share one bucket
		for _, m := range pool {
			if !m.IsKnown() || ety.Equals(model.CapsuleA) && !m.IsNull() {
				coll = append(coll, m)
			}
		}
		if len(coll) < 5 {
			coll = append(coll, cty.UnknownVal(ety), cty.UnknownVal(ety), cty.UnknownVal(ety), cty.UnknownVal(ety), cty.UnknownVal(ety))
		}
		s := cty.NewValueSet(ety)
		s.Add(coll[0])
		s.Add(coll[1])
		s.Add(coll[2])
		s1 := h.add(&lobj{kind: kSet, s: s, pool: pool, via: "NewValueSet+Add x3"})
		h.check("corpus", fmt.Sprintf("%s = ValueSet<%#v>{3 members in one bucket}", s1.name, ety), nil)
		s2 := h.add(&lobj{kind: kSet, s: s1.s.Copy(), pool: pool, via: "ValueSet.Copy", from: []string{s1.name}})
		h.check("ValueSet.Copy", fmt.Sprintf("%s = %s.Copy()", s2.name, s1.name), nil)
		v1 := h.add(&lobj{kind: kVal, v: cty.SetValFromValueSet(s1.s), via: "cty.SetValFromValueSet", from: []string{s1.name}})
		h.check("cty.SetValFromValueSet", fmt.Sprintf("%s = SetValFromValueSet(%s)", v1.name, s1.name), nil)
		s1.s.Add(coll[3])
		h.check("ValueSet.Add", fmt.Sprintf("%s.Add(%#v)", s1.name, coll[3]), s1)
		v2 := h.add(&lobj{kind: kVal, v: cty.SetValFromValueSet(s1.s), via: "cty.SetValFromValueSet", from: []string{s1.name}})
		h.check("cty.SetValFromValueSet", fmt.Sprintf("%s = SetValFromValueSet(%s)", v2.name, s1.name), nil)
		s2.s.Add(coll[4])
		h.check("ValueSet.Add", fmt.Sprintf("%s.Add(%#v)", s2.name, coll[4]), s2)
		s3 := h.add(&lobj{kind: kSet, s: v1.v.AsValueSet(), pool: pool, via: "Value.AsValueSet", from: []string{v1.name}})
		h.check("Value.AsValueSet", fmt.Sprintf("%s = %s.AsValueSet()", s3.name, v1.name), nil)
		s3.s.Add(coll[4])
		h.check("ValueSet.Add", fmt.Sprintf("%s.Add(%#v)", s3.name, coll[4]), s3)
		s1.s.Remove(cty.NullVal(ety))
		h.check("ValueSet.Remove", fmt.Sprintf("%s.Remove(null)", s1.name), s1)
		c.Eval(8)
		c.Count("corpus:scripted-history")
		c.BulkDistinct(1)
	}

	// ---- F-27: Equals over objects / maps whose members compare unknown for one
	// key and False for another: the loop over the Go map decides which is seen first.
	u := cty.UnknownVal(cty.Number)
	one, two := cty.NumberIntVal(1), cty.NumberIntVal(2)
	eqPairs := [][2]cty.Value{
		{cty.ObjectVal(map[string]cty.Value{"a": u, "b": one}), cty.ObjectVal(map[string]cty.Value{"a": two, "b": two})},
		{cty.MapVal(map[string]cty.Value{"a": u, "b": one}), cty.MapVal(map[string]cty.Value{"a": two, "b": two})},
		{cty.ObjectVal(map[string]cty.Value{"a": u, "b": one, "c": one, "d": u}), cty.ObjectVal(map[string]cty.Value{"a": two, "b": two, "c": one, "d": one})},
		{cty.MapVal(map[string]cty.Value{"a": one, "b": one, "c": unkNum(5)}), cty.MapVal(map[string]cty.Value{"a": one, "b": two, "c": one})},
		{cty.ObjectVal(map[string]cty.Value{"x": cty.ObjectVal(map[string]cty.Value{"a": u, "b": one})}), cty.ObjectVal(map[string]cty.Value{"x": cty.ObjectVal(map[string]cty.Value{"a": two, "b": two})})},
		{cty.ListVal([]cty.Value{cty.MapVal(map[string]cty.Value{"a": u, "b": one})}), cty.ListVal([]cty.Value{cty.MapVal(map[string]cty.Value{"a": two, "b": two})})},
		{cty.ObjectVal(map[string]cty.Value{"a": u, "b": one}).Mark(gen.Marks[0]), cty.ObjectVal(map[string]cty.Value{"a": two, "b": two})},
		{cty.ObjectVal(map[string]cty.Value{"a": cty.DynamicVal, "b": one}), cty.ObjectVal(map[string]cty.Value{"a": two, "b": two})},
		{cty.TupleVal([]cty.Value{u, one}), cty.TupleVal([]cty.Value{two, two})},
	}
	for _, name := range []string{"Value.Equals", "Value.NotEqual", "stdlib.equal", "Value.RawEquals", "Value.HasElement", "stdlib.contains"} {
		for _, pr := range eqPairs {
			i := next()
			if !c.Want(i) {
				continue
			}
			op := opByName(name)
			x := &opctx{ptr: true, k: 1}
			x.v[0], x.v[1] = pr[0], pr[1]
			if name == "Value.HasElement" || name == "stdlib.contains" {
				x.v[0] = cty.SetVal([]cty.Value{deepUnmark(pr[0])})
				x.v[1] = deepUnmark(pr[1])
			}
			x.t[0], x.t[1] = cty.String, cty.Number
			x.s[0], x.s[1] = cty.NewValueSet(cty.Number), cty.NewValueSet(cty.Number)
			for k := 0; k < 4; k++ { // 4 x 8 repetitions
				runPurity(c, i, op, x)
			}
			c.Count("corpus:equality-over-go-maps")
		}
	}

	// ---- F-28: MapVal / ObjectVal given several spellings of one normalised key.
	nfc, nfd := "\u00e9", "e\u0301"
	sp1, sp2 := "e\u0301\u0323", "e\u0323\u0301" // two non-normalised spellings of one key
	keySets := [][]string{{nfc, nfd}, {nfd, nfc, "a"}, {sp1, sp2}, {sp1, sp2, "\u1eb9\u0301"}, {"a", nfd}}
	for _, ks := range keySets {
		for _, con := range []string{"cty.MapVal", "cty.ObjectVal", "cty.Object"} {
			i := next()
			if !c.Want(i) {
				continue
			}
			ks, con := ks, con
			op := &opDef{name: con, need: "vv", run: func(x *opctx) outcome {
				x.class = "several spellings of one normalised key"
				arg := map[string]cty.Value{}
				targ := map[string]cty.Type{}
				for j, k := range ks {
					arg[k] = cty.NumberIntVal(int64(j))
					targ[k] = []cty.Type{cty.Number, cty.String, cty.Bool}[j%3]
				}
				switch con {
				case "cty.MapVal":
					return outcome{vals: []cty.Value{cty.MapVal(arg)}}
				case "cty.ObjectVal":
					arg[ks[0]] = cty.StringVal("first")
					return outcome{vals: []cty.Value{cty.ObjectVal(arg)}}
				}
				return outcome{tys: []cty.Type{cty.Object(targ)}}
			}}
			x := &opctx{ptr: true}
			x.v[0], x.v[1] = cty.Zero, cty.Zero
			for k := 0; k < 4; k++ {
				runPurity(c, i, op, x)
			}
			c.Count("corpus:constructors-with-several-spellings-of-one-key")
		}
	}

	// ---- the refinement builder used again after NewValue
	for _, v := range []cty.Value{cty.UnknownVal(cty.Number), unkNum(1), cty.UnknownVal(cty.String), cty.UnknownVal(cty.String).Refine().StringPrefixFull("ab").NewValue(),
		cty.UnknownVal(cty.List(cty.String)), cty.UnknownVal(cty.Set(cty.Bool)).Refine().CollectionLengthUpperBound(5).NewValue(),
		cty.UnknownVal(cty.Bool), cty.UnknownVal(cty.EmptyObject), cty.UnknownVal(cty.Number).Mark(gen.Marks[1]), cty.DynamicVal, cty.NumberIntVal(5)} {
		for k := uint64(0); k < 8; k++ {
			i := next()
			if !c.Want(i) {
				continue
			}
			x := &opctx{ptr: true, k: k*64 + k%2}
			x.v[0], x.v[1] = v, v
			runPurity(c, i, opByName("Value.Refine"), x)
			c.Count("corpus:builder-reuse")
		}
	}

	// ---- GoString of values that carry several marks (the mark set is a Go map)
	for _, v := range []cty.Value{
		cty.StringVal("a").WithMarks(cty.NewValueMarks(gen.Marks[0], gen.Marks[1], gen.Marks[2])),
		cty.UnknownVal(cty.Tuple([]cty.Type{cty.String, cty.Bool})).WithMarks(cty.NewValueMarks(gen.Marks[1], gen.Marks[2])),
		cty.ListVal([]cty.Value{cty.NumberIntVal(1).WithMarks(cty.NewValueMarks(gen.Marks[0], gen.Marks[2]))}),
	} {
		i := next()
		if !c.Want(i) {
			continue
		}
		x := &opctx{ptr: true}
		x.v[0], x.v[1] = v, v
		for k := 0; k < 4; k++ {
			runPurity(c, i, opByName("Value.GoString"), x)
		}
		c.Count("corpus:gostring-of-several-marks")
	}

	// ---- every operation of the catalogue over a fixed pool
	r := core.NewRand(20)
	pool := buildPool(r, 160, 24, 12)
	for oi := range ops {
		for rep := 0; rep < 6; rep++ {
			i := next()
			rr := core.NewRand(uint64(i))
			if !c.Want(i) {
				continue
			}
			x := bindOperands(rr, pool, &ops[oi])
			runPurity(c, i, &ops[oi], x)
			c.Count("corpus:catalogue-over-fixed-pool")
		}
	}
	c.Exhaustive("every catalogue operation x 6 fixed operand tuples (corpus)")
}

func opByName(name string) *opDef {
	for i := range ops {
		if ops[i].name == name {
			return &ops[i]
		}
	}
	panic("no op " + name)
}
