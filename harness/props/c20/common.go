package c20

import (
	"fmt"
	"strings"

	"github.com/zclconf/go-cty/cty"

	"verif/harness/core"
)

// exec runs an operation under recover; a panic becomes the outcome (operation
// methods are documented to panic on misuse, so a panic is not a violation here,
// but it has to be the same panic every time).
func exec(op *opDef, x *opctx) outcome {
	var o outcome
	g := core.Guard(func() { o = op.run(x) })
	if g.Panicked {
		return outcome{text: "panic: " + core.PanicClass(g.PanicMsg)}
	}
	return o
}

// vpool is a fixed list of candidate operands with an index by type.
type vpool struct {
	vals   []cty.Value
	byType map[string][]int
	tys    []cty.Type
	sets   []cty.ValueSet
}

func (p *vpool) addVal(v cty.Value) int {
	if p.byType == nil {
		p.byType = map[string][]int{}
	}
	k := typeFP(v.Type())
	p.byType[k] = append(p.byType[k], len(p.vals))
	p.vals = append(p.vals, v)
	return len(p.vals) - 1
}

// buildPool draws nv values (each followed by variants of itself, so that
// equal-typed partners exist), nt types and ns value sets.
func buildPool(r *core.Rand, nv, nt, ns int) *vpool {
	p := &vpool{}
	for len(p.vals) < nv {
		v := genValue(r)
		p.addVal(v)
		for k := r.Intn(3); k > 0 && len(p.vals) < nv; k-- {
			var w cty.Value
			if g := core.Guard(func() { w = variant(r, v, 25) }); !g.Panicked {
				p.addVal(w)
			}
		}
	}
	// one guaranteed member of every operand class the operations prefer
	for _, t := range []cty.Type{cty.Number, cty.Bool, cty.String, cty.List(cty.String), cty.Set(cty.Number), cty.Map(cty.Number)} {
		p.addVal(genValueOf(r, t))
		p.addVal(cty.UnknownVal(t))
	}
	for len(p.tys) < nt {
		switch r.Intn(4) {
		case 0:
			p.tys = append(p.tys, p.vals[r.Intn(len(p.vals))].Type())
		case 1:
			o := typeOpts
			o.Optional = true
			p.tys = append(p.tys, genTypeOpt(r, 1+r.Intn(3), o))
		default:
			p.tys = append(p.tys, genType(r, 1+r.Intn(3)))
		}
	}
	for len(p.sets) < ns {
		s, _ := genValueSet(r)
		p.sets = append(p.sets, s)
	}
	return p
}

// pickIdx chooses operand indices for op from the pool: v0 by preference
// predicate, v1 of v0's type when the operation wants that.
func (p *vpool) pickIdx(r *core.Rand, op *opDef) (i0, i1 int) {
	i0 = r.Intn(len(p.vals))
	if op.p0 != nil {
		for try := 0; try < 40; try++ {
			j := r.Intn(len(p.vals))
			if op.p0(p.vals[j]) {
				i0 = j
				break
			}
		}
	}
	i1 = r.Intn(len(p.vals))
	if op.same {
		if c := p.byType[typeFP(p.vals[i0].Type())]; len(c) > 0 {
			i1 = c[r.Intn(len(c))]
		}
	}
	return
}

// operandClass is the coarse class of an operand used in violation signatures.
func operandClass(v cty.Value) string {
	var sb strings.Builder
	t := v.Type()
	switch {
	case t == cty.DynamicPseudoType:
		sb.WriteString("dynamic")
	case t.IsPrimitiveType():
		sb.WriteString(t.FriendlyName())
	case t.IsListType():
		sb.WriteString("list")
	case t.IsSetType():
		sb.WriteString("set")
	case t.IsMapType():
		sb.WriteString("map")
	case t.IsTupleType():
		sb.WriteString("tuple")
	case t.IsObjectType():
		sb.WriteString("object")
	case t.IsCapsuleType():
		sb.WriteString("capsule")
	}
	if v.ContainsMarked() {
		sb.WriteByte('*')
	}
	u, _ := v.UnmarkDeep()
	switch {
	case !u.IsKnown():
		sb.WriteString("(unknown)")
	case u.IsNull():
		sb.WriteString("(null)")
	case !u.IsWhollyKnown():
		sb.WriteString("(partly-unknown)")
	}
	return sb.String()
}

func needsVals(op *opDef) int { return strings.Count(op.need, "v") }
func needsTys(op *opDef) int  { return strings.Count(op.need, "t") }
func needsSets(op *opDef) int { return strings.Count(op.need, "s") }

func describeOperands(op *opDef, x *opctx) string {
	var parts []string
	for i := 0; i < needsVals(op); i++ {
		parts = append(parts, fmt.Sprintf("v%d=%#v", i, x.v[i]))
	}
	for i := 0; i < needsTys(op); i++ {
		parts = append(parts, fmt.Sprintf("t%d=%#v", i, x.t[i]))
	}
	for i := 0; i < needsSets(op); i++ {
		parts = append(parts, fmt.Sprintf("s%d=%s", i, describeSet(x.s[i])))
	}
	return fmt.Sprintf("%s[k=%d](%s)", op.name, x.k, strings.Join(parts, ", "))
}

func describeSet(s cty.ValueSet) string {
	var parts []string
	core.Guard(func() {
		for _, v := range s.Values() {
			parts = append(parts, fmt.Sprintf("%#v", v))
		}
	})
	return fmt.Sprintf("ValueSet<%#v>{%s}", s.ElementType(), strings.Join(parts, ", "))
}

func report(c *core.Ctx, fails []failure, witness string) {
	for _, f := range fails {
		c.Count("clause-failed:" + f.facet)
		c.Violate(f.site, f.facet, f.class, witness, f.detail)
	}
}
