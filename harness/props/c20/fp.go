package c20

import (
	"fmt"
	"math/big"
	"sort"
	"strings"

	"github.com/zclconf/go-cty/cty"

	"verif/harness/model"
)

// Public-API fingerprints: everything a value / type / value set *reports*
// through its exported accessors, written into one canonical string. They are
// the second flavour next to the hook fingerprints (cty.VerifFingerprint etc.),
// which dump the internal representation.
//
// withPtr selects whether the identity of capsule payloads (a Go pointer) is
// part of the fingerprint. Inside one process it is (plain capsule values are
// equal by identity); when two separately built corpora are compared (schedule
// stage, sequential baseline on a twin corpus) it is not.

func pubTypeFP(sb *strings.Builder, t cty.Type) {
	switch {
	case t == cty.NilType:
		sb.WriteString("nil")
	case t == cty.DynamicPseudoType:
		sb.WriteString("dyn")
	case t == cty.Bool:
		sb.WriteString("bool")
	case t == cty.Number:
		sb.WriteString("number")
	case t == cty.String:
		sb.WriteString("string")
	case t.IsListType():
		sb.WriteString("list(")
		pubTypeFP(sb, t.ElementType())
		sb.WriteByte(')')
	case t.IsSetType():
		sb.WriteString("set(")
		pubTypeFP(sb, t.ElementType())
		sb.WriteByte(')')
	case t.IsMapType():
		sb.WriteString("map(")
		pubTypeFP(sb, t.ElementType())
		sb.WriteByte(')')
	case t.IsTupleType():
		sb.WriteString("tuple(")
		ets := t.TupleElementTypes()
		if len(ets) != t.Length() {
			fmt.Fprintf(sb, "!len%d/%d", len(ets), t.Length())
		}
		for i, et := range ets {
			if !t.TupleElementType(i).Equals(et) {
				sb.WriteString("!elem-mismatch")
			}
			pubTypeFP(sb, et)
			sb.WriteByte(',')
		}
		sb.WriteByte(')')
	case t.IsObjectType():
		ats := t.AttributeTypes()
		names := make([]string, 0, len(ats))
		for k := range ats {
			names = append(names, k)
		}
		sort.Strings(names)
		sb.WriteString("object(")
		for _, k := range names {
			fmt.Fprintf(sb, "%q", k)
			if t.AttributeOptional(k) {
				sb.WriteByte('?')
			}
			if !t.HasAttribute(k) {
				sb.WriteString("!missing")
			}
			sb.WriteByte(':')
			pubTypeFP(sb, ats[k])
			sb.WriteByte(',')
		}
		fmt.Fprintf(sb, "opt%d)", len(t.OptionalAttributes()))
	case t.IsCapsuleType():
		fmt.Fprintf(sb, "capsule(%s %s)", t.FriendlyName(), t.EncapsulatedType())
	default:
		fmt.Fprintf(sb, "?%#v", t)
	}
}

func typeFP(t cty.Type) string {
	var sb strings.Builder
	pubTypeFP(&sb, t)
	return sb.String()
}

func bigFP(f *big.Float) string {
	if f == nil {
		return "num(nil)"
	}
	return fmt.Sprintf("num(%s prec=%d mode=%d neg=%t)", f.Text('p', 0), f.Prec(), f.Mode(), f.Signbit())
}

func marksFP(m cty.ValueMarks) string {
	if m == nil {
		return "nomarks"
	}
	ms := make([]string, 0, len(m))
	for k := range m {
		ms = append(ms, fmt.Sprintf("%#v", k))
	}
	sort.Strings(ms)
	return "marks{" + strings.Join(ms, ";") + "}"
}

func pubValFP(sb *strings.Builder, v cty.Value, withPtr bool) {
	if v == cty.NilVal {
		sb.WriteString("NilVal")
		return
	}
	if v.IsMarked() {
		sb.WriteString(marksFP(v.Marks()))
		sb.WriteByte('|')
		u, m2 := v.Unmark()
		if u.IsMarked() {
			sb.WriteString("!still-marked")
			return
		}
		if marksFP(m2) != marksFP(v.Marks()) {
			sb.WriteString("!unmark-marks-differ")
		}
		v = u
	}
	ty := v.Type()
	pubTypeFP(sb, ty)
	sb.WriteByte('=')
	if !v.IsKnown() {
		sb.WriteString("unknown<")
		rng := v.Range()
		fmt.Fprintf(sb, "nn=%t cbn=%t tc=", rng.DefinitelyNotNull(), rng.CouldBeNull())
		pubTypeFP(sb, rng.TypeConstraint())
		switch {
		case ty == cty.Number:
			lo, loInc := rng.NumberLowerBound()
			hi, hiInc := rng.NumberUpperBound()
			sb.WriteString(" lo=")
			pubValFP(sb, lo, withPtr)
			fmt.Fprintf(sb, "/%t hi=", loInc)
			pubValFP(sb, hi, withPtr)
			fmt.Fprintf(sb, "/%t", hiInc)
		case ty == cty.String:
			fmt.Fprintf(sb, " prefix=%q", rng.StringPrefix())
		case ty.IsCollectionType():
			fmt.Fprintf(sb, " len=%d..%d", rng.LengthLowerBound(), rng.LengthUpperBound())
		}
		// GoString is the only public view that tells a trivially refined
		// unknown from an unrefined one; it is part of what the value reports.
		fmt.Fprintf(sb, " gs=%s>", v.GoString())
		return
	}
	if v.IsNull() {
		sb.WriteString("null")
		return
	}
	switch {
	case ty == cty.Bool:
		fmt.Fprintf(sb, "%t", v.True())
	case ty == cty.Number:
		sb.WriteString(bigFP(v.AsBigFloat()))
	case ty == cty.String:
		fmt.Fprintf(sb, "%q", v.AsString())
	case ty.IsListType() || ty.IsTupleType() || ty.IsMapType() || ty.IsObjectType():
		fmt.Fprintf(sb, "len%d[", v.LengthInt())
		for it := v.ElementIterator(); it.Next(); {
			k, ev := it.Element()
			if k.Type() == cty.String {
				fmt.Fprintf(sb, "%q:", k.AsString())
			} else {
				sb.WriteString(k.AsBigFloat().Text('g', -1))
				sb.WriteByte(':')
			}
			pubValFP(sb, ev, withPtr)
			sb.WriteByte(',')
		}
		sb.WriteByte(']')
	case ty.IsSetType():
		fmt.Fprintf(sb, "len%d{", v.LengthInt())
		for it := v.ElementIterator(); it.Next(); {
			_, ev := it.Element()
			pubValFP(sb, ev, withPtr)
			sb.WriteByte(',')
		}
		sb.WriteByte('}')
	case ty.IsCapsuleType():
		p := v.EncapsulatedValue()
		if withPtr {
			fmt.Fprintf(sb, "caps(%d %p)", model.CapX(v), p)
		} else {
			fmt.Fprintf(sb, "caps(%d)", model.CapX(v))
		}
	default:
		fmt.Fprintf(sb, "?%#v", v)
	}
}

// valFP is the public-API fingerprint of a value. A panic inside an accessor
// becomes part of the fingerprint (so it is compared like any other report).
func valFP(v cty.Value, withPtr bool) (out string) {
	var sb strings.Builder
	defer func() {
		if p := recover(); p != nil {
			out = sb.String() + fmt.Sprintf("!accessor-panic(%v)", p)
		}
	}()
	pubValFP(&sb, v, withPtr)
	return sb.String()
}

func setFP(s cty.ValueSet, withPtr bool) (out string) {
	var sb strings.Builder
	defer func() {
		if p := recover(); p != nil {
			out = sb.String() + fmt.Sprintf("!accessor-panic(%v)", p)
		}
	}()
	sb.WriteString("valueset<")
	pubTypeFP(&sb, s.ElementType())
	vals := s.Values()
	fmt.Fprintf(&sb, ">len%d/%d{", s.Length(), len(vals))
	for _, ev := range vals {
		pubValFP(&sb, ev, withPtr)
		if !s.Has(ev) && ev.IsWhollyKnown() {
			sb.WriteString("!not-Has")
		}
		sb.WriteByte(',')
	}
	sb.WriteByte('}')
	return sb.String()
}

// hook fingerprints (internal state), guarded.
func hookValFP(v cty.Value) (out string) {
	defer func() {
		if p := recover(); p != nil {
			out = fmt.Sprintf("!hook-panic(%v)", p)
		}
	}()
	if v == cty.NilVal {
		return "NilVal"
	}
	return string(cty.VerifFingerprint(v))
}

func hookTypeFP(t cty.Type) (out string) {
	defer func() {
		if p := recover(); p != nil {
			out = fmt.Sprintf("!hook-panic(%v)", p)
		}
	}()
	return string(cty.VerifTypeFingerprint(t))
}

func hookSetFP(s cty.ValueSet) (out string) {
	defer func() {
		if p := recover(); p != nil {
			out = fmt.Sprintf("!hook-panic(%v)", p)
		}
	}()
	return string(cty.VerifValueSetFingerprint(s))
}

// pathFP prints a path through its exported step types.
func pathFP(p cty.Path) string {
	var sb strings.Builder
	for _, st := range p {
		switch s := st.(type) {
		case cty.GetAttrStep:
			fmt.Fprintf(&sb, ".%q", s.Name)
		case cty.IndexStep:
			sb.WriteByte('[')
			sb.WriteString(valFP(s.Key, false))
			sb.WriteByte(']')
		default:
			fmt.Fprintf(&sb, "?%T", st)
		}
	}
	return sb.String()
}

func firstDiff(a, b string) string {
	n := len(a)
	if len(b) < n {
		n = len(b)
	}
	i := 0
	for i < n && a[i] == b[i] {
		i++
	}
	lo := i - 60
	if lo < 0 {
		lo = 0
	}
	cut := func(s string) string {
		hi := i + 100
		if hi > len(s) {
			hi = len(s)
		}
		return s[lo:hi]
	}
	return fmt.Sprintf("first difference at byte %d: ...%s... vs ...%s...", i, cut(a), cut(b))
}
