package c20

import (
	"math/big"

	"github.com/zclconf/go-cty/cty"
	"github.com/zclconf/go-cty/cty/gocty"
)

// Go-value bridging seen from the immutability side: Go data handed to
// gocty.ToCtyValue is mutated afterwards, Go data filled in by
// gocty.FromCtyValue is mutated afterwards; no cty value may change.

func goctyOps() []opDef {
	return []opDef{
		{name: "gocty.ToCtyValue", need: "v", p0: knownNN(isNum), run: func(x *opctx) outcome {
			var o outcome
			f := new(big.Float).SetPrec(128).SetInt64(int64(x.k%1000) + 3)
			if u, _ := x.v[0].Unmark(); u.Type() == cty.Number && u.IsKnown() && !u.IsNull() {
				f = u.AsBigFloat()
			}
			i := new(big.Int).SetUint64(x.k | 1<<63)
			strs := []string{"a", "b", stringsPool[int(x.k%uint64(len(stringsPool)))]}
			m := map[string]int{"a": 1, "b": int(x.k % 7)}
			var vals []cty.Value
			add := func(v cty.Value, err error) {
				o.addf("%s", errText(err))
				if err == nil {
					vals = append(vals, v)
				}
			}
			add(gocty.ToCtyValue(f, cty.Number))
			add(gocty.ToCtyValue(*f, cty.Number))
			add(gocty.ToCtyValue(i, cty.Number))
			add(gocty.ToCtyValue(strs, cty.List(cty.String)))
			add(gocty.ToCtyValue(strs, cty.Set(cty.String)))
			add(gocty.ToCtyValue(m, cty.Map(cty.Number)))
			x.unchanged("gocty.ToCtyValue", "the Go data passed to the constructor", vals, nil, func() {
				f.SetInt64(7)
				f.Neg(f)
				i.SetInt64(9)
				strs[0] = "mutated"
				m["a"] = 99
				delete(m, "b")
			})
			o.vals = vals
			return o
		}},
		{name: "gocty.FromCtyValue", need: "v", run: func(x *opctx) outcome {
			var o outcome
			u := deepUnmark(x.v[0])
			var bf big.Float
			var bi big.Int
			var strs []string
			var ms map[string]string
			var vs []cty.Value
			var vm map[string]cty.Value
			o.addf("%s", errText(gocty.FromCtyValue(u, &bf)))
			o.addf("%s", errText(gocty.FromCtyValue(u, &bi)))
			o.addf("%s", errText(gocty.FromCtyValue(u, &strs)))
			o.addf("%s", errText(gocty.FromCtyValue(u, &ms)))
			o.addf("%s", errText(gocty.FromCtyValue(u, &vs)))
			o.addf("%s", errText(gocty.FromCtyValue(u, &vm)))
			o.addf("%s %s %q %d %d", bigFP(&bf), bi.String(), strs, len(ms), len(vm))
			o.vals = append(o.vals, vs...)
			x.unchanged("gocty.FromCtyValue", "the Go data filled in by the decoder", []cty.Value{x.v[0], u}, nil, func() {
				bf.SetInt64(7)
				bf.Neg(&bf)
				bi.SetInt64(9)
				for j := range strs {
					strs[j] = "mutated"
				}
				for k := range ms {
					delete(ms, k)
				}
				for j := range vs {
					vs[j] = cty.True
				}
				for k := range vm {
					delete(vm, k)
				}
			})
			return o
		}},
	}
}
